# /verif — build everything the checks need, from files on disk, offline.
SHELL := /bin/bash
export GOFLAGS := -mod=mod
export GOPROXY := off
unexport GOTOOLCHAIN
unexport GOSUMDB

.PHONY: setup go2coq gen coq harness manifest clean

setup: go2coq gen coq harness

go2coq:
	@if [ -f tools/go2coq/main.go ]; then (cd tools/go2coq && go build -o go2coq .) || echo 'WARNING: go2coq did not build'; fi

# regenerate every translated Gallina file from /repo's current source
gen: go2coq
	@python3 tools/regen.py || echo 'WARNING: go2coq failed for some property; its ./check will report it'

coq:
	cd coq && ./mkproject.sh && (timeout 3000 $(MAKE) -k -j16 || echo 'WARNING: some Coq files did not build; each ./check rebuilds and reports its own targets')

# warm the Go build cache: compile every harness test binary once (tag verif)
harness:
	cp /repo/go.sum harness/go.sum
	cd harness && go vet -tags verif ./... >/dev/null 2>&1 || true
	cd harness && (go test -tags verif -count=1 -run XXX_NONE ./... || echo 'WARNING: some harness packages did not build; each ./check reports its own')

manifest:
	python3 tools/mkmanifest.py

clean:
	cd coq && [ -f Makefile ] && $(MAKE) clean || true
	rm -rf out
