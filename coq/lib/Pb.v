(** Pb.v — the protobuf wire-format subset used by dag-pb and UnixFS:
    varint (wire type 0), fixed64 (1), length-delimited (2), fixed32 (5).
    Bytes are [list Z]; integers [Z].

    [emit fs]    serialises a list of (field number, wire value) in the given order;
    [parse bs]   splits a message into its fields (any order, unknown numbers
                 kept, group wire types 3/4 and invalid types 6/7 rejected, field
                 number 0 rejected, truncated input rejected);
    [parse_emit] parse (emit fs) = Some fs for well-formed fields;
    [emit_length]/[field_size] exact sizes.
    Stdlib only, no axioms. *)
From Coq Require Import ZArith List Lia Bool.
From V Require Import lib.Varint.
Import ListNotations.
Open Scope Z_scope.

Definition blen {A} (l : list A) : Z := Z.of_nat (length l).

(** little-endian fixed-width integers *)
Fixpoint le (n : nat) (v : Z) : list Z :=
  match n with
  | O => []
  | S n' => v mod 256 :: le n' (v / 256)
  end.
Fixpoint unle (bs : list Z) : Z :=
  match bs with
  | [] => 0
  | b :: r => b + 256 * unle r
  end.

Inductive wval :=
| WVarint (v : Z)
| WFixed64 (v : Z)
| WBytes (bs : list Z)
| WFixed32 (v : Z).

Definition field := (Z * wval)%type.

Definition wtype (w : wval) : Z :=
  match w with WVarint _ => 0 | WFixed64 _ => 1 | WBytes _ => 2 | WFixed32 _ => 5 end.

Definition tag (num wt : Z) : Z := num * 8 + wt.

Definition emit_val (w : wval) : list Z :=
  match w with
  | WVarint v => enc v
  | WFixed64 v => le 8 v
  | WBytes bs => enc (blen bs) ++ bs
  | WFixed32 v => le 4 v
  end.

Definition emit_field (f : field) : list Z :=
  enc (tag (fst f) (wtype (snd f))) ++ emit_val (snd f).

Definition emit (fs : list field) : list Z := flat_map emit_field fs.

(** sizes *)
Definition val_size (w : wval) : Z :=
  match w with
  | WVarint v => vlen v
  | WFixed64 _ => 8
  | WBytes bs => vlen (blen bs) + blen bs
  | WFixed32 _ => 4
  end.
Definition field_size (f : field) : Z := vlen (tag (fst f) (wtype (snd f))) + val_size (snd f).
Definition fields_size (fs : list field) : Z := fold_right (fun f a => field_size f + a) 0 fs.

(** parsing *)
Definition max_fnum : Z := 536870912.  (* 2^29: valid field numbers are 1 .. 2^29-1 *)

Definition split_at (n : Z) (bs : list Z) : option (list Z * list Z) :=
  if (0 <=? n) && (n <=? blen bs)
  then Some (firstn (Z.to_nat n) bs, skipn (Z.to_nat n) bs) else None.

Definition parse_field (bs : list Z) : option (field * list Z) :=
  match dec64 bs with
  | None => None
  | Some (t, r) =>
      let num := t / 8 in
      let wt := t mod 8 in
      if (num <? 1) || (max_fnum <=? num) then None else
      if wt =? 0 then
        match dec64 r with
        | Some (v, r') => Some ((num, WVarint v), r')
        | None => None
        end
      else if wt =? 1 then
        match split_at 8 r with
        | Some (p, r') => Some ((num, WFixed64 (unle p)), r')
        | None => None
        end
      else if wt =? 2 then
        match dec64 r with
        | Some (n, r') =>
            match split_at n r' with
            | Some (p, r'') => Some ((num, WBytes p), r'')
            | None => None
            end
        | None => None
        end
      else if wt =? 5 then
        match split_at 4 r with
        | Some (p, r') => Some ((num, WFixed32 (unle p)), r')
        | None => None
        end
      else None
  end.

Fixpoint parse_aux (fuel : nat) (bs : list Z) : option (list field) :=
  match bs with
  | [] => Some []
  | _ =>
      match fuel with
      | O => None
      | S fuel' =>
          match parse_field bs with
          | None => None
          | Some (f, r) =>
              match parse_aux fuel' r with
              | None => None
              | Some l => Some (f :: l)
              end
          end
      end
  end.

(** every field consumes at least one byte, so [length bs] is enough fuel
    ([parse_aux_fuel]) *)
Definition parse (bs : list Z) : option (list field) := parse_aux (length bs) bs.

(** packed repeated varints (the payload of a length-delimited field) *)
Fixpoint unpack_aux (fuel : nat) (bs : list Z) : option (list Z) :=
  match bs with
  | [] => Some []
  | _ =>
      match fuel with
      | O => None
      | S fuel' =>
          match dec64 bs with
          | None => None
          | Some (v, r) =>
              match unpack_aux fuel' r with
              | None => None
              | Some l => Some (v :: l)
              end
          end
      end
  end.
Definition unpack (bs : list Z) : option (list Z) := unpack_aux (length bs) bs.

(** well-formed fields: what an emitter can produce *)
Definition wf_val (w : wval) : Prop :=
  match w with
  | WVarint v => 0 <= v < two64
  | WFixed64 v => 0 <= v < two64
  | WBytes bs => blen bs < two64
  | WFixed32 v => 0 <= v < 4294967296
  end.
Definition wf_field (f : field) : Prop := 1 <= fst f < max_fnum /\ wf_val (snd f).

Arguments max_fnum : simpl never.

(* ------------------------------------------------------------------ *)

Lemma blen_nonneg {A} (l : list A) : 0 <= blen l.
Proof. unfold blen. lia. Qed.

Lemma blen_app {A} (a b : list A) : blen (a ++ b) = blen a + blen b.
Proof. unfold blen. rewrite app_length. lia. Qed.

Lemma blen_cons {A} (x : A) l : blen (x :: l) = 1 + blen l.
Proof. unfold blen. cbn [length]. lia. Qed.

Lemma blen_nil {A} : blen (@nil A) = 0.
Proof. reflexivity. Qed.

Lemma le_length : forall n v, length (le n v) = n.
Proof. induction n as [|n IH]; intro v; cbn [le length]; [reflexivity|]. rewrite IH. reflexivity. Qed.

Lemma unle_le : forall n v, unle (le n v) = v mod 256 ^ Z.of_nat n.
Proof.
  induction n as [|n IH]; intro v.
  - cbn [le unle]. change (256 ^ Z.of_nat 0) with 1. rewrite Z.mod_1_r. reflexivity.
  - cbn [le unle]. rewrite IH, Nat2Z.inj_succ, Z.pow_succ_r by lia.
    rewrite Z.rem_mul_r by (try lia; apply Z.pow_nonzero; lia). reflexivity.
Qed.

Lemma le_bytes : forall n v, Forall (fun b => 0 <= b < 256) (le n v).
Proof.
  induction n as [|n IH]; intro v; cbn [le]; constructor; [|apply IH].
  apply Z.mod_pos_bound. lia.
Qed.

Lemma split_at_app : forall (p r : list Z), split_at (blen p) (p ++ r) = Some (p, r).
Proof.
  intros p r. unfold split_at.
  pose proof (blen_nonneg p). pose proof (blen_nonneg r). rewrite blen_app.
  destruct (Z.leb_spec 0 (blen p)); [|lia].
  destruct (Z.leb_spec (blen p) (blen p + blen r)); [|lia]. cbn [andb].
  unfold blen. rewrite Nat2Z.id.
  rewrite firstn_app, skipn_app, Nat.sub_diag, firstn_all, skipn_all. cbn [firstn skipn].
  rewrite app_nil_r. reflexivity.
Qed.

Lemma split_at_length : forall n bs p r,
  split_at n bs = Some (p, r) -> bs = p ++ r /\ blen p = n.
Proof.
  intros n bs p r E. unfold split_at in E.
  destruct (Z.leb_spec 0 n); cbn [andb] in E; [|discriminate].
  destruct (Z.leb_spec n (blen bs)); [|discriminate].
  injection E as <- <-. split; [symmetry; apply firstn_skipn|].
  unfold blen in *. rewrite firstn_length. lia.
Qed.

Lemma emit_val_length : forall w, wf_val w -> blen (emit_val w) = val_size w.
Proof.
  intros [v|v|bs|v] H; cbn [emit_val val_size wf_val] in *.
  - unfold blen. apply enc_length. lia.
  - unfold blen. rewrite le_length. reflexivity.
  - rewrite blen_app. unfold blen at 1. rewrite enc_length by apply blen_nonneg. reflexivity.
  - unfold blen. rewrite le_length. reflexivity.
Qed.

Lemma wtype_range : forall w, 0 <= wtype w < 8.
Proof. destruct w; cbn; lia. Qed.

Lemma emit_field_length : forall f, wf_field f -> blen (emit_field f) = field_size f.
Proof.
  intros [num w] [Hn Hw]. unfold emit_field, field_size. cbn [fst snd] in *.
  rewrite blen_app, emit_val_length by assumption.
  unfold blen. rewrite enc_length; [reflexivity|].
  pose proof (wtype_range w). unfold tag. lia.
Qed.

(** exact size of a message *)
Lemma emit_length : forall fs, Forall wf_field fs -> blen (emit fs) = fields_size fs.
Proof.
  induction fs as [|f fs IH]; intro H; [reflexivity|].
  inversion H as [|? ? Hf Hfs]; subst.
  unfold emit in *. cbn [flat_map fields_size fold_right].
  rewrite blen_app, emit_field_length, IH by assumption. reflexivity.
Qed.

Lemma fields_size_app : forall a b, fields_size (a ++ b) = fields_size a + fields_size b.
Proof.
  unfold fields_size. induction a as [|f a IH]; intro b; cbn [app fold_right]; [reflexivity|].
  rewrite IH. lia.
Qed.

Lemma emit_app : forall a b, emit (a ++ b) = emit a ++ emit b.
Proof. intros. unfold emit. apply flat_map_app. Qed.

Lemma tag_div : forall num w, (tag num (wtype w)) / 8 = num.
Proof.
  intros. unfold tag. pose proof (wtype_range w). symmetry.
  apply (Z.div_unique_pos _ 8 num (wtype w)); lia.
Qed.
Lemma tag_mod : forall num w, (tag num (wtype w)) mod 8 = wtype w.
Proof.
  intros. unfold tag. pose proof (wtype_range w). symmetry.
  apply (Z.mod_unique_pos _ 8 num (wtype w)); lia.
Qed.

Lemma parse_field_emit : forall f r, wf_field f -> parse_field (emit_field f ++ r) = Some (f, r).
Proof.
  intros [num w] r [Hn Hw]. cbn [fst snd] in *.
  unfold emit_field, parse_field. cbn [fst snd]. rewrite <- app_assoc.
  pose proof (wtype_range w) as Hwt.
  rewrite dec64_enc by (unfold tag, max_fnum, two64 in *; lia).
  rewrite tag_div, tag_mod.
  destruct (Z.ltb_spec num 1); [lia|]. destruct (Z.leb_spec max_fnum num); [lia|]. cbn [orb].
  destruct w as [v|v|bs|v]; cbn [wtype emit_val wf_val Z.eqb Pos.eqb] in *.
  - rewrite dec64_enc by assumption. reflexivity.
  - replace 8 with (blen (le 8 v)) at 1 by (unfold blen; rewrite le_length; reflexivity).
    rewrite split_at_app.
    rewrite unle_le. change (256 ^ Z.of_nat 8) with two64. rewrite Z.mod_small by assumption.
    reflexivity.
  - rewrite <- app_assoc. rewrite dec64_enc by (pose proof (blen_nonneg bs); lia).
    rewrite split_at_app. reflexivity.
  - replace 4 with (blen (le 4 v)) at 1 by (unfold blen; rewrite le_length; reflexivity).
    rewrite split_at_app.
    rewrite unle_le. change (256 ^ Z.of_nat 4) with 4294967296. rewrite Z.mod_small by assumption.
    reflexivity.
Qed.

Lemma emit_field_nonempty : forall f, emit_field f <> [].
Proof.
  intros f E. unfold emit_field in E. apply app_eq_nil in E. destruct E as [E _].
  exact (enc_nonempty _ E).
Qed.

Lemma parse_aux_emit : forall fs fuel,
  Forall wf_field fs -> (length (emit fs) <= fuel)%nat ->
  parse_aux fuel (emit fs) = Some fs.
Proof.
  induction fs as [|f fs IH]; intros fuel H Hf.
  - destruct fuel; reflexivity.
  - inversion H as [|? ? Hwf Hfs]; subst.
    unfold emit in *. cbn [flat_map] in *.
    destruct (emit_field f ++ flat_map emit_field fs) as [|b bs] eqn:E.
    { apply app_eq_nil in E. destruct E as [E _]. destruct (emit_field_nonempty _ E). }
    rewrite <- E in *. clear E b bs.
    rewrite app_length in Hf.
    assert (0 < length (emit_field f))%nat.
    { destruct (emit_field f) eqn:E; [destruct (emit_field_nonempty _ E)|cbn; lia]. }
    destruct fuel as [|fuel]; [lia|].
    cbn [parse_aux].
    destruct (emit_field f ++ flat_map emit_field fs) as [|b bs] eqn:E.
    { apply app_eq_nil in E. destruct E as [E _]. destruct (emit_field_nonempty _ E). }
    rewrite <- E. rewrite parse_field_emit by assumption.
    rewrite (IH fuel) by (try assumption; lia). reflexivity.
Qed.

(** round trip: a serialised message parses back to its fields *)
Theorem parse_emit : forall fs, Forall wf_field fs -> parse (emit fs) = Some fs.
Proof. intros fs H. unfold parse. apply parse_aux_emit; [assumption|lia]. Qed.

(** fuel adequacy: more fuel never changes a successful or failed parse once
    the fuel covers the input length *)
Lemma parse_field_shorter : forall bs f r, parse_field bs = Some (f, r) -> (length r < length bs)%nat.
Proof.
  intros bs f r E. unfold parse_field in E.
  destruct (dec64 bs) as [[t r0]|] eqn:E0; [|discriminate].
  apply dec64_shorter in E0.
  destruct ((t / 8 <? 1) || (max_fnum <=? t / 8)); [discriminate|].
  destruct (t mod 8 =? 0).
  { destruct (dec64 r0) as [[v r1]|] eqn:E1; [|discriminate]. apply dec64_shorter in E1.
    injection E as _ <-. lia. }
  destruct (t mod 8 =? 1).
  { destruct (split_at 8 r0) as [[p r1]|] eqn:E1; [|discriminate].
    apply split_at_length in E1. destruct E1 as [-> _]. injection E as _ <-.
    rewrite app_length in E0. lia. }
  destruct (t mod 8 =? 2).
  { destruct (dec64 r0) as [[n r1]|] eqn:E1; [|discriminate]. apply dec64_shorter in E1.
    destruct (split_at n r1) as [[p r2]|] eqn:E2; [|discriminate].
    apply split_at_length in E2. destruct E2 as [-> _]. injection E as _ <-.
    rewrite app_length in E1. lia. }
  destruct (t mod 8 =? 5); [|discriminate].
  destruct (split_at 4 r0) as [[p r1]|] eqn:E1; [|discriminate].
  apply split_at_length in E1. destruct E1 as [-> _]. injection E as _ <-.
  rewrite app_length in E0. lia.
Qed.

Lemma parse_aux_fuel : forall fuel1 fuel2 bs,
  (length bs <= fuel1)%nat -> (length bs <= fuel2)%nat ->
  parse_aux fuel1 bs = parse_aux fuel2 bs.
Proof.
  induction fuel1 as [|f1 IH]; intros fuel2 bs H1 H2.
  - destruct bs; [destruct fuel2; reflexivity|cbn in H1; lia].
  - destruct bs as [|b bs]; [destruct fuel2; reflexivity|].
    destruct fuel2 as [|f2]; [cbn in H2; lia|].
    cbn [parse_aux]. destruct (parse_field (b :: bs)) as [[f r]|] eqn:E; [|reflexivity].
    apply parse_field_shorter in E. cbn [length] in *.
    rewrite (IH f2 r) by lia. reflexivity.
Qed.

Example parse_ex : parse [8; 150; 1; 18; 2; 104; 105; 21; 1; 0; 0; 0] =
  Some [(1, WVarint 150); (2, WBytes [104; 105]); (2, WFixed32 1)].
Proof. reflexivity. Qed.
Example parse_truncated : parse [18; 5; 104] = None. Proof. reflexivity. Qed.
