(** Bloom filters with an ARBITRARY position oracle, and growing chains of them.

    A filter is the set of bit positions that are set (a list).  The probe
    positions of a key in the [i]-th filter of a chain are given by an oracle
    [pos i k : list N] about which nothing is assumed (every filter of a real
    chain has its own random hash keys, hence the index).  A chain is the list
    of older filters (oldest first) plus the current one, the designed capacity
    of the current one, and counters.  [visit] is "check the older filters, then
    add-if-not-present on the current one, count, grow when the insert count
    exceeds the capacity" - the shape of boxo's dag/walker BloomTracker.Visit
    (ipfs/bbloom's AddIfNotHas sets all probe bits and reports whether one of
    them was clear before).

    Proved here for every oracle, every growth factor, every initial capacity
    (so: across any number of growth steps) and every key sequence:
    a key that has been visited is reported present ever after, and visiting
    it again returns false (no false negatives).  Created for C13. *)
From Coq Require Import List Arith NArith Bool Lia.
Import ListNotations.

Section Bloom.
  Variable key : Type.
  Variable pos : nat -> key -> list N.
  Variable gf : N.                       (* growth factor of the capacity *)

  Definition filter := list N.

  Definition bit (f : filter) (p : N) : bool := existsb (N.eqb p) f.
  Definition fhas (i : nat) (f : filter) (k : key) : bool := forallb (bit f) (pos i k).
  Definition fadd (i : nat) (f : filter) (k : key) : filter := pos i k ++ f.

  Record chain := mkChain {
    older : list filter;      (* oldest first *)
    cur : filter;             (* newest filter, index [length older] *)
    last_cap : N;             (* designed capacity of [cur] *)
    cur_ins : N;              (* inserts into [cur] *)
    total_ins : N;            (* inserts into the whole chain *)
    dedup : N                 (* visits that returned false *)
  }.

  Definition empty_chain (cap : N) : chain := mkChain [] [] cap 0 0 0.

  Fixpoint has_from (i : nat) (fs : list filter) (k : key) : bool :=
    match fs with
    | [] => false
    | f :: r => fhas i f k || has_from (S i) r k
    end.

  (** BloomTracker.Has: any filter of the chain, oldest first *)
  Definition has (s : chain) (k : key) : bool := has_from 0 (older s ++ [cur s]) k.

  Definition grow (s : chain) : chain :=
    mkChain (older s ++ [cur s]) [] (last_cap s * gf) 0 (total_ins s) (dedup s).

  Definition dup (s : chain) : chain :=
    mkChain (older s) (cur s) (last_cap s) (cur_ins s) (total_ins s) (N.succ (dedup s)).

  (** BloomTracker.Visit *)
  Definition visit (s : chain) (k : key) : bool * chain :=
    if has_from 0 (older s) k then (false, dup s)
    else
      let i := length (older s) in
      if fhas i (cur s) k then (false, dup s)       (* AddIfNotHas = false: every bit was set already *)
      else
        let s1 := mkChain (older s) (fadd i (cur s) k) (last_cap s)
                          (N.succ (cur_ins s)) (N.succ (total_ins s)) (dedup s) in
        (true, if (last_cap s1 <? cur_ins s1)%N then grow s1 else s1).

  Definition visits (s : chain) (ks : list key) : chain :=
    fold_left (fun s k => snd (visit s k)) ks s.

  (** the counters, as a function of the visit outcome alone *)
  Definition counters (s : chain) : nat * N * N * N * N :=
    (length (older s), last_cap s, cur_ins s, total_ins s, dedup s).

  Definition cstep (fresh : bool) (c : nat * N * N * N * N) : nat * N * N * N * N :=
    let '(n, cap, ci, tot, dd) := c in
    if fresh then
      if (cap <? N.succ ci)%N then (S n, (cap * gf)%N, 0%N, N.succ tot, dd)
      else (n, cap, N.succ ci, N.succ tot, dd)
    else (n, cap, ci, tot, N.succ dd).

  (** ---------------- proofs ---------------- *)

  Lemma bit_app : forall a b p, bit (a ++ b) p = bit a p || bit b p.
  Proof. intros a b p. unfold bit. apply existsb_app. Qed.

  Lemma bit_self : forall l p, In p l -> bit l p = true.
  Proof.
    intros l p Hin. unfold bit. apply existsb_exists. exists p. split; [exact Hin | apply N.eqb_refl].
  Qed.

  Lemma fhas_fadd : forall i f k, fhas i (fadd i f k) k = true.
  Proof.
    intros i f k. unfold fhas, fadd. apply forallb_forall. intros p Hp.
    rewrite bit_app, (bit_self _ _ Hp). reflexivity.
  Qed.

  Lemma fhas_mono : forall i j f k k', fhas i f k = true -> fhas i (fadd j f k') k = true.
  Proof.
    intros i j f k k' H. unfold fhas, fadd in *. rewrite forallb_forall in *.
    intros p Hp. rewrite bit_app, (H p Hp). apply orb_true_r.
  Qed.

  Lemma has_from_app : forall a b i k,
    has_from i (a ++ b) k = has_from i a k || has_from (i + length a) b k.
  Proof.
    induction a as [|f a IH]; intros b i k; cbn [app has_from length].
    - rewrite Nat.add_0_r. reflexivity.
    - rewrite IH, orb_assoc. replace (S i + length a) with (i + S (length a)) by lia. reflexivity.
  Qed.

  Lemma has_split : forall s k,
    has s k = has_from 0 (older s) k || fhas (length (older s)) (cur s) k.
  Proof.
    intros s k. unfold has. rewrite has_from_app. cbn [has_from Nat.add]. rewrite orb_false_r. reflexivity.
  Qed.

  Lemma has_grow_mono : forall s k, has s k = true -> has (grow s) k = true.
  Proof.
    intros s k H. rewrite (has_split (grow s)). cbn [grow older cur].
    change (has_from 0 (older s ++ [cur s]) k) with (has s k). rewrite H. reflexivity.
  Qed.

  Lemma has_dup : forall s k, has (dup s) k = has s k.
  Proof. intros s k. reflexivity. Qed.

  (** the three facts about one [visit] *)
  Lemma visit_known_false : forall s k, has s k = true -> fst (visit s k) = false.
  Proof.
    intros s k H. rewrite has_split in H. unfold visit.
    destruct (has_from 0 (older s) k) eqn:Ho; [reflexivity|].
    cbn [orb] in H. rewrite H. reflexivity.
  Qed.

  Lemma visit_has_self : forall s k, has (snd (visit s k)) k = true.
  Proof.
    intros s k. unfold visit.
    destruct (has_from 0 (older s) k) eqn:Ho.
    - cbn [snd]. rewrite has_dup, has_split, Ho. reflexivity.
    - destruct (fhas (length (older s)) (cur s) k) eqn:Hc.
      + cbn [snd]. rewrite has_dup, has_split, Ho, Hc. reflexivity.
      + cbn [snd].
        match goal with |- has (if ?c then grow ?s1 else ?s1) k = true =>
          assert (H1 : has s1 k = true) by (rewrite has_split; cbn [older cur]; rewrite fhas_fadd; apply orb_true_r);
          destruct c; [apply has_grow_mono, H1 | exact H1] end.
  Qed.

  Lemma visit_has_mono : forall s k k', has s k' = true -> has (snd (visit s k)) k' = true.
  Proof.
    intros s k k' H. unfold visit.
    destruct (has_from 0 (older s) k) eqn:Ho.
    - cbn [snd]. rewrite has_dup. exact H.
    - destruct (fhas (length (older s)) (cur s) k) eqn:Hc.
      + cbn [snd]. rewrite has_dup. exact H.
      + cbn [snd].
        match goal with |- has (if ?c then grow ?s1 else ?s1) k' = true =>
          assert (H1 : has s1 k' = true);
          [ rewrite has_split in *; cbn [older cur];
            destruct (has_from 0 (older s) k'); [reflexivity|]; cbn [orb] in *; apply fhas_mono; exact H
          | destruct c; [apply has_grow_mono, H1 | exact H1] ] end.
  Qed.

  Lemma visits_has_mono : forall ks s k, has s k = true -> has (visits s ks) k = true.
  Proof.
    induction ks as [|a ks IH]; intros s k H; cbn [visits fold_left]; [exact H|].
    apply IH, visit_has_mono, H.
  Qed.

  (** No false negatives, for every oracle, growth factor, starting chain (any
      capacity, any number of earlier growth steps) and key sequence: a key that
      occurs in the visited sequence is reported present afterwards, and visiting
      it again returns false. *)
  Theorem no_false_negative : forall s ks k,
    In k ks ->
    has (visits s ks) k = true /\ fst (visit (visits s ks) k) = false.
  Proof.
    intros s ks k Hin.
    assert (H : has (visits s ks) k = true).
    { revert s. induction ks as [|a ks IH]; intros s; [destruct Hin|].
      cbn [visits fold_left]. destruct Hin as [->|Hin].
      - apply visits_has_mono, visit_has_self.
      - apply IH, Hin. }
    split; [exact H | apply visit_known_false, H].
  Qed.

  (** a visit that returns true is only possible for a key not reported present *)
  Lemma visit_true_fresh : forall s k, fst (visit s k) = true -> has s k = false.
  Proof.
    intros s k H. destruct (has s k) eqn:Hh; [|reflexivity].
    rewrite (visit_known_false _ _ Hh) in H. discriminate.
  Qed.

  (** the counters evolve as a function of the outcome alone *)
  Lemma counters_step : forall s k,
    counters (snd (visit s k)) = cstep (fst (visit s k)) (counters s).
  Proof.
    intros s k. unfold visit.
    destruct (has_from 0 (older s) k); [reflexivity|].
    destruct (fhas (length (older s)) (cur s) k); [reflexivity|].
    cbn [fst snd last_cap cur_ins]. unfold counters, cstep.
    destruct (last_cap s <? N.succ (cur_ins s))%N; cbn [grow older cur last_cap cur_ins total_ins dedup]; [|reflexivity].
    rewrite app_length. cbn [length]. rewrite Nat.add_1_r. reflexivity.
  Qed.

  (** the chain has [n] growth steps behind it after enough distinct inserts:
      every fresh insert beyond the capacity appends a filter *)
  Lemma grow_when_full : forall s k,
    fst (visit s k) = true -> (last_cap s <= cur_ins s)%N ->
    length (older (snd (visit s k))) = S (length (older s)).
  Proof.
    intros s k H Hfull. unfold visit in *.
    destruct (has_from 0 (older s) k); [discriminate|].
    destruct (fhas (length (older s)) (cur s) k); [discriminate|].
    cbn [snd last_cap cur_ins].
    destruct (last_cap s <? N.succ (cur_ins s))%N eqn:E.
    - cbn [grow older]. rewrite app_length. cbn [length]. lia.
    - apply N.ltb_ge in E. lia.
  Qed.
End Bloom.
