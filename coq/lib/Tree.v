(** Rose trees of UnixFS file DAGs: leaves carry a payload, every node carries the
    sizes the UnixFS layer RECORDS for it (they are data, not computed), so that
    "recorded size = real size" is a property one can state, prove and check.

      Leaf k rs d        a data block: [k] its representation, [rs] the recorded
                         file size (for a raw-codec block: the block length),
                         [d] the payload
      Node rs bs kids    a UnixFS `File` node without inline data: [rs] the
                         recorded `Filesize`, [bs] the recorded `Blocksizes`
                         (one per link), [kids] the linked children in order

    The payload type [D] is a parameter, measured by [dlen : D -> Z]:
    [D := list A, dlen := length] gives byte-level trees ([content]);
    [D := Z * Z] (length, fingerprint) is what correspondence harnesses emit for
    payloads too big to be spelled out.

    Stdlib only.  Used by C07/C08 (importers), intended for C09/C10. *)
From Coq Require Import List ZArith Bool Lia.
Import ListNotations.
Open Scope Z_scope.

(** representation of a data block *)
Inductive kind :=
| KRaw       (* raw-codec block (merkledag.RawNode) *)
| KPbRaw     (* dag-pb block, UnixFS type Raw, data inline *)
| KPbFile.   (* dag-pb block, UnixFS type File, data inline, no links *)

Definition kind_eqb (a b : kind) : bool :=
  match a, b with
  | KRaw, KRaw | KPbRaw, KPbRaw | KPbFile, KPbFile => true
  | _, _ => false
  end.

Lemma kind_eqb_eq a b : kind_eqb a b = true <-> a = b.
Proof. destruct a, b; cbn; split; intro H; try reflexivity; discriminate H. Qed.

Inductive tree (D : Type) : Type :=
| Leaf (k : kind) (rs : Z) (d : D)
| Node (rs : Z) (bs : list Z) (kids : list (tree D)).
Arguments Leaf {D} k rs d.
Arguments Node {D} rs bs kids.

(** ---------- generic list helpers ---------- *)
Fixpoint zsum (l : list Z) : Z :=
  match l with [] => 0 | x :: r => x + zsum r end.

Lemma zsum_app l1 l2 : zsum (l1 ++ l2) = zsum l1 + zsum l2.
Proof. induction l1 as [|x l1 IH]; cbn [zsum app]; lia. Qed.

Fixpoint list_eqb {A} (eqb : A -> A -> bool) (l1 l2 : list A) : bool :=
  match l1, l2 with
  | [], [] => true
  | a :: r1, b :: r2 => eqb a b && list_eqb eqb r1 r2
  | _, _ => false
  end.

Lemma list_eqb_eq {A} (eqb : A -> A -> bool)
  (Heq : forall a b, eqb a b = true <-> a = b) l1 l2 :
  list_eqb eqb l1 l2 = true <-> l1 = l2.
Proof.
  revert l2; induction l1 as [|a l1 IH]; intros [|b l2]; cbn [list_eqb];
    try (split; intro H; [reflexivity || discriminate H | reflexivity || discriminate H]).
  rewrite andb_true_iff, Heq, IH. split.
  - intros [-> ->]; reflexivity.
  - intros H; inversion H; subst; auto.
Qed.

Definition zlen {A} (l : list A) : Z := Z.of_nat (length l).

Lemma zlen_app {A} (l1 l2 : list A) : zlen (l1 ++ l2) = zlen l1 + zlen l2.
Proof. unfold zlen; rewrite app_length; lia. Qed.

Lemma zlen_nonneg {A} (l : list A) : 0 <= zlen l.
Proof. unfold zlen; lia. Qed.

(** ---------- induction principle for the nested type ---------- *)
Section TreeInd.
  Context {D : Type}.
  Variable P : tree D -> Prop.
  Hypothesis Hleaf : forall k rs d, P (Leaf k rs d).
  Hypothesis Hnode : forall rs bs kids, Forall P kids -> P (Node rs bs kids).

  Fixpoint tree_ind' (t : tree D) : P t :=
    match t with
    | Leaf k rs d => Hleaf k rs d
    | Node rs bs kids =>
        Hnode rs bs kids
          ((fix go (l : list (tree D)) : Forall P l :=
              match l with
              | [] => Forall_nil P
              | c :: r => Forall_cons c (tree_ind' c) (go r)
              end) kids)
    end.
End TreeInd.

(** ---------- observations ---------- *)
Section Obs.
  Context {D : Type}.
  Variable dlen : D -> Z.

  (** the size a node records for itself *)
  Definition rsize (t : tree D) : Z :=
    match t with Leaf _ rs _ => rs | Node rs _ _ => rs end.

  (** payloads of the leaves, left to right ([flatten]) *)
  Fixpoint leaves (t : tree D) : list D :=
    match t with
    | Leaf _ _ d => [d]
    | Node _ _ kids => flat_map leaves kids
    end.
  Definition flatten := leaves.

  (** real size = total length of the payloads below *)
  Definition dsum (l : list D) : Z := zsum (map dlen l).
  Definition tsize (t : tree D) : Z := dsum (leaves t).

  Lemma dsum_app l1 l2 : dsum (l1 ++ l2) = dsum l1 + dsum l2.
  Proof. unfold dsum; rewrite map_app, zsum_app; reflexivity. Qed.

  (** size consistency, as a checker:
      leaf: recorded size = payload length;
      node: recorded size = sum of the recorded block sizes, the i-th block size
      = the size the i-th child records for itself, and every child consistent. *)
  Fixpoint sizes_ok (t : tree D) : bool :=
    match t with
    | Leaf _ rs d => rs =? dlen d
    | Node rs bs kids =>
        (rs =? zsum bs) && list_eqb Z.eqb bs (map rsize kids) && forallb sizes_ok kids
    end.

  (** ... and as a proposition *)
  Inductive sizes_consistent : tree D -> Prop :=
  | SC_leaf k d : sizes_consistent (Leaf k (dlen d) d)
  | SC_node kids :
      Forall sizes_consistent kids ->
      sizes_consistent (Node (zsum (map rsize kids)) (map rsize kids) kids).

  (** number of links on the longest / shortest path to a leaf; a childless Node counts 0 *)
  Fixpoint height (t : tree D) : nat :=
    match t with
    | Leaf _ _ _ => 0%nat
    | Node _ _ kids => S (fold_right (fun c m => Nat.max (height c) m) 0%nat kids)
    end.

  (** all leaves at depth exactly [h] (and no childless inner node above depth h) *)
  Fixpoint uniform (h : nat) (t : tree D) : bool :=
    match t, h with
    | Leaf _ _ _, O => true
    | Node _ _ kids, S h' => negb (match kids with [] => true | _ => false end)
                             && forallb (uniform h') kids
    | _, _ => false
    end.

  (** every inner node has at most [w] links *)
  Fixpoint max_links (w : nat) (t : tree D) : bool :=
    match t with
    | Leaf _ _ _ => true
    | Node _ _ kids => (length kids <=? w)%nat && forallb (max_links w) kids
    end.

  (** number of nodes (inner + leaves) *)
  Fixpoint nodes (t : tree D) : nat :=
    match t with
    | Leaf _ _ _ => 1%nat
    | Node _ _ kids => S (fold_right (fun c m => (nodes c + m)%nat) 0%nat kids)
    end.

  (** representation kinds of the leaves, left to right *)
  Fixpoint leaf_kinds (t : tree D) : list kind :=
    match t with
    | Leaf k _ _ => [k]
    | Node _ _ kids => flat_map leaf_kinds kids
    end.

  (** structural equality given an equality on payloads *)
  Variable deqb : D -> D -> bool.
  Fixpoint tree_eqb (a b : tree D) {struct a} : bool :=
    match a, b with
    | Leaf k1 r1 d1, Leaf k2 r2 d2 => kind_eqb k1 k2 && (r1 =? r2) && deqb d1 d2
    | Node r1 b1 k1, Node r2 b2 k2 =>
        (r1 =? r2) && list_eqb Z.eqb b1 b2 &&
        (fix go (l1 l2 : list (tree D)) : bool :=
           match l1, l2 with
           | [], [] => true
           | x :: r1, y :: r2 => tree_eqb x y && go r1 r2
           | _, _ => false
           end) k1 k2
    | _, _ => false
    end.
End Obs.

(** the builder's way of making an inner node: AddChild records, per child, the
    file size the builder reports for it — here the child's own recorded size *)
Definition mk_node {D} (kids : list (tree D)) : tree D :=
  Node (zsum (map rsize kids)) (map rsize kids) kids.

(** ---------- lemmas ---------- *)
Section Lemmas.
  Context {D : Type}.
  Variable dlen : D -> Z.

  Lemma leaves_node rs bs (kids : list (tree D)) :
    leaves (Node rs bs kids) = flat_map leaves kids.
  Proof. reflexivity. Qed.

  Lemma leaves_mk_node (kids : list (tree D)) : leaves (mk_node kids) = flat_map leaves kids.
  Proof. reflexivity. Qed.

  Lemma rsize_mk_node (kids : list (tree D)) : rsize (mk_node kids) = zsum (map rsize kids).
  Proof. reflexivity. Qed.

  Lemma tree_eqb_eq (deqb : D -> D -> bool)
    (Heq : forall a b, deqb a b = true <-> a = b) :
    forall a b : tree D, tree_eqb deqb a b = true <-> a = b.
  Proof.
    induction a as [k rs d | rs bs kids IH] using tree_ind'; intros [k2 rs2 d2 | rs2 bs2 kids2];
      cbn [tree_eqb]; try (split; intro H; discriminate H).
    - rewrite !andb_true_iff, kind_eqb_eq, Z.eqb_eq, Heq. split.
      + intros [[-> ->] ->]; reflexivity.
      + intros H; inversion H; subst; auto.
    - rewrite !andb_true_iff, Z.eqb_eq, (list_eqb_eq Z.eqb Z.eqb_eq).
      assert (Hk : forall l2,
        (fix go (l1 l2 : list (tree D)) : bool :=
           match l1, l2 with
           | [], [] => true
           | x :: r1, y :: r2 => tree_eqb deqb x y && go r1 r2
           | _, _ => false
           end) kids l2 = true <-> kids = l2).
      { induction IH as [|c r Hc Hr IHr]; intros [|y l2];
          try (split; intro H; [reflexivity || discriminate H | reflexivity || discriminate H]).
        rewrite andb_true_iff, Hc, IHr. split.
        - intros [-> ->]; reflexivity.
        - intros H; inversion H; subst; auto. }
      rewrite Hk. split.
      + intros [[-> ->] ->]; reflexivity.
      + intros H; inversion H; subst; auto.
  Qed.

  (** the checker decides the proposition *)
  Lemma sizes_ok_iff : forall t : tree D, sizes_ok dlen t = true <-> sizes_consistent dlen t.
  Proof.
    induction t as [k rs d | rs bs kids IH] using tree_ind'; cbn [sizes_ok].
    - rewrite Z.eqb_eq. split.
      + intros ->; constructor.
      + intros H; inversion H; reflexivity.
    - rewrite !andb_true_iff, Z.eqb_eq, (list_eqb_eq Z.eqb Z.eqb_eq), forallb_forall.
      split.
      + intros [[-> ->] Hall]. constructor.
        rewrite Forall_forall in IH |- *. intros c Hc. apply IH; auto.
      + intros H; inversion H as [|kids' Hall]; subst.
        repeat split; auto.
        rewrite Forall_forall in IH, Hall. intros c Hc. apply IH; auto.
  Qed.

  (** consistency means what it should: every node's recorded size is the real
      size of the data below it *)
  Lemma sizes_consistent_rsize : forall t : tree D,
    sizes_consistent dlen t -> rsize t = tsize dlen t.
  Proof.
    induction t as [k rs d | rs bs kids IH] using tree_ind'; intros H; inversion H as [|kids' Hall]; subst.
    - unfold tsize, dsum; cbn; lia.
    - cbn [rsize]. unfold tsize. cbn [leaves].
      clear H. induction kids as [|c r IHr]; [reflexivity|].
      inversion IH as [|? ? Hc Hr]; inversion Hall as [|? ? Sc Sr]; subst.
      cbn [map zsum flat_map]. rewrite dsum_app, (IHr Hr Sr), (Hc Sc). reflexivity.
  Qed.

  Lemma sizes_ok_rsize (t : tree D) : sizes_ok dlen t = true -> rsize t = tsize dlen t.
  Proof. intros H; apply sizes_consistent_rsize, sizes_ok_iff, H. Qed.

  (** ... at every node of the tree, not only at the root *)
  Inductive subtree : tree D -> tree D -> Prop :=
  | sub_refl t : subtree t t
  | sub_kid s rs bs kids c : In c kids -> subtree s c -> subtree s (Node rs bs kids).

  Lemma sizes_consistent_sub (s t : tree D) :
    subtree s t -> sizes_consistent dlen t -> sizes_consistent dlen s.
  Proof.
    induction 1 as [|s rs bs kids c Hin Hsub IH]; intros H; [exact H|].
    inversion H as [|kids' Hall]; subst. rewrite Forall_forall in Hall. auto.
  Qed.

  Theorem sizes_consistent_everywhere (s t : tree D) :
    sizes_consistent dlen t -> subtree s t ->
    rsize s = tsize dlen s /\
    match s with
    | Leaf _ _ _ => True
    | Node rs bs kids => rs = zsum bs /\ bs = map rsize kids /\ bs = map (tsize dlen) kids
    end.
  Proof.
    intros Ht Hs. pose proof (sizes_consistent_sub s t Hs Ht) as Hc.
    split; [apply sizes_consistent_rsize; exact Hc|].
    destruct s as [k rs d | rs bs kids]; [exact I|].
    inversion Hc as [|kids' Hall]; subst. repeat split.
    apply map_ext_in. intros c Hin. rewrite Forall_forall in Hall.
    apply sizes_consistent_rsize; auto.
  Qed.

  Lemma sizes_consistent_mk_node (kids : list (tree D)) :
    Forall (sizes_consistent dlen) kids -> sizes_consistent dlen (mk_node kids).
  Proof. intros H; unfold mk_node; constructor; exact H. Qed.
End Lemmas.

(** ---------- byte-level view: payloads are lists ---------- *)
Section Bytes.
  Context {A : Type}.

  (** the file content a tree denotes *)
  Definition content (t : tree (list A)) : list A := concat (leaves t).

  Lemma content_node rs bs (kids : list (tree (list A))) :
    content (Node rs bs kids) = flat_map content kids.
  Proof.
    unfold content; cbn [leaves].
    induction kids as [|c r IH]; [reflexivity|].
    cbn [flat_map]. rewrite concat_app, IH. reflexivity.
  Qed.

  Lemma dsum_zlen_concat (l : list (list A)) : dsum zlen l = zlen (concat l).
  Proof.
    unfold dsum; induction l as [|x r IH]; [reflexivity|].
    cbn [map zsum concat]. rewrite zlen_app, IH. reflexivity.
  Qed.

  Lemma tsize_content (t : tree (list A)) : tsize zlen t = zlen (content t).
  Proof. apply dsum_zlen_concat. Qed.

  Theorem sizes_consistent_content (t : tree (list A)) :
    sizes_consistent zlen t -> rsize t = zlen (content t).
  Proof. intros H. rewrite <- tsize_content. apply sizes_consistent_rsize, H. Qed.
End Bytes.
