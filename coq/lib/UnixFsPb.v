(** UnixFsPb.v — the UnixFS protobuf messages (ipld/unixfs/pb/unixfs.proto, proto2):

      message Data { required DataType Type = 1; optional bytes Data = 2;
                     optional uint64 filesize = 3; repeated uint64 blocksizes = 4;
                     optional uint64 hashType = 5; optional uint64 fanout = 6;
                     optional uint32 mode = 7; optional IPFSTimestamp mtime = 8; }
      message IPFSTimestamp { required int64 seconds = 1; optional fixed32 nanos = 2; }

    [data_fields]/[encode_data]: serialisation in field-number order (what
    google.golang.org/protobuf emits for these messages), refusing messages
    whose required fields are missing, as proto.Marshal does.
    [decode_data]: proto.Unmarshal — any field order, last value wins for
    optional scalars, repeated occurrences of [mtime] are merged, packed and
    unpacked [blocksizes], unknown field numbers and known numbers with a
    foreign wire type are skipped, required fields are checked at the end.
    [decode_encode]: decode_data (encode d) = Some d for well-formed d.
    [data_size]: exact serialised size.
    Stdlib only, no axioms. *)
From Coq Require Import ZArith List Lia Bool.
From V Require Import lib.Varint lib.Pb.
Import ListNotations.
Open Scope Z_scope.

Record mtime := { t_sec : option Z; t_nanos : option Z }.

Record data := {
  d_type : option Z;            (* enum DataType (int32) *)
  d_data : option (list Z);     (* bytes; [Some []] is a present, empty field *)
  d_filesize : option Z;
  d_blocksizes : list Z;
  d_hashtype : option Z;
  d_fanout : option Z;
  d_mode : option Z;            (* uint32 *)
  d_mtime : option mtime
}.

Definition empty_mtime : mtime := {| t_sec := None; t_nanos := None |}.
Definition empty_data : data :=
  {| d_type := None; d_data := None; d_filesize := None; d_blocksizes := [];
     d_hashtype := None; d_fanout := None; d_mode := None; d_mtime := None |}.

Definition two32 : Z := 4294967296.
Definition two31 : Z := 2147483648.
Arguments two32 : simpl never.
Arguments two31 : simpl never.

Definition to_u32 (v : Z) : Z := v mod two32.
Definition to_i32 (v : Z) : Z := (v + two31) mod two32 - two31.
Arguments to_u32 : simpl never.
Arguments to_i32 : simpl never.

(** ---------- encoding ---------- *)
Definition opt_field {A} (num : Z) (f : A -> wval) (o : option A) : list field :=
  match o with Some a => [(num, f a)] | None => [] end.

Definition mtime_fields (t : mtime) : list field :=
  opt_field 1 (fun s => WVarint (to_u64 s)) (t_sec t) ++
  opt_field 2 WFixed32 (t_nanos t).

Definition data_fields (d : data) : list field :=
  opt_field 1 (fun t => WVarint (to_u64 t)) (d_type d) ++
  opt_field 2 WBytes (d_data d) ++
  opt_field 3 WVarint (d_filesize d) ++
  map (fun b => (4, WVarint b)) (d_blocksizes d) ++
  opt_field 5 WVarint (d_hashtype d) ++
  opt_field 6 WVarint (d_fanout d) ++
  opt_field 7 WVarint (d_mode d) ++
  opt_field 8 (fun t => WBytes (emit (mtime_fields t))) (d_mtime d).

Definition is_some {A} (o : option A) : bool := match o with Some _ => true | None => false end.

(** required fields present (proto.Marshal / proto.Unmarshal both insist) *)
Definition initialized (d : data) : bool :=
  is_some (d_type d) &&
  match d_mtime d with Some t => is_some (t_sec t) | None => true end.

Definition encode_data (d : data) : option (list Z) :=
  if initialized d then Some (emit (data_fields d)) else None.

Definition data_size (d : data) : Z := fields_size (data_fields d).

(** ---------- decoding ---------- *)
Definition mtime_step (t : mtime) (f : field) : mtime :=
  match f with
  | (1, WVarint v) => {| t_sec := Some (to_i64 v); t_nanos := t_nanos t |}
  | (2, WFixed32 v) => {| t_sec := t_sec t; t_nanos := Some v |}
  | _ => t
  end.

Definition data_step (d : data) (f : field) : option data :=
  match f with
  | (1, WVarint v) =>
      Some {| d_type := Some (to_i32 v); d_data := d_data d; d_filesize := d_filesize d;
              d_blocksizes := d_blocksizes d; d_hashtype := d_hashtype d; d_fanout := d_fanout d;
              d_mode := d_mode d; d_mtime := d_mtime d |}
  | (2, WBytes bs) =>
      Some {| d_type := d_type d; d_data := Some bs; d_filesize := d_filesize d;
              d_blocksizes := d_blocksizes d; d_hashtype := d_hashtype d; d_fanout := d_fanout d;
              d_mode := d_mode d; d_mtime := d_mtime d |}
  | (3, WVarint v) =>
      Some {| d_type := d_type d; d_data := d_data d; d_filesize := Some v;
              d_blocksizes := d_blocksizes d; d_hashtype := d_hashtype d; d_fanout := d_fanout d;
              d_mode := d_mode d; d_mtime := d_mtime d |}
  | (4, WVarint v) =>
      Some {| d_type := d_type d; d_data := d_data d; d_filesize := d_filesize d;
              d_blocksizes := d_blocksizes d ++ [v]; d_hashtype := d_hashtype d; d_fanout := d_fanout d;
              d_mode := d_mode d; d_mtime := d_mtime d |}
  | (4, WBytes bs) =>
      match unpack bs with
      | None => None
      | Some l =>
          Some {| d_type := d_type d; d_data := d_data d; d_filesize := d_filesize d;
                  d_blocksizes := d_blocksizes d ++ l; d_hashtype := d_hashtype d; d_fanout := d_fanout d;
                  d_mode := d_mode d; d_mtime := d_mtime d |}
      end
  | (5, WVarint v) =>
      Some {| d_type := d_type d; d_data := d_data d; d_filesize := d_filesize d;
              d_blocksizes := d_blocksizes d; d_hashtype := Some v; d_fanout := d_fanout d;
              d_mode := d_mode d; d_mtime := d_mtime d |}
  | (6, WVarint v) =>
      Some {| d_type := d_type d; d_data := d_data d; d_filesize := d_filesize d;
              d_blocksizes := d_blocksizes d; d_hashtype := d_hashtype d; d_fanout := Some v;
              d_mode := d_mode d; d_mtime := d_mtime d |}
  | (7, WVarint v) =>
      Some {| d_type := d_type d; d_data := d_data d; d_filesize := d_filesize d;
              d_blocksizes := d_blocksizes d; d_hashtype := d_hashtype d; d_fanout := d_fanout d;
              d_mode := Some (to_u32 v); d_mtime := d_mtime d |}
  | (8, WBytes bs) =>
      match parse bs with
      | None => None
      | Some fs =>
          let t0 := match d_mtime d with Some t => t | None => empty_mtime end in
          Some {| d_type := d_type d; d_data := d_data d; d_filesize := d_filesize d;
                  d_blocksizes := d_blocksizes d; d_hashtype := d_hashtype d; d_fanout := d_fanout d;
                  d_mode := d_mode d; d_mtime := Some (fold_left mtime_step fs t0) |}
      end
  | _ => Some d
  end.

Fixpoint data_fold (fs : list field) (d : data) : option data :=
  match fs with
  | [] => Some d
  | f :: r => match data_step d f with None => None | Some d' => data_fold r d' end
  end.

Definition decode_data (bs : list Z) : option data :=
  match parse bs with
  | None => None
  | Some fs =>
      match data_fold fs empty_data with
      | None => None
      | Some d => if initialized d then Some d else None
      end
  end.

(** ---------- well-formedness: values inside their Go types ---------- *)
Definition in_u64 (v : Z) : Prop := 0 <= v < two64.
Definition in_opt (P : Z -> Prop) (o : option Z) : Prop := match o with Some v => P v | None => True end.

Definition wf_mtime (t : mtime) : Prop :=
  in_opt (fun s => - two63 <= s < two63) (t_sec t) /\ in_opt (fun n => 0 <= n < two32) (t_nanos t).

Definition wf_data (d : data) : Prop :=
  in_opt (fun t => - two31 <= t < two31) (d_type d) /\
  match d_data d with Some bs => blen bs < two64 | None => True end /\
  in_opt in_u64 (d_filesize d) /\
  Forall in_u64 (d_blocksizes d) /\
  in_opt in_u64 (d_hashtype d) /\
  in_opt in_u64 (d_fanout d) /\
  in_opt (fun m => 0 <= m < two32) (d_mode d) /\
  match d_mtime d with Some t => wf_mtime t | None => True end.

(* ------------------------------------------------------------------ *)

Lemma to_u32_id : forall v, 0 <= v < two32 -> to_u32 v = v.
Proof. intros v H. unfold to_u32. apply Z.mod_small. assumption. Qed.

Lemma to_i32_to_u64 : forall t, - two31 <= t < two31 -> to_i32 (to_u64 t) = t.
Proof.
  intros t H. unfold to_i32, to_u64, two31, two32, two64 in *.
  destruct (Z_lt_le_dec t 0).
  - replace (t mod 18446744073709551616) with (t + 18446744073709551616)
      by (symmetry; rewrite <- (Z.mod_add t 1) by lia; apply Z.mod_small; lia).
    replace (t + 18446744073709551616 + 2147483648)
      with (t + 2147483648 + 4294967296 * 4294967296) by lia.
    rewrite Z.mod_add by lia. rewrite Z.mod_small by lia. lia.
  - rewrite (Z.mod_small t) by lia. rewrite Z.mod_small by lia. lia.
Qed.

Lemma wf_mtime_fields : forall t, wf_mtime t -> Forall wf_field (mtime_fields t).
Proof.
  intros [s n] [Hs Hn]. unfold mtime_fields. cbn [t_sec t_nanos] in *.
  apply Forall_app. split.
  - destruct s as [s|]; cbn [opt_field]; constructor; [|constructor].
    split; cbn [fst snd wf_val]; [unfold max_fnum; lia|apply to_u64_range].
  - destruct n as [n|]; cbn [opt_field in_opt] in *; constructor; [|constructor].
    split; cbn [fst snd wf_val]; [unfold max_fnum; lia|unfold two32 in Hn; lia].
Qed.

Lemma mtime_size_bound : forall t, wf_mtime t -> blen (emit (mtime_fields t)) <= 16.
Proof.
  intros t H. rewrite emit_length by (apply wf_mtime_fields; assumption).
  destruct t as [s n]. unfold mtime_fields. cbn [t_sec t_nanos].
  rewrite fields_size_app.
  assert (fields_size (opt_field 1 (fun s => WVarint (to_u64 s)) s) <= 11).
  { destruct s as [s|]; cbn [opt_field fields_size fold_right]; [|lia].
    unfold field_size. cbn [fst snd wtype val_size].
    pose proof (vlen_u64 (to_u64 s) (to_u64_range s)). change (vlen (tag 1 0)) with 1. lia. }
  assert (fields_size (opt_field 2 WFixed32 n) <= 5).
  { destruct n as [n|]; cbn [opt_field fields_size fold_right]; [|lia].
    unfold field_size. cbn [fst snd wtype val_size]. change (vlen (tag 2 5)) with 1. lia. }
  lia.
Qed.

Lemma opt_field_wf : forall {A} num (f : A -> wval) (P : A -> Prop) o,
  1 <= num < max_fnum -> (forall a, P a -> wf_val (f a)) ->
  match o with Some a => P a | None => True end ->
  Forall wf_field (opt_field num f o).
Proof.
  intros A num f P [a|] Hn Hf Ho; cbn [opt_field]; constructor; [|constructor].
  split; cbn [fst snd]; [assumption|apply Hf; assumption].
Qed.

Lemma wf_data_fields : forall d, wf_data d -> Forall wf_field (data_fields d).
Proof.
  intros d (Ht & Hd & Hf & Hb & Hh & Hfo & Hm & Hmt). unfold data_fields.
  repeat (apply Forall_app; split).
  - apply (opt_field_wf 1 _ (fun t => - two31 <= t < two31)); [unfold max_fnum; lia| |exact Ht].
    intros a _. cbn [wf_val]. apply to_u64_range.
  - apply (opt_field_wf 2 _ (fun bs => blen bs < two64)); [unfold max_fnum; lia| |exact Hd].
    intros a Ha. exact Ha.
  - apply (opt_field_wf 3 _ in_u64); [unfold max_fnum; lia| |exact Hf]. intros a Ha. exact Ha.
  - apply Forall_map. eapply Forall_impl; [|exact Hb]. intros a Ha.
    split; cbn [fst snd wf_val]; [unfold max_fnum; lia|exact Ha].
  - apply (opt_field_wf 5 _ in_u64); [unfold max_fnum; lia| |exact Hh]. intros a Ha. exact Ha.
  - apply (opt_field_wf 6 _ in_u64); [unfold max_fnum; lia| |exact Hfo]. intros a Ha. exact Ha.
  - apply (opt_field_wf 7 _ (fun m => 0 <= m < two32)); [unfold max_fnum; lia| |exact Hm].
    intros a Ha. cbn [wf_val]. unfold two32, two64 in *. lia.
  - apply (opt_field_wf 8 _ wf_mtime); [unfold max_fnum; lia| |exact Hmt].
    intros a Ha. cbn [wf_val]. pose proof (mtime_size_bound a Ha). unfold two64. lia.
Qed.

(** exact size of the serialised message *)
Lemma encode_data_length : forall d bs,
  wf_data d -> encode_data d = Some bs -> blen bs = data_size d.
Proof.
  intros d bs H E. unfold encode_data in E. destruct (initialized d); [|discriminate].
  injection E as <-. apply emit_length, wf_data_fields, H.
Qed.

Lemma data_fold_app : forall a b d,
  data_fold (a ++ b) d = match data_fold a d with None => None | Some d' => data_fold b d' end.
Proof.
  induction a as [|f a IH]; intros b d; cbn [app data_fold]; [reflexivity|].
  destruct (data_step d f); [apply IH|reflexivity].
Qed.

Lemma data_fold_blocks : forall bl d,
  data_fold (map (fun b => (4, WVarint b)) bl) d =
  Some {| d_type := d_type d; d_data := d_data d; d_filesize := d_filesize d;
          d_blocksizes := d_blocksizes d ++ bl; d_hashtype := d_hashtype d; d_fanout := d_fanout d;
          d_mode := d_mode d; d_mtime := d_mtime d |}.
Proof.
  induction bl as [|b bl IH]; intro d; cbn [map data_fold data_step].
  - rewrite app_nil_r. destruct d; reflexivity.
  - rewrite IH. cbn [d_type d_data d_filesize d_blocksizes d_hashtype d_fanout d_mode d_mtime].
    rewrite <- app_assoc. reflexivity.
Qed.

Lemma mtime_roundtrip : forall t, wf_mtime t ->
  fold_left mtime_step (mtime_fields t) empty_mtime = t.
Proof.
  intros [s n] [Hs Hn]. unfold mtime_fields. cbn [t_sec t_nanos] in *.
  destruct s as [s|], n as [n|]; cbn [opt_field app fold_left mtime_step empty_mtime t_sec t_nanos in_opt] in *;
    try rewrite to_i64_to_u64 by assumption; reflexivity.
Qed.

Local Ltac dcbn :=
  cbn [opt_field data_fold data_step empty_data in_opt app
       d_type d_data d_filesize d_blocksizes d_hashtype d_fanout d_mode d_mtime] in *.

(** round trip: what Marshal wrote, Unmarshal reads back unchanged *)
Theorem decode_encode : forall d bs,
  wf_data d -> encode_data d = Some bs -> decode_data bs = Some d.
Proof.
  intros d bs H E. unfold encode_data in E.
  destruct (initialized d) eqn:Hi; [|discriminate]. injection E as <-.
  unfold decode_data. rewrite parse_emit by (apply wf_data_fields; exact H).
  assert (F : data_fold (data_fields d) empty_data = Some d).
  { destruct H as (Ht & Hd & Hf & Hb & Hh & Hfo & Hm & Hmt).
    destruct d as [ty da fs bl ht fo mo mt]. unfold data_fields.
    cbn [d_type d_data d_filesize d_blocksizes d_hashtype d_fanout d_mode d_mtime] in *.
    rewrite data_fold_app.
    destruct ty as [ty|]; dcbn; [rewrite to_i32_to_u64 by exact Ht|];
    (rewrite data_fold_app; destruct da as [da|]; dcbn);
    (rewrite data_fold_app; destruct fs as [fs|]; dcbn);
    (rewrite data_fold_app, data_fold_blocks; dcbn);
    (rewrite data_fold_app; destruct ht as [ht|]; dcbn);
    (rewrite data_fold_app; destruct fo as [fo|]; dcbn);
    (rewrite data_fold_app; destruct mo as [mo|]; dcbn; [rewrite to_u32_id by exact Hm|]);
    (destruct mt as [mt|]; dcbn;
     [rewrite parse_emit by (apply wf_mtime_fields; exact Hmt);
      dcbn; rewrite mtime_roundtrip by exact Hmt|]);
    reflexivity. }
  rewrite F, Hi. reflexivity.
Qed.

Example encode_dir_ex :
  encode_data {| d_type := Some 1; d_data := None; d_filesize := None; d_blocksizes := [];
                 d_hashtype := None; d_fanout := None; d_mode := Some 493;
                 d_mtime := Some {| t_sec := Some (-1); t_nanos := Some 5 |} |}
  = Some [8; 1; 56; 237; 3; 66; 16; 8; 255; 255; 255; 255; 255; 255; 255; 255; 255; 1; 21; 5; 0; 0; 0].
Proof. reflexivity. Qed.
