(** GoBits.v — bit-level semantics of the uint32 operators of lib/GoInt.v, for
    proofs about go2coq-translated bit shuffles.

    [tb_and], [tb_or], [tb_shr], [tb_shl_hi]/[tb_shl_lo], [tb_conv] give
    [Z.testbit] of an operator application in terms of the bits of its operands,
    for ALL integer operands (no range side conditions, the uint32 wrap is the
    conjunct [(i <? 32)]).  [tbnorm] rewrites a testbit of an operator tree down
    to testbits of its leaves; [lt32_cases] enumerates a bit index below 32;
    [tb_const_hi] kills the bits of a constant above its size;
    [lt_pow2_of_bits] turns "no bits at or above n" into [a < 2^n].
    Stdlib + GoInt only, no axioms. *)
From Coq Require Import List ZArith Bool Lia.
From V Require Import lib.GoInt.
Import ListNotations.
Open Scope Z_scope.

Lemma tb_wrap32 : forall z i, 0 <= i -> Z.testbit (wrap U32 z) i = Z.testbit z i && (i <? 32).
Proof.
  intros z i Hi. rewrite wrap_unsigned by reflexivity. change (bits U32) with 32.
  destruct (Z.ltb_spec i 32).
  - rewrite Z.mod_pow2_bits_low by lia. rewrite andb_true_r. reflexivity.
  - rewrite Z.mod_pow2_bits_high by lia. rewrite andb_false_r. reflexivity.
Qed.

Lemma tb_and : forall a b i, 0 <= i ->
  Z.testbit (and_ U32 a b) i = Z.testbit a i && Z.testbit b i && (i <? 32).
Proof. intros. unfold and_. rewrite tb_wrap32, Z.land_spec by assumption. reflexivity. Qed.

Lemma tb_or : forall a b i, 0 <= i ->
  Z.testbit (or_ U32 a b) i = (Z.testbit a i || Z.testbit b i) && (i <? 32).
Proof. intros. unfold or_. rewrite tb_wrap32, Z.lor_spec by assumption. reflexivity. Qed.

Lemma tb_conv : forall t x i, 0 <= i ->
  Z.testbit (conv t U32 x) i = Z.testbit x i && (i <? 32).
Proof. intros. unfold conv. apply tb_wrap32. assumption. Qed.

Lemma tb_shr : forall x n i, 0 <= n < 32 -> 0 <= i ->
  Z.testbit (shr U32 x n) i = Z.testbit x (i + n) && (i <? 32).
Proof.
  intros x n i Hn Hi. unfold shr. change (bits U32) with 32.
  destruct (Z.leb_spec 0 n); [|lia]. destruct (Z.ltb_spec n 32); [|lia]. cbn [andb].
  rewrite tb_wrap32, Z.shiftr_spec by assumption. reflexivity.
Qed.

Lemma tb_shl_hi : forall x n i, 0 <= n < 32 -> n <= i ->
  Z.testbit (shl U32 x n) i = Z.testbit x (i - n) && (i <? 32).
Proof.
  intros x n i Hn Hi. rewrite shl_spec by (change (bits U32) with 32; lia).
  rewrite tb_wrap32 by lia. rewrite <- Z.shiftl_mul_pow2 by lia.
  rewrite Z.shiftl_spec by lia. reflexivity.
Qed.

Lemma tb_shl_lo : forall x n i, 0 <= n < 32 -> 0 <= i < n ->
  Z.testbit (shl U32 x n) i = false.
Proof.
  intros x n i Hn Hi. rewrite shl_spec by (change (bits U32) with 32; lia).
  rewrite tb_wrap32 by lia. rewrite <- Z.shiftl_mul_pow2 by lia.
  rewrite Z.shiftl_spec by lia. rewrite Z.testbit_neg_r by lia. reflexivity.
Qed.

Lemma tb_const_hi : forall c k i, 0 <= c < 2 ^ k -> 0 <= k <= i -> Z.testbit c i = false.
Proof.
  intros c k i Hc Hk. destruct (Z.eq_dec c 0) as [->|Hnz]; [apply Z.bits_0|].
  apply Z.bits_above_log2; [lia|].
  assert (Z.log2 c < k) by (apply Z.log2_lt_pow2; lia). lia.
Qed.

Lemma lt_pow2_of_bits : forall a n, 0 <= a -> 0 <= n ->
  (forall i, n <= i -> Z.testbit a i = false) -> a < 2 ^ n.
Proof.
  intros a n Ha Hn H.
  assert (E : a = a mod 2 ^ n).
  { apply Z.bits_inj'. intros i Hi. destruct (Z_lt_le_dec i n).
    - rewrite Z.mod_pow2_bits_low by lia. reflexivity.
    - rewrite Z.mod_pow2_bits_high by lia. apply H. lia. }
  rewrite E. apply Z.mod_pos_bound. apply Z.pow_pos_nonneg; lia.
Qed.

Lemma lt32_cases : forall i, 0 <= i < 32 -> i = 0 \/ i = 1 \/ i = 2 \/ i = 3 \/ i = 4 \/ i = 5 \/ i = 6 \/ i = 7 \/ i = 8 \/ i = 9 \/ i = 10 \/ i = 11 \/ i = 12 \/ i = 13 \/ i = 14 \/ i = 15 \/ i = 16 \/ i = 17 \/ i = 18 \/ i = 19 \/ i = 20 \/ i = 21 \/ i = 22 \/ i = 23 \/ i = 24 \/ i = 25 \/ i = 26 \/ i = 27 \/ i = 28 \/ i = 29 \/ i = 30 \/ i = 31.
Proof. intros. lia. Qed.

(** rewrite a testbit of a tree of uint32 operators at a LITERAL index down to
    testbits of its leaves *)
Ltac tbnorm :=
  repeat first
    [ rewrite tb_or by lia | rewrite tb_and by lia | rewrite tb_shr by lia
    | rewrite tb_shl_hi by lia | rewrite tb_shl_lo by lia | rewrite tb_conv by lia
    | rewrite Z.land_spec | rewrite Z.lor_spec ].

