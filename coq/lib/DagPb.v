(** DagPb.v — dag-pb blocks as boxo's ProtoNode serialises them
    (ipld/merkledag/coding.go marshalImmutable + go-codec-dagpb AppendEncode):

      PBNode { repeated PBLink Links = 2;  optional bytes Data = 1; }   -- Links FIRST, then Data
      PBLink { bytes Hash = 1; string Name = 2; uint64 Tsize = 3; }     -- all three always written

    Links are written in the order given (the caller sorts: [sort_links] is the
    stable bytewise sort by name that ProtoNode applies before encoding); a
    Tsize above MaxInt64 is written as 0 (coding.go: max(int64(size), 0)).
    [encode_node], exact sizes [link_entry_size]/[node_size], and the fact that
    the size does not depend on link order.  Stdlib only, no axioms. *)
From Coq Require Import ZArith List Lia Bool Permutation.
From V Require Import lib.Varint lib.Pb.
Import ListNotations.
Open Scope Z_scope.

Record entry := { e_name : list Z; e_cid : list Z; e_tsize : Z }.

(** what reaches the wire for a uint64 link size *)
Definition wire_tsize (s : Z) : Z := if s <? two63 then s else 0.

Definition link_fields (e : entry) : list field :=
  [(1, WBytes (e_cid e)); (2, WBytes (e_name e)); (3, WVarint (wire_tsize (e_tsize e)))].

Definition link_entry (e : entry) : field := (2, WBytes (emit (link_fields e))).

Definition data_entry (data : option (list Z)) : list field :=
  match data with Some b => [(1, WBytes b)] | None => [] end.

Definition node_fields (es : list entry) (data : option (list Z)) : list field :=
  map link_entry es ++ data_entry data.

Definition encode_node (es : list entry) (data : option (list Z)) : list Z :=
  emit (node_fields es data).

(** sizes *)
Definition link_inner_size (e : entry) : Z :=
  1 + vlen (blen (e_cid e)) + blen (e_cid e) +
  (1 + vlen (blen (e_name e)) + blen (e_name e)) +
  (1 + vlen (wire_tsize (e_tsize e))).
Definition link_entry_size (e : entry) : Z := 1 + vlen (link_inner_size e) + link_inner_size e.
Definition data_entry_size (data : option (list Z)) : Z :=
  match data with Some b => 1 + vlen (blen b) + blen b | None => 0 end.
Definition sum_sizes (es : list entry) : Z := fold_right (fun e a => link_entry_size e + a) 0 es.
Definition node_size (es : list entry) (data : option (list Z)) : Z :=
  sum_sizes es + data_entry_size data.

(** bytewise lexicographic order on names (strings.Compare) *)
Fixpoint bytes_leb (a b : list Z) : bool :=
  match a, b with
  | [], _ => true
  | _ :: _, [] => false
  | x :: a', y :: b' => if x <? y then true else if y <? x then false else bytes_leb a' b'
  end.

(** stable insertion sort by name: an element goes after every element that is
    <= it *)
Fixpoint insert_link (e : entry) (l : list entry) : list entry :=
  match l with
  | [] => [e]
  | x :: r => if bytes_leb (e_name x) (e_name e) then x :: insert_link e r else e :: l
  end.
Definition sort_links (l : list entry) : list entry :=
  fold_left (fun acc e => insert_link e acc) l [].

Definition max_len : Z := 2305843009213693952.  (* 2^61: generous bound on byte-string lengths that keeps all Go int sums below 2^63 *)
Arguments max_len : simpl never.

Definition wf_entry (e : entry) : Prop :=
  blen (e_cid e) < max_len /\ blen (e_name e) < max_len /\ 0 <= e_tsize e < two64.

(* ------------------------------------------------------------------ *)

Lemma wire_tsize_range : forall s, 0 <= s < two64 -> 0 <= wire_tsize s < two63.
Proof. intros s H. unfold wire_tsize. destruct (Z.ltb_spec s two63); unfold two63 in *; lia. Qed.

Lemma wf_link_fields : forall e, wf_entry e -> Forall wf_field (link_fields e).
Proof.
  intros e (Hc & Hn & Ht). pose proof (wire_tsize_range _ Ht).
  unfold link_fields.
  constructor; [|constructor; [|constructor; [|constructor]]];
    (split; cbn [fst snd wf_val]; [unfold max_fnum; lia|unfold max_len, two63, two64 in *; lia]).
Qed.

Lemma link_fields_size : forall e, fields_size (link_fields e) = link_inner_size e.
Proof.
  intro e. unfold link_fields, fields_size, field_size, link_inner_size.
  cbn [fold_right fst snd wtype val_size].
  change (vlen (tag 1 2)) with 1. change (vlen (tag 2 2)) with 1. change (vlen (tag 3 0)) with 1. lia.
Qed.

Lemma link_inner_bound : forall e, wf_entry e -> 0 <= link_inner_size e < two64.
Proof.
  intros e (Hc & Hn & Ht). unfold link_inner_size.
  pose proof (blen_nonneg (e_cid e)). pose proof (blen_nonneg (e_name e)).
  pose proof (wire_tsize_range _ Ht).
  assert (1 <= vlen (blen (e_cid e)) <= 10) by (apply vlen_u64; unfold max_len, two63, two64 in *; lia).
  assert (1 <= vlen (blen (e_name e)) <= 10) by (apply vlen_u64; unfold max_len, two63, two64 in *; lia).
  assert (1 <= vlen (wire_tsize (e_tsize e)) <= 10) by (apply vlen_u64; unfold max_len, two63, two64 in *; lia).
  unfold max_len, two63, two64 in *. lia.
Qed.

Lemma wf_link_entry : forall e, wf_entry e -> wf_field (link_entry e).
Proof.
  intros e H. split; cbn [fst snd link_entry wf_val]; [unfold max_fnum; lia|].
  rewrite emit_length by (apply wf_link_fields; exact H).
  rewrite link_fields_size. apply link_inner_bound. exact H.
Qed.

Lemma link_entry_field_size : forall e, wf_entry e -> field_size (link_entry e) = link_entry_size e.
Proof.
  intros e H. unfold field_size, link_entry, link_entry_size. cbn [fst snd wtype val_size].
  rewrite emit_length by (apply wf_link_fields; exact H). rewrite link_fields_size.
  change (vlen (tag 2 2)) with 1. lia.
Qed.

Lemma wf_node_fields : forall es data, Forall wf_entry es ->
  match data with Some b => blen b < two64 | None => True end ->
  Forall wf_field (node_fields es data).
Proof.
  intros es data He Hd. unfold node_fields. apply Forall_app. split.
  - apply Forall_map. eapply Forall_impl; [|exact He]. intros e H. apply wf_link_entry. exact H.
  - destruct data as [b|]; cbn [data_entry]; constructor; [|constructor].
    split; cbn [fst snd wf_val]; [unfold max_fnum; lia|exact Hd].
Qed.

Lemma node_fields_size : forall es data, Forall wf_entry es ->
  fields_size (node_fields es data) = node_size es data.
Proof.
  intros es data He. unfold node_fields, node_size. rewrite fields_size_app. f_equal.
  - induction He as [|e es H _ IH]; [reflexivity|].
    cbn [map sum_sizes fold_right]. unfold fields_size in *. cbn [fold_right].
    rewrite IH, link_entry_field_size by exact H. reflexivity.
  - destruct data as [b|]; cbn [data_entry data_entry_size]; [|reflexivity].
    unfold fields_size, field_size. cbn [fold_right fst snd wtype val_size].
    change (vlen (tag 1 2)) with 1. lia.
Qed.

(** the exact length of a serialised node *)
Theorem encode_node_length : forall es data, Forall wf_entry es ->
  match data with Some b => blen b < two64 | None => True end ->
  blen (encode_node es data) = node_size es data.
Proof.
  intros es data He Hd. unfold encode_node.
  rewrite emit_length by (apply wf_node_fields; assumption).
  apply node_fields_size. exact He.
Qed.

(** order does not matter for the size *)
Lemma sum_sizes_perm : forall a b, Permutation a b -> sum_sizes a = sum_sizes b.
Proof.
  intros a b P. induction P as [|x l l' _ IH|x y l|l l' l'' _ IH1 _ IH2];
    cbn [sum_sizes fold_right] in *; try lia. unfold sum_sizes in *. lia.
Qed.

Lemma insert_link_perm : forall e l, Permutation (e :: l) (insert_link e l).
Proof.
  intros e l. induction l as [|x r IH]; cbn [insert_link]; [apply Permutation_refl|].
  destruct (bytes_leb (e_name x) (e_name e)); [|apply Permutation_refl].
  eapply Permutation_trans; [apply perm_swap|]. apply perm_skip. exact IH.
Qed.

Lemma sort_links_perm : forall l, Permutation l (sort_links l).
Proof.
  intro l. unfold sort_links.
  assert (G : forall acc, Permutation (acc ++ l) (fold_left (fun acc e => insert_link e acc) l acc)).
  { induction l as [|e l IH]; intro acc; cbn [fold_left].
    - rewrite app_nil_r. apply Permutation_refl.
    - eapply Permutation_trans; [|apply IH].
      eapply Permutation_trans; [apply Permutation_sym, Permutation_middle|].
      change (e :: acc ++ l) with ((e :: acc) ++ l).
      apply Permutation_app_tail. apply insert_link_perm. }
  apply (G []).
Qed.

Lemma sort_links_size : forall l, sum_sizes (sort_links l) = sum_sizes l.
Proof. intro l. symmetry. apply sum_sizes_perm, sort_links_perm. Qed.

Lemma sort_links_wf : forall l, Forall wf_entry l -> Forall wf_entry (sort_links l).
Proof.
  intros l H. rewrite Forall_forall in *. intros e He. apply H.
  eapply Permutation_in; [apply Permutation_sym, sort_links_perm|exact He].
Qed.

Lemma sum_sizes_app : forall a b, sum_sizes (a ++ b) = sum_sizes a + sum_sizes b.
Proof.
  unfold sum_sizes. induction a as [|x a IH]; intro b; cbn [app fold_right]; [reflexivity|].
  rewrite IH. lia.
Qed.

Example sort_ex :
  map e_name (sort_links [ {| e_name := [98]; e_cid := []; e_tsize := 1 |};
                           {| e_name := [97; 98]; e_cid := []; e_tsize := 2 |};
                           {| e_name := [97]; e_cid := []; e_tsize := 3 |} ])
  = [[97]; [97; 98]; [98]].
Proof. reflexivity. Qed.
