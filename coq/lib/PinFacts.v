(** Invariants of the pinner model [lib/PinModel.v] and their preservation by every datastore
    write of every operation (used by the proofs of C23 and C22). *)
From Coq Require Import List Bool Arith NArith Lia.
From V Require Import lib.PinModel.
Import ListNotations.
Open Scope N_scope.

(** ---------- multimaps ---------- *)
Lemma pr_eqb_eq a b : pr_eqb a b = true <-> a = b.
Proof.
  destruct a as [a1 a2], b as [b1 b2]. unfold pr_eqb. cbn [fst snd].
  rewrite andb_true_iff, !N.eqb_eq. split.
  - intros [H1 H2]. congruence.
  - intros H. inversion H. auto.
Qed.

Lemma mm_has_In p m : mm_has p m = true <-> In p m.
Proof.
  unfold mm_has. rewrite existsb_exists. split.
  - intros [q [Hq He]]. apply pr_eqb_eq in He. subst. exact Hq.
  - intros H. exists p. split; [exact H|]. apply pr_eqb_eq. reflexivity.
Qed.

Lemma mm_has_false p m : mm_has p m = false <-> ~ In p m.
Proof. rewrite <- mm_has_In. destruct (mm_has p m); split; congruence. Qed.

Lemma mm_add_In p q m : In q (mm_add p m) <-> q = p \/ In q m.
Proof.
  unfold mm_add. destruct (mm_has p m) eqn:E.
  - apply mm_has_In in E. split; [auto|]. intros [H|H]; [subst; exact E|exact H].
  - rewrite in_app_iff. cbn [In]. intuition congruence.
Qed.

Lemma mm_del_In p q m : In q (mm_del p m) <-> In q m /\ q <> p.
Proof.
  unfold mm_del. rewrite filter_In, negb_true_iff. split.
  - intros [H1 H2]. split; [exact H1|]. intros E. subst q.
    assert (pr_eqb p p = true) by (apply pr_eqb_eq; reflexivity). congruence.
  - intros [H1 H2]. split; [exact H1|]. destruct (pr_eqb q p) eqn:E; [|reflexivity].
    apply pr_eqb_eq in E. contradiction.
Qed.

Lemma mm_search_In k i m : In i (mm_search k m) <-> In (k, i) m.
Proof.
  unfold mm_search. rewrite nodup_In, in_map_iff. split.
  - intros [[a b] [Hb Hin]]. cbn [snd] in Hb. subst b. apply filter_In in Hin.
    destruct Hin as [Hin Ha]. cbn [fst] in Ha. apply N.eqb_eq in Ha. subst a. exact Hin.
  - intros H. exists (k, i). split; [reflexivity|]. apply filter_In. split; [exact H|].
    cbn [fst]. apply N.eqb_refl.
Qed.

Lemma mm_search_nodup k m : NoDup (mm_search k m).
Proof. apply NoDup_nodup. Qed.

Lemma mm_hasany_In k m : mm_hasany k m = true <-> exists i, In (k, i) m.
Proof.
  unfold mm_hasany. rewrite existsb_exists. split.
  - intros [[a b] [Hin Ha]]. cbn [fst] in Ha. apply N.eqb_eq in Ha. subst a. exists b. exact Hin.
  - intros [i Hi]. exists (k, i). split; [exact Hi|]. apply N.eqb_refl.
Qed.

(** ---------- records ---------- *)
Lemma find_rec_some i s r : find_rec i s = Some r -> In r (recs s) /\ r_id r = i.
Proof.
  unfold find_rec. intros H. apply find_some in H. destruct H as [H1 H2].
  apply N.eqb_eq in H2. auto.
Qed.

Definition uid (s : store) : Prop := NoDup (map r_id (recs s)).

Lemma find_rec_uid_list rs r :
  NoDup (map r_id rs) -> In r rs -> find (fun q => r_id q =? r_id r) rs = Some r.
Proof.
  induction rs as [|q rs IH]; intros Hnd Hin; [destruct Hin|].
  cbn [map] in Hnd. inversion Hnd as [|x l Hnot Hnd' E]. subst.
  cbn [find]. destruct Hin as [Hq|Hin].
  - subst q. rewrite N.eqb_refl. reflexivity.
  - destruct (r_id q =? r_id r) eqn:E.
    + apply N.eqb_eq in E. exfalso. apply Hnot. rewrite E. apply in_map. exact Hin.
    + apply IH; assumption.
Qed.

Lemma find_rec_uid s r : uid s -> In r (recs s) -> find_rec (r_id r) s = Some r.
Proof. intros. apply find_rec_uid_list; assumption. Qed.

Lemma del_rec_In i r rs : In r (del_rec i rs) <-> In r rs /\ r_id r <> i.
Proof.
  unfold del_rec. rewrite filter_In, negb_true_iff, N.eqb_neq. tauto.
Qed.

Lemma find_del_other i j rs : i <> j ->
  find (fun q => r_id q =? j) (del_rec i rs) = find (fun q => r_id q =? j) rs.
Proof.
  intros Hne. induction rs as [|q rs IH]; [reflexivity|].
  cbn [del_rec filter]. fold (del_rec i rs).
  destruct (r_id q =? i) eqn:E; cbn [negb].
  - apply N.eqb_eq in E. cbn [find]. destruct (r_id q =? j) eqn:E2.
    + apply N.eqb_eq in E2. congruence.
    + exact IH.
  - cbn [find]. destruct (r_id q =? j); [reflexivity|exact IH].
Qed.

Lemma find_del_same i rs : find (fun q => r_id q =? i) (del_rec i rs) = None.
Proof.
  induction rs as [|q rs IH]; [reflexivity|].
  cbn [del_rec filter]. fold (del_rec i rs). destruct (r_id q =? i) eqn:E; cbn [negb]; [exact IH|].
  cbn [find]. rewrite E. exact IH.
Qed.

Lemma find_app_fresh j rs r : r_id r <> j ->
  find (fun q => r_id q =? j) (rs ++ [r]) = find (fun q => r_id q =? j) rs.
Proof.
  intros Hne. induction rs as [|q rs IH]; cbn [app find].
  - destruct (r_id r =? j) eqn:E; [apply N.eqb_eq in E; contradiction|reflexivity].
  - destruct (r_id q =? j); [reflexivity|exact IH].
Qed.

Lemma del_rec_fresh i rs : ~ In i (map r_id rs) -> del_rec i rs = rs.
Proof.
  intros H. induction rs as [|q rs IH]; [reflexivity|].
  cbn [del_rec filter]. fold (del_rec i rs). cbn [map In] in H.
  destruct (r_id q =? i) eqn:E.
  - apply N.eqb_eq in E. exfalso. apply H. left. exact E.
  - cbn [negb]. f_equal. apply IH. intros Hin. apply H. right. exact Hin.
Qed.

Lemma del_rec_ids i rs : NoDup (map r_id rs) -> NoDup (map r_id (del_rec i rs)).
Proof.
  induction rs as [|q rs IH]; intros Hnd; [constructor|].
  cbn [map] in Hnd. inversion Hnd as [|x l Hnot Hnd' E]. subst.
  cbn [del_rec filter]. fold (del_rec i rs). destruct (negb (r_id q =? i)).
  - cbn [map]. constructor; [|apply IH; exact Hnd'].
    intros Hin. apply Hnot. apply in_map_iff in Hin. destruct Hin as [r [Hr Hin]].
    apply del_rec_In in Hin. apply in_map_iff. exists r. tauto.
  - apply IH. exact Hnd'.
Qed.

(** ---------- the invariants ---------- *)
(** what an entry of index [x] with key [k] says about the record it points to *)
Definition entry_ok (x : idx) (k : N) (r : prec) : Prop :=
  match x with
  | IR => r_cid r = k /\ r_mode r = MRec
  | ID => r_cid r = k /\ r_mode r = MDir
  | IN => r_name r = k /\ k <> 0
  end.
(** every index entry has its pin record *)
Definition OF (s : store) : Prop :=
  forall x k i, In (k, i) (get_idx x s) -> exists r, find_rec i s = Some r /\ entry_ok x k r.
(** every pin record is indexed *)
Definition indexed (s : store) (r : prec) : Prop :=
  In (r_cid r, r_id r) (get_idx (idx_of_mode (r_mode r)) s) /\
  (r_name r <> 0 -> In (r_name r, r_id r) (idxN s)).
Definition CP (s : store) : Prop := forall r, In r (recs s) -> indexed s r.
(** every CID of [C] has a pin record *)
Definition Prot (C : list N) (s : store) : Prop :=
  forall c, In c C -> exists r, In r (recs s) /\ r_cid r = c.
(** what holds of the datastore after every single write: recoverable *)
Definition PrefInv (s : store) : Prop := OF s /\ uid s /\ (dflag s = Some true \/ CP s).
Definition Q (C : list N) (s : store) : Prop := PrefInv s /\ Prot C s.
(** what holds of a pinner between operations (and between addPin/removePin groups) *)
Definition Inv (C : list N) (p : pst) : Prop :=
  OF (st p) /\ uid (st p) /\ CP (st p) /\ (mdirty p = true -> dflag (st p) = Some true) /\ Prot C (st p).

Lemma Inv_Q C p : Inv C p -> Q C (st p).
Proof.
  intros (H1 & H2 & H3 & H4 & H5). split; [|exact H5].
  split; [exact H1|]. split; [exact H2|]. right. exact H3.
Qed.

(** ---------- boolean checkers follow from the invariants ---------- *)
Lemma mode_eqb_refl m : mode_eqb m m = true.
Proof. destruct m; reflexivity. Qed.

Lemma orphan_free_of s : OF s -> orphan_free s = true.
Proof.
  intros H. unfold orphan_free. rewrite !andb_true_iff. repeat split; apply forallb_forall; intros [k i] Hin.
  - destruct (H IR k i Hin) as [r [Hf [Hc Hm]]]. unfold rec_matches. cbn [fst snd]. rewrite Hf, Hc, Hm.
    rewrite N.eqb_refl. reflexivity.
  - destruct (H ID k i Hin) as [r [Hf [Hc Hm]]]. unfold rec_matches. cbn [fst snd]. rewrite Hf, Hc, Hm.
    rewrite N.eqb_refl. reflexivity.
  - destruct (H IN k i Hin) as [r [Hf [Hc Hm]]]. unfold rec_matches. cbn [fst snd]. rewrite Hf, Hc.
    rewrite N.eqb_refl. cbn [andb]. apply negb_true_iff, N.eqb_neq. exact Hm.
Qed.

Lemma complete_of s : CP s -> complete s = true.
Proof.
  intros H. unfold complete. apply forallb_forall. intros r Hr. destruct (H r Hr) as [H1 H2].
  unfold rec_indexed. rewrite andb_true_iff. split.
  - apply mm_has_In. exact H1.
  - destruct (r_name r =? 0) eqn:E; [reflexivity|]. apply N.eqb_neq in E.
    cbn [orb]. apply mm_has_In. auto.
Qed.

Lemma nodupN_of l : NoDup l -> nodupN l = true.
Proof.
  induction 1 as [|a l Hn Hd IH]; [reflexivity|]. cbn [nodupN]. rewrite IH, andb_true_r.
  apply negb_true_iff. destruct (existsb (N.eqb a) l) eqn:E; [|reflexivity].
  apply existsb_exists in E. destruct E as [x [Hx He]]. apply N.eqb_eq in He. subst x. contradiction.
Qed.

Lemma consistent_of s : OF s -> CP s -> uid s -> consistent s = true.
Proof.
  intros H1 H2 H3. unfold consistent. rewrite orphan_free_of, complete_of by assumption.
  cbn [andb]. apply nodupN_of. exact H3.
Qed.

Lemma pinned_of s c r : CP s -> In r (recs s) -> r_cid r = c -> pinned s c = true.
Proof.
  intros Hcp Hr Hc. destruct (Hcp r Hr) as [H1 _]. unfold pinned. apply orb_true_iff.
  destruct (r_mode r); cbn [idx_of_mode get_idx] in H1; [left|right];
    apply mm_hasany_In; exists (r_id r); rewrite <- Hc; exact H1.
Qed.

Lemma pinned_rec s c : OF s -> pinned s c = true -> exists r, In r (recs s) /\ r_cid r = c.
Proof.
  intros Hof H. unfold pinned in H. apply orb_true_iff in H.
  destruct H as [H|H]; apply mm_hasany_In in H; destruct H as [i Hi].
  - destruct (Hof IR c i Hi) as [r [Hf [Hc _]]]. apply find_rec_some in Hf. exists r. tauto.
  - destruct (Hof ID c i Hi) as [r [Hf [Hc _]]]. apply find_rec_some in Hf. exists r. tauto.
Qed.


(** ---------- single writes ---------- *)
Lemma idx_dec (x y : idx) : {x = y} + {x <> y}.
Proof. decide equality. Qed.

Lemma get_idx_add x y k i s e :
  In e (get_idx x (apply_write s (WAddIdx y k i))) <-> In e (get_idx x s) \/ (x = y /\ e = (k, i)).
Proof.
  destruct x, y; cbn [apply_write set_idx get_idx idxR idxD idxN]; rewrite ?mm_add_In;
    intuition congruence.
Qed.

Lemma get_idx_del x y k i s e :
  In e (get_idx x (apply_write s (WDelIdx y k i))) <-> In e (get_idx x s) /\ ~ (x = y /\ e = (k, i)).
Proof.
  destruct x, y; cbn [apply_write set_idx get_idx idxR idxD idxN]; rewrite ?mm_del_In;
    intuition congruence.
Qed.

Lemma recs_idx_write s w : (forall r, w <> WPutRec r) -> (forall i, w <> WDelRec i) ->
  recs (apply_write s w) = recs s.
Proof.
  intros H1 H2. destruct w as [b|r|i|x k i|x k i]; try reflexivity.
  - exfalso. eapply H1. reflexivity.
  - exfalso. eapply H2. reflexivity.
  - destruct x; reflexivity.
  - destruct x; reflexivity.
Qed.

Lemma find_rec_recs i s s' : recs s = recs s' -> find_rec i s = find_rec i s'.
Proof. unfold find_rec. intros H. rewrite H. reflexivity. Qed.

Lemma of_dirty s b : OF s -> OF (apply_write s (WDirty b)).
Proof.
  intros H x k i Hin.
  destruct x; [exact (H IR k i Hin)|exact (H ID k i Hin)|exact (H IN k i Hin)].
Qed.

Lemma of_addidx s x k i : OF s -> (exists r, find_rec i s = Some r /\ entry_ok x k r) ->
  OF (apply_write s (WAddIdx x k i)).
Proof.
  intros H Hr y k' i' Hin. apply get_idx_add in Hin.
  rewrite (find_rec_recs i' _ s) by (destruct x; reflexivity).
  destruct Hin as [Hin|[Hy He]].
  - exact (H _ _ _ Hin).
  - inversion He. subst. exact Hr.
Qed.

Lemma of_delidx s x k i : OF s -> OF (apply_write s (WDelIdx x k i)).
Proof.
  intros H y k' i' Hin. apply get_idx_del in Hin.
  rewrite (find_rec_recs i' _ s) by (destruct x; reflexivity).
  exact (H _ _ _ (proj1 Hin)).
Qed.

Definition fresh (i : N) (s : store) : Prop := ~ In i (map r_id (recs s)).

Lemma find_rec_put_other r j s : fresh (r_id r) s -> r_id r <> j ->
  find_rec j (apply_write s (WPutRec r)) = find_rec j s.
Proof.
  intros Hf Hne. unfold find_rec. cbn [apply_write set_recs recs].
  rewrite del_rec_fresh by exact Hf. apply find_app_fresh. exact Hne.
Qed.

Lemma recs_put r s : fresh (r_id r) s -> recs (apply_write s (WPutRec r)) = recs s ++ [r].
Proof. intros Hf. cbn [apply_write set_recs recs]. rewrite del_rec_fresh by exact Hf. reflexivity. Qed.

Lemma find_rec_put_same r s : fresh (r_id r) s -> find_rec (r_id r) (apply_write s (WPutRec r)) = Some r.
Proof.
  intros Hf. unfold find_rec. rewrite recs_put by exact Hf.
  unfold fresh in Hf. revert Hf. generalize (recs s) as rs.
  induction rs as [|q rs IH]; intros Hf; cbn [app find].
  - rewrite N.eqb_refl. reflexivity.
  - cbn [map In] in Hf. destruct (r_id q =? r_id r) eqn:E.
    + apply N.eqb_eq in E. exfalso. apply Hf. left. exact E.
    + apply IH. intros Hin. apply Hf. right. exact Hin.
Qed.

Lemma of_putrec s r : OF s -> fresh (r_id r) s -> OF (apply_write s (WPutRec r)).
Proof.
  intros H Hf x k i Hin.
  assert (Hin' : In (k, i) (get_idx x s)) by (destruct x; exact Hin).
  destruct (H _ _ _ Hin') as [q [Hq Hok]]. exists q. split; [|exact Hok].
  rewrite find_rec_put_other; [exact Hq|exact Hf|].
  intros E. apply find_rec_some in Hq. destruct Hq as [Hq1 Hq2]. apply Hf.
  rewrite E, <- Hq2. apply in_map. exact Hq1.
Qed.

Lemma of_delrec s i : OF s -> (forall x k, ~ In (k, i) (get_idx x s)) -> OF (apply_write s (WDelRec i)).
Proof.
  intros H Hno x k j Hin.
  assert (Hin' : In (k, j) (get_idx x s)) by (destruct x; exact Hin).
  destruct (H _ _ _ Hin') as [q [Hq Hok]]. exists q. split; [|exact Hok].
  unfold find_rec. cbn [apply_write set_recs recs]. rewrite find_del_other; [exact Hq|].
  intros E. subst j. exact (Hno _ _ Hin').
Qed.

Lemma uid_same s s' : recs s = recs s' -> uid s -> uid s'.
Proof. unfold uid. intros H. rewrite H. auto. Qed.

Lemma nodup_snoc {A} (l : list A) (a : A) : NoDup l -> ~ In a l -> NoDup (l ++ [a]).
Proof.
  induction 1 as [|b l Hn Hd IH]; intros Ha; cbn [app].
  - constructor; [intros []|constructor].
  - constructor.
    + intros Hin. apply in_app_or in Hin. destruct Hin as [Hin|[Hin|[]]]; [contradiction|].
      subst b. apply Ha. left. reflexivity.
    + apply IH. intros Hin. apply Ha. right. exact Hin.
Qed.

Lemma uid_putrec s r : uid s -> fresh (r_id r) s -> uid (apply_write s (WPutRec r)).
Proof.
  intros H Hf. unfold uid. rewrite recs_put by exact Hf. rewrite map_app. cbn [map].
  apply nodup_snoc; assumption.
Qed.

Lemma uid_delrec s i : uid s -> uid (apply_write s (WDelRec i)).
Proof. intros H. unfold uid. cbn [apply_write set_recs recs]. apply del_rec_ids. exact H. Qed.

Lemma prot_same C s s' : recs s = recs s' -> Prot C s -> Prot C s'.
Proof. unfold Prot. intros H. rewrite H. auto. Qed.

Lemma prot_putrec C s r : Prot C s -> fresh (r_id r) s -> Prot C (apply_write s (WPutRec r)).
Proof.
  intros H Hf c Hc. destruct (H c Hc) as [q [Hq1 Hq2]]. exists q. split; [|exact Hq2].
  rewrite recs_put by exact Hf. apply in_or_app. left. exact Hq1.
Qed.

Lemma prot_putrec_new C s r : Prot C s -> fresh (r_id r) s -> Prot (r_cid r :: C) (apply_write s (WPutRec r)).
Proof.
  intros H Hf c [Hc|Hc].
  - exists r. split; [|exact Hc]. rewrite recs_put by exact Hf. apply in_or_app. right. left. reflexivity.
  - apply (prot_putrec C s r H Hf c Hc).
Qed.

(** deleting record [i] keeps [C] protected when every CID of [C] has another record *)
Lemma prot_delrec C s i :
  (forall c, In c C -> exists q, In q (recs s) /\ r_cid q = c /\ r_id q <> i) ->
  Prot C (apply_write s (WDelRec i)).
Proof.
  intros H c Hc. destruct (H c Hc) as [q [Hq1 [Hq2 Hq3]]]. exists q. split; [|exact Hq2].
  cbn [apply_write set_recs recs]. apply del_rec_In. tauto.
Qed.

(** ---------- sequences of writes ---------- *)
Lemma apply_writes_app ws ws' s : apply_writes (ws ++ ws') s = apply_writes ws' (apply_writes ws s).
Proof. apply fold_left_app. Qed.

(** [p'] was reached from [p] by writes after each of which the datastore satisfied [Q C] *)
Definition Steps (C : list N) (p p' : pst) : Prop :=
  exists ws, log p' = rev ws ++ log p /\ st p' = apply_writes ws (st p) /\
             forall n, Q C (apply_writes (firstn n ws) (st p)).

Lemma steps_refl C p : Q C (st p) -> Steps C p p.
Proof.
  intros H. exists []. split; [reflexivity|]. split; [reflexivity|].
  intros n. rewrite firstn_nil. exact H.
Qed.

Lemma steps_trans C p p' p'' : Steps C p p' -> Steps C p' p'' -> Steps C p p''.
Proof.
  intros [ws [Hl [Hs Hq]]] [ws' [Hl' [Hs' Hq']]]. exists (ws ++ ws'). split; [|split].
  - rewrite Hl', Hl, rev_app_distr, app_assoc. reflexivity.
  - rewrite Hs', Hs, apply_writes_app. reflexivity.
  - intros n. rewrite firstn_app, apply_writes_app.
    destruct (Nat.le_gt_cases n (length ws)) as [Hle|Hgt].
    + assert (E : (n - length ws = 0)%nat) by (apply Nat.sub_0_le; exact Hle). rewrite E.
      cbn [firstn apply_writes fold_left]. apply Hq.
    + assert (E2 : firstn n ws = ws) by (apply firstn_all2, Nat.lt_le_incl; exact Hgt).
      rewrite E2, <- Hs. apply Hq'.
Qed.

Lemma steps_emit C p w : Q C (st p) -> Q C (apply_write (st p) w) -> Steps C p (emit w p).
Proof.
  intros H0 H1. exists [w]. split; [reflexivity|]. split; [reflexivity|].
  intros [|n]; [exact H0|]. cbn [firstn]. rewrite firstn_nil. exact H1.
Qed.

Lemma steps_md C p p' b : Steps C p p' -> Steps C p (set_md b p').
Proof. intros [ws H]. exists ws. exact H. Qed.

Lemma steps_Q C p p' : Steps C p p' -> Q C (st p').
Proof.
  intros [ws [_ [Hs Hq]]]. rewrite Hs. specialize (Hq (length ws)). rewrite firstn_all in Hq. exact Hq.
Qed.

(** ---------- the dirty phase of an operation ---------- *)
(** inside an addPin/removePin group: flag set, indexes justified, CIDs of [C] have records *)
Definition D (C : list N) (p : pst) : Prop :=
  OF (st p) /\ uid (st p) /\ dflag (st p) = Some true /\ mdirty p = true /\ Prot C (st p).

Lemma D_Q C p : D C p -> Q C (st p).
Proof.
  intros (H1 & H2 & H3 & H4 & H5). split; [|exact H5].
  split; [exact H1|]. split; [exact H2|]. left. exact H3.
Qed.

Definition not_dirty_write (w : write) : Prop := forall b, w <> WDirty b.

Lemma dflag_keep s w : not_dirty_write w -> dflag (apply_write s w) = dflag s.
Proof.
  intros H. destruct w as [b|r|i|x k i|x k i]; try reflexivity.
  - exfalso. apply (H b). reflexivity.
  - destruct x; reflexivity.
  - destruct x; reflexivity.
Qed.

Lemma emit_D C p w :
  D C p -> not_dirty_write w ->
  OF (apply_write (st p) w) -> uid (apply_write (st p) w) -> Prot C (apply_write (st p) w) ->
  D C (emit w p) /\ Steps C p (emit w p).
Proof.
  intros HD Hw H1 H2 H3. pose proof HD as (D1 & D2 & D3 & D4 & D5).
  assert (HD' : D C (emit w p)).
  { repeat split; cbn [emit st mdirty]; auto. rewrite dflag_keep by exact Hw. exact D3. }
  split; [exact HD'|]. apply steps_emit; [apply D_Q; exact HD|apply (D_Q C (emit w p)); exact HD'].
Qed.

(** same pin records and index entries *)
Definition samepins (s s' : store) : Prop := recs s = recs s' /\ forall x, get_idx x s = get_idx x s'.

Lemma samepins_refl s : samepins s s.
Proof. split; reflexivity. Qed.

Lemma samepins_dflag s b : samepins s (set_dflag b s).
Proof. split; [reflexivity|]. intros x. destruct x; reflexivity. Qed.

Lemma samepins_find s s' i : samepins s s' -> find_rec i s = find_rec i s'.
Proof. intros [H _]. apply find_rec_recs. exact H. Qed.

Lemma samepins_OF s s' : samepins s s' -> OF s -> OF s'.
Proof.
  intros Hs H x k i Hin. rewrite <- (proj2 Hs x) in Hin. rewrite <- (samepins_find s s' i Hs).
  exact (H x k i Hin).
Qed.

Lemma samepins_CP s s' : samepins s s' -> CP s -> CP s'.
Proof.
  intros [Hr Hx] H r Hin. rewrite <- Hr in Hin. destruct (H r Hin) as [H1 H2].
  split; [rewrite <- Hx; exact H1|]. intros Hn. specialize (H2 Hn).
  specialize (Hx IN). cbn [get_idx] in Hx. rewrite <- Hx. exact H2.
Qed.

Lemma set_dirty_ok C p :
  Inv C p ->
  D C (set_dirty p) /\ Steps C p (set_dirty p) /\ samepins (st p) (st (set_dirty p)) /\
  autosync (set_dirty p) = autosync p.
Proof.
  intros HI. pose proof HI as (I1 & I2 & I3 & I4 & I5). unfold set_dirty.
  destruct (mdirty p) eqn:E.
  - split; [repeat split; auto|]. split; [apply steps_refl, Inv_Q; exact HI|].
    split; [apply samepins_refl|reflexivity].
  - assert (Hs : samepins (st p) (apply_write (st p) (WDirty true))) by apply samepins_dflag.
    assert (HD : D C (set_md true (emit (WDirty true) p))).
    { repeat split; cbn [set_md emit st mdirty].
      - apply (samepins_OF _ _ Hs I1).
      - apply (uid_same (st p)); [apply Hs|exact I2].
      - apply (prot_same C (st p)); [apply Hs|exact I5]. }
    split; [exact HD|]. split.
    + apply steps_md. apply steps_emit; [apply Inv_Q; exact HI|]. apply (D_Q C _ HD).
    + split; [exact Hs|reflexivity].
Qed.

(** ---------- addPin ---------- *)
Definition grows (s s' : store) : Prop := forall x e, In e (get_idx x s) -> In e (get_idx x s').

Lemma add_pin_ok C p i c m n :
  Inv C p -> fresh i (st p) ->
  let p' := add_pin i c m n p in
  D C p' /\ Steps C p p' /\ CP (st p') /\ Prot (c :: C) (st p') /\
  recs (st p') = recs (st p) ++ [mkrec i c m n] /\ grows (st p) (st p') /\
  autosync p' = autosync p.
Proof.
  intros HI Hf. pose proof HI as (I1 & I2 & I3 & I4 & I5).
  destruct (set_dirty_ok C p HI) as (D1 & S1 & [Sr Sx] & A1).
  unfold add_pin. set (p1 := set_dirty p) in *. set (r := mkrec i c m n).
  assert (Hf1 : fresh (r_id r) (st p1)) by (unfold fresh; rewrite <- Sr; exact Hf).
  (* record *)
  pose proof D1 as (O1 & U1 & F1 & M1 & P1).
  destruct (emit_D C p1 (WPutRec r) D1) as [D2 S2];
    [intros b; discriminate|apply of_putrec; assumption|apply uid_putrec; assumption|apply prot_putrec; assumption|].
  set (p2 := emit (WPutRec r) p1) in *.
  assert (R2 : recs (st p2) = recs (st p) ++ [r]) by (cbn [p2 emit st]; rewrite recs_put by exact Hf1; rewrite <- Sr; reflexivity).
  assert (F2 : find_rec i (st p2) = Some r) by (apply (find_rec_put_same r (st p1) Hf1)).
  assert (X2 : forall x, get_idx x (st p2) = get_idx x (st p)) by (intros x; rewrite Sx; destruct x; reflexivity).
  assert (PN2 : Prot (c :: C) (st p2)) by (apply (prot_putrec_new C (st p1) r P1 Hf1)).
  (* cid index *)
  pose proof D2 as (O2 & U2 & _ & _ & P2).
  set (w3 := WAddIdx (idx_of_mode m) c i).
  assert (R3 : recs (apply_write (st p2) w3) = recs (st p2)) by (unfold w3; destruct m; reflexivity).
  destruct (emit_D C p2 w3 D2) as [D3 S3];
    [intros b; discriminate
    |apply of_addidx; [exact O2|exists r; split; [exact F2|destruct m; split; reflexivity]]
    |apply (uid_same (st p2)); [symmetry; exact R3|exact U2]
    |apply (prot_same C (st p2)); [symmetry; exact R3|exact P2]|].
  set (p3 := emit w3 p2) in *.
  assert (R3' : recs (st p3) = recs (st p) ++ [r]) by (cbn [p3 emit st]; rewrite R3; exact R2).
  assert (G3 : grows (st p) (st p3)).
  { intros x e He. cbn [p3 emit st]. unfold w3. apply get_idx_add. left. rewrite X2. exact He. }
  assert (I3' : In (c, i) (get_idx (idx_of_mode m) (st p3))).
  { cbn [p3 emit st]. unfold w3. apply get_idx_add. right. split; reflexivity. }
  assert (PN3 : Prot (c :: C) (st p3)) by (apply (prot_same _ (st p2)); [symmetry; exact R3|exact PN2]).
  assert (CPfin : forall s', recs s' = recs (st p) ++ [r] -> grows (st p) s' ->
            In (c, i) (get_idx (idx_of_mode m) s') -> (n <> 0 -> In (n, i) (idxN s')) -> CP s').
  { intros s' Hr Hg H1 H2 q Hq. rewrite Hr in Hq. apply in_app_or in Hq. destruct Hq as [Hq|[Hq|[]]].
    - destruct (I3 q Hq) as [Q1 Q2]. split; [apply Hg; exact Q1|]. intros Hn. apply (Hg IN). exact (Q2 Hn).
    - subst q. split; [exact H1|exact H2]. }
  destruct (n =? 0) eqn:En.
  - apply N.eqb_eq in En.
    split; [exact D3|]. split.
    { eapply steps_trans; [exact S1|]. eapply steps_trans; [exact S2|exact S3]. }
    split; [apply CPfin; try assumption; intros Hn; contradiction|].
    split; [exact PN3|]. split; [exact R3'|]. split; [exact G3|exact A1].
  - apply N.eqb_neq in En.
    pose proof D3 as (O3 & U3 & _ & _ & P3).
    set (w4 := WAddIdx IN n i).
    assert (R4 : recs (apply_write (st p3) w4) = recs (st p3)) by reflexivity.
    assert (F3 : find_rec i (st p3) = Some r) by (rewrite (find_rec_recs i (st p3) (st p2)); [exact F2|exact R3]).
    destruct (emit_D C p3 w4 D3) as [D4 S4];
      [intros b; discriminate
      |apply of_addidx; [exact O3|exists r; split; [exact F3|split; [reflexivity|exact En]]]
      |apply (uid_same (st p3)); [symmetry; exact R4|exact U3]
      |apply (prot_same C (st p3)); [symmetry; exact R4|exact P3]|].
    split; [exact D4|]. split.
    { eapply steps_trans; [exact S1|]. eapply steps_trans; [exact S2|]. eapply steps_trans; [exact S3|exact S4]. }
    split.
    { apply CPfin.
      * cbn [emit st]. rewrite R4. exact R3'.
      * intros x e He. cbn [emit st]. apply get_idx_add. left. apply G3. exact He.
      * cbn [emit st]. apply get_idx_add. left. exact I3'.
      * intros _. cbn [emit st]. apply (get_idx_add IN IN). right. split; reflexivity. }
    split; [apply (prot_same _ (st p3)); [symmetry; exact R4|exact PN3]|].
    split; [cbn [emit st]; rewrite R4; exact R3'|].
    split; [|exact A1].
    intros x e He. cbn [emit st]. apply get_idx_add. left. apply G3. exact He.
Qed.

(** ---------- removePin ---------- *)
Definition removed_entry (r : prec) (x : idx) (e : N * N) : Prop :=
  (x = idx_of_mode (r_mode r) /\ e = (r_cid r, r_id r)) \/ (x = IN /\ e = (r_name r, r_id r)).

Lemma remove_pin_ok C p r :
  Inv C p -> find_rec (r_id r) (st p) = Some r ->
  (forall c, In c C -> exists q, In q (recs (st p)) /\ r_cid q = c /\ r_id q <> r_id r) ->
  let p' := remove_pin r p in
  D C p' /\ Steps C p p' /\ CP (st p') /\
  recs (st p') = del_rec (r_id r) (recs (st p)) /\
  (forall x e, In e (get_idx x (st p')) <-> In e (get_idx x (st p)) /\ ~ removed_entry r x e) /\
  autosync p' = autosync p.
Proof.
  intros HI Hfr Hsafe. pose proof HI as (I1 & I2 & I3 & I4 & I5).
  destruct (set_dirty_ok C p HI) as (D1 & S1 & [Sr Sx] & A1).
  unfold remove_pin. set (p1 := set_dirty p) in *.
  set (i := r_id r) in *. set (c := r_cid r). set (xm := idx_of_mode (r_mode r)).
  (* cid index *)
  pose proof D1 as (O1 & U1 & _ & _ & P1).
  set (w2 := WDelIdx xm c i).
  assert (R2 : recs (apply_write (st p1) w2) = recs (st p1)) by (unfold w2, xm; destruct (r_mode r); reflexivity).
  destruct (emit_D C p1 w2 D1) as [D2 S2];
    [intros b; discriminate|apply of_delidx; exact O1
    |apply (uid_same (st p1)); [symmetry; exact R2|exact U1]
    |apply (prot_same C (st p1)); [symmetry; exact R2|exact P1]|].
  set (p2 := emit w2 p1) in *.
  assert (X2 : forall x e, In e (get_idx x (st p2)) <-> In e (get_idx x (st p)) /\ ~ (x = xm /\ e = (c, i))).
  { intros x e. cbn [p2 emit st]. unfold w2. rewrite get_idx_del, <- Sx. reflexivity. }
  (* name index *)
  set (p3 := if r_name r =? 0 then p2 else emit (WDelIdx IN (r_name r) i) p2).
  assert (H3 : D C p3 /\ Steps C p2 p3 /\ recs (st p3) = recs (st p) /\ autosync p3 = autosync p /\
               forall x e, In e (get_idx x (st p3)) <-> In e (get_idx x (st p)) /\ ~ removed_entry r x e).
  { unfold p3. destruct (r_name r =? 0) eqn:En.
    - apply N.eqb_eq in En. split; [exact D2|]. split; [apply steps_refl, D_Q; exact D2|].
      split; [cbn [p2 emit st]; rewrite R2; symmetry; exact Sr|]. split; [exact A1|].
      intros x e. rewrite X2. unfold removed_entry. fold xm c i. split.
      + intros [H1 H2]. split; [exact H1|]. intros [H|[Hx He]]; [exact (H2 H)|].
        subst x e. destruct (I1 IN _ _ H1) as [q [_ [_ Hq]]]. apply Hq. exact En.
      + intros [H1 H2]. split; [exact H1|]. intros H. apply H2. left. exact H.
    - pose proof D2 as (O2 & U2 & _ & _ & P2).
      set (w3 := WDelIdx IN (r_name r) i).
      assert (R3 : recs (apply_write (st p2) w3) = recs (st p2)) by reflexivity.
      destruct (emit_D C p2 w3 D2) as [D3 S3];
        [intros b; discriminate|apply of_delidx; exact O2
        |apply (uid_same (st p2)); [symmetry; exact R3|exact U2]
        |apply (prot_same C (st p2)); [symmetry; exact R3|exact P2]|].
      split; [exact D3|]. split; [exact S3|].
      split; [cbn [emit st]; rewrite R3; cbn [p2 emit st]; rewrite R2; symmetry; exact Sr|].
      split; [exact A1|].
      intros x e. cbn [emit st]. unfold w3. rewrite get_idx_del, X2. unfold removed_entry. fold xm c i. tauto. }
  destruct H3 as (D3 & S3 & R3 & A3 & X3).
  (* record *)
  pose proof D3 as (O3 & U3 & _ & _ & P3).
  assert (F3 : find_rec i (st p3) = Some r) by (rewrite (find_rec_recs i (st p3) (st p)); [exact Hfr|exact R3]).
  assert (Hno : forall x k, ~ In (k, i) (get_idx x (st p3))).
  { intros x k Hin. pose proof (O3 x k i Hin) as [q [Hq Hok]]. rewrite F3 in Hq. inversion Hq. subst q.
    apply X3 in Hin. destruct Hin as [_ Hnr]. apply Hnr. unfold removed_entry.
    destruct x; cbn [entry_ok] in Hok.
    - left. destruct Hok as [Hc Hm]. unfold idx_of_mode. rewrite Hm. split; [reflexivity|]. rewrite <- Hc. reflexivity.
    - left. destruct Hok as [Hc Hm]. unfold idx_of_mode. rewrite Hm. split; [reflexivity|]. rewrite <- Hc. reflexivity.
    - right. destruct Hok as [Hc _]. split; [reflexivity|]. rewrite <- Hc. reflexivity. }
  destruct (emit_D C p3 (WDelRec i) D3) as [D4 S4];
    [intros b; discriminate|apply of_delrec; assumption|apply uid_delrec; exact U3
    |apply prot_delrec; intros c' Hc'; rewrite R3; apply Hsafe; exact Hc'|].
  split; [exact D4|]. split.
  { eapply steps_trans; [exact S1|]. eapply steps_trans; [exact S2|]. eapply steps_trans; [exact S3|exact S4]. }
  assert (R4 : recs (st (emit (WDelRec i) p3)) = del_rec i (recs (st p))) by (cbn [emit st apply_write set_recs recs]; rewrite R3; reflexivity).
  assert (X4 : forall x e, In e (get_idx x (st (emit (WDelRec i) p3))) <-> In e (get_idx x (st p)) /\ ~ removed_entry r x e).
  { intros x e. rewrite <- X3. destruct x; reflexivity. }
  split.
  { intros q Hq. rewrite R4 in Hq. apply del_rec_In in Hq. destruct Hq as [Hq Hne].
    destruct (I3 q Hq) as [Q1 Q2]. split.
    - apply X4. split; [exact Q1|]. intros [[_ He]|[_ He]]; inversion He; contradiction.
    - intros Hn. apply (X4 IN). split; [exact (Q2 Hn)|]. intros [[_ He]|[_ He]]; inversion He; contradiction. }
  split; [exact R4|]. split; [exact X4|exact A3].
Qed.

Lemma D_CP_Inv C p : D C p -> CP (st p) -> Inv C p.
Proof.
  intros (H1 & H2 & H3 & H4 & H5) Hc. unfold Inv.
  split; [exact H1|]. split; [exact H2|]. split; [exact Hc|]. split; [intros _; exact H3|exact H5].
Qed.

Lemma Inv_weaken C C' p : (forall c, In c C' -> In c C) -> Inv C p -> Inv C' p.
Proof.
  intros Hs (H1 & H2 & H3 & H4 & H5). unfold Inv.
  split; [exact H1|]. split; [exact H2|]. split; [exact H3|]. split; [exact H4|].
  intros c Hc. apply H5, Hs, Hc.
Qed.

(** ---------- removing a list of pin ids of one CID ---------- *)
Definition keep (sl : sel) (ids : list N) (q : prec) : bool :=
  negb (existsb (N.eqb (r_id q)) ids && sel_mode sl (r_mode q)).

Lemma filter_filter {A} (f g : A -> bool) (l : list A) :
  filter f (filter g l) = filter (fun x => g x && f x) l.
Proof.
  induction l as [|a l IH]; cbn [filter]; [reflexivity|].
  destruct (g a); cbn [filter andb]; [destruct (f a)|]; rewrite IH; reflexivity.
Qed.

Lemma filter_true {A} (f : A -> bool) (l : list A) : (forall a, In a l -> f a = true) -> filter f l = l.
Proof.
  induction l as [|a l IH]; intros H; cbn [filter]; [reflexivity|].
  rewrite (H a (or_introl eq_refl)). f_equal. apply IH. intros x Hx. apply H. right. exact Hx.
Qed.

Lemma remove_ids_ok C c sl : forall ids p b p',
  Inv C p -> NoDup ids ->
  (forall i, In i ids -> exists r, find_rec i (st p) = Some r /\ r_cid r = c) ->
  (In c C -> exists q, In q (recs (st p)) /\ r_cid q = c /\ ~ In (r_id q) ids) ->
  remove_ids c sl ids p = (b, p') ->
  Inv C p' /\ Steps C p p' /\
  (forall q, In q (recs (st p')) -> In q (recs (st p))) /\
  (forall q, In q (recs (st p)) -> ~ In (r_id q) ids -> In q (recs (st p'))) /\
  autosync p' = autosync p /\ (b = false -> p' = p) /\
  recs (st p') = filter (keep sl ids) (recs (st p)).
Proof.
  induction ids as [|i rest IH]; intros p b p' HI Hnd Hrec Hwit Hrun.
  - cbn [remove_ids] in Hrun. inversion Hrun. subst.
    split; [exact HI|]. split; [apply steps_refl, Inv_Q; exact HI|].
    split; [auto|]. split; [auto|]. split; [reflexivity|]. split; [reflexivity|].
    symmetry. apply filter_true. intros a _. reflexivity.
  - cbn [remove_ids] in Hrun. destruct (Hrec i (or_introl eq_refl)) as [r [Hfr Hrc]].
    rewrite Hfr in Hrun. inversion Hnd as [|x l Hnot Hnd' E]. subst x l.
    pose proof (find_rec_some _ _ _ Hfr) as [Hrin Hrid].
    destruct (sel_mode sl (r_mode r)) eqn:Esel.
    + (* removePin *)
      pose proof HI as (I1 & I2 & I3 & I4 & I5).
      assert (Hsafe : forall c', In c' C -> exists q, In q (recs (st p)) /\ r_cid q = c' /\ r_id q <> r_id r).
      { intros c' Hc'. destruct (N.eq_dec c' c) as [E|E].
        - subst c'. destruct (Hwit Hc') as [q [Q1 [Q2 Q3]]]. exists q. split; [exact Q1|]. split; [exact Q2|].
          intros Eq. apply Q3. left. rewrite <- Hrid. symmetry. exact Eq.
        - destruct (I5 c' Hc') as [q [Q1 Q2]]. exists q. split; [exact Q1|]. split; [exact Q2|].
          intros Eq. pose proof (find_rec_uid _ _ I2 Q1) as Fq. rewrite Eq, Hrid, Hfr in Fq.
          inversion Fq. subst q. apply E. rewrite <- Q2, Hrc. reflexivity. }
      rewrite <- Hrid in Hfr.
      destruct (remove_pin_ok C p r HI Hfr Hsafe) as (D1 & S1 & C1 & R1 & X1 & A1).
      rewrite Hrid in R1.
      set (p1 := remove_pin r p) in *.
      destruct (remove_ids c sl rest p1) as [b1 p1'] eqn:Hrest. inversion Hrun. subst b p'.
      assert (HI1 : Inv C p1) by (apply D_CP_Inv; assumption).
      destruct (IH p1 b1 p1' HI1 Hnd') as (J1 & J2 & J3 & J4 & J5 & _ & J7).
      * intros j Hj. destruct (Hrec j (or_intror Hj)) as [rj [Hfj Hcj]]. exists rj. split; [|exact Hcj].
        unfold find_rec. rewrite R1. rewrite find_del_other; [exact Hfj|]. intros E. subst j. contradiction.
      * intros Hc. destruct (Hwit Hc) as [q [Q1 [Q2 Q3]]]. exists q. split.
        { rewrite R1. apply del_rec_In. split; [exact Q1|]. intros E. apply Q3. left. symmetry. exact E. }
        split; [exact Q2|]. intros Hin. apply Q3. right. exact Hin.
      * exact Hrest.
      * split; [exact J1|]. split; [eapply steps_trans; [exact S1|exact J2]|].
        split. { intros q Hq. apply J3 in Hq. rewrite R1 in Hq. apply del_rec_In in Hq. tauto. }
        split. { intros q Hq Hnin. apply J4.
                 - rewrite R1. apply del_rec_In. split; [exact Hq|]. intros E. apply Hnin. left. symmetry. exact E.
                 - intros Hin. apply Hnin. right. exact Hin. }
        split; [rewrite J5; exact A1|]. split; [intros E; discriminate|].
        rewrite J7, R1. unfold del_rec. rewrite filter_filter. apply filter_ext_in. intros q Hq.
        unfold keep. cbn [existsb]. destruct (r_id q =? i) eqn:Eq.
        { apply N.eqb_eq in Eq. pose proof (find_rec_uid _ _ I2 Hq) as Fq. rewrite Eq, <- Hrid, Hfr in Fq.
          inversion Fq. subst q. rewrite Esel. reflexivity. }
        { reflexivity. }
    + (* not selected: skip *)
      destruct (IH p b p' HI Hnd') as (J1 & J2 & J3 & J4 & J5 & J6 & J7).
      * intros j Hj. apply Hrec. right. exact Hj.
      * intros Hc. destruct (Hwit Hc) as [q [Q1 [Q2 Q3]]]. exists q. split; [exact Q1|]. split; [exact Q2|].
        intros Hin. apply Q3. right. exact Hin.
      * exact Hrun.
      * split; [exact J1|]. split; [exact J2|]. split; [exact J3|].
        split. { intros q Hq Hnin. apply J4; [exact Hq|]. intros Hin. apply Hnin. right. exact Hin. }
        split; [exact J5|]. split; [exact J6|].
        rewrite J7. apply filter_ext_in. intros q Hq. unfold keep. cbn [existsb].
        destruct (r_id q =? i) eqn:Eq; [|reflexivity].
        apply N.eqb_eq in Eq. pose proof HI as (_ & I2 & _). pose proof (find_rec_uid _ _ I2 Hq) as Fq.
        rewrite Eq, Hfr in Fq. inversion Fq. subst q. rewrite Esel. cbn [orb andb]. rewrite andb_false_r. reflexivity.
Qed.

(** the ids an index search finds have records with that CID *)
Lemma sel_ids_recs c sl s : OF s -> forall i, In i (sel_ids c sl s) -> exists r, find_rec i s = Some r /\ r_cid r = c.
Proof.
  intros H i Hin. destruct sl; cbn [sel_ids] in Hin.
  - apply mm_search_In in Hin. destruct (H IR c i Hin) as [r [Hf [Hc _]]]. exists r. auto.
  - apply mm_search_In in Hin. destruct (H ID c i Hin) as [r [Hf [Hc _]]]. exists r. auto.
  - apply in_app_or in Hin. destruct Hin as [Hin|Hin]; apply mm_search_In in Hin.
    + destruct (H IR c i Hin) as [r [Hf [Hc _]]]. exists r. auto.
    + destruct (H ID c i Hin) as [r [Hf [Hc _]]]. exists r. auto.
Qed.

Lemma nodup_app {A} (l1 l2 : list A) :
  NoDup l1 -> NoDup l2 -> (forall a, In a l1 -> ~ In a l2) -> NoDup (l1 ++ l2).
Proof.
  induction 1 as [|a l Hn Hd IH]; intros H2 Hdis; cbn [app]; [exact H2|].
  constructor.
  - intros Hin. apply in_app_or in Hin. destruct Hin as [Hin|Hin]; [contradiction|].
    apply (Hdis a (or_introl eq_refl) Hin).
  - apply IH; [exact H2|]. intros x Hx. apply Hdis. right. exact Hx.
Qed.

Lemma sel_ids_nodup c sl s : OF s -> NoDup (sel_ids c sl s).
Proof.
  intros H. destruct sl; cbn [sel_ids]; try apply mm_search_nodup.
  apply nodup_app; try apply mm_search_nodup.
  intros i H1 H2. apply mm_search_In in H1, H2.
  destruct (H IR c i H1) as [r [Hf [_ Hm]]]. destruct (H ID c i H2) as [r' [Hf' [_ Hm']]].
  rewrite Hf in Hf'. inversion Hf'. subst r'. rewrite Hm in Hm'. discriminate.
Qed.

(** ---------- flush ---------- *)
Lemma set_clean_ok C p :
  Inv C p -> Inv C (set_clean p) /\ Steps C p (set_clean p) /\ samepins (st p) (st (set_clean p)) /\
  autosync (set_clean p) = autosync p.
Proof.
  intros HI. pose proof HI as (I1 & I2 & I3 & I4 & I5). unfold set_clean. destruct (mdirty p) eqn:E.
  - assert (Hs : samepins (st p) (apply_write (st p) (WDirty false))) by apply samepins_dflag.
    assert (HI' : Inv C (set_md false (emit (WDirty false) p))).
    { unfold Inv. cbn [set_md emit st mdirty].
      split; [apply (samepins_OF _ _ Hs I1)|]. split; [apply (uid_same (st p)); [apply Hs|exact I2]|].
      split; [apply (samepins_CP _ _ Hs I3)|]. split; [intros X; discriminate|].
      apply (prot_same C (st p)); [apply Hs|exact I5]. }
    split; [exact HI'|]. split.
    + apply steps_md. apply steps_emit; [apply Inv_Q; exact HI|]. apply (Inv_Q C _ HI').
    + split; [exact Hs|reflexivity].
  - split; [exact HI|]. split; [apply steps_refl, Inv_Q; exact HI|]. split; [apply samepins_refl|reflexivity].
Qed.

Lemma flush_pins_ok C force p :
  Inv C p -> Inv C (flush_pins force p) /\ Steps C p (flush_pins force p) /\
  samepins (st p) (st (flush_pins force p)) /\ autosync (flush_pins force p) = autosync p.
Proof.
  intros HI. unfold flush_pins. destruct (autosync p || force).
  - apply set_clean_ok. exact HI.
  - split; [exact HI|]. split; [apply steps_refl, Inv_Q; exact HI|]. split; [apply samepins_refl|reflexivity].
Qed.

Lemma fresh_sub i s s' : (forall q, In q (recs s') -> In q (recs s)) -> fresh i s -> fresh i s'.
Proof.
  intros Hsub Hf Hin. apply Hf. apply in_map_iff in Hin. destruct Hin as [q [Hq Hin]].
  apply in_map_iff. exists q. split; [exact Hq|]. apply Hsub. exact Hin.
Qed.

(** ---------- removePinsForCid on a CID outside [C] ---------- *)
Lemma remove_pins_ok C c sl p b p' :
  Inv C p -> ~ In c C -> remove_pins_for_cid c sl p = (b, p') ->
  Inv C p' /\ Steps C p p' /\ (forall q, In q (recs (st p')) -> In q (recs (st p))) /\
  autosync p' = autosync p /\ (b = false -> p' = p) /\
  recs (st p') = filter (keep sl (sel_ids c sl (st p))) (recs (st p)).
Proof.
  intros HI Hc Hrun. unfold remove_pins_for_cid in Hrun. pose proof HI as (I1 & _).
  destruct (remove_ids_ok C c sl _ p b p' HI (sel_ids_nodup c sl _ I1) (sel_ids_recs c sl _ I1)) as (J1 & J2 & J3 & _ & J5 & J6 & J7);
    [intros H; contradiction|exact Hrun|].
  split; [exact J1|]. split; [exact J2|]. split; [exact J3|]. split; [exact J5|]. split; [exact J6|exact J7].
Qed.

Lemma cond_remove_ok C c sl p (b : bool) :
  Inv C p -> ~ In c C ->
  let p1 := if b then snd (remove_pins_for_cid c sl p) else p in
  Inv C p1 /\ Steps C p p1 /\ (forall q, In q (recs (st p1)) -> In q (recs (st p))) /\ autosync p1 = autosync p.
Proof.
  intros HI Hc. destruct b; cbn zeta.
  - destruct (remove_pins_for_cid c sl p) as [b' p'] eqn:E. cbn [snd].
    destruct (remove_pins_ok C c sl p b' p' HI Hc E) as (J1 & J2 & J3 & J4 & _).
    split; [exact J1|]. split; [exact J2|]. split; [exact J3|exact J4].
  - split; [exact HI|]. split; [apply steps_refl, Inv_Q; exact HI|]. split; [intros q Hq; exact Hq|reflexivity].
Qed.

(** ---------- the operations ---------- *)
Definition unpins (o : op) (c : N) : bool :=
  match o with
  | OUnpin c' _ => c =? c'
  | OUpdate from _ true _ => c =? from
  | _ => false
  end.
Definition repins (o : op) (c : N) : bool :=
  match o with
  | OPin c' _ _ _ | OPinMode c' _ _ => c =? c'
  | _ => false
  end.

Lemma find_rec_app_other j s s' r : recs s' = recs s ++ [r] -> r_id r <> j -> find_rec j s' = find_rec j s.
Proof. intros Hr Hne. unfold find_rec. rewrite Hr. apply find_app_fresh. exact Hne. Qed.

(** add the new pin, then remove the old pins of the same CID (defect switch off) *)
Lemma add_then_remove_ok C newid c m n sl p :
  Inv C p -> fresh newid (st p) ->
  let old := sel_ids c sl (st p) in
  let p1 := add_pin newid c m n p in
  let p2 := snd (remove_ids c sl old p1) in
  Inv C p2 /\ Steps C p p2 /\ autosync p2 = autosync p /\
  recs (st p2) = filter (keep sl old) (recs (st p) ++ [mkrec newid c m n]).
Proof.
  intros HI Hf old p1 p2. pose proof HI as (I1 & I2 & _).
  destruct (add_pin_ok C p newid c m n HI Hf) as (D1 & S1 & C1 & P1 & R1 & G1 & A1). fold p1 in D1, S1, C1, P1, R1, G1, A1.
  assert (HI1 : Inv C p1) by (apply D_CP_Inv; assumption).
  assert (Hold : forall i, In i old -> exists r, find_rec i (st p) = Some r /\ r_cid r = c) by (apply sel_ids_recs; exact I1).
  assert (Hne : forall i, In i old -> newid <> i).
  { intros i Hi E. subst i. destruct (Hold newid Hi) as [r [Hr _]]. apply find_rec_some in Hr.
    destruct Hr as [Hr1 Hr2]. apply Hf. rewrite <- Hr2. apply in_map. exact Hr1. }
  unfold p2. destruct (remove_ids c sl old p1) as [b p'] eqn:E. cbn [snd].
  destruct (remove_ids_ok C c sl old p1 b p' HI1 (sel_ids_nodup c sl _ I1)) as (J1 & J2 & _ & _ & J5 & _ & J7).
  - intros i Hi. destruct (Hold i Hi) as [r [Hr Hc]]. exists r. split; [|exact Hc].
    rewrite (find_rec_app_other i (st p) (st p1) _ R1); [exact Hr|]. cbn [r_id]. apply Hne. exact Hi.
  - intros _. exists (mkrec newid c m n). split; [rewrite R1; apply in_or_app; right; left; reflexivity|].
    split; [reflexivity|]. cbn [r_id]. intros Hin. exact (Hne _ Hin eq_refl).
  - exact E.
  - split; [exact J1|]. split; [eapply steps_trans; [exact S1|exact J2]|]. split; [rewrite J5; exact A1|].
    rewrite J7, R1. reflexivity.
Qed.

Lemma finish_ok C force p0 p :
  Inv C p -> Steps C p0 p -> Inv C (flush_pins force p) /\ Steps C p0 (flush_pins force p).
Proof.
  intros HI HS. destruct (flush_pins_ok C force p HI) as (J1 & J2 & _). split; [exact J1|].
  eapply steps_trans; [exact HS|exact J2].
Qed.

Lemma steps_same C p p' : st p' = st p -> log p' = log p -> Q C (st p) -> Steps C p p'.
Proof.
  intros Hs Hl HQ. exists []. split; [exact Hl|]. split; [exact Hs|]. intros n. rewrite firstn_nil. exact HQ.
Qed.

Lemma Inv_same C p p' : st p' = st p -> mdirty p' = mdirty p -> Inv C p -> Inv C p'.
Proof. unfold Inv. intros Hs Hm. rewrite Hs, Hm. auto. Qed.

Lemma pin_recursive_ok C fl newid c n ok p r p' :
  Inv C p -> fresh newid (st p) -> (f_remove_then_add fl = true -> ~ In c C) ->
  pin_recursive fl newid c n ok p = (r, p') -> Inv C p' /\ Steps C p p'.
Proof.
  intros HI Hf Hc Hrun. unfold pin_recursive in Hrun. destruct (f_remove_then_add fl) eqn:Efl.
  - specialize (Hc eq_refl).
    destruct (cond_remove_ok C c SRec p (mm_hasany c (idxR (st p))) HI Hc) as (J1 & S1 & R1 & A1).
    cbv zeta in J1, S1, R1, A1, Hrun.
    set (p1 := if mm_hasany c (idxR (st p)) then snd (remove_pins_for_cid c SRec p) else p) in *.
    destruct (negb ok).
    + inversion Hrun. subst. split; assumption.
    + destruct (cond_remove_ok C c SDir p1 (mm_hasany c (idxD (st p1))) J1 Hc) as (J2 & S2 & R2 & A2).
      cbv zeta in J2, S2, R2, A2.
      set (p2 := if mm_hasany c (idxD (st p1)) then snd (remove_pins_for_cid c SDir p1) else p1) in *.
      assert (Hf2 : fresh newid (st p2)).
      { apply (fresh_sub newid (st p)); [|exact Hf]. intros q Hq. apply R1, R2. exact Hq. }
      destruct (add_pin_ok C p2 newid c MRec n J2 Hf2) as (D3 & S3 & C3 & _).
      inversion Hrun. subst.
      apply finish_ok; [apply D_CP_Inv; assumption|].
      eapply steps_trans; [exact S1|]. eapply steps_trans; [exact S2|exact S3].
  - destruct (negb ok).
    + inversion Hrun. subst. split; [exact HI|apply steps_refl, Inv_Q; exact HI].
    + destruct (add_then_remove_ok C newid c MRec n SAny p HI Hf) as (J1 & S1 & _).
      cbv zeta in J1, S1. inversion Hrun. subst. apply finish_ok; assumption.
Qed.

Lemma pin_direct_ok C fl newid c n p r p' :
  Inv C p -> fresh newid (st p) -> (f_remove_then_add fl = true -> ~ In c C) ->
  pin_direct fl newid c n p = (r, p') -> Inv C p' /\ Steps C p p'.
Proof.
  intros HI Hf Hc Hrun. unfold pin_direct in Hrun.
  destruct (mm_hasany c (idxR (st p))).
  { inversion Hrun. subst. split; [exact HI|apply steps_refl, Inv_Q; exact HI]. }
  destruct (f_remove_then_add fl) eqn:Efl.
  - specialize (Hc eq_refl).
    destruct (cond_remove_ok C c SDir p (mm_hasany c (idxD (st p))) HI Hc) as (J1 & S1 & R1 & A1).
    cbv zeta in J1, S1, R1, A1, Hrun.
    set (p1 := if mm_hasany c (idxD (st p)) then snd (remove_pins_for_cid c SDir p) else p) in *.
    assert (Hf1 : fresh newid (st p1)) by (apply (fresh_sub newid (st p)); assumption).
    destruct (add_pin_ok C p1 newid c MDir n J1 Hf1) as (D3 & S3 & C3 & _).
    inversion Hrun. subst.
    apply finish_ok; [apply D_CP_Inv; assumption|]. eapply steps_trans; [exact S1|exact S3].
  - destruct (add_then_remove_ok C newid c MDir n SDir p HI Hf) as (J1 & S1 & _).
    cbv zeta in J1, S1. inversion Hrun. subst. apply finish_ok; assumption.
Qed.

Lemma unpin_ok C c rc p r p' :
  Inv C p -> ~ In c C -> unpin c rc p = (r, p') -> Inv C p' /\ Steps C p p'.
Proof.
  intros HI Hc Hrun. unfold unpin in Hrun.
  destruct (mm_hasany c (idxR (st p)) && negb rc).
  { inversion Hrun. subst. split; [exact HI|apply steps_refl, Inv_Q; exact HI]. }
  destruct (negb (mm_hasany c (idxR (st p))) && negb (mm_hasany c (idxD (st p)))).
  { inversion Hrun. subst. split; [exact HI|apply steps_refl, Inv_Q; exact HI]. }
  destruct (remove_pins_for_cid c SAny p) as [b p1] eqn:E.
  destruct (remove_pins_ok C c SAny p b p1 HI Hc E) as (J1 & S1 & _).
  destruct b; inversion Hrun; subst.
  - apply finish_ok; assumption.
  - split; assumption.
Qed.

Lemma update_ok C newid from to unp ok p r p' :
  Inv C p -> fresh newid (st p) -> (unp = true -> ~ In from C) ->
  update newid from to unp ok p = (r, p') -> Inv C p' /\ Steps C p p'.
Proof.
  intros HI Hf Hc Hrun. unfold update in Hrun.
  assert (Hsame : Inv C p /\ Steps C p p) by (split; [exact HI|apply steps_refl, Inv_Q; exact HI]).
  destruct (mm_search from (idxR (st p))) as [|fid [|x l]]; try (inversion Hrun; subst; exact Hsame).
  destruct (from =? to); [inversion Hrun; subst; exact Hsame|].
  destruct (mm_hasany to (idxR (st p))); [inversion Hrun; subst; exact Hsame|].
  destruct (negb ok); [inversion Hrun; subst; exact Hsame|].
  destruct (find_rec fid (st p)) as [rf|]; [|inversion Hrun; subst; exact Hsame].
  destruct (add_pin_ok C p newid to MRec (r_name rf) HI Hf) as (D1 & S1 & C1 & _).
  set (p1 := add_pin newid to MRec (r_name rf) p) in *.
  assert (J1 : Inv C p1) by (apply D_CP_Inv; assumption).
  destruct unp.
  - specialize (Hc eq_refl).
    destruct (remove_pins_for_cid from SRec p1) as [b p2] eqn:E. cbn [snd] in Hrun.
    destruct (remove_pins_ok C from SRec p1 b p2 J1 Hc E) as (J2 & S2 & _).
    inversion Hrun. subst. apply finish_ok; [exact J2|]. eapply steps_trans; [exact S1|exact S2].
  - inversion Hrun. subst. apply finish_ok; assumption.
Qed.

(** every operation, either defect setting: the CIDs of [C] keep a pin record after every
    single write, provided the operation is not asked to unpin them (and, with the defect on,
    does not re-pin them) *)
Definition allowed (fl : flags) (o : op) (C : list N) : Prop :=
  forall c, In c C -> unpins o c = false /\ (f_remove_then_add fl = true -> repins o c = false).

Lemma exec_ok C fl newid p o r p' :
  Inv C p -> fresh newid (st p) -> allowed fl o C ->
  exec fl newid p o = (r, p') -> Inv C p' /\ Steps C p p'.
Proof.
  intros HI Hf Hal Hrun.
  assert (Hsame : Inv C p /\ Steps C p p) by (split; [exact HI|apply steps_refl, Inv_Q; exact HI]).
  destruct o as [c rc n ok|c m n|c rc|from to unp ok|b|]; cbn [exec] in Hrun.
  - assert (Hc : f_remove_then_add fl = true -> ~ In c C).
    { intros Efl Hin. destruct (Hal c Hin) as [_ H]. specialize (H Efl). cbn [repins] in H.
      rewrite N.eqb_refl in H. discriminate. }
    destruct rc.
    + eapply pin_recursive_ok; eassumption.
    + eapply pin_direct_ok; eassumption.
  - assert (Hc : f_remove_then_add fl = true -> ~ In c C).
    { intros Efl Hin. destruct (Hal c Hin) as [_ H]. specialize (H Efl). cbn [repins] in H.
      rewrite N.eqb_refl in H. discriminate. }
    destruct (m =? 0); [eapply pin_recursive_ok; eassumption|].
    destruct (m =? 1); [eapply pin_direct_ok; eassumption|].
    inversion Hrun. subst. exact Hsame.
  - eapply unpin_ok; [exact HI| |exact Hrun].
    intros Hin. destruct (Hal c Hin) as [H _]. cbn [unpins] in H. rewrite N.eqb_refl in H. discriminate.
  - eapply update_ok; [exact HI|exact Hf| |exact Hrun].
    intros Eu Hin. subst unp. destruct (Hal from Hin) as [H _]. cbn [unpins] in H.
    rewrite N.eqb_refl in H. discriminate.
  - inversion Hrun. subst. split.
    + eapply Inv_same; [| |exact HI]; reflexivity.
    + apply steps_same; [reflexivity|reflexivity|apply Inv_Q; exact HI].
  - inversion Hrun. subst. apply finish_ok; [exact HI|apply steps_refl, Inv_Q; exact HI].
Qed.

(** ---------- opening a pinner (rebuildIndexes) ---------- *)
Lemma grows_refl s : grows s s.
Proof. intros x e H. exact H. Qed.
Lemma grows_trans s s' s'' : grows s s' -> grows s' s'' -> grows s s''.
Proof. intros H1 H2 x e H. apply H2, H1, H. Qed.

Lemma indexed_grows s s' r : grows s s' -> indexed s r -> indexed s' r.
Proof. intros Hg [H1 H2]. split; [apply Hg; exact H1|]. intros Hn. apply (Hg IN). exact (H2 Hn). Qed.

Lemma rebuild_one_ok p r :
  OF (st p) -> uid (st p) -> In r (recs (st p)) ->
  let p' := rebuild_one p r in
  OF (st p') /\ recs (st p') = recs (st p) /\ grows (st p) (st p') /\ indexed (st p') r /\
  mdirty p' = mdirty p /\ autosync p' = autosync p.
Proof.
  intros HO HU Hin. unfold rebuild_one.
  pose proof (find_rec_uid _ _ HU Hin) as Hfr.
  set (c := r_cid r). set (i := r_id r) in *.
  set (stale := idx_of_mode (other_mode (r_mode r))). set (own := idx_of_mode (r_mode r)).
  (* the stale branch never fires *)
  assert (Hst : mm_has (c, i) (get_idx stale (st p)) = false).
  { apply mm_has_false. intros H. destruct (HO _ _ _ H) as [q [Hq Hok]]. rewrite Hfr in Hq. inversion Hq. subst q.
    unfold stale in Hok. destruct (r_mode r) eqn:Em; cbn [other_mode idx_of_mode entry_ok] in Hok; destruct Hok; congruence. }
  rewrite Hst.
  set (p1 := if mm_has (c, i) (get_idx own (st p)) then p else emit (WAddIdx own c i) p).
  assert (H1 : OF (st p1) /\ recs (st p1) = recs (st p) /\ grows (st p) (st p1) /\
               In (c, i) (get_idx own (st p1)) /\ mdirty p1 = mdirty p /\ autosync p1 = autosync p).
  { unfold p1. destruct (mm_has (c, i) (get_idx own (st p))) eqn:E.
    - apply mm_has_In in E. split; [exact HO|]. split; [reflexivity|]. split; [apply grows_refl|]. split; [exact E|]. split; reflexivity.
    - assert (R : recs (apply_write (st p) (WAddIdx own c i)) = recs (st p)) by (unfold own; destruct (r_mode r); reflexivity).
      split.
      { apply of_addidx; [exact HO|]. exists r. split; [exact Hfr|]. unfold own, c. destruct (r_mode r) eqn:Em; split; auto. }
      split; [exact R|]. split.
      { intros x e He. cbn [emit st]. apply get_idx_add. left. exact He. }
      split; [cbn [emit st]; apply get_idx_add; right; split; reflexivity|]. split; reflexivity. }
  destruct H1 as (O1 & R1 & G1 & X1 & M1 & A1).
  destruct (r_name r =? 0) eqn:En.
  - apply N.eqb_eq in En. split; [exact O1|]. split; [exact R1|]. split; [exact G1|].
    split; [split; [exact X1|intros Hn; contradiction]|]. split; assumption.
  - apply N.eqb_neq in En. destruct (mm_has (r_name r, i) (idxN (st p1))) eqn:E.
    + apply mm_has_In in E. split; [exact O1|]. split; [exact R1|]. split; [exact G1|].
      split; [split; [exact X1|intros _; exact E]|]. split; assumption.
    + assert (Hfr1 : find_rec i (st p1) = Some r) by (rewrite (find_rec_recs i (st p1) (st p)); [exact Hfr|exact R1]).
      split.
      { apply of_addidx; [exact O1|]. exists r. split; [exact Hfr1|]. split; [reflexivity|exact En]. }
      split; [cbn [emit st]; exact R1|]. split.
      { intros x e He. cbn [emit st]. apply get_idx_add. left. apply G1. exact He. }
      split.
      { split.
        - cbn [emit st]. apply get_idx_add. left. exact X1.
        - intros _. cbn [emit st]. apply (get_idx_add IN IN). right. split; reflexivity. }
      split; assumption.
Qed.

Lemma rebuild_fold_ok : forall l p,
  OF (st p) -> uid (st p) -> (forall r, In r l -> In r (recs (st p))) ->
  let p' := fold_left rebuild_one l p in
  OF (st p') /\ recs (st p') = recs (st p) /\ grows (st p) (st p') /\
  (forall r, In r l -> indexed (st p') r) /\ mdirty p' = mdirty p /\ autosync p' = autosync p.
Proof.
  induction l as [|r l IH]; intros p HO HU Hsub; cbn [fold_left].
  - split; [exact HO|]. split; [reflexivity|]. split; [apply grows_refl|]. split; [intros r []|]. split; reflexivity.
  - destruct (rebuild_one_ok p r HO HU (Hsub r (or_introl eq_refl))) as (O1 & R1 & G1 & X1 & M1 & A1).
    set (p1 := rebuild_one p r) in *.
    destruct (IH p1 O1) as (O2 & R2 & G2 & X2 & M2 & A2).
    + apply (uid_same (st p)); [symmetry; exact R1|exact HU].
    + intros q Hq. rewrite R1. apply Hsub. right. exact Hq.
    + split; [exact O2|]. split; [rewrite R2; exact R1|]. split; [eapply grows_trans; eassumption|].
      split.
      { intros q [Hq|Hq]; [subst q; apply (indexed_grows (st p1)); assumption|apply X2; exact Hq]. }
      split; [rewrite M2; exact M1|rewrite A2; exact A1].
Qed.

(** a pinner opened on a recoverable datastore is in a good state, holds the same records,
    and its datastore is consistent *)
Lemma open_ok C s :
  PrefInv s -> Prot C s ->
  Inv C (open_pinner s) /\ recs (st (open_pinner s)) = recs s /\ mdirty (open_pinner s) = false.
Proof.
  intros (HO & HU & Hd) HP. unfold open_pinner.
  assert (Hclean : forall b, dflag s = b -> b <> Some true ->
            Inv C (mkpst s false true []) /\ recs (st (mkpst s false true [])) = recs s /\ mdirty (mkpst s false true []) = false).
  { intros b Hb Hne. split; [|split; reflexivity]. unfold Inv. cbn [st mdirty].
    split; [exact HO|]. split; [exact HU|]. split; [destruct Hd as [Hd|Hd]; [congruence|exact Hd]|].
    split; [intros X; discriminate|exact HP]. }
  destruct (dflag s) as [[|]|] eqn:Ed; try (apply (Hclean _ eq_refl); discriminate).
  unfold rebuild. set (p0 := mkpst s true true []).
  destruct (rebuild_fold_ok (recs (st p0)) p0 HO HU (fun r H => H)) as (O1 & R1 & G1 & X1 & M1 & A1).
  set (p1 := fold_left rebuild_one (recs (st p0)) p0) in *.
  assert (I1 : Inv C p1).
  { unfold Inv. split; [exact O1|]. split; [apply (uid_same s); [symmetry; exact R1|exact HU]|].
    split; [intros r Hr; apply X1; rewrite <- R1; exact Hr|].
    split.
    { intros _. assert (Hdf : forall l p, dflag (st (fold_left rebuild_one l p)) = dflag (st p)).
      { induction l as [|r l IH]; intros p; [reflexivity|]. cbn [fold_left]. rewrite IH. unfold rebuild_one.
        repeat match goal with |- context [if ?b then _ else _] => destruct b end;
          cbn [emit st]; repeat (rewrite dflag_keep by (intros b; discriminate)); reflexivity. }
      fold p1. unfold p1. rewrite Hdf. exact Ed. }
    apply (prot_same C s); [symmetry; exact R1|exact HP]. }
  destruct (flush_pins_ok C true p1 I1) as (J1 & _ & [Jr _] & _).
  split; [exact J1|]. split; [rewrite <- Jr; exact R1|].
  unfold flush_pins. rewrite A1. cbn [autosync p0 orb]. unfold set_clean. rewrite M1. cbn [mdirty p0]. reflexivity.
Qed.

Lemma Inv_consistent C p : Inv C p -> consistent (st p) = true.
Proof. intros (H1 & H2 & H3 & _). apply consistent_of; assumption. Qed.

Lemma Inv_pinned C p c : Inv C p -> In c C -> pinned (st p) c = true.
Proof.
  intros (H1 & H2 & H3 & _ & H5) Hc. destruct (H5 c Hc) as [r [Hr Hrc]]. eapply pinned_of; eassumption.
Qed.

Lemma Inv_empty : Inv [] (open_pinner empty_store).
Proof.
  apply open_ok.
  - split; [intros x k i H; destruct x; destruct H|]. split; [constructor|]. right. intros r [].
  - intros c [].
Qed.
