(** Invariants of the pinner model [lib/PinModel.v] and their preservation by every datastore
    write of every operation (used by the proofs of C23 and C22). *)
From Coq Require Import List Bool Arith NArith Lia.
From V Require Import lib.PinModel.
Import ListNotations.
Open Scope N_scope.

(** ---------- multimaps ---------- *)
Lemma pr_eqb_eq a b : pr_eqb a b = true <-> a = b.
Proof.
  destruct a as [a1 a2], b as [b1 b2]. unfold pr_eqb. cbn [fst snd].
  rewrite andb_true_iff, !N.eqb_eq. split.
  - intros [H1 H2]. congruence.
  - intros H. inversion H. auto.
Qed.

Lemma mm_has_In p m : mm_has p m = true <-> In p m.
Proof.
  unfold mm_has. rewrite existsb_exists. split.
  - intros [q [Hq He]]. apply pr_eqb_eq in He. subst. exact Hq.
  - intros H. exists p. split; [exact H|]. apply pr_eqb_eq. reflexivity.
Qed.

Lemma mm_has_false p m : mm_has p m = false <-> ~ In p m.
Proof. rewrite <- mm_has_In. destruct (mm_has p m); split; congruence. Qed.

Lemma mm_add_In p q m : In q (mm_add p m) <-> q = p \/ In q m.
Proof.
  unfold mm_add. destruct (mm_has p m) eqn:E.
  - apply mm_has_In in E. split; [auto|]. intros [H|H]; [subst; exact E|exact H].
  - rewrite in_app_iff. cbn [In]. intuition congruence.
Qed.

Lemma mm_del_In p q m : In q (mm_del p m) <-> In q m /\ q <> p.
Proof.
  unfold mm_del. rewrite filter_In, negb_true_iff. split.
  - intros [H1 H2]. split; [exact H1|]. intros E. subst q.
    assert (pr_eqb p p = true) by (apply pr_eqb_eq; reflexivity). congruence.
  - intros [H1 H2]. split; [exact H1|]. destruct (pr_eqb q p) eqn:E; [|reflexivity].
    apply pr_eqb_eq in E. contradiction.
Qed.

Lemma mm_search_In k i m : In i (mm_search k m) <-> In (k, i) m.
Proof.
  unfold mm_search. rewrite nodup_In, in_map_iff. split.
  - intros [[a b] [Hb Hin]]. cbn [snd] in Hb. subst b. apply filter_In in Hin.
    destruct Hin as [Hin Ha]. cbn [fst] in Ha. apply N.eqb_eq in Ha. subst a. exact Hin.
  - intros H. exists (k, i). split; [reflexivity|]. apply filter_In. split; [exact H|].
    cbn [fst]. apply N.eqb_refl.
Qed.

Lemma mm_search_nodup k m : NoDup (mm_search k m).
Proof. apply NoDup_nodup. Qed.

Lemma mm_hasany_In k m : mm_hasany k m = true <-> exists i, In (k, i) m.
Proof.
  unfold mm_hasany. rewrite existsb_exists. split.
  - intros [[a b] [Hin Ha]]. cbn [fst] in Ha. apply N.eqb_eq in Ha. subst a. exists b. exact Hin.
  - intros [i Hi]. exists (k, i). split; [exact Hi|]. apply N.eqb_refl.
Qed.

(** ---------- records ---------- *)
Lemma find_rec_some i s r : find_rec i s = Some r -> In r (recs s) /\ r_id r = i.
Proof.
  unfold find_rec. intros H. apply find_some in H. destruct H as [H1 H2].
  apply N.eqb_eq in H2. auto.
Qed.

Definition uid (s : store) : Prop := NoDup (map r_id (recs s)).

Lemma find_rec_uid_list rs r :
  NoDup (map r_id rs) -> In r rs -> find (fun q => r_id q =? r_id r) rs = Some r.
Proof.
  induction rs as [|q rs IH]; intros Hnd Hin; [destruct Hin|].
  cbn [map] in Hnd. inversion Hnd as [|x l Hnot Hnd' E]. subst.
  cbn [find]. destruct Hin as [Hq|Hin].
  - subst q. rewrite N.eqb_refl. reflexivity.
  - destruct (r_id q =? r_id r) eqn:E.
    + apply N.eqb_eq in E. exfalso. apply Hnot. rewrite E. apply in_map. exact Hin.
    + apply IH; assumption.
Qed.

Lemma find_rec_uid s r : uid s -> In r (recs s) -> find_rec (r_id r) s = Some r.
Proof. intros. apply find_rec_uid_list; assumption. Qed.

Lemma del_rec_In i r rs : In r (del_rec i rs) <-> In r rs /\ r_id r <> i.
Proof.
  unfold del_rec. rewrite filter_In, negb_true_iff, N.eqb_neq. tauto.
Qed.

Lemma find_del_other i j rs : i <> j ->
  find (fun q => r_id q =? j) (del_rec i rs) = find (fun q => r_id q =? j) rs.
Proof.
  intros Hne. induction rs as [|q rs IH]; [reflexivity|].
  cbn [del_rec filter]. fold (del_rec i rs).
  destruct (r_id q =? i) eqn:E; cbn [negb].
  - apply N.eqb_eq in E. cbn [find]. destruct (r_id q =? j) eqn:E2.
    + apply N.eqb_eq in E2. congruence.
    + exact IH.
  - cbn [find]. destruct (r_id q =? j); [reflexivity|exact IH].
Qed.

Lemma find_del_same i rs : find (fun q => r_id q =? i) (del_rec i rs) = None.
Proof.
  induction rs as [|q rs IH]; [reflexivity|].
  cbn [del_rec filter]. fold (del_rec i rs). destruct (r_id q =? i) eqn:E; cbn [negb]; [exact IH|].
  cbn [find]. rewrite E. exact IH.
Qed.

Lemma find_app_fresh j rs r : r_id r <> j ->
  find (fun q => r_id q =? j) (rs ++ [r]) = find (fun q => r_id q =? j) rs.
Proof.
  intros Hne. induction rs as [|q rs IH]; cbn [app find].
  - destruct (r_id r =? j) eqn:E; [apply N.eqb_eq in E; contradiction|reflexivity].
  - destruct (r_id q =? j); [reflexivity|exact IH].
Qed.

Lemma del_rec_fresh i rs : ~ In i (map r_id rs) -> del_rec i rs = rs.
Proof.
  intros H. induction rs as [|q rs IH]; [reflexivity|].
  cbn [del_rec filter]. fold (del_rec i rs). cbn [map In] in H.
  destruct (r_id q =? i) eqn:E.
  - apply N.eqb_eq in E. exfalso. apply H. left. exact E.
  - cbn [negb]. f_equal. apply IH. intros Hin. apply H. right. exact Hin.
Qed.

Lemma del_rec_ids i rs : NoDup (map r_id rs) -> NoDup (map r_id (del_rec i rs)).
Proof.
  induction rs as [|q rs IH]; intros Hnd; [constructor|].
  cbn [map] in Hnd. inversion Hnd as [|x l Hnot Hnd' E]. subst.
  cbn [del_rec filter]. fold (del_rec i rs). destruct (negb (r_id q =? i)).
  - cbn [map]. constructor; [|apply IH; exact Hnd'].
    intros Hin. apply Hnot. apply in_map_iff in Hin. destruct Hin as [r [Hr Hin]].
    apply del_rec_In in Hin. apply in_map_iff. exists r. tauto.
  - apply IH. exact Hnd'.
Qed.

(** ---------- the invariants ---------- *)
(** what an entry of index [x] with key [k] says about the record it points to *)
Definition entry_ok (x : idx) (k : N) (r : prec) : Prop :=
  match x with
  | IR => r_cid r = k /\ r_mode r = MRec
  | ID => r_cid r = k /\ r_mode r = MDir
  | IN => r_name r = k /\ k <> 0
  end.
(** every index entry has its pin record *)
Definition OF (s : store) : Prop :=
  forall x k i, In (k, i) (get_idx x s) -> exists r, find_rec i s = Some r /\ entry_ok x k r.
(** every pin record is indexed *)
Definition indexed (s : store) (r : prec) : Prop :=
  In (r_cid r, r_id r) (get_idx (idx_of_mode (r_mode r)) s) /\
  (r_name r <> 0 -> In (r_name r, r_id r) (idxN s)).
Definition CP (s : store) : Prop := forall r, In r (recs s) -> indexed s r.
(** every CID of [C] has a pin record *)
Definition Prot (C : list N) (s : store) : Prop :=
  forall c, In c C -> exists r, In r (recs s) /\ r_cid r = c.
(** what holds of the datastore after every single write: recoverable *)
Definition PrefInv (s : store) : Prop := OF s /\ uid s /\ (dflag s = Some true \/ CP s).
Definition Q (C : list N) (s : store) : Prop := PrefInv s /\ Prot C s.
(** what holds of a pinner between operations (and between addPin/removePin groups) *)
Definition Inv (C : list N) (p : pst) : Prop :=
  OF (st p) /\ uid (st p) /\ CP (st p) /\ (mdirty p = true -> dflag (st p) = Some true) /\ Prot C (st p).

Lemma Inv_Q C p : Inv C p -> Q C (st p).
Proof. intros (H1 & H2 & H3 & H4 & H5). repeat split; auto. Qed.

(** ---------- boolean checkers follow from the invariants ---------- *)
Lemma mode_eqb_refl m : mode_eqb m m = true.
Proof. destruct m; reflexivity. Qed.

Lemma orphan_free_of s : OF s -> orphan_free s = true.
Proof.
  intros H. unfold orphan_free. rewrite !andb_true_iff. repeat split; apply forallb_forall; intros [k i] Hin.
  - destruct (H IR k i Hin) as [r [Hf [Hc Hm]]]. unfold rec_matches. cbn [fst snd]. rewrite Hf, Hc, Hm.
    rewrite N.eqb_refl. reflexivity.
  - destruct (H ID k i Hin) as [r [Hf [Hc Hm]]]. unfold rec_matches. cbn [fst snd]. rewrite Hf, Hc, Hm.
    rewrite N.eqb_refl. reflexivity.
  - destruct (H IN k i Hin) as [r [Hf [Hc Hm]]]. unfold rec_matches. cbn [fst snd]. rewrite Hf, Hc.
    rewrite N.eqb_refl. cbn [andb]. apply negb_true_iff, N.eqb_neq. exact Hm.
Qed.

Lemma complete_of s : CP s -> complete s = true.
Proof.
  intros H. unfold complete. apply forallb_forall. intros r Hr. destruct (H r Hr) as [H1 H2].
  unfold rec_indexed. rewrite andb_true_iff. split.
  - apply mm_has_In. exact H1.
  - destruct (r_name r =? 0) eqn:E; [reflexivity|]. apply N.eqb_neq in E.
    cbn [orb]. apply mm_has_In. auto.
Qed.

Lemma nodupN_of l : NoDup l -> nodupN l = true.
Proof.
  induction 1 as [|a l Hn Hd IH]; [reflexivity|]. cbn [nodupN]. rewrite IH, andb_true_r.
  apply negb_true_iff. destruct (existsb (N.eqb a) l) eqn:E; [|reflexivity].
  apply existsb_exists in E. destruct E as [x [Hx He]]. apply N.eqb_eq in He. subst x. contradiction.
Qed.

Lemma consistent_of s : OF s -> CP s -> uid s -> consistent s = true.
Proof.
  intros H1 H2 H3. unfold consistent. rewrite orphan_free_of, complete_of by assumption.
  cbn [andb]. apply nodupN_of. exact H3.
Qed.

Lemma pinned_of s c r : CP s -> In r (recs s) -> r_cid r = c -> pinned s c = true.
Proof.
  intros Hcp Hr Hc. destruct (Hcp r Hr) as [H1 _]. unfold pinned. apply orb_true_iff.
  destruct (r_mode r); cbn [idx_of_mode get_idx] in H1; [left|right];
    apply mm_hasany_In; exists (r_id r); rewrite <- Hc; exact H1.
Qed.

Lemma pinned_rec s c : OF s -> pinned s c = true -> exists r, In r (recs s) /\ r_cid r = c.
Proof.
  intros Hof H. unfold pinned in H. apply orb_true_iff in H.
  destruct H as [H|H]; apply mm_hasany_In in H; destruct H as [i Hi].
  - destruct (Hof IR c i Hi) as [r [Hf [Hc _]]]. apply find_rec_some in Hf. exists r. tauto.
  - destruct (Hof ID c i Hi) as [r [Hf [Hc _]]]. apply find_rec_some in Hf. exists r. tauto.
Qed.


(** ---------- single writes ---------- *)
Lemma idx_dec (x y : idx) : {x = y} + {x <> y}.
Proof. decide equality. Qed.

Lemma get_idx_add x y k i s e :
  In e (get_idx x (apply_write s (WAddIdx y k i))) <-> In e (get_idx x s) \/ (x = y /\ e = (k, i)).
Proof.
  destruct x, y; cbn [apply_write set_idx get_idx idxR idxD idxN]; rewrite ?mm_add_In;
    intuition congruence.
Qed.

Lemma get_idx_del x y k i s e :
  In e (get_idx x (apply_write s (WDelIdx y k i))) <-> In e (get_idx x s) /\ ~ (x = y /\ e = (k, i)).
Proof.
  destruct x, y; cbn [apply_write set_idx get_idx idxR idxD idxN]; rewrite ?mm_del_In;
    intuition congruence.
Qed.

Lemma recs_idx_write s w : (forall r, w <> WPutRec r) -> (forall i, w <> WDelRec i) ->
  recs (apply_write s w) = recs s.
Proof.
  intros H1 H2. destruct w as [b|r|i|x k i|x k i]; try reflexivity.
  - exfalso. eapply H1. reflexivity.
  - exfalso. eapply H2. reflexivity.
  - destruct x; reflexivity.
  - destruct x; reflexivity.
Qed.

Lemma find_rec_recs i s s' : recs s = recs s' -> find_rec i s = find_rec i s'.
Proof. unfold find_rec. intros H. rewrite H. reflexivity. Qed.

Lemma of_dirty s b : OF s -> OF (apply_write s (WDirty b)).
Proof.
  intros H x k i Hin.
  destruct x; [exact (H IR k i Hin)|exact (H ID k i Hin)|exact (H IN k i Hin)].
Qed.

Lemma of_addidx s x k i : OF s -> (exists r, find_rec i s = Some r /\ entry_ok x k r) ->
  OF (apply_write s (WAddIdx x k i)).
Proof.
  intros H Hr y k' i' Hin. apply get_idx_add in Hin.
  rewrite (find_rec_recs i' _ s) by (destruct x; reflexivity).
  destruct Hin as [Hin|[Hy He]].
  - exact (H _ _ _ Hin).
  - inversion He. subst. exact Hr.
Qed.

Lemma of_delidx s x k i : OF s -> OF (apply_write s (WDelIdx x k i)).
Proof.
  intros H y k' i' Hin. apply get_idx_del in Hin.
  rewrite (find_rec_recs i' _ s) by (destruct x; reflexivity).
  exact (H _ _ _ (proj1 Hin)).
Qed.

Definition fresh (i : N) (s : store) : Prop := ~ In i (map r_id (recs s)).

Lemma find_rec_put_other r j s : fresh (r_id r) s -> r_id r <> j ->
  find_rec j (apply_write s (WPutRec r)) = find_rec j s.
Proof.
  intros Hf Hne. unfold find_rec. cbn [apply_write set_recs recs].
  rewrite del_rec_fresh by exact Hf. apply find_app_fresh. exact Hne.
Qed.

Lemma recs_put r s : fresh (r_id r) s -> recs (apply_write s (WPutRec r)) = recs s ++ [r].
Proof. intros Hf. cbn [apply_write set_recs recs]. rewrite del_rec_fresh by exact Hf. reflexivity. Qed.

Lemma find_rec_put_same r s : fresh (r_id r) s -> find_rec (r_id r) (apply_write s (WPutRec r)) = Some r.
Proof.
  intros Hf. unfold find_rec. rewrite recs_put by exact Hf.
  unfold fresh in Hf. revert Hf. generalize (recs s) as rs.
  induction rs as [|q rs IH]; intros Hf; cbn [app find].
  - rewrite N.eqb_refl. reflexivity.
  - cbn [map In] in Hf. destruct (r_id q =? r_id r) eqn:E.
    + apply N.eqb_eq in E. exfalso. apply Hf. left. exact E.
    + apply IH. intros Hin. apply Hf. right. exact Hin.
Qed.

Lemma of_putrec s r : OF s -> fresh (r_id r) s -> OF (apply_write s (WPutRec r)).
Proof.
  intros H Hf x k i Hin.
  assert (Hin' : In (k, i) (get_idx x s)) by (destruct x; exact Hin).
  destruct (H _ _ _ Hin') as [q [Hq Hok]]. exists q. split; [|exact Hok].
  rewrite find_rec_put_other; [exact Hq|exact Hf|].
  intros E. apply find_rec_some in Hq. destruct Hq as [Hq1 Hq2]. apply Hf.
  rewrite E, <- Hq2. apply in_map. exact Hq1.
Qed.

Lemma of_delrec s i : OF s -> (forall x k, ~ In (k, i) (get_idx x s)) -> OF (apply_write s (WDelRec i)).
Proof.
  intros H Hno x k j Hin.
  assert (Hin' : In (k, j) (get_idx x s)) by (destruct x; exact Hin).
  destruct (H _ _ _ Hin') as [q [Hq Hok]]. exists q. split; [|exact Hok].
  unfold find_rec. cbn [apply_write set_recs recs]. rewrite find_del_other; [exact Hq|].
  intros E. subst j. exact (Hno _ _ Hin').
Qed.

Lemma uid_same s s' : recs s = recs s' -> uid s -> uid s'.
Proof. unfold uid. intros H. rewrite H. auto. Qed.

Lemma nodup_snoc {A} (l : list A) (a : A) : NoDup l -> ~ In a l -> NoDup (l ++ [a]).
Proof.
  induction 1 as [|b l Hn Hd IH]; intros Ha; cbn [app].
  - constructor; [intros []|constructor].
  - constructor.
    + intros Hin. apply in_app_or in Hin. destruct Hin as [Hin|[Hin|[]]]; [contradiction|].
      subst b. apply Ha. left. reflexivity.
    + apply IH. intros Hin. apply Ha. right. exact Hin.
Qed.

Lemma uid_putrec s r : uid s -> fresh (r_id r) s -> uid (apply_write s (WPutRec r)).
Proof.
  intros H Hf. unfold uid. rewrite recs_put by exact Hf. rewrite map_app. cbn [map].
  apply nodup_snoc; assumption.
Qed.

Lemma uid_delrec s i : uid s -> uid (apply_write s (WDelRec i)).
Proof. intros H. unfold uid. cbn [apply_write set_recs recs]. apply del_rec_ids. exact H. Qed.

Lemma prot_same C s s' : recs s = recs s' -> Prot C s -> Prot C s'.
Proof. unfold Prot. intros H. rewrite H. auto. Qed.

Lemma prot_putrec C s r : Prot C s -> fresh (r_id r) s -> Prot C (apply_write s (WPutRec r)).
Proof.
  intros H Hf c Hc. destruct (H c Hc) as [q [Hq1 Hq2]]. exists q. split; [|exact Hq2].
  rewrite recs_put by exact Hf. apply in_or_app. left. exact Hq1.
Qed.

Lemma prot_putrec_new C s r : Prot C s -> fresh (r_id r) s -> Prot (r_cid r :: C) (apply_write s (WPutRec r)).
Proof.
  intros H Hf c [Hc|Hc].
  - exists r. split; [|exact Hc]. rewrite recs_put by exact Hf. apply in_or_app. right. left. reflexivity.
  - apply (prot_putrec C s r H Hf c Hc).
Qed.

(** deleting record [i] keeps [C] protected when every CID of [C] has another record *)
Lemma prot_delrec C s i :
  (forall c, In c C -> exists q, In q (recs s) /\ r_cid q = c /\ r_id q <> i) ->
  Prot C (apply_write s (WDelRec i)).
Proof.
  intros H c Hc. destruct (H c Hc) as [q [Hq1 [Hq2 Hq3]]]. exists q. split; [|exact Hq2].
  cbn [apply_write set_recs recs]. apply del_rec_In. tauto.
Qed.

(** ---------- sequences of writes ---------- *)
Lemma apply_writes_app ws ws' s : apply_writes (ws ++ ws') s = apply_writes ws' (apply_writes ws s).
Proof. apply fold_left_app. Qed.

(** [p'] was reached from [p] by writes after each of which the datastore satisfied [Q C] *)
Definition Steps (C : list N) (p p' : pst) : Prop :=
  exists ws, log p' = rev ws ++ log p /\ st p' = apply_writes ws (st p) /\
             forall n, Q C (apply_writes (firstn n ws) (st p)).

Lemma steps_refl C p : Q C (st p) -> Steps C p p.
Proof.
  intros H. exists []. split; [reflexivity|]. split; [reflexivity|].
  intros n. rewrite firstn_nil. exact H.
Qed.

Lemma steps_trans C p p' p'' : Steps C p p' -> Steps C p' p'' -> Steps C p p''.
Proof.
  intros [ws [Hl [Hs Hq]]] [ws' [Hl' [Hs' Hq']]]. exists (ws ++ ws'). split; [|split].
  - rewrite Hl', Hl, rev_app_distr, app_assoc. reflexivity.
  - rewrite Hs', Hs, apply_writes_app. reflexivity.
  - intros n. rewrite firstn_app, apply_writes_app.
    destruct (Nat.le_gt_cases n (length ws)) as [Hle|Hgt].
    + assert (E : (n - length ws = 0)%nat) by (apply Nat.sub_0_le; exact Hle). rewrite E.
      cbn [firstn apply_writes fold_left]. apply Hq.
    + assert (E2 : firstn n ws = ws) by (apply firstn_all2, Nat.lt_le_incl; exact Hgt).
      rewrite E2, <- Hs. apply Hq'.
Qed.

Lemma steps_emit C p w : Q C (st p) -> Q C (apply_write (st p) w) -> Steps C p (emit w p).
Proof.
  intros H0 H1. exists [w]. split; [reflexivity|]. split; [reflexivity|].
  intros [|n]; [exact H0|]. cbn [firstn]. rewrite firstn_nil. exact H1.
Qed.

Lemma steps_md C p p' b : Steps C p p' -> Steps C p (set_md b p').
Proof. intros [ws H]. exists ws. exact H. Qed.

Lemma steps_Q C p p' : Steps C p p' -> Q C (st p').
Proof.
  intros [ws [_ [Hs Hq]]]. rewrite Hs. specialize (Hq (length ws)). rewrite firstn_all in Hq. exact Hq.
Qed.

(** ---------- the dirty phase of an operation ---------- *)
(** inside an addPin/removePin group: flag set, indexes justified, CIDs of [C] have records *)
Definition D (C : list N) (p : pst) : Prop :=
  OF (st p) /\ uid (st p) /\ dflag (st p) = Some true /\ mdirty p = true /\ Prot C (st p).

Lemma D_Q C p : D C p -> Q C (st p).
Proof. intros (H1 & H2 & H3 & H4 & H5). repeat split; auto. Qed.

Definition not_dirty_write (w : write) : Prop := forall b, w <> WDirty b.

Lemma dflag_keep s w : not_dirty_write w -> dflag (apply_write s w) = dflag s.
Proof.
  intros H. destruct w as [b|r|i|x k i|x k i]; try reflexivity.
  - exfalso. apply (H b). reflexivity.
  - destruct x; reflexivity.
  - destruct x; reflexivity.
Qed.

Lemma emit_D C p w :
  D C p -> not_dirty_write w ->
  OF (apply_write (st p) w) -> uid (apply_write (st p) w) -> Prot C (apply_write (st p) w) ->
  D C (emit w p) /\ Steps C p (emit w p).
Proof.
  intros HD Hw H1 H2 H3. pose proof HD as (D1 & D2 & D3 & D4 & D5).
  assert (HD' : D C (emit w p)).
  { repeat split; cbn [emit st mdirty]; auto. rewrite dflag_keep by exact Hw. exact D3. }
  split; [exact HD'|]. apply steps_emit; [apply D_Q; exact HD|apply (D_Q C (emit w p)); exact HD'].
Qed.

(** same pin records and index entries *)
Definition samepins (s s' : store) : Prop := recs s = recs s' /\ forall x, get_idx x s = get_idx x s'.

Lemma samepins_refl s : samepins s s.
Proof. split; reflexivity. Qed.

Lemma samepins_dflag s b : samepins s (set_dflag b s).
Proof. split; [reflexivity|]. intros x. destruct x; reflexivity. Qed.

Lemma samepins_find s s' i : samepins s s' -> find_rec i s = find_rec i s'.
Proof. intros [H _]. apply find_rec_recs. exact H. Qed.

Lemma samepins_OF s s' : samepins s s' -> OF s -> OF s'.
Proof.
  intros Hs H x k i Hin. rewrite <- (proj2 Hs x) in Hin. rewrite <- (samepins_find s s' i Hs).
  exact (H x k i Hin).
Qed.

Lemma samepins_CP s s' : samepins s s' -> CP s -> CP s'.
Proof.
  intros [Hr Hx] H r Hin. rewrite <- Hr in Hin. destruct (H r Hin) as [H1 H2].
  split; [rewrite <- Hx; exact H1|]. intros Hn. specialize (H2 Hn).
  specialize (Hx IN). cbn [get_idx] in Hx. rewrite <- Hx. exact H2.
Qed.

Lemma set_dirty_ok C p :
  Inv C p ->
  D C (set_dirty p) /\ Steps C p (set_dirty p) /\ samepins (st p) (st (set_dirty p)) /\
  autosync (set_dirty p) = autosync p.
Proof.
  intros HI. pose proof HI as (I1 & I2 & I3 & I4 & I5). unfold set_dirty.
  destruct (mdirty p) eqn:E.
  - split; [repeat split; auto|]. split; [apply steps_refl, Inv_Q; exact HI|].
    split; [apply samepins_refl|reflexivity].
  - assert (Hs : samepins (st p) (apply_write (st p) (WDirty true))) by apply samepins_dflag.
    assert (HD : D C (set_md true (emit (WDirty true) p))).
    { repeat split; cbn [set_md emit st mdirty].
      - apply (samepins_OF _ _ Hs I1).
      - apply (uid_same (st p)); [apply Hs|exact I2].
      - apply (prot_same C (st p)); [apply Hs|exact I5]. }
    split; [exact HD|]. split.
    + apply steps_md. apply steps_emit; [apply Inv_Q; exact HI|]. apply (D_Q C _ HD).
    + split; [exact Hs|reflexivity].
Qed.

(** ---------- addPin ---------- *)
Definition grows (s s' : store) : Prop := forall x e, In e (get_idx x s) -> In e (get_idx x s').

Lemma add_pin_ok C p i c m n :
  Inv C p -> fresh i (st p) ->
  let p' := add_pin i c m n p in
  D C p' /\ Steps C p p' /\ CP (st p') /\ Prot (c :: C) (st p') /\
  recs (st p') = recs (st p) ++ [mkrec i c m n] /\ grows (st p) (st p') /\
  autosync p' = autosync p.
Proof.
  intros HI Hf. pose proof HI as (I1 & I2 & I3 & I4 & I5).
  destruct (set_dirty_ok C p HI) as (D1 & S1 & [Sr Sx] & A1).
  unfold add_pin. set (p1 := set_dirty p) in *. set (r := mkrec i c m n).
  assert (Hf1 : fresh (r_id r) (st p1)) by (unfold fresh; rewrite <- Sr; exact Hf).
  (* record *)
  pose proof D1 as (O1 & U1 & F1 & M1 & P1).
  destruct (emit_D C p1 (WPutRec r) D1) as [D2 S2];
    [intros b; discriminate|apply of_putrec; assumption|apply uid_putrec; assumption|apply prot_putrec; assumption|].
  set (p2 := emit (WPutRec r) p1) in *.
  assert (R2 : recs (st p2) = recs (st p) ++ [r]) by (cbn [p2 emit st]; rewrite recs_put by exact Hf1; rewrite <- Sr; reflexivity).
  assert (F2 : find_rec i (st p2) = Some r) by (apply (find_rec_put_same r (st p1) Hf1)).
  assert (X2 : forall x, get_idx x (st p2) = get_idx x (st p)) by (intros x; rewrite Sx; destruct x; reflexivity).
  assert (PN2 : Prot (c :: C) (st p2)) by (apply (prot_putrec_new C (st p1) r P1 Hf1)).
  (* cid index *)
  pose proof D2 as (O2 & U2 & _ & _ & P2).
  set (w3 := WAddIdx (idx_of_mode m) c i).
  assert (R3 : recs (apply_write (st p2) w3) = recs (st p2)) by (unfold w3; destruct m; reflexivity).
  destruct (emit_D C p2 w3 D2) as [D3 S3];
    [intros b; discriminate
    |apply of_addidx; [exact O2|exists r; split; [exact F2|destruct m; split; reflexivity]]
    |apply (uid_same (st p2)); [symmetry; exact R3|exact U2]
    |apply (prot_same C (st p2)); [symmetry; exact R3|exact P2]|].
  set (p3 := emit w3 p2) in *.
  assert (R3' : recs (st p3) = recs (st p) ++ [r]) by (cbn [p3 emit st]; rewrite R3; exact R2).
  assert (G3 : grows (st p) (st p3)).
  { intros x e He. cbn [p3 emit st]. unfold w3. apply get_idx_add. left. rewrite X2. exact He. }
  assert (I3' : In (c, i) (get_idx (idx_of_mode m) (st p3))).
  { cbn [p3 emit st]. unfold w3. apply get_idx_add. right. split; reflexivity. }
  assert (PN3 : Prot (c :: C) (st p3)) by (apply (prot_same _ (st p2)); [symmetry; exact R3|exact PN2]).
  assert (CPfin : forall s', recs s' = recs (st p) ++ [r] -> grows (st p) s' ->
            In (c, i) (get_idx (idx_of_mode m) s') -> (n <> 0 -> In (n, i) (idxN s')) -> CP s').
  { intros s' Hr Hg H1 H2 q Hq. rewrite Hr in Hq. apply in_app_or in Hq. destruct Hq as [Hq|[Hq|[]]].
    - destruct (I3 q Hq) as [Q1 Q2]. split; [apply Hg; exact Q1|]. intros Hn. apply (Hg IN). exact (Q2 Hn).
    - subst q. split; [exact H1|exact H2]. }
  destruct (n =? 0) eqn:En.
  - apply N.eqb_eq in En. repeat split; try assumption.
    + eapply steps_trans; [exact S1|]. eapply steps_trans; [exact S2|exact S3].
    + apply CPfin; try assumption. intros Hn. contradiction.
  - apply N.eqb_neq in En.
    pose proof D3 as (O3 & U3 & _ & _ & P3).
    set (w4 := WAddIdx IN n i).
    assert (R4 : recs (apply_write (st p3) w4) = recs (st p3)) by reflexivity.
    assert (F3 : find_rec i (st p3) = Some r) by (rewrite (find_rec_recs i (st p3) (st p2)); [exact F2|exact R3]).
    destruct (emit_D C p3 w4 D3) as [D4 S4];
      [intros b; discriminate
      |apply of_addidx; [exact O3|exists r; split; [exact F3|split; [reflexivity|exact En]]]
      |apply (uid_same (st p3)); [symmetry; exact R4|exact U3]
      |apply (prot_same C (st p3)); [symmetry; exact R4|exact P3]|].
    repeat split; try assumption.
    + eapply steps_trans; [exact S1|]. eapply steps_trans; [exact S2|]. eapply steps_trans; [exact S3|exact S4].
    + apply CPfin.
      * cbn [emit st]. rewrite R4. exact R3'.
      * intros x e He. cbn [emit st]. apply get_idx_add. left. apply G3. exact He.
      * cbn [emit st]. apply get_idx_add. left. exact I3'.
      * intros _. cbn [emit st]. apply (get_idx_add IN IN). right. split; reflexivity.
    + apply (prot_same _ (st p3)); [symmetry; exact R4|exact PN3].
    + intros x e He. cbn [emit st]. apply get_idx_add. left. apply G3. exact He.
Qed.
