(** CborScalar.v — the DAG-CBOR subset IPNS records use: one top-level map with
    text keys whose values are scalars (byte string, integer, text string, bool).
    Bytes are [list Z]; integers [Z].

    [head m n]      the minimal CBOR head for major type [m] and argument [n]
                    (what refmt's cbor encoder writes);
    [enc_val]/[enc_map]  encoders (the map is written in the given entry order);
    [dec_head]      strict head decoder (go-ipld-prime dagcbor.Decode defaults:
                    non-minimal and indefinite-length forms rejected);
    [dec_val]/[dec_map]  decoders: duplicate keys, non-text keys, trailing bytes
                    and anything outside the subset (null, floats, tags, nested
                    lists/maps) rejected — the last being a limit of this model, not
                    of the real decoder;
    [dec_map_enc_map]    decode (encode m) = Some m for well-formed m with
                    distinct keys (any entry order).
    Unsigned integers above MaxInt64 decode to [CBig] (go-ipld-prime's uint node,
    whose [AsInt] fails).  Stdlib only, no axioms. *)
From Coq Require Import ZArith List Lia Bool.
From V Require Import lib.Varint lib.Pb.
Import ListNotations.
Open Scope Z_scope.

Inductive cval :=
| CBytes (b : list Z)
| CInt (i : Z)        (* -2^63 <= i < 2^63 *)
| CBig (n : Z)        (* 2^63 <= n < 2^64: unsigned beyond int64 *)
| CText (s : list Z)
| CBool (b : bool)
| COther.             (* any other well-formed item: null, float, list, nested map
                         (decoding only; every accessor treats it as "wrong kind") *)

Definition entry : Type := (list Z * cval).

(** big-endian fixed width *)
Definition be (n : nat) (v : Z) : list Z := rev (le n v).
Definition unbe (bs : list Z) : Z := unle (rev bs).

Definition head (m n : Z) : list Z :=
  if n <? 24 then [m * 32 + n]
  else if n <? 256 then [m * 32 + 24; n]
  else if n <? 65536 then (m * 32 + 25) :: be 2 n
  else if n <? 4294967296 then (m * 32 + 26) :: be 4 n
  else (m * 32 + 27) :: be 8 n.

Definition enc_val (v : cval) : list Z :=
  match v with
  | CBytes b => head 2 (blen b) ++ b
  | CInt i => if 0 <=? i then head 0 i else head 1 (-1 - i)
  | CBig n => head 0 n
  | CText s => head 3 (blen s) ++ s
  | CBool b => [if b then 245 else 244]
  | COther => []
  end.

Definition enc_entry (e : entry) : list Z :=
  head 3 (blen (fst e)) ++ fst e ++ enc_val (snd e).

Definition enc_map (l : list entry) : list Z :=
  head 5 (blen l) ++ flat_map enc_entry l.

(** ---------- decoding ---------- *)
Definition take_be (k : Z) (lo : Z) (m : Z) (r : list Z) : option (Z * Z * list Z) :=
  match split_at k r with
  | Some (p, r') => let n := unbe p in if lo <=? n then Some (m, n, r') else None
  | None => None
  end.

Definition dec_head (bs : list Z) : option (Z * Z * list Z) :=
  match bs with
  | [] => None
  | b :: r =>
      let m := b / 32 in
      let ai := b mod 32 in
      if ai <? 24 then Some (m, ai, r)
      else if ai =? 24 then take_be 1 24 m r
      else if ai =? 25 then take_be 2 256 m r
      else if ai =? 26 then take_be 4 65536 m r
      else if ai =? 27 then take_be 8 4294967296 m r
      else None
  end.

Definition dec_val (bs : list Z) : option (cval * list Z) :=
  match bs with
  | [] => None
  | b :: _ =>
      if b =? 244 then Some (CBool false, tl bs)
      else if b =? 245 then Some (CBool true, tl bs)
      else
        match dec_head bs with
        | None => None
        | Some (m, n, r) =>
            if m =? 0 then Some (if n <? two63 then CInt n else CBig n, r)
            else if m =? 1 then (if n <? two63 then Some (CInt (-1 - n), r) else None)
            else if m =? 2 then
              match split_at n r with Some (p, r') => Some (CBytes p, r') | None => None end
            else if m =? 3 then
              match split_at n r with Some (p, r') => Some (CText p, r') | None => None end
            else None
        end
  end.

Fixpoint bytes_eqb (a b : list Z) : bool :=
  match a, b with
  | [], [] => true
  | x :: r, y :: s => (x =? y) && bytes_eqb r s
  | _, _ => false
  end.

(** floats are accepted unless NaN or infinite (exponent bits all ones) *)
Definition float_ok (width : Z) (p : list Z) : bool :=
  match p with
  | b0 :: b1 :: _ =>
      if width =? 2 then negb ((b0 / 4) mod 32 =? 31)
      else if width =? 4 then negb ((b0 mod 128) * 2 + b1 / 128 =? 255)
      else negb ((b0 mod 128) * 16 + b1 / 16 =? 2047)
  | _ => false
  end.

(** one data item of any kind: a scalar of the subset, or — with explicit fuel for
    the nesting — null/undefined, a finite float, a list, a nested map (text keys,
    no duplicates).  Tags (links) are not modelled and rejected. *)
Fixpoint dec_item (fuel : nat) (bs : list Z) : option (cval * list Z) :=
  match fuel with
  | O => None
  | S f =>
      match dec_val bs with
      | Some x => Some x
      | None =>
          match bs with
          | [] => None
          | b :: r =>
              if (b =? 246) || (b =? 247) then Some (COther, r)
              else if (b =? 249) || (b =? 250) || (b =? 251) then
                let w := if b =? 249 then 2 else if b =? 250 then 4 else 8 in
                match split_at w r with
                | Some (p, r') => if float_ok w p then Some (COther, r') else None
                | None => None
                end
              else
                match dec_head bs with
                | Some (m, n, r') =>
                    if (m =? 4) && (n <=? blen r') then
                      match (fix items (cnt : nat) (l : list Z) : option (list Z) :=
                               match cnt with
                               | O => Some l
                               | S c => match dec_item f l with
                                        | Some (_, l') => items c l'
                                        | None => None
                                        end
                               end) (Z.to_nat n) r' with
                      | Some rest => Some (COther, rest)
                      | None => None
                      end
                    else if (m =? 5) && (n <=? blen r') then
                      match (fix pairs (cnt : nat) (seen : list (list Z)) (l : list Z) : option (list Z) :=
                               match cnt with
                               | O => Some l
                               | S c =>
                                   match dec_head l with
                                   | Some (km, kn, l1) =>
                                       if km =? 3 then
                                         match split_at kn l1 with
                                         | Some (k, l2) =>
                                             if existsb (bytes_eqb k) seen then None else
                                             match dec_item f l2 with
                                             | Some (_, l3) => pairs c (k :: seen) l3
                                             | None => None
                                             end
                                         | None => None
                                         end
                                       else None
                                   | None => None
                                   end
                               end) (Z.to_nat n) [] r' with
                      | Some rest => Some (COther, rest)
                      | None => None
                      end
                    else None
                | None => None
                end
          end
      end
  end.

Definition dec_entry (bs : list Z) : option (entry * list Z) :=
  match dec_head bs with
  | Some (m, n, r) =>
      if m =? 3 then
        match split_at n r with
        | Some (k, r') =>
            match dec_item (S (length r')) r' with
            | Some (v, r'') => Some ((k, v), r'')
            | None => None
            end
        | None => None
        end
      else None
  | None => None
  end.

(** [cnt] entries still expected; [seen] the keys so far (duplicates rejected) *)
Fixpoint dec_entries (cnt : nat) (seen : list (list Z)) (bs : list Z) : option (list entry * list Z) :=
  match cnt with
  | O => Some ([], bs)
  | S cnt' =>
      match dec_entry bs with
      | None => None
      | Some ((k, v), r) =>
          if existsb (bytes_eqb k) seen then None else
          match dec_entries cnt' (k :: seen) r with
          | None => None
          | Some (l, r') => Some ((k, v) :: l, r')
          end
      end
  end.

(** the declared entry count is bounded by the input length (every entry takes
    at least two bytes), so converting it to [nat] is harmless *)
Definition dec_map (bs : list Z) : option (list entry) :=
  match dec_head bs with
  | Some (m, n, r) =>
      if (m =? 5) && (n <=? blen r) then
        match dec_entries (Z.to_nat n) [] r with
        | Some (l, []) => Some l
        | _ => None
        end
      else None
  | None => None
  end.

(** lookups on a decoded map *)
Fixpoint lookup (k : list Z) (l : list entry) : option cval :=
  match l with
  | [] => None
  | (k', v) :: r => if bytes_eqb k k' then Some v else lookup k r
  end.

(** well-formedness: what can be encoded *)
Definition wf_val (v : cval) : Prop :=
  match v with
  | CBytes b => blen b < two64
  | CInt i => - two63 <= i < two63
  | CBig n => two63 <= n < two64
  | CText s => blen s < two64
  | CBool _ => True
  | COther => False
  end.
Definition wf_entry (e : entry) : Prop := blen (fst e) < two64 /\ wf_val (snd e).

(* ------------------------------------------------------------------ *)
Local Arguments Z.sub : simpl never.
Local Arguments Z.add : simpl never.
Local Arguments Z.mul : simpl never.
Local Arguments Z.opp : simpl never.
Local Arguments Z.ltb : simpl never.
Local Arguments Z.leb : simpl never.

Lemma bytes_eqb_eq : forall a b, bytes_eqb a b = true <-> a = b.
Proof.
  induction a as [|x a IH]; intros [|y b]; cbn; split; intros H;
    try reflexivity; try discriminate.
  - apply andb_true_iff in H. destruct H as [H1 H2].
    apply Z.eqb_eq in H1. apply IH in H2. subst. reflexivity.
  - injection H as -> ->. rewrite Z.eqb_refl. cbn. apply IH. reflexivity.
Qed.

Lemma bytes_eqb_refl : forall a, bytes_eqb a a = true.
Proof. intros a. apply bytes_eqb_eq. reflexivity. Qed.

Lemma bytes_eqb_neq : forall a b, a <> b -> bytes_eqb a b = false.
Proof.
  intros a b H. destruct (bytes_eqb a b) eqn:E; [|reflexivity].
  apply bytes_eqb_eq in E. contradiction.
Qed.

Lemma be_length : forall n v, length (be n v) = n.
Proof. intros. unfold be. rewrite rev_length. apply le_length. Qed.

Lemma blen_be : forall n v, blen (be n v) = Z.of_nat n.
Proof. intros. unfold blen. rewrite be_length. reflexivity. Qed.

Lemma unbe_be : forall n v, unbe (be n v) = v mod 256 ^ Z.of_nat n.
Proof. intros. unfold unbe, be. rewrite rev_involutive. apply unle_le. Qed.

Lemma take_be_ok : forall (k : nat) lo m n r,
  0 <= lo <= n -> n < 256 ^ Z.of_nat k ->
  take_be (Z.of_nat k) lo m (be k n ++ r) = Some (m, n, r).
Proof.
  intros k lo m n r H H'. unfold take_be.
  rewrite <- (blen_be k n). rewrite split_at_app.
  rewrite unbe_be. rewrite Z.mod_small by lia.
  destruct (Z.leb_spec lo n); [reflexivity | lia].
Qed.

Lemma dec_head_head : forall m n r,
  0 <= m < 8 -> 0 <= n < two64 ->
  dec_head (head m n ++ r) = Some (m, n, r).
Proof.
  intros m n r Hm Hn. unfold head, two64 in *.
  assert (Hdiv : forall x, 0 <= x < 32 -> (m * 32 + x) / 32 = m).
  { intros x Hx. symmetry. apply (Z.div_unique _ 32 m x); lia. }
  assert (Hmod : forall x, 0 <= x < 32 -> (m * 32 + x) mod 32 = x).
  { intros x Hx. symmetry. apply (Z.mod_unique _ 32 m x); lia. }
  destruct (Z.ltb_spec n 24) as [H24|H24].
  - cbn [app dec_head]. rewrite Hdiv, Hmod by lia.
    destruct (Z.ltb_spec n 24); [reflexivity | lia].
  - destruct (Z.ltb_spec n 256) as [H256|H256].
    + cbn [app dec_head]. rewrite Hdiv, Hmod by lia. cbn.
      change (take_be 1 24 m (n :: r)) with (take_be (Z.of_nat 1) 24 m (n :: r)).
      replace (n :: r) with (be 1 n ++ r).
      * apply take_be_ok; cbn; lia.
      * unfold be. cbn. rewrite Z.mod_small by lia. reflexivity.
    + destruct (Z.ltb_spec n 65536) as [H16|H16].
      * cbn [app dec_head]. rewrite Hdiv, Hmod by lia. cbn.
        apply (take_be_ok 2); cbn; lia.
      * destruct (Z.ltb_spec n 4294967296) as [H32|H32].
        -- cbn [app dec_head]. rewrite Hdiv, Hmod by lia. cbn.
           apply (take_be_ok 4); cbn; lia.
        -- cbn [app dec_head]. rewrite Hdiv, Hmod by lia. cbn.
           apply (take_be_ok 8); cbn; lia.
Qed.

Lemma head_first : forall m n, 0 <= m < 8 -> 0 <= n ->
  exists b t, head m n = b :: t /\ m * 32 <= b < m * 32 + 28.
Proof.
  intros m n Hm Hn. unfold head.
  destruct (n <? 24) eqn:E1; [apply Z.ltb_lt in E1; eexists; eexists; split; [reflexivity|lia]|].
  destruct (n <? 256); [eexists; eexists; split; [reflexivity|lia]|].
  destruct (n <? 65536); [eexists; eexists; split; [reflexivity|lia]|].
  destruct (n <? 4294967296); eexists; eexists; (split; [reflexivity|lia]).
Qed.

Lemma dec_val_enc_val : forall v r, wf_val v -> dec_val (enc_val v ++ r) = Some (v, r).
Proof.
  intros v r Hv. unfold two63, two64 in *.
  assert (Hgen : forall m n rest, 0 <= m < 7 -> 0 <= n < 18446744073709551616 ->
            dec_val (head m n ++ rest) =
            match dec_head (head m n ++ rest) with
            | None => None
            | Some (m, n, r) =>
                if m =? 0 then Some (if n <? two63 then CInt n else CBig n, r)
                else if m =? 1 then (if n <? two63 then Some (CInt (-1 - n), r) else None)
                else if m =? 2 then
                  match split_at n r with Some (p, r') => Some (CBytes p, r') | None => None end
                else if m =? 3 then
                  match split_at n r with Some (p, r') => Some (CText p, r') | None => None end
                else None
            end).
  { intros m n rest Hm Hn.
    destruct (head_first m n ltac:(lia) ltac:(lia)) as [b [t [Hh Hb]]].
    rewrite Hh. cbn [app]. unfold dec_val.
    destruct (Z.eqb_spec b 244); [lia|]. destruct (Z.eqb_spec b 245); [lia|]. reflexivity. }
  destruct v as [b|i|n|s|b|]; cbn [enc_val wf_val] in *; unfold two63, two64 in Hv.
  - rewrite <- app_assoc. pose proof (blen_nonneg b).
    rewrite Hgen by lia. rewrite dec_head_head by (unfold two64; lia). cbn.
    rewrite split_at_app. reflexivity.
  - destruct (Z.leb_spec 0 i).
    + rewrite Hgen by lia. rewrite dec_head_head by (unfold two64; lia). cbn.
      unfold two63. destruct (Z.ltb_spec i 9223372036854775808); [reflexivity|lia].
    + rewrite Hgen by lia. rewrite dec_head_head by (unfold two64; lia). cbn.
      unfold two63. destruct (Z.ltb_spec (-1 - i) 9223372036854775808); [|lia].
      do 3 f_equal. lia.
  - rewrite Hgen by lia. rewrite dec_head_head by (unfold two64; lia). cbn.
    unfold two63. destruct (Z.ltb_spec n 9223372036854775808); [lia|reflexivity].
  - rewrite <- app_assoc. pose proof (blen_nonneg s).
    rewrite Hgen by lia. rewrite dec_head_head by (unfold two64; lia). cbn.
    rewrite split_at_app. reflexivity.
  - destruct b; reflexivity.
  - destruct Hv.
Qed.

Lemma dec_item_scalar : forall f bs x, dec_val bs = Some x -> dec_item (S f) bs = Some x.
Proof. intros f bs x H. cbn [dec_item]. rewrite H. reflexivity. Qed.

Lemma dec_entry_enc_entry : forall e r, wf_entry e ->
  dec_entry (enc_entry e ++ r) = Some (e, r).
Proof.
  intros [k v] r [Hk Hv]. cbn [fst snd] in *. unfold enc_entry, dec_entry. cbn [fst snd].
  rewrite <- !app_assoc. pose proof (blen_nonneg k).
  rewrite dec_head_head by lia. cbn.
  rewrite split_at_app.
  cbn [dec_item]. rewrite dec_val_enc_val by exact Hv. reflexivity.
Qed.

Lemma existsb_not_in : forall k seen, ~ In k seen -> existsb (bytes_eqb k) seen = false.
Proof.
  intros k seen H. induction seen as [|s seen IH]; cbn; [reflexivity|].
  rewrite bytes_eqb_neq by (intros E; apply H; left; symmetry; exact E).
  cbn. apply IH. intros Hin. apply H. right; exact Hin.
Qed.

Lemma dec_entries_enc : forall l seen r,
  Forall wf_entry l -> NoDup (map fst l) ->
  (forall k, In k (map fst l) -> ~ In k seen) ->
  dec_entries (length l) seen (flat_map enc_entry l ++ r) = Some (l, r).
Proof.
  induction l as [|[k v] l IH]; intros seen r Hwf Hnd Hseen; cbn [length flat_map dec_entries].
  - reflexivity.
  - inversion Hwf as [|e l' He Hl]; subst. cbn [map fst] in Hnd.
    inversion Hnd as [|k' ks Hnotin Hnd']; subst.
    rewrite <- app_assoc. rewrite dec_entry_enc_entry by exact He.
    rewrite existsb_not_in by (apply Hseen; left; reflexivity).
    rewrite IH; [reflexivity | exact Hl | exact Hnd' |].
    intros k0 Hk0 [Hin|Hin].
    + subst. contradiction.
    + apply (Hseen k0); [right; exact Hk0 | exact Hin].
Qed.

Lemma head_len1 : forall m n, 1 <= blen (head m n).
Proof.
  intros m n. unfold head.
  destruct (n <? 24); [cbn; lia|]. destruct (n <? 256); [cbn; lia|].
  destruct (n <? 65536); [rewrite blen_cons; pose proof (blen_nonneg (be 2 n)); lia|].
  destruct (n <? 4294967296); rewrite blen_cons;
    [pose proof (blen_nonneg (be 4 n)) | pose proof (blen_nonneg (be 8 n))]; lia.
Qed.

Lemma enc_entry_len1 : forall e, 1 <= blen (enc_entry e).
Proof.
  intros [k v]. unfold enc_entry. cbn [fst snd]. rewrite !blen_app.
  pose proof (blen_nonneg k). pose proof (blen_nonneg (enc_val v)).
  pose proof (head_len1 3 (blen k)). lia.
Qed.

Lemma flat_map_enc_len : forall l, blen l <= blen (flat_map enc_entry l).
Proof.
  induction l as [|e l IH]; cbn [flat_map]; [cbn; lia|].
  rewrite blen_app, blen_cons. pose proof (enc_entry_len1 e). lia.
Qed.

(** decoding an encoded map gives the map back, in the order it was written *)
Theorem dec_map_enc_map : forall l,
  Forall wf_entry l -> NoDup (map fst l) -> blen l < two64 ->
  dec_map (enc_map l) = Some l.
Proof.
  intros l Hwf Hnd Hlen. unfold dec_map, enc_map.
  pose proof (blen_nonneg l).
  rewrite dec_head_head by lia.
  pose proof (flat_map_enc_len l).
  destruct (Z.leb_spec (blen l) (blen (flat_map enc_entry l))); [|lia]. cbn [Z.eqb andb].
  change (5 =? 5) with true. cbn [andb].
  unfold blen at 1. rewrite Nat2Z.id.
  rewrite <- (app_nil_r (flat_map enc_entry l)).
  rewrite dec_entries_enc; [reflexivity | exact Hwf | exact Hnd |].
  intros k _ [].
Qed.

(** lookups *)
Lemma lookup_in : forall k l v, NoDup (map fst l) -> In (k, v) l -> lookup k l = Some v.
Proof.
  induction l as [|[k' v'] l IH]; intros v Hnd Hin; [destruct Hin|].
  cbn [map fst] in Hnd. inversion Hnd as [|x xs Hnotin Hnd']; subst.
  cbn [lookup]. destruct Hin as [Hin|Hin].
  - injection Hin as -> ->. rewrite bytes_eqb_refl. reflexivity.
  - destruct (bytes_eqb k k') eqn:E.
    + apply bytes_eqb_eq in E. subst. exfalso. apply Hnotin.
      change k' with (fst (k', v)). apply in_map. exact Hin.
    + apply IH; assumption.
Qed.

Lemma lookup_none : forall k l, ~ In k (map fst l) -> lookup k l = None.
Proof.
  induction l as [|[k' v'] l IH]; intros H; [reflexivity|].
  cbn [lookup]. rewrite bytes_eqb_neq by (intros E; apply H; left; symmetry; exact E).
  apply IH. intros Hin. apply H. right. exact Hin.
Qed.
