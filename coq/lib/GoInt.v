(* GoInt.v -- Go machine-integer semantics over Z.

   Every Go integer value is modelled as a [Z] kept inside the range of its Go
   type ([in_range t z]).  The operators below take the *result* type [t] of
   the Go expression and wrap exactly like the Go operators do
   (https://go.dev/ref/spec#Arithmetic_operators, #Integer_overflow):

     unsigned:  result mod 2^bits
     signed:    two's-complement reinterpretation of the low [bits] bits

   Platform assumption (trusted, see tools/go2coq/README.md):
   int = int64, uint = uintptr = uint64 (64-bit GOARCH).

   Go run-time panics (division by zero, index out of range, negative shift
   count) are NOT represented in the value functions: [quo]/[rem] return 0 on a
   zero divisor, [shl]/[shr] return 0 / sign-fill on a negative count.  The
   translator go2coq emits for every function [F] a companion [F_ok] that is
   [true] exactly when none of these panics happens; the value of [F] is only
   meaningful where [F_ok] is [true].  [quo_ok], [shift_ok], [index_ok] are the
   guards it uses.

   Stdlib only; no axioms (see the Print Assumptions at the end). *)

From Coq Require Import ZArith Lia Bool List.
Open Scope Z_scope.

(* ------------------------------------------------------------------ *)
(** * Integer types *)

Inductive ity := I8 | I16 | I32 | I64 | U8 | U16 | U32 | U64.

Definition bits (t : ity) : Z :=
  match t with
  | I8 | U8 => 8
  | I16 | U16 => 16
  | I32 | U32 => 32
  | I64 | U64 => 64
  end.

Definition signed (t : ity) : bool :=
  match t with
  | I8 | I16 | I32 | I64 => true
  | _ => false
  end.

(* The constants are literal tables (not 2 ^ bits t) so that vm_compute does
   not recompute powers at every operation; [modulus_pow] and [half_pow] below
   relate them to the powers of two. *)
Definition modulus (t : ity) : Z :=
  match t with
  | I8 | U8 => 256
  | I16 | U16 => 65536
  | I32 | U32 => 4294967296
  | I64 | U64 => 18446744073709551616
  end.

Definition half (t : ity) : Z :=
  match t with
  | I8 | U8 => 128
  | I16 | U16 => 32768
  | I32 | U32 => 2147483648
  | I64 | U64 => 9223372036854775808
  end.

(* modulus t - 1, i.e. [bits t] one-bits *)
Definition mask (t : ity) : Z :=
  match t with
  | I8 | U8 => 255
  | I16 | U16 => 65535
  | I32 | U32 => 4294967295
  | I64 | U64 => 18446744073709551615
  end.

Definition min_int (t : ity) : Z :=
  match t with
  | I8 => -128
  | I16 => -32768
  | I32 => -2147483648
  | I64 => -9223372036854775808
  | _ => 0
  end.

Definition max_int (t : ity) : Z :=
  match t with
  | I8 => 127
  | I16 => 32767
  | I32 => 2147483647
  | I64 => 9223372036854775807
  | U8 => 255
  | U16 => 65535
  | U32 => 4294967295
  | U64 => 18446744073709551615
  end.

Definition in_range (t : ity) (z : Z) : Prop := min_int t <= z <= max_int t.
Definition in_rangeb (t : ity) (z : Z) : bool := (min_int t <=? z) && (z <=? max_int t).

(* [wrap]: reduce an arbitrary integer to the value a Go variable of type [t]
   holds after the operation.  Specification ([wrap_spec] below):

     unsigned:  z mod 2^bits
     signed:    (z + 2^(bits-1)) mod 2^bits - 2^(bits-1)

   The definition is the fast equivalent: identity when already in range,
   otherwise a bit mask (Z.land with 2^bits - 1 is mod 2^bits, also for
   negative z). *)
Definition wrap (t : ity) (z : Z) : Z :=
  if in_rangeb t z then z
  else if signed t then Z.land (z + half t) (mask t) - half t
  else Z.land z (mask t).

(* ------------------------------------------------------------------ *)
(** * Operators (first argument: the static Go type of the expression) *)

Definition add (t : ity) (a b : Z) : Z := wrap t (a + b).
Definition sub (t : ity) (a b : Z) : Z := wrap t (a - b).
Definition mul (t : ity) (a b : Z) : Z := wrap t (a * b).

(* Go / and % truncate toward zero.  b = 0 panics in Go: value 0 here, and
   [quo_ok b = false].  MinInt / -1 wraps to MinInt, as in Go. *)
Definition quo (t : ity) (a b : Z) : Z := if b =? 0 then 0 else wrap t (Z.quot a b).
Definition rem (t : ity) (a b : Z) : Z := if b =? 0 then 0 else wrap t (Z.rem a b).
Definition quo_ok (b : Z) : bool := negb (b =? 0).

Definition and_ (t : ity) (a b : Z) : Z := wrap t (Z.land a b).
Definition or_ (t : ity) (a b : Z) : Z := wrap t (Z.lor a b).
Definition xor (t : ity) (a b : Z) : Z := wrap t (Z.lxor a b).
Definition andnot (t : ity) (a b : Z) : Z := wrap t (Z.ldiff a b).

(* x << n and x >> n; [n] is the (already translated) value of the count, of
   whatever integer type it has in Go.  n < 0 panics in Go ([shift_ok]).
   n >= bits: all bits are shifted out. *)
Definition shl (t : ity) (x n : Z) : Z :=
  if (0 <=? n) && (n <? bits t) then wrap t (Z.shiftl x n) else 0.
Definition shr (t : ity) (x n : Z) : Z :=
  if (0 <=? n) && (n <? bits t) then wrap t (Z.shiftr x n)
  else if signed t && (x <? 0) then -1 else 0.
Definition shift_ok (n : Z) : bool := 0 <=? n.

Definition neg (t : ity) (x : Z) : Z := wrap t (- x).
Definition not_ (t : ity) (x : Z) : Z := wrap t (Z.lnot x).
Definition conv (from to : ity) (x : Z) : Z := wrap to x.

(* Comparisons are emitted by the translator directly as Z.eqb / Z.ltb / Z.leb
   (a > b as Z.ltb b a, a != b as negb (Z.eqb a b)); bool ==/!= as Bool.eqb.
   len(x) is emitted as Z.of_nat (length x), x[i] as nth (Z.to_nat i) x 0,
   min/max as nested Z.min / Z.max. *)

(* Indexing x[i] on a list model of a string / slice / array. *)
Definition index_ok {A : Type} (l : list A) (i : Z) : bool :=
  (0 <=? i) && (i <? Z.of_nat (length l)).

(* ------------------------------------------------------------------ *)
(** * Intrinsics *)

(* math/bits.Len*: minimum number of bits to represent x; 0 for x = 0. *)
Definition bitlen (x : Z) : Z := if x <=? 0 then 0 else Z.log2 x + 1.
Definition len8 := bitlen.
Definition len16 := bitlen.
Definition len32 := bitlen.
Definition len64 := bitlen.
Definition len_ := bitlen.   (* bits.Len(uint), uint = uint64 *)

(* math/bits.TrailingZeros*: number of trailing zero bits; [bits t] for 0. *)
Definition trailing_zeros (t : ity) (x : Z) : Z :=
  if x =? 0 then bits t else Z.log2 (Z.land x (- x)).
Definition trailing_zeros8 := trailing_zeros U8.
Definition trailing_zeros16 := trailing_zeros U16.
Definition trailing_zeros32 := trailing_zeros U32.
Definition trailing_zeros64 := trailing_zeros U64.
Definition trailing_zeros_ := trailing_zeros U64.

(* math/bits.LeadingZeros*. *)
Definition leading_zeros (t : ity) (x : Z) : Z := bits t - bitlen x.

(* ------------------------------------------------------------------ *)
(** * Helpers used by generated code *)

(* bool equality on results, used by validation files. *)
Fixpoint list_eqb (a b : list Z) : bool :=
  match a, b with
  | nil, nil => true
  | x :: a', y :: b' => Z.eqb x y && list_eqb a' b'
  | _, _ => false
  end.

Arguments wrap : simpl never.
Arguments add : simpl never.
Arguments sub : simpl never.
Arguments mul : simpl never.
Arguments quo : simpl never.
Arguments rem : simpl never.
Arguments and_ : simpl never.
Arguments or_ : simpl never.
Arguments xor : simpl never.
Arguments andnot : simpl never.
Arguments shl : simpl never.
Arguments shr : simpl never.
Arguments neg : simpl never.
Arguments not_ : simpl never.
Arguments conv : simpl never.
Arguments bitlen : simpl never.
Arguments trailing_zeros : simpl never.

(* ------------------------------------------------------------------ *)
(** * Basic facts about the constants *)

Lemma bits_pos : forall t, 0 < bits t.
Proof. destruct t; reflexivity. Qed.

Lemma half_pos : forall t, 0 < half t.
Proof. destruct t; reflexivity. Qed.

Lemma modulus_half : forall t, modulus t = 2 * half t.
Proof. destruct t; reflexivity. Qed.

Lemma modulus_pos : forall t, 0 < modulus t.
Proof. destruct t; reflexivity. Qed.

Lemma modulus_pow : forall t, modulus t = 2 ^ bits t.
Proof. destruct t; reflexivity. Qed.

Lemma half_pow : forall t, half t = 2 ^ (bits t - 1).
Proof. destruct t; reflexivity. Qed.

Lemma mask_ones : forall t, mask t = Z.ones (bits t).
Proof. destruct t; reflexivity. Qed.

Lemma min_int_eq : forall t, min_int t = if signed t then - half t else 0.
Proof. destruct t; reflexivity. Qed.

Lemma max_int_eq : forall t, max_int t = if signed t then half t - 1 else modulus t - 1.
Proof. destruct t; reflexivity. Qed.

(* exposes [in_range] as bounds in terms of [half]/[modulus] (generic in t) *)
Ltac range_generic :=
  unfold in_range in *; rewrite ?min_int_eq, ?max_int_eq in *.

(* Concrete bounds, convenient for [lia]-style proofs: rewrite with these or
   use the tactic [unfold_range] below. *)
Lemma min_int_values :
  min_int I8 = -128 /\ min_int I16 = -32768 /\ min_int I32 = -2147483648 /\
  min_int I64 = -9223372036854775808 /\
  min_int U8 = 0 /\ min_int U16 = 0 /\ min_int U32 = 0 /\ min_int U64 = 0.
Proof. repeat split; reflexivity. Qed.

Lemma max_int_values :
  max_int I8 = 127 /\ max_int I16 = 32767 /\ max_int I32 = 2147483647 /\
  max_int I64 = 9223372036854775807 /\
  max_int U8 = 255 /\ max_int U16 = 65535 /\ max_int U32 = 4294967295 /\
  max_int U64 = 18446744073709551615.
Proof. repeat split; reflexivity. Qed.

(* [in_range T z] for a concrete T as a pair of literal inequalities. *)
Lemma in_range_I8 : forall z, in_range I8 z <-> -128 <= z <= 127.
Proof. intro; reflexivity. Qed.
Lemma in_range_I16 : forall z, in_range I16 z <-> -32768 <= z <= 32767.
Proof. intro; reflexivity. Qed.
Lemma in_range_I32 : forall z, in_range I32 z <-> -2147483648 <= z <= 2147483647.
Proof. intro; reflexivity. Qed.
Lemma in_range_I64 : forall z, in_range I64 z <-> -9223372036854775808 <= z <= 9223372036854775807.
Proof. intro; reflexivity. Qed.
Lemma in_range_U8 : forall z, in_range U8 z <-> 0 <= z <= 255.
Proof. intro; reflexivity. Qed.
Lemma in_range_U16 : forall z, in_range U16 z <-> 0 <= z <= 65535.
Proof. intro; reflexivity. Qed.
Lemma in_range_U32 : forall z, in_range U32 z <-> 0 <= z <= 4294967295.
Proof. intro; reflexivity. Qed.
Lemma in_range_U64 : forall z, in_range U64 z <-> 0 <= z <= 18446744073709551615.
Proof. intro; reflexivity. Qed.

(* Turns every [in_range <concrete type> z] in goal and hypotheses into literal
   bounds that [lia] understands. *)
Ltac unfold_range :=
  repeat match goal with
  | H : in_range I8 _ |- _ => apply (proj1 (in_range_I8 _)) in H
  | H : in_range I16 _ |- _ => apply (proj1 (in_range_I16 _)) in H
  | H : in_range I32 _ |- _ => apply (proj1 (in_range_I32 _)) in H
  | H : in_range I64 _ |- _ => apply (proj1 (in_range_I64 _)) in H
  | H : in_range U8 _ |- _ => apply (proj1 (in_range_U8 _)) in H
  | H : in_range U16 _ |- _ => apply (proj1 (in_range_U16 _)) in H
  | H : in_range U32 _ |- _ => apply (proj1 (in_range_U32 _)) in H
  | H : in_range U64 _ |- _ => apply (proj1 (in_range_U64 _)) in H
  | |- context [in_range I8 _] => rewrite in_range_I8
  | |- context [in_range I16 _] => rewrite in_range_I16
  | |- context [in_range I32 _] => rewrite in_range_I32
  | |- context [in_range I64 _] => rewrite in_range_I64
  | |- context [in_range U8 _] => rewrite in_range_U8
  | |- context [in_range U16 _] => rewrite in_range_U16
  | |- context [in_range U32 _] => rewrite in_range_U32
  | |- context [in_range U64 _] => rewrite in_range_U64
  end.

Lemma in_rangeb_spec : forall t z, in_rangeb t z = true <-> in_range t z.
Proof.
  intros t z. unfold in_rangeb, in_range.
  rewrite andb_true_iff, !Z.leb_le. tauto.
Qed.

Lemma in_range_0 : forall t, in_range t 0.
Proof. destruct t; unfold_range; lia. Qed.

(* ------------------------------------------------------------------ *)
(** * wrap *)

(* The specification of [wrap]: Go's integer overflow rule. *)
Lemma wrap_spec : forall t z,
  wrap t z = if signed t then (z + half t) mod modulus t - half t else z mod modulus t.
Proof.
  intros t z. unfold wrap, in_rangeb.
  pose proof (half_pos t) as Hh. pose proof (modulus_half t) as Hm.
  pose proof (min_int_eq t) as Hmin. pose proof (max_int_eq t) as Hmax.
  pose proof (bits_pos t) as Hb.
  destruct ((min_int t <=? z) && (z <=? max_int t)) eqn:E.
  - apply andb_true_iff in E. destruct E as [E1 E2].
    apply Z.leb_le in E1. apply Z.leb_le in E2.
    destruct (signed t); rewrite Z.mod_small by lia; lia.
  - rewrite mask_ones, !Z.land_ones by lia. rewrite <- modulus_pow. reflexivity.
Qed.

Lemma wrap_range : forall t z, in_range t (wrap t z).
Proof.
  intros t z. rewrite wrap_spec. unfold in_range. rewrite min_int_eq, max_int_eq.
  pose proof (half_pos t) as Hh. pose proof (modulus_half t) as Hm.
  destruct (signed t).
  - pose proof (Z.mod_pos_bound (z + half t) (modulus t)). lia.
  - pose proof (Z.mod_pos_bound z (modulus t)). lia.
Qed.

Lemma wrap_id : forall t z, in_range t z -> wrap t z = z.
Proof.
  intros t z H. unfold wrap.
  replace (in_rangeb t z) with true; [reflexivity|].
  symmetry. unfold in_rangeb. destruct H.
  apply andb_true_iff; split; apply Z.leb_le; assumption.
Qed.

Lemma wrap_idem : forall t z, wrap t (wrap t z) = wrap t z.
Proof. intros. apply wrap_id, wrap_range. Qed.

(* wrap only changes a value by a multiple of 2^bits. *)
Lemma wrap_congr : forall t z, exists k, wrap t z = z + k * modulus t.
Proof.
  intros t z. rewrite wrap_spec. pose proof (modulus_pos t) as Hm.
  destruct (signed t).
  - exists (- ((z + half t) / modulus t)).
    pose proof (Z.div_mod (z + half t) (modulus t)). lia.
  - exists (- (z / modulus t)).
    pose proof (Z.div_mod z (modulus t)). lia.
Qed.

Lemma wrap_unsigned : forall t z, signed t = false -> wrap t z = z mod 2 ^ bits t.
Proof. intros t z H. rewrite wrap_spec, H, modulus_pow. reflexivity. Qed.

Lemma wrap_signed : forall t z, signed t = true ->
  wrap t z = (z + 2 ^ (bits t - 1)) mod 2 ^ bits t - 2 ^ (bits t - 1).
Proof. intros t z H. rewrite wrap_spec, H, modulus_pow, half_pow. reflexivity. Qed.

(* ------------------------------------------------------------------ *)
(** * Range of every operator *)

Lemma add_range : forall t a b, in_range t (add t a b).
Proof. intros; apply wrap_range. Qed.
Lemma sub_range : forall t a b, in_range t (sub t a b).
Proof. intros; apply wrap_range. Qed.
Lemma mul_range : forall t a b, in_range t (mul t a b).
Proof. intros; apply wrap_range. Qed.
Lemma quo_range : forall t a b, in_range t (quo t a b).
Proof. intros. unfold quo. destruct (b =? 0); [apply in_range_0 | apply wrap_range]. Qed.
Lemma rem_range : forall t a b, in_range t (rem t a b).
Proof. intros. unfold rem. destruct (b =? 0); [apply in_range_0 | apply wrap_range]. Qed.
Lemma and_range : forall t a b, in_range t (and_ t a b).
Proof. intros; apply wrap_range. Qed.
Lemma or_range : forall t a b, in_range t (or_ t a b).
Proof. intros; apply wrap_range. Qed.
Lemma xor_range : forall t a b, in_range t (xor t a b).
Proof. intros; apply wrap_range. Qed.
Lemma andnot_range : forall t a b, in_range t (andnot t a b).
Proof. intros; apply wrap_range. Qed.
Lemma shl_range : forall t x n, in_range t (shl t x n).
Proof. intros. unfold shl. destruct (_ && _); [apply wrap_range | apply in_range_0]. Qed.
Lemma shr_range : forall t x n, in_range t (shr t x n).
Proof.
  intros. unfold shr. destruct ((0 <=? n) && (n <? bits t)); [apply wrap_range|].
  destruct (signed t) eqn:S; simpl; [| apply in_range_0].
  destruct (x <? 0); [| apply in_range_0].
  destruct t; try discriminate; unfold_range; lia.
Qed.
Lemma neg_range : forall t x, in_range t (neg t x).
Proof. intros; apply wrap_range. Qed.
Lemma not_range : forall t x, in_range t (not_ t x).
Proof. intros; apply wrap_range. Qed.
Lemma conv_range : forall from to x, in_range to (conv from to x).
Proof. intros; apply wrap_range. Qed.

(* ------------------------------------------------------------------ *)
(** * No-wrap lemmas: when the mathematical result fits, the operator is the
      mathematical one *)

Lemma add_nowrap : forall t a b, in_range t (a + b) -> add t a b = a + b.
Proof. intros; apply wrap_id; assumption. Qed.
Lemma sub_nowrap : forall t a b, in_range t (a - b) -> sub t a b = a - b.
Proof. intros; apply wrap_id; assumption. Qed.
Lemma mul_nowrap : forall t a b, in_range t (a * b) -> mul t a b = a * b.
Proof. intros; apply wrap_id; assumption. Qed.
Lemma neg_nowrap : forall t x, in_range t (- x) -> neg t x = - x.
Proof. intros; apply wrap_id; assumption. Qed.
Lemma conv_nowrap : forall from to x, in_range to x -> conv from to x = x.
Proof. intros; apply wrap_id; assumption. Qed.

Lemma quo_nowrap : forall t a b,
  b <> 0 -> in_range t (Z.quot a b) -> quo t a b = Z.quot a b.
Proof.
  intros t a b Hb H. unfold quo.
  destruct (Z.eqb_spec b 0); [contradiction | apply wrap_id; assumption].
Qed.

Lemma rem_abs_le : forall a b, b <> 0 -> Z.abs (Z.rem a b) <= Z.abs a.
Proof.
  intros a b Hb.
  rewrite <- Z.rem_abs by assumption.
  apply Z.rem_le; lia.
Qed.

Lemma rem_nowrap : forall t a b,
  b <> 0 -> in_range t a -> rem t a b = Z.rem a b.
Proof.
  intros t a b Hb H. unfold rem.
  destruct (Z.eqb_spec b 0); [contradiction|]. apply wrap_id.
  pose proof (rem_abs_le a b Hb) as Habs.
  pose proof (Z.rem_sign_nz a b) as Hs.
  range_generic.
  pose proof (half_pos t). pose proof (modulus_half t).
  destruct (Z.eq_dec (Z.rem a b) 0) as [E|E].
  - rewrite E. destruct (signed t); lia.
  - specialize (Hs Hb E). destruct (signed t); lia.
Qed.

(* For non-negative operands Go's / and % are the Euclidean ones. *)
Lemma quo_nonneg : forall t a b,
  0 <= a -> 0 < b -> in_range t a -> quo t a b = a / b.
Proof.
  intros t a b Ha Hb H. rewrite quo_nowrap by
    (try lia; rewrite Z.quot_div_nonneg by lia;
     range_generic;
     pose proof (half_pos t);
     pose proof (Z.div_pos a b Ha Hb);
     assert (a / b <= a) by (apply Z.div_le_upper_bound; nia);
     destruct (signed t); lia).
  apply Z.quot_div_nonneg; lia.
Qed.

Lemma rem_nonneg : forall t a b,
  0 <= a -> 0 < b -> in_range t a -> rem t a b = a mod b.
Proof.
  intros t a b Ha Hb H. rewrite rem_nowrap by (try lia; assumption).
  apply Z.rem_mod_nonneg; lia.
Qed.

Lemma shl_nowrap : forall t x n,
  0 <= n < bits t -> in_range t (x * 2 ^ n) -> shl t x n = x * 2 ^ n.
Proof.
  intros t x n Hn H. unfold shl.
  replace ((0 <=? n) && (n <? bits t)) with true
    by (symmetry; apply andb_true_iff; split; [apply Z.leb_le | apply Z.ltb_lt]; lia).
  rewrite Z.shiftl_mul_pow2 by lia. apply wrap_id; assumption.
Qed.

(* Specification of [shl] in terms of multiplication. *)
Lemma shl_spec : forall t x n,
  0 <= n < bits t -> shl t x n = wrap t (x * 2 ^ n).
Proof.
  intros t x n Hn. unfold shl.
  replace ((0 <=? n) && (n <? bits t)) with true
    by (symmetry; apply andb_true_iff; split; [apply Z.leb_le | apply Z.ltb_lt]; lia).
  rewrite Z.shiftl_mul_pow2 by lia. reflexivity.
Qed.

Lemma shl_ge_bits : forall t x n, bits t <= n -> shl t x n = 0.
Proof.
  intros t x n Hn. unfold shl.
  replace (n <? bits t) with false by (symmetry; apply Z.ltb_ge; lia).
  rewrite andb_false_r. reflexivity.
Qed.

(* Z.shiftr of an in-range value stays in range (floor division by 2^n). *)
Lemma shiftr_in_range : forall t x n, 0 <= n -> in_range t x -> in_range t (Z.shiftr x n).
Proof.
  intros t x n Hn H. rewrite Z.shiftr_div_pow2 by assumption.
  assert (0 < 2 ^ n) by (apply Z.pow_pos_nonneg; lia).
  range_generic.
  pose proof (half_pos t). pose proof (modulus_pos t).
  destruct (signed t).
  - split.
    + apply Z.div_le_lower_bound; nia.
    + destruct (Z_lt_le_dec x 0).
      * assert (x / 2 ^ n < 0) by (apply Z.div_lt_upper_bound; lia). lia.
      * assert (x / 2 ^ n <= x) by (apply Z.div_le_upper_bound; nia). lia.
  - split.
    + apply Z.div_pos; lia.
    + assert (x / 2 ^ n <= x) by (apply Z.div_le_upper_bound; nia). lia.
Qed.

Lemma shr_nowrap : forall t x n,
  0 <= n < bits t -> in_range t x -> shr t x n = Z.shiftr x n.
Proof.
  intros t x n Hn H. unfold shr.
  replace ((0 <=? n) && (n <? bits t)) with true
    by (symmetry; apply andb_true_iff; split; [apply Z.leb_le | apply Z.ltb_lt]; lia).
  apply wrap_id, shiftr_in_range; [lia | assumption].
Qed.

Lemma shr_div : forall t x n,
  0 <= n < bits t -> in_range t x -> shr t x n = x / 2 ^ n.
Proof. intros. rewrite shr_nowrap by assumption. apply Z.shiftr_div_pow2; lia. Qed.

Lemma shl_mul : forall t x n,
  0 <= n < bits t -> in_range t (x * 2 ^ n) -> shl t x n = Z.shiftl x n.
Proof. intros. rewrite shl_nowrap by assumption. symmetry; apply Z.shiftl_mul_pow2; lia. Qed.

(* ------------------------------------------------------------------ *)
(** * Bitwise operators on non-negative in-range values need no wrap *)

Lemma lt_pow2_log2 : forall a n, 0 <= n -> 0 <= a -> (a < 2 ^ n <-> a = 0 \/ Z.log2 a < n).
Proof.
  intros a n Hn Ha. destruct (Z.eq_dec a 0) as [->|Hz].
  - split; [auto|]. intros _. apply Z.pow_pos_nonneg; lia.
  - rewrite (Z.log2_lt_pow2 a n) by lia. split; [auto|]. intros [?|?]; [lia|assumption].
Qed.

Lemma land_bound : forall a b n, 0 <= n -> 0 <= a < 2 ^ n -> 0 <= b -> 0 <= Z.land a b < 2 ^ n.
Proof.
  intros a b n Hn [Ha Ha'] Hb.
  assert (0 <= Z.land a b) by (apply Z.land_nonneg; auto).
  split; [assumption|].
  apply lt_pow2_log2; try assumption.
  apply lt_pow2_log2 in Ha'; try assumption.
  destruct Ha' as [->|Hl]; [left; apply Z.land_0_l|].
  destruct (Z.eq_dec (Z.land a b) 0); [auto|right].
  pose proof (Z.log2_land a b Ha Hb). lia.
Qed.

Lemma lor_bound : forall a b n, 0 <= n -> 0 <= a < 2 ^ n -> 0 <= b < 2 ^ n -> 0 <= Z.lor a b < 2 ^ n.
Proof.
  intros a b n Hn [Ha Ha'] [Hb Hb'].
  assert (0 <= Z.lor a b) by (apply Z.lor_nonneg; auto).
  split; [assumption|].
  apply lt_pow2_log2; try assumption.
  apply lt_pow2_log2 in Ha'; try assumption.
  apply lt_pow2_log2 in Hb'; try assumption.
  destruct Ha' as [->|Hla]; [rewrite Z.lor_0_l; assumption|].
  destruct Hb' as [->|Hlb]; [rewrite Z.lor_0_r; auto|].
  right. rewrite Z.log2_lor by assumption. lia.
Qed.

Lemma lxor_bound : forall a b n, 0 <= n -> 0 <= a < 2 ^ n -> 0 <= b < 2 ^ n -> 0 <= Z.lxor a b < 2 ^ n.
Proof.
  intros a b n Hn [Ha Ha'] [Hb Hb'].
  assert (0 <= Z.lxor a b) by (apply Z.lxor_nonneg; tauto).
  split; [assumption|].
  apply lt_pow2_log2; try assumption.
  apply lt_pow2_log2 in Ha'; try assumption.
  apply lt_pow2_log2 in Hb'; try assumption.
  destruct Ha' as [->|Hla]; [rewrite Z.lxor_0_l; assumption|].
  destruct Hb' as [->|Hlb]; [rewrite Z.lxor_0_r; auto|].
  destruct (Z.eq_dec (Z.lxor a b) 0); [auto|right].
  pose proof (Z.log2_lxor a b Ha Hb). lia.
Qed.

Lemma ldiff_le_l : forall a b, 0 <= a -> 0 <= Z.ldiff a b <= a.
Proof.
  intros a b Ha. apply Z.ldiff_le; [assumption|].
  apply Z.bits_inj'. intros i Hi.
  rewrite !Z.ldiff_spec, Z.bits_0.
  destruct (Z.testbit a i), (Z.testbit b i); reflexivity.
Qed.

Lemma ldiff_bound : forall a b n, 0 <= n -> 0 <= a < 2 ^ n -> 0 <= Z.ldiff a b < 2 ^ n.
Proof.
  intros a b n Hn [Ha Ha']. pose proof (ldiff_le_l a b Ha). lia.
Qed.

(* The non-negative part of every type is [0, 2^k) for k = bits or bits-1. *)
Lemma nonneg_range_pow : forall t, exists k, 0 <= k /\ max_int t + 1 = 2 ^ k.
Proof.
  intro t. destruct (signed t) eqn:S.
  - exists (bits t - 1). pose proof (bits_pos t). rewrite max_int_eq, S, half_pow. split; lia.
  - exists (bits t). pose proof (bits_pos t). rewrite max_int_eq, S, modulus_pow. split; lia.
Qed.

Lemma nonneg_in_range : forall t z, 0 <= z -> (in_range t z <-> z < max_int t + 1).
Proof.
  intros t z Hz. unfold in_range. pose proof (half_pos t).
  assert (min_int t <= 0) by (rewrite min_int_eq; destruct (signed t); lia). lia.
Qed.

Lemma and_nowrap : forall t a b,
  0 <= a -> 0 <= b -> in_range t a -> in_range t b -> and_ t a b = Z.land a b.
Proof.
  intros t a b Ha Hb Ra Rb. apply wrap_id.
  destruct (nonneg_range_pow t) as [k [Hk E]].
  apply nonneg_in_range in Ra; [|assumption].
  assert (La : a < 2 ^ k) by lia.
  pose proof (land_bound a b k Hk (conj Ha La) Hb).
  apply nonneg_in_range; lia.
Qed.

(* a & mask, for any non-negative in-range mask, is bounded by the mask. *)
Lemma and_nowrap_r : forall t a b,
  0 <= b -> in_range t b -> 0 <= a -> and_ t a b = Z.land a b.
Proof.
  intros t a b Hb Rb Ha. apply wrap_id.
  destruct (nonneg_range_pow t) as [k [Hk E]].
  apply nonneg_in_range in Rb; [|assumption].
  assert (Lb : b < 2 ^ k) by lia.
  pose proof (land_bound b a k Hk (conj Hb Lb) Ha) as B.
  rewrite Z.land_comm in B.
  apply nonneg_in_range; lia.
Qed.

Lemma or_nowrap : forall t a b,
  0 <= a -> 0 <= b -> in_range t a -> in_range t b -> or_ t a b = Z.lor a b.
Proof.
  intros t a b Ha Hb Ra Rb. apply wrap_id.
  destruct (nonneg_range_pow t) as [k [Hk E]].
  apply nonneg_in_range in Ra; [|assumption].
  apply nonneg_in_range in Rb; [|assumption].
  assert (La : a < 2 ^ k) by lia. assert (Lb : b < 2 ^ k) by lia.
  pose proof (lor_bound a b k Hk (conj Ha La) (conj Hb Lb)).
  apply nonneg_in_range; lia.
Qed.

Lemma xor_nowrap : forall t a b,
  0 <= a -> 0 <= b -> in_range t a -> in_range t b -> xor t a b = Z.lxor a b.
Proof.
  intros t a b Ha Hb Ra Rb. apply wrap_id.
  destruct (nonneg_range_pow t) as [k [Hk E]].
  apply nonneg_in_range in Ra; [|assumption].
  apply nonneg_in_range in Rb; [|assumption].
  assert (La : a < 2 ^ k) by lia. assert (Lb : b < 2 ^ k) by lia.
  pose proof (lxor_bound a b k Hk (conj Ha La) (conj Hb Lb)).
  apply nonneg_in_range; lia.
Qed.

Lemma andnot_nowrap : forall t a b,
  0 <= a -> in_range t a -> andnot t a b = Z.ldiff a b.
Proof.
  intros t a b Ha Ra. apply wrap_id.
  destruct (nonneg_range_pow t) as [k [Hk E]].
  apply nonneg_in_range in Ra; [|assumption].
  assert (La : a < 2 ^ k) by lia.
  pose proof (ldiff_bound a b k Hk (conj Ha La)).
  apply nonneg_in_range; lia.
Qed.

(* Unsigned corollaries in the form asked for by proofs about generated code:
   in-range values of an unsigned type are non-negative. *)
Lemma unsigned_nonneg : forall t z, signed t = false -> in_range t z -> 0 <= z.
Proof. intros t z S [H _]. rewrite min_int_eq, S in H. assumption. Qed.

Lemma and_unsigned : forall t a b, signed t = false ->
  in_range t a -> in_range t b -> and_ t a b = Z.land a b.
Proof. intros t a b S Ra Rb. apply and_nowrap; eauto using unsigned_nonneg. Qed.
Lemma or_unsigned : forall t a b, signed t = false ->
  in_range t a -> in_range t b -> or_ t a b = Z.lor a b.
Proof. intros t a b S Ra Rb. apply or_nowrap; eauto using unsigned_nonneg. Qed.
Lemma xor_unsigned : forall t a b, signed t = false ->
  in_range t a -> in_range t b -> xor t a b = Z.lxor a b.
Proof. intros t a b S Ra Rb. apply xor_nowrap; eauto using unsigned_nonneg. Qed.
Lemma andnot_unsigned : forall t a b, signed t = false ->
  in_range t a -> andnot t a b = Z.ldiff a b.
Proof. intros t a b S Ra. apply andnot_nowrap; eauto using unsigned_nonneg. Qed.
Lemma shr_unsigned : forall t x n, signed t = false ->
  0 <= n < bits t -> in_range t x -> shr t x n = Z.shiftr x n.
Proof. intros. apply shr_nowrap; assumption. Qed.

(* Bounds that make chains of masks and shifts easy: the result of a mask is
   bounded by the mask, the result of an or by the next power of two. *)
Lemma land_le_r : forall a b, 0 <= b -> 0 <= Z.land a b <= b.
Proof.
  intros a b Hb. apply Z.ldiff_le; [assumption|].
  apply Z.bits_inj'. intros i Hi.
  rewrite Z.ldiff_spec, Z.land_spec, Z.bits_0.
  destruct (Z.testbit a i), (Z.testbit b i); reflexivity.
Qed.

Lemma land_le_l : forall a b, 0 <= a -> 0 <= Z.land a b <= a.
Proof. intros a b Ha. rewrite Z.land_comm. apply land_le_r; assumption. Qed.

(* ------------------------------------------------------------------ *)
(** * Intrinsics *)

Lemma bitlen_spec : forall x, 0 < x -> 2 ^ (bitlen x - 1) <= x < 2 ^ bitlen x.
Proof.
  intros x Hx. unfold bitlen.
  destruct (Z.leb_spec x 0); [lia|].
  replace (Z.log2 x + 1 - 1) with (Z.log2 x) by lia.
  replace (Z.log2 x + 1) with (Z.succ (Z.log2 x)) by lia.
  apply Z.log2_spec; assumption.
Qed.

Lemma len64_spec : forall x, 0 < x -> 2 ^ (len64 x - 1) <= x < 2 ^ len64 x.
Proof. exact bitlen_spec. Qed.

Lemma bitlen_0 : bitlen 0 = 0.
Proof. reflexivity. Qed.

Lemma bitlen_nonneg : forall x, 0 <= bitlen x.
Proof.
  intro x. unfold bitlen. destruct (x <=? 0); [lia|].
  pose proof (Z.log2_nonneg x). lia.
Qed.

Lemma bitlen_le : forall x n, 0 <= n -> 0 <= x < 2 ^ n -> 0 <= bitlen x <= n.
Proof.
  intros x n Hn [Hx Hx']. split; [apply bitlen_nonneg|].
  unfold bitlen. destruct (Z.leb_spec x 0); [lia|].
  assert (Z.log2 x < n) by (apply Z.log2_lt_pow2; lia). lia.
Qed.

Lemma len64_range : forall x, in_range U64 x -> 0 <= len64 x <= 64.
Proof. intros x H. apply bitlen_le; [lia|]. unfold_range. change (2 ^ 64) with 18446744073709551616. lia. Qed.
Lemma len32_range : forall x, in_range U32 x -> 0 <= len32 x <= 32.
Proof. intros x H. apply bitlen_le; [lia|]. unfold_range. change (2 ^ 32) with 4294967296. lia. Qed.
Lemma len16_range : forall x, in_range U16 x -> 0 <= len16 x <= 16.
Proof. intros x H. apply bitlen_le; [lia|]. unfold_range. change (2 ^ 16) with 65536. lia. Qed.
Lemma len8_range : forall x, in_range U8 x -> 0 <= len8 x <= 8.
Proof. intros x H. apply bitlen_le; [lia|]. unfold_range. change (2 ^ 8) with 256. lia. Qed.

Lemma bitlen_mono : forall x y, 0 <= x <= y -> bitlen x <= bitlen y.
Proof.
  intros x y [Hx Hxy]. unfold bitlen.
  destruct (Z.leb_spec x 0), (Z.leb_spec y 0); try lia.
  - pose proof (Z.log2_nonneg y). lia.
  - pose proof (Z.log2_le_mono x y Hxy). lia.
Qed.

Lemma min_range : forall t a b, in_range t a -> in_range t b -> in_range t (Z.min a b).
Proof. unfold in_range. intros. lia. Qed.
Lemma max_range : forall t a b, in_range t a -> in_range t b -> in_range t (Z.max a b).
Proof. unfold in_range. intros. lia. Qed.

Lemma index_ok_spec : forall (A : Type) (l : list A) i,
  index_ok l i = true <-> 0 <= i < Z.of_nat (length l).
Proof.
  intros. unfold index_ok. rewrite andb_true_iff, Z.leb_le, Z.ltb_lt. tauto.
Qed.

Lemma quo_ok_spec : forall b, quo_ok b = true <-> b <> 0.
Proof.
  intro b. unfold quo_ok. destruct (Z.eqb_spec b 0); simpl; split; intros; try lia; congruence.
Qed.

Lemma list_eqb_spec : forall a b, list_eqb a b = true <-> a = b.
Proof.
  induction a as [|x a IH]; destruct b as [|y b]; simpl; split; intro H;
    try reflexivity; try discriminate.
  - apply andb_true_iff in H. destruct H as [H1 H2].
    apply Z.eqb_eq in H1. apply IH in H2. congruence.
  - inversion H; subst. apply andb_true_iff. split; [apply Z.eqb_refl | apply IH; reflexivity].
Qed.

(* ------------------------------------------------------------------ *)
(** * Sanity checks by computation (two's-complement corner cases) *)

Example ex_add_i8 : add I8 127 1 = -128. Proof. reflexivity. Qed.
Example ex_sub_u8 : sub U8 0 1 = 255. Proof. reflexivity. Qed.
Example ex_mul_i32 : mul I32 65536 65536 = 0. Proof. reflexivity. Qed.
Example ex_quo_neg : quo I64 (-7) 2 = -3. Proof. reflexivity. Qed.
Example ex_rem_neg : rem I64 (-7) 2 = -1. Proof. reflexivity. Qed.
Example ex_quo_min : quo I8 (-128) (-1) = -128. Proof. reflexivity. Qed.
Example ex_rem_min : rem I8 (-128) (-1) = 0. Proof. reflexivity. Qed.
Example ex_shl_i8 : shl I8 1 7 = -128. Proof. reflexivity. Qed.
Example ex_shl_big : shl I8 (-1) 8 = 0. Proof. reflexivity. Qed.
Example ex_shr_neg : shr I8 (-128) 1 = -64. Proof. reflexivity. Qed.
Example ex_shr_big : shr I8 (-1) 200 = -1. Proof. reflexivity. Qed.
Example ex_shr_ubig : shr U8 255 8 = 0. Proof. reflexivity. Qed.
Example ex_not_u8 : not_ U8 5 = 250. Proof. reflexivity. Qed.
Example ex_not_i8 : not_ I8 5 = -6. Proof. reflexivity. Qed.
Example ex_neg_min : neg I8 (-128) = -128. Proof. reflexivity. Qed.
Example ex_neg_u : neg U8 1 = 255. Proof. reflexivity. Qed.
Example ex_conv : conv I64 U8 (-1) = 255. Proof. reflexivity. Qed.
Example ex_conv2 : conv U64 I64 18446744073709551615 = -1. Proof. reflexivity. Qed.
Example ex_and_neg : and_ I8 (-1) 15 = 15. Proof. reflexivity. Qed.
Example ex_andnot : andnot U8 255 15 = 240. Proof. reflexivity. Qed.
Example ex_len : len64 255 = 8 /\ len64 256 = 9 /\ len64 0 = 0. Proof. repeat split. Qed.
Example ex_tz : trailing_zeros64 8 = 3 /\ trailing_zeros64 0 = 64 /\ trailing_zeros8 0 = 8.
Proof. repeat split. Qed.

Print Assumptions wrap_id.
Print Assumptions wrap_range.
Print Assumptions shr_nowrap.
Print Assumptions and_nowrap.
Print Assumptions len64_spec.
