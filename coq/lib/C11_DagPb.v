(** dag-pb wire format as boxo produces and reads it (definitions only; the
    proofs are in proofs/P_C11_codec.v and proofs/P_C11_sort.v).

    Transcribed from
      google.golang.org/protobuf/encoding/protowire  AppendVarint, ConsumeVarint,
                                                     ConsumeTag, ConsumeBytes
      github.com/ipld/go-codec-dagpb  marshal.go AppendEncode, unmarshal.go DecodeBytes/unmarshalLink
      github.com/ipfs/go-cid          CidFromBytes (what the link decoder accepts as Hash)
      github.com/multiformats/go-varint FromUvarint (minimal, at most 9 bytes)
      boxo ipld/merkledag/coding.go   marshalImmutable (Name and Tsize always written,
                                      Data written iff non-nil), fromImmutableNode
      boxo ipld/merkledag/node.go     sortLinks (stable, bytewise by name)

    Bytes are [Z] in 0..255, sizes and lengths are unbounded [Z]; the bounds of
    the Go types (uint64 varints, 10-byte limit) are written out explicitly. *)
From Coq Require Import List ZArith Bool.
Import ListNotations.
Open Scope Z_scope.

Definition bytes := list Z.
Definition len {A} (b : list A) : Z := Z.of_nat (length b).

(** ---------- protowire varints ---------- *)

(** AppendVarint.  The fuel [Z.log2 n] is always enough (P_C11_codec.varint_f_fuel). *)
Fixpoint varint_f (fuel : nat) (n : Z) : bytes :=
  match fuel with
  | O => [n]
  | S f => if n <? 128 then [n] else (n mod 128 + 128) :: varint_f f (n / 128)
  end.
Definition varint (n : Z) : bytes := varint_f (Z.to_nat (Z.log2 n)) n.

(** ConsumeVarint: at most 10 bytes, the 10th must be 0 or 1; non-minimal forms accepted. *)
Fixpoint uvarint_f (fuel : nat) (bs : bytes) : option (Z * bytes) :=
  match fuel with
  | O => None
  | S f =>
      match bs with
      | [] => None
      | b :: r =>
          if b <? 128 then
            match f with
            | O => if b <? 2 then Some (b, r) else None
            | S _ => Some (b, r)
            end
          else
            match uvarint_f f r with
            | Some (v, r') => Some (b - 128 + 128 * v, r')
            | None => None
            end
      end
  end.
Definition uvarint (bs : bytes) : option (Z * bytes) := uvarint_f 10 bs.

(** ConsumeTag: (field number, wire type, rest) *)
Definition take_tag (bs : bytes) : option (Z * Z * bytes) :=
  match uvarint bs with
  | Some (v, r) =>
      let num := v / 8 in
      if (2147483647 <? num) || (num <? 1) then None else Some (num, v mod 8, r)
  | None => None
  end.

(** ConsumeBytes *)
Definition take_bytes (bs : bytes) : option (bytes * bytes) :=
  match uvarint bs with
  | Some (m, r) =>
      if len r <? m then None
      else Some (firstn (Z.to_nat m) r, skipn (Z.to_nat m) r)
  | None => None
  end.

(** ---------- CIDs as the link decoder sees them ---------- *)

(** go-varint FromUvarint: at most 9 bytes, minimal encoding *)
Fixpoint mvarint_f (fuel : nat) (first : bool) (bs : bytes) : option (Z * bytes) :=
  match fuel with
  | O => None
  | S f =>
      match bs with
      | [] => None
      | b :: r =>
          if b <? 128 then
            if (b =? 0) && negb first then None else Some (b, r)
          else
            match mvarint_f f false r with
            | Some (v, r') => Some (b - 128 + 128 * v, r')
            | None => None
            end
      end
  end.
Definition mvarint (bs : bytes) := mvarint_f 9 true bs.

(** cid.CidFromBytes: the CID a byte string starts with (trailing bytes are ignored
    by the dag-pb link decoder, which drops the consumed length). *)
Definition cid_parse (d : bytes) : option bytes :=
  match d with
  | 18 :: 32 :: _ :: _ => if len d <? 34 then None else Some (firstn 34 d)
  | _ =>
      match mvarint d with
      | Some (vers, r1) =>
          if negb (vers =? 1) then None else
          match mvarint r1 with
          | Some (_, r2) =>
              if len r2 <? 2 then None else
              match mvarint r2 with
              | Some (_, r3) =>
                  match mvarint r3 with
                  | Some (dl, r4) =>
                      if (2147483647 <? dl) || (len r4 <? dl) then None
                      else Some (firstn (Z.to_nat (len d - len r4 + dl)) d)
                  | None => None
                  end
              | None => None
              end
          | None => None
          end
      | None => None
      end
  end.

(** a byte string that is exactly one CID *)
Definition cid_valid (c : bytes) : Prop := cid_parse c = Some c.

(** ---------- links, stable sort by name ---------- *)

Record link := mkLink { l_name : bytes; l_size : Z; l_cid : bytes }.

(** strings.Compare(a, b) < 0 : bytewise lexicographic *)
Fixpoint bytes_ltb (a b : bytes) : bool :=
  match a, b with
  | _, [] => false
  | [], _ :: _ => true
  | x :: a', y :: b' => if x <? y then true else if y <? x then false else bytes_ltb a' b'
  end.

Fixpoint bytes_eqb (a b : bytes) : bool :=
  match a, b with
  | [], [] => true
  | x :: a', y :: b' => (x =? y) && bytes_eqb a' b'
  | _, _ => false
  end.

(** stable insertion: [x] goes before the first element whose name is not smaller *)
Fixpoint insert_link (x : link) (l : list link) : list link :=
  match l with
  | [] => [x]
  | y :: r => if bytes_ltb (l_name y) (l_name x) then y :: insert_link x r else x :: y :: r
  end.
(** slices.SortStableFunc(links, strings.Compare on Name) *)
Definition sort_links (l : list link) : list link := fold_right insert_link [] l.

Definition name_is (k : bytes) (l : link) : bool := bytes_eqb (l_name l) k.
Definition name_le (x y : link) : Prop := bytes_ltb (l_name y) (l_name x) = false.

(** ---------- encoder (go-codec-dagpb AppendEncode on what marshalImmutable builds) ---------- *)

Definition enc_field (tag : Z) (b : bytes) : bytes := tag :: varint (len b) ++ b.

(** Hash (field 1), Name (field 2, always present), Tsize (field 3, always present) *)
Definition enc_link_body (l : link) : bytes :=
  enc_field 10 (l_cid l) ++ enc_field 18 (l_name l) ++ 24 :: varint (l_size l).
Definition enc_link (l : link) : bytes := enc_field 18 (enc_link_body l).

(** Links (field 2) first, then Data (field 1) iff the data slice is non-nil *)
Definition encode (ls : list link) (d : option bytes) : bytes :=
  flat_map enc_link ls ++ match d with Some x => enc_field 10 x | None => [] end.

(** ---------- decoder (go-codec-dagpb DecodeBytes + boxo fromImmutableNode) ---------- *)

Definition is_some {A} (o : option A) : bool := match o with Some _ => true | None => false end.
Definition odefault {A} (d : A) (o : option A) : A := match o with Some x => x | None => d end.

(** unmarshalLink: Hash, Name, Tsize in this order, each at most once, Hash required.
    fromImmutableNode projects an absent Name to "" and an absent Tsize to 0. *)
Fixpoint dec_link_f (fuel : nat) (bs : bytes) (h n : option bytes) (t : option Z) : option link :=
  match fuel with
  | O => None
  | S f =>
      match bs with
      | [] => match h with
              | Some c => Some (mkLink (odefault [] n) (odefault 0 t) c)
              | None => None
              end
      | _ =>
          match take_tag bs with
          | None => None
          | Some (num, wt, r) =>
              if num =? 1 then
                if is_some h || is_some n || is_some t then None
                else if negb (wt =? 2) then None
                else match take_bytes r with
                     | None => None
                     | Some (chunk, r') =>
                         match cid_parse chunk with
                         | None => None
                         | Some c => dec_link_f f r' (Some c) n t
                         end
                     end
              else if num =? 2 then
                if is_some n || is_some t then None
                else if negb (wt =? 2) then None
                else match take_bytes r with
                     | None => None
                     | Some (chunk, r') => dec_link_f f r' h (Some chunk) t
                     end
              else if num =? 3 then
                if is_some t then None
                else if negb (wt =? 0) then None
                else match uvarint r with
                     | None => None
                     | Some (v, r') => dec_link_f f r' h n (Some v)
                     end
              else None
          end
      end
  end.
Definition dec_link (bs : bytes) : option link := dec_link_f (S (length bs)) bs None None None.

(** DecodeBytes: Data (1) and Links (2) in either order, one contiguous run of
    Links, at most one Data; wire type checked before the field number.
    [acc] = links so far (reversed), [open] = the Links list assembler is open. *)
Fixpoint dec_node_f (fuel : nat) (bs : bytes) (acc : list link) (open have_links : bool)
         (d : option bytes) : option (option bytes * list link) :=
  match fuel with
  | O => None
  | S f =>
      match bs with
      | [] => Some (d, rev acc)
      | _ =>
          match take_tag bs with
          | None => None
          | Some (num, wt, r) =>
              if negb (wt =? 2) then None
              else if num =? 1 then
                if is_some d then None
                else match take_bytes r with
                     | None => None
                     | Some (chunk, r') => dec_node_f f r' acc false have_links (Some chunk)
                     end
              else if num =? 2 then
                match take_bytes r with
                | None => None
                | Some (chunk, r') =>
                    if negb open && have_links then None
                    else match dec_link chunk with
                         | None => None
                         | Some l => dec_node_f f r' (l :: acc) true true d
                         end
                end
              else None
          end
      end
  end.
Definition decode (bs : bytes) : option (option bytes * list link) :=
  dec_node_f (S (length bs)) bs [] false false None.

(** ---------- boolean equalities used by the correspondence checks ---------- *)
Definition link_eqb (a b : link) : bool :=
  bytes_eqb (l_name a) (l_name b) && (l_size a =? l_size b) && bytes_eqb (l_cid a) (l_cid b).
Fixpoint list_eqb {A} (eqb : A -> A -> bool) (l1 l2 : list A) : bool :=
  match l1, l2 with
  | [], [] => true
  | a :: r1, b :: r2 => eqb a b && list_eqb eqb r1 r2
  | _, _ => false
  end.
Definition option_eqb {A} (eqb : A -> A -> bool) (a b : option A) : bool :=
  match a, b with
  | None, None => true
  | Some x, Some y => eqb x y
  | _, _ => false
  end.
