(** Lexicographic total (pre)orders given by three-way comparison functions,
    selection of a maximum by a linear scan, and permutation invariance of what
    is selected.

    A comparison [cmp : A -> A -> comparison] is a total preorder ([tpo]) when it
    is reflexive, antisymmetric in the three-way sense ([cmp b a] is the opposite
    of [cmp a b]), transitive on [Lt] and when [Eq] is a congruence.  It is
    [strict] (a total order) when [Eq] means Leibniz equality.  Products and lists
    are ordered lexicographically and inherit both notions.

    [best cmp cur l] is the linear scan used by "keep the current candidate unless
    the next element is strictly greater" loops; [best_idx] is the same loop
    returning the index, as index-based implementations do. *)
From Coq Require Import List ZArith Bool Lia Permutation.
Import ListNotations.

Section Cmp.
  Context {A : Type}.
  Variable cmp : A -> A -> comparison.

  Record tpo : Prop := {
    tpo_refl : forall a, cmp a a = Eq;
    tpo_sym : forall a b, cmp b a = CompOpp (cmp a b);
    tpo_lt_trans : forall a b c, cmp a b = Lt -> cmp b c = Lt -> cmp a c = Lt;
    tpo_eq_l : forall a b c, cmp a b = Eq -> cmp a c = cmp b c
  }.

  Definition strict : Prop := forall a b, cmp a b = Eq -> a = b.

  Hypothesis T : tpo.

  Lemma tpo_eq_r : forall a b c, cmp a b = Eq -> cmp c a = cmp c b.
  Proof.
    intros a b c Hab. rewrite (tpo_sym T a c), (tpo_sym T b c).
    f_equal. apply (tpo_eq_l T); exact Hab.
  Qed.

  Lemma tpo_eq_sym : forall a b, cmp a b = Eq -> cmp b a = Eq.
  Proof. intros a b H. rewrite (tpo_sym T a b), H. reflexivity. Qed.

  Lemma tpo_eq_trans : forall a b c, cmp a b = Eq -> cmp b c = Eq -> cmp a c = Eq.
  Proof. intros a b c Hab Hbc. rewrite (tpo_eq_l T a b c Hab). exact Hbc. Qed.

  Lemma tpo_gt_lt : forall a b, cmp a b = Gt <-> cmp b a = Lt.
  Proof.
    intros a b. rewrite (tpo_sym T a b). destruct (cmp a b); cbn; split; congruence.
  Qed.

  (** [le a b]: a is not strictly greater than b *)
  Definition le (a b : A) : Prop := cmp a b <> Gt.

  Lemma le_refl : forall a, le a a.
  Proof. intros a. unfold le. rewrite (tpo_refl T). discriminate. Qed.

  Lemma le_total : forall a b, le a b \/ le b a.
  Proof.
    intros a b. unfold le. rewrite (tpo_sym T a b).
    destruct (cmp a b); cbn; (left; discriminate) || (right; discriminate).
  Qed.

  Lemma le_trans : forall a b c, le a b -> le b c -> le a c.
  Proof.
    unfold le. intros a b c Hab Hbc.
    destruct (cmp a b) eqn:Eab; [| |congruence].
    - rewrite (tpo_eq_l T a b c Eab). exact Hbc.
    - destruct (cmp b c) eqn:Ebc; [| |congruence].
      + rewrite <- (tpo_eq_r b c a Ebc). rewrite Eab. discriminate.
      + rewrite (tpo_lt_trans T a b c Eab Ebc). discriminate.
  Qed.

  Lemma le_antisym : forall a b, le a b -> le b a -> cmp a b = Eq.
  Proof.
    unfold le. intros a b Hab Hba. rewrite (tpo_sym T a b) in Hba.
    destruct (cmp a b); cbn in *; congruence.
  Qed.

  (** ---- the linear scan ---- *)
  Definition pick (cur x : A) : A :=
    match cmp cur x with Lt => x | _ => cur end.

  Definition best (cur : A) (l : list A) : A := fold_left pick l cur.

  Lemma best_cons : forall cur x l, best cur (x :: l) = best (pick cur x) l.
  Proof. reflexivity. Qed.
  Lemma best_nil : forall cur, best cur [] = cur.
  Proof. reflexivity. Qed.

  Lemma pick_ge_l : forall cur x, le cur (pick cur x).
  Proof.
    intros cur x. unfold pick, le. destruct (cmp cur x) eqn:E.
    - rewrite (tpo_refl T). discriminate.
    - rewrite E. discriminate.
    - rewrite (tpo_refl T). discriminate.
  Qed.

  Lemma pick_ge_r : forall cur x, le x (pick cur x).
  Proof.
    intros cur x. unfold pick, le. destruct (cmp cur x) eqn:E.
    - rewrite (tpo_eq_sym cur x E). discriminate.
    - rewrite (tpo_refl T). discriminate.
    - apply tpo_gt_lt in E. rewrite E. discriminate.
  Qed.

  Lemma best_in : forall l cur, best cur l = cur \/ In (best cur l) l.
  Proof.
    induction l as [|x l IH]; intros cur; [rewrite best_nil | rewrite best_cons].
    - left; reflexivity.
    - destruct (IH (pick cur x)) as [H|H].
      + rewrite H. unfold pick. destruct (cmp cur x); cbn; auto.
      + right; right; exact H.
  Qed.

  Lemma best_ge_cur : forall l cur, le cur (best cur l).
  Proof.
    induction l as [|x l IH]; intros cur; [rewrite best_nil | rewrite best_cons].
    - apply le_refl.
    - eapply le_trans; [apply pick_ge_l | apply IH].
  Qed.

  Lemma best_max : forall l cur x, x = cur \/ In x l -> le x (best cur l).
  Proof.
    induction l as [|y l IH]; intros cur x [H|H];
      [rewrite best_nil | rewrite best_nil | rewrite best_cons | rewrite best_cons].
    - subst. apply le_refl.
    - destruct H.
    - subst. eapply le_trans; [apply pick_ge_l | apply best_ge_cur].
    - destruct H as [H|H].
      + subst. eapply le_trans; [apply pick_ge_r | apply best_ge_cur].
      + apply IH. right; exact H.
  Qed.

  (** a maximum of a list is unique up to [Eq] *)
  Lemma max_unique : forall (l l' : list A) m m',
    (forall x, In x l <-> In x l') ->
    In m l -> (forall x, In x l -> le x m) ->
    In m' l' -> (forall x, In x l' -> le x m') ->
    cmp m m' = Eq.
  Proof.
    intros l l' m m' Hiff Hm Hmax Hm' Hmax'.
    apply le_antisym.
    - apply Hmax'. apply Hiff. exact Hm.
    - apply Hmax. apply Hiff. exact Hm'.
  Qed.

  Theorem best_perm : forall c l c' l',
    Permutation (c :: l) (c' :: l') -> cmp (best c l) (best c' l') = Eq.
  Proof.
    intros c l c' l' HP.
    apply (max_unique (c :: l) (c' :: l')).
    - intros x; split; intros Hx.
      + eapply Permutation_in; [exact HP | exact Hx].
      + eapply Permutation_in; [apply Permutation_sym; exact HP | exact Hx].
    - destruct (best_in l c) as [H|H]; [left; symmetry; exact H | right; exact H].
    - intros x [Hx|Hx]; apply best_max; [left; symmetry; exact Hx | right; exact Hx].
    - destruct (best_in l' c') as [H|H]; [left; symmetry; exact H | right; exact H].
    - intros x [Hx|Hx]; apply best_max; [left; symmetry; exact Hx | right; exact Hx].
  Qed.

  Corollary best_perm_strict : strict -> forall c l c' l',
    Permutation (c :: l) (c' :: l') -> best c l = best c' l'.
  Proof. intros S c l c' l' HP. apply S. apply best_perm; exact HP. Qed.

  (** ---- the same scan, index-based: [i] is the index of [cur], [j] the index of
      the head of the remaining list ---- *)
  Fixpoint best_idx (cur : A) (i j : nat) (l : list A) : nat :=
    match l with
    | [] => i
    | x :: r =>
        match cmp cur x with
        | Lt => best_idx x j (S j) r
        | _ => best_idx cur i (S j) r
        end
    end.

  Lemma best_idx_nth : forall l pre cur i d,
    nth i pre d = cur -> i < length pre ->
    nth (best_idx cur i (length pre) l) (pre ++ l) d = best cur l /\
    best_idx cur i (length pre) l < length (pre ++ l).
  Proof.
    induction l as [|x l IH]; intros pre cur i d Hn Hi; cbn [best_idx best fold_left].
    - rewrite app_nil_r. split; [exact Hn | exact Hi].
    - assert (Hlen : length (pre ++ [x]) = S (length pre))
        by (rewrite app_length; cbn; lia).
      assert (Happ : pre ++ x :: l = (pre ++ [x]) ++ l)
        by (rewrite <- app_assoc; reflexivity).
      unfold pick. destruct (cmp cur x) eqn:E; rewrite Happ, <- Hlen.
      + apply IH; [rewrite app_nth1 by exact Hi; exact Hn | rewrite Hlen; lia].
      + apply IH; [| rewrite Hlen; lia].
        rewrite app_nth2 by lia. rewrite Nat.sub_diag. reflexivity.
      + apply IH; [rewrite app_nth1 by exact Hi; exact Hn | rewrite Hlen; lia].
  Qed.
End Cmp.

Arguments tpo {A} cmp.
Arguments strict {A} cmp.
Arguments le {A} cmp a b.
Arguments best {A} cmp cur l.
Arguments best_idx {A} cmp cur i j l.

(** ---------- pulling an order back along a key function ---------- *)
Section Pullback.
  Context {A K : Type}.
  Variable f : A -> K.
  Variable c : K -> K -> comparison.

  Definition on_key (a b : A) : comparison := c (f a) (f b).

  Lemma on_key_tpo : tpo c -> tpo on_key.
  Proof.
    intros TC. unfold on_key. split.
    - intros a. apply (tpo_refl _ TC).
    - intros a b. apply (tpo_sym _ TC).
    - intros a b d. apply (tpo_lt_trans _ TC).
    - intros a b d. apply (tpo_eq_l _ TC).
  Qed.

  Lemma on_key_eq : strict c -> forall a b, on_key a b = Eq -> f a = f b.
  Proof. intros SC a b H. apply SC. exact H. Qed.
End Pullback.

(** ---------- lexicographic product ---------- *)
Section Prod.
  Context {A B : Type}.
  Variable ca : A -> A -> comparison.
  Variable cb : B -> B -> comparison.

  Definition lex_pair (x y : A * B) : comparison :=
    match ca (fst x) (fst y) with
    | Eq => cb (snd x) (snd y)
    | r => r
    end.

  Lemma lex_pair_tpo : tpo ca -> tpo cb -> tpo lex_pair.
  Proof.
    intros TA TB. split.
    - intros [a b]. unfold lex_pair; cbn. rewrite (tpo_refl _ TA). apply (tpo_refl _ TB).
    - intros [a b] [a' b']. unfold lex_pair; cbn.
      rewrite (tpo_sym _ TA a a'). destruct (ca a a'); cbn; try reflexivity.
      apply (tpo_sym _ TB).
    - intros [a1 b1] [a2 b2] [a3 b3]. unfold lex_pair; cbn.
      destruct (ca a1 a2) eqn:E12; try discriminate.
      + rewrite (tpo_eq_l _ TA a1 a2 a3 E12).
        destruct (ca a2 a3) eqn:E23; try discriminate; try reflexivity.
        apply (tpo_lt_trans _ TB).
      + intros _. destruct (ca a2 a3) eqn:E23; try discriminate.
        * rewrite <- (tpo_eq_r _ TA a2 a3 a1 E23), E12. reflexivity.
        * rewrite (tpo_lt_trans _ TA a1 a2 a3 E12 E23). reflexivity.
    - intros [a1 b1] [a2 b2] [a3 b3]. unfold lex_pair; cbn.
      destruct (ca a1 a2) eqn:E12; try discriminate.
      intros Hb. rewrite (tpo_eq_l _ TA a1 a2 a3 E12).
      destruct (ca a2 a3); try reflexivity. apply (tpo_eq_l _ TB); exact Hb.
  Qed.

  Lemma lex_pair_strict : strict ca -> strict cb -> strict lex_pair.
  Proof.
    intros SA SB [a b] [a' b']. unfold lex_pair; cbn.
    destruct (ca a a') eqn:E; try discriminate.
    intros Hb. apply SA in E. apply SB in Hb. subst. reflexivity.
  Qed.
End Prod.

(** ---------- lexicographic order on lists (a proper prefix is smaller) ---------- *)
Section ListLex.
  Context {A : Type}.
  Variable c : A -> A -> comparison.

  Fixpoint lex_list (l l' : list A) : comparison :=
    match l, l' with
    | [], [] => Eq
    | [], _ :: _ => Lt
    | _ :: _, [] => Gt
    | a :: r, a' :: r' =>
        match c a a' with
        | Eq => lex_list r r'
        | x => x
        end
    end.

  Lemma lex_list_refl : tpo c -> forall l, lex_list l l = Eq.
  Proof.
    intros TC. induction l as [|x l IH]; cbn; [reflexivity|].
    rewrite (tpo_refl _ TC). exact IH.
  Qed.

  Lemma lex_list_sym : tpo c -> forall l l', lex_list l' l = CompOpp (lex_list l l').
  Proof.
    intros TC. induction l as [|x l IH]; intros [|y l']; cbn; try reflexivity.
    rewrite (tpo_sym _ TC x y). destruct (c x y); cbn; try reflexivity. apply IH.
  Qed.

  Lemma lex_list_lt_trans : tpo c -> forall l1 l2 l3,
    lex_list l1 l2 = Lt -> lex_list l2 l3 = Lt -> lex_list l1 l3 = Lt.
  Proof.
    intros TC. induction l1 as [|x l1 IH]; intros [|y l2] [|z l3]; cbn;
      try discriminate; try reflexivity.
    destruct (c x y) eqn:E12; try discriminate.
    - rewrite (tpo_eq_l _ TC x y z E12).
      destruct (c y z) eqn:E23; try discriminate; try reflexivity. apply IH.
    - intros _. destruct (c y z) eqn:E23; try discriminate.
      + rewrite <- (tpo_eq_r _ TC y z x E23), E12. reflexivity.
      + rewrite (tpo_lt_trans _ TC x y z E12 E23). reflexivity.
  Qed.

  Lemma lex_list_eq_l : tpo c -> forall l1 l2 l3,
    lex_list l1 l2 = Eq -> lex_list l1 l3 = lex_list l2 l3.
  Proof.
    intros TC. induction l1 as [|x l1 IH]; intros [|y l2] [|z l3]; cbn;
      try discriminate; try reflexivity.
    destruct (c x y) eqn:E12; try discriminate. intros Hr.
    rewrite (tpo_eq_l _ TC x y z E12). destruct (c y z); try reflexivity.
    apply IH; exact Hr.
  Qed.

  Lemma lex_list_tpo : tpo c -> tpo lex_list.
  Proof.
    intros TC. split.
    - apply lex_list_refl; exact TC.
    - apply lex_list_sym; exact TC.
    - apply lex_list_lt_trans; exact TC.
    - apply lex_list_eq_l; exact TC.
  Qed.

  Lemma lex_list_strict : strict c -> strict lex_list.
  Proof.
    intros SC. intros l. induction l as [|x l IH]; intros [|y l']; cbn;
      try discriminate; try reflexivity.
    destruct (c x y) eqn:E; try discriminate.
    intros Hr. apply SC in E. apply IH in Hr. subst. reflexivity.
  Qed.
End ListLex.

(** ---------- base orders ---------- *)
Lemma Zcompare_tpo : tpo Z.compare.
Proof.
  split.
  - apply Z.compare_refl.
  - intros a b. apply Z.compare_antisym.
  - intros a b c0 H1 H2. rewrite Z.compare_lt_iff in *. lia.
  - intros a b c0 H. apply Z.compare_eq in H. subst. reflexivity.
Qed.

Lemma Zcompare_strict : strict Z.compare.
Proof. intros a b. apply Z.compare_eq. Qed.

Definition bool_cmp (a b : bool) : comparison :=
  match a, b with
  | false, true => Lt
  | true, false => Gt
  | _, _ => Eq
  end.

Lemma bool_cmp_tpo : tpo bool_cmp.
Proof.
  split.
  - intros []; reflexivity.
  - intros [] []; reflexivity.
  - intros [] [] []; cbn; congruence.
  - intros [] [] []; cbn; congruence.
Qed.

Lemma bool_cmp_strict : strict bool_cmp.
Proof. intros [] []; cbn; congruence. Qed.
