(** Ipns.v — shared executable model of boxo's IPNS record handling
    (ipns/record.go, ipns/validation.go), used by C25 and C26.

    - the protobuf envelope [pbrec] (fields 1..9 of ipns/pb/record.proto, each with
      explicit presence, plus unknown fields), [marshal]/[unmarshal_pb] on top of
      [lib/Pb.v] (fields written in number order, unknown fields last; on parsing the
      last occurrence of a field wins, a known number with the wrong wire type is
      an unknown field);
    - the DAG-CBOR document as a list of entries ([lib/CborScalar.v]) with the
      accessors of record.go ([getBytesValue]/[getIntValue] and the typed ones);
    - [unmarshal_record], [extract_pk], [validate], [validate_with_name],
      [validator_validate] transcribed from the code, with the error classes the
      code distinguishes by sentinel errors.

    Everything outside boxo enters as section variables: public keys and their
    (un)marshalling, signature verification, SHA-256 (peer IDs), RFC3339 parsing.
    Definitions first, basic facts after the line; no axioms. *)
From Coq Require Import ZArith List Lia Bool String Ascii.
From V Require Import lib.Varint lib.Pb lib.CborScalar.
Import ListNotations.
Open Scope Z_scope.

Definition bytes : Type := list Z.

(** ASCII literals as bytes *)
Definition str (s : string) : bytes :=
  map (fun c => Z.of_N (N_of_ascii c)) (list_ascii_of_string s).

Definition kValue : bytes := Eval vm_compute in str "Value".
Definition kValidity : bytes := Eval vm_compute in str "Validity".
Definition kValidityType : bytes := Eval vm_compute in str "ValidityType".
Definition kSequence : bytes := Eval vm_compute in str "Sequence".
Definition kTTL : bytes := Eval vm_compute in str "TTL".
Definition sig_prefix : bytes := Eval vm_compute in str "ipns-signature:".
Definition reserved_keys : list bytes := [kValue; kValidity; kValidityType; kSequence; kTTL].

Definition max_record_size : Z := 10240.

(** ---------- protobuf envelope ---------- *)
Record pbrec := mkPb {
  p_value : option bytes;      (* 1 *)
  p_sigv1 : option bytes;      (* 2 *)
  p_vtype : option Z;          (* 3, enum = int32 *)
  p_validity : option bytes;   (* 4 *)
  p_seq : option Z;            (* 5, uint64 *)
  p_ttl : option Z;            (* 6, uint64 *)
  p_pubkey : option bytes;     (* 7 *)
  p_sigv2 : option bytes;      (* 8 *)
  p_data : option bytes;       (* 9 *)
  p_unknown : list field
}.

Definition pb_empty : pbrec := mkPb None None None None None None None None None [].

Definition oget (o : option bytes) : bytes := match o with Some b => b | None => [] end.
Definition olen (o : option bytes) : Z := blen (oget o).
Definition ozget (o : option Z) : Z := match o with Some v => v | None => 0 end.

Definition two32 : Z := 4294967296.
Definition two31 : Z := 2147483648.
(** [int32(v)] of a decoded varint *)
Definition to_i32 (v : Z) : Z := if v mod two32 <? two31 then v mod two32 else v mod two32 - two32.

Definition fbytes (num : Z) (o : option bytes) : list field :=
  match o with Some b => [(num, WBytes b)] | None => [] end.
Definition fvarint (num : Z) (o : option Z) : list field :=
  match o with Some v => [(num, WVarint (to_u64 v))] | None => [] end.

Definition to_fields (r : pbrec) : list field :=
  fbytes 1 (p_value r) ++ fbytes 2 (p_sigv1 r) ++ fvarint 3 (p_vtype r) ++
  fbytes 4 (p_validity r) ++ fvarint 5 (p_seq r) ++ fvarint 6 (p_ttl r) ++
  fbytes 7 (p_pubkey r) ++ fbytes 8 (p_sigv2 r) ++ fbytes 9 (p_data r) ++ p_unknown r.

(** proto.Marshal *)
Definition marshal (r : pbrec) : bytes := emit (to_fields r).
(** proto.Size *)
Definition pb_size (r : pbrec) : Z := blen (marshal r).

Definition set_field (r : pbrec) (f : field) : pbrec :=
  let unk := mkPb (p_value r) (p_sigv1 r) (p_vtype r) (p_validity r) (p_seq r) (p_ttl r)
                  (p_pubkey r) (p_sigv2 r) (p_data r) (p_unknown r ++ [f]) in
  match f with
  | (num, WBytes b) =>
      if num =? 1 then mkPb (Some b) (p_sigv1 r) (p_vtype r) (p_validity r) (p_seq r) (p_ttl r) (p_pubkey r) (p_sigv2 r) (p_data r) (p_unknown r)
      else if num =? 2 then mkPb (p_value r) (Some b) (p_vtype r) (p_validity r) (p_seq r) (p_ttl r) (p_pubkey r) (p_sigv2 r) (p_data r) (p_unknown r)
      else if num =? 4 then mkPb (p_value r) (p_sigv1 r) (p_vtype r) (Some b) (p_seq r) (p_ttl r) (p_pubkey r) (p_sigv2 r) (p_data r) (p_unknown r)
      else if num =? 7 then mkPb (p_value r) (p_sigv1 r) (p_vtype r) (p_validity r) (p_seq r) (p_ttl r) (Some b) (p_sigv2 r) (p_data r) (p_unknown r)
      else if num =? 8 then mkPb (p_value r) (p_sigv1 r) (p_vtype r) (p_validity r) (p_seq r) (p_ttl r) (p_pubkey r) (Some b) (p_data r) (p_unknown r)
      else if num =? 9 then mkPb (p_value r) (p_sigv1 r) (p_vtype r) (p_validity r) (p_seq r) (p_ttl r) (p_pubkey r) (p_sigv2 r) (Some b) (p_unknown r)
      else unk
  | (num, WVarint v) =>
      if num =? 3 then mkPb (p_value r) (p_sigv1 r) (Some (to_i32 v)) (p_validity r) (p_seq r) (p_ttl r) (p_pubkey r) (p_sigv2 r) (p_data r) (p_unknown r)
      else if num =? 5 then mkPb (p_value r) (p_sigv1 r) (p_vtype r) (p_validity r) (Some v) (p_ttl r) (p_pubkey r) (p_sigv2 r) (p_data r) (p_unknown r)
      else if num =? 6 then mkPb (p_value r) (p_sigv1 r) (p_vtype r) (p_validity r) (p_seq r) (Some v) (p_pubkey r) (p_sigv2 r) (p_data r) (p_unknown r)
      else unk
  | _ => unk
  end.

(** proto.Unmarshal *)
Definition unmarshal_pb (bs : bytes) : option pbrec :=
  match parse bs with
  | Some fs => Some (fold_left set_field fs pb_empty)
  | None => None
  end.

(** ---------- the record: envelope + decoded DAG-CBOR node ---------- *)
Record record := mkRecord { r_pb : pbrec; r_node : list entry }.

Inductive err :=
| ERecordSize | EInvalidRecord | ESignature | EPkMismatch | EInvalidPk | ENoPk | EPkNotFound
| EExpired | EUnrecValidity | EInvalidValidity | EInvalidName | EOther.

Inductive result (A : Type) := Ok (a : A) | Err (e : err).
Arguments Ok {A} a.
Arguments Err {A} e.

(** UnmarshalRecord *)
Definition unmarshal_record (bs : bytes) : result record :=
  if max_record_size <? blen bs then Err ERecordSize else
  match unmarshal_pb bs with
  | None => Err EInvalidRecord
  | Some pb =>
      if olen (p_data pb) =? 0 then Err EInvalidRecord else
      match dec_map (oget (p_data pb)) with
      | None => Err EInvalidRecord
      | Some node => Ok (mkRecord pb node)
      end
  end.

(** getBytesValue / getIntValue: [None] = ErrInvalidRecord (missing or wrong kind;
    an unsigned above MaxInt64 is an Int node whose AsInt fails) *)
Definition get_bytes (k : bytes) (node : list entry) : option bytes :=
  match lookup k node with Some (CBytes b) => Some b | _ => None end.
Definition get_int (k : bytes) (node : list entry) : option Z :=
  match lookup k node with Some (CInt i) => Some i | _ => None end.

(** accessors of record.go *)
Definition acc_value (r : record) : option bytes := get_bytes kValue (r_node r).
Definition acc_validity_type (r : record) : option Z := get_int kValidityType (r_node r).
Definition acc_sequence (r : record) : option Z := option_map to_u64 (get_int kSequence (r_node r)).
Definition acc_ttl (r : record) : option Z := get_int kTTL (r_node r).
Definition acc_metadata (k : bytes) (r : record) : option cval :=
  if existsb (bytes_eqb k) reserved_keys then None else lookup k (r_node r).

(** names: peer IDs are multihashes, either the identity hash of a short key or
    SHA-256 of a long one *)
Inductive name := NInline (digest : bytes) | NHash (h : bytes).
Definition name_eqb (a b : name) : bool :=
  match a, b with
  | NInline x, NInline y => bytes_eqb x y
  | NHash x, NHash y => bytes_eqb x y
  | _, _ => false
  end.

Section Crypto.
  Variable pk : Type.                                (* ic.PubKey *)
  Variable parse_pk : bytes -> option pk.            (* ic.UnmarshalPublicKey *)
  Variable marshal_pk : pk -> bytes.                 (* ic.MarshalPublicKey *)
  Variable verify : pk -> bytes -> bytes -> bool.    (* pk.Verify(msg, sig): ok && err == nil *)
  Variable sha256 : bytes -> bytes.
  Variable parse_time : bytes -> option Z.           (* util.ParseRFC3339: instant in ns *)

  (** peer.IDFromPublicKey (inlining up to MaxInlineKeyLength = 42) *)
  Definition pid_of (k : pk) : name :=
    let b := marshal_pk k in
    if blen b <=? 42 then NInline b else NHash (sha256 b).

  (** Validity(): validity type must be EOL = 0, then the RFC3339 parse *)
  Definition acc_validity (r : record) : result Z :=
    match acc_validity_type r with
    | None => Err EInvalidRecord
    | Some t =>
        if t =? 0 then
          match get_bytes kValidity (r_node r) with
          | None => Err EInvalidRecord
          | Some v =>
              match parse_time v with
              | Some i => Ok i
              | None => Err EInvalidValidity
              end
          end
        else Err EUnrecValidity
    end.

  (** ExtractPublicKey *)
  Definition extract_pk (r : record) (n : name) : result pk :=
    if olen (p_pubkey (r_pb r)) =? 0 then
      match n with
      | NInline d => match parse_pk d with Some k => Ok k | None => Err EOther end
      | NHash _ => Err ENoPk
      end
    else
      match parse_pk (oget (p_pubkey (r_pb r))) with
      | None => Err EInvalidPk
      | Some k => if name_eqb n (pid_of k) then Ok k else Err EPkMismatch
      end.

  (** validateCborDataMatchesPbData ([true] = nil error) *)
  Definition match_pb (r : record) : bool :=
    let pb := r_pb r in
    match get_bytes kValue (r_node r) with
    | None => false
    | Some v =>
      bytes_eqb (oget (p_value pb)) v &&
      match get_bytes kValidity (r_node r) with
      | None => false
      | Some vl =>
        bytes_eqb (oget (p_validity pb)) vl &&
        match get_int kValidityType (r_node r) with
        | None => false
        | Some vt =>
          (ozget (p_vtype pb) =? vt) &&
          match get_int kSequence (r_node r) with
          | None => false
          | Some sq =>
            (ozget (p_seq pb) =? to_u64 sq) &&
            match get_int kTTL (r_node r) with
            | None => false
            | Some tl => ozget (p_ttl pb) =? to_u64 tl
            end
          end
        end
      end
    end.

  (** Validate(rec, pk) at time [now] (ns) *)
  Definition validate (now : Z) (r : record) (k : pk) : result unit :=
    let pb := r_pb r in
    if max_record_size <? pb_size pb then Err ERecordSize
    else if olen (p_sigv2 pb) =? 0 then Err ESignature
    else if olen (p_data pb) =? 0 then Err EInvalidRecord
    else if negb (verify k (sig_prefix ++ oget (p_data pb)) (oget (p_sigv2 pb))) then Err ESignature
    else if (negb (olen (p_sigv1 pb) =? 0) || negb (olen (p_value pb) =? 0)) && negb (match_pb r)
         then Err EOther
    else
      match acc_validity r return result unit with
      | Err e => Err e
      | Ok eol =>
          if eol <? now then Err EExpired
          else
            match acc_ttl r with
            | Some t => if t <? 0 then Err EInvalidRecord else Ok tt
            | None => Ok tt
            end
      end.

  (** ValidateWithName *)
  Definition validate_with_name (now : Z) (r : record) (n : name) : result unit :=
    match extract_pk r n return result unit with
    | Err e => Err e
    | Ok k => validate now r k
    end.

  (** Validator{KeyBook: nil}.Validate, after the routing key was parsed into [n] *)
  Definition validator_validate (now : Z) (n : name) (value : bytes) : result unit :=
    match unmarshal_record value return result unit with
    | Err e => Err e
    | Ok r =>
        match extract_pk r n return result unit with
        | Err ENoPk => Err EPkNotFound
        | Err e => Err e
        | Ok k => validate now r k
        end
    end.
End Crypto.

(* ------------------------------------------------------------------ *)

Lemma to_u64_to_i64 : forall u, 0 <= u < two64 -> to_u64 (to_i64 u) = u.
Proof.
  intros u H. unfold to_u64, to_i64, two63, two64 in *.
  rewrite (Z.mod_small u) by lia.
  destruct (Z.ltb_spec u 9223372036854775808).
  - apply Z.mod_small. lia.
  - rewrite <- (Z.mod_add _ 1) by lia.
    replace (u - 18446744073709551616 + 1 * 18446744073709551616) with u by lia.
    apply Z.mod_small. lia.
Qed.

Lemma to_i64_range : forall u, - two63 <= to_i64 u < two63.
Proof.
  intros u. unfold to_i64, two63, two64.
  pose proof (Z.mod_pos_bound u 18446744073709551616 ltac:(lia)).
  destruct (Z.ltb_spec (u mod 18446744073709551616) 9223372036854775808); lia.
Qed.

Lemma wf_fbytes : forall num o, 1 <= num < max_fnum -> olen o < two64 ->
  Forall wf_field (fbytes num o).
Proof.
  intros num [b|] Hn Hl; cbn; constructor; [|constructor].
  split; [exact Hn | exact Hl].
Qed.

Lemma wf_fvarint : forall num o, 1 <= num < max_fnum -> Forall wf_field (fvarint num o).
Proof.
  intros num [v|] Hn; cbn; constructor; [|constructor].
  split; [exact Hn | apply to_u64_range].
Qed.

(** a record whose envelope can be written and read back unchanged *)
Definition wf_pb (r : pbrec) : Prop :=
  olen (p_value r) < two64 /\ olen (p_sigv1 r) < two64 /\ olen (p_validity r) < two64 /\
  olen (p_pubkey r) < two64 /\ olen (p_sigv2 r) < two64 /\ olen (p_data r) < two64 /\
  (forall v, p_vtype r = Some v -> - two31 <= v < two31) /\
  (forall v, p_seq r = Some v -> 0 <= v < two64) /\
  (forall v, p_ttl r = Some v -> 0 <= v < two64) /\
  p_unknown r = [].

Lemma to_i32_to_u64 : forall v, - two31 <= v < two31 -> to_i32 (to_u64 v) = v.
Proof.
  intros v H. unfold to_i32, to_u64, two31, two32, two64 in *.
  replace ((v mod 18446744073709551616) mod 4294967296) with (v mod 4294967296).
  - destruct (Z_lt_le_dec v 0).
    + replace (v mod 4294967296) with (v + 4294967296).
      * destruct (Z.ltb_spec (v + 4294967296) 2147483648); lia.
      * symmetry. rewrite <- (Z.mod_add v 1) by lia. apply Z.mod_small. lia.
    + rewrite Z.mod_small by lia. destruct (Z.ltb_spec v 2147483648); lia.
  - change 18446744073709551616 with (4294967296 * 4294967296).
    rewrite Z.rem_mul_r by lia.
    rewrite Z.mul_comm, Z.mod_add by lia. rewrite Z.mod_mod by lia. reflexivity.
Qed.

Theorem unmarshal_marshal : forall r, wf_pb r -> unmarshal_pb (marshal r) = Some r.
Proof.
  intros r (Hv & Hs1 & Hvl & Hpk & Hs2 & Hd & Hvt & Hsq & Htt & Hu).
  unfold unmarshal_pb, marshal.
  assert (Hwf : Forall wf_field (to_fields r)).
  { unfold to_fields. rewrite Hu.
    repeat (apply Forall_app; split);
      try (apply wf_fbytes; [unfold max_fnum; lia | assumption]);
      try (apply wf_fvarint; unfold max_fnum; lia).
    constructor. }
  rewrite parse_emit by exact Hwf. f_equal.
  destruct r as [v s1 vt vl sq tl pk0 s2 d u]. cbn [p_unknown] in Hu. subst u.
  cbn [p_vtype p_seq p_ttl] in Hvt, Hsq, Htt.
  unfold to_fields. cbn [p_value p_sigv1 p_vtype p_validity p_seq p_ttl p_pubkey p_sigv2 p_data p_unknown].
  assert (Evt : forall x, vt = Some x -> to_i32 (to_u64 x) = x)
    by (intros x Hx; apply to_i32_to_u64; apply Hvt; exact Hx).
  assert (Esq : forall x, sq = Some x -> to_u64 x = x)
    by (intros x Hx; apply to_u64_nonneg; apply Hsq; exact Hx).
  assert (Ett : forall x, tl = Some x -> to_u64 x = x)
    by (intros x Hx; apply to_u64_nonneg; apply Htt; exact Hx).
  destruct v, s1, vt as [vt|], vl, sq as [sq|], tl as [tl|], pk0, s2, d;
    cbn [fbytes fvarint app fold_left set_field Z.eqb Pos.eqb pb_empty
         p_value p_sigv1 p_vtype p_validity p_seq p_ttl p_pubkey p_sigv2 p_data p_unknown];
    rewrite ?(Evt _ eq_refl), ?(Esq _ eq_refl), ?(Ett _ eq_refl); reflexivity.
Qed.
