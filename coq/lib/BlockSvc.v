(** BlockSvc — executable model of blockservice/blockservice.go, shared by C04 and C05.
    (created for C04/C05; model only, no proofs in this file)

    Abstractions
    - a CID is its prefix (version, codec, multihash code, digest length) plus an
      abstract digest identifier [c_dig]: the harness numbers the payloads it uses and
      names a digest after the payload it was computed from, so "the bytes hash to
      the CID" is [c_dig (b_cid b) = b_data b] ([good]).
    - the blockstore is keyed by multihash = (code, length, digest) exactly as
      blockstore.blockstore does (dshelp.MultihashToDsKey(c.Hash())), first write wins
      (blockstore.Put skips the write when the key exists).
    - the validator is a parameter [validate : code -> length -> verr]; C04
      instantiates it with the (translated) verifcid functions.
    - everything outside the block service is an oracle carried by the operation:
      what the exchange answers ([x1] / [option (list blk)]: any blocks in any order,
      honest or hostile) and which store / exchange calls fail ([faults]).
    - [flags]: trust switches.  [trust_cid = true] is the code before fix C05-1 (blocks
      answered by the exchange are not compared with the request); [trust_hash = true]
      is the current code (bytes of exchange blocks are not re-hashed, finding C05-2).

    The model produces, per operation, the new store, the ordered log of calls the
    service makes on the blockstore and the exchange ([ev]) and the result ([out]). *)
From Coq Require Import List ZArith Bool NArith.
Import ListNotations.
Open Scope Z_scope.

Record cid := mkcid { c_ver : Z; c_codec : Z; c_code : Z; c_len : Z; c_dig : N }.
Definition mh := (Z * Z * N)%type.
Definition mh_of (c : cid) : mh := (c_code c, c_len c, c_dig c).
Record blk := mkblk { b_cid : cid; b_data : N }.
Definition bmh (b : blk) : mh := mh_of (b_cid b).
Definition good (b : blk) : bool := (c_dig (b_cid b) =? b_data b)%N.

Definition mh_eqb (a b : mh) : bool :=
  let '(a1, a2, a3) := a in let '(b1, b2, b3) := b in (a1 =? b1) && (a2 =? b2) && (a3 =? b3)%N.
Definition cid_eqb (a b : cid) : bool :=
  (c_ver a =? c_ver b) && (c_codec a =? c_codec b) && mh_eqb (mh_of a) (mh_of b).
Definition blk_eqb (a b : blk) : bool := cid_eqb (b_cid a) (b_cid b) && (b_data a =? b_data b)%N.

Definition inl (m : mh) (l : list mh) : bool := existsb (mh_eqb m) l.
Definition cid_in (c : cid) (l : list cid) : bool := existsb (cid_eqb c) l.

(** validator verdicts (verifcid.ValidateCid) and error classes of the service *)
Inductive verr := EOk | EInsecure | ETooSmall | ETooLarge.
Inductive err := RNil | RInsecure | RTooSmall | RTooLarge | RNotFound | ROther.
Definition err_of (v : verr) : err :=
  match v with EOk => RNil | EInsecure => RInsecure | ETooSmall => RTooSmall | ETooLarge => RTooLarge end.
Definition vok (v : verr) : bool := match v with EOk => true | _ => false end.

(** blockstore *)
Definition store := list (mh * N).
Fixpoint lookup (s : store) (m : mh) : option N :=
  match s with
  | [] => None
  | (k, d) :: r => if mh_eqb m k then Some d else lookup r m
  end.
Definition has (s : store) (m : mh) : bool := match lookup s m with Some _ => true | None => false end.
Definition put (s : store) (b : blk) : store := if has s (bmh b) then s else (bmh b, b_data b) :: s.
Definition put_many (s : store) (bs : list blk) : store := fold_left put bs s.
Definition del (s : store) (m : mh) : store := filter (fun e => negb (mh_eqb m (fst e))) s.

(** configuration *)
Inductive exkind := XNone | XPlain | XSess.      (* nil exchange / exchange.Interface / exchange.SessionExchange *)
(** how the getter is reached: bs.GetX / NewSession(ctx,bs).GetX / bs.GetX(ContextWithSession(ctx,bs)), and the
    same two with a context that carries an embedded session of ANOTHER block service:
    bs.GetX(ContextWithSession(ctx,other)) / NewSession(ContextWithSession(ctx,other),bs).GetX.  Sessions are
    embedded under the owning service as key, so a foreign session is invisible to [bs]: the foreign paths
    behave as the plain / fresh-session path on [bs]'s own blockstore and exchange. *)
Inductive path := PPlain | PSession | PCtxSession | PForeignCtx | PForeignSession.
Record flags := { trust_cid : bool; trust_hash : bool }.
Record faults := { f_get : list mh; f_has : list mh; f_put : list mh; f_notify : list mh }.
Definition no_faults : faults := {| f_get := []; f_has := []; f_put := []; f_notify := [] |}.

(** answer of the exchange to Fetcher.GetBlock *)
Inductive x1 := XErr (e : err) | XBlk (b : blk).

Inductive op :=
| OAdd (b : blk)
| OAddMany (bs : list blk)
| OGet (p : path) (c : cid) (x : x1)
| OGetMany (p : path) (ks : list cid) (x : option (list blk))   (* None: Fetcher.GetBlocks returned an error *)
| ODel (c : cid).

(** calls made by the service, in order *)
Inductive ev :=
| EvHas (c : cid) | EvGet (c : cid) | EvPut (b : blk) | EvPutMany (bs : list blk) | EvDel (c : cid)
| EvNewSession
| EvFetch1 (viasess : bool) (c : cid)
| EvFetchN (viasess : bool) (cs : list cid)
| EvNotify (bs : list blk)
| EvForeign (e : ev).   (* the call [e] was made on the blockstore / exchange of ANOTHER block service
                           (observable in the harness; the model never produces it) *)

Inductive out :=
| RAdd (e : err)
| RGet (e : err) (b : option blk)
| RGetMany (bs : list (blk * bool))        (* emitted blocks, each with "is in the blockstore when received" *)
| RDel.

Section Svc.
Variable validate : Z -> Z -> verr.
Variable checkfirst : bool.
Variable ex : exkind.
Variable fl : flags.

Definition cvalid (c : cid) : bool := vok (validate (c_code c) (c_len c)).
Definition cverr (c : cid) : verr := validate (c_code c) (c_len c).

(** which fetcher a path uses: (events of creating it, Some viasess | None = no fetcher) *)
Definition fetcher (p : path) : list ev * option bool :=
  match ex with
  | XNone => ([], None)
  | XPlain => ([], Some false)
  | XSess => match p with PPlain | PForeignCtx => ([], Some false) | _ => ([EvNewSession], Some true) end
  end.

(** does the service accept a block handed over by the exchange for the request [wanted] *)
Definition accept (wanted : list cid) (b : blk) : bool :=
  (trust_cid fl || cid_in (b_cid b) wanted) && (trust_hash fl || good b).

(** AddBlock *)
Definition add_block (ft : faults) (s : store) (b : blk) : store * list ev * out :=
  let c := b_cid b in
  match cverr c with
  | EOk =>
      let put_part (pre : list ev) :=
        if inl (bmh b) (f_put ft) then (s, pre ++ [EvPut b], RAdd ROther)
        else (put s b, pre ++ EvPut b :: (match ex with XNone => [] | _ => [EvNotify [b]] end), RAdd RNil) in
      if checkfirst then
        if inl (bmh b) (f_has ft) then (s, [EvHas c], RAdd ROther)
        else if has s (bmh b) then (s, [EvHas c], RAdd RNil)
        else put_part [EvHas c]
      else put_part []
  | v => (s, [], RAdd (err_of v))
  end.

(** AddBlocks: first validation error wins; then the Has scan; then one PutMany *)
Fixpoint first_invalid (bs : list blk) : verr :=
  match bs with
  | [] => EOk
  | b :: r => match cverr (b_cid b) with EOk => first_invalid r | v => v end
  end.
(* the checkFirst scan: (events, Some toput | None = Has failed) *)
Fixpoint has_scan (ft : faults) (s : store) (bs : list blk) : list ev * option (list blk) :=
  match bs with
  | [] => ([], Some [])
  | b :: r =>
      if inl (bmh b) (f_has ft) then ([EvHas (b_cid b)], None)
      else let '(evs, res) := has_scan ft s r in
           (EvHas (b_cid b) :: evs,
            match res with
            | None => None
            | Some tp => Some (if has s (bmh b) then tp else b :: tp)
            end)
  end.
Definition add_blocks (ft : faults) (s : store) (bs : list blk) : store * list ev * out :=
  match first_invalid bs with
  | EOk =>
      let '(evs, res) := if checkfirst then has_scan ft s bs else ([], Some bs) in
      match res with
      | None => (s, evs, RAdd ROther)
      | Some [] => (s, evs, RAdd RNil)
      | Some tp =>
          if existsb (fun b => inl (bmh b) (f_put ft)) tp then (s, evs ++ [EvPutMany tp], RAdd ROther)
          else (put_many s tp,
                evs ++ EvPutMany tp :: (match ex with XNone => [] | _ => [EvNotify tp] end), RAdd RNil)
      end
  | v => (s, [], RAdd (err_of v))
  end.

(** getBlock *)
Definition get_block (ft : faults) (s : store) (p : path) (c : cid) (x : x1) : store * list ev * out :=
  match cverr c with
  | EOk =>
      if inl (mh_of c) (f_get ft) then (s, [EvGet c], RGet ROther None)
      else match lookup s (mh_of c) with
      | Some d => (s, [EvGet c], RGet RNil (Some (mkblk c d)))
      | None =>
          let '(fevs, f) := fetcher p in
          match f with
          | None => (s, [EvGet c] ++ fevs, RGet RNotFound None)
          | Some via =>
              let pre := [EvGet c] ++ fevs ++ [EvFetch1 via c] in
              match x with
              | XErr e => (s, pre, RGet e None)
              | XBlk b =>
                  if accept [c] b then
                    if inl (bmh b) (f_put ft) then (s, pre ++ [EvPut b], RGet ROther None)
                    else if inl (bmh b) (f_notify ft)
                         then (put s b, pre ++ [EvPut b; EvNotify [b]], RGet ROther None)
                         else (put s b, pre ++ [EvPut b; EvNotify [b]], RGet RNil (Some b))
                  else (s, pre, RGet RNotFound None)
              end
          end
      end
  | v => (s, [], RGet (err_of v) None)
  end.

(** getBlocks, part 1: the key filter, transcribed from the loop
      for lastAllValidIndex, c = range ks { if invalid(c) { break } }
      if lastAllValidIndex != len(ks) { ks2 := copy(ks[:lastAllValidIndex]); append valid of ks[lastAllValidIndex:] }
    [scan] returns the final value of the range variable [lastAllValidIndex]:
    the index of the first invalid key, or len-1 when all are valid (0 for []). *)
Fixpoint scan (i : nat) (ks : list cid) : nat :=
  match ks with
  | [] => i
  | c :: r => if cvalid c then match r with [] => i | _ => scan (S i) r end else i
  end.
Definition filter_keys (ks : list cid) : list cid :=
  let i := scan 0 ks in
  if Nat.eqb i (length ks) then ks
  else firstn i ks ++ filter cvalid (skipn i ks).

(** part 2: the local pass: emit hits, collect misses *)
Fixpoint local_pass (ft : faults) (s : store) (ks : list cid) : list ev * list (blk * bool) * list cid :=
  match ks with
  | [] => ([], [], [])
  | c :: r =>
      let '(evs, outs, misses) := local_pass ft s r in
      if inl (mh_of c) (f_get ft) then (EvGet c :: evs, outs, c :: misses)
      else match lookup s (mh_of c) with
           | Some d => (EvGet c :: evs, (mkblk c d, true) :: outs, misses)
           | None => (EvGet c :: evs, outs, c :: misses)
           end
  end.

(** part 3: the receive loop over what the exchange delivers *)
Fixpoint recv (ft : faults) (wanted : list cid) (s : store) (resp : list blk)
  : store * list ev * list (blk * bool) :=
  match resp with
  | [] => (s, [], [])
  | b :: r =>
      if accept wanted b then
        if inl (bmh b) (f_put ft) then (s, [EvPut b], [])
        else
          let s' := put s b in
          if inl (bmh b) (f_notify ft) then (s', [EvPut b; EvNotify [b]], [])
          else let '(s'', evs, outs) := recv ft wanted s' r in
               (s'', EvPut b :: EvNotify [b] :: evs, (b, has s' (bmh b)) :: outs)
      else recv ft wanted s r
  end.

Definition get_blocks (ft : faults) (s : store) (p : path) (ks : list cid) (x : option (list blk))
  : store * list ev * out :=
  let ks' := filter_keys ks in
  let '(evs, outs, misses) := local_pass ft s ks' in
  let '(fevs, f) := fetcher p in        (* fetchFactory() is called before the misses are looked at *)
  match f, misses with
  | None, _ => (s, evs ++ fevs, RGetMany outs)
  | Some _, [] => (s, evs ++ fevs, RGetMany outs)
  | Some via, _ =>
      match x with
      | None => (s, evs ++ fevs ++ [EvFetchN via misses], RGetMany outs)
      | Some resp =>
          let '(s', revs, routs) := recv ft misses s resp in
          (s', evs ++ fevs ++ [EvFetchN via misses] ++ revs, RGetMany (outs ++ routs))
      end
  end.

Definition step (ft : faults) (s : store) (o : op) : store * list ev * out :=
  match o with
  | OAdd b => add_block ft s b
  | OAddMany bs => add_blocks ft s bs
  | OGet p c x => get_block ft s p c x
  | OGetMany p ks x => get_blocks ft s p ks x
  | ODel c => (del s (mh_of c), [EvDel c], RDel)
  end.

(** a whole history: list of (operation, faults during it) *)
Fixpoint run (s : store) (h : list (op * faults)) : store * list (list ev * out) :=
  match h with
  | [] => (s, [])
  | (o, ft) :: r =>
      let '(s', evs, res) := step ft s o in
      let '(s'', rest) := run s' r in
      (s'', (evs, res) :: rest)
  end.
End Svc.

(** ---------- equality tests used by the correspondence ---------- *)
Fixpoint list_eqb {A} (eqb : A -> A -> bool) (l1 l2 : list A) : bool :=
  match l1, l2 with
  | [], [] => true
  | a :: r1, b :: r2 => eqb a b && list_eqb eqb r1 r2
  | _, _ => false
  end.
Definition err_eqb (a b : err) : bool :=
  match a, b with
  | RNil, RNil | RInsecure, RInsecure | RTooSmall, RTooSmall | RTooLarge, RTooLarge
  | RNotFound, RNotFound | ROther, ROther => true
  | _, _ => false
  end.
Definition verr_eqb (a b : verr) : bool :=
  match a, b with
  | EOk, EOk | EInsecure, EInsecure | ETooSmall, ETooSmall | ETooLarge, ETooLarge => true
  | _, _ => false
  end.
Fixpoint ev_eqb (a b : ev) : bool :=
  match a, b with
  | EvForeign x, EvForeign y => ev_eqb x y
  | EvHas x, EvHas y | EvGet x, EvGet y | EvDel x, EvDel y => cid_eqb x y
  | EvPut x, EvPut y => blk_eqb x y
  | EvPutMany x, EvPutMany y | EvNotify x, EvNotify y => list_eqb blk_eqb x y
  | EvNewSession, EvNewSession => true
  | EvFetch1 v x, EvFetch1 w y => Bool.eqb v w && cid_eqb x y
  | EvFetchN v x, EvFetchN w y => Bool.eqb v w && list_eqb cid_eqb x y
  | _, _ => false
  end.
Definition oblk_eqb (a b : option blk) : bool :=
  match a, b with Some x, Some y => blk_eqb x y | None, None => true | _, _ => false end.
Definition out_eqb (a b : out) : bool :=
  match a, b with
  | RAdd e, RAdd f => err_eqb e f
  | RGet e x, RGet f y => err_eqb e f && oblk_eqb x y
  | RGetMany x, RGetMany y => list_eqb (fun p q => blk_eqb (fst p) (fst q) && Bool.eqb (snd p) (snd q)) x y
  | RDel, RDel => true
  | _, _ => false
  end.
(** stores are compared as finite maps (the harness lists the real store sorted) *)
Definition store_sub (a b : store) : bool :=
  forallb (fun e => match lookup b (fst e) with Some d => (d =? snd e)%N | None => false end) a.
Definition store_eqb (a b : store) : bool :=
  store_sub a b && store_sub b a && Nat.eqb (length a) (length b).
