(** Varint.v — unsigned LEB128 ("protobuf varint", also the multiformats varint)
    over bytes modelled as [list Z] (every byte in [0, 256)).

    [enc v]     the minimal encoding of [0 <= v] (what Go's protowire.AppendVarint,
                binary.PutUvarint and go-varint write);
    [vlen v]    closed form of its length: [Z.log2 v / 7 + 1];
    [dec_raw]   unbounded decoder; [dec64] the decoder with the limits of Go's
                protowire.ConsumeVarint (at most 10 bytes, value < 2^64,
                non-minimal encodings accepted);
    [enc_i64 s] the 64-bit two's-complement form protobuf uses for int64/int32/enum.

    Main facts: [enc_length], [dec_raw_enc], [dec64_enc], [enc_bytes], [vlen_le_iff].
    Stdlib only, no axioms. *)
From Coq Require Import ZArith List Lia Bool.
Import ListNotations.
Open Scope Z_scope.

(** The recursion is structural on a [positive] that is halved in every step
    while the value is divided by 128; [v <= Zpos fuel] is therefore enough. *)
Fixpoint enc_aux (fuel : positive) (v : Z) : list Z :=
  if v <? 128 then [v] else
  match fuel with
  | xH => [v]
  | xO f | xI f => (v mod 128 + 128) :: enc_aux f (v / 128)
  end.

Definition enc (v : Z) : list Z := enc_aux (Z.to_pos v) v.

Definition vlen (v : Z) : Z := Z.log2 v / 7 + 1.

Fixpoint dec_raw (bs : list Z) : option (Z * list Z) :=
  match bs with
  | [] => None
  | b :: r =>
      if b <? 128 then Some (b, r)
      else match dec_raw r with
           | None => None
           | Some (v, r') => Some ((b - 128) + 128 * v, r')
           end
  end.

Definition two64 : Z := 18446744073709551616.
Definition two63 : Z := 9223372036854775808.

Definition dec64 (bs : list Z) : option (Z * list Z) :=
  match dec_raw bs with
  | None => None
  | Some (v, r) =>
      if (Z.of_nat (length bs) - Z.of_nat (length r) <=? 10) && (v <? two64)
      then Some (v, r) else None
  end.

(** int64 (and sign-extended int32 / enum) values travel as their 64-bit
    two's-complement pattern. *)
Definition to_u64 (s : Z) : Z := s mod two64.
Definition to_i64 (u : Z) : Z := if u mod two64 <? two63 then u mod two64 else u mod two64 - two64.
Definition enc_i64 (s : Z) : list Z := enc (to_u64 s).

Arguments two64 : simpl never.
Arguments two63 : simpl never.
Arguments to_u64 : simpl never.
Arguments to_i64 : simpl never.

(* ------------------------------------------------------------------ *)

Lemma enc_aux_fuel : forall f1 f2 v,
  v <= Zpos f1 -> v <= Zpos f2 -> enc_aux f1 v = enc_aux f2 v.
Proof.
  induction f1 as [f1 IH|f1 IH|]; intros f2 v H1 H2; destruct f2 as [f2|f2|];
    cbn [enc_aux]; destruct (Z.ltb_spec v 128) as [Hlt|Hge];
    try reflexivity; try lia;
    f_equal; apply IH; apply Z.div_le_upper_bound; lia.
Qed.

Lemma enc_small : forall v, v < 128 -> enc v = [v].
Proof.
  intros v H. unfold enc. destruct (Z.to_pos v); cbn [enc_aux];
    destruct (Z.ltb_spec v 128); try lia; reflexivity.
Qed.

Lemma enc_step : forall v, 128 <= v -> enc v = (v mod 128 + 128) :: enc (v / 128).
Proof.
  intros v H. unfold enc.
  assert (Hp : Zpos (Z.to_pos v) = v) by (apply Z2Pos.id; lia).
  assert (Hq : 0 < v / 128) by (apply Z.div_str_pos; lia).
  destruct (Z.to_pos v) as [f|f|] eqn:E; cbn [enc_aux];
    (destruct (Z.ltb_spec v 128); [lia|]); try lia;
    f_equal; apply enc_aux_fuel;
    try (apply Z.div_le_upper_bound; lia); rewrite Z2Pos.id by lia; lia.
Qed.

(** induction principle: dividing by 128 until below 128 *)
Lemma varint_ind (P : Z -> Prop) :
  (forall v, 0 <= v < 128 -> P v) ->
  (forall v, 128 <= v -> P (v / 128) -> P v) ->
  forall v, 0 <= v -> P v.
Proof.
  intros Hb Hs v Hv. revert Hv. pattern v. apply (well_founded_induction (Z.lt_wf 0)).
  intros x IH Hx. destruct (Z_lt_le_dec x 128) as [Hlt|Hge].
  - apply Hb. lia.
  - apply Hs; [lia|]. apply IH.
    + split; [apply Z.div_pos; lia | apply Z.div_lt; lia].
    + apply Z.div_pos; lia.
Qed.

Lemma enc_nonempty : forall v, enc v <> [].
Proof.
  intro v. destruct (Z_lt_le_dec v 128).
  - rewrite enc_small by assumption. discriminate.
  - rewrite enc_step by assumption. discriminate.
Qed.

Lemma enc_bytes : forall v, 0 <= v -> Forall (fun b => 0 <= b < 256) (enc v).
Proof.
  apply varint_ind.
  - intros v H. rewrite enc_small by lia. constructor; [lia|constructor].
  - intros v H IH. rewrite enc_step by assumption. constructor; [|exact IH].
    pose proof (Z.mod_pos_bound v 128). lia.
Qed.

Lemma log2_div128 : forall v, 128 <= v -> Z.log2 (v / 128) = Z.log2 v - 7.
Proof.
  intros v H. change 128 with (2 ^ 7). rewrite <- Z.shiftr_div_pow2 by lia.
  rewrite Z.log2_shiftr by lia.
  assert (7 <= Z.log2 v) by (apply Z.log2_le_pow2; [lia|]; change (2 ^ 7) with 128; lia).
  lia.
Qed.

Lemma vlen_small : forall v, v < 128 -> vlen v = 1.
Proof.
  intros v H. unfold vlen. destruct (Z_le_gt_dec v 0) as [Hn|Hp].
  - rewrite Z.log2_nonpos by assumption. reflexivity.
  - assert (Z.log2 v < 7) by (apply Z.log2_lt_pow2; [lia|]; change (2 ^ 7) with 128; lia).
    pose proof (Z.log2_nonneg v). rewrite Z.div_small by lia. reflexivity.
Qed.

Lemma vlen_step : forall v, 128 <= v -> vlen v = vlen (v / 128) + 1.
Proof.
  intros v H. unfold vlen. rewrite log2_div128 by assumption.
  replace (Z.log2 v) with ((Z.log2 v - 7) + 1 * 7) at 1 by lia.
  rewrite Z.div_add by lia. lia.
Qed.

(** the length of the encoding is [vlen] *)
Lemma enc_length : forall v, 0 <= v -> Z.of_nat (length (enc v)) = vlen v.
Proof.
  apply varint_ind.
  - intros v H. rewrite enc_small, vlen_small by lia. reflexivity.
  - intros v H IH. rewrite enc_step, vlen_step by assumption.
    cbn [length]. rewrite Nat2Z.inj_succ, IH. lia.
Qed.

Lemma vlen_pos : forall v, 1 <= vlen v.
Proof.
  intro v. unfold vlen. pose proof (Z.log2_nonneg v).
  assert (0 <= Z.log2 v / 7) by (apply Z.div_pos; lia). lia.
Qed.

(** [vlen v <= k] iff [v] fits in [7 k] bits *)
Lemma vlen_le_iff : forall v k, 0 <= v -> 1 <= k -> (vlen v <= k <-> v < 2 ^ (7 * k)).
Proof.
  intros v k Hv Hk. unfold vlen.
  destruct (Z.eq_dec v 0) as [->|Hnz].
  - change (Z.log2 0) with 0. rewrite Z.div_0_l by lia.
    assert (0 < 2 ^ (7 * k)) by (apply Z.pow_pos_nonneg; lia). lia.
  - rewrite (Z.log2_lt_pow2 v (7 * k)) by lia.
    pose proof (Z.log2_nonneg v).
    pose proof (Z.div_mod (Z.log2 v) 7 ltac:(lia)).
    pose proof (Z.mod_pos_bound (Z.log2 v) 7 ltac:(lia)).
    split; intro; nia.
Qed.

Lemma vlen_u64 : forall v, 0 <= v < two64 -> 1 <= vlen v <= 10.
Proof.
  intros v H. split; [apply vlen_pos|].
  apply vlen_le_iff; [lia|lia|]. unfold two64 in H.
  change (2 ^ (7 * 10)) with 1180591620717411303424. lia.
Qed.

Lemma vlen_mono : forall a b, 0 <= a <= b -> vlen a <= vlen b.
Proof.
  intros a b H. unfold vlen.
  assert (Z.log2 a <= Z.log2 b) by (apply Z.log2_le_mono; lia).
  assert (Z.log2 a / 7 <= Z.log2 b / 7) by (apply Z.div_le_mono; lia). lia.
Qed.

(** decoding what was encoded, with arbitrary trailing bytes *)
Lemma dec_raw_enc : forall v, 0 <= v -> forall r, dec_raw (enc v ++ r) = Some (v, r).
Proof.
  apply (varint_ind (fun v => forall r, dec_raw (enc v ++ r) = Some (v, r))).
  - intros v H r. rewrite enc_small by lia. cbn [app dec_raw].
    destruct (Z.ltb_spec v 128); [reflexivity|lia].
  - intros v H IH r. rewrite enc_step by assumption. cbn [app dec_raw].
    pose proof (Z.mod_pos_bound v 128 ltac:(lia)).
    destruct (Z.ltb_spec (v mod 128 + 128) 128); [lia|].
    rewrite IH. f_equal. f_equal.
    pose proof (Z.div_mod v 128 ltac:(lia)). lia.
Qed.

Lemma dec64_enc : forall v, 0 <= v < two64 -> forall r, dec64 (enc v ++ r) = Some (v, r).
Proof.
  intros v H r. unfold dec64. rewrite dec_raw_enc by lia.
  rewrite app_length, Nat2Z.inj_add, enc_length by lia.
  pose proof (vlen_u64 v H).
  destruct (Z.leb_spec (vlen v + Z.of_nat (length r) - Z.of_nat (length r)) 10); [|lia].
  destruct (Z.ltb_spec v two64); [reflexivity|lia].
Qed.

(** the decoder consumes at least one byte and returns a suffix *)
Lemma dec_raw_suffix : forall bs v r,
  dec_raw bs = Some (v, r) -> exists p, bs = p ++ r /\ p <> [].
Proof.
  induction bs as [|b bs IH]; intros v r E; cbn [dec_raw] in E; [discriminate|].
  destruct (b <? 128).
  - injection E as <- <-. exists [b]. split; [reflexivity|discriminate].
  - destruct (dec_raw bs) as [[v' r']|] eqn:E'; [|discriminate].
    injection E as <- <-. destruct (IH _ _ eq_refl) as (p & -> & _).
    exists (b :: p). split; [reflexivity|discriminate].
Qed.

Lemma dec64_shorter : forall bs v r,
  dec64 bs = Some (v, r) -> (length r < length bs)%nat.
Proof.
  intros bs v r E. unfold dec64 in E.
  destruct (dec_raw bs) as [[v' r']|] eqn:E'; [|discriminate].
  destruct (_ && _); [|discriminate]. injection E as <- <-.
  destruct (dec_raw_suffix _ _ _ E') as (p & -> & Hp).
  rewrite app_length. destruct p; [congruence|cbn [length]; lia].
Qed.

Lemma dec64_range : forall bs v r, dec64 bs = Some (v, r) -> v < two64.
Proof.
  intros bs v r E. unfold dec64 in E.
  destruct (dec_raw bs) as [[v' r']|]; [|discriminate].
  destruct (Z.leb_spec (Z.of_nat (length bs) - Z.of_nat (length r')) 10); cbn [andb] in E; [|discriminate].
  destruct (Z.ltb_spec v' two64); [|discriminate]. injection E as <- <-. assumption.
Qed.

(** two's complement views *)
Lemma to_u64_range : forall s, 0 <= to_u64 s < two64.
Proof. intro s. unfold to_u64. apply Z.mod_pos_bound. reflexivity. Qed.

Lemma to_i64_to_u64 : forall s, - two63 <= s < two63 -> to_i64 (to_u64 s) = s.
Proof.
  intros s H. unfold to_i64, to_u64, two63, two64 in *.
  rewrite Z.mod_mod by lia.
  destruct (Z_lt_le_dec s 0).
  - replace (s mod 18446744073709551616) with (s + 18446744073709551616).
    + destruct (Z.ltb_spec (s + 18446744073709551616) 9223372036854775808); lia.
    + symmetry. rewrite <- (Z.mod_add s 1) by lia. apply Z.mod_small. lia.
  - rewrite Z.mod_small by lia. destruct (Z.ltb_spec s 9223372036854775808); lia.
Qed.

Lemma to_u64_nonneg : forall s, 0 <= s < two64 -> to_u64 s = s.
Proof. intros s H. unfold to_u64. apply Z.mod_small. assumption. Qed.

Lemma to_u64_neg : forall s, - two64 <= s < 0 -> to_u64 s = s + two64.
Proof.
  intros s H. unfold to_u64. rewrite <- (Z.mod_add s 1) by (unfold two64; lia).
  apply Z.mod_small. lia.
Qed.

(** a negative int64 always takes ten bytes *)
Lemma vlen_i64_neg : forall s, - two63 <= s < 0 -> vlen (to_u64 s) = 10.
Proof.
  intros s H. rewrite to_u64_neg by (unfold two63, two64 in *; lia).
  assert (Hhi : vlen (s + two64) <= 10).
  { apply vlen_u64. unfold two63, two64 in *. lia. }
  assert (Hlo : ~ vlen (s + two64) <= 9).
  { rewrite vlen_le_iff by (unfold two63, two64 in *; lia).
    change (2 ^ (7 * 9)) with 9223372036854775808. unfold two63, two64 in *. lia. }
  lia.
Qed.

Lemma enc_inj : forall a b, 0 <= a -> 0 <= b -> enc a = enc b -> a = b.
Proof.
  intros a b Ha Hb E.
  pose proof (dec_raw_enc a Ha []) as Da. pose proof (dec_raw_enc b Hb []) as Db.
  rewrite E in Da. congruence.
Qed.

Example enc_300 : enc 300 = [172; 2]. Proof. reflexivity. Qed.
Example enc_neg1 : enc_i64 (-1) = [255; 255; 255; 255; 255; 255; 255; 255; 255; 1].
Proof. reflexivity. Qed.
Example dec_nonminimal : dec64 [128; 0; 7] = Some (0, [7]). Proof. reflexivity. Qed.
Example dec_overflow : dec64 [255; 255; 255; 255; 255; 255; 255; 255; 255; 2] = None.
Proof. reflexivity. Qed.
