(** BaseN — unpadded radix-2^k text encodings of byte strings (the RFC 4648
    family: base32 / base32hex with k = 5, base64 / base64url with k = 6,
    base16 with k = 4, ...), generic in the digit width [k] and the alphabet.

    Bytes and characters are [N] (a byte is a value < 256, a character is its
    code point); a text is a [list N] of character codes.

      bits      big-endian bit views of numbers           [bits_be], [val_be]
      group     cutting a list into chunks of [w]         [group]
      digits    bytes <-> base-2^k digits                 [digits_of_bytes], [bytes_of_digits]
      text      digits <-> characters over an alphabet    [encode], [decode], [decode_strict]

    Main results (for 0 < k <= 8, bytes < 256):
      [bytes_of_digits_of_bytes]   bytes_of_digits k (digits_of_bytes k bs) = bs
      [digits_of_bytes_lt]         every digit is < 2^k
      [digits_of_bytes_length]     number of digits = ceil (8 * |bs| / k)
      [decode_encode]              decode (encode bs) = Some bs   (any digit reader that inverts the alphabet)
      [encode_inj]                 encode is injective
      [encode_Forall]              every output character is an alphabet character
      [canonical_digits_of_bytes], [digits_of_bytes_of_digits], [decode_strict_encode],
      [decode_strict_sound]        the strict decoder accepts exactly the encoder's outputs
    Instances at the end: base32 (upper, lower, hex), base64url, base64, base16.
    Standard library only; no axioms. *)
From Coq Require Import List NArith Arith Lia Bool.
Import ListNotations.

Set Implicit Arguments.

(** * Bits *)

(** little-endian worker, big-endian interface *)
Fixpoint bits_le (w : nat) (n : N) : list bool :=
  match w with
  | O => []
  | S w' => N.odd n :: bits_le w' (N.div2 n)
  end.

Fixpoint val_le (l : list bool) : N :=
  match l with
  | [] => 0%N
  | b :: r => (N.b2n b + 2 * val_le r)%N
  end.

(** the [w] low bits of [n], most significant first *)
Definition bits_be (w : nat) (n : N) : list bool := rev (bits_le w n).
(** the number denoted by a bit list, most significant first *)
Definition val_be (l : list bool) : N := val_le (rev l).

Lemma bits_le_length : forall w n, length (bits_le w n) = w.
Proof. induction w as [|w IH]; intros n; simpl; [reflexivity|]. now rewrite IH. Qed.

Lemma bits_be_length : forall w n, length (bits_be w n) = w.
Proof. intros w n. unfold bits_be. now rewrite rev_length, bits_le_length. Qed.

Lemma bits_le_val_le : forall l, bits_le (length l) (val_le l) = l.
Proof.
  induction l as [|b r IH]; [reflexivity|].
  cbn [length bits_le val_le].
  rewrite N.odd_add_mul_2, N.div2_div, N.add_b2n_double_div2, IH.
  now destruct b.
Qed.

Lemma val_le_bits_le : forall w n, (n < 2 ^ N.of_nat w)%N -> val_le (bits_le w n) = n.
Proof.
  induction w as [|w IH]; intros n Hn.
  - cbn in *. lia.
  - cbn [bits_le val_le]. rewrite IH.
    + rewrite N.add_comm. symmetry. apply N.div2_odd.
    + rewrite Nat2N.inj_succ, N.pow_succ_r' in Hn.
      rewrite N.div2_div. apply N.div_lt_upper_bound; lia.
Qed.

Lemma val_le_lt : forall l, (val_le l < 2 ^ N.of_nat (length l))%N.
Proof.
  induction l as [|b r IH].
  - cbn. lia.
  - cbn [length val_le]. rewrite Nat2N.inj_succ, N.pow_succ_r'.
    destruct b; cbn [N.b2n]; lia.
Qed.

Lemma bits_be_val_be : forall l, bits_be (length l) (val_be l) = l.
Proof.
  intros l. unfold bits_be, val_be.
  rewrite <- (rev_length l), bits_le_val_le. apply rev_involutive.
Qed.

Lemma val_be_bits_be : forall w n, (n < 2 ^ N.of_nat w)%N -> val_be (bits_be w n) = n.
Proof.
  intros w n Hn. unfold bits_be, val_be. rewrite rev_involutive. now apply val_le_bits_le.
Qed.

Lemma val_be_lt : forall l, (val_be l < 2 ^ N.of_nat (length l))%N.
Proof. intros l. unfold val_be. rewrite <- (rev_length l). apply val_le_lt. Qed.

Lemma val_le_repeat_false : forall n, val_le (repeat false n) = 0%N.
Proof. induction n as [|n IH]; cbn [repeat val_le N.b2n]; [reflexivity|]. rewrite IH. reflexivity. Qed.

Lemma bits_le_0 : forall w, bits_le w 0 = repeat false w.
Proof. induction w as [|w IH]; [reflexivity|]. cbn [bits_le repeat]. cbn. now rewrite IH. Qed.

Lemma bits_be_0 : forall w, bits_be w 0 = repeat false w.
Proof.
  intros w. unfold bits_be. rewrite bits_le_0.
  induction w as [|w IH]; [reflexivity|].
  cbn [repeat rev]. rewrite IH. clear IH.
  induction w as [|w IH]; [reflexivity|]. cbn [repeat app]. now rewrite IH.
Qed.

(** * Cutting a list into chunks of [w] (the last chunk may be shorter) *)

Fixpoint groupf {A} (fuel w : nat) (l : list A) : list (list A) :=
  match fuel with
  | O => []
  | S f =>
      match l with
      | [] => []
      | _ :: _ => firstn w l :: groupf f w (skipn w l)
      end
  end.

Definition group {A} (w : nat) (l : list A) : list (list A) := groupf (length l) w l.

Lemma groupf_fuel : forall A w, 0 < w -> forall f1 f2 (l : list A),
  length l <= f1 -> length l <= f2 -> groupf f1 w l = groupf f2 w l.
Proof.
  intros A w Hw. induction f1 as [|f1 IH]; intros f2 l H1 H2.
  - destruct l; [|cbn in H1; lia]. destruct f2; reflexivity.
  - destruct l as [|a l]; [destruct f2; reflexivity|].
    destruct f2 as [|f2]; [cbn in H2; lia|].
    cbn [groupf]. f_equal. apply IH; rewrite skipn_length; cbn [length] in *; lia.
Qed.

Lemma group_nil : forall A w, group w (@nil A) = [].
Proof. reflexivity. Qed.

Lemma group_step : forall A w (l : list A), 0 < w -> l <> [] ->
  group w l = firstn w l :: group w (skipn w l).
Proof.
  intros A w l Hw Hl. unfold group. destruct l as [|a l]; [congruence|].
  cbn [length groupf]. f_equal. apply groupf_fuel; [assumption| |lia].
  rewrite skipn_length. cbn [length]. lia.
Qed.

(** a full chunk in front is split off *)
Lemma group_app_full : forall A w (c r : list A), 0 < w -> length c = w ->
  group w (c ++ r) = c :: group w r.
Proof.
  intros A w c r Hw Hc. rewrite group_step; [|assumption|].
  - rewrite firstn_app, skipn_app, Hc, Nat.sub_diag, firstn_O, skipn_O, app_nil_r.
    rewrite <- Hc, firstn_all, skipn_all. reflexivity.
  - destruct c; [cbn in Hc; lia|discriminate].
Qed.

(** a short non-empty list is its own single chunk *)
Lemma group_short : forall A w (l : list A), l <> [] -> length l <= w -> group w l = [l].
Proof.
  intros A w l Hl Hw. rewrite group_step; [|destruct l; [congruence|cbn in Hw; lia]|assumption].
  rewrite firstn_all2, skipn_all2 by assumption. reflexivity.
Qed.

Lemma group_ind_len : forall A w, 0 < w -> forall (P : list A -> Prop),
  P [] ->
  (forall l, l <> [] -> P (skipn w l) -> P l) ->
  forall l, P l.
Proof.
  intros A w Hw P Hnil Hstep l.
  remember (length l) as n eqn:Hn.
  assert (Hle : length l <= n) by lia. clear Hn. revert l Hle.
  induction n as [|n IH]; intros l Hle.
  - destruct l; [assumption|cbn in Hle; lia].
  - destruct l as [|a l]; [assumption|].
    apply Hstep; [discriminate|]. apply IH. rewrite skipn_length. cbn [length] in *. lia.
Qed.

Lemma group_concat : forall A w (l : list A), 0 < w -> concat (group w l) = l.
Proof.
  intros A w l Hw. revert l. apply (group_ind_len Hw); [|intros l Hl IH].
  - reflexivity.
  - rewrite group_step by assumption. cbn [concat]. rewrite IH. apply firstn_skipn.
Qed.

Lemma group_chunks_le : forall A w (l : list A), 0 < w ->
  Forall (fun c => length c <= w) (group w l).
Proof.
  intros A w l Hw. revert l. apply (group_ind_len Hw); [|intros l Hl IH].
  - constructor.
  - rewrite group_step by assumption. constructor; [apply firstn_le_length|exact IH].
Qed.

Lemma group_chunks_nonempty : forall A w (l : list A), 0 < w ->
  Forall (fun c => c <> []) (group w l).
Proof.
  intros A w l Hw. revert l. apply (group_ind_len Hw); [|intros l Hl IH].
  - constructor.
  - rewrite group_step by assumption. constructor; [|exact IH].
    destruct l; [congruence|]. destruct w; [lia|]. discriminate.
Qed.

(** number of chunks = ceil (|l| / w), stated without division ... *)
Lemma group_length_bounds : forall A w (l : list A), 0 < w ->
  length l <= length (group w l) * w /\ length (group w l) * w < length l + w.
Proof.
  intros A w l Hw. revert l. apply (group_ind_len Hw); [|intros l Hl IH].
  - cbn. lia.
  - rewrite group_step by assumption. cbn [length]. rewrite Nat.mul_succ_l.
    destruct (le_lt_dec (length l) w) as [Hle|Hgt].
    + rewrite skipn_all2 by assumption. cbn [group groupf length Nat.mul].
      destruct l; [congruence|]. cbn [length] in *. lia.
    + rewrite skipn_length in IH. lia.
Qed.

(** ... and with it *)
Lemma group_length : forall A w (l : list A), 0 < w ->
  length (group w l) = (length l + (w - 1)) / w.
Proof.
  intros A w l Hw. destruct (group_length_bounds l Hw) as [H1 H2].
  apply Nat.div_unique with (r := length l + (w - 1) - length (group w l) * w); lia.
Qed.

(** * Bytes <-> digits of [k] bits *)

Definition pad (w : nat) (c : list bool) : list bool := c ++ repeat false (w - length c).

Lemma pad_length : forall w c, length c <= w -> length (pad w c) = w.
Proof. intros w c H. unfold pad. rewrite app_length, repeat_length. lia. Qed.

Definition bits_of_bytes (bs : list N) : list bool := flat_map (bits_be 8) bs.

Definition digits_of_bytes (k : nat) (bs : list N) : list N :=
  map (fun c => val_be (pad k c)) (group k (bits_of_bytes bs)).

Definition bits_of_digits (k : nat) (ds : list N) : list bool := flat_map (bits_be k) ds.

(** complete octets only: trailing bits that do not fill a byte are dropped *)
Definition bytes_of_bits (l : list bool) : list N :=
  map val_be (filter (fun c => length c =? 8) (group 8 l)).

Definition bytes_of_digits (k : nat) (ds : list N) : list N :=
  bytes_of_bits (bits_of_digits k ds).

Definition is_byte (b : N) : Prop := (b < 256)%N.

Lemma bits_of_bytes_length : forall bs, length (bits_of_bytes bs) = 8 * length bs.
Proof.
  induction bs as [|b bs IH]; [reflexivity|].
  unfold bits_of_bytes in *. cbn [flat_map length]. rewrite app_length, bits_be_length, IH. lia.
Qed.

Lemma bits_of_digits_length : forall k ds, length (bits_of_digits k ds) = k * length ds.
Proof.
  induction ds as [|d ds IH]; [cbn; lia|].
  unfold bits_of_digits in *. cbn [flat_map length]. rewrite app_length, bits_be_length, IH. lia.
Qed.

(** grouping the bits of whole bytes plus a short tail gives back the bytes' octets *)
Lemma group8_bytes_tail : forall bs t, length t < 8 ->
  group 8 (bits_of_bytes bs ++ t) = map (bits_be 8) bs ++ (match t with [] => [] | _ => [t] end).
Proof.
  induction bs as [|b bs IH]; intros t Ht.
  - cbn [bits_of_bytes flat_map map app]. destruct t as [|x t]; [reflexivity|].
    apply group_short; [discriminate|lia].
  - unfold bits_of_bytes in *. cbn [flat_map map]. rewrite <- !app_assoc, <- app_comm_cons.
    rewrite group_app_full; [|lia|apply bits_be_length]. now rewrite IH.
Qed.

Lemma bytes_of_bits_bytes_tail : forall bs t, Forall is_byte bs -> length t < 8 ->
  bytes_of_bits (bits_of_bytes bs ++ t) = bs.
Proof.
  intros bs t Hb Ht. unfold bytes_of_bits. rewrite group8_bytes_tail by assumption.
  rewrite filter_app.
  assert (Ht' : filter (fun c : list bool => length c =? 8) (match t with [] => [] | _ => [t] end) = []).
  { destruct t as [|x t]; [reflexivity|]. cbn [filter].
    destruct (Nat.eqb_spec (length (x :: t)) 8); [lia|reflexivity]. }
  rewrite Ht', app_nil_r. clear Ht' Ht t.
  induction Hb as [|b bs Hb1 Hb IH]; [reflexivity|].
  cbn [map filter]. rewrite bits_be_length. cbn [Nat.eqb map]. rewrite IH. f_equal.
  apply val_be_bits_be. exact Hb1.
Qed.

(** padding every chunk and concatenating = the bits followed by < k zero bits *)
Lemma concat_pad_group : forall k l, 0 < k ->
  exists p, p < k /\ concat (map (pad k) (group k l)) = l ++ repeat false p /\
            (l = [] -> p = 0) /\ k * length (group k l) = length l + p.
Proof.
  intros k l Hk. revert l. apply (group_ind_len Hk); [|intros l Hl IH].
  - exists 0. cbn. repeat split; lia.
  - destruct (le_lt_dec (length l) k) as [Hle|Hgt].
    + (* last chunk *)
      rewrite group_short by assumption. exists (k - length l).
      cbn [map concat length]. rewrite app_nil_r. unfold pad.
      destruct l; [congruence|]. cbn [length] in *. repeat split; try lia. congruence.
    + destruct IH as (p & Hp & Hc & _ & Hlen). exists p.
      rewrite group_step by assumption. cbn [map concat length].
      rewrite Hc. unfold pad. rewrite firstn_length_le by lia. rewrite Nat.sub_diag. cbn [repeat].
      rewrite app_nil_r, app_assoc, firstn_skipn. rewrite skipn_length in Hlen.
      repeat split; try lia. intros ->. cbn in Hgt. lia.
Qed.

Lemma bits_be_val_pad : forall k c, length c <= k -> bits_be k (val_be (pad k c)) = pad k c.
Proof.
  intros k c H. rewrite <- (@pad_length k c H) at 1. apply bits_be_val_be.
Qed.

Lemma bits_of_digits_of_bytes : forall k bs, 0 < k ->
  exists p, p < k /\ bits_of_digits k (digits_of_bytes k bs) = bits_of_bytes bs ++ repeat false p /\
            (bs = [] -> p = 0) /\ k * length (digits_of_bytes k bs) = 8 * length bs + p.
Proof.
  intros k bs Hk. destruct (concat_pad_group (bits_of_bytes bs) Hk) as (p & Hp & Hc & H0 & Hlen).
  exists p. split; [assumption|]. unfold bits_of_digits, digits_of_bytes.
  rewrite map_length, <- bits_of_bytes_length. repeat split; try assumption.
  - rewrite <- Hc, flat_map_concat_map, map_map. f_equal.
    apply map_ext_Forall. eapply Forall_impl; [|apply (group_chunks_le (bits_of_bytes bs) Hk)].
    intros c Hcl. now apply bits_be_val_pad.
  - intros ->. now apply H0.
Qed.

Section Digits.
  Variable k : nat.
  Hypothesis k_pos : 0 < k.
  Hypothesis k_le8 : k <= 8.

  (** decoding the digits of a byte string gives the byte string back *)
  Theorem bytes_of_digits_of_bytes : forall bs, Forall is_byte bs ->
    bytes_of_digits k (digits_of_bytes k bs) = bs.
  Proof.
    intros bs Hb. destruct (bits_of_digits_of_bytes bs k_pos) as (p & Hp & Hc & _).
    unfold bytes_of_digits. rewrite Hc. apply bytes_of_bits_bytes_tail; [assumption|].
    rewrite repeat_length. lia.
  Qed.

  Theorem digits_of_bytes_inj : forall b1 b2, Forall is_byte b1 -> Forall is_byte b2 ->
    digits_of_bytes k b1 = digits_of_bytes k b2 -> b1 = b2.
  Proof.
    intros b1 b2 H1 H2 E. rewrite <- (bytes_of_digits_of_bytes H1), <- (bytes_of_digits_of_bytes H2).
    now rewrite E.
  Qed.
End Digits.

Theorem digits_of_bytes_lt : forall k bs, 0 < k ->
  Forall (fun d => (d < 2 ^ N.of_nat k)%N) (digits_of_bytes k bs).
Proof.
  intros k bs Hk. unfold digits_of_bytes. apply Forall_map.
  eapply Forall_impl; [|apply (group_chunks_le (bits_of_bytes bs) Hk)].
  intros c Hc. cbv beta. rewrite <- (@pad_length k c Hc) at 2. apply val_be_lt.
Qed.

(** EncodedLen: ceil (8 n / k) digits — for k = 5 this is Go's (n*8+4)/5 *)
Theorem digits_of_bytes_length : forall k bs, 0 < k ->
  length (digits_of_bytes k bs) = (8 * length bs + (k - 1)) / k.
Proof.
  intros k bs Hk. unfold digits_of_bytes.
  rewrite map_length, group_length, bits_of_bytes_length by assumption. reflexivity.
Qed.

Lemma digits_of_bytes_nil : forall k, digits_of_bytes k [] = [].
Proof. reflexivity. Qed.

(** * Canonical digit strings: exactly the encoder's outputs

    A digit string is canonical when every digit is < 2^k, its bit length
    leaves fewer than [k] bits beyond whole bytes, and those bits are zero. *)

Definition trailing (l : list bool) : list bool := skipn (8 * (length l / 8)) l.

Definition canonicalb (k : nat) (ds : list N) : bool :=
  forallb (fun d => (d <? 2 ^ N.of_nat k)%N) ds &&
  (let t := trailing (bits_of_digits k ds) in
   (length t <? k) && forallb negb t).

Lemma forallb_negb_repeat : forall l, forallb negb l = true -> l = repeat false (length l).
Proof.
  induction l as [|b l IH]; [reflexivity|]. cbn [forallb length repeat].
  intros H. apply andb_prop in H. destruct H as [Hb Hl]. destruct b; [discriminate|]. now rewrite <- IH.
Qed.

Lemma forallb_negb_repeat_false : forall n, forallb negb (repeat false n) = true.
Proof. induction n; [reflexivity|]. cbn. assumption. Qed.

Lemma trailing_bytes_tail : forall bs t, length t < 8 -> trailing (bits_of_bytes bs ++ t) = t.
Proof.
  intros bs t Ht. unfold trailing. rewrite app_length, bits_of_bytes_length.
  replace ((8 * length bs + length t) / 8) with (length bs).
  - rewrite <- bits_of_bytes_length, skipn_app, skipn_all, Nat.sub_diag. reflexivity.
  - apply Nat.div_unique with (r := length t); lia.
Qed.

Theorem canonical_digits_of_bytes : forall k bs, 0 < k -> k <= 8 ->
  canonicalb k (digits_of_bytes k bs) = true.
Proof.
  intros k bs Hk Hk8. unfold canonicalb. apply andb_true_intro. split.
  - apply forallb_forall. intros d Hd. apply N.ltb_lt.
    pose proof (digits_of_bytes_lt bs Hk) as HF. rewrite Forall_forall in HF. now apply HF.
  - destruct (bits_of_digits_of_bytes bs Hk) as (p & Hp & Hc & _).
    rewrite Hc, trailing_bytes_tail by (rewrite repeat_length; lia).
    rewrite repeat_length, forallb_negb_repeat_false.
    apply andb_true_intro. split; [now apply Nat.ltb_lt|reflexivity].
Qed.

(** bits of whole bytes: grouping in 8 and reading every octet back *)
Lemma bits_of_bytes_of_bits : forall l n, length l = 8 * n ->
  bits_of_bytes (bytes_of_bits l) = l /\ Forall is_byte (bytes_of_bits l).
Proof.
  intros l n; revert l. induction n as [|n IH]; intros l Hl.
  - destruct l; [|cbn in Hl; lia]. split; [reflexivity|constructor].
  - assert (Hsplit : l = firstn 8 l ++ skipn 8 l) by (symmetry; apply firstn_skipn).
    assert (Hf : length (firstn 8 l) = 8) by (rewrite firstn_length; lia).
    assert (Hs : length (skipn 8 l) = 8 * n) by (rewrite skipn_length; lia).
    destruct (IH _ Hs) as [IH1 IH2].
    unfold bytes_of_bits in *. rewrite Hsplit, group_app_full by lia.
    cbn [filter]. rewrite Hf. cbn [Nat.eqb map]. split.
    + unfold bits_of_bytes in *. cbn [flat_map]. rewrite IH1. f_equal.
      rewrite <- Hf at 1. apply bits_be_val_be.
    + constructor; [|exact IH2]. unfold is_byte.
      change 256%N with (2 ^ N.of_nat 8)%N. rewrite <- Hf at 2. apply val_be_lt.
Qed.

Lemma bytes_of_bits_app_short : forall l t n, length l = 8 * n -> length t < 8 ->
  bytes_of_bits (l ++ t) = bytes_of_bits l.
Proof.
  intros l t n Hl Ht. destruct (@bits_of_bytes_of_bits l n Hl) as [H1 H2].
  rewrite <- H1 at 1. rewrite bytes_of_bits_bytes_tail by assumption. reflexivity.
Qed.

(** re-grouping: padded chunks of [l] = chunks of [l ++ zeros] when the total is a multiple of k *)
Lemma group_pad_zeros : forall k l p m, 0 < k -> p < k -> (l = [] -> p = 0) ->
  length l + p = k * m ->
  map (pad k) (group k l) = group k (l ++ repeat false p).
Proof.
  intros k l p m Hk Hp. revert m. revert l.
  apply (@group_ind_len bool k Hk (fun l => forall m, (l = [] -> p = 0) -> length l + p = k * m ->
    map (pad k) (group k l) = group k (l ++ repeat false p))); [|intros l Hl IH]; intros m H0 Hlen.
  - rewrite (H0 eq_refl). reflexivity.
  - destruct (le_lt_dec (length l) k) as [Hle|Hgt].
    + rewrite group_short by assumption. cbn [map].
      assert (Hpos : 0 < length l) by (destruct l; [congruence|cbn; lia]).
      assert (Hm : m = 1) by nia. subst m.
      rewrite group_short.
      * unfold pad. do 3 f_equal. lia.
      * destruct l; [congruence|discriminate].
      * rewrite app_length, repeat_length. lia.
    + rewrite group_step by assumption. cbn [map].
      assert (Hf : length (firstn k l) = k) by (rewrite firstn_length; lia).
      rewrite <- (firstn_skipn k l) at 3. rewrite <- app_assoc, group_app_full by assumption.
      unfold pad at 1. rewrite Hf, Nat.sub_diag. cbn [repeat]. rewrite app_nil_r. f_equal.
      apply (IH (m - 1)).
      * intros E. apply (f_equal (@length bool)) in E. rewrite skipn_length in E. cbn in E.
        assert (length l + p = k * m) by assumption. nia.
      * rewrite skipn_length. nia.
Qed.

Lemma group_bits_of_digits : forall k ds, 0 < k ->
  group k (bits_of_digits k ds) = map (bits_be k) ds.
Proof.
  intros k ds Hk. induction ds as [|d ds IH]; [reflexivity|].
  unfold bits_of_digits in *. cbn [flat_map map].
  rewrite group_app_full; [|assumption|apply bits_be_length]. now rewrite IH.
Qed.

Lemma div8_split : forall (l : list bool),
  l = firstn (8 * (length l / 8)) l ++ trailing l /\
  length (firstn (8 * (length l / 8)) l) = 8 * (length l / 8) /\
  length (trailing l) < 8.
Proof.
  intros l. unfold trailing. rewrite firstn_skipn, firstn_length, skipn_length.
  pose proof (Nat.div_mod (length l) 8 ltac:(lia)) as Hdm.
  pose proof (Nat.mod_upper_bound (length l) 8 ltac:(lia)) as Hm.
  repeat split; lia.
Qed.

(** a canonical digit string is the encoding of what it decodes to *)
Theorem digits_of_bytes_of_digits : forall k ds, 0 < k -> k <= 8 ->
  canonicalb k ds = true -> digits_of_bytes k (bytes_of_digits k ds) = ds.
Proof.
  intros k ds Hk Hk8 Hc. unfold canonicalb in Hc.
  apply andb_prop in Hc. destruct Hc as [Hlt Hc]. apply andb_prop in Hc. destruct Hc as [Htl Htz].
  apply Nat.ltb_lt in Htl. apply forallb_negb_repeat in Htz.
  set (L := bits_of_digits k ds) in *.
  destruct (div8_split L) as (Hsplit & Hfl & Ht8).
  set (F := firstn (8 * (length L / 8)) L) in *. set (T := trailing L) in *.
  unfold bytes_of_digits. fold L.
  rewrite Hsplit, (@bytes_of_bits_app_short F T _ Hfl Ht8).
  destruct (@bits_of_bytes_of_bits F _ Hfl) as [HF _].
  unfold digits_of_bytes. rewrite HF.
  assert (Hlen : length F + length T = k * length ds).
  { rewrite <- app_length, <- Hsplit. apply bits_of_digits_length. }
  assert (HF0 : F = [] -> length T = 0).
  { intros E. rewrite E in Hlen. cbn [length] in Hlen.
    destruct (length ds) as [|n]; nia. }
  rewrite <- map_map, (@group_pad_zeros k F (length T) (length ds) Hk Htl HF0 Hlen), <- Htz, <- Hsplit.
  unfold L. rewrite group_bits_of_digits, map_map by assumption.
  rewrite <- (map_id ds) at 2. apply map_ext_Forall.
  rewrite Forall_forall. intros d Hd. apply val_be_bits_be. apply N.ltb_lt.
  rewrite forallb_forall in Hlt. now apply Hlt.
Qed.

(** * Text: digits <-> characters over an alphabet *)

Fixpoint index_of (c : N) (alpha : list N) : option N :=
  match alpha with
  | [] => None
  | a :: r => if (c =? a)%N then Some 0%N else option_map N.succ (index_of c r)
  end.

Fixpoint mapM {A B} (f : A -> option B) (l : list A) : option (list B) :=
  match l with
  | [] => Some []
  | a :: r =>
      match f a with
      | None => None
      | Some b => match mapM f r with None => None | Some bs => Some (b :: bs) end
      end
  end.

Definition char_of (alpha : list N) (d : N) : N := nth (N.to_nat d) alpha 0%N.

Definition encode (k : nat) (alpha : list N) (bs : list N) : list N :=
  map (char_of alpha) (digits_of_bytes k bs).

(** lenient in the trailing bits (as Go's decoders are): they are dropped unread *)
Definition decode (k : nat) (digit_of : N -> option N) (s : list N) : option (list N) :=
  option_map (bytes_of_digits k) (mapM digit_of s).

(** strict: only the encoder's outputs are accepted *)
Definition decode_strict (k : nat) (digit_of : N -> option N) (s : list N) : option (list N) :=
  match mapM digit_of s with
  | Some ds => if canonicalb k ds then Some (bytes_of_digits k ds) else None
  | None => None
  end.

Lemma mapM_map_inv : forall A B (f : A -> option B) (g : B -> A) (l : list B),
  Forall (fun b => f (g b) = Some b) l -> mapM f (map g l) = Some l.
Proof.
  intros A B f g l H. induction H as [|b l Hb H IH]; [reflexivity|].
  cbn [map mapM]. now rewrite Hb, IH.
Qed.

Lemma mapM_Some_map : forall A B (f : A -> option B) (g : B -> A) (l : list A) (r : list B),
  (forall a b, f a = Some b -> g b = a) -> mapM f l = Some r -> map g r = l.
Proof.
  intros A B f g l. induction l as [|a l IH]; intros r Hfg H.
  - cbn in H. injection H as <-. reflexivity.
  - cbn [mapM] in H. destruct (f a) as [b|] eqn:Ea; [|discriminate].
    destruct (mapM f l) as [bs|] eqn:El; [|discriminate]. injection H as <-.
    cbn [map]. rewrite (Hfg _ _ Ea), (IH bs Hfg eq_refl). reflexivity.
Qed.

Lemma index_of_nth : forall alpha d, NoDup alpha -> (N.to_nat d < length alpha) ->
  index_of (char_of alpha d) alpha = Some d.
Proof.
  unfold char_of. intros alpha d Hnd. rewrite <- (N2Nat.id d) at 3.
  generalize (N.to_nat d) as n. clear d. induction Hnd as [|a r Hin Hnd IH]; intros n Hn.
  - cbn in Hn. lia.
  - destruct n as [|n].
    + cbn [nth index_of]. now rewrite N.eqb_refl.
    + cbn [nth index_of length] in *.
      destruct (N.eqb_spec (nth n r 0%N) a) as [E|_].
      * exfalso. apply Hin. rewrite <- E. apply nth_In. lia.
      * rewrite IH by lia. cbn [option_map]. f_equal. lia.
Qed.

Lemma index_of_Some : forall alpha c d, index_of c alpha = Some d ->
  char_of alpha d = c /\ N.to_nat d < length alpha.
Proof.
  unfold char_of. induction alpha as [|a r IH]; intros c d H; [discriminate|].
  cbn [index_of] in H. destruct (N.eqb_spec c a) as [->|_].
  - injection H as <-. cbn. split; [reflexivity|lia].
  - destruct (index_of c r) as [d'|] eqn:E; [|discriminate]. injection H as <-.
    destruct (IH _ _ E) as [H1 H2]. rewrite N2Nat.inj_succ. cbn [nth length]. split; [assumption|lia].
Qed.

Section Text.
  Variable k : nat.
  Variable alpha : list N.
  Variable digit_of : N -> option N.
  Hypothesis k_pos : 0 < k.
  Hypothesis k_le8 : k <= 8.
  (** the digit reader inverts the alphabet on every digit value *)
  Hypothesis digit_of_char : forall d, (d < 2 ^ N.of_nat k)%N -> digit_of (char_of alpha d) = Some d.

  Lemma mapM_encode : forall bs, mapM digit_of (encode k alpha bs) = Some (digits_of_bytes k bs).
  Proof.
    intros bs. unfold encode. apply mapM_map_inv.
    eapply Forall_impl; [|apply (digits_of_bytes_lt bs k_pos)]. intros d Hd. now apply digit_of_char.
  Qed.

  Theorem decode_encode : forall bs, Forall is_byte bs ->
    decode k digit_of (encode k alpha bs) = Some bs.
  Proof.
    intros bs Hb. unfold decode. rewrite mapM_encode. cbn [option_map].
    now rewrite bytes_of_digits_of_bytes.
  Qed.

  Theorem decode_strict_encode : forall bs, Forall is_byte bs ->
    decode_strict k digit_of (encode k alpha bs) = Some bs.
  Proof.
    intros bs Hb. unfold decode_strict. rewrite mapM_encode, canonical_digits_of_bytes by assumption.
    now rewrite bytes_of_digits_of_bytes.
  Qed.

  Theorem encode_inj : forall b1 b2, Forall is_byte b1 -> Forall is_byte b2 ->
    encode k alpha b1 = encode k alpha b2 -> b1 = b2.
  Proof.
    intros b1 b2 H1 H2 E. pose proof (decode_encode H1) as D1. rewrite E, (decode_encode H2) in D1.
    now injection D1.
  Qed.

  (** the reader reads nothing but alphabet characters *)
  Hypothesis digit_of_sound : forall c d, digit_of c = Some d -> char_of alpha d = c.

  Theorem decode_strict_sound : forall s bs,
    decode_strict k digit_of s = Some bs -> encode k alpha bs = s.
  Proof.
    intros s bs H. unfold decode_strict in H.
    destruct (mapM digit_of s) as [ds|] eqn:Em; [|discriminate].
    destruct (canonicalb k ds) eqn:Ec; [|discriminate]. injection H as <-.
    unfold encode. rewrite digits_of_bytes_of_digits by assumption.
    now apply (@mapM_Some_map _ _ digit_of (char_of alpha) s ds digit_of_sound).
  Qed.
End Text.

Theorem encode_length : forall k alpha bs, 0 < k ->
  length (encode k alpha bs) = (8 * length bs + (k - 1)) / k.
Proof. intros. unfold encode. rewrite map_length. now apply digits_of_bytes_length. Qed.

Lemma to_nat_lt_pow2 : forall k d, (d < 2 ^ N.of_nat k)%N -> N.to_nat d < Nat.pow 2 k.
Proof.
  intros k d H.
  assert (E : N.to_nat (2 ^ N.of_nat k) = Nat.pow 2 k) by (rewrite N2Nat.inj_pow, Nat2N.id; reflexivity).
  lia.
Qed.

(** every output character is a character of the alphabet; hence any property of
    all alphabet characters ("is not '/'", "is not '.'") holds of all output *)
Theorem encode_Forall : forall k alpha (P : N -> Prop) bs, 0 < k ->
  length alpha = Nat.pow 2 k -> Forall P alpha -> Forall P (encode k alpha bs).
Proof.
  intros k alpha P bs Hk Hlen HP. unfold encode. apply Forall_map.
  eapply Forall_impl; [|apply (digits_of_bytes_lt bs Hk)].
  intros d Hd. unfold char_of. rewrite Forall_forall in HP. apply HP, nth_In.
  rewrite Hlen. now apply to_nat_lt_pow2.
Qed.

(** * The standard digit readers of an alphabet *)

(** exact reader: position in the alphabet *)
Definition std_digit (alpha : list N) (c : N) : option N := index_of c alpha.
(** reader with a character normaliser in front (e.g. ASCII upper-casing for a
    case-insensitive decoder) *)
Definition norm_digit (norm : N -> N) (alpha : list N) (c : N) : option N := index_of (norm c) alpha.

Definition ascii_upper (c : N) : N := if ((97 <=? c) && (c <=? 122))%N then (c - 32)%N else c.
Definition ascii_lower (c : N) : N := if ((65 <=? c) && (c <=? 90))%N then (c + 32)%N else c.

Section Std.
  Variable k : nat.
  Variable alpha : list N.
  Hypothesis k_pos : 0 < k.
  Hypothesis k_le8 : k <= 8.
  Hypothesis alpha_nodup : NoDup alpha.
  Hypothesis alpha_len : length alpha = Nat.pow 2 k.

  Lemma std_digit_char : forall d, (d < 2 ^ N.of_nat k)%N -> std_digit alpha (char_of alpha d) = Some d.
  Proof.
    intros d Hd. apply index_of_nth; [assumption|]. rewrite alpha_len. now apply to_nat_lt_pow2.
  Qed.

  Lemma std_digit_sound : forall c d, std_digit alpha c = Some d -> char_of alpha d = c.
  Proof. intros c d H. now apply index_of_Some in H. Qed.

  Theorem std_decode_encode : forall bs, Forall is_byte bs ->
    decode k (std_digit alpha) (encode k alpha bs) = Some bs.
  Proof. apply decode_encode; [assumption..|exact std_digit_char]. Qed.

  Theorem std_decode_strict_encode : forall bs, Forall is_byte bs ->
    decode_strict k (std_digit alpha) (encode k alpha bs) = Some bs.
  Proof. apply decode_strict_encode; [assumption..|exact std_digit_char]. Qed.

  Theorem std_decode_strict_sound : forall s bs,
    decode_strict k (std_digit alpha) s = Some bs -> encode k alpha bs = s.
  Proof. apply decode_strict_sound; [assumption..|exact std_digit_sound]. Qed.

  Theorem std_encode_inj : forall b1 b2, Forall is_byte b1 -> Forall is_byte b2 ->
    encode k alpha b1 = encode k alpha b2 -> b1 = b2.
  Proof. apply encode_inj with (digit_of := std_digit alpha); [assumption..|exact std_digit_char]. Qed.

  (** a normalising reader still inverts the alphabet when the normaliser fixes every alphabet character *)
  Variable norm : N -> N.
  Hypothesis norm_fix : Forall (fun a => norm a = a) alpha.

  Lemma norm_digit_char : forall d, (d < 2 ^ N.of_nat k)%N -> norm_digit norm alpha (char_of alpha d) = Some d.
  Proof.
    intros d Hd. unfold norm_digit. rewrite Forall_forall in norm_fix.
    rewrite norm_fix; [now apply std_digit_char|].
    unfold char_of. apply nth_In. rewrite alpha_len. now apply to_nat_lt_pow2.
  Qed.

  Theorem norm_decode_encode : forall bs, Forall is_byte bs ->
    decode k (norm_digit norm alpha) (encode k alpha bs) = Some bs.
  Proof. apply decode_encode; [assumption..|exact norm_digit_char]. Qed.
End Std.

(** * Instances *)

(** decidable side conditions, discharged by computation for concrete alphabets *)
Fixpoint nodupb (l : list N) : bool :=
  match l with
  | [] => true
  | a :: r => negb (existsb (N.eqb a) r) && nodupb r
  end.

Lemma nodupb_NoDup : forall l, nodupb l = true -> NoDup l.
Proof.
  induction l as [|a r IH]; intros H; [constructor|].
  cbn [nodupb] in H. apply andb_prop in H. destruct H as [H1 H2]. constructor; [|now apply IH].
  intros Hin. apply negb_true_iff in H1.
  assert (existsb (N.eqb a) r = true) by (apply existsb_exists; exists a; split; [assumption|apply N.eqb_refl]).
  congruence.
Qed.

Lemma forallb_Forall : forall (p : N -> bool) l, forallb p l = true -> Forall (fun a => p a = true) l.
Proof. intros p l H. rewrite forallb_forall in H. now apply Forall_forall. Qed.

(* "ABCDEFGHIJKLMNOPQRSTUVWXYZ234567" *)
Definition b32_alpha : list N :=
  [65;66;67;68;69;70;71;72;73;74;75;76;77;78;79;80;81;82;83;84;85;86;87;88;89;90;50;51;52;53;54;55]%N.
(* "abcdefghijklmnopqrstuvwxyz234567" *)
Definition b32lower_alpha : list N := map ascii_lower b32_alpha.
(* "0123456789ABCDEFGHIJKLMNOPQRSTUV" *)
Definition b32hex_alpha : list N :=
  [48;49;50;51;52;53;54;55;56;57;65;66;67;68;69;70;71;72;73;74;75;76;77;78;79;80;81;82;83;84;85;86]%N.
(* "ABCDEFGHIJKLMNOPQRSTUVWXYZabcdefghijklmnopqrstuvwxyz0123456789-_" *)
Definition b64url_alpha : list N :=
  [65;66;67;68;69;70;71;72;73;74;75;76;77;78;79;80;81;82;83;84;85;86;87;88;89;90;
   97;98;99;100;101;102;103;104;105;106;107;108;109;110;111;112;113;114;115;116;117;118;119;120;121;122;
   48;49;50;51;52;53;54;55;56;57;45;95]%N.
(* "...+/" *)
Definition b64_alpha : list N := firstn 62 b64url_alpha ++ [43; 47]%N.
(* "0123456789abcdef" *)
Definition b16_alpha : list N := [48;49;50;51;52;53;54;55;56;57;97;98;99;100;101;102]%N.

(** unpadded base32, upper-case alphabet (Go: base32.RawStdEncoding of multiformats/go-base32
    and encoding/base32.StdEncoding.WithPadding(NoPadding)) *)
Definition b32_encode : list N -> list N := encode 5 b32_alpha.
Definition b32_decode : list N -> option (list N) := decode 5 (std_digit b32_alpha).
Definition b32_decode_strict : list N -> option (list N) := decode_strict 5 (std_digit b32_alpha).
(** case-insensitive reader (multiformats/go-base32 NewEncodingCI) *)
Definition b32_decode_ci : list N -> option (list N) := decode 5 (norm_digit ascii_upper b32_alpha).

Definition b32lower_encode : list N -> list N := encode 5 b32lower_alpha.
Definition b32lower_decode : list N -> option (list N) := decode 5 (std_digit b32lower_alpha).
Definition b32lower_decode_strict : list N -> option (list N) := decode_strict 5 (std_digit b32lower_alpha).

Definition b64url_encode : list N -> list N := encode 6 b64url_alpha.
Definition b64url_decode : list N -> option (list N) := decode 6 (std_digit b64url_alpha).
Definition b64url_decode_strict : list N -> option (list N) := decode_strict 6 (std_digit b64url_alpha).

Definition b16_encode : list N -> list N := encode 4 b16_alpha.
Definition b16_decode : list N -> option (list N) := decode 4 (std_digit b16_alpha).

Ltac alpha_side :=
  first [ lia
        | apply nodupb_NoDup; vm_compute; reflexivity
        | vm_compute; reflexivity ].

Theorem b32_decode_encode : forall bs, Forall is_byte bs -> b32_decode (b32_encode bs) = Some bs.
Proof. apply std_decode_encode; alpha_side. Qed.
Theorem b32_decode_strict_encode : forall bs, Forall is_byte bs -> b32_decode_strict (b32_encode bs) = Some bs.
Proof. apply std_decode_strict_encode; alpha_side. Qed.
Theorem b32_decode_strict_sound : forall s bs, b32_decode_strict s = Some bs -> b32_encode bs = s.
Proof. apply std_decode_strict_sound; alpha_side. Qed.
Lemma fix_Forall : forall (f : N -> N) l, forallb (fun a => (f a =? a)%N) l = true -> Forall (fun a => f a = a) l.
Proof.
  intros f l H. rewrite forallb_forall in H. apply Forall_forall. intros a Ha. now apply N.eqb_eq, H.
Qed.

Theorem b32_decode_ci_encode : forall bs, Forall is_byte bs -> b32_decode_ci (b32_encode bs) = Some bs.
Proof. apply norm_decode_encode; try alpha_side. apply fix_Forall. vm_compute. reflexivity. Qed.
Theorem b32_encode_inj : forall b1 b2, Forall is_byte b1 -> Forall is_byte b2 ->
  b32_encode b1 = b32_encode b2 -> b1 = b2.
Proof. apply std_encode_inj; alpha_side. Qed.
(** Go's EncodedLen for the unpadded encoding: (n*8 + 4) / 5 *)
Theorem b32_encode_length : forall bs, length (b32_encode bs) = (8 * length bs + 4) / 5.
Proof. intros bs. unfold b32_encode. rewrite encode_length by lia. reflexivity. Qed.
(** all output characters are upper-case letters or the digits 2..7 — in particular
    none is '/' (47), '.' (46), '=' (61) or a lower-case letter *)
Definition b32_char (c : N) : Prop := (65 <= c <= 90 \/ 50 <= c <= 55)%N.
Theorem b32_encode_chars : forall bs, Forall b32_char (b32_encode bs).
Proof.
  intros bs. apply encode_Forall; [lia|reflexivity|].
  unfold b32_alpha, b32_char. repeat constructor; lia.
Qed.

Theorem b32lower_decode_encode : forall bs, Forall is_byte bs -> b32lower_decode (b32lower_encode bs) = Some bs.
Proof. apply std_decode_encode; alpha_side. Qed.
Theorem b32lower_decode_strict_encode : forall bs, Forall is_byte bs ->
  b32lower_decode_strict (b32lower_encode bs) = Some bs.
Proof. apply std_decode_strict_encode; alpha_side. Qed.
Theorem b32lower_decode_strict_sound : forall s bs, b32lower_decode_strict s = Some bs -> b32lower_encode bs = s.
Proof. apply std_decode_strict_sound; alpha_side. Qed.
Theorem b32lower_encode_inj : forall b1 b2, Forall is_byte b1 -> Forall is_byte b2 ->
  b32lower_encode b1 = b32lower_encode b2 -> b1 = b2.
Proof. apply std_encode_inj; alpha_side. Qed.
(** the lower-case encoding is the upper-case one, lower-cased *)
Theorem b32lower_encode_lower : forall bs, b32lower_encode bs = map ascii_lower (b32_encode bs).
Proof.
  intros bs. unfold b32lower_encode, b32_encode, encode. rewrite map_map.
  apply map_ext_Forall. eapply Forall_impl; [|apply (@digits_of_bytes_lt 5 bs); lia].
  intros d Hd. cbv beta in Hd. unfold char_of, b32lower_alpha.
  change 0%N with (ascii_lower 0) at 1. apply map_nth.
Qed.

Theorem b64url_decode_encode : forall bs, Forall is_byte bs -> b64url_decode (b64url_encode bs) = Some bs.
Proof. apply std_decode_encode; alpha_side. Qed.
Theorem b64url_decode_strict_encode : forall bs, Forall is_byte bs ->
  b64url_decode_strict (b64url_encode bs) = Some bs.
Proof. apply std_decode_strict_encode; alpha_side. Qed.
Theorem b64url_decode_strict_sound : forall s bs, b64url_decode_strict s = Some bs -> b64url_encode bs = s.
Proof. apply std_decode_strict_sound; alpha_side. Qed.
Theorem b64url_encode_inj : forall b1 b2, Forall is_byte b1 -> Forall is_byte b2 ->
  b64url_encode b1 = b64url_encode b2 -> b1 = b2.
Proof. apply std_encode_inj; alpha_side. Qed.
Theorem b64url_encode_length : forall bs, length (b64url_encode bs) = (8 * length bs + 5) / 6.
Proof. intros bs. unfold b64url_encode. rewrite encode_length by lia. reflexivity. Qed.

Theorem b16_decode_encode : forall bs, Forall is_byte bs -> b16_decode (b16_encode bs) = Some bs.
Proof. apply std_decode_encode; alpha_side. Qed.

(** RFC 4648 section 10 test vectors ("", "f", "fo", "foo", "foob", "fooba", "foobar") *)
Example b32_rfc4648 :
  map b32_encode [[]; [102]; [102;111]; [102;111;111]; [102;111;111;98]; [102;111;111;98;97]; [102;111;111;98;97;114]]%N
  = [ [];
      [77;89]; (* MY *)
      [77;90;88;81]; (* MZXQ *)
      [77;90;88;87;54]; (* MZXW6 *)
      [77;90;88;87;54;89;81]; (* MZXW6YQ *)
      [77;90;88;87;54;89;84;66]; (* MZXW6YTB *)
      [77;90;88;87;54;89;84;66;79;73] (* MZXW6YTBOI *) ]%N.
Proof. vm_compute. reflexivity. Qed.

Example b64url_rfc4648 :
  map b64url_encode [[102]; [102;111]; [102;111;111]; [251; 255]]%N
  = [ [90;103]; (* Zg *) [90;109;56]; (* Zm8 *) [90;109;57;118]; (* Zm9v *) [45;95;56] (* -_8 *) ]%N.
Proof. vm_compute. reflexivity. Qed.

(** the strict decoder rejects non-canonical text that the lenient one accepts: "MZ" has
    non-zero trailing bits, "M" is too short to carry a byte, "my" is lower-case *)
Example b32_strict_rejects :
  b32_decode [77;90]%N = Some [102]%N /\ b32_decode_strict [77;90]%N = None /\
  b32_decode [77]%N = Some [] /\ b32_decode_strict [77]%N = None /\
  b32_decode [109;121]%N = None /\ b32_decode_ci [109;121]%N = Some [102]%N.
Proof. vm_compute. repeat split; reflexivity. Qed.
