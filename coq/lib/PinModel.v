(** Shared executable model of the datastore pinner (pinning/pinner/dspinner/pin.go), used by
    C22 (pin model, failed calls) and C23 (crash consistency).  Definitions only.

    The persistent state is what the pinner keeps under /pins in its datastore:
      /pins/pin/<id>                    pin record  {cid, mode, name}
      /pins/index/cidRindex/<cid>/<id>  recursive-pin index   (dsindex multimap, see C24)
      /pins/index/cidDindex/<cid>/<id>  direct-pin index
      /pins/index/nameIndex/<name>/<id> name index (only for non-empty names)
      /pins/state/dirty                 dirty flag  ([1] / [0] / absent)
    Every change the pinner makes is ONE whole-key datastore write; each operation is modelled
    as the ordered list of writes it issues ([log], newest first) together with the resulting
    state.  The in-memory state of a pinner is its dirty/clean counter pair (only
    [dirty <> clean] matters: [mdirty]) and the autosync switch.
    CIDs, pin ids and names are numbers (name 0 = the empty name); pin ids are drawn by the
    implementation at random: they enter as an argument ([newid]). *)
From Coq Require Import List Bool NArith.
Import ListNotations.
Open Scope N_scope.

Inductive mode := MRec | MDir.
Definition mode_eqb (a b : mode) : bool :=
  match a, b with MRec, MRec | MDir, MDir => true | _, _ => false end.

Record prec := mkrec { r_id : N; r_cid : N; r_mode : mode; r_name : N }.
Definition prec_eqb (a b : prec) : bool :=
  (r_id a =? r_id b) && (r_cid a =? r_cid b) && mode_eqb (r_mode a) (r_mode b) && (r_name a =? r_name b).

Inductive idx := IR | ID | IN.
Definition idx_eqb (a b : idx) : bool :=
  match a, b with IR, IR | ID, ID | IN, IN => true | _, _ => false end.

Record store := mkstore {
  recs : list prec;
  idxR : list (N * N);
  idxD : list (N * N);
  idxN : list (N * N);
  dflag : option bool
}.
Definition empty_store : store := mkstore [] [] [] [] None.

(** multimap operations of an index (justified against dsindex by C24) *)
Definition pr_eqb (a b : N * N) : bool := (fst a =? fst b) && (snd a =? snd b).
Definition mm_has (p : N * N) (m : list (N * N)) : bool := existsb (pr_eqb p) m.
Definition mm_add (p : N * N) (m : list (N * N)) := if mm_has p m then m else m ++ [p].
Definition mm_del (p : N * N) (m : list (N * N)) := filter (fun q => negb (pr_eqb q p)) m.
Definition mm_delkey (k : N) (m : list (N * N)) := filter (fun q => negb (fst q =? k)) m.
(** Search: the values of key [k], each once (index entries are datastore keys: a set) *)
Definition mm_search (k : N) (m : list (N * N)) : list N :=
  nodup N.eq_dec (map snd (filter (fun q => fst q =? k) m)).
Definition mm_hasany (k : N) (m : list (N * N)) : bool := existsb (fun q => fst q =? k) m.

Definition get_idx (x : idx) (s : store) : list (N * N) :=
  match x with IR => idxR s | ID => idxD s | IN => idxN s end.
Definition set_idx (x : idx) (m : list (N * N)) (s : store) : store :=
  match x with
  | IR => mkstore (recs s) m (idxD s) (idxN s) (dflag s)
  | ID => mkstore (recs s) (idxR s) m (idxN s) (dflag s)
  | IN => mkstore (recs s) (idxR s) (idxD s) m (dflag s)
  end.
Definition set_recs (rs : list prec) (s : store) : store :=
  mkstore rs (idxR s) (idxD s) (idxN s) (dflag s).
Definition set_dflag (b : option bool) (s : store) : store :=
  mkstore (recs s) (idxR s) (idxD s) (idxN s) b.

Definition idx_of_mode (m : mode) : idx := match m with MRec => IR | MDir => ID end.
Definition other_mode (m : mode) : mode := match m with MRec => MDir | MDir => MRec end.

Definition find_rec (i : N) (s : store) : option prec := find (fun r => r_id r =? i) (recs s).
Definition del_rec (i : N) (rs : list prec) : list prec := filter (fun r => negb (r_id r =? i)) rs.

(** one datastore write *)
Inductive write :=
| WDirty (b : bool)                       (* Put /pins/state/dirty [1] or [0] *)
| WPutRec (r : prec)                      (* Put /pins/pin/<id> *)
| WDelRec (i : N)                         (* Delete /pins/pin/<id> *)
| WAddIdx (x : idx) (k i : N)             (* Put of one index entry *)
| WDelIdx (x : idx) (k i : N).            (* Delete of one index entry *)

Definition apply_write (s : store) (w : write) : store :=
  match w with
  | WDirty b => set_dflag (Some b) s
  | WPutRec r => set_recs (del_rec (r_id r) (recs s) ++ [r]) s
  | WDelRec i => set_recs (del_rec i (recs s)) s
  | WAddIdx x k i => set_idx x (mm_add (k, i) (get_idx x s)) s
  | WDelIdx x k i => set_idx x (mm_del (k, i) (get_idx x s)) s
  end.
Definition apply_writes (ws : list write) (s : store) : store := fold_left apply_write ws s.

(** a running pinner *)
Record pst := mkpst { st : store; mdirty : bool; autosync : bool; log : list write }.

Definition emit (w : write) (p : pst) : pst :=
  mkpst (apply_write (st p) w) (mdirty p) (autosync p) (w :: log p).
Definition set_md (b : bool) (p : pst) : pst := mkpst (st p) b (autosync p) (log p).

(** setDirty: writes the flag only when the state was clean *)
Definition set_dirty (p : pst) : pst := if mdirty p then p else set_md true (emit (WDirty true) p).
(** setClean: writes the flag only when the state was dirty *)
Definition set_clean (p : pst) : pst := if mdirty p then set_md false (emit (WDirty false) p) else p.
Definition flush_pins (force : bool) (p : pst) : pst :=
  if autosync p || force then set_clean p else p.

(** addPin: dirty flag, record, cid index, name index *)
Definition add_pin (i c : N) (m : mode) (n : N) (p : pst) : pst :=
  let p := set_dirty p in
  let p := emit (WPutRec (mkrec i c m n)) p in
  let p := emit (WAddIdx (idx_of_mode m) c i) p in
  if n =? 0 then p else emit (WAddIdx IN n i) p.

(** removePin: dirty flag, cid index, name index, record last *)
Definition remove_pin (r : prec) (p : pst) : pst :=
  let p := set_dirty p in
  let p := emit (WDelIdx (idx_of_mode (r_mode r)) (r_cid r) (r_id r)) p in
  let p := if r_name r =? 0 then p else emit (WDelIdx IN (r_name r) (r_id r)) p in
  emit (WDelRec (r_id r)) p.

(** which pins removePinsForCid looks at *)
Inductive sel := SRec | SDir | SAny.
Definition sel_ids (c : N) (sl : sel) (s : store) : list N :=
  match sl with
  | SRec => mm_search c (idxR s)
  | SDir => mm_search c (idxD s)
  | SAny => mm_search c (idxR s) ++ mm_search c (idxD s)
  end.
Definition sel_mode (sl : sel) (m : mode) : bool :=
  match sl, m with SAny, _ | SRec, MRec | SDir, MDir => true | _, _ => false end.

(** the index-repair branch of removePinsForCid (index entry whose record is missing):
    DeleteKey on the index(es), forced flush.  DeleteKey = one Delete per entry. *)
Definition del_key (x : idx) (c : N) (p : pst) : pst :=
  fold_left (fun p i => emit (WDelIdx x c i) p) (mm_search c (get_idx x (st p))) p.
Definition fix_index (c : N) (sl : sel) (p : pst) : pst :=
  let p := set_dirty p in
  let p := match sl with
           | SRec => del_key IR c p
           | SDir => del_key ID c p
           | SAny => del_key ID c (del_key IR c p)
           end in
  flush_pins true p.

(** remove the given pin ids (loadPin, then removePin when the mode is selected) *)
Fixpoint remove_ids (c : N) (sl : sel) (ids : list N) (p : pst) : bool * pst :=
  match ids with
  | [] => (false, p)
  | i :: rest =>
      match find_rec i (st p) with
      | None => let (_, p') := remove_ids c sl rest (fix_index c sl p) in (true, p')
      | Some r =>
          if sel_mode sl (r_mode r)
          then let (_, p') := remove_ids c sl rest (remove_pin r p) in (true, p')
          else remove_ids c sl rest p
      end
  end.
Definition remove_pins_for_cid (c : N) (sl : sel) (p : pst) : bool * pst :=
  remove_ids c sl (sel_ids c sl (st p)) p.

(** defect switches: [true] = what the code does today *)
Record flags := mkflags {
  f_remove_then_add : bool;          (* re-pin removes the old pin(s) before adding the new one *)
  f_indirect_includes_roots : bool   (* IsPinnedWithType(Indirect) also reports recursive roots *)
}.
Definition flags_now : flags := mkflags true true.
Definition flags_fixed : flags := mkflags false false.

(** result classes the harness can tell apart without looking at error text *)
Inductive res := ROk | RNotPinned | RFetch | RErr.

(** doPinRecursive.  [fetch_ok]: outcome of FetchGraph (always true when no fetch is made).
    With the defect switch off the old pins are looked up first and removed after the new
    pin has been added. *)
Definition pin_recursive (fl : flags) (newid c n : N) (fetch_ok : bool) (p : pst) : res * pst :=
  if f_remove_then_add fl then
    let p := if mm_hasany c (idxR (st p)) then snd (remove_pins_for_cid c SRec p) else p in
    if negb fetch_ok then (RFetch, p) else
    let p := if mm_hasany c (idxD (st p)) then snd (remove_pins_for_cid c SDir p) else p in
    let p := add_pin newid c MRec n p in
    (ROk, flush_pins false p)
  else
    if negb fetch_ok then (RFetch, p) else
    let old := sel_ids c SAny (st p) in
    let p := add_pin newid c MRec n p in
    let p := snd (remove_ids c SAny old p) in
    (ROk, flush_pins false p).

(** doPinDirect *)
Definition pin_direct (fl : flags) (newid c n : N) (p : pst) : res * pst :=
  if mm_hasany c (idxR (st p)) then (RErr, p) else
  if f_remove_then_add fl then
    let p := if mm_hasany c (idxD (st p)) then snd (remove_pins_for_cid c SDir p) else p in
    let p := add_pin newid c MDir n p in
    (ROk, flush_pins false p)
  else
    let old := sel_ids c SDir (st p) in
    let p := add_pin newid c MDir n p in
    let p := snd (remove_ids c SDir old p) in
    (ROk, flush_pins false p).

(** Unpin *)
Definition unpin (c : N) (recursive : bool) (p : pst) : res * pst :=
  if mm_hasany c (idxR (st p)) && negb recursive then (RErr, p) else
  if negb (mm_hasany c (idxR (st p))) && negb (mm_hasany c (idxD (st p))) then (RNotPinned, p) else
  let (removed, p) := remove_pins_for_cid c SAny p in
  if removed then (ROk, flush_pins false p) else (ROk, p).

(** Update.  [diff_ok]: outcome of dagutils.DiffEnumerate *)
Definition update (newid from to : N) (unp : bool) (diff_ok : bool) (p : pst) : res * pst :=
  match mm_search from (idxR (st p)) with
  | [fid] =>
      if from =? to then (ROk, p) else
      if mm_hasany to (idxR (st p)) then (RErr, p) else
      if negb diff_ok then (RFetch, p) else
      match find_rec fid (st p) with
      | None => (RErr, p)
      | Some r =>
          let p := add_pin newid to MRec (r_name r) p in
          let p := if unp then snd (remove_pins_for_cid from SRec p) else p in
          (ROk, flush_pins false p)
      end
  | _ => (RErr, p)
  end.

(** operations.  Modes are the numbers of pinner.Mode: 0 Recursive, 1 Direct, 2 Indirect,
    3 Internal, 4 NotPinned, 5 Any; everything else is invalid. *)
Inductive op :=
| OPin (c : N) (recursive : bool) (n : N) (fetch_ok : bool)   (* Pin(node, recursive, name) *)
| OPinMode (c : N) (m : N) (n : N)                            (* PinWithMode(c, mode, name) *)
| OUnpin (c : N) (recursive : bool)
| OUpdate (from to : N) (unp : bool) (diff_ok : bool)
| OSetAuto (b : bool)                                         (* SetAutosync *)
| OFlush.

Definition exec (fl : flags) (newid : N) (p : pst) (o : op) : res * pst :=
  match o with
  | OPin c true n ok => pin_recursive fl newid c n ok p
  | OPin c false n _ => pin_direct fl newid c n p
  | OPinMode c m n =>
      if m =? 0 then pin_recursive fl newid c n true p
      else if m =? 1 then pin_direct fl newid c n p
      else (RErr, p)
  | OUnpin c r => unpin c r p
  | OUpdate f t u ok => update newid f t u ok p
  | OSetAuto b => (ROk, mkpst (st p) (mdirty p) b (log p))
  | OFlush => (ROk, flush_pins true p)
  end.

(** the writes an operation issued, oldest first *)
Definition with_log (l : list write) (p : pst) : pst := mkpst (st p) (mdirty p) (autosync p) l.
Definition exec_log (fl : flags) (newid : N) (p : pst) (o : op) : res * pst * list write :=
  let (r, p') := exec fl newid (with_log [] p) o in (r, with_log (log p) p', rev (log p')).

(** ---------- opening a pinner on a datastore (New) ---------- *)
(** rebuildIndexes, one record: drop a stale entry in the other cid index, restore the missing
    cid index entry, restore the missing name index entry.  (The periodic flush every 50
    records is not modelled; it does not change the rebuilt state.) *)
Definition rebuild_one (p : pst) (r : prec) : pst :=
  let c := r_cid r in let i := r_id r in
  let stale := idx_of_mode (other_mode (r_mode r)) in
  let own := idx_of_mode (r_mode r) in
  let p := if mm_has (c, i) (get_idx stale (st p)) then emit (WDelIdx stale c i) p else p in
  let p := if mm_has (c, i) (get_idx own (st p)) then p else emit (WAddIdx own c i) p in
  if r_name r =? 0 then p
  else if mm_has (r_name r, i) (idxN (st p)) then p else emit (WAddIdx IN (r_name r) i) p.

Definition rebuild (p : pst) : pst := flush_pins true (fold_left rebuild_one (recs (st p)) p).

Definition open_pinner (s : store) : pst :=
  match dflag s with
  | Some true => rebuild (mkpst s true true [])
  | _ => mkpst s false true []
  end.

(** ---------- consistency of records and indexes (boolean, used by the checks) ---------- *)
Definition rec_matches (i k : N) (m : option mode) (byname : bool) (s : store) : bool :=
  match find_rec i s with
  | None => false
  | Some r =>
      if byname then r_name r =? k
      else (r_cid r =? k) && match m with Some m' => mode_eqb (r_mode r) m' | None => true end
  end.
(** every index entry has its pin record *)
Definition orphan_free (s : store) : bool :=
  forallb (fun e => rec_matches (snd e) (fst e) (Some MRec) false s) (idxR s) &&
  forallb (fun e => rec_matches (snd e) (fst e) (Some MDir) false s) (idxD s) &&
  forallb (fun e => rec_matches (snd e) (fst e) None true s && negb (fst e =? 0)) (idxN s).
(** every pin record is indexed *)
Definition rec_indexed (s : store) (r : prec) : bool :=
  mm_has (r_cid r, r_id r) (get_idx (idx_of_mode (r_mode r)) s) &&
  ((r_name r =? 0) || mm_has (r_name r, r_id r) (idxN s)).
Definition complete (s : store) : bool := forallb (rec_indexed s) (recs s).
Fixpoint nodupN (l : list N) : bool :=
  match l with [] => true | a :: r => negb (existsb (N.eqb a) r) && nodupN r end.
Definition uniq_ids (s : store) : bool := nodupN (map r_id (recs s)).
Definition consistent (s : store) : bool := orphan_free s && complete s && uniq_ids s.

(** a CID is pinned (directly or recursively) *)
Definition pinned (s : store) (c : N) : bool := mm_hasany c (idxR s) || mm_hasany c (idxD s).
