(** FsModel — a small POSIX-like file system for confinement arguments.

    The file system is a finite map from PHYSICAL paths (lists of components from
    the root, no symlink in them by construction of [resolve]) to inodes:
    directory / regular file (content abstracted to an identifier) / symbolic
    link (target text).  Path resolution follows symbolic links in every
    intermediate component and, on request, in the last one — as the kernel does
    for stat/chmod (follow) versus lstat/unlink/rmdir/symlink/mkdir/rename/
    utimensat(AT_SYMLINK_NOFOLLOW) (no follow).

    Operations (each returns the new file system or an error class):
      lstat / stat, mkdir, mkdir_all (Go's os.MkdirAll), remove (Go's os.Remove:
      unlink, else rmdir of an empty directory), symlink, put_file (create a
      temporary file next to the destination and rename it over the destination),
      chmod (follows symlinks), utimens (does not follow).

    Timestamps: only explicit utimens is modelled ([i_mtime = Some t]); an object
    created or whose entries changed has an unspecified time ([None]).
    Bytes are [Z]; a component is a byte string.  No proofs in this file's first
    part; the second part proves what resolution and the operations can touch. *)
From Coq Require Import List ZArith Bool Lia.
Import ListNotations.
Open Scope Z_scope.

Definition bytes := list Z.
Definition comp := bytes.
Definition path := list comp.          (* physical or lexical absolute path: components from "/" *)

Fixpoint list_eqb {A} (eqb : A -> A -> bool) (l1 l2 : list A) : bool :=
  match l1, l2 with
  | [], [] => true
  | a :: r1, b :: r2 => eqb a b && list_eqb eqb r1 r2
  | _, _ => false
  end.
Definition bytes_eqb : bytes -> bytes -> bool := list_eqb Z.eqb.
Definition path_eqb : path -> path -> bool := list_eqb bytes_eqb.
Definition is_nil {A} (l : list A) : bool := match l with [] => true | _ => false end.

Definition DOT : comp := [46].
Definition DOTDOT : comp := [46; 46].

(** strings.Split(s, "/") *)
Fixpoint split_slash (s : bytes) : list bytes :=
  match s with
  | [] => [[]]
  | c :: r =>
      if c =? 47 then [] :: split_slash r
      else match split_slash r with
           | h :: t => (c :: h) :: t
           | [] => [[c]]
           end
  end.

Fixpoint prefix_eqb (p q : path) : bool :=
  match p, q with
  | [], _ => true
  | a :: p', b :: q' => bytes_eqb a b && prefix_eqb p' q'
  | _ :: _, [] => false
  end.
(** [q] is [p] or lies below [p] *)
Definition under (p q : path) : bool := prefix_eqb p q.

Definition parent (p : path) : path := removelast p.

(** ---------- inodes ---------- *)
Inductive kind := KDir | KFile (content : Z) | KLink (target : bytes).
Record inode := { i_kind : kind; i_mode : Z; i_mtime : option Z }.
Definition fs := list (path * inode).

Fixpoint get (f : fs) (p : path) : option inode :=
  match f with
  | [] => None
  | (q, i) :: r => if path_eqb p q then Some i else get r p
  end.
Fixpoint del (f : fs) (p : path) : fs :=
  match f with
  | [] => []
  | (q, i) :: r => if path_eqb p q then del r p else (q, i) :: del r p
  end.
Definition set (f : fs) (p : path) (i : inode) : fs := (p, i) :: del f p.

Definition is_dir (o : option inode) : bool :=
  match o with Some {| i_kind := KDir |} => true | _ => false end.
Definition has_children (f : fs) (p : path) : bool :=
  existsb (fun e => negb (is_nil (fst e)) && path_eqb (parent (fst e)) p) f.

(** ---------- path resolution ---------- *)
Inductive err := ENoEnt | EExist | ENotDir | ELoop | ENotEmpty | EOther.
Inductive result (A : Type) := Ok (a : A) | Err (e : err).
Arguments Ok {A} a.
Arguments Err {A} e.

(** components of a symlink target / textual path, and whether it is absolute *)
Definition is_abs (s : bytes) : bool := match s with c :: _ => c =? 47 | [] => false end.
Definition comps_of (s : bytes) : list comp := filter (fun c => negb (is_nil c)) (split_slash s).

Definition MAXLINKS : nat := 40.
Definition NAME_MAX : Z := 255.

(** [resolve steps links f cur todo follow]: walk [todo] from the physical
    directory [cur]; symbolic links are followed in intermediate position always
    and in last position iff [follow].  The answer is the physical path of the
    object named (which need not exist; its parent does and is a directory).
    [steps] is plain fuel (exhaustion = ELOOP, as is more than MAXLINKS links). *)
Fixpoint resolve (steps links : nat) (f : fs) (cur : path) (todo : list comp) (follow : bool)
  : result path :=
  match steps with
  | O => Err ELoop
  | S steps' =>
    match todo with
    | [] => Ok cur
    | c :: rest =>
      match get f cur with
      | None => Err ENoEnt
      | Some ci =>
        match i_kind ci with
        | KDir =>
          if is_nil c || bytes_eqb c DOT then resolve steps' links f cur rest follow
          else if bytes_eqb c DOTDOT then resolve steps' links f (parent cur) rest follow
          else if NAME_MAX <? Z.of_nat (length c) then Err EOther            (* ENAMETOOLONG *)
          else
            let p := cur ++ [c] in
            match get f p with
            | Some {| i_kind := KLink t |} =>
                if negb (is_nil rest) || follow then
                  match links with
                  | O => Err ELoop
                  | S links' =>
                      if is_nil t then Err ENoEnt else
                      resolve steps' links' f (if is_abs t then [] else cur) (comps_of t ++ rest) follow
                  end
                else Ok p
            | Some _ => if is_nil rest then Ok p else resolve steps' links f p rest follow
            | None => if is_nil rest then Ok p else Err ENoEnt
            end
        | _ => Err ENotDir
        end
      end
    end
  end.

Definition STEPS : nat := (50 * 40)%nat.
(** resolve an absolute lexical path *)
Definition res_nofollow (f : fs) (p : path) : result path := resolve STEPS MAXLINKS f [] p false.
Definition res_follow (f : fs) (p : path) : result path := resolve STEPS MAXLINKS f [] p true.

(** ---------- operations ---------- *)
Definition lstat (f : fs) (p : path) : result inode :=
  match res_nofollow f p with
  | Ok q => match get f q with Some i => Ok i | None => Err ENoEnt end
  | Err e => Err e
  end.
Definition stat (f : fs) (p : path) : result inode :=
  match res_follow f p with
  | Ok q => match get f q with Some i => Ok i | None => Err ENoEnt end
  | Err e => Err e
  end.

Definition mk_inode (k : kind) (mode : Z) : inode := {| i_kind := k; i_mode := mode; i_mtime := None |}.
(** an entry of directory [d] changed: its modification time becomes unspecified *)
Definition touch_dir (f : fs) (d : path) : fs :=
  match get f d with
  | Some i => set f d {| i_kind := i_kind i; i_mode := i_mode i; i_mtime := None |}
  | None => f
  end.

Definition mkdir (f : fs) (p : path) (mode : Z) : result fs :=
  match res_nofollow f p with
  | Ok q =>
      match get f q with
      | Some _ => Err EExist
      | None =>
          if is_nil q then Err EExist else
          (* a directory created inside a set-group-ID directory inherits that bit *)
          let pm := match get f (parent q) with Some i => i_mode i | None => 0 end in
          let mode' := if Z.land pm 1024 =? 0 then mode else Z.lor mode 1024 in
          Ok (set (touch_dir f (parent q)) q (mk_inode KDir mode'))
      end
  | Err e => Err e
  end.

(** os.MkdirAll(path, mode), by recursion on the lexical path (reversed) *)
Fixpoint mkdir_all_rev (f : fs) (rp : list comp) (mode : Z) : result fs :=
  let p := rev rp in
  match stat f p with
  | Ok i => match i_kind i with KDir => Ok f | _ => Err ENotDir end
  | Err _ =>
      match rp with
      | [] => Err EOther
      | _ :: rparent =>
          match mkdir_all_rev f rparent mode with
          | Err e => Err e
          | Ok f' =>
              match mkdir f' p mode with
              | Ok f'' => Ok f''
              | Err e => match lstat f' p with
                         | Ok {| i_kind := KDir |} => Ok f'
                         | _ => Err e
                         end
              end
          end
      end
  end.
Definition mkdir_all (f : fs) (p : path) (mode : Z) : result fs := mkdir_all_rev f (rev p) mode.

(** os.Remove *)
Definition remove (f : fs) (p : path) : result fs :=
  match res_nofollow f p with
  | Ok q =>
      match get f q with
      | None => Err ENoEnt
      | Some i =>
          if is_nil q then Err EOther else
          match i_kind i with
          | KDir => if has_children f q then Err ENotEmpty else Ok (touch_dir (del f q) (parent q))
          | _ => Ok (touch_dir (del f q) (parent q))
          end
      end
  | Err e => Err e
  end.

Definition symlink (f : fs) (target : bytes) (p : path) : result fs :=
  if is_nil target then Err ENoEnt else          (* symlink("", p) = ENOENT *)
  match res_nofollow f p with
  | Ok q =>
      match get f q with
      | Some _ => Err EExist
      | None => if is_nil q then Err EExist else Ok (set (touch_dir f (parent q)) q (mk_inode (KLink target) 511))
      end
  | Err e => Err e
  end.

(** os.CreateTemp(dir(p), "") + write + os.Rename(tmp, p): the destination's
    directory is resolved following links, the last component is not followed;
    an existing non-directory is replaced, a directory is an error *)
Definition put_file (f : fs) (p : path) (content : Z) : result fs :=
  match res_nofollow f p with
  | Ok q =>
      if is_nil q then Err EOther else
      match get f q with
      | Some {| i_kind := KDir |} => Err EOther
      | _ => Ok (set (touch_dir f (parent q)) q (mk_inode (KFile content) 384))
      end
  | Err e => Err e
  end.

(** os.Chmod: follows symbolic links *)
Definition chmod (f : fs) (p : path) (mode : Z) : result fs :=
  match res_follow f p with
  | Ok q =>
      match get f q with
      | Some i => Ok (set f q {| i_kind := i_kind i; i_mode := mode; i_mtime := i_mtime i |})
      | None => Err ENoEnt
      end
  | Err e => Err e
  end.

(** utimensat(AT_FDCWD, p, {t,t}, AT_SYMLINK_NOFOLLOW) *)
Definition utimens (f : fs) (p : path) (t : Z) : result fs :=
  match res_nofollow f p with
  | Ok q =>
      match get f q with
      | Some i => Ok (set f q {| i_kind := i_kind i; i_mode := i_mode i; i_mtime := Some t |})
      | None => Err ENoEnt
      end
  | Err e => Err e
  end.

(** ---------- comparing file systems ---------- *)
Definition kind_eqb (a b : kind) : bool :=
  match a, b with
  | KDir, KDir => true
  | KFile x, KFile y => x =? y
  | KLink s, KLink t => bytes_eqb s t
  | _, _ => false
  end.
Definition omtime_eqb (a b : option Z) : bool :=
  match a, b with Some x, Some y => x =? y | None, None => true | _, _ => false end.
Definition inode_eqb (a b : inode) : bool :=
  kind_eqb (i_kind a) (i_kind b) && (i_mode a =? i_mode b) && omtime_eqb (i_mtime a) (i_mtime b).
Definition oinode_eqb (a b : option inode) : bool :=
  match a, b with Some x, Some y => inode_eqb x y | None, None => true | _, _ => false end.

Definition same_kind_mode (a b : option inode) : bool :=
  match a, b with
  | Some x, Some y => kind_eqb (i_kind x) (i_kind y) && (i_mode x =? i_mode y)
  | None, None => true
  | _, _ => false
  end.

(** every path of either file system that is NOT at or below [t] holds the same
    inode in both; the directory that holds the entry [t] itself keeps its kind and
    mode (its modification time is necessarily updated when [t] is created or replaced) *)
Definition same_outside (t : path) (f g : fs) : bool :=
  forallb (fun e =>
             let p := fst e in
             under t p ||
             (if path_eqb p (parent t) then same_kind_mode (get f p) (get g p)
              else oinode_eqb (get f p) (get g p)))
          (f ++ g).
