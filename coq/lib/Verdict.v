(** Verdicts of the correspondence check, shared by every property.

    A [cases_*.v] file written by the Go harness defines [cases : list case]
    for one property, each case carrying the inputs AND the outputs observed
    on the real implementation.  The property's model file defines
    [check_case : case -> verdict].  The harness file ends with

      Definition R := Eval vm_compute in (failing check_case cases).
      Print R.

    and the driver parses the printed list of [(index, code)] pairs. *)
From Coq Require Import List NArith.
Import ListNotations.

Inductive verdict :=
| VOk                      (* implementation = model, and meets the specification *)
| VModelMismatch           (* implementation <> model (specification met or not evaluated) *)
| VSpecFail                (* implementation violates the specification of the property *)
| VKnown (finding : N).    (* implementation violates the specification exactly as the
                              listed known finding [finding] says (impl = flag-on model,
                              flag-off model meets the specification) *)

Definition verdict_code (v : verdict) : N :=
  match v with
  | VOk => 0 | VModelMismatch => 1 | VSpecFail => 2 | VKnown k => 100 + k
  end%N.

Fixpoint failing_from {A} (chk : A -> verdict) (i : N) (l : list A) : list (N * N) :=
  match l with
  | [] => []
  | c :: r =>
      match chk c with
      | VOk => failing_from chk (N.succ i) r
      | v => (i, verdict_code v) :: failing_from chk (N.succ i) r
      end
  end.

Definition failing {A} (chk : A -> verdict) (l : list A) : list (N * N) :=
  failing_from chk 0%N l.

(** combine a model comparison and a specification comparison *)
Definition verdict_of (model_ok spec_ok : bool) : verdict :=
  if spec_ok then (if model_ok then VOk else VModelMismatch) else VSpecFail.
