(** C31 — Trustless gateway responses are verifiable and sufficient.
    This file contains ONLY the property theorems, each closed by [exact] of a lemma proved in
    [proofs/P_C31.v], with [Print Assumptions] beneath it.
    Model: [model/M_C31.v] — which blocks GetCAR / walkGatewaySimpleSelector put into a CAR (path resolution,
    dag-scope block/entity/all, the entity-bytes arithmetic, the lazy file reader of go-unixfsnode, HAMT preload),
    over rose trees of blocks; tied to /repo by the correspondence check of ./check C31, where the harness also
    re-hashes every block and re-reads path/scope/range from the CAR's blocks alone. *)
From Coq Require Import List ZArith Bool.
From V Require Import lib.Verdict model.M_C31 proofs.P_C31.
Import ListNotations.
Open Scope Z_scope.

(** The entity-bytes arithmetic (from/to relative to the end when negative, from clamped to 0,
    numToRead = 1 + to - from) selects exactly the requested byte positions — for every file size and every
    From/To, positive, negative, open, beyond the end: the bytes read are those p of the file with
    from <= p < from + numToRead, and these are exactly the positions the parameter asks for; the error
    "tried to read less than zero bytes" occurs only when no position of the file is asked for. *)
Theorem C31_range_norm : forall fsize f t, 0 <= fsize ->
  match norm fsize (Some (f, t)) with
  | NErr => forall p, in_sem fsize (Some (f, t)) p = false
  | NRead from cnt =>
      0 <= from /\ match cnt with Some n => 0 <= n | None => True end /\
      forall p, in_sem fsize (Some (f, t)) p = in_code fsize from cnt p
  end.
Proof. exact norm_sound. Qed.
Print Assumptions C31_range_norm.

(** Sufficiency of the covering blocks: for every file DAG, every byte interval and every store that holds at
    least the blocks [covering lo hi] names (the blocks the gateway's reader loads), reading [lo, hi) through that
    store gives exactly what reading through the complete store gives — and that read never fails. *)
Theorem C31_sufficient : forall t has lo hi base,
  (forall x, In x (covering lo hi base t) -> has x = true) ->
  read has lo hi base t = read full lo hi base t.
Proof. exact read_sufficient. Qed.
Print Assumptions C31_sufficient.

Theorem C31_read_total : forall t lo hi base, exists l, read full lo hi base t = Some l.
Proof. exact read_full_total. Qed.
Print Assumptions C31_read_total.

(** For every tree of blocks and every request (path, dag-scope, entity-bytes, dups): every block the
    specification requires — the directory blocks and HAMT shards on the path, the terminal block, with
    dag-scope=all the whole DAG, with entity the HAMT's shards / the blocks holding a requested byte — is in the
    set the model's traversal emits. *)
Theorem C31_emitted_contains_required : forall w rq req, wf w = true -> required w rq = Some req ->
  exists l, needed w rq = Some l /\ incl req l.
Proof. exact required_in_needed. Qed.
Print Assumptions C31_emitted_contains_required.

(** The CAR root (the resolved terminal block) is always among the emitted blocks. *)
Theorem C31_root : forall w rq l, needed w rq = Some l -> In (term_id w rq) l.
Proof. exact root_emitted. Qed.
Print Assumptions C31_root.

(** What a passing case means: status 200, every block hashes to its CID, the root is the resolved terminal
    block, every required block is present, and no block is repeated unless dups were requested. *)
Theorem C31_spec_meaning : forall w rq o, spec_ok w rq o = true ->
  exists req, required w rq = Some req /\
    o_status o = 200 /\ o_hashes o = true /\ o_root o = term_id w rq /\
    incl req (o_blocks o) /\ (c_dups rq = false -> NoDup (o_blocks o)).
Proof. exact spec_ok_meaning. Qed.
Print Assumptions C31_spec_meaning.

(** An implementation that emits the model's set — with blocks that hash correctly and are not repeated unless
    asked — meets the specification, for every tree and request: model and specification cannot drift apart. *)
Theorem C31_model_meets_spec : forall w rq o, wf w = true ->
  model_ok w rq o = true -> o_hashes o = true ->
  forallb (fun x => 0 <=? x) (o_blocks o) = true ->
  (c_dups rq || nodupb (o_blocks o)) = true ->
  spec_ok w rq o = true.
Proof. exact model_meets_spec. Qed.
Print Assumptions C31_model_meets_spec.

(** Non-vacuity: a directory with a 10-byte file of four 3-byte chunks (balanced, fan-out 2) and a HAMT. *)
Definition ex_file : node :=
  Nd KFile 1 7 0 [Nd KFile 2 (-1) 0 [Nd KRaw 3 (-1) 3 []; Nd KRaw 4 (-1) 3 []];
                  Nd KFile 5 (-1) 0 [Nd KRaw 6 (-1) 3 []; Nd KRaw 8 (-1) 1 []]].
Definition ex_world : node :=
  Nd KDir 0 (-1) 0 [ex_file;
                    Nd KShard 9 8 0 [Nd KShard 10 (-1) 0 [Nd KLeaf 11 20 2 []]; Nd KLeaf 12 21 2 []]].

Example C31_example :
  wf ex_world = true /\
  (* bytes 3..5 of the file: the second chunk only, plus the inner blocks above it and the directory *)
  needed ex_world (Build_creq [7] SEntity (Some (3, Some 5)) false 0 0 false) = Some [0; 1; 2; 4] /\
  required ex_world (Build_creq [7] SEntity (Some (3, Some 5)) false 0 0 false) = Some [0; 1; 2; 4] /\
  (* the last 4 bytes *)
  needed ex_world (Build_creq [7] SEntity (Some (-4, None)) false 0 0 false) = Some [0; 1; 5; 6; 8] /\
  (* to before from after normalisation: error, root of the file only *)
  norm 10 (Some (5, Some (-7))) = NErr /\
  needed ex_world (Build_creq [7] SEntity (Some (5, Some (-7))) false 0 0 false) = Some [0; 1] /\
  (* an entry two shards deep, block scope; the HAMT as an entity; everything *)
  needed ex_world (Build_creq [8; 20] SBlock None false 0 0 false) = Some [0; 9; 10; 11] /\
  needed ex_world (Build_creq [8] SEntity None false 0 0 false) = Some [0; 9; 10] /\
  needed ex_world (Build_creq [] SAll None true 0 0 false) = Some [0; 1; 2; 3; 4; 5; 6; 8; 9; 10; 11; 12] /\
  (* configuration and parameters: a size limit below the content answers 410, at the content size it changes
     nothing; from after to with the same sign and unknown parameter values answer 400 *)
  expected_status (Build_creq [7] SEntity None false 9 10 false) = 410 /\
  expected_status (Build_creq [7] SEntity None false 10 10 false) = 200 /\
  expected_status (Build_creq [7] SEntity (Some (5, Some 2)) false 0 10 false) = 400 /\
  expected_status (Build_creq [7] SEntity (Some (5, Some (-7))) false 0 10 false) = 200 /\
  check_case (Case ex_world (Build_creq [7] SBlock None false 4096 10 false)
                   (Build_cobs 200 1 [1] true false)) = VSpecFail /\   (* path block 0 missing: not sufficient *)
  check_case (Case ex_world (Build_creq [7] SBlock None false 4096 10 false)
                   (Build_cobs 200 1 [0; 1] true false)) = VOk /\
  read full 3 6 0 ex_file = Some [(4, 0, 3)] /\
  read (fun x => negb (x =? 4)) 3 6 0 ex_file = None.
Proof. vm_compute. repeat split. Qed.
