(** C38 — Tar extraction never touches anything outside the target.
    This file contains ONLY the property theorems, each closed by [exact] of a
    lemma proved in [proofs/P_C38.v], with [Print Assumptions] beneath it.
    Model: [model/M_C38.v] over [lib/FsModel.v] (transcribed from tar/extractor.go,
    tar/sanitize.go, files/meta.go, files/meta_posix.go, tied to the code by the
    correspondence check of ./check C38). *)
From Coq Require Import String List ZArith Bool.
From V Require Import lib.Verdict lib.FsModel model.M_C38 proofs.P_C38.
Import ListNotations.
Open Scope Z_scope.

(** For EVERY file system [f0] (any pre-existing files, directories and symbolic
    links, inside and outside), EVERY entry list [es] (any names — "..", absolute,
    empty elements, NUL —, any types in any order, any link targets, modes and
    times) and every target [p0 ++ [c0]] whose parent directory [p0] is reached
    through real directories: extraction with the repaired deferred update (flag
    off), whether it succeeds or fails, leaves every object that is not at or below
    the target exactly as it was — kind, link target, content, mode and explicit
    modification time; the directory holding the target keeps its kind and mode
    (its entry list, hence its own mtime, changes when the target is created). *)
Theorem C38_confined : forall f0 p0 c0 es,
  normal c0 -> real f0 p0 ->
  confined (p0 ++ [c0]) f0 (fst (extract false f0 (p0 ++ [c0]) es)) = true.
Proof. exact extract_confined. Qed.
Print Assumptions C38_confined.

Theorem C38_outside_unchanged : forall f0 p0 c0 es q,
  normal c0 -> real f0 p0 -> under (p0 ++ [c0]) q = false ->
  (q <> p0 -> get (fst (extract false f0 (p0 ++ [c0]) es)) q = get f0 q) /\
  (q = p0 -> same_km (get f0 q) (get (fst (extract false f0 (p0 ++ [c0]) es)) q)).
Proof. exact extract_outside_unchanged. Qed.
Print Assumptions C38_outside_unchanged.

(** No symbolic link is followed on the way: below a chain of real directories a
    path resolves to itself (for any fuel and link budget), following or not. *)
Theorem C38_resolution_is_lexical : forall pre n links f cur c follow q,
  real_from f cur pre -> normal c ->
  (follow = true -> forall i t, get f (cur ++ pre ++ [c]) = Some i -> i_kind i <> KLink t) ->
  resolve n links f cur (pre ++ [c]) follow = Ok q -> q = cur ++ pre ++ [c].
Proof. exact resolve_real. Qed.
Print Assumptions C38_resolution_is_lexical.

(** The extractor as it was before the repair (flag on): directory [r/d] with mode
    0700, then symlink [r/d -> ../out/d]: extraction succeeds and the mode of the
    directory B/out/d OUTSIDE the target B/t changes from 0755 to 0700 (finding
    C38-1); with the repaired deferred update (flag off) nothing outside changes. *)
Theorem C38_deferred_refuted :
  snd (extract true w_fs w_t w_entries) = false /\
  get (fst (extract true w_fs w_t w_entries)) [bs "B"; bs "out"; bs "d"] = Some (w_dir 448 3) /\
  confined w_t w_fs (fst (extract true w_fs w_t w_entries)) = false /\
  confined w_t w_fs (fst (extract false w_fs w_t w_entries)) = true.
Proof. exact deferred_refuted. Qed.
Print Assumptions C38_deferred_refuted.

(** Non-vacuity: the hypotheses of [C38_confined] hold for the witness world, the
    target is really populated by the extraction, and the outside directory is there. *)
Example C38_example :
  w_t = [bs "B"] ++ [bs "t"] /\ normal (bs "t") /\ real w_fs [bs "B"] /\
  (exists i, get (fst (extract false w_fs w_t w_entries)) [bs "B"; bs "t"; bs "d"] = Some i /\
             i_kind i = KLink (bs "../out/d")) /\
  get (fst (extract false w_fs w_t w_entries)) [bs "B"; bs "out"; bs "d"] = Some (w_dir 493 3).
Proof.
  split; [reflexivity|]. split; [repeat split; discriminate|]. split; [vm_compute; repeat split; discriminate|].
  split; [eexists; split; vm_compute; reflexivity|vm_compute; reflexivity].
Qed.
