(** C38 — Tar extraction never touches anything outside the target.
    This file contains ONLY the property theorems, each closed by [exact] of a
    lemma proved in [proofs/P_C38.v], with [Print Assumptions] beneath it.
    Model: [model/M_C38.v] over [lib/FsModel.v] (transcribed from tar/extractor.go,
    tar/sanitize.go, files/meta.go, files/meta_posix.go, tied to the code by the
    correspondence check of ./check C38). *)
From Coq Require Import String List ZArith Bool.
From V Require Import lib.Verdict lib.FsModel model.M_C38 proofs.P_C38.
Import ListNotations.
Open Scope Z_scope.

(** The extractor as it was before the repair (flag on): directory [r/d] with mode
    0700, then symlink [r/d -> ../out/d]: extraction succeeds and the mode of the
    directory B/out/d OUTSIDE the target B/t changes from 0755 to 0700 (finding
    C38-1); with the repaired deferred update (flag off) nothing outside changes. *)
Theorem C38_deferred_refuted :
  snd (extract true w_fs w_t w_entries) = false /\
  get (fst (extract true w_fs w_t w_entries)) [bs "B"; bs "out"; bs "d"] = Some (w_dir 448 3) /\
  confined w_t w_fs (fst (extract true w_fs w_t w_entries)) = false /\
  confined w_t w_fs (fst (extract false w_fs w_t w_entries)) = true.
Proof. exact deferred_refuted. Qed.
Print Assumptions C38_deferred_refuted.
