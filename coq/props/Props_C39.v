(** C39 — Multipart file serialization round-trips.
    This file contains ONLY the property theorems, each closed by [exact] of a
    lemma proved in [proofs/P_C39.v], with [Print Assumptions] beneath it.
    Model: [model/M_C39.v] (transcribed from files/multifilereader.go and
    files/multipartfile.go, tied to the code by the correspondence check of
    ./check C39). *)
From Coq Require Import String List ZArith Bool.
From V Require Import lib.Verdict model.M_C39 proofs.P_C39.
Import ListNotations.
Open Scope Z_scope.

(** Serializing ANY tree of directories, files and symlinks (any depth, any
    number of entries, any contents and link targets; entry names = any non-empty
    byte strings without '/' other than "." and ".."; any mode below 2^32, any
    time.Time value) and parsing the parts back with a full walk yields, without
    error, the same names, types, contents and link targets — and in form mode the
    same modes and modification times, in attachment mode none.  [parse false] is
    the parser with the repaired fileInfo. *)
Theorem C39_roundtrip : forall form es, valid_entries es = true ->
  parse false (serialize form es) = Some (expect form es, false).
Proof. exact roundtrip. Qed.
Print Assumptions C39_roundtrip.

(** Form mode: the identical tree comes back — a mode of 0 (unset) stays 0 and the
    zero time (unset) stays the zero time, for every entry. *)
Theorem C39_roundtrip_form : forall es, valid_entries es = true ->
  parse false (serialize true es) = Some (es, false).
Proof. exact roundtrip_form. Qed.
Print Assumptions C39_roundtrip_form.

(** The parser as it was before the repair (flag on): a file with a mode and no
    modification time comes back dated 1970-01-01T00:00:00Z (finding C39-1). *)
Theorem C39_mtime_epoch_refuted :
  valid_entries witness = true /\
  parse true (serialize true witness) =
    Some ([(bs "f", NFile {| m_mode := 420; m_sec := 0; m_nsec := 0 |} (bs "data"))], false) /\
  parse true (serialize true witness) <> Some (witness, false).
Proof. exact mtime_epoch_refuted. Qed.
Print Assumptions C39_mtime_epoch_refuted.

(** The building blocks, each for all inputs: query escaping, the octal mode
    parameter, the decimal time parameters, and the whole parameter string. *)
Theorem C39_escape_roundtrip : forall s, Forall (fun b => 0 <= b < 256) s -> unescape (escape s) = Some s.
Proof. exact unescape_escape. Qed.
Print Assumptions C39_escape_roundtrip.

Theorem C39_mode_roundtrip : forall m, 0 <= m < 2 ^ 32 -> parse_uint 8 32 (fmt_oct0 m) = Some m.
Proof. exact parse_oct_fmt. Qed.
Print Assumptions C39_mode_roundtrip.

Theorem C39_int_roundtrip : forall z, - 2 ^ 63 <= z < 2 ^ 63 -> parse_int64 (fmt_int z) = POk z.
Proof. exact parse_int_fmt. Qed.
Print Assumptions C39_int_roundtrip.

Theorem C39_fileinfo_roundtrip : forall m path ct body, wf_meta m = true ->
  file_info false (mk_part true m path ct body) = m.
Proof. exact file_info_form. Qed.
Print Assumptions C39_fileinfo_roundtrip.

(** The fuel the parser model is run with is never exhausted — for either flag and
    for EVERY list of parts (hostile names, any order), so [parse] is total. *)
Theorem C39_parse_total : forall fl ps, parse fl ps <> None.
Proof. exact parse_total. Qed.
Print Assumptions C39_parse_total.

(** Non-vacuity: a valid depth-3 tree with hostile names, a set and an unset mode,
    set and unset times, whose serialization has 6 parts. *)
Example C39_example :
  let t : entries :=
    [ (bs "a b", NDir {| m_mode := 493; m_sec := ZERO_SEC; m_nsec := 0 |}
        [ (bs "%2F..", NDir meta0
            [ ([0; 255; 10], NFile {| m_mode := 0; m_sec := 1604320500; m_nsec := 55555 |} [1; 2; 3]) ]);
          (bs "...", NLink {| m_mode := LINK_MODE; m_sec := ZERO_SEC; m_nsec := 0 |} (bs "../x")) ]);
      (bs "a", NFile {| m_mode := 420; m_sec := ZERO_SEC; m_nsec := 0 |} []);
      (bs "a", NFile meta0 [7]) ] in
  valid_entries t = true /\ List.length (serialize true t) = 6%nat /\
  parse false (serialize true t) = Some (t, false) /\
  parse true (serialize true t) <> Some (t, false).
Proof. vm_compute. repeat split; try reflexivity. discriminate. Qed.
