(** C18 — UnixFS metadata round-trips.
    ONLY the property theorems, each closed by [exact] of a lemma of
    [proofs/P_C18_perm.v] / [proofs/P_C18.v], with [Print Assumptions] beneath it.

    Model: [model/M_C18.v] = unixfs.FSNode over the protobuf message model
    [lib/UnixFsPb.v] (tied to /repo by the correspondence check of ./check C18,
    byte for byte); the permission shuffles are [gen/Gen_C18.v], translated from
    files/util.go by go2coq on every run — a changed Go body is re-proved here
    or the build fails.  A Go time.Time is the pair (Unix(), Nanosecond()). *)
From Coq Require Import List ZArith Bool Lia.
From V Require Import lib.Verdict lib.GoInt lib.Varint lib.Pb lib.UnixFsPb gen.Gen_C18 model.M_C18
  proofs.P_C18_perm proofs.P_C18.
Import ListNotations.
Open Scope Z_scope.

(** All 4096 unix permission words survive unix -> FileMode -> unix, their
    FileMode image is the textbook bit layout [spread], and it has permission
    bits only.  (Exhaustive evaluation of the translated code, lifted.) *)
Theorem C18_perm_roundtrip : forall p, 0 <= p < 4096 ->
  ModePermsToUnixPerms (UnixPermsToModePerms p) = p /\
  UnixPermsToModePerms p = spread p /\
  Z.land (UnixPermsToModePerms p) perm_mask = UnixPermsToModePerms p.
Proof. exact perm_word. Qed.
Print Assumptions C18_perm_roundtrip.

(** For EVERY os.FileMode value [m] (every integer, in fact): FileMode -> unix ->
    FileMode keeps exactly the permission bits ModePerm|Setuid|Setgid|Sticky,
    and the unix word has 12 bits. *)
Theorem C18_mode_roundtrip : forall m,
  UnixPermsToModePerms (ModePermsToUnixPerms m) = Z.land m perm_mask /\
  0 <= ModePermsToUnixPerms m < 4096.
Proof. intro m. split; [apply mode_of_unix_of_mode|apply unix_perms_range]. Qed.
Print Assumptions C18_mode_roundtrip.

(** The 20 extended bits survive both permission setters; SetExtendedMode stores
    the low 20 bits of its argument and leaves Mode() alone. *)
Theorem C18_extended_preserved : forall d u x,
  extended_mode (set_mode_unix u d) = extended_mode d /\
  extended_mode (set_extended_mode x d) = Z.land x 1048575 /\
  mode_of (set_extended_mode x d) = mode_of d.
Proof. exact extended_preserved. Qed.
Print Assumptions C18_extended_preserved.

(** SetMode(m), GetBytes, FSNodeFromBytes, Mode(): the same permission bits, on
    any well-formed node, whatever its type and whatever extended bits it has. *)
Theorem C18_mode_after_parse : forall d m bs,
  wf_data d -> initialized d = true ->
  encode_data (set_mode m d) = Some bs ->
  exists d', decode_data bs = Some d' /\
             Z.land (mode_of d') perm_mask = Z.land m perm_mask /\
             extended_mode d' = extended_mode d.
Proof. exact mode_after_parse. Qed.
Print Assumptions C18_mode_after_parse.

(** SetModTime(t), GetBytes, FSNodeFromBytes, ModTime(): the same instant for
    every int64 second count and every nanosecond 0..999999999; the zero Time
    comes back as the zero Time and is the only one that is stored as "unset". *)
Theorem C18_mtime_roundtrip : forall d t bs,
  wf_data d -> initialized d = true -> wf_gtime t ->
  encode_data (set_mod_time t d) = Some bs ->
  exists d', decode_data bs = Some d' /\
             mod_time d' = (if is_zero t then zero_time else t) /\
             is_zero (mod_time d') = is_zero t /\
             (is_zero t = true <-> d_mtime d' = None).
Proof. exact mtime_roundtrip. Qed.
Print Assumptions C18_mtime_roundtrip.

(** File sizes: after ANY sequence of operations on a NewFSNode(t) — including
    serialisation round trips anywhere in the sequence — FileSize() is the
    content length (inline data + child block sizes, in uint64) for files and
    raw nodes as long as nobody called UpdateFilesize with a non-zero delta, and
    len(Data) for symlinks. *)
Theorem C18_size_accessors : forall t ops s d,
  - two31 <= t < two31 -> Forall wf_op ops ->
  spec_run (spec_init (INew t)) ops = Some s -> run (new_fsnode t) ops = Some d ->
  (s_sized s = true -> (t = TFile \/ t = TRaw) ->
     file_size d = to_u64 (s_datalen s + sum_list (s_blocks s))) /\
  (t = TSymlink -> file_size d = s_datalen s) /\
  s_datalen s = blen (get_data d) /\ s_blocks s = d_blocksizes d.
Proof. exact size_accessors. Qed.
Print Assumptions C18_size_accessors.

(** The protobuf layer: what GetBytes writes, FSNodeFromBytes reads back
    unchanged, for every well-formed message. *)
Theorem C18_pb_roundtrip : forall d bs,
  wf_data d -> encode_data d = Some bs -> decode_data bs = Some d.
Proof. exact decode_encode. Qed.
Print Assumptions C18_pb_roundtrip.

(** Full strength: for EVERY constructor, EVERY list of operations (setters,
    content edits, serialisation round trips in any position, any length) whose
    arguments fit their Go types, the node exists, serialises, parses back to
    itself, and every accessor the property mentions reads what the abstract
    metadata [spec_run] says: the permission bits last set, the extended bits
    last set, the instant last set (zero = unset), and the content length. *)
Theorem C18_history : forall i ops s,
  wf_init i -> Forall wf_op ops -> spec_run (spec_init i) ops = Some s ->
  exists d0 d bs,
    init_node i = Some d0 /\ run d0 ops = Some d /\
    meets s (view_of d) = true /\
    encode_data d = Some bs /\ decode_data bs = Some d.
Proof. exact history_refines. Qed.
Print Assumptions C18_history.

(** ---------- non-vacuity ---------- *)
(** the hypotheses of C18_history / C18_size_accessors are met by a real history *)
Example C18_history_example :
  let ops := [OSetExtMode 1048575; OSetMode 2161115647 (* ModeDir|setuid|setgid|sticky|0777 *);
              OSetData (Some [1; 2; 3]); OAddBlock 262144; ORoundTrip;
              OSetModTime (-1, 999999999); OAddBlock 18446744073709551615; ORemoveBlock 0%nat;
              ORoundTrip] in
  wf_init (INew 2) /\ Forall wf_op ops /\
  match spec_run (spec_init (INew 2)) ops with
  | Some s => (s_perm s =? 13631999) && (s_ext s =? 1048575) && gtime_eqb (s_time s) (-1, 999999999) &&
              s_sized s && (to_u64 (s_datalen s + sum_list (s_blocks s)) =? 2)
  | None => false
  end = true.
Proof.
  cbv zeta. split; [cbn [wf_init]; unfold two31; lia|]. split.
  - repeat constructor; cbn [wf_op wf_optdata in_u64 wf_gtime fst snd blen length Z.of_nat];
      unfold two64, two63; try lia.
  - vm_compute. reflexivity.
Qed.

(** a node satisfying the hypotheses of the single-step theorems *)
Example C18_wf_example : wf_data (new_fsnode 1) /\ initialized (new_fsnode 1) = true /\
  wf_gtime (-62135596800, 1) /\ is_zero (-62135596800, 1) = false /\
  encode_data (set_mod_time (-62135596800, 1) (set_mode 2147484141 (new_fsnode 1))) =
    Some [8; 1; 24; 0; 56; 237; 3; 66; 16; 8; 128; 146; 184; 195; 152; 254; 255; 255; 255; 1; 21; 1; 0; 0; 0].
Proof.
  split; [|split; [vm_compute; reflexivity|split; [|split; vm_compute; reflexivity]]].
  - unfold new_fsnode. apply wf_update_filesize, wf_with_type; [apply wf_empty|].
    cbn [in_opt]. unfold two31. lia.
  - unfold wf_gtime, two63. cbn [fst snd]. lia.
Qed.
