(** C18 — UnixFS metadata round-trips.
    ONLY the property theorems, each closed by [exact] of a lemma of
    [proofs/P_C18.v], with [Print Assumptions] beneath it. *)
From Coq Require Import List ZArith Bool.
From V Require Import lib.Verdict lib.GoInt lib.Varint lib.Pb lib.UnixFsPb gen.Gen_C18 model.M_C18 proofs.P_C18.
Import ListNotations.
Open Scope Z_scope.

Theorem C18_perm_roundtrip : forall p, 0 <= p < 4096 ->
  ModePermsToUnixPerms (UnixPermsToModePerms p) = p.
Proof. exact unix_of_mode_of_unix. Qed.
Print Assumptions C18_perm_roundtrip.
