(** C15 — UnixFS directories behave as name-to-entry maps.
    ONLY the property theorems, each closed by [exact] of a lemma proved in
    proofs/P_C15*.v, with [Print Assumptions] beneath it.
    Model: model/M_C15.v (transcribed from ipld/unixfs/hamt/{hamt,util}.go and
    ipld/unixfs/io/directory.go, tied to the code by the correspondence check of
    ./check C15, which evaluates the very [run] and [spec_run] below on what the
    implementation answered). *)
From Coq Require Import List ZArith Bool NArith String Ascii.
From V Require Import lib.Verdict model.M_C15 proofs.P_C15_bits proofs.P_C15_trie proofs.P_C15.
Import ListNotations.
Open Scope Z_scope.

(** hashBits.Next(i) returns the bits [consumed, consumed+i) of the digest (most
    significant first) as an integer and advances by [i]; it fails exactly when fewer
    than [i] bits are left.  Every width, offset and digest length. *)
Theorem C15_next_bits : forall b c i, bytes_ok b -> 0 <= c -> 0 <= i ->
  Next b c i = if 8 * Z.of_nat (List.length b) <? c + i then None
               else Some (bitsval b c (Z.to_nat i), c + i).
Proof. exact Next_bits. Qed.
Print Assumptions C15_next_bits.

(** the child indices a shard of width 2^lg2 reads from a digest are its
    floor(bits/lg2) successive lg2-bit groups — for any shard width *)
Theorem C15_indices : forall lg2 b, bytes_ok b -> 0 < lg2 ->
  indices lg2 b =
  map (fun j => bitsval b (Z.of_nat j * lg2) (Z.to_nat lg2))
      (seq 0 (Z.to_nat (8 * Z.of_nat (List.length b) / lg2))).
Proof. exact indices_spec. Qed.
Print Assumptions C15_indices.

(** swapValue on a well-formed shard, for EVERY hash function [hidx] (so for slot
    collisions of any depth) and any payload type: the result is well formed again
    (sorted slots, every entry below the slot its digest selects, sub-shards hold at
    least two entries), the returned old value is the stored one, the stored entries
    are exactly the old ones with [k] replaced/added/removed, and a removal of a
    missing key reports NotExist without touching anything. *)
Theorem C15_hamt_swap : forall (V : Type) (hidx : name -> list Z) ix d k (nv : option V) cs,
  wf hidx d (Node cs) -> skipn d (hidx k) = ix ->
  swap_post hidx k nv cs d (swap hidx ix d k nv cs).
Proof. exact @swap_spec. Qed.
Print Assumptions C15_hamt_swap.

(** getValue resolves exactly the stored entries — under any shard width / hash *)
Theorem C15_hamt_find : forall (V : Type) (hidx : name -> list Z) ix d k (cs : children V),
  wf hidx d (Node cs) -> skipn d (hidx k) = ix ->
  match find ix k cs with
  | FOk v => In (k, v) (walk (Node cs))
  | _ => forall w, ~ In (k, w) (walk (Node cs))
  end.
Proof. exact @find_spec. Qed.
Print Assumptions C15_hamt_find.

(** walkTrie / the enumerations list every key once *)
Theorem C15_hamt_keys_once : forall (V : Type) (hidx : name -> list Z) (t : trie V) d,
  wf hidx d t -> NoDup (map fst (walk t)).
Proof. exact @wf_nodup. Qed.
Print Assumptions C15_hamt_keys_once.

(** "sharded directory too deep" is reported only for an insertion whose digest
    yields the same complete index list as a different stored name *)
Theorem C15_toodeep_only_on_collision : forall (hidx : name -> list Z),
  (forall a b, List.length (hidx a) = List.length (hidx b)) ->
  forall k nv (cs : children val), wf hidx 0 (Node cs) -> (0 < List.length (hidx k))%nat ->
  swap hidx (hidx k) 0 k nv cs = STooDeep ->
  nv <> None /\ exists g w, In (g, w) (walk (Node cs)) /\ g <> k /\ hidx g = hidx k.
Proof.
  intros hidx Hlen k nv cs Hwf Hpos Hsw.
  exact (swap_toodeep hidx Hlen (hidx k) 0 k nv cs Hwf eq_refl Hpos (fun _ _ _ => eq_refl) Hsw).
Qed.
Print Assumptions C15_toodeep_only_on_collision.

(** Node() followed by loading the node DAG gives back the same shard tree, for every
    prefix width, as long as no stored name is empty *)
Theorem C15_reload : forall pad (t : trie val) nm,
  (match t with Leaf _ _ => String.length nm = pad | Node _ => True end) ->
  keys_nonempty t -> from_node pad (to_node pad nm t) = Some t.
Proof. exact from_to_node. Qed.
Print Assumptions C15_reload.

(** THE refinement theorem.  For every configuration (shard width, maxLinks, mode,
    sharding enabled or not; pure Basic, pure HAMT or Dynamic), every hash function
    whose index lists are equally long and non-empty, every size-decision oracle and
    every history of AddChild / RemoveChild / Find / Links / ForEachLink /
    EnumLinksAsync / reload-from-node / GetNode (names added non-empty): what the
    model answers satisfies the map specification [spec_run] — adds succeed and
    replace, removals of present names succeed, of missing names report NotExist,
    lookups and all enumerations equal the map, reloading changes nothing; an add may
    be refused only with "maxLinks reached" by a directory that cannot shard (pure
    basic / sharding off) when the map is full, or with "too deep" when two names
    have identical index lists.  (Model with the defect flag OFF.) *)
Theorem C15_model_meets_spec : forall c hidx hamt0 ops,
  (forall a b, List.length (hidx a) = List.length (hidx b)) -> (forall a, hidx a <> []) ->
  Forall op_ok ops ->
  spec_run c hidx (capped c hamt0) [] ops (snd (run flags_spec c hidx (init_dir hamt0) ops)) = true.
Proof. exact model_meets_spec. Qed.
Print Assumptions C15_model_meets_spec.

(** The code as it is (flag ON: a HAMT directory loaded from its node takes the ROOT
    link count as totalLinks) violates the specification: four adds, a reload, then
    RemoveChild of an existing name answers "maxLinks reached" (finding C15-1).  The
    flag-off model meets the specification on the same history. *)
Theorem C15_reload_total_refuted :
  (forall a b, List.length (wit_hidx a) = List.length (wit_hidx b)) /\ (forall a, wit_hidx a <> []) /\
  Forall op_ok wit_ops /\
  snd (run flags_code wit_cfg wit_hidx (init_dir false) wit_ops) =
    [BRes None; BRes None; BRes None; BRes None; BReload true; BRes (Some EMaxLinks)] /\
  spec_run wit_cfg wit_hidx (capped wit_cfg false) [] wit_ops
           (snd (run flags_code wit_cfg wit_hidx (init_dir false) wit_ops)) = false /\
  spec_run wit_cfg wit_hidx (capped wit_cfg false) [] wit_ops
           (snd (run flags_spec wit_cfg wit_hidx (init_dir false) wit_ops)) = true.
Proof.
  exact (conj wit_hidx_len (conj wit_hidx_pos (conj wit_ops_ok reload_total_refuted))).
Qed.
Print Assumptions C15_reload_total_refuted.

(** Non-vacuity of the hypotheses on the hash function: the index lists of any two
    8-byte digests (murmur3-64) are equally long and non-empty for widths 2..1024. *)
Theorem C15_hash_hypotheses_hold : forall lg2 b1 b2, 0 < lg2 <= 10 -> bytes_ok b1 -> bytes_ok b2 ->
  List.length b1 = 8%nat -> List.length b2 = 8%nat ->
  List.length (indices lg2 b1) = List.length (indices lg2 b2) /\ indices lg2 b1 <> [].
Proof. exact digest_indices_len. Qed.
Print Assumptions C15_hash_hypotheses_hold.

(** Non-vacuity: a concrete history with a three-level slot collision, a fork, a
    removal that collapses two levels, and a reload. *)
Example C15_example :
  let h := fun k : name => if String.eqb k "x" then [1; 2; 3] else if String.eqb k "y" then [1; 2; 4] else [5; 0; 0] in
  let c := mkcfg 3 1%nat 0 true false false in
  let v := mkval 7 34 9 in
  let ops := [OAdd "x" v false; OAdd "y" v false; OAdd "z" v false; ODump; ORemove "y" false; ODump; OReload; OFind "x"]%string in
  snd (run flags_spec c h (init_dir true) ops) =
  [BRes None; BRes None; BRes None;
   BDumpHamt (PNode "" [1; 5] [PNode "1" [2] [PNode "2" [3; 4] [PLeaf "3x" v; PLeaf "4y" v]]; PLeaf "5z" v]);
   BRes None;
   BDumpHamt (PNode "" [1; 5] [PLeaf "1x" v; PLeaf "5z" v]);
   BReload true; BFind (Some 7)]%string.
Proof. vm_compute. reflexivity. Qed.
