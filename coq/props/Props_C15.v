(** C15 — UnixFS directories behave as name-to-entry maps (theorems only). *)
From Coq Require Import List ZArith Bool NArith String Ascii.
From V Require Import lib.Verdict model.M_C15 proofs.P_C15.
Import ListNotations.
Open Scope Z_scope.

Theorem C15_placeholder : True.
Proof. exact placeholder_true. Qed.
Print Assumptions C15_placeholder.
