(** C24 — Pin index is an exact multimap.
    ONLY the property theorems, each closed by [exact] of a lemma of [proofs/P_C24.v], with
    [Print Assumptions] beneath.  Model: [model/M_C24.v] (transcribed from
    pinning/pinner/dsindex/indexer.go, go-multibase Base64url, go-datastore's prefix query;
    tied to the code by the correspondence check of ./check C24).
    Byte strings are [list ascii]: every quantifier below ranges over ALL byte strings
    (including "/", NUL, 0xFF, strings that look like encoded keys) and ALL operation lists. *)
From Coq Require Import String Ascii.
From Coq Require Import List Bool NArith.
From V Require Import lib.Verdict model.M_C24 proofs.P_C24.
Import ListNotations.

(** For every history of Add/Delete/DeleteKey/DeleteAll/ForEach/HasValue/HasAny/Search, the
    datastore-level mechanism (encoded keys, prefix queries, decoding of path components)
    answers exactly what the multimap specification answers, and its datastore content is the
    image of the multimap under the key encoding. *)
Theorem C24_refines_multimap : forall ops,
  snd (run step [] ops) = snd (run spec_step [] ops) /\
  fst (run step [] ops) = map dk (fst (run spec_step [] ops)).
Proof. exact refines_multimap. Qed.
Print Assumptions C24_refines_multimap.

(** The same, read over the history alone ([holds ops k v]: the last operation that touched
    (k,v) — Add k v, Delete k v, DeleteKey k, DeleteAll — was an accepted Add):
    Search k returns each value of k exactly once and nothing else. *)
Theorem C24_search_exact : forall ops k, k <> [] ->
  exists l, snd (step (after ops) (OSearch k)) = BVals l ENone /\ NoDup l /\
            forall v, In v l <-> holds ops k v = true.
Proof. exact search_exact. Qed.
Print Assumptions C24_search_exact.

(** ForEach enumerates exactly the pairs of the multimap (all of them for the empty key,
    those of key k otherwise), each once. *)
Theorem C24_foreach_exact : forall ops k,
  exists l, snd (step (after ops) (OForEach k)) = BPairs l ENone /\ NoDup l /\
            forall k' v, In (k', v) l <-> (holds ops k' v = true /\ (k = [] \/ k' = k)).
Proof. exact foreach_exact. Qed.
Print Assumptions C24_foreach_exact.

Theorem C24_hasvalue_exact : forall ops k v, k <> [] -> v <> [] ->
  snd (step (after ops) (OHasValue k v)) = BBool (holds ops k v) ENone.
Proof. exact hasvalue_exact. Qed.
Print Assumptions C24_hasvalue_exact.

Theorem C24_hasany_exact : forall ops k,
  exists b, snd (step (after ops) (OHasAny k)) = BBool b ENone /\
            (b = true <-> exists k' v, holds ops k' v = true /\ (k = [] \/ k' = k)).
Proof. exact hasany_exact. Qed.
Print Assumptions C24_hasany_exact.

(** DeleteKey / DeleteAll report exactly the number of values / pairs they remove. *)
Theorem C24_deletekey_count : forall ops k, k <> [] ->
  exists l, snd (step (after ops) (OSearch k)) = BVals l ENone /\
            snd (step (after ops) (ODeleteKey k)) = BCount (N.of_nat (length l)) ENone.
Proof. exact deletekey_exact. Qed.
Print Assumptions C24_deletekey_count.

Theorem C24_deleteall_count : forall ops,
  exists l, snd (step (after ops) (OForEach [])) = BPairs l ENone /\
            snd (step (after ops) ODeleteAll) = BCount (N.of_nat (length l)) ENone.
Proof. exact deleteall_exact. Qed.
Print Assumptions C24_deleteall_count.

(** No leak between keys: the prefix filter of key k1's query rejects every entry of any other
    key k2 — also when [enc k1] is a string prefix of [enc k2] (see [C24_prefix_related]). *)
Theorem C24_no_prefix_leak : forall k1 k2 v,
  k1 <> k2 -> starts_with (slash :: enc k1 ++ [slash]) (dskey k2 v) = false.
Proof. exact no_prefix_leak. Qed.
Print Assumptions C24_no_prefix_leak.

(** The key encoding is injective, decodes back, and uses neither '/' nor '.'
    (so ds.NewKey's path.Clean leaves encoded components alone). *)
Theorem C24_enc_injective : forall a b, enc a = enc b -> a = b.
Proof. exact enc_inj. Qed.
Print Assumptions C24_enc_injective.

Theorem C24_dec_enc : forall s, dec (enc s) = Some s.
Proof. exact dec_enc. Qed.
Print Assumptions C24_dec_enc.

Theorem C24_enc_alphabet : forall s c, In c (enc s) -> c <> "/"%char /\ c <> "."%char.
Proof. exact enc_alphabet. Qed.
Print Assumptions C24_enc_alphabet.

(** Non-vacuity.  enc "abc" = "uYWJj" IS a string prefix of enc "abcd" = "uYWJjZA"; the
    hypothesis of [C24_no_prefix_leak] is met and the raw string-prefix test would leak. *)
Example C24_prefix_related :
  let abc := bs [97; 98; 99]%N in let abcd := bs [97; 98; 99; 100]%N in
  abc <> abcd /\ starts_with (enc abc) (enc abcd) = true /\
  starts_with (slash :: enc abc) (dskey abcd (bs [49]%N)) = true /\
  starts_with (slash :: enc abc ++ [slash]) (dskey abcd (bs [49]%N)) = false.
Proof. vm_compute. repeat split; try reflexivity. discriminate. Qed.

(** A concrete history: two prefix-related keys, a deleted value, arbitrary bytes. *)
Example C24_history :
  let a := bs [97; 98; 99]%N in let b := bs [97; 98; 99; 100]%N in
  let v1 := bs [0; 47; 255]%N in let v2 := bs [47]%N in
  let ops := [OAdd a v1; OAdd b v2; OAdd a v2; OAdd a v1; ODelete a v2; OAdd [] v1] in
  snd (step (after ops) (OSearch a)) = BVals [v1] ENone /\
  snd (step (after ops) (OForEach [])) = BPairs [(a, v1); (b, v2)] ENone /\
  holds ops a v1 = true /\ holds ops a v2 = false /\ holds ops b v2 = true /\
  snd (step (after ops) (ODeleteKey a)) = BCount 1 ENone.
Proof. vm_compute. repeat split; reflexivity. Qed.
