(** C45 — Autoconf cache survives interrupted writes.
    ONLY property theorems here, each closed by [exact] of a lemma of proofs/P_C45.v.
    Model: model/M_C45.v (reader transcribed from autoconf/fetch.go getCachedConfig/listCacheFiles;
    the writer's file-system operation log is captured from the real code with strace on every
    run of ./check C45 and must follow [atomic_protocol]). *)
From Coq Require Import List ZArith Bool NArith String.
From V Require Import lib.Verdict model.M_C45 proofs.P_C45.
Import ListNotations.
Open Scope N_scope.

(** For EVERY cache directory whose cache files are complete (any number of earlier
    updates), EVERY operation log that follows the atomic-replacement protocol (any
    temp/metadata/cleanup operations, any chunking of writes), EVERY crash point — any
    number [k] of completed operations and any byte cut [cut] of the next write — the
    cached read returns what it returned before the update or the new version. *)
Theorem C45_crash_safe : forall ls vnew d0 ops,
  good ls d0 = true -> atomic_protocol ls vnew d0 ops = true ->
  forall k cut,
    let r := get_cached ls (crash d0 ops k cut) in
    r = get_cached ls d0 \/ r = RVer vnew.
Proof. exact crash_safe. Qed.
Print Assumptions C45_crash_safe.

(** ... which is the boolean specification the check evaluates on the implementation *)
Theorem C45_crash_safe_spec : forall ls vnew d0 ops,
  good ls d0 = true -> atomic_protocol ls vnew d0 ops = true ->
  forall k cut, spec_ok (get_cached ls d0) vnew (get_cached ls (crash d0 ops k cut)) = true.
Proof. exact crash_safe_spec. Qed.
Print Assumptions C45_crash_safe_spec.

(** never the built-in fallback (nor a corrupt configuration) while a valid cached version exists *)
Theorem C45_never_fallback : forall ls vnew d0 ops v0,
  good ls d0 = true -> atomic_protocol ls vnew d0 ops = true -> get_cached ls d0 = RVer v0 ->
  forall k cut, exists v, get_cached ls (crash d0 ops k cut) = RVer v /\ (v = v0 \/ v = vnew).
Proof. exact crash_never_fallback. Qed.
Print Assumptions C45_never_fallback.

(** the temp-file + rename writer follows the protocol for every chunking of the payload,
    every temp name that is not a cache name and every set of metadata files *)
Theorem C45_atomic_writer_follows_protocol : forall ls d tmp name v n1 chunks meta,
  is_cache_name tmp = false -> is_cache_name name = true ->
  (forall m, In m meta -> is_cache_name m = false) -> v <> 0 ->
  full_len ls v = Some (n1 + fold_right N.add 0 chunks) ->
  atomic_protocol ls v d (save_atomic tmp name v (n1 :: chunks) meta) = true.
Proof. exact save_atomic_protocol. Qed.
Print Assumptions C45_atomic_writer_follows_protocol.

(** the in-place writer (os.WriteFile on the newest name, the code before the repair) is refuted:
    with version 1 cached, a crash 17 bytes into the write of version 2 yields the fallback *)
Theorem C45_inplace_refuted :
  exists ls d0 ops k cut,
    good ls d0 = true /\ get_cached ls d0 = RVer 1 /\
    spec_ok (get_cached ls d0) 2 (get_cached ls (crash d0 ops k cut)) = false.
Proof. exact inplace_refuted. Qed.
Print Assumptions C45_inplace_refuted.

(** Non-vacuity: a directory with two earlier versions, the atomic writer with two write chunks,
    metadata and cleanup of the oldest version; every crash point evaluated. *)
Example C45_example :
  let ls := [(1, 40); (2, 50); (3, 60)] in
  let d0 := [("autoconf-1700001000.json"%string, CPre 1 40); ("autoconf-1700002000.json"%string, CPre 2 50);
             (".etag"%string, CGarbage)] in
  let ops := save_atomic "autoconf-1790000000.json.tmp" "autoconf-1790000000.json" 3 [25; 35] [".etag"%string; ".last-refresh"%string]
             ++ [FRemove "autoconf-1700001000.json"] in
  good ls d0 = true /\ atomic_protocol ls 3 d0 ops = true /\
  get_cached ls d0 = RVer 2 /\
  get_cached ls (crash d0 ops 2 10) = RVer 2 /\      (* cut inside the second chunk of the temp file *)
  get_cached ls (crash d0 ops 3 0) = RVer 2 /\       (* temp file complete, not yet renamed *)
  get_cached ls (crash d0 ops 4 0) = RVer 3 /\       (* renamed *)
  get_cached ls (run d0 ops) = RVer 3.
Proof. vm_compute. repeat split; reflexivity. Qed.
