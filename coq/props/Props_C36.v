(** C36 — Bitswap server sends only wanted, present, permitted data and bounds queues.
    This file contains ONLY the property theorems, each closed by [exact] of a
    lemma proved in [proofs/P_C36*.v], with [Print Assumptions] beneath it.
    Model: [model/M_C36.v] (transcribed from bitswap/server/internal/decision and
    tied to the code by the correspondence check of ./check C36). *)
From Coq Require Import List ZArith Bool NArith.
From V Require Import lib.Verdict model.M_C36 proofs.P_C36.
Import ListNotations.
Open Scope Z_scope.

(** No peer's ledger ever exceeds the configured limit: for every configuration,
    every number of peers, every initial blockstore, EVERY sequence of calls
    (messages of any shape, block additions/removals, drains) and every defect set. *)
Theorem C36_bounded : forall fl g np b0 ops,
  forallb (bounded_ok g) (run fl g (init np b0) ops) = true.
Proof. exact bounded_all. Qed.
Print Assumptions C36_bounded.
