(** C36 — Bitswap server sends only wanted, present, permitted data and bounds queues.
    This file contains ONLY the property theorems, each closed by [exact] of a
    lemma proved in [proofs/P_C36*.v], with [Print Assumptions] beneath it.
    Model: [model/M_C36.v] (transcribed from bitswap/server/internal/decision and the
    parts of go-peertaskqueue it uses; tied to the code by the correspondence check of
    ./check C36).  [run fl g s ops] is the list of observations (both ledger maps, queued
    task topics, envelope contents) after each call; the specification clauses
    ([send_clause], [view_clause], [answered_clause], [bounded_ok]) are the boolean
    functions that [check_case] also evaluates on what the real engine did.
    [flags_off] = all six defect switches off; [wf_op]: a message holds a CID at most once
    (it is a map keyed by CID). *)
From Coq Require Import List ZArith Bool NArith Permutation.
From V Require Import lib.Verdict model.M_C36 proofs.P_C36 proofs.P_C36_inv proofs.P_C36_ovf proofs.P_C36_ans proofs.P_C36_wit.
Import ListNotations.
Open Scope Z_scope.

(** Everything put into an envelope for peer p — after ANY sequence of messages (full /
    incremental, cancels, re-sent, identity, oversize, denied CIDs, any number of peers),
    block additions/removals and drains — satisfies:
    block c: c is in the blockstore, in p's own current want-list and not denied;
    HAVE c: c is in p's current want-list, not denied, and present (or removed since the
      previous drain: the decision is taken when the want/the block arrives);
    DONT_HAVE c: p asked for a DONT_HAVE for c, c is in p's current want-list, and c is
      absent (or added since the previous drain) or denied to p. *)
Theorem C36_send_sound : forall g np b0 ops, Forall wf_op ops ->
  trace_ok (send_clause g) (ghost0 np b0) ops (run flags_off g (init np b0) ops) = true.
Proof. exact send_sound. Qed.
Print Assumptions C36_send_sound.

(** No peer's ledger ever exceeds the configured limit — for every call sequence and
    every defect set. *)
Theorem C36_bounded : forall fl g np b0 ops,
  forallb (bounded_ok g) (run fl g (init np b0) ops) = true.
Proof. exact bounded_all. Qed.
Print Assumptions C36_bounded.

(** After every call the ledger of p (WantlistForPeer) holds only CIDs of p's own current
    want-list, and the two ledger maps agree. *)
Theorem C36_ledger_in_view : forall g np b0 ops, Forall wf_op ops ->
  trace_ok view_clause (ghost0 np b0) ops (run flags_off g (init np b0) ops) = true.
Proof. exact ledger_in_view. Qed.
Print Assumptions C36_ledger_in_view.

(** A (non-empty) full want-list replaces the ledger: from ANY peer state, afterwards every
    ledger entry is a want of that message. *)
Theorem C36_full_replaces : forall g b p ents s c,
  amem (pl (msg_peer flags_off g b p true ents s)) c = true -> ents <> [] ->
  exists w, In w ents /\ w_cancel w = false /\ w_cid w = c.
Proof. exact full_replaces. Qed.
Print Assumptions C36_full_replaces.

(** Overflow order, for EVERY ledger, every list of newcomers and every blockstore (ties
    included): the plan of handleOverflow partitions the existing wants into evicted/kept
    and the newcomers into admitted/rejected such that wants without a local block are
    evicted first, within each class the lowest priorities first, the best newcomers are
    admitted, no want evicted for priority outranks an admitted newcomer, and a newcomer
    is rejected only if every remaining want has a block and outranks it
    ([plan_ok], proofs/P_C36_ovf.v). *)
Theorem C36_overflow_order : forall g b l0 ov,
  plan_ok (fun c => nmem c b) l0 ov (overflow_plan flags_off g b l0 ov).
Proof. exact overflow_order. Qed.
Print Assumptions C36_overflow_order.

(** Every accepted want is answered: after every call, every want in a peer's ledger whose
    block is in the blockstore has a task in the request queue (popping the queue is
    go-peertaskqueue's business; a drain sends every queued task's answer, see
    C36_send_sound / the model's [response]). *)
Theorem C36_answered : forall g np b0 ops, Forall wf_op ops ->
  trace_ok answered_clause (ghost0 np b0) ops (run flags_off g (init np b0) ops) = true.
Proof. exact answered. Qed.
Print Assumptions C36_answered.

(** The code as it was / is (one defect switch on) fails the specification on a concrete
    history on which the repaired model meets it.  [refutes k w]: the history is
    well-formed, [spec_check] fails on the model with defect k, holds with all off. *)
Theorem C36_sort_desc_refuted : refutes 1 w1.
Proof. exact refuted1. Qed.
Print Assumptions C36_sort_desc_refuted.
Theorem C36_clear_keeps_refuted : refutes 2 w2.
Proof. exact refuted2. Qed.
Print Assumptions C36_clear_keeps_refuted.
Theorem C36_full_keeps_tasks_refuted : refutes 3 w3.
Proof. exact refuted3. Qed.
Print Assumptions C36_full_keeps_tasks_refuted.
Theorem C36_truncate_refuted : refutes 4 w4.
Proof. exact refuted4. Qed.
Print Assumptions C36_truncate_refuted.
Theorem C36_zero_absent_refuted : refutes 5 w5.
Proof. exact refuted5. Qed.
Print Assumptions C36_zero_absent_refuted.
Theorem C36_cancel_ledger_refuted : refutes 6 w6.
Proof. exact refuted6. Qed.
Print Assumptions C36_cancel_ledger_refuted.

(** Non-vacuity: a well-formed two-peer history with an overflow, an upgrade of a queued
    want-have, a block removal and a notification; the engine model sends a block, a HAVE
    and a DONT_HAVE, and the whole specification holds on it. *)
Example C36_example :
  let g := CFG 2 4 true true [] [(0, 8); (1, 3)]%nat in
  let ops := [OMsg 0 false [W 0 1 false false true; W 1 2 false false false];
              OMsg 1 false [W 0 1 false false false; W 2 5 true false true];
              OMsg 0 false [W 3 9 true false true]; ORemove 1; ODrain; OAdd 2; ODrain]%nat in
  Forall wf_op ops /\
  map so_drain (run flags_off g (init 2 [0; 1; 3]%nat) ops) =
    [[]; []; []; []; [([3], [], []); ([], [0], [2])]; []; [([], [], []); ([2], [], [])]]%nat /\
  spec_check g 2 [0; 1; 3]%nat ops (run flags_off g (init 2 [0; 1; 3]%nat) ops) = true.
Proof. cbn zeta. split; [apply wf_opsb_ok; reflexivity|]. vm_compute. split; reflexivity. Qed.

(** Non-vacuity of the overflow theorem: existing wants {0:1 with block, 1:7 and 2:6
    without}, newcomers of priority 2 and 3: the two wants without blocks go, 0 stays. *)
Example C36_overflow_example :
  map (fun eo => (fst (fst eo), w_cid (snd eo)))
      (overflow_plan flags_off (CFG 3 1024 true true [] []) [0; 4; 5]%nat
         [LE 0 1 true; LE 1 7 true; LE 2 6 true] [W 4 2 true false true; W 5 3 true false true])
  = [(2, 5); (1, 4)]%nat.
Proof. vm_compute. reflexivity. Qed.
