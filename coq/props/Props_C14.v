(** C14 — DAG diff applied to the source reproduces the target.
    This file contains ONLY the property theorems, each closed by [exact] of a
    lemma of proofs/P_C14.v, with [Print Assumptions] beneath it.

    Model: model/M_C14.v — [diff] and [apply_list] are transcriptions of
    dagutils.Diff and dagutils.ApplyChange (with the Editor's InsertNodeAtPath /
    RmLink) on dag-pb trees with Merkle identity (same CID iff structurally equal);
    tied to /repo on every run by ./check C14.
    [wf t]: a dag-pb tree — every node a ProtoNode, link names non-empty, links in
    the canonical (strictly name-sorted, hence duplicate-free) order of the encoding.
    [tdata a = tdata b]: both roots are directories (same Data). *)
From Coq Require Import List ZArith Bool.
From V Require Import lib.Verdict lib.C11_DagPb model.M_C14 proofs.P_C14_map proofs.P_C14.
Import ListNotations.
Open Scope Z_scope.

(** For ALL dag-pb trees a, b (any depth, any fan-out): applying Diff(a, b) to a
    gives exactly b — for the Diff that also compares the Data of the two nodes
    it is about to recurse into (defect switch off). *)
Theorem C14_apply_diff : forall a b, wf a -> wf b -> tdata a = tdata b ->
  apply_list a (diff false a b) = Some b.
Proof. exact apply_diff_off. Qed.
Print Assumptions C14_apply_diff.

(** The current code (switch on) is right for ALL pairs in which no name changes
    the Data of a node that Diff recurses into ([compat]: e.g. every pair in which
    each common path is a directory on both sides or a link-less file on both sides). *)
Theorem C14_apply_diff_current : forall a b, wf a -> wf b -> tdata a = tdata b ->
  compat a b = true ->
  apply_list a (diff true a b) = Some b.
Proof. exact apply_diff_current. Qed.
Print Assumptions C14_apply_diff_current.

(** Diff(a, a) is empty — both variants, every tree (also with raw leaves). *)
Theorem C14_diff_refl : forall fl a, diff fl a a = [].
Proof. exact diff_refl. Qed.
Print Assumptions C14_diff_refl.

(** ... and an empty Diff means equal trees. *)
Theorem C14_diff_nil_eq : forall a b, wf a -> wf b -> tdata a = tdata b ->
  diff false a b = [] -> a = b.
Proof. exact diff_nil_off. Qed.
Print Assumptions C14_diff_nil_eq.

(** the boolean well-formedness check evaluated in the correspondence implies [wf] *)
Theorem C14_wfb_wf : forall t, wfb t = true -> wf t.
Proof. exact wfb_wf. Qed.
Print Assumptions C14_wfb_wf.

(** Finding C14-1 (current code): a = {x: {y: file1}}, b = {x: file2}.  Diff emits
    only [Remove x/y]; the result {x: {}} is not b.  The repaired Diff is right on it. *)
Theorem C14_kind_change_refuted :
  wfb wit_a = true /\ wfb wit_b = true /\ tdata wit_a = tdata wit_b /\
  apply_list wit_a (diff true wit_a wit_b) = Some (PB 0 [([120], PB 0 [])]) /\
  apply_list wit_a (diff true wit_a wit_b) <> Some wit_b /\
  apply_list wit_a (diff false wit_a wit_b) = Some wit_b.
Proof. exact kind_change_refuted. Qed.
Print Assumptions C14_kind_change_refuted.

(** ---------- non-vacuity ---------- *)
Definition ex_a : tree :=
  PB 0 [([97], PB 1 []); ([98], PB 0 [([120], PB 2 []); ([121], PB 0 [([122], PB 3 [])])]); ([99], PB 4 [])].
Definition ex_b : tree :=
  PB 0 [([97], PB 1 []); ([98], PB 0 [([120], PB 5 []); ([121], PB 0 [([110], PB 6 []); ([122], PB 3 [])])]); ([100], PB 4 [])].

Example C14_ex : wfb ex_a = true /\ wfb ex_b = true /\ compat ex_a ex_b = true /\
  map (fun c => (c_type c, c_path c)) (diff true ex_a ex_b) =
    [(CMod, [[98]; [120]]); (CAdd, [[98]; [121]; [110]]); (CRemove, [[99]]); (CAdd, [[100]])] /\
  apply_list ex_a (diff true ex_a ex_b) = Some ex_b.
Proof. vm_compute. repeat split; reflexivity. Qed.
