From Coq Require Import List ZArith Bool.
From V Require Import lib.Verdict lib.C11_DagPb model.M_C14 proofs.P_C14.
Import ListNotations.
Open Scope Z_scope.

Theorem C14_kind_change_refuted :
  wfb wit_a = true /\ wfb wit_b = true /\ tdata wit_a = tdata wit_b /\
  apply_list wit_a (diff true wit_a wit_b) = Some (PB 0 [([120], PB 0 [])]) /\
  apply_list wit_a (diff true wit_a wit_b) <> Some wit_b /\
  apply_list wit_a (diff false wit_a wit_b) = Some wit_b.
Proof. exact kind_change_refuted. Qed.
Print Assumptions C14_kind_change_refuted.
