(** C03 — Verified reads never return bytes that do not hash to the requested CID.
    This file contains ONLY the property theorems, each closed by [exact] of a
    lemma proved in [proofs/P_C03.v], with [Print Assumptions] beneath it.
    Model: [model/M_C03.v] (transcribed from blockstore/validating_blockstore.go,
    filestore/fsrefstore.go, filestore/filestore.go; tied to the code by the
    correspondence check of ./check C03).  The hash function [H] (partial: [None] = no
    digest can be computed for that prefix) is universally quantified in every
    theorem (it is never an axiom). *)
From Coq Require Import List NArith ZArith Bool.
From V Require Import lib.Verdict model.M_C03 proofs.P_C03.
Import ListNotations.
Open Scope N_scope.

(** For EVERY (partial) hash function, EVERY content of the backing store and
    EVERY CID: the validating blockstore returns a block if and only if the
    backing store holds exactly these bytes and their digest under the CID's
    prefix is computable and equals the CID's digest. *)
Theorem C03_get_sound : forall (B : Type) (H : N -> B -> option bytes) backing c b,
  vget B H backing c = OOk b -> sum B H (c_pref c) b = Some c /\ backing = Some b.
Proof. exact vget_sound. Qed.
Print Assumptions C03_get_sound.

Theorem C03_get_ok_iff : forall (B : Type) (H : N -> B -> option bytes) backing c b,
  vget B H backing c = OOk b <-> backing = Some b /\ H (c_pref c) b = Some (c_digest c).
Proof. exact vget_ok_iff. Qed.
Print Assumptions C03_get_ok_iff.

(** ... and it reports an error otherwise: every stored content whose digest
    differs from the requested one (any flip / truncation / extension that is not
    a hash collision) gives ErrHashMismatch; when NO digest can be computed for
    the requested CID (unknown or hasher-less multihash code, a digest length the
    function cannot deliver) the answer is an error too — never the stored bytes. *)
Theorem C03_get_corrupted : forall (B : Type) (H : N -> B -> option bytes) c b' d,
  H (c_pref c) b' = Some d -> d <> c_digest c -> vget B H (Some b') c = OHashMismatch.
Proof. exact vget_corrupted. Qed.
Print Assumptions C03_get_corrupted.

Theorem C03_get_uncomputable : forall (B : Type) (H : N -> B -> option bytes) c b',
  H (c_pref c) b' = None -> vget B H (Some b') c = OOther.
Proof. exact vget_uncomputable. Qed.
Print Assumptions C03_get_uncomputable.

Theorem C03_get_intact : forall (B : Type) (H : N -> B -> option bytes) pref b d,
  H pref b = Some d -> vget B H (Some b) (Cid pref d) = OOk b.
Proof. exact vget_intact. Qed.
Print Assumptions C03_get_intact.

(** File references: for EVERY state [f] of the referenced path at read time —
    i.e. after ANY modification, truncation, extension, removal or replacement
    since the reference was written — both readers hand out data only if it is
    the region [offset, offset+size) of the file as it is now and that region is
    known to hash to the reference's CID. *)
Theorem C03_fs_sound : forall (H : N -> bytes -> option bytes) allow r f off size want b,
  fs_read H allow r f off size want = OOk b ->
  sum bytes H (c_pref want) b = Some want /\ read_at r f off size = inl b /\ allow = true /\
  (size <> 0 -> exists content, f = FFile content /\ off + size <= N.of_nat (length content) /\ b = region content off size).
Proof. exact fs_read_sound. Qed.
Print Assumptions C03_fs_sound.

(** Error classes: vanished -> StatusFileNotFound; shrunk below the region ->
    StatusFileChanged (the mmap reader reports StatusFileError when even the
    offset lies beyond the file); region present with another digest ->
    StatusFileChanged.  All are CorruptReferenceErrors. *)
Theorem C03_fs_error_class : forall (H : N -> bytes -> option bytes),
  (forall r off size want, fs_read H true r FGone off size want = OCorrupt StFileNotFound) /\
  (forall r content off size want, size <> 0 -> N.of_nat (length content) < off + size ->
     fs_read H true r (FFile content) off size want =
       OCorrupt (match r with
                 | RStd => StFileChanged
                 | RMmap => if N.of_nat (length content) <? off then StFileError else StFileChanged
                 end)) /\
  (forall r content off size want d, size <> 0 -> off + size <= N.of_nat (length content) ->
     H (c_pref want) (region content off size) = Some d -> d <> c_digest want ->
     fs_read H true r (FFile content) off size want = OCorrupt StFileChanged).
Proof. intros H. split; [exact (fs_read_gone H)|split; [exact (fs_read_shrunk H)|exact (fs_read_changed H)]]. Qed.
Print Assumptions C03_fs_error_class.

(** URL references: data only from a 200/206 answer, only its first [size] bytes,
    only if they are known to hash to the reference's CID. *)
Theorem C03_url_sound : forall (H : N -> bytes -> option bytes) allow code body size want b,
  url_read H allow code body size want = OOk b ->
  sum bytes H (c_pref want) b = Some want /\ b = firstn (N.to_nat size) body /\
  (code = 200 \/ code = 206) /\ size <= N.of_nat (length body) /\ allow = true.
Proof. exact url_read_sound. Qed.
Print Assumptions C03_url_sound.

(** Non-vacuity, with a toy hash (sum of the bytes mod 251; prefix 9 has no
    hasher): an intact block and an intact region are returned; a flipped byte, a
    truncation, a vanished and a shrunk file are refused with the stated classes;
    under the hasher-less prefix nothing is ever returned. *)
Definition toyH (pref : N) (b : bytes) : option bytes :=
  if pref =? 9 then None else Some [fold_left N.add b 0 mod 251].
Example C03_example :
  let c := Cid 2 [6] in
  vget bytes toyH (Some [1;2;3]) c = OOk [1;2;3] /\
  vget bytes toyH (Some [1;2;7]) c = OHashMismatch /\
  vget bytes toyH (Some [1;2]) c = OHashMismatch /\
  vget bytes toyH None c = ONotFound /\
  vget bytes toyH (Some [1;2;3]) (Cid 9 [6]) = OOther /\
  let want := Cid 2 [50] in
  fs_read toyH true RStd (FFile [10;20;30;40]) 1 2 want = OOk [20;30] /\
  fs_read toyH true RMmap (FFile [10;20;31;40]) 1 2 want = OCorrupt StFileChanged /\
  fs_read toyH true RStd (FFile [10;20]) 1 2 want = OCorrupt StFileChanged /\
  fs_read toyH true RMmap (FFile []) 1 2 want = OCorrupt StFileError /\
  fs_read toyH true RStd FGone 1 2 want = OCorrupt StFileNotFound /\
  fs_read toyH true RStd (FFile [10;20;30;40]) 1 2 (Cid 9 [50]) = OOther /\
  url_read toyH true 206 [20;30;99] 2 want = OOk [20;30] /\
  url_read toyH true 404 [20;30] 2 want = OCorrupt StFileError /\
  url_read toyH true 206 [20] 2 want = OCorrupt StFileChanged.
Proof. vm_compute. repeat split; reflexivity. Qed.
