(** C08 — Appending to a trickle DAG preserves content and trickle layout.
    ONLY the property theorems, each closed by [exact] of a lemma of
    [proofs/P_C08.v], with [Print Assumptions] beneath.
    Model: [model/M_C08.v] ([append] = trickle.Append / appendFillLastChild /
    appendRec / trickleDepthInfo over [lib/Tree.v] trees, on top of the C07 model
    of fillTrickleRec), tied to /repo on every run by ./check C08.

    Quantifiers: every payload type with a length measure whose empty payload has
    length 0, every width >= 1, both leaf types, EVERY appended chunk list; for
    content and sizes every base tree the code can reopen and either behaviour of
    the defect switch; for the shape every base tree that satisfies the trickle
    predicate (so also results of earlier appends). *)
From Coq Require Import List ZArith Bool.
From V Require Import lib.Verdict lib.GoInt lib.Tree model.M_C07 proofs.P_C07 model.M_C08 proofs.P_C08
  gen.Gen_C08 proofs.P_C08_tv.
Import ListNotations.
Open Scope Z_scope.

(** Content and sizes (for the code before AND after fixes/C08-1.patch):
    the data leaves of the result are the old ones followed by the new chunks;
    if the base has consistent recorded sizes so has the result, and its root
    records old size + appended length. *)
Theorem C08_content_sizes : forall D (dlen : D -> Z) (dnil : D) (w : nat),
  (1 <= w)%nat -> dlen dnil = 0 -> forall raw fl (t : tree D) cs t',
  append dlen dnil w (tri_kind raw) fl t cs = Some t' ->
  data_leaves dlen t' = data_leaves dlen t ++ nonempty dlen cs /\
  (sizes_consistent dlen t -> sizes_consistent dlen t') /\
  (sizes_consistent dlen t -> rsize t' = rsize t + dsum dlen cs).
Proof. exact @append_content_sizes. Qed.
Print Assumptions C08_content_sizes.

(** Byte level. *)
Theorem C08_content : forall A (w : nat), (1 <= w)%nat ->
  forall raw fl (t : tree (list A)) cs t',
  append zlen [] w (tri_kind raw) fl t cs = Some t' ->
  content t' = content t ++ concat cs.
Proof. exact @append_content. Qed.
Print Assumptions C08_content.

(** Shape, with the defect switch off (= the code with fixes/C08-1.patch: the
    continuation loop resumes at the layer given by the node's child count): a
    trickle-shaped base stays trickle-shaped — the predicate of
    VerifyTrickleDagStructure for the same width.  Bases are ANY trickle-shaped
    tree, so this covers every history of appends. *)
Theorem C08_shape : forall D (dlen : D -> Z) (dnil : D) (w : nat),
  (1 <= w)%nat -> dlen dnil = 0 -> forall raw (t : tree D) cs t',
  tri_shape dlen w raw t = true ->
  append dlen dnil w (tri_kind raw) aflags_off t cs = Some t' ->
  tri_shape dlen w raw t' = true.
Proof. exact @append_shape. Qed.
Print Assumptions C08_shape.

(** The code before the patch (`depth++` after appendFillLastChild) does NOT keep the shape:
    width 2, a base of one chunk built by trickle.Layout, four chunks appended —
    content and sizes are right, the verifier's predicate fails (finding C08-1,
    replayed on the real code by the harness corpus). *)
Theorem C08_shape_refuted :
  exists (t : tree (list Z)) (cs : list (list Z)),
    tri_tree zlen [] 2 false [[1]] = Some t /\
    match append zlen [] 2 KPbRaw aflags_on t cs with
    | Some t' => tri_shape zlen 2 false t' = false /\ content t' = content t ++ concat cs /\
                 sizes_ok zlen t' = true
    | None => False
    end.
Proof. exact shape_refuted. Qed.
Print Assumptions C08_shape_refuted.

(** The model's Append is total on trickle-shaped bases (its fuel — the height of
    the base — always suffices and every last link it descends into can be reopened),
    for both behaviours of the switch. *)
Theorem C08_total : forall D (dlen : D -> Z) (dnil : D) (w : nat),
  (1 <= w)%nat -> forall raw fl (t : tree D) cs,
  tri_shape dlen w raw t = true ->
  exists t', append dlen dnil w (tri_kind raw) fl t cs = Some t'.
Proof. exact @append_total. Qed.
Print Assumptions C08_total.

(** [depth_info] of the model IS trickleDepthInfo of the current Go source
    (re-translated by tools/go2coq on every run into gen/Gen_C08.v, Go's int
    arithmetic with wrap-around), for every child count and width an int holds. *)
Theorem C08_depth_info_translated : forall D (w : nat) (s : @nst D),
  in_range I64 (num_children s) -> in_range I64 (Z.of_nat w) ->
  trickleDepthInfo (num_children s) (Z.of_nat w) = depth_info w s.
Proof. exact @depth_info_translated. Qed.
Print Assumptions C08_depth_info_translated.

(** Non-vacuity: appends that descend into the last sub-tree (base of 23 chunks at
    width 2 has height 3), for both behaviours. *)
Example C08_example :
  let mk := fun n off => map (fun i => [Z.of_nat i + off]) (seq 0 n) in
  match tri_tree zlen [] 2 true (mk 23%nat 0) with
  | Some t =>
      height t = 3%nat /\ tri_shape zlen 2 true t = true /\
      match append zlen [] 2 KRaw aflags_off t (mk 40%nat 100), append zlen [] 2 KRaw aflags_on t (mk 40%nat 100) with
      | Some a, Some b => tri_shape zlen 2 true a = true /\ content a = content t ++ concat (mk 40%nat 100) /\
                          content b = content a /\ rsize a = 63 /\ rsize b = 63
      | _, _ => False
      end
  | None => False
  end.
Proof. vm_compute. repeat split; reflexivity. Qed.
