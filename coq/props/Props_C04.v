(** C04 — Only allowlisted hashes and digest sizes enter or leave the block service.
    ONLY the property theorems, each closed by [exact] of a lemma of proofs/P_C04.v.
    Models: gen/Gen_C04.v (defaultAllowlist.IsAllowed/MinDigestSize/MaxDigestSize, re-translated
    from verifcid/allowlist.go by tools/go2coq on every run), model/M_C04.v (allowlist,
    ValidateCid) and lib/BlockSvc.v (blockservice.go), the hand-written ones tied to the code by
    the correspondence check of ./check C04.
    [is_allowed]/[min_digest]/[max_digest]/[validate] are the MODEL of the code (default allowlist =
    translated Go); [sp_allowed]/[sp_min]/[sp_max] are the SPECIFICATION (default allowlist = the
    explicit table [default_is_allowed], 0/20 and 128). *)
From Coq Require Import List ZArith Bool NArith.
From V Require Import lib.Verdict lib.BlockSvc gen.Gen_C04 model.M_C04 proofs.P_C04.
Import ListNotations.
Open Scope Z_scope.

(** The functions translated from Go are the table: 15 codes and blake2b-160..512,
    blake2s-160..256 (adding or removing a code in Go changes a proved statement); identity has
    minimum 0, everything else 20; the maximum is 128 throughout. *)
Theorem C04_default_table : forall code,
  defaultAllowlist_IsAllowed code = true <->
  In code [0x12; 0x13; 0x19; 0x56; 0x1e; 0x00; 0x17; 0x16; 0x15; 0x14; 0x1a; 0x1b; 0x1c; 0x1d; 0x11]
  \/ 0xb214 <= code <= 0xb240 \/ 0xb254 <= code <= 0xb260.
Proof. exact default_table. Qed.
Print Assumptions C04_default_table.

Theorem C04_default_sizes_translated : forall code,
  defaultAllowlist_MinDigestSize code = (if code =? 0 then 0 else 20) /\
  defaultAllowlist_MaxDigestSize code = 128.
Proof. exact default_sizes_translated. Qed.
Print Assumptions C04_default_sizes_translated.

(** Model = specification for every allowlist: the implementation's notion of allowed / minimum /
    maximum (with the translated default allowlist at the leaves) is the specified one. *)
Theorem C04_allowlist_model_is_spec : forall al code,
  is_allowed al code = sp_allowed al code /\ min_digest al code = sp_min al code /\
  max_digest al code = sp_max al code.
Proof. intros al code. exact (conj (is_allowed_sp al code) (conj (min_digest_sp al code) (max_digest_sp al code))). Qed.
Print Assumptions C04_allowlist_model_is_spec.

(** The validator accepts a CID exactly when its hash function is allowed by the configured
    allowlist and its digest length lies within that function's minimum and maximum — for every
    multihash code in Z, every length, every (default / user-implemented / overriding / nested)
    allowlist. *)
Theorem C04_validate_iff : forall al code len,
  validate al code len = EOk <->
  sp_allowed al code = true /\ sp_min al code <= len <= sp_max al code.
Proof. exact validate_ok_iff. Qed.
Print Assumptions C04_validate_iff.

(** ... and which of the three rejections is reported. *)
Theorem C04_validate_classes : forall al code len,
  (validate al code len = EInsecure <-> sp_allowed al code = false) /\
  (validate al code len = ETooSmall <-> sp_allowed al code = true /\ len < sp_min al code) /\
  (validate al code len = ETooLarge <->
     sp_allowed al code = true /\ sp_min al code <= len /\ sp_max al code < len).
Proof. exact validate_classes. Qed.
Print Assumptions C04_validate_classes.

(** An overriding allowlist decides by its own allowset where that has an entry (true or false)
    and by the override elsewhere (nothing is allowed without one); the size limits always come
    from the override, or from the default allowlist when there is none. *)
Theorem C04_override : forall ov m code,
  sp_allowed (ACustom ov m) code =
    match assoc code m with
    | Some g => g
    | None => match ov with Some o => sp_allowed o code | None => false end
    end /\
  sp_min (ACustom ov m) code = match ov with Some o => sp_min o code | None => default_min code end /\
  sp_max (ACustom ov m) code = match ov with Some o => sp_max o code | None => default_max code end.
Proof. intros ov m code. destruct ov; repeat split; reflexivity. Qed.
Print Assumptions C04_override.

(** Identity hashes are exempt from the minimum but capped at 128 bytes; every other hash of the
    default allowlist needs 20..128 bytes. *)
Theorem C04_identity_exempt_capped : forall len,
  validate ADefault 0 len = EOk <-> 0 <= len <= 128.
Proof. exact identity_exempt_capped. Qed.
Print Assumptions C04_identity_exempt_capped.

Theorem C04_default_sizes : forall code len, code <> 0 ->
  (validate ADefault code len = EOk <-> defaultAllowlist_IsAllowed code = true /\ 20 <= len <= 128).
Proof. exact default_sizes. Qed.
Print Assumptions C04_default_sizes.

(** getBlocks' index-scan + copy + filter loop returns exactly the valid keys, in order, for every
    key list and every position of the invalid keys (and for every validator). *)
Theorem C04_filter_keys : forall (v : Z -> Z -> verr) ks,
  filter_keys v ks = filter (cvalid v) ks.
Proof. exact filter_keys_spec. Qed.
Print Assumptions C04_filter_keys.

(** For every allowlist, every configuration (checkFirst, exchange kind), every history of
    AddBlock / AddBlocks / GetBlock / GetBlocks / DeleteBlock calls through every path, EVERY
    behaviour of the exchange (any blocks in any order, including blocks with rejected or
    unrequested CIDs) and every pattern of store / exchange failures: starting from a blockstore
    without rejected CIDs, no Put / PutMany / fetch request / notification / returned or emitted
    block ever carries a CID the validator rejects, a successful Add means all its CIDs are
    accepted, and the blockstore never holds a rejected CID.
    [trust_cid fl = false] is the code with fix C05-1 (exchange answers are compared with the
    request); without it the statement is false (see C05_trust_refuted). *)
Theorem C04_store_clean : forall al checkfirst ex fl h s,
  trust_cid fl = false ->
  store_clean al s = true ->
  let '(s', rs) := run (validate al) checkfirst ex fl s h in
  store_clean al s' = true /\ all_steps_clean al h rs = true.
Proof. intros al checkfirst ex fl h s Hfl Hs. exact (run_clean al checkfirst ex fl Hfl h s Hs). Qed.
Print Assumptions C04_store_clean.

(** The hypothesis is necessary: a block service that hands on what the exchange answers
    (the code before fix C05-1) ends up with a rejected CID in its blockstore. *)
Theorem C04_needs_request_check :
  let fl := {| trust_cid := true; trust_hash := true |} in
  exists h, store_clean ADefault (fst (run (validate ADefault) true XPlain fl [] h)) = false.
Proof. exact trusting_not_clean. Qed.
Print Assumptions C04_needs_request_check.

(** Non-vacuity: the empty store is clean; a hostile history under the default allowlist.
    sha2-256/32 is accepted, md5/16 rejected.  The exchange answers a batch request for the valid
    key with an unrequested md5 block and the requested one: only the latter is stored/emitted. *)
Example C04_example :
  let a := mkcid 1 0x55 0x12 32 1 in
  let bad := mkcid 1 0x55 0xd5 16 2 in
  let fl := {| trust_cid := false; trust_hash := true |} in
  store_clean ADefault [] = true /\
  run (validate ADefault) true XSess fl []
      [(OAdd (mkblk bad 2), no_faults);
       (OGetMany PSession [bad; a; bad] (Some [mkblk bad 2; mkblk a 1]), no_faults)] =
  ([((0x12, 32, 1%N), 1%N)],
   [([], RAdd RInsecure);
    ([EvGet a; EvNewSession; EvFetchN true [a]; EvPut (mkblk a 1); EvNotify [mkblk a 1]],
     RGetMany [(mkblk a 1, true)])]).
Proof. vm_compute. split; reflexivity. Qed.
