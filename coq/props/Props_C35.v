(** C35 — Bitswap per-peer want-list converges to the client's current wants.
    ONLY the property theorems, each closed by [exact] of a lemma of
    [proofs/P_C35.v], with [Print Assumptions] beneath it.
    Model: [model/M_C35.v] — the message queue as a transition system whose steps are
    the code's critical sections; [fixed_flags] = the protocol the property demands,
    [code_flags] = what messagequeue.go does today (two defect switches on). *)
From Coq Require Import List ZArith Bool NArith.
From V Require Import lib.Verdict model.M_C35 proofs.P_C35.
Import ListNotations.
Open Scope Z_scope.

(** The coupling invariant between the client's four lists, the queued cancels, the
    peer's want-list and what the client wants holds after EVERY sequence of atomic
    steps: any interleaving of want-block / want-have / broadcast / cancel requests
    with sends whose candidate lists are arbitrary (any snapshot, however stale, cut
    off by any message size limit), purges (no HAVE support) and rebroadcasts of any
    subset.  With or without HAVE support. *)
Theorem C35_inv : forall sh xs, Forall (step_ok) xs -> Inv sh (run fixed_flags sh init xs).
Proof. intros sh xs Hok. apply run_inv; [exact Hok | apply inv_init]. Qed.
Print Assumptions C35_inv.

(** In any idle state reached that way (nothing pending, no cancel queued) the peer's
    list is converged: every CID the peer holds is wanted, every want that can be
    expressed to this peer is held by it (all wants with HAVE support; want-blocks and
    broadcast wants without), and a wanted block is a want-block at the peer.  A
    cancelled want is never left active, a current want is never left unsent. *)
Theorem C35_idle_converged : forall sh xs univ,
  Forall step_ok xs -> idle (run fixed_flags sh init xs) ->
  convergedb sh univ (run fixed_flags sh init xs) = true.
Proof. intros sh xs univ Hok Hidle. apply idle_converged; [apply run_inv; [exact Hok | apply inv_init] | exact Hidle]. Qed.
Print Assumptions C35_idle_converged.

(** One sendMessage with no size limit reaches idle from ANY state (either model).
    [C35_progress_partial]: the full statement — under every size limit of at least one
    entry, finitely many sends reach idle (each strictly decreases |pending|+|cancels|) —
    is not proved; the harness drives the real queue to idle under limits from one
    entry up on every schedule. *)
Theorem C35_progress_partial : forall fl sh s, idleb (flush fl sh s) = true.
Proof. exact flush_idle. Qed.
Print Assumptions C35_progress_partial.

(** Progress under ANY size cut (either model, any snapshot however stale): with
    [work s] = |peer pending| + |broadcast pending| + |queued cancels| as the measure, a send
    removes at least as much work as the number of candidates it accepts, so it never adds
    work and every send that accepts at least one candidate strictly approaches idle
    ([work s = 0] is [idle s]).  Still missing for the full progress statement: that a
    non-empty cut of a FRESH snapshot always accepts at least one candidate. *)
Theorem C35_send_progress : forall fl sh cs pes bes s,
  let '(pp1, ps1, okp, badp) := mark pes (pp s) (ps s) in
  let '(bp1, bs1, okb, badb) := mark bes (bp s) (bs s) in
  let '(cn1, okc, badc) := mark_cancels cs (cn s) in
  (work (fst (send_result fl sh cs pes bes s)) + (length okp + length okb + length okc) <= work s)%nat.
Proof. exact send_work. Qed.
Print Assumptions C35_send_progress.

(** Strict progress under ANY size cut of at least one entry: if the first candidate of
    the message (a cancel, a peer entry or a broadcast entry) is still queued when the send
    section runs — always the case for a snapshot no producer has overtaken — the send
    strictly decreases [work], and [work s = 0] is exactly [idle s].  Hence any run of
    sends from fresh snapshots reaches idle in at most [work s] sends, whatever the size
    limit.  (Not modelled: the byte size computation that chooses the cut.) *)
Theorem C35_send_strict_progress : forall fl sh cs pes bes s,
  (match cs with c :: _ => smem c (cn s) | [] => false end = true \/
   match pes with (c, pt) :: _ => match zget c (pp s) with Some pt' => went_eqb pt pt' | None => false end | [] => false end = true \/
   match bes with (c, pt) :: _ => match zget c (bp s) with Some pt' => went_eqb pt pt' | None => false end | [] => false end = true) ->
  (work (do_step fl sh s (SSend cs pes bes)) < work s)%nat.
Proof. exact send_strict. Qed.
Print Assumptions C35_send_strict_progress.

Theorem C35_work_zero_is_idle : forall s, work s = 0%nat <-> idle s.
Proof. exact work_idle. Qed.
Print Assumptions C35_work_zero_is_idle.

(** the premise is satisfiable and bites: one pending want-block, cut of one entry *)
Example C35_strict_witness :
  let s := run fixed_flags true init [PWant 0 TBlock; PWant 1 TBlock] in
  work s = 2%nat /\ work (do_step fixed_flags true s (SSend [] [(1, (2147483646, TBlock))] [])) = 1%nat.
Proof. vm_compute. split; reflexivity. Qed.

(** Progress under the TIGHTEST size limit (one entry per message; [send_one] sends the
    first queued cancel, else the first pending peer entry, else the first pending broadcast
    entry): from ANY state, [work s] such sends reach idle, in either model.  Larger limits
    send supersets of this cut and are covered by [C35_send_strict_progress]. *)
Theorem C35_progress_one_entry_limit : forall fl sh s, idle (sends_one fl sh (work s) s).
Proof. exact send_one_reaches_idle. Qed.
Print Assumptions C35_progress_one_entry_limit.

(** ---------- the current code ---------- *)
(** finding C35-1: want c; send; cancel c; want c; cancel c; send (the last send may well
    carry the cancel that was snapshotted before "want c; cancel c" ran inside the
    unlocked window — the schedule of DESIGN §4.3): idle, and the peer keeps c. *)
Definition w_forget : list step :=
  [PWant 0 TBlock; SSend [] [(0, (2147483647, TBlock))] []; PCancel 0; PWant 0 TBlock; PCancel 0; SSend [0] [] []].
Theorem C35_forget_refuted : exists xs, Forall step_ok xs /\
  let s := run code_flags true init xs in
  idleb s = true /\ convergedb true [0] s = false /\ zhas 0 (r_wl s) = true /\ wanted s 0 = false.
Proof. exists w_forget. split; [repeat constructor; left; reflexivity | vm_compute; repeat split; reflexivity]. Qed.
Print Assumptions C35_forget_refuted.

(** finding C35-1, second form: rebroadcast moved the want back to pending, the cancel
    arrives before the re-send *)
Definition w_refresh : list step :=
  [PWant 0 TBlock; SSend [] [(0, (2147483647, TBlock))] []; SRefresh [0] []; PCancel 0; SSend [] [(0, (2147483647, TBlock))] []].
Theorem C35_refresh_refuted : exists xs, Forall step_ok xs /\
  let s := run code_flags true init xs in
  idleb s = true /\ convergedb true [0] s = false /\ zhas 0 (r_wl s) = true /\ wanted s 0 = false.
Proof. exists w_refresh. split; [repeat constructor; left; reflexivity | vm_compute; repeat split; reflexivity]. Qed.
Print Assumptions C35_refresh_refuted.

(** finding C35-2: peer want-have and broadcast want-have of one CID are snapshotted;
    cancel + re-broadcast run inside the window; the entry is removed from the message
    although the broadcast list marks it sent: idle, wanted, and the peer never got it. *)
Definition w_merge : list step :=
  [PWant 0 THave; PBcast 0; PCancel 0; PBcast 0;
   SSend [] [(0, (2147483647, THave))] [(0, (2147483646, THave))]].
Theorem C35_merge_refuted : exists xs, Forall step_ok xs /\
  let s := run (mkflags false true) true init xs in
  idleb s = true /\ convergedb true [0] s = false /\ zhas 0 (r_wl s) = false /\ wanted s 0 = true.
Proof. exists w_merge. split; [repeat constructor; right; reflexivity | vm_compute; repeat split; reflexivity]. Qed.
Print Assumptions C35_merge_refuted.

(** the same three schedules on the fixed model converge (after the send that is then
    still queued) — the hypotheses of the theorems above are satisfiable and bite *)
Example C35_witnesses_fixed :
  convergedb true [0] (flush fixed_flags true (run fixed_flags true init w_forget)) = true /\
  convergedb true [0] (flush fixed_flags true (run fixed_flags true init w_refresh)) = true /\
  convergedb true [0] (run fixed_flags true init w_merge) = true /\
  idleb (run fixed_flags true init w_merge) = true.
Proof. vm_compute. repeat split; reflexivity. Qed.

Example C35_example_schedule :
  let xs := [PWant 1 THave; PBcast 2; SSend [] [(1, (2147483647, THave))] [(2, (2147483646, THave))];
             PWant 1 TBlock; PCancel 2; SSend [2] [(1, (2147483645, TBlock))] []] in
  Forall step_ok xs /\ idle (run fixed_flags true init xs) /\
  map (fun e : Z * went => (fst e, snd (snd e))) (r_wl (run fixed_flags true init xs)) = [(1, TBlock)].
Proof. cbv zeta. split; [repeat constructor; (left; reflexivity) || (right; reflexivity) | vm_compute; repeat split; reflexivity]. Qed.
