From Coq Require Import List ZArith Bool NArith.
From V Require Import lib.Verdict model.M_C35 proofs.P_C35.
Import ListNotations.
Open Scope Z_scope.
Theorem C35_placeholder : idleb init = true.
Proof. reflexivity. Qed.
Print Assumptions C35_placeholder.
