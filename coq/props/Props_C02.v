(** C02 — Caching blockstore layers are observationally transparent.
    ONLY the property theorems, each closed by [exact] of a lemma proved in
    [proofs/P_C02_*.v], with [Print Assumptions] beneath it.
    Models: [model/M_C02.v] (transcribed from blockstore/{caching,twoqueue_cache,
    bloom_cache,blockstore}.go and tied to the code by ./check C02). *)
From Coq Require Import List ZArith Bool NArith Arith.
From V Require Import lib.Verdict model.M_C02 proofs.P_C02_seq.
Import ListNotations.

(** Sequential transparency.  For EVERY configuration (2Q layer and/or Bloom
    layer), every Bloom position function [pos], every size function, every
    initial key set, every outcome of the initial build's enumeration
    (delivered prefix [n], completeness bit), every history [h] of operations
    each preceded by an arbitrary eviction choice (any cache entries may vanish
    at any step), with read-only faults and Rebuilds whose enumeration is cut
    at any position: the answers of the cached store are those of the uncached
    map, and the final stores hold the same keys. *)
Theorem C02_seq_transparent :
  forall (cf : cfg) (pos : key -> N) (sz : key -> Z) keys n complete (h : list (list key * op)),
    let s0 := init cf pos keys n complete in
    outs_agree (fst (run cf pos sz s0 h)) (fst (spec_run sz (sort_dedup keys) (map snd h))) /\
    seteq (s_store (snd (run cf pos sz s0 h))) (snd (spec_run sz (sort_dedup keys) (map snd h))).
Proof. exact seq_transparent. Qed.
Print Assumptions C02_seq_transparent.
