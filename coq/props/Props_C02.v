(** C02 — Caching blockstore layers are observationally transparent.
    ONLY the property theorems, each closed by [exact]/[apply] of lemmas proved
    in [proofs/P_C02_*.v], with [Print Assumptions] beneath it.
    Models: [model/M_C02.v] (transcribed from blockstore/{caching,twoqueue_cache,
    bloom_cache,blockstore}.go and tied to the code by ./check C02). *)
From Coq Require Import List ZArith Bool NArith Arith.
From V Require Import lib.Verdict model.M_C02 proofs.P_C02_seq proofs.P_C02_conc proofs.P_C02_bloom.
Import ListNotations.

(** * Sequential part *)

(** For EVERY configuration (2Q layer and/or Bloom layer), every Bloom position
    function [pos], every size function, every initial key set, every outcome
    of the initial build's enumeration (delivered prefix [n], completeness
    bit), every history [h] of operations each preceded by an arbitrary eviction
    choice (any cache entries may vanish at any step), with read-only faults
    and Rebuilds whose enumeration is cut at any position: the answers of the
    cached store are those of the uncached map, and the final stores hold the
    same keys. *)
Theorem C02_seq_transparent :
  forall (cf : cfg) (pos : key -> N) (sz : key -> Z) keys n complete (h : list (list key * op)),
    let s0 := init cf pos keys n complete in
    outs_agree (fst (run cf pos sz s0 h)) (fst (spec_run sz (sort_dedup keys) (map snd h))) /\
    seteq (s_store (snd (run cf pos sz s0 h))) (snd (spec_run sz (sort_dedup keys) (map snd h))).
Proof. exact seq_transparent. Qed.
Print Assumptions C02_seq_transparent.

(** A Rebuild whose enumeration reported an error or was cut before the last key
    fails, leaves the filter inactive, and no operation other than a Rebuild
    makes it active again. *)
Theorem C02_failed_enum_inactive :
  forall (cf : cfg) (pos : key -> N) (sz : key -> Z) (s : st) n complete,
    c_bloom cf = true ->
    complete = false \/ n < length (s_store s) ->
    let s' := fst (step cf pos sz s (ORebuild n complete)) in
    snd (step cf pos sz s (ORebuild n complete)) = (RErr, [QMARK]) /\
    s_active s' = false /\
    forall o, (forall n' c', o <> ORebuild n' c') -> s_active (fst (step cf pos sz s' o)) = false.
Proof.
  intros cf pos sz s n complete Hbl Hcut.
  destruct (failed_enum_inactive cf pos sz s n complete Hbl (enum_ok_false_cases _ _ _ Hcut)) as [Ha Hr].
  split; [exact Hr|]. split; [exact Ha|]. intros o Ho. now apply inactive_stays.
Qed.
Print Assumptions C02_failed_enum_inactive.

(** * Concurrent part: every interleaving of the atomic steps, with evictions
      at any time; both for the code as it is today and for the repaired code
      (any [fl]) *)

(** 2Q layer: in every reachable state the per-key locks exclude each other
    (readers/writer), every thread that has performed its store call still knows
    the truth about its key, and EVERY CACHED ENTRY AGREES WITH THE STORE unless a
    writer holding that key's write lock is between its store call and its
    cache update. *)
Theorem C02_inv_cache_sound :
  forall cf fl pos sz keys bn bc progs (ls : list label) s,
    c_tq cf = true ->
    lrun cf fl pos sz (cinit cf keys bn bc progs) ls = Some s ->
    excl s /\
    forall k e, lookup k (g_cache (g_sh s)) = Some e ->
      agrees sz (g_store (g_sh s)) k e \/ writer_in_flight s k.
Proof.
  intros cf fl pos sz keys bn bc progs ls s Htq Hr.
  pose proof (tq_reachable cf fl pos sz keys bn bc progs ls s Htq Hr) as HI.
  split; [apply (tq_excl sz s HI) | apply (tq_cache sz s HI)].
Qed.
Print Assumptions C02_inv_cache_sound.

(** Bloom layer: in every reachable state at most one thread is inside
    build/Rebuild, and WHILE THE FILTER IS ACTIVE EVERY STORED KEY IS IN THE
    FILTER or a Put of that key has not returned yet and will still add it to
    the live filter.  (The enumeration is a point-in-time snapshot of the
    store — the assumption documented at Rebuild — which is how [RQPre] is
    modelled.) *)
Theorem C02_inv_bloom_complete :
  forall cf fl pos sz keys bn bc progs (ls : list label) s,
    c_bloom cf = true ->
    lrun cf fl pos sz (cinit cf keys bn bc progs) ls = Some s ->
    (forall t1 t2, holds_mu (pcof s t1) = true -> holds_mu (pcof s t2) = true -> t1 = t2) /\
    (g_active (g_sh s) = true ->
     forall k, mem k (g_store (g_sh s)) = true ->
       bsub (pos k) (g_filt (g_sh s)) = true \/ put_in_flight s k).
Proof.
  intros cf fl pos sz keys bn bc progs ls s Hbl Hr.
  pose proof (bloom_reachable cf fl pos sz keys bn bc progs ls s Hbl Hr) as HI.
  split; [apply (b_mu pos s HI)|].
  intros Ha k Hm. destruct (b_active pos s HI Ha k Hm) as [Hf|[[]|Hp]]; [now left | now right].
Qed.
Print Assumptions C02_inv_bloom_complete.

(** A completed Put is never reported missing.  In every reachable state (any
    flags), for a key that is stored and has no Put / writer still in flight:
    - the repaired hasCached (filter loaded first, [active] read afterwards,
      negative answer trusted only if the same filter is still live afterwards;
      the program counter [BTest] exists only with [d_toctou = false]) does not
      short-circuit the lookup at the moment it tests the loaded filter: it
      forwards it to the inner layers;
    - the 2Q layer either goes to the store or answers "found".
    (The third way to answer, the store itself, holds the key by assumption.) *)
Theorem C02_put_never_missing :
  forall cf fl pos sz keys bn bc progs (ls : list label) s t s' k,
    lrun cf fl pos sz (cinit cf keys bn bc progs) ls = Some s ->
    mem k (g_store (g_sh s)) = true ->
    tstep cf fl pos sz s t = Some s' ->
    (forall a g, c_bloom cf = true -> pcof s t = BTest a k g -> ~ put_in_flight s k ->
                 pcof s' t = enter_inner cf a k) /\
    (forall rk, c_tq cf = true -> pcof s t = TQuery (SKRead rk) k -> ~ writer_in_flight s k ->
                pcof s' t = TLock (SKRead rk) k \/
                t_res (tget s' t) = found_res sz rk k :: t_res (tget s t)).
Proof.
  intros cf fl pos sz keys bn bc progs ls s t s' k Hr Hm Hstep. split.
  - intros a g Hbl Hpc Hnf.
    apply (never_missing_bloom cf fl pos sz s t s' a k g Hbl
             (bloom_reachable cf fl pos sz keys bn bc progs ls s Hbl Hr) Hpc Hm Hnf Hstep).
  - intros rk Htq Hpc Hnw.
    apply (never_missing_cache cf fl pos sz s t s' rk k Htq
             (tq_reachable cf fl pos sz keys bn bc progs ls s Htq Hr) Hpc Hm Hnw Hstep).
Qed.
Print Assumptions C02_put_never_missing.

(** In the repaired model ([d_early = false]: activation waits for Puts that
    have written the store but not yet the filter), whenever build/Rebuild
    activates the filter, every stored key is in it — no key that readers could
    already see becomes invisible. *)
Theorem C02_activate_complete :
  forall cf fl pos sz keys bn bc progs (ls : list label) s t s',
    d_early fl = false -> c_bloom cf = true ->
    lrun cf fl pos sz (cinit cf keys bn bc progs) ls = Some s ->
    pcof s t = RActivate -> tstep cf fl pos sz s t = Some s' ->
    g_active (g_sh s') = true /\
    forall k, mem k (g_store (g_sh s')) = true -> bsub (pos k) (g_filt (g_sh s')) = true.
Proof.
  intros cf fl pos sz keys bn bc progs ls s t s' He Hbl Hr Hpc Hstep.
  apply (activate_complete cf fl pos sz s t s' He Hbl
           (bloom_reachable cf fl pos sz keys bn bc progs ls s Hbl Hr) Hpc Hstep).
Qed.
Print Assumptions C02_activate_complete.

(** * The code as it is today violates the property (findings C02-1, C02-2) *)

(** C02-2: with hasCached reading [active] before it loads the filter there is a run in which key 0 is
    stored from the start, no thread ever writes or deletes anything, and Has(0)
    answers false (a Rebuild deactivates and swaps between the two reads). *)
Theorem C02_toctou_refuted :
  exists ls s,
    lrun cf_bloom (Build_flags true false) pos1 sz0
      (cinit cf_bloom [0] 30 true [[ORead KHas 0]; [ORebuild 30 true]]) ls = Some s /\
    mem 0 (g_store (g_sh s)) = true /\ t_res (tget s 1) = [RBool false].
Proof. exists toctou_run. exact toctou_witness. Qed.
Print Assumptions C02_toctou_refuted.

(** C02-1: with activation not waiting for Puts in flight there is a run in which
    Has(0) answers true and afterwards false while the only writer is a Put(0)
    that has not returned (thread 1 has no answer yet): not linearizable. *)
Theorem C02_early_activate_refuted :
  exists ls s,
    lrun cf_bloom (Build_flags true true) pos1 sz0
      (cinit cf_bloom [] 30 true [[OPut 0 false]; [ORead KHas 0; ORead KHas 0]]) ls = Some s /\
    t_res (tget s 2) = [RBool false; RBool true] /\ t_res (tget s 1) = [] /\
    g_active (g_sh s) = true /\ mem 0 (g_store (g_sh s)) = true /\ bsub (pos1 0) (g_filt (g_sh s)) = false.
Proof. exists early_run. exact early_witness. Qed.
Print Assumptions C02_early_activate_refuted.

(** Non-vacuity: the corresponding schedules in the repaired model.  The reader
    that loaded the old filter and saw it active is not fooled by the swap (the
    stale filter is not trusted, the store answers "true"); and with the Put in
    its window the build reaches [RActivate] but the activation step is not
    enabled. *)
Example C02_toctou_fixed :
  exists s,
    lrun cf_bloom (Build_flags false false) pos1 sz0
      (cinit cf_bloom [0] 30 true [[ORead KHas 0]; [ORebuild 30 true]]) toctou_run_fixed = Some s /\
    g_active (g_sh s) = false /\ g_filt (g_sh s) = 0%N /\ t_res (tget s 1) = [RBool true].
Proof. exact toctou_fixed. Qed.

Example C02_early_fixed :
  lrun cf_bloom (Build_flags false false) pos1 sz0
    (cinit cf_bloom [] 30 true [[OPut 0 false]; [ORead KHas 0; ORead KHas 0]]) early_run_fixed = None /\
  exists s,
    lrun cf_bloom (Build_flags false false) pos1 sz0
      (cinit cf_bloom [] 30 true [[OPut 0 false]; [ORead KHas 0; ORead KHas 0]])
      (removelast early_run_fixed) = Some s /\
    pcof s 0 = RActivate /\ t_res (tget s 2) = [RBool true].
Proof. exact early_fixed. Qed.

(** Non-vacuity of the invariants' hypotheses: a reachable state with an active
    filter, a cached entry and a stored key (2Q + Bloom, one Put then one Has). *)
Example C02_reachable_example :
  exists s,
    lrun (Build_cfg true true) (Build_flags false false) pos1 sz0
      (cinit (Build_cfg true true) [1] 30 true [[OPut 0 false; ORead KHas 0]])
      (repeat (LThread 0) 7 ++ repeat (LThread 1) 9 ++ repeat (LThread 1) 5) = Some s /\
    g_active (g_sh s) = true /\ mem 0 (g_store (g_sh s)) = true /\
    lookup 0 (g_cache (g_sh s)) = Some (CSize 0) /\ t_res (tget s 1) = [RBool true; ROk].
Proof. eexists. vm_compute. repeat split. Qed.

(** The linearizability decision used on executed schedules, on two histories:
    the one of finding C02-1 (Put(0) pending over [1,9]; Has(0)=true over [4,6];
    Has(0)=false at [8,8]) is rejected; with the answers in the other order it is
    accepted (the Put linearizes between them). *)
Example C02_lin_rejects :
  linearizable sz0 [] [mkH (OPut 0 false) ROk 1 9; mkH (ORead KHas 0) (RBool true) 4 6;
                       mkH (ORead KHas 0) (RBool false) 8 8] = false.
Proof. vm_compute. reflexivity. Qed.

Example C02_lin_accepts :
  linearizable sz0 [] [mkH (OPut 0 false) ROk 1 9; mkH (ORead KHas 0) (RBool false) 4 6;
                       mkH (ORead KHas 0) (RBool true) 8 8;
                       mkH (ODelete 0 false) ROk 10 12; mkH (OPut 0 false) ROk 11 14;
                       mkH (ORead KGetSize 0) (RSize 0) 13 13] = true.
Proof. vm_compute. reflexivity. Qed.
