(** C12 — DAG walks visit exactly the reachable nodes and report the right CIDs.
    ONLY the property theorems, closed by lemmas of [proofs/P_C12.v], with
    [Print Assumptions] beneath.  Model: [model/M_C12.v], transcribed from
    ipld/merkledag/merkledag.go and tied to the code by ./check C12.

    Vocabulary.  [run_sched fl g cf root is]: the concurrent walk as a transition
    system - state = (visit set with depths, callbacks so far, provider calls so
    far, errors, crash flag) and the bag of pending (cid, depth) items; the
    schedule [is] says which pending item a worker takes next (ANY list of
    indices: every interleaving of the real workers is one of them, the
    sequential walk is the one that always takes the newest item).
    [seqw]: the recursion of sequentialWalkDepth.  [visit]: the depth-aware visit
    function of FetchGraphWithDepthLimit ([lim < 0]: a plain visited set).
    [dpath g root c n]: a path of [n] links from the root to [c] through nodes
    that could be fetched (or whose error the handlers forgave: those have no links).
    [clean k]: no error ended the walk and no handler call crashed. *)
From Coq Require Import List ZArith Bool NArith Lia.
From V Require Import lib.Verdict model.M_C12 proofs.P_C12.
Import ListNotations.
Open Scope Z_scope.

(** For EVERY worker interleaving: a walk that runs to completion has called
    visit with the answer "yes" for exactly the nodes that have a path from the
    root within the depth limit (all reachable nodes without a limit), and the
    final set records a path length for each - by the second clause never more
    than ANY path's length when a limit is set, i.e. the shortest distance.
    (With SkipRoot the root itself is processed without a visit call.)
    Because this holds for every schedule, the concurrent walk's visit set equals
    the sequential one. *)
Theorem C12_par_same_set : forall fl g cf root is k,
  run_sched fl g cf root is = (k, []) -> clean k ->
  (forall c d, find (k_set k) c = Some d ->
     exists n, d = Z.of_nat n /\ dpath g root c n /\ within cf d) /\
  (forall c m, dpath g root c m -> within cf (Z.of_nat m) ->
     (c_skip_root cf = true /\ c = root /\ m = O) \/
     (exists d, find (k_set k) c = Some d /\ lle cf d (Z.of_nat m))).
Proof. exact sched_complete. Qed.
Print Assumptions C12_par_same_set.

(** "within the depth limit, measured by shortest distance": with a limit [lim >= 0],
    after any complete run the set maps [c] to [d] iff [d] is the length of a
    shortest path to [c] and [d <= lim]. *)
Theorem C12_depth_limit : forall fl g cf root is k,
  run_sched fl g cf root is = (k, []) -> clean k -> 0 <= c_lim cf -> c_skip_root cf = false ->
  forall c d, find (k_set k) c = Some d <->
    (exists n, d = Z.of_nat n /\ dpath g root c n /\ d <= c_lim cf /\
               forall m, dpath g root c m -> (n <= m)%nat).
Proof.
  intros fl g cf root is k Hr Hcl Hlim Hsk c d.
  destruct (sched_complete _ _ _ _ _ _ Hr Hcl) as [HA HB]. split.
  - intros Hf. destruct (HA c d Hf) as (n & Hd & Hp & Hw). exists n.
    assert (Hdl : d <= c_lim cf) by (destruct Hw as [Hw|Hw]; lia).
    repeat split; try assumption. intros m Hm.
    destruct (Z_le_gt_dec (Z.of_nat m) (c_lim cf)) as [Hle|Hgt]; [|lia].
    destruct (HB c m Hm (or_intror Hle)) as [(Hs & _)|(d' & Hf' & Hl)]; [congruence|].
    rewrite Hf in Hf'. inversion Hf'; subst d'. destruct Hl as [Hl|Hl]; lia.
  - intros (n & Hd & Hp & Hdl & Hmin).
    destruct (HB c n Hp) as [(Hs & _)|(d' & Hf' & Hl)]; [right; lia | congruence |].
    destruct (HA c d' Hf') as (n' & Hd' & Hp' & _). specialize (Hmin n' Hp').
    destruct Hl as [Hl|Hl]; [lia|]. assert (Hnn : n' = n) by lia. subst. exact Hf'.
Qed.
Print Assumptions C12_depth_limit.

(** The sequential walk IS one of the schedules: whenever sequentialWalkDepth's
    recursion returns nil, the transition system reaches the same final state with
    nothing pending (taking the newest pending item every time) - so the two
    theorems above hold for the sequential walk, with the same final set. *)
Theorem C12_seq_visits_reachable : forall fuel fl g cf root k' lg',
  seqw fuel fl g cf root root 0 init_core [] = Some (k', lg', false) ->
  clean k' /\
  (exists is, run_sched fl g cf root is = (k', [])) /\
  (forall c d, find (k_set k') c = Some d ->
     exists n, d = Z.of_nat n /\ dpath g root c n /\ within cf d) /\
  (forall c m, dpath g root c m -> within cf (Z.of_nat m) ->
     (c_skip_root cf = true /\ c = root /\ m = O) \/
     (exists d, find (k_set k') c = Some d /\ lle cf d (Z.of_nat m))).
Proof.
  intros fuel fl g cf root k' lg' H.
  destruct (seq_is_schedule _ _ _ _ _ _ _ H) as [Hcl [is Hr]].
  split; [exact Hcl|]. split; [exists is; exact Hr|]. exact (sched_complete _ _ _ _ _ _ Hr Hcl).
Qed.
Print Assumptions C12_seq_visits_reachable.

(** The fuel [check_case] runs the sequential walk with is enough, for every
    graph (cycles included), configuration and flag setting: the recursion never
    stops for lack of fuel. *)
Theorem C12_seq_fuel_enough : forall fl g cf root,
  exists r, seqw (fuel_seq g cf) fl g cf root root 0 init_core [] = Some r.
Proof. exact fuel_seq_enough. Qed.
Print Assumptions C12_seq_fuel_enough.

(** Error handlers and OnMissing callbacks receive the CID of the block that
    actually failed: in EVERY state of EVERY schedule (repaired walk), a callback
    invocation names a node whose fetch fails, and OnMissing one that is missing. *)
Theorem C12_handler_cid : forall fl g cf root is k P,
  f_parallel_root_arg fl = false ->
  run_sched fl g cf root is = (k, P) ->
  forall x, In x (k_hcalls k) ->
    match x with
    | CMissing c => n_fail (lookup g c) = Some ENotFound
    | CError c _ => n_fail (lookup g c) <> None
    end.
Proof.
  intros fl g cf root is k P Hfl Hr. exact (proj1 (callbacks_all_schedules fl g cf root Hfl is k P Hr)).
Qed.
Print Assumptions C12_handler_cid.

(** Any combination of handler options can be used together: the installed
    handler terminates and runs the single handlers in option order, each on the
    result of the one before. *)
Theorem C12_options_compose : forall hs c e,
  hs <> [] ->
  exists h, install false hs = Some h /\
            eval (S (hdepth h)) h h c e = Some (fold_handlers hs c e).
Proof. exact options_compose. Qed.
Print Assumptions C12_options_compose.

(** A configured provider is asked to announce exactly the visited nodes (and the
    skipped root): never anything else in any state of any schedule, and all of
    them once a walk has completed. *)
Theorem C12_provider_exact : forall fl g cf root is k P,
  f_parallel_root_arg fl = false ->
  run_sched fl g cf root is = (k, P) ->
  (forall c, In c (k_prov k) -> (exists d, find (k_set k) c = Some d) \/ (c_skip_root cf = true /\ c = root)) /\
  (P = [] -> clean k -> c_provider cf = true ->
     forall c, In c (k_prov k) <-> (exists d, find (k_set k) c = Some d) \/ (c_skip_root cf = true /\ c = root)).
Proof.
  intros fl g cf root is k P Hfl Hr. exact (proj2 (callbacks_all_schedules fl g cf root Hfl is k P Hr)).
Qed.
Print Assumptions C12_provider_exact.

(** FetchGraph leaves exactly those blocks local: the blocks fetched successfully
    by a complete run are the present nodes within the limit by shortest distance. *)
Theorem C12_fetchgraph_local : forall fl g cf root is k,
  run_sched fl g cf root is = (k, []) -> clean k -> c_skip_root cf = false ->
  forall c, (exists d, find (k_set k) c = Some d) /\ n_fail (lookup g c) = None <->
            (exists n, dpath g root c n /\ within cf (Z.of_nat n)) /\ n_fail (lookup g c) = None.
Proof.
  intros fl g cf root is k Hr Hcl Hsk c.
  destruct (sched_complete _ _ _ _ _ _ Hr Hcl) as [HA HB]. split; intros [H1 H2]; (split; [|exact H2]).
  - destruct H1 as (d & Hf). destruct (HA c d Hf) as (n & Hd & Hp & Hw). exists n. subst d. auto.
  - destruct H1 as (n & Hp & Hw). destruct (HB c n Hp Hw) as [(Hs & _)|(d & Hf & _)]; [congruence|]. eauto.
Qed.
Print Assumptions C12_fetchgraph_local.

(** Finding C12-1 (repaired in /repo, fixes/C12-1.patch): the concurrent walk handed
    the ROOT to handler and provider.  Witness: 0 -> 1 -> {2 missing, 3}. *)
Definition c12_witness : graph :=
  [ (0%N, mkNode [1%N] None); (1%N, mkNode [2%N; 3%N] None); (3%N, mkNode [] None) ].

Theorem C12_parallel_root_arg_refuted :
  exists g cf root is k,
    run_sched (mkFlags true false) g cf root is = (k, []) /\ clean k /\
    In (CMissing root) (k_hcalls k) /\ n_fail (lookup g root) = None /\
    k_prov k = [root; root; root; root].
Proof.
  exists c12_witness, (mkCfg (-1) false [HOnMissing; HIgnoreMissing] true true), 0%N, [O; O; O; O].
  eexists. vm_compute. repeat split. left. reflexivity.
Qed.
Print Assumptions C12_parallel_root_arg_refuted.

(** Finding C12-2 (repaired in /repo, fixes/C12-2.patch): with two or more handler
    options the composed handler called itself - for EVERY amount of fuel its
    evaluation does not return. *)
Theorem C12_handler_selfref_refuted : forall h1 h2 hs c e,
  exists h, install true (h1 :: h2 :: hs) = Some h /\ forall fuel, eval fuel h h c e = None.
Proof.
  intros h1 h2 hs c e. destruct (install_selfref_two h1 h2 hs) as (h & p & Hi).
  exists (HComp h true p). split; [exact Hi|]. intros fuel. apply selfref_diverges.
Qed.
Print Assumptions C12_handler_selfref_refuted.

(** ---------- non-vacuity ---------- *)
(** a complete clean concurrent run on a diamond with a depth limit that bites:
    node 3 is found first at depth 3 (beyond the limit 2) and then at depth 1 *)
Definition c12_diamond : graph :=
  [ (0%N, mkNode [1%N; 3%N] None); (1%N, mkNode [2%N] None); (2%N, mkNode [3%N] None);
    (3%N, mkNode [4%N] None); (4%N, mkNode [5%N] None); (5%N, mkNode [] None) ].

Example C12_complete_run_exists :
  exists k, run_sched flags_off c12_diamond (mkCfg 2 false [] true true) 0%N [O; O; O; O; O; O; O; O] = (k, []) /\
            clean k /\ find (k_set k) 3%N = Some 1 /\ find (k_set k) 4%N = Some 2 /\ find (k_set k) 5%N = None /\
            k_prov k = [0; 1; 2; 3; 4]%N.
Proof. eexists. vm_compute. repeat split. Qed.

Example C12_seq_run_exists :
  exists k lg, seqw (fuel_seq c12_witness (mkCfg (-1) false [HOnMissing; HIgnoreMissing] true false)) flags_off
                    c12_witness (mkCfg (-1) false [HOnMissing; HIgnoreMissing] true false) 0%N 0%N 0 init_core []
               = Some (k, lg, false) /\ k_hcalls k = [CMissing 2%N] /\ k_prov k = [0; 1; 2; 3]%N.
Proof. eexists. eexists. vm_compute. repeat split. Qed.
