(** C06 — Chunkers are lossless, bounded and deterministic.
    This file contains ONLY the property theorems, each closed by [exact] of a
    lemma proved in [proofs/P_C06.v], with [Print Assumptions] beneath it.
    Model: [model/M_C06.v] (transcribed from chunker/{splitting,buzhash,rabin,
    parse,registry}.go and tied to the code by the correspondence check of
    ./check C06).  Bytes are [N], byte strings [list N]; a chunker is a cut
    function [list N -> nat] iterated by [chunks]. *)
From Coq Require Import String Ascii.
From Coq Require Import List ZArith NArith Bool Arith.
From V Require Import lib.Verdict model.M_C06 proofs.P_C06.
Import ListNotations.

(** Lossless, for EVERY cut function: whatever [chunks] emits concatenates to the input. *)
Theorem C06_lossless : forall (cut : list N -> nat) d cs,
  chunks cut d = Some cs -> concat cs = d.
Proof. exact lossless. Qed.
Print Assumptions C06_lossless.

(** No chunk is empty, for every cut function. *)
Theorem C06_nonempty : forall (cut : list N -> nat) d cs,
  chunks cut d = Some cs -> Forall (fun c => c <> []) cs.
Proof. exact nonempty. Qed.
Print Assumptions C06_nonempty.

(** The fuel [length d] of [chunks] is never exhausted when the cut function
    makes progress and does not overrun. *)
Theorem C06_chunks_total : forall cut,
  (forall d, d <> [] -> 1 <= cut d <= length d) ->
  forall d, exists cs, chunks cut d = Some cs.
Proof. exact chunks_total. Qed.
Print Assumptions C06_chunks_total.

(** Fixed-size splitter, any size >= 1, any input: the run is lossless, no
    chunk is empty or above [lim] >= size, every chunk but the last has
    exactly [size] bytes ([run_ok size size lim]). *)
Theorem C06_size_bounds : forall size lim d, (1 <= size)%N -> (size <= lim)%N ->
  exists cs, chunks (cut_size size) d = Some cs /\ run_ok size size lim d cs = true.
Proof. exact size_bounds. Qed.
Print Assumptions C06_size_bounds.

(** Buzhash with ANY byte table and mask and any 32 <= min <= max <= lim: every
    chunk but the last lies in [min, max], none is empty or above [lim]. *)
Theorem C06_buz_bounds : forall p lim d,
  (32 <= bz_min p)%N -> (bz_min p <= bz_max p)%N -> (bz_max p <= lim)%N ->
  exists cs, chunks (cut_buz p) d = Some cs /\ run_ok (bz_min p) (bz_max p) lim d cs = true.
Proof. exact buz_bounds. Qed.
Print Assumptions C06_buz_bounds.

(** Rabin, for EVERY fingerprint oracle [hit]: with 16 <= min <= max <= lim
    (< 2^64) every chunk but the last lies in [min, max], none above [lim]. *)
Theorem C06_rabin_bounds : forall hit mn mx lim d,
  (16 <= mn)%N -> (mn <= mx)%N -> (mx <= lim)%N -> (Z.of_N lim < two64)%Z ->
  exists cs, chunks (cut_rabin hit mn mx) d = Some cs /\ run_ok mn mx lim d cs = true.
Proof. exact rabin_bounds. Qed.
Print Assumptions C06_rabin_bounds.

(** ... and with min < 16 (what rabin-N, N < 48, used to produce) the uint64
    subtraction [MinSize - 16] wraps: for every oracle and every max the whole
    input comes back as ONE chunk, which breaks the limit. *)
Theorem C06_rabin_small_refuted : forall hit mn mx, (mn < 16)%N ->
  exists d, chunks (cut_rabin hit mn mx) d = Some [d] /\ lens_ok mn mx limitN (map lenN [d]) = false.
Proof. exact rabin_small_refuted. Qed.
Print Assumptions C06_rabin_small_refuted.

(** The chunk-length check used by the correspondence for rabin accepts every
    output of the rabin model, whatever the oracle and the parameters. *)
Theorem C06_rabin_cons_sound : forall hit mn mx d cs,
  chunks (cut_rabin hit mn mx) d = Some cs ->
  rabin_cons mn mx (Z.of_nat (length d)) (map lenN cs) = true.
Proof. exact rabin_cons_complete_model. Qed.
Print Assumptions C06_rabin_cons_sound.

(** io.ReadFull over ANY read script (short reads, zero-length reads, io.EOF
    together with data) returns the same prefix, the same error and leaves the
    same remainder. *)
Theorem C06_readfull_frag : forall data frs want,
  exists frs', read_full {| rd_data := data; rd_frags := frs |} want =
    Some (firstn want data,
          (if want <=? length data then ENil else if is_nil data then EEOF else EUnexpected),
          {| rd_data := skipn want data; rd_frags := frs' |}).
Proof. exact read_full_spec. Qed.
Print Assumptions C06_readfull_frag.

(** Determinism: the stateful splitters (sticky error, carry-over buffer)
    driven over ANY read script emit exactly the pure chunking of the bytes. *)
Theorem C06_deterministic_size : forall size frs d, (1 <= size)%N ->
  run_size size {| rd_data := d; rd_frags := frs |} = chunks (cut_size size) d.
Proof. exact run_size_det. Qed.
Print Assumptions C06_deterministic_size.

Theorem C06_deterministic_buz : forall p frs d, (32 <= bz_min p)%N -> (bz_min p <= bz_max p)%N ->
  run_buz p {| rd_data := d; rd_frags := frs |} = chunks (cut_buz p) d.
Proof. exact run_buz_det. Qed.
Print Assumptions C06_deterministic_buz.

(** Every specification string the parser accepts yields parameters with
    1 <= size <= limit, resp. 16 <= min < avg < max <= limit; it never panics. *)
Theorem C06_parser_sound : forall s, params_ok (from_string flags_off s) = true.
Proof. exact from_string_sound. Qed.
Print Assumptions C06_parser_sound.

(** The two defects of the parser before the repair (findings C06-1, C06-2). *)
Theorem C06_parser_small_refuted :
  from_string {| f_rabin_small := true; f_rabin_huge := false |} (bos "rabin-47") = PRabin 15 47 70 /\
  params_ok (PRabin 15 47 70) = false.
Proof. exact from_string_small_refuted. Qed.
Print Assumptions C06_parser_small_refuted.

Theorem C06_parser_huge_refuted :
  from_string {| f_rabin_small := false; f_rabin_huge := true |} (bos "rabin-7000000000000000000") = PPanic.
Proof. exact from_string_huge_refuted. Qed.
Print Assumptions C06_parser_huge_refuted.

(** The property end to end: for every string accepted by the parser, every
    rabin oracle and every input, the chunks concatenate to the input, none is
    empty or above ChunkSizeLimit, all but the last respect the advertised
    (min, max) of that specification. *)
Theorem C06_end_to_end : forall hit s cut,
  cut_of hit (from_string flags_off s) = Some cut ->
  forall d, exists cs, chunks cut d = Some cs /\
    run_ok (fst (bounds_of (from_string flags_off s))) (snd (bounds_of (from_string flags_off s))) limitN d cs = true.
Proof. exact end_to_end. Qed.
Print Assumptions C06_end_to_end.

(** Support: the arithmetic rotation of the model is the 32-bit rotate, and the
    two-level table lookup is plain indexing of the 256-entry table. *)
Theorem C06_rotl1_bits : forall x, (x < 4294967296)%N ->
  rotl1 x = N.lor (N.land (N.shiftl x 1) 4294967295) (N.shiftr x 31).
Proof. exact rotl1_bits_eq. Qed.
Print Assumptions C06_rotl1_bits.

Theorem C06_table_lookup : forall b, (b < 256)%N -> bh_real b = nth (N.to_nat b) bytehash 0%N.
Proof. exact bh_real_nth. Qed.
Print Assumptions C06_table_lookup.

(** Non-vacuity. *)
Example C06_ex_accepts :
  from_string flags_off (bos "rabin-min:16-avg:32-max:64") = PRabin 16 32 64 /\
  from_string flags_off (bos "size-+5") = PSize 5 /\
  from_string flags_off (bos "rabin-48") = PRabin 16 48 72 /\
  from_string flags_off (bos "rabin-47") = PErr ERabinMin /\
  from_string flags_off (bos "buzhash") = PBuz /\
  from_string flags_off [] = PSize 262144.
Proof. vm_compute. repeat split; reflexivity. Qed.

Example C06_ex_size : forall frs,
  run_size 3 {| rd_data := [1;2;3;4;5;6;7]%N; rd_frags := frs |} = Some [[1;2;3]; [4;5;6]; [7]]%N.
Proof. intros frs. rewrite C06_deterministic_size by discriminate. vm_compute. reflexivity. Qed.

(** a rabin oracle that hits at 20 bytes: chunks of 20 within [16, 64] *)
Example C06_ex_rabin :
  option_map (map lenN) (chunks (cut_rabin (fun _ k => k =? 20) 16 64) (repeat 7%N 50)) = Some [20; 20; 10]%N.
Proof. vm_compute. reflexivity. Qed.

(** a small buzhash instance (min 40, max 64, 3-bit mask) cuts between min and max *)
Example C06_ex_buz :
  let p := {| bz_min := 40; bz_max := 64; bz_mask := 7; bz_bh := bh_real |} in
  option_map (map lenN) (chunks (cut_buz p) (map N.of_nat (seq 0 200))) = Some [51; 44; 43; 46; 16]%N.
Proof. vm_compute. reflexivity. Qed.
