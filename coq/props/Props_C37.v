(** C37 — Bitswap exchange delivers requested blocks exactly once and cleans up.
    This file contains ONLY the property theorems, each closed by [exact] of a lemma
    proved in [proofs/P_C37*.v], with [Print Assumptions] beneath it.
    Model: [model/M_C37.v]: (a) the getter over the once-each block subscription
    (getter.go AsyncGetBlocks / handleIncoming, notifications.go), (b) a node's session want
    sets driven by the want / cancel callbacks and by received blocks.  Tied to the code by
    ./check C37 (unit-level replay of the real getter + PubSub, sequenced node histories and
    randomised virtual-network runs). *)
From Coq Require Import List Bool Arith.
From V Require Import lib.Verdict model.M_C37 proofs.P_C37 proofs.P_C37_node.
Import ListNotations.

(** For any set of requests on one PubSub (key lists with duplicates) and ANY sequence of
    published blocks (duplicates, unrequested keys) and cancellations, every request emits
    each distinct requested key at most once and nothing else. *)
Theorem C37_at_most_once : forall reqs evs,
  forallb (fun r => delivered_ok (q_keys r) (q_out r)) (urun (map (start 0) reqs) evs) = true.
Proof. exact at_most_once. Qed.
Print Assumptions C37_at_most_once.

(** Whenever the cancel callback has been called (on completion or cancellation, at any
    point of any event sequence) the output channel is closed and the callback received
    exactly the requested keys that were not delivered. *)
Theorem C37_cleanup : forall reqs evs r l,
  In r (urun (map (start 0) reqs) evs) -> q_cb r = Some l ->
  q_done r = true /\ forall k, In k l <-> In k (q_keys r) /\ ~ In k (q_out r).
Proof. exact cleanup. Qed.
Print Assumptions C37_cleanup.

(** If every requested key is published (in any order, with anything in between) and the
    request is not cancelled, it completes having delivered every key, each once. *)
Theorem C37_complete : forall s ks pub,
  (forall k, In k ks -> In k pub) ->
  let r := pubs (start s ks) pub in
  q_done r = true /\ (forall k, In k ks -> In k (q_out r)) /\ NoDup (q_out r).
Proof. exact complete. Qed.
Print Assumptions C37_complete.

(** Node level, every history of request starts (any sessions, any keys), arriving blocks and
    cancellations: no open request waits for a key that its session no longer asks for
    (so the key is in the node's want-list and a connected holder will be asked) ... *)
Theorem C37_no_starvation : forall evs, starving (nrun flags_off node0 evs) = false.
Proof. exact no_starvation. Qed.
Print Assumptions C37_no_starvation.

(** ... no session keeps a want that no open request of it waits for (with or without
    defect 1), and once every request has completed or been cancelled the want-list is empty. *)
Theorem C37_no_leak : forall fl evs, f_late_want fl = false -> leaking (nrun fl node0 evs) = false.
Proof. exact no_leak. Qed.
Print Assumptions C37_no_leak.

Theorem C37_wantlist_clean : forall fl evs, f_late_want fl = false ->
  (forall r, In r (n_reqs (nrun fl node0 evs)) -> q_done r = true) -> wantlist (nrun fl node0 evs) = [].
Proof. exact wantlist_clean. Qed.
Print Assumptions C37_wantlist_clean.

(** The code as it is.  C37-1: two requests of one session share key 3, the first is
    cancelled, block 3 arrives afterwards: the second request starves (with the defect off it
    receives the block).  C37-2: a want sent after its block was received stays in the
    want-list although every request has ended. *)
Theorem C37_shared_cancel_refuted :
  starving (nrun f_shared node0 wit1) = true /\
  map q_out (n_reqs (nrun f_shared node0 wit1)) = [[]; []] /\
  map q_out (n_reqs (nrun flags_off node0 wit1)) = [[]; [3]].
Proof. exact shared_cancel_refuted. Qed.
Print Assumptions C37_shared_cancel_refuted.

Theorem C37_late_want_refuted :
  forallb q_done (n_reqs (nrun f_late node0 wit2)) = true /\ wantlist (nrun f_late node0 wit2) = [3] /\
  wantlist (nrun flags_off node0 wit2) = [].
Proof. exact late_want_refuted. Qed.
Print Assumptions C37_late_want_refuted.

(** Non-vacuity: two requests with duplicate keys on one PubSub, an unrequested and a repeated
    block, a cancellation; and a node history in which all requests end and the want-list drains. *)
Example C37_example :
  map (fun r => (q_out r, q_done r, q_cb r))
      (urun (map (start 0) [[1; 1; 2]; [2; 3]]) [UPub 2; UPub 7; UPub 2; UPub 1; UCancel 1; UPub 3])
  = [([2; 1], true, Some []); ([2], true, Some [3])].
Proof. vm_compute. reflexivity. Qed.

Example C37_node_example :
  let n := nrun flags_off node0 [NStart 1 [0; 3]; NStart 1 [3]; NStart 2 [3; 4]; NCancel 0; NBlock 3; NCancel 2] in
  forallb q_done (n_reqs n) = true /\ map q_out (n_reqs n) = [[]; [3]; [3]] /\ wantlist n = [].
Proof. vm_compute. repeat split. Qed.
