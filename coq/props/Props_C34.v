(** C34 — Bitswap messages round-trip and decoded blocks are self-certifying.
    ONLY the property theorems, each closed by [exact] of a lemma of
    [proofs/P_C34.v], with [Print Assumptions] beneath it.
    Model: [model/M_C34.v] (bitswap/message/message.go at the pb.Message level plus
    go-cid's Cast / Prefix / PrefixFromBytes / go-varint; the hash functions enter as
    the arguments [H] (Prefix.Sum, [None] = error) and [H0] (sha2-256 CIDv0 of
    blocks.NewBlock) that every theorem quantifies over). *)
From Coq Require Import List ZArith Bool NArith Permutation.
From V Require Import lib.Verdict model.M_C34 proofs.P_C34.
Import ListNotations.
Open Scope Z_scope.

(** v1 wire format.  For every message whose CIDs are well-formed and whose blocks are
    honest ([wfb]), and for EVERY order in which Go's map iteration may emit the
    entries, payload blocks and presences ([pb_perm]), decoding yields the same
    message: same entries (CID, priority, type, cancel, send-dont-have), same blocks,
    same presences, same full flag, same pending bytes. *)
Theorem C34_v1_roundtrip : forall H H0 m pb,
  wfb H m = true -> pb_perm pb (to_pb_v1 m) ->
  exists m', from_pb H H0 pb = Some m' /\ msg_equiv m' m.
Proof. exact v1_roundtrip. Qed.
Print Assumptions C34_v1_roundtrip.

(** [wfb] is not an artificial side condition: every message built by ANY sequence of
    AddEntry / Cancel / Remove / AddBlock / AddBlockPresence / SetPendingBytes / Reset
    calls with well-formed CIDs and honest blocks satisfies it. *)
Theorem C34_api_wf : forall H ops full,
  forallb (op_okb H) ops = true -> wfb H (run full ops) = true.
Proof. exact api_wf. Qed.
Print Assumptions C34_api_wf.

Theorem C34_api_roundtrip : forall H H0 ops full pb,
  forallb (op_okb H) ops = true -> pb_perm pb (to_pb_v1 (run full ops)) ->
  exists m', from_pb H H0 pb = Some m' /\ msg_equiv m' (run full ops).
Proof. intros H H0 ops full pb Hok. apply v1_roundtrip. apply api_wf. exact Hok. Qed.
Print Assumptions C34_api_roundtrip.

(** v0 wire format: want-list and full flag are preserved; the blocks come back as
    exactly the block byte strings that were sent, each under the CIDv0 of its own
    bytes ([d' = d] whenever sha2-256 does not collide on the message's blocks). *)
Theorem C34_v0_roundtrip : forall H H0 m pb,
  wf_v0b m = true -> pb_perm pb (to_pb_v0 m) ->
  exists m0, from_pb H H0 pb = Some m0 /\
    m_full m0 = m_full m /\
    (forall k, aget k (m_wl m0) = aget k (m_wl m)) /\
    (forall c d, In (c, d) (m_blocks m0) -> c = H0 d /\ In d (map snd (m_blocks m))) /\
    (forall d, In d (map snd (m_blocks m)) ->
       exists d', aget (H0 d) (m_blocks m0) = Some d' /\ H0 d' = H0 d).
Proof. exact v0_roundtrip. Qed.
Print Assumptions C34_v0_roundtrip.

(** Self-certification, for EVERY pb input (any bytes in any field): each block of a
    decoded message carries the CID computed from its own data — by Prefix.Sum under
    the prefix that travelled with it, or as sha2-256 CIDv0 for a bare v0 block. *)
Theorem C34_self_certifying : forall H H0 pb m, from_pb H H0 pb = Some m ->
  forall c d, In (c, d) (m_blocks m) ->
    (exists pfx p, In (pfx, d) (pb_payload pb) /\ prefix_from_bytes pfx = Some p /\ H p d = Some c) \/
    (In d (pb_blocks pb) /\ c = H0 d).
Proof. exact self_certifying. Qed.
Print Assumptions C34_self_certifying.

(** ... hence re-hashing a decoded block under its own CID's prefix gives that CID
    (the two hypotheses are laws of go-cid's Prefix.Sum; the harness re-checks them on
    every oracle table it writes). *)
Theorem C34_self_certifying_b : forall H H0,
  (forall p d c, H p d = Some c -> H (prefix_of c) d = Some c) ->
  (forall d, H (prefix_of (H0 d)) d = Some (H0 d)) ->
  forall pb m, from_pb H H0 pb = Some m -> selfcertb H m = true.
Proof. exact self_certifying_b. Qed.
Print Assumptions C34_self_certifying_b.

(** Reject or whole: the decoder fails exactly when some item on the wire is
    malformed (undefined/ill-formed CID, unparsable prefix, failing hash), and when it
    succeeds nothing was dropped: every entry, block and presence on the wire is in the
    message (a presence may be superseded by the block itself). *)
Theorem C34_reject_iff : forall H H0 pb, from_pb H H0 pb = None <-> pb_okb H pb = false.
Proof. exact reject_iff. Qed.
Print Assumptions C34_reject_iff.

Theorem C34_whole : forall H H0 pb m, from_pb H H0 pb = Some m -> wholeb H H0 pb m = true.
Proof. exact whole. Qed.
Print Assumptions C34_whole.

(** addEntry merge rules, for every sequence of entries (duplicates on the wire or
    repeated API calls): the entry of a CID is the sequential merge of exactly the items
    naming that CID; cancel and send-dont-have are sticky, want-block beats want-have. *)
Theorem C34_merge_per_cid : forall its wl c,
  aget c (fold_left add_item its wl) =
  fold_left merge_item (filter (fun it : item => bytes_eqb (fst it) c) its) (aget c wl).
Proof. exact merge_per_cid. Qed.
Print Assumptions C34_merge_per_cid.

Theorem C34_merge_rules : forall its e,
  match fold_left merge_item its (Some e) with
  | Some e' =>
      e_cancel e' = e_cancel e || existsb it_cancel its /\
      e_sdh e' = e_sdh e || existsb it_sdh its /\
      e_wt e' = (if (e_wt e =? WHave) && existsb (fun it => it_wt it =? WBlock) its then WBlock else e_wt e)
  | None => False
  end.
Proof. exact merge_fold_flags. Qed.
Print Assumptions C34_merge_rules.

(** Repeating the same entry is stable from the second time on.  (It is NOT idempotent
    at the first repetition: want-have(p1) then want-block(p2) keeps p1, a second
    want-block(p2) then sets p2 — the code's rule "priority only changes for the same
    type" is evaluated before the upgrade.) *)
Theorem C34_merge_stable : forall e p c wt s,
  let e1 := merge_ent e p c wt s in merge_ent e1 p c wt s = merge_ent (merge_ent e1 p c wt s) p c wt s.
Proof. exact merge_idem. Qed.
Print Assumptions C34_merge_stable.

(** the CID layer: Cast is a filter, Prefix.Bytes/PrefixFromBytes and the varints round-trip *)
Theorem C34_cast_exact : forall b c, cast b = Some c -> c = b.
Proof. exact cast_some. Qed.
Print Assumptions C34_cast_exact.

Theorem C34_prefix_roundtrip : forall c, prefix_from_bytes (prefix_bytes (prefix_of c)) = Some (prefix_of c).
Proof. intro c. apply prefix_roundtrip. apply prefix_of_ok. Qed.
Print Assumptions C34_prefix_roundtrip.

Theorem C34_uvarint_roundtrip : forall x rest, 0 <= x < 2 ^ 63 -> uvarint (putuv x ++ rest) = Some (x, rest).
Proof. exact uvarint_putuv. Qed.
Print Assumptions C34_uvarint_roundtrip.

(** ---------- non-vacuity ---------- *)
(** identity-hash CIDs (v1, raw): a concrete hash table, a message with an entry, an
    honest block and a presence, built through the API *)
Definition ex_c1 : cid := [1; 85; 0; 2; 5; 6].
Definition ex_c2 : cid := [1; 85; 0; 1; 9].
Definition ex_tab : htab := [((1, 85, 0, 2), [5; 6], Some ex_c1)].
Definition ex_ops : list op :=
  [OAddEntry ex_c2 3 WHave true; OAddEntry ex_c2 7 WBlock false; OAddPresence ex_c2 1;
   OAddPresence ex_c1 0; OAddBlock ex_c1 [5; 6]; OSetPending 42].

Example C34_example_wf :
  forallb (op_okb (H_of ex_tab)) ex_ops = true /\
  wfb (H_of ex_tab) (run true ex_ops) = true /\
  run true ex_ops = mkmsg true [(ex_c2, mkent 3 WBlock false true)] [(ex_c1, [5; 6])] [(ex_c2, 1)] 42 /\
  from_pb (H_of ex_tab) (H0_of ex_tab) (to_pb_v1 (run true ex_ops)) = Some (run true ex_ops).
Proof. vm_compute. repeat split; reflexivity. Qed.

(** hostile wire input: duplicate entries merge, a truncated CID rejects the whole message *)
Example C34_example_reject :
  let good := mkpe ex_c2 1 false WHave false in
  let bad := mkpe [1; 85; 0; 2; 5] 1 false WBlock false in
  from_pb (H_of ex_tab) (H0_of ex_tab) (mkpb (Some ([good; bad], false)) [] [] [] 0) = None /\
  from_pb (H_of ex_tab) (H0_of ex_tab) (mkpb (Some ([good; mkpe ex_c2 9 true WBlock true], false)) [] [] [] 0)
    = Some (mkmsg false [(ex_c2, mkent 1 WBlock true true)] [] [] 0).
Proof. vm_compute. split; reflexivity. Qed.

Example C34_example_varint : uvarint (putuv 9223372036854775807 ++ [7]) = Some (9223372036854775807, [7]) /\
  uvarint [128; 0] = None /\ uvarint [255; 255; 255; 255; 255; 255; 255; 255; 255; 1] = None.
Proof. vm_compute. repeat split; reflexivity. Qed.
