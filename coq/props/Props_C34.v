From Coq Require Import List ZArith Bool NArith.
From V Require Import lib.Verdict model.M_C34 proofs.P_C34.
Import ListNotations.
Open Scope Z_scope.

Theorem C34_merge_idempotent : forall e p c wt s,
  let e1 := merge_ent e p c wt s in merge_ent (merge_ent e1 p c wt s) p c wt s = merge_ent e1 p c wt s.
Proof. exact merge_idem. Qed.
Print Assumptions C34_merge_idempotent.
