(** C42 — Delegated routing HTTP applies filters and limits exactly.
    This file contains ONLY the property theorems, each closed by [exact] of a
    lemma proved in [proofs/P_C42.v], with [Print Assumptions] beneath it.
    Model: [model/M_C42.v] (transcribed from routing/http/filters/filters.go,
    routing/http/server/server.go, routing/http/client/client.go and tied to the
    code by the correspondence check of ./check C42).  The multiaddr protocol
    registry is a function [code_of] every theorem quantifies over. *)
From Coq Require Import List ZArith Bool String Ascii.
From V Require Import lib.Verdict model.M_C42 proofs.P_C42.
From V Require model.M_C43.
Import ListNotations.
Open Scope Z_scope.

(** The transcribed [applyFilters] (its loops over positive / negative protocol
    lists, the early exits of [protocolsAllowed], the "unknown" special cases)
    meets the declarative IPIP-484 statement, for every registry, record and
    filter lists: a record is omitted iff it is not [kept]; a kept record keeps
    its identity and protocols and exactly the addresses that pass [addr_ok]
    (all of them when there is no address filter), in their original order. *)
Theorem C42_filter_spec : forall code_of r fa fp,
  (apply_filters code_of r fa fp = None <-> ~ kept code_of fa fp r) /\
  (forall r', apply_filters code_of r fa fp = Some r' ->
     kept code_of fa fp r /\ r_id r' = r_id r /\ r_protos r' = r_protos r /\
     exists keep : addr -> bool,
       r_addrs r' = filter keep (r_addrs r) /\
       forall a, keep a = true <-> (fa = [] \/ addr_ok code_of fa a)).
Proof. exact filter_spec. Qed.
Print Assumptions C42_filter_spec.

(** ... and equals the functional form of that statement which [check_case]
    evaluates on every record the implementation returned. *)
Theorem C42_filter_fun : forall code_of r fa fp,
  apply_filters code_of r fa fp = ipip484 code_of fa fp r.
Proof. exact apply_filters_ipip484. Qed.
Print Assumptions C42_filter_fun.

(** Server pipelines (providers and peers, JSON and NDJSON): for every router
    result list (records, per-item errors, nil items), filters and limits, the
    response carries exactly [firstn limit (filter_map keep records)] in order,
    with the limit of the negotiated format (<= 0 = unlimited).  The iterator
    combinators enter through the list laws proved in C43 ([M_C43.take] is C43's
    denotation of [iter.Limit]). *)
Theorem C42_pipeline : forall code_of c stream_required fa fp e src,
  serve code_of c stream_required fa fp e src =
  match detect c stream_required, e with
  | None, _ | _, RouterFail => None
  | Some f, _ =>
      Some (f, firstn_limit (limit_of c f) (filter_map (spec_one code_of fa fp) (src_of e src)))
  end.
Proof. exact pipeline. Qed.
Print Assumptions C42_pipeline.

Theorem C42_pipeline_c43 : forall code_of fa fp limit src,
  M_C43.take limit (apply_to_iter code_of fa fp src) =
  firstn_limit limit (filter_map (spec_one code_of fa fp) src).
Proof. exact pipeline_c43. Qed.
Print Assumptions C42_pipeline_c43.

(** Filtering twice is filtering once — on one record and on whole (limited)
    responses: the client's local filtering cannot change a correct response. *)
Theorem C42_filter_idempotent : forall code_of r fa fp r',
  apply_filters code_of r fa fp = Some r' -> apply_filters code_of r' fa fp = Some r'.
Proof. exact filter_idempotent. Qed.
Print Assumptions C42_filter_idempotent.

Theorem C42_iter_idempotent : forall code_of fa fp limit src,
  apply_to_iter code_of fa fp (apply_to_iter code_of fa fp src) = apply_to_iter code_of fa fp src /\
  apply_to_iter code_of fa fp (spec_records code_of limit fa fp src) = spec_records code_of limit fa fp src.
Proof. exact idempotent_both. Qed.
Print Assumptions C42_iter_idempotent.

(** The filter depends only on WHICH terms are listed, not on order or
    repetition — so the client's [slices.Sort] of the caller's lists is harmless,
    also through the comma-joined URL parameter the server re-parses. *)
Theorem C42_filter_terms_only : forall code_of fa fa' fp fp' r,
  (forall x, In x fa <-> In x fa') -> (forall x, In x fp <-> In x fp') ->
  apply_filters code_of r fa fp = apply_filters code_of r fa' fp'.
Proof. exact apply_filters_mem. Qed.
Print Assumptions C42_filter_terms_only.

Theorem C42_wire_sort : forall x l, In x (wire (sort_strings l)) <-> In x (wire l).
Proof. exact wire_sort_mem. Qed.
Print Assumptions C42_wire_sort.

(** End to end (defect switch off): for every server configuration, client
    options, filter lists as the caller wrote them (any case, any order, empty
    and comma-holding terms included), router outcome and record list, what the
    caller of FindProviders / FindPeers drains equals the specification: the
    records IPIP-484 keeps, in order, capped at the negotiated format's limit —
    with local filtering on or off. *)
Theorem C42_end_to_end : forall code_of c q e src,
  client_view code_of false c q e src = spec_view code_of c q e src.
Proof. exact end_to_end. Qed.
Print Assumptions C42_end_to_end.

(** Finding C42-1 (defect switch on = the code before the fix): the client's
    local filter used the caller's strings verbatim, so an upper-case term that
    the server (which lower-cases) honours made the client drop every record. *)
Theorem C42_client_raw_refuted :
  exists c q e src,
    client_view std_code_of true c q e src <> spec_view std_code_of c q e src /\
    client_view std_code_of false c q e src = spec_view std_code_of c q e src.
Proof. exact client_raw_refuted. Qed.
Print Assumptions C42_client_raw_refuted.

(** IPNS over HTTP: a PUT reaches the router iff the record is valid for the
    name (and then the client sees the router's outcome); an invalid record is
    always answered with an error.  A GET yields a record iff the router's record
    is valid for the name.  (Record creation / validation itself is C26.) *)
Theorem C42_ipns_put : forall k router_fails,
  snd (model_put k router_fails) = ik_valid k /\
  (ik_valid k = true -> fst (model_put k router_fails) = router_fails) /\
  (ik_valid k = false -> fst (model_put k router_fails) = true).
Proof. exact ipns_put. Qed.
Print Assumptions C42_ipns_put.

Theorem C42_ipns_get : forall s,
  (model_get s = GotRecord <-> exists k, s = GRecord k /\ ik_valid k = true) /\
  (model_get s = GotNotFound <-> s = GNotFound).
Proof. exact ipns_get. Qed.
Print Assumptions C42_ipns_get.

(** A [VOk] verdict of the correspondence check on a client/server exchange
    means the observation met the specification. *)
Theorem C42_check_sound : forall peers c q e src obs,
  check_case (CFind peers c q e src obs) = VOk ->
  view_eqb obs (spec_view std_code_of c q e src) = true.
Proof. exact check_find_sound. Qed.
Print Assumptions C42_check_sound.

(** Non-vacuity: concrete instances (go-multiaddr codes: ip4 4, tcp 6, udp 273, quic-v1 461). *)
Definition ex_tcp : addr := {| a_id := 0; a_codes := [4; 6] |}.
Definition ex_quic : addr := {| a_id := 1; a_codes := [4; 273; 461] |}.
Definition ex_rec : rec := {| r_id := 1; r_protos := ["transport-bitswap"%string]; r_addrs := [ex_tcp; ex_quic] |}.
Definition ex_noaddr : rec := {| r_id := 2; r_protos := []; r_addrs := [] |}.

Example C42_example_filter :
  apply_filters std_code_of ex_rec ["!tcp"%string; "quic-v1"%string] ["Transport-Bitswap"%string]
    = Some {| r_id := 1; r_protos := ["transport-bitswap"%string]; r_addrs := [ex_quic] |} /\
  apply_filters std_code_of ex_rec ["!udp"%string; "!tcp"%string] [] = None /\
  apply_filters std_code_of ex_noaddr ["unknown"%string; "tcp"%string] ["unknown"%string] = Some ex_noaddr /\
  apply_filters std_code_of ex_noaddr ["tcp"%string] ["unknown"%string] = None /\
  apply_filters std_code_of ex_rec ["unknown"%string] [] = None.
Proof. vm_compute. repeat split; reflexivity. Qed.

Example C42_example_kept : kept std_code_of ["!tcp"%string; "quic-v1"%string] ["Transport-Bitswap"%string] ex_rec.
Proof. apply keptb_kept. vm_compute. reflexivity. Qed.

Example C42_example_end_to_end :
  let c := {| disable_nd := true; lim_json := 1; lim_nd := 0 |} in
  let q := {| stream_required := false; local_filter := true;
              q_addrs := ["quic-v1"%string; "!tcp"%string]; q_protos := ["unknown"%string; "TRANSPORT-BITSWAP"%string] |} in
  client_view std_code_of false c q RouterOk [RVal (OPeer ex_noaddr); RErr; RVal (OPeer ex_rec); RVal (OPeer ex_rec)]
  = Some (FJson, [RVal (OPeer {| r_id := 1; r_protos := ["transport-bitswap"%string]; r_addrs := [ex_quic] |})]).
Proof. vm_compute. reflexivity. Qed.

Example C42_example_wire :
  wire ["TCP"%string; "!ip6,udp"%string] = ["tcp"%string; "!ip6"%string; "udp"%string] /\
  wire [""%string] = [] /\ wire [""%string; ""%string] = [""%string; ""%string].
Proof. vm_compute. repeat split; reflexivity. Qed.
