(** C25 — IPNS validation is unforgeable and self-consistent.
    ONLY the property theorems, each closed by [exact] of a lemma of
    [proofs/P_C25.v].  Mechanism: [lib/Ipns.v] (UnmarshalRecord, ExtractPublicKey,
    Validate, ValidateWithName, Validator.Validate, accessors — transcribed from
    ipns/validation.go and ipns/record.go, shared with C26), specification and
    defect switch: [model/M_C25.v]; tied to /repo by the correspondence check of
    ./check C25.

    The signature scheme ([verify]), the public-key codec ([parse_pk]/[marshal_pk]),
    SHA-256 and the RFC3339 parser are universally quantified; NOTHING is assumed
    about them (no unforgeability): the theorems say what acceptance implies in terms
    of [verify].  [validator_validate_f g]: g = true is the code today, g = false the
    validation with the legacy-field comparison repaired (finding C25-1). *)
From Coq Require Import ZArith List Bool.
From V Require Import lib.Verdict lib.Varint lib.Pb lib.CborScalar lib.Ipns model.M_C25 proofs.P_C25.
Import ListNotations.
Open Scope Z_scope.

(** A record (as bytes) passes Validator.Validate for a name ONLY IF: it is within
    the size limit (as bytes and as a message), it unmarshals, there is a key [k]
    bound to the name (embedded and hashing to the name, or inlined in the name), and
    [verify k ("ipns-signature:" ++ Data) SignatureV2] holds on exactly the record's
    Data, the expiry is readable and not passed, a readable TTL is not negative. *)
Theorem C25_accept_implies_verified :
  forall (pk : Type) (parse_pk : bytes -> option pk) (marshal_pk : pk -> bytes)
         (verify : pk -> bytes -> bytes -> bool) (sha256 : bytes -> bytes)
         (parse_time : bytes -> option Z) (g : bool) (now : Z) (n : name) (bs : bytes),
  validator_validate_f pk parse_pk marshal_pk verify sha256 parse_time g now n bs = Ok tt ->
  exists (r : record) (k : pk),
    unmarshal_record bs = Ok r /\
    blen bs <= max_record_size /\
    dec_map (oget (p_data (r_pb r))) = Some (r_node r) /\
    key_bound pk parse_pk marshal_pk sha256 r n k /\
    validated pk verify parse_time now r k /\
    (g = false -> legacy_agrees r = true).
Proof. exact vv_accept. Qed.
Print Assumptions C25_accept_implies_verified.

(** the same for ValidateWithName on an unmarshalled record *)
Theorem C25_accept_implies_verified_with_name :
  forall (pk : Type) (parse_pk : bytes -> option pk) (marshal_pk : pk -> bytes)
         (verify : pk -> bytes -> bytes -> bool) (sha256 : bytes -> bytes)
         (parse_time : bytes -> option Z) (g : bool) (now : Z) (r : record) (n : name),
  validate_with_name_f pk parse_pk marshal_pk verify sha256 parse_time g now r n = Ok tt ->
  exists k : pk,
    key_bound pk parse_pk marshal_pk sha256 r n k /\
    validated pk verify parse_time now r k /\
    (g = false -> legacy_agrees r = true).
Proof. exact vwn_accept. Qed.
Print Assumptions C25_accept_implies_verified_with_name.

(** If signatures cannot be forged ([verify k m s] only for messages [m] the owner
    of [k] signed — stated as a hypothesis, for an arbitrary predicate [signed]), an
    accepted record's Data was signed by the key of the name. *)
Theorem C25_accept_implies_signed :
  forall (pk : Type) (parse_pk : bytes -> option pk) (marshal_pk : pk -> bytes)
         (verify : pk -> bytes -> bytes -> bool) (sha256 : bytes -> bytes)
         (parse_time : bytes -> option Z) (signed : pk -> bytes -> Prop),
  (forall (k : pk) (m s : bytes), verify k m s = true -> signed k m) ->
  forall (g : bool) (now : Z) (n : name) (bs : bytes),
  validator_validate_f pk parse_pk marshal_pk verify sha256 parse_time g now n bs = Ok tt ->
  exists (r : record) (k : pk),
    unmarshal_record bs = Ok r /\
    key_bound pk parse_pk marshal_pk sha256 r n k /\
    signed k (sig_prefix ++ oget (p_data (r_pb r))).
Proof. exact vv_accept_signed. Qed.
Print Assumptions C25_accept_implies_signed.

(** Any change to the signed Data or to the v2 signature that is still accepted is a
    second, different valid (message, signature) pair under a key bound to the same
    name — a forgery. *)
Theorem C25_tamper_data_sig :
  forall (pk : Type) (parse_pk : bytes -> option pk) (marshal_pk : pk -> bytes)
         (verify : pk -> bytes -> bytes -> bool) (sha256 : bytes -> bytes)
         (parse_time : bytes -> option Z) (g : bool) (now : Z) (n : name) (bs bs' : bytes)
         (r r' : record),
  validator_validate_f pk parse_pk marshal_pk verify sha256 parse_time g now n bs = Ok tt ->
  unmarshal_record bs = Ok r ->
  validator_validate_f pk parse_pk marshal_pk verify sha256 parse_time g now n bs' = Ok tt ->
  unmarshal_record bs' = Ok r' ->
  oget (p_data (r_pb r')) <> oget (p_data (r_pb r)) \/
  oget (p_sigv2 (r_pb r')) <> oget (p_sigv2 (r_pb r)) ->
  exists k' : pk,
    key_bound pk parse_pk marshal_pk sha256 r' n k' /\
    verify k' (sig_prefix ++ oget (p_data (r_pb r'))) (oget (p_sigv2 (r_pb r'))) = true /\
    (sig_prefix ++ oget (p_data (r_pb r')), oget (p_sigv2 (r_pb r'))) <>
    (sig_prefix ++ oget (p_data (r_pb r)), oget (p_sigv2 (r_pb r))).
Proof. exact tamper_data_or_sig. Qed.
Print Assumptions C25_tamper_data_sig.

(** Any change to the embedded public key that is still bound to the same name is
    the same key (same canonical bytes) or a SHA-256 collision. *)
Theorem C25_tamper_key :
  forall (pk : Type) (parse_pk : bytes -> option pk) (marshal_pk : pk -> bytes)
         (sha256 : bytes -> bytes) (r r' : record) (n : name) (k k' : pk),
  olen (p_pubkey (r_pb r)) <> 0 ->
  olen (p_pubkey (r_pb r')) <> 0 ->
  key_bound pk parse_pk marshal_pk sha256 r n k ->
  key_bound pk parse_pk marshal_pk sha256 r' n k' ->
  marshal_pk k = marshal_pk k' \/
  marshal_pk k <> marshal_pk k' /\ sha256 (marshal_pk k) = sha256 (marshal_pk k').
Proof. exact tamper_key. Qed.
Print Assumptions C25_tamper_key.

(** Every accessor of an unmarshalled record is a function of the Data field alone:
    two records with the same Data — whatever their legacy fields, signatures, key,
    unknown fields — report the same values; and (first theorem) the node is the
    decoding of exactly the Data the signature was verified on. *)
Theorem C25_accessors_signed : forall bs bs' r r',
  unmarshal_record bs = Ok r -> unmarshal_record bs' = Ok r' ->
  oget (p_data (r_pb r)) = oget (p_data (r_pb r')) ->
  r_node r = r_node r' /\
  acc_value r = acc_value r' /\ acc_sequence r = acc_sequence r' /\
  acc_ttl r = acc_ttl r' /\ acc_validity_type r = acc_validity_type r' /\
  (forall parse_time, acc_validity parse_time r = acc_validity parse_time r') /\
  (forall k, acc_metadata k r = acc_metadata k r').
Proof. exact accessors_signed. Qed.
Print Assumptions C25_accessors_signed.

(** Legacy fields, code today: when Value or SignatureV1 is non-empty, acceptance
    implies that all five legacy fields equal their signed counterparts. *)
Theorem C25_legacy_checked :
  forall (pk : Type) (parse_pk : bytes -> option pk) (marshal_pk : pk -> bytes)
         (verify : pk -> bytes -> bytes -> bool) (sha256 : bytes -> bytes)
         (parse_time : bytes -> option Z) (now : Z) (n : name) (bs : bytes) (r : record),
  validator_validate_f pk parse_pk marshal_pk verify sha256 parse_time true now n bs = Ok tt ->
  unmarshal_record bs = Ok r ->
  olen (p_sigv1 (r_pb r)) <> 0 \/ olen (p_value (r_pb r)) <> 0 ->
  match_pb r = true /\ legacy_agrees r = true.
Proof. exact legacy_checked_today. Qed.
Print Assumptions C25_legacy_checked.

(** Legacy fields, full clause of the property, for the repaired validation: every
    accepted record's present legacy fields agree with the signed data. *)
Theorem C25_legacy_agree :
  forall (pk : Type) (parse_pk : bytes -> option pk) (marshal_pk : pk -> bytes)
         (verify : pk -> bytes -> bytes -> bool) (sha256 : bytes -> bytes)
         (parse_time : bytes -> option Z) (now : Z) (n : name) (bs : bytes) (r : record),
  validator_validate_f pk parse_pk marshal_pk verify sha256 parse_time false now n bs = Ok tt ->
  unmarshal_record bs = Ok r -> legacy_agrees r = true.
Proof. exact legacy_checked_fixed. Qed.
Print Assumptions C25_legacy_agree.

(** ... and the repair only rejects more. *)
Theorem C25_fixed_refines :
  forall (pk : Type) (parse_pk : bytes -> option pk) (marshal_pk : pk -> bytes)
         (verify : pk -> bytes -> bytes -> bool) (sha256 : bytes -> bytes)
         (parse_time : bytes -> option Z) (now : Z) (n : name) (bs : bytes),
  validator_validate_f pk parse_pk marshal_pk verify sha256 parse_time false now n bs = Ok tt ->
  validator_validate_f pk parse_pk marshal_pk verify sha256 parse_time true now n bs = Ok tt.
Proof. exact fixed_refines_today. Qed.
Print Assumptions C25_fixed_refines.

(** Finding C25-1: the code today accepts a validly signed v2 record whose legacy
    Sequence field (999) contradicts the signed sequence number (5), because neither
    Value nor SignatureV1 is present; the repaired validation rejects it.  (Also the
    non-vacuity example: a concrete accepted record under a toy signature scheme.) *)
Theorem C25_legacy_refuted :
  let vv g := validator_validate_f unit (fun _ => Some tt) (fun _ => [7]) (fun _ _ _ => true)
                (fun _ => []) w_parse_time g 50 (NInline [7]) (marshal w_pb) in
  vv true = Ok tt /\ vv false = Err EOther /\
  exists r, unmarshal_record (marshal w_pb) = Ok r /\ legacy_agrees r = false /\
            p_seq (r_pb r) = Some 999 /\ acc_sequence r = Some 5.
Proof. exact legacy_refuted. Qed.
Print Assumptions C25_legacy_refuted.
