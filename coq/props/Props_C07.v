(** C07 — UnixFS file import round-trips with consistent metadata and layout.
    ONLY the property theorems, each closed by [exact] of a lemma of
    [proofs/P_C07.v], with [Print Assumptions] beneath.
    Model: [model/M_C07.v] ([layout] = balanced.Layout / trickle.Layout over the
    chunk list, trees of [lib/Tree.v] with the sizes the code records), tied to
    /repo on every run by the correspondence check of ./check C07.

    Quantifiers: every payload type [D] with any length measure [dlen] whose empty
    payload has length 0, EVERY chunk list, every width w >= 2 (>= 1 where
    enough), both layouts, both leaf types, every requested mode/mtime. *)
From Coq Require Import List ZArith Bool.
From V Require Import lib.Verdict lib.Tree model.M_C07 proofs.P_C07.
Import ListNotations.
Open Scope Z_scope.

(** The import always produces a tree (the model's fuel is never exhausted). *)
Theorem C07_total : forall D (dlen : D -> Z) (dnil : D) (w : nat),
  (2 <= w)%nat -> forall fl lk raw req cs,
  exists t m, layout dlen dnil w fl lk raw req cs = Some (t, m).
Proof. exact @layout_total. Qed.
Print Assumptions C07_total.

(** The leaves of the DAG, left to right, are exactly the chunks (an empty input
    gives the single empty leaf). *)
Theorem C07_flatten : forall D (dlen : D -> Z) (dnil : D) (w : nat),
  dlen dnil = 0 -> (1 <= w)%nat -> forall fl lk raw req cs t m,
  layout dlen dnil w fl lk raw req cs = Some (t, m) ->
  leaves t = match cs with [] => [dnil] | _ => cs end.
Proof. exact @layout_flatten. Qed.
Print Assumptions C07_flatten.

(** Byte level: the file reads back as exactly the input bytes and the root
    records the input length. *)
Theorem C07_content : forall A (w : nat), (1 <= w)%nat ->
  forall fl lk raw req (cs : list (list A)) t m,
  layout zlen [] w fl lk raw req cs = Some (t, m) ->
  content t = concat cs /\ rsize t = zlen (concat cs).
Proof. exact @layout_content. Qed.
Print Assumptions C07_content.

(** At EVERY node of the DAG: the recorded size is the length of the content
    below it; an inner node's recorded size is the sum of its recorded block
    sizes, and its i-th block size is both what the i-th child records for itself
    and that child's real content length. *)
Theorem C07_size_consistent : forall D (dlen : D -> Z) (dnil : D) (w : nat),
  dlen dnil = 0 -> (1 <= w)%nat -> forall fl lk raw req cs t m,
  layout dlen dnil w fl lk raw req cs = Some (t, m) ->
  forall s, subtree s t ->
    rsize s = tsize dlen s /\
    match s with
    | Leaf _ _ _ => True
    | Node rs bs kids => rs = zsum bs /\ bs = map rsize kids /\ bs = map (tsize dlen) kids
    end.
Proof. exact @layout_sizes_everywhere. Qed.
Print Assumptions C07_size_consistent.

Theorem C07_root_size : forall D (dlen : D -> Z) (dnil : D) (w : nat),
  dlen dnil = 0 -> (1 <= w)%nat -> forall fl lk raw req cs t m,
  layout dlen dnil w fl lk raw req cs = Some (t, m) ->
  sizes_consistent dlen t /\ rsize t = dsum dlen cs.
Proof. exact @layout_sizes. Qed.
Print Assumptions C07_root_size.

(** Balanced: for some height h all leaves are at depth exactly h, every inner
    node has between 1 and w links, and every subtree with a right sibling is a
    complete w-ary tree ([bal_ok]); in the property's words: uniform leaf depth
    and at most w links per node. *)
Theorem C07_bal_shape : forall D (dlen : D -> Z) (dnil : D) (w : nat),
  dlen dnil = 0 -> (1 <= w)%nat -> forall fl raw req cs t m,
  layout dlen dnil w fl Balanced raw req cs = Some (t, m) ->
  exists h, bal_ok w h t = true /\ uniform h t = true /\ max_links w t = true /\ height t = h.
Proof. exact @layout_bal_shape. Qed.
Print Assumptions C07_bal_shape.

(** Trickle: the result satisfies the predicate of VerifyTrickleDagStructure
    (Direct = w, LayerRepeat = 4, RawLeaves = raw), restated as [tri_ok]. *)
Theorem C07_tri_shape : forall D (dlen : D -> Z) (dnil : D) (w : nat),
  dlen dnil = 0 -> (1 <= w)%nat -> forall fl raw req cs t m,
  layout dlen dnil w fl Trickle raw req cs = Some (t, m) ->
  tri_shape dlen w raw t = true.
Proof. exact @layout_tri_shape. Qed.
Print Assumptions C07_tri_shape.

(** Same input, same parameters: same tree, hence the same root CID for ANY
    Merkle hashing of nodes ([HL] for data blocks, [HN] for link nodes), and the
    same attributes. *)
Theorem C07_deterministic : forall D (dlen : D -> Z) (dnil : D) (w : nat)
  (C : Type) (HL : kind -> Z -> D -> C) (HN : Z -> list Z -> list C -> C)
  fl lk raw req cs t1 m1 t2 m2,
  layout dlen dnil w fl lk raw req cs = Some (t1, m1) ->
  layout dlen dnil w fl lk raw req cs = Some (t2, m2) ->
  mcid C HL HN t1 = mcid C HL HN t2 /\ m1 = m2.
Proof. exact @layout_deterministic. Qed.
Print Assumptions C07_deterministic.

(** Metadata.  With the defect switch off (= balanced.Layout with
    fixes/C07-1: a raw root that must carry attributes is put under a File node)
    the root carries exactly the requested mode/mtime; the code as it is (switch on) does so whenever the root is not a
    raw block; and it does NOT for a one-chunk balanced import with raw leaves
    (finding C07-1, replayed on the real code by the harness corpus). *)
Theorem C07_meta : forall D (dlen : D -> Z) (dnil : D) (w : nat) lk raw req cs t m,
  layout dlen dnil w flags_off lk raw req cs = Some (t, m) ->
  m = if has_attrs req then req else no_meta.
Proof. exact @layout_meta_off. Qed.
Print Assumptions C07_meta.

Theorem C07_meta_code : forall D (dlen : D -> Z) (dnil : D) (w : nat) fl lk raw req cs t m,
  layout dlen dnil w fl lk raw req cs = Some (t, m) -> is_raw_root t = false ->
  m = if has_attrs req then req else no_meta.
Proof. exact @layout_meta_on. Qed.
Print Assumptions C07_meta_code.

Theorem C07_meta_refuted :
  exists (cs : list (list Z)) req,
    has_attrs req = true /\
    match layout zlen [] 174 flags_on Balanced true req cs with
    | Some (_, m) => m <> req
    | None => False
    end.
Proof. exact meta_refuted. Qed.
Print Assumptions C07_meta_refuted.

(** Non-vacuity: concrete imports of 11 one-byte chunks at width 2. *)
Example C07_example_balanced :
  let cs := map (fun x => [x]) [1; 2; 3; 4; 5; 6; 7; 8; 9; 10; 11] in
  match layout zlen [] 2 flags_on Balanced false (Meta 420 true 7 9) cs with
  | Some (t, m) => height t = 4%nat /\ content t = concat cs /\ rsize t = 11 /\
                   m = Meta 420 true 7 9 /\ bal_ok 2 4 t = true
  | None => False
  end.
Proof. vm_compute. repeat split; reflexivity. Qed.

Example C07_example_trickle :
  let cs := map (fun x => [x]) [1; 2; 3; 4; 5; 6; 7; 8; 9; 10; 11] in
  match layout zlen [] 2 flags_on Trickle true no_meta cs with
  | Some (t, m) => height t = 2%nat /\ content t = concat cs /\ rsize t = 11 /\
                   tri_shape zlen 2 true t = true /\
                   match t with Node _ bs _ => bs = [1; 1; 2; 2; 2; 2; 1] | _ => False end
  | None => False
  end.
Proof. vm_compute. repeat split; reflexivity. Qed.
