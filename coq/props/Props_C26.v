(** C26 — IPNS records round-trip through creation, encoding and validation.
    ONLY the property theorems, each closed by [exact] of a lemma of
    [proofs/P_C26.v].  Model: [model/M_C26.v] (NewRecord/createNode) on top of
    [lib/Ipns.v] (envelope, UnmarshalRecord, accessors, Validate), [lib/CborScalar.v]
    (DAG-CBOR subset, decode(encode m) = m) and [lib/Pb.v]/[lib/Varint.v] (protobuf
    wire format), tied to /repo byte-exactly by the correspondence check of
    ./check C26.

    The outside world is universally quantified: key types [sk]/[pk] with [pub],
    [sign], [verify], [marshal_pk]/[parse_pk], [sha256] and the RFC3339 codec
    [fmt_time]/[parse_time].  What is assumed of it is stated as hypotheses of the
    theorems: signatures made by a key verify under its public key and are not
    empty, public keys survive marshalling, and (inside [inputs_ok]) the expiry
    survives the time codec. *)
From Coq Require Import ZArith List Bool Sorted Lia.
From V Require Import lib.Verdict lib.Varint lib.Pb lib.CborScalar lib.Ipns model.M_C26 proofs.P_C26.
Import ListNotations.
Open Scope Z_scope.

(** Creation succeeds for every well-formed metadata map ... *)
Theorem C26_created :
  forall (sk pk : Type) (pub : sk -> pk) (sign : sk -> bytes -> bytes)
         (marshal_pk : pk -> bytes) (fmt_time : Z -> bytes) (s : sk) (i : inputs),
  meta_ok (i_meta i) ->
  exists rec, new_record sk pk pub sign marshal_pk fmt_time s i = NOk rec.
Proof. exact created. Qed.
Print Assumptions C26_created.

(** ... and fails whenever some metadata entry has an empty key, a reserved key,
    a nil value or a value of an unsupported type (wherever it sits in the map). *)
Theorem C26_bad_metadata_rejected :
  forall (sk pk : Type) (pub : sk -> pk) (sign : sk -> bytes -> bytes)
         (marshal_pk : pk -> bytes) (fmt_time : Z -> bytes) (s : sk) (i : inputs),
  Exists (fun e => meta_entry_ok e = false) (i_meta i) ->
  exists e, new_record sk pk pub sign marshal_pk fmt_time s i = NErr e.
Proof. exact rejected. Qed.
Print Assumptions C26_bad_metadata_rejected.

(** Marshal then unmarshal gives back the very same record (envelope and DAG-CBOR
    node), for every uint64 sequence number, int64 TTL, expiry, metadata map and
    option set — provided the record fits the 10 KiB limit UnmarshalRecord enforces. *)
Theorem C26_roundtrip :
  forall (sk pk : Type) (pub : sk -> pk) (sign : sk -> bytes -> bytes)
         (marshal_pk : pk -> bytes) (fmt_time : Z -> bytes)
         (parse_time : bytes -> option Z) (s : sk) (i : inputs) (rec : record),
  inputs_ok fmt_time parse_time i ->
  new_record sk pk pub sign marshal_pk fmt_time s i = NOk rec ->
  pb_size (r_pb rec) <= max_record_size ->
  unmarshal_record (marshal (r_pb rec)) = Ok rec.
Proof. exact unmarshal_created. Qed.
Print Assumptions C26_roundtrip.

(** The accessors of a created (hence, by [C26_roundtrip], of the unmarshalled)
    record return the inputs: value, sequence number (through the int64
    reinterpretation, for all of uint64), expiry, TTL floored at 0, every metadata
    entry with its kind; reserved names and absent keys are refused. *)
Theorem C26_accessors :
  forall (sk pk : Type) (pub : sk -> pk) (sign : sk -> bytes -> bytes)
         (marshal_pk : pk -> bytes) (fmt_time : Z -> bytes)
         (parse_time : bytes -> option Z) (s : sk) (i : inputs) (rec : record),
  inputs_ok fmt_time parse_time i ->
  new_record sk pk pub sign marshal_pk fmt_time s i = NOk rec ->
  acc_value rec = Some (i_value i) /\
  acc_sequence rec = Some (i_seq i) /\
  acc_validity parse_time rec = Ok (i_eol i) /\
  acc_ttl rec = Some (Z.max 0 (i_ttl i)) /\
  (forall k v, In (k, v) (i_meta i) -> acc_metadata k rec = node_of v) /\
  (forall k, In k reserved_keys -> acc_metadata k rec = None) /\
  (forall k, ~ In k (map fst (i_meta i)) -> acc_metadata k rec = None).
Proof. exact accessors_created. Qed.
Print Assumptions C26_accessors.

(** Validate(rec, pk) accepts a created record at every time up to its expiry. *)
Theorem C26_validates :
  forall (sk pk : Type) (pub : sk -> pk) (sign : sk -> bytes -> bytes)
         (marshal_pk : pk -> bytes) (verify : pk -> bytes -> bytes -> bool)
         (fmt_time : Z -> bytes) (parse_time : bytes -> option Z),
  (forall s m, verify (pub s) m (sign s m) = true) ->
  (forall s m, sign s m <> []) ->
  forall (s : sk) (i : inputs) (rec : record) (now : Z),
  inputs_ok fmt_time parse_time i ->
  new_record sk pk pub sign marshal_pk fmt_time s i = NOk rec ->
  pb_size (r_pb rec) <= max_record_size ->
  now <= i_eol i ->
  validate pk verify parse_time now rec (pub s) = Ok tt.
Proof. exact validate_created. Qed.
Print Assumptions C26_validates.

(** ValidateWithName against the record's own name accepts whenever the public key
    can be recovered (embedded, or short enough to be inlined in the name — always
    the case for the default option set); with WithPublicKey(false) and a long key
    (RSA, ECDSA) nobody can validate from the name alone: peer.ErrNoPublicKey. *)
Theorem C26_validates_with_name :
  forall (sk pk : Type) (pub : sk -> pk) (sign : sk -> bytes -> bytes)
         (parse_pk : bytes -> option pk) (marshal_pk : pk -> bytes)
         (verify : pk -> bytes -> bytes -> bool) (sha256 : bytes -> bytes)
         (fmt_time : Z -> bytes) (parse_time : bytes -> option Z),
  (forall s m, verify (pub s) m (sign s m) = true) ->
  (forall s m, sign s m <> []) ->
  (forall k, parse_pk (marshal_pk k) = Some k) ->
  forall (s : sk) (i : inputs) (rec : record) (now : Z),
  inputs_ok fmt_time parse_time i ->
  new_record sk pk pub sign marshal_pk fmt_time s i = NOk rec ->
  pb_size (r_pb rec) <= max_record_size ->
  now <= i_eol i ->
  validate_with_name pk parse_pk marshal_pk verify sha256 parse_time now
    rec (pid_of pk marshal_pk sha256 (pub s)) =
  (if key_recoverable sk pk pub marshal_pk s i then Ok tt else Err ENoPk).
Proof. exact validate_with_name_created. Qed.
Print Assumptions C26_validates_with_name.

(** The same through the libp2p validator on the marshalled bytes. *)
Theorem C26_validator_validates :
  forall (sk pk : Type) (pub : sk -> pk) (sign : sk -> bytes -> bytes)
         (parse_pk : bytes -> option pk) (marshal_pk : pk -> bytes)
         (verify : pk -> bytes -> bytes -> bool) (sha256 : bytes -> bytes)
         (fmt_time : Z -> bytes) (parse_time : bytes -> option Z),
  (forall s m, verify (pub s) m (sign s m) = true) ->
  (forall s m, sign s m <> []) ->
  (forall k, parse_pk (marshal_pk k) = Some k) ->
  forall (s : sk) (i : inputs) (rec : record) (now : Z),
  inputs_ok fmt_time parse_time i ->
  new_record sk pk pub sign marshal_pk fmt_time s i = NOk rec ->
  pb_size (r_pb rec) <= max_record_size ->
  now <= i_eol i ->
  validator_validate pk parse_pk marshal_pk verify sha256 parse_time now
    (pid_of pk marshal_pk sha256 (pub s)) (marshal (r_pb rec)) =
  (if key_recoverable sk pk pub marshal_pk s i then Ok tt else Err EPkNotFound).
Proof. exact validator_validate_created. Qed.
Print Assumptions C26_validator_validates.

(** The signed Data is the DAG-CBOR encoding of a map whose keys are strictly
    increasing in (length, bytes) — the canonical order — and decodes to it. *)
Theorem C26_cbor_canonical :
  forall (sk pk : Type) (pub : sk -> pk) (sign : sk -> bytes -> bytes) (marshal_pk : pk -> bytes)
         (fmt_time : Z -> bytes) (parse_time : bytes -> option Z) s i rec,
  inputs_ok fmt_time parse_time i ->
  new_record sk pk pub sign marshal_pk fmt_time s i = NOk rec ->
  StronglySorted key_lt (r_node rec) /\
  p_data (r_pb rec) = Some (enc_map (r_node rec)) /\
  (blen (enc_map (r_node rec)) < two64 -> dec_map (enc_map (r_node rec)) = Some (r_node rec)).
Proof. exact canonical_created. Qed.
Print Assumptions C26_cbor_canonical.

(** The other side of the 10 KiB precondition of [C26_roundtrip]: strictly above
    the limit UnmarshalRecord refuses (at exactly 10240 bytes the round trip holds). *)
Theorem C26_oversize_rejected : forall bs,
  max_record_size < blen bs -> unmarshal_record bs = Err ERecordSize.
Proof. exact oversize_rejected. Qed.
Print Assumptions C26_oversize_rejected.

(** The DAG-CBOR subset and the envelope on their own (any entry order, any
    well-formed envelope). *)
Theorem C26_cbor_roundtrip : forall l,
  Forall wf_entry l -> NoDup (map fst l) -> blen l < two64 ->
  dec_map (enc_map l) = Some l.
Proof. exact dec_map_enc_map. Qed.
Print Assumptions C26_cbor_roundtrip.

Theorem C26_envelope_roundtrip : forall r, wf_pb r -> unmarshal_pb (marshal r) = Some r.
Proof. exact unmarshal_marshal. Qed.
Print Assumptions C26_envelope_roundtrip.

(** The uint64 <-> int64 reinterpretation of the sequence number loses nothing. *)
Theorem C26_seq_reinterpretation : forall u, 0 <= u < two64 ->
  - two63 <= to_i64 u < two63 /\ to_u64 (to_i64 u) = u.
Proof. exact seq_reinterpretation. Qed.
Print Assumptions C26_seq_reinterpretation.

(** Non-vacuity: a toy signature scheme and time codec satisfying the hypotheses,
    sequence number 2^64-1, a negative TTL, three metadata entries that sort
    around the reserved keys; all hypotheses hold and the conclusions compute. *)
Definition ex_inputs : inputs :=
  mkInputs [47; 105] 18446744073709551615 4102444800000000001 (-5) true None
           [([95; 97], MString [120]); ([84; 84; 75], MInt (-1)); ([85; 85; 76; 33], MBool true)].
Definition ex_fmt (t : Z) : bytes := [t].
Definition ex_parse (b : bytes) : option Z := match b with [t] => Some t | _ => None end.
Definition ex_new := new_record unit unit (fun _ => tt) (fun _ _ => [1]) (fun _ => [7]) ex_fmt tt ex_inputs.

Example C26_example_hyps :
  inputs_ok ex_fmt ex_parse ex_inputs /\
  (forall (s : unit) (m : bytes), (fun _ _ _ => true) ((fun _ => tt) s) m ((fun _ _ => [1]) s m) = true) /\
  (forall (s : unit) (m : bytes), (fun _ _ => [1]) s m <> ([] : bytes)) /\
  (forall k : unit, (fun _ => Some tt) ((fun _ : unit => [7]) k) = Some k).
Proof.
  split.
  - unfold inputs_ok, meta_ok. cbn [ex_inputs i_seq i_ttl i_eol i_meta].
    split; [unfold two64; lia|]. split; [unfold two63; lia|]. split; [reflexivity|].
    split; [repeat constructor|]. split.
    + cbn. repeat constructor; cbn; intros H; repeat (destruct H as [H|H]; [discriminate H|]); exact H.
    + intros k n H. cbn in H.
      repeat (destruct H as [H|H]; [inversion H; subst; unfold two63; lia|]). destruct H.
  - repeat split; try discriminate. intros []; reflexivity.
Qed.

Example C26_example_run :
  match ex_new with
  | NOk rec =>
      pb_size (r_pb rec) <=? max_record_size = true /\
      unmarshal_record (marshal (r_pb rec)) = Ok rec /\
      acc_sequence rec = Some 18446744073709551615 /\
      acc_ttl rec = Some 0 /\
      map fst (r_node rec) = [[95; 97]; [84; 84; 75]; [84; 84; 76]; [85; 85; 76; 33]; kValue; kSequence; kValidity; kValidityType] /\
      validate_with_name unit (fun _ => Some tt) (fun _ => [7]) (fun _ _ _ => true) (fun _ => []) ex_parse
        4102444800000000001 rec (NInline [7]) = Ok tt
  | NErr _ => False
  end.
Proof. vm_compute. repeat split; reflexivity. Qed.
