(** C41 — Filestore references stay inside the filestore root.
    This file contains ONLY the property theorems, each closed by [exact] of a
    lemma proved in [proofs/P_C41.v], with [Print Assumptions] beneath it.
    Model: [model/M_C41.v] (transcribed from filestore/fsrefstore.go putTo /
    readFileDataObj and from Go's path/filepath Clean, Rel, Join, HasPrefix on
    Unix; tied to the code by the correspondence check of ./check C41). *)
From Coq Require Import List NArith Bool.
From V Require Import lib.Verdict model.M_C41 proofs.P_C41.
Import ListNotations.
Open Scope N_scope.

(** With the repaired containment check (defect flag off), for EVERY root string
    and EVERY FullPath string: if Put accepts and stores the reference [s], then
    the path that Get opens, Join(root, s), lies inside the root BY COMPONENTS
    (it is the cleaned root followed by real elements only), and it is exactly
    the cleaned FullPath that was referenced. *)
Theorem C41_inside : forall root p s, put false root p = Some s ->
  inside root (resolved root s) = true /\
  cp_rooted (resolved root s) = cp_rooted (clean p) /\
  cp_comps (resolved root s) = cp_comps (clean p).
Proof. exact put_inside. Qed.
Print Assumptions C41_inside.

(** The check of the current code (string prefix only, defect flag on) is
    refuted: a sibling directory that shares the root's name as a string prefix,
    and a ".." component after the root, are accepted and resolve outside. *)
Definition w_root : str := [47;114;47;114;111;111;116].                                   (* "/r/root" *)
Definition w_evil : str := [47;114;47;114;111;111;116;45;101;118;105;108;47;120].         (* "/r/root-evil/x" *)
Definition w_dotdot : str := [47;114;47;114;111;111;116;47;46;46;47;120].                 (* "/r/root/../x" *)

Theorem C41_string_prefix_refuted :
  (exists s, put true w_root w_evil = Some s /\ inside w_root (resolved w_root s) = false) /\
  (exists s, put true w_root w_dotdot = Some s /\ inside w_root (resolved w_root s) = false) /\
  put false w_root w_evil = None /\ put false w_root w_dotdot = None.
Proof.
  split; [eexists; split; [vm_compute; reflexivity|vm_compute; reflexivity]|].
  split; [eexists; split; [vm_compute; reflexivity|vm_compute; reflexivity]|].
  split; vm_compute; reflexivity.
Qed.
Print Assumptions C41_string_prefix_refuted.

(** The repair only rejects: whatever it accepts, the current code accepts too,
    with the same stored reference. *)
Theorem C41_fix_conservative : forall root p s, put false root p = Some s -> put true root p = Some s.
Proof. exact put_fixed_sub. Qed.
Print Assumptions C41_fix_conservative.

(** ... and it rejects nothing else: of the references the current code accepts,
    the repaired check keeps EXACTLY those that resolve inside the root (no
    functionality is lost), for every root and FullPath string. *)
Theorem C41_fix_exact : forall root p s, put true root p = Some s ->
  (put false root p = Some s <-> inside root (resolved root s) = true).
Proof. exact fix_exact. Qed.
Print Assumptions C41_fix_exact.

(** Read side, all reference kinds and all flag settings: for EVERY root and
    FullPath (file-shaped or URL-shaped, including "http://../.."), EVERY
    AllowFiles/AllowUrls setting at Put time and EVERY setting at read time (the
    configuration may change between runs over the same datastore): the local
    path that Get / Verify open for the stored reference, if any, lies inside the
    root. *)
Theorem C41_read_confined : forall root p af au s,
  put_ref false af au root p = PStored s ->
  forall gf gu, match read_disp gf gu root s with
                | DFile c => inside root c = true
                | _ => True
                end.
Proof. exact read_confined. Qed.
Print Assumptions C41_read_confined.

(** The dispatcher respects the kind a reference was stored as: a URL reference
    (stored verbatim, unchecked) is never opened as a local file whatever the
    flags, a file reference is never fetched as a URL (its stored form is never
    URL-shaped: [C41_file_ref_not_url]), and each reader needs its own flag. *)
Theorem C41_dispatch_kind : forall root p af au s gf gu,
  put_ref false af au root p = PStored s ->
  match read_disp gf gu root s with
  | DFile c => is_url p = false /\ gf = true /\ af = true
  | DUrl => is_url p = true /\ gu = true /\ au = true /\ s = p
  | DNotEnabled => if is_url p then gu = false else gf = false
  end.
Proof. exact dispatch_kind. Qed.
Print Assumptions C41_dispatch_kind.

Theorem C41_file_ref_not_url : forall root p s, put false root p = Some s -> is_url s = false.
Proof. exact put_not_url. Qed.
Print Assumptions C41_file_ref_not_url.

(** PutMany: a batch is accepted only if every element is accepted by the
    single-reference rule applied to it ALONE (no element's outcome depends on
    its neighbours), so every reference a batch stores is confined. *)
Theorem C41_batch_confined : forall root af au paths ss,
  batch_put false af au root paths = Some ss ->
  Forall2 (fun p s => put_ref false af au root p = PStored s) paths ss /\
  Forall (fun s => confined root s = true) ss.
Proof. exact batch_confined. Qed.
Print Assumptions C41_batch_confined.

(** Why the dispatcher matters: the URL-shaped reference "http://../../r/x" is
    accepted verbatim when AllowUrls is on; with AllowUrls off at read time the
    dispatcher answers "not enabled" — were it handed to the file reader,
    Join(root, reference) would be "/r/r/x", outside "/r/root". *)
Definition w_url : str := [104;116;116;112;58;47;47;46;46;47;46;46;47;114;47;120].   (* "http://../../r/x" *)
Example C41_hostile_url :
  is_url w_url = true /\
  put_ref false true true w_root w_url = PStored w_url /\
  read_disp true false w_root w_url = DNotEnabled /\
  read_disp true true w_root w_url = DUrl /\
  render (resolved w_root w_url) = [47;114;47;114;47;120] /\
  inside w_root (resolved w_root w_url) = false.
Proof. vm_compute. repeat split; reflexivity. Qed.

(** Non-vacuity: references inside the root — also through "." , "//", "sub/.."
    spellings, a trailing slash on the root, a relative root — are accepted. *)
Example C41_example_accepts :
  (* "/r/root", "/r/root/sub/../a//b/./c" *)
  put false w_root (w_root ++ [47;115;117;98;47;46;46;47;97;47;47;98;47;46;47;99]) = Some [97;47;98;47;99] /\
  (* "/r/root/", "/r/root/a" *)
  put false (w_root ++ [47]) (w_root ++ [47;97]) = Some [97] /\
  (* "root", "root/x/../y" *)
  put false [114;111;111;116] [114;111;111;116;47;120;47;46;46;47;121] = Some [121] /\
  (* the root itself *)
  put false w_root w_root = Some [46].
Proof. vm_compute. repeat split; reflexivity. Qed.
