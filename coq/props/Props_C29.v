(** C29 — Name publishing is monotone and resolution is consistent.
    This file contains ONLY the property theorems, each closed by [exact] of a lemma
    proved in [proofs/P_C29.v], with [Print Assumptions] beneath it.
    Model: [model/M_C29.v] (transcribed from namesys/{namesys,namesys_cache,
    ipns_publisher,ipns_resolver,dns_resolver,utilities}.go and the offline router's
    value store; tied to the code by the correspondence check of ./check C29).
    [ideal] = all defect switches off; the sequence theorems hold for every flag
    setting with [f_seq_wrap] off (that is: also for the cache-key defect that the
    current code has). *)
From Coq Require Import List ZArith Bool NArith.
From V Require Import lib.Verdict model.M_C29 gen.Gen_C29 proofs.P_C29.
Import ListNotations.
Open Scope Z_scope.

(** ---- first sentence: sequence numbers ---- *)

(** One operation of ANY kind from ANY state never lowers the sequence number stored
    for any key, in routing and (unless the operation replaces the name system by a
    new one) in the publisher's datastore. *)
Theorem C29_seq_monotone_step : forall f cf st o k,
  f_seq_wrap f = false ->
  seq_le (alookup k (s_rt st)) (alookup k (s_rt (fst (step f cf st o)))) /\
  (o <> ORestart -> seq_le (alookup k (s_ds st)) (alookup k (s_ds (fst (step f cf st o))))).
Proof. exact step_mono. Qed.
Print Assumptions C29_seq_monotone_step.

(** ... hence along every history. *)
Theorem C29_seq_monotone : forall f cf ops st k,
  f_seq_wrap f = false ->
  seq_le (alookup k (s_rt st)) (alookup k (s_rt (fst (run f cf st ops)))).
Proof. exact run_mono_rt. Qed.
Print Assumptions C29_seq_monotone.

Theorem C29_seq_monotone_datastore : forall f cf ops st k,
  f_seq_wrap f = false -> ~ In ORestart ops ->
  seq_le (alookup k (s_ds st)) (alookup k (s_ds (fst (run f cf st ops)))).
Proof. exact run_mono_ds. Qed.
Print Assumptions C29_seq_monotone_datastore.

(** After every history the publisher's record of a name has the sequence number and
    the value of the routing record. *)
Theorem C29_datastore_agrees_with_routing : forall f cf ops,
  f_seq_wrap f = false -> ds_agrees (fst (run f cf st0 ops)).
Proof. intros f cf ops H. apply run_ds_agrees; [exact H | exact st0_ds_agrees]. Qed.
Print Assumptions C29_datastore_agrees_with_routing.

(** A successful publish (no explicit sequence) after ANY history: the routing
    sequence increases (by one) exactly when the value differs from the stored one. *)
Theorem C29_seq_increases_on_change : forall f cf ops k v ttl eol o,
  f_seq_wrap f = false ->
  let st := fst (run f cf st0 ops) in
  let st' := fst (publish f cf st k v ttl eol None) in
  alookup k (s_rt st) = Some o ->
  snd (publish f cf st k v ttl eol None) = PNone ->
  exists r', alookup k (s_rt st') = Some r' /\ r_val r' = v /\
             (v <> r_val o -> r_seq r' = r_seq o + 1) /\ (v = r_val o -> r_seq r' = r_seq o).
Proof. exact publish_seq_change. Qed.
Print Assumptions C29_seq_increases_on_change.

(** An explicit sequence number not greater than the current one is rejected and
    changes nothing (from ANY state, ANY flags); a greater one is used. *)
Theorem C29_explicit_seq_rejected : forall f cf st k v ttl eol s c,
  get_published st k = Some c -> s <= r_seq c ->
  let st' := fst (publish f cf st k v ttl eol (Some s)) in
  snd (publish f cf st k v ttl eol (Some s)) = PInvalidSeq /\ s_rt st' = s_rt st /\ s_ds st' = s_ds st.
Proof. exact explicit_seq_rejected. Qed.
Print Assumptions C29_explicit_seq_rejected.

Theorem C29_explicit_seq_accepted : forall f cf ops k v ttl eol s c,
  f_seq_wrap f = false ->
  let st := fst (run f cf st0 ops) in
  let st' := fst (publish f cf st k v ttl eol (Some s)) in
  get_published st k = Some c -> r_seq c < s ->
  snd (publish f cf st k v ttl eol (Some s)) = PNone /\
  exists r', alookup k (s_rt st') = Some r' /\ alookup k (s_ds st') = Some r' /\ r_seq r' = s /\ r_val r' = v.
Proof. exact explicit_seq_accepted. Qed.
Print Assumptions C29_explicit_seq_accepted.

(** Two Publish calls of one key that overlap in time are serialised by the publisher's
    mutex (the harness checks that on the real code by parking the first call inside its
    datastore Put); one after the other, with different values, the second gets the
    first's sequence plus one. *)
Theorem C29_consecutive_publishes : forall f cf ops k vA tA eA vB tB eB,
  f_seq_wrap f = false ->
  let st := fst (run f cf st0 ops) in
  let st1 := fst (publish f cf st k vA tA eA None) in
  let st2 := fst (publish f cf st1 k vB tB eB None) in
  snd (publish f cf st k vA tA eA None) = PNone ->
  snd (publish f cf st1 k vB tB eB None) = PNone ->
  vA <> vB ->
  exists rA rB, alookup k (s_rt st1) = Some rA /\ r_val rA = vA /\
                alookup k (s_rt st2) = Some rB /\ r_val rB = vB /\ r_seq rB = r_seq rA + 1.
Proof. exact consecutive_publishes. Qed.
Print Assumptions C29_consecutive_publishes.

(** ---- second sentence: read your publish, with or without the cache ---- *)

Theorem C29_read_your_publish : forall cf ops k v ttl eol so en segs slash d,
  let st := fst (run ideal cf st0 ops) in
  let st' := fst (publish ideal cf st k v ttl eol so) in
  let p := mkPath (RName k en) segs slash in
  snd (publish ideal cf st k v ttl eol so) = PNone ->
  mutable v = false -> 0 <= d ->
  let r := snd (resolve ideal cf st' p d) in
  o_path r = Some (join v p) /\ o_err r = ENone.
Proof. exact read_your_publish. Qed.
Print Assumptions C29_read_your_publish.

(** The general form: after ANY history (publishes, resolves, sleeps, restarts), for
    ANY cache size, maximum cache TTL and DNS table, a resolve of ANY path answers the
    path and error of the cache-less reference resolution over the records routing
    holds now. *)
Theorem C29_cache_transparent : forall cf ops p d,
  let st := fst (run ideal cf st0 ops) in
  let r := snd (resolve ideal cf st p d) in
  o_path r = o_path (ref_resolve cf (s_rt st) p d) /\ o_err r = o_err (ref_resolve cf (s_rt st) p d).
Proof. exact cache_transparent. Qed.
Print Assumptions C29_cache_transparent.

(** ---- third sentence: chains ---- *)

(** A chain of n >= 1 hops ending at an immutable path resolves to that path (which
    carries the remainders appended hop by hop, [C29_hop_appends_remainder]) with the
    folded TTL, whenever the depth limit is unlimited or at least n. *)
Theorem C29_chain_resolved : forall cf rt p ts z d,
  chain cf rt p ts z -> ts <> [] -> mutable z = false ->
  ((d = 0 /\ (length ts <= UNLIMITED_FUEL)%nat) \/ Z.of_nat (length ts) <= d) ->
  ref_resolve cf rt p d = mkRes (Some z) (minnz_list ts) ENone false.
Proof. exact chain_resolved. Qed.
Print Assumptions C29_chain_resolved.

(** A chain that is still at a mutable path after exactly [d] hops (longer than the
    limit; cycles included) gives the recursion error, with that path. *)
Theorem C29_chain_too_long : forall cf rt p ts z d,
  chain cf rt p ts z -> Z.of_nat (length ts) = d -> 1 <= d -> mutable z = true ->
  ref_resolve cf rt p d = mkRes (Some z) (minnz_list ts) ERecursion false.
Proof. exact chain_too_long. Qed.
Print Assumptions C29_chain_too_long.

(** ... and only then. *)
Theorem C29_recursion_error_only_if_too_long : forall cf rt p d,
  1 <= d -> o_err (ref_resolve cf rt p d) = ERecursion ->
  exists ts z, chain cf rt p ts z /\ Z.of_nat (length ts) = d /\ mutable z = true.
Proof. exact recursion_error_only_if_too_long. Qed.
Print Assumptions C29_recursion_error_only_if_too_long.

Theorem C29_immutable_resolves_to_itself : forall cf rt p d,
  mutable p = false -> 0 <= d -> ref_resolve cf rt p d = mkRes (Some p) 0 ENone false.
Proof. exact immutable_resolves_to_itself. Qed.
Print Assumptions C29_immutable_resolves_to_itself.

Theorem C29_hop_appends_remainder : forall cf rt k en segs slash r,
  alookup k rt = Some r ->
  hop cf rt (mkPath (RName k en) segs slash) =
  Some (match segs, slash with
        | [], false => r_val r
        | _, _ => mkPath (p_root (r_val r)) (p_segs (r_val r) ++ segs) slash
        end, cap_ttl cf (Z.max 0 (r_ttl r))).
Proof. exact hop_appends_remainder. Qed.
Print Assumptions C29_hop_appends_remainder.

(** The folded TTL is the least positive hop TTL, and 0 when no hop has a positive one
    (for chains of at least two hops, or non-negative TTLs; a single hop reports its
    TTL unchanged). *)
Theorem C29_min_nonzero_ttl : forall ts,
  (2 <= length ts)%nat \/ Forall (fun t => 0 <= t) ts ->
  (Forall (fun t => t <= 0) ts -> minnz_list ts = 0) /\
  (Exists (fun t => 0 < t) ts ->
     0 < minnz_list ts /\ In (minnz_list ts) ts /\ Forall (fun t => 0 < t -> minnz_list ts <= t) ts).
Proof. exact minnz_list_spec. Qed.
Print Assumptions C29_min_nonzero_ttl.

(** [min_nz] of the model is utilities.go minNonZeroTTL as translated by go2coq from
    the current source (time.Duration = int64; min/max do not overflow). *)
Theorem C29_min_nz_is_the_code : forall a b, min_nz a b = Gen_C29.minNonZeroTTL a b.
Proof. exact min_nz_translated. Qed.
Print Assumptions C29_min_nz_is_the_code.

(** The fuel of the model's recursion is not a loophole. *)
Theorem C29_fuel_enough : forall f cf st p d,
  1 <= d -> o_err (snd (resolve f cf st p d)) <> EDiverge.
Proof. exact fuel_enough. Qed.
Print Assumptions C29_fuel_enough.

(** ---- the defects ---- *)

(** C29-1 (current code): with the cache key mismatch, publish succeeds and the
    immediately following resolve returns the previous value. *)
Theorem C29_cache_key_refuted :
  let f := mkFlags true false false in
  exists cf ops k v ttl eol p d,
    let st := fst (run f cf st0 ops) in
    snd (publish f cf st k v ttl eol None) = PNone /\ mutable v = false /\ p_root p = RName k EB36 /\
    o_path (snd (resolve f cf (fst (publish f cf st k v ttl eol None)) p d)) <> Some (join v p).
Proof.
  exists cfg8, [OPublish 0%N wA HOUR (1 * HOUR) None; OResolve wN0 32], 0%N, wB, HOUR, (2 * HOUR), wN0, 32.
  destruct cache_key_refuted_l as (H1 & H2 & _). cbv zeta in *.
  split; [exact H1|]. split; [reflexivity|]. split; [reflexivity|].
  rewrite H2. discriminate.
Qed.
Print Assumptions C29_cache_key_refuted.

(** C29-2 (repaired in /repo): with the wrap-around, a publish lowers the sequence
    number of the publisher's record from 2^64-1 to 0. *)
Theorem C29_seq_wrap_refuted :
  let f := mkFlags false true false in
  exists cf ops k v ttl eol,
    let st := fst (run f cf st0 ops) in
    ~ seq_le (alookup k (s_ds st)) (alookup k (s_ds (fst (publish f cf st k v ttl eol None)))).
Proof.
  exists cfg0, [OPublish 0%N wA HOUR (1 * HOUR) None; OPublish 0%N wA HOUR (2 * HOUR) (Some U64MAX)],
         0%N, wB, HOUR, (3 * HOUR).
  vm_compute. intros H. apply H. reflexivity.
Qed.
Print Assumptions C29_seq_wrap_refuted.

(** C29-3 (latent; masked by C29-1 in the current code). *)
Theorem C29_ttl0_stale_refuted :
  let f := mkFlags false false true in
  exists cf ops p d, o_path (snd (resolve f cf (fst (run f cf st0 ops)) p d)) <>
                     o_path (ref_resolve cf (s_rt (fst (run f cf st0 ops))) p d).
Proof.
  exists cfg8, [OPublish 0%N wA HOUR (1 * HOUR) None; OPublish 0%N wB 0 (2 * HOUR) None], wN0, 32.
  vm_compute. discriminate.
Qed.
Print Assumptions C29_ttl0_stale_refuted.

(** ---- non-vacuity ---- *)

(** a reachable state in which the hypotheses of the sequence theorems hold *)
Example C29_example_seq :
  let st := fst (run ideal cfg8 st0 [OPublish 0%N wA HOUR (1 * HOUR) None]) in
  exists o, alookup 0%N (s_rt st) = Some o /\ get_published st 0%N = Some o /\ r_seq o = 0 /\
  snd (publish ideal cfg8 st 0%N wB HOUR (2 * HOUR) None) = PNone /\
  snd (publish ideal cfg8 st 0%N wB HOUR (2 * HOUR) (Some 7)) = PNone /\
  snd (publish ideal cfg8 st 0%N wB HOUR (2 * HOUR) (Some 0)) = PInvalidSeq.
Proof. vm_compute. eexists; repeat split. Qed.

(** a three-hop chain DNSLink -> name 1 -> name 0 -> /ipfs/c0 with remainders and
    per-hop TTLs 0, 5, 3; and a two-cycle *)
Example C29_example_chain :
  let cf := mkCfg 0 None [(0%N, (mkPath (RName 1%N EB58) [7%N] false, 0))] in
  let rt := [(1%N, mkRec (mkPath (RName 0%N EB32) [] false) 4 5 0); (0%N, mkRec (mkPath (RImm false 0%N) [1%N] false) 0 3 0)] in
  let p := mkPath (RDns 0%N) [9%N] true in
  let z := mkPath (RImm false 0%N) [1%N; 7%N; 9%N] true in
  chain cf rt p [0; 5; 3] z /\ mutable z = false /\
  ref_resolve cf rt p 3 = mkRes (Some z) 3 ENone false /\
  o_err (ref_resolve cf rt p 2) = ERecursion /\
  let cyc := [(0%N, mkRec (mkPath (RName 1%N EB36) [] false) 0 5 0); (1%N, mkRec (mkPath (RName 0%N EB36) [] false) 0 7 0)] in
  chain cf cyc (mkPath (RName 0%N EB36) [] false) [5; 7; 5; 7] (mkPath (RName 0%N EB36) [] false) /\
  ref_resolve cf cyc (mkPath (RName 0%N EB36) [] false) 4 = mkRes (Some (mkPath (RName 0%N EB36) [] false)) 5 ERecursion false.
Proof.
  cbv zeta. repeat split; try (vm_compute; reflexivity).
  - eapply ch_cons; [vm_compute; reflexivity|]. eapply ch_cons; [vm_compute; reflexivity|].
    eapply ch_cons; [vm_compute; reflexivity|]. apply ch_nil.
  - do 4 (eapply ch_cons; [vm_compute; reflexivity|]). apply ch_nil.
Qed.
