(** C10 — DAG modifier behaves as a mutable file.
    This file contains ONLY the property theorems, each closed by [exact] of a
    lemma proved in [proofs/P_C10.v], with [Print Assumptions] beneath it.
    Model: [model/M_C10.v], transcribed from ipld/unixfs/mod/dagmodifier.go and tied to
    the code by the correspondence check of ./check C10 (every return value of every call
    and the read-back of every GetNode() DAG are compared with [run] and [spec_run]).

    Conventions of the specification [spec_step] (a byte array with ONE position):
      - Write(b) writes at the position; WriteAt(b, off) = seek to off, then write
        (the position ends at off + len b); both zero-fill a gap beyond the end;
      - Seek follows io.Seeker for the three whence values, rejects a target before the
        start and an unknown whence without moving, and a target beyond the end extends
        the file with zeros at once (the modifier's documented behaviour);
      - Read(n) returns the bytes at the position, as many as there are up to n, and
        reports EOF exactly when it returns fewer than n (n > 0);
      - Truncate cuts or zero-extends and leaves the position alone;
      - GetNode yields a DAG whose content is the array and whose size is its length.
    Hypotheses of the refinement theorems: WriteAt offsets, Read lengths and Truncate
    sizes are >= 0 ([op_wf]), arguments are int64 values and no position or size reached by
    the byte-array file leaves the int64 range ([spec_fits]) -- what Go's types enforce. *)
From Coq Require Import List ZArith Bool NArith.
From V Require Import lib.Verdict model.M_C10 proofs.P_C10.
Import ListNotations.
Open Scope Z_scope.

(** For EVERY starting content and EVERY sequence of calls, each observable result of the
    buffering mechanism (flags off = the behaviour the property demands) equals that of
    the byte-array file. *)
Theorem C10_refines_file : forall c ops,
  len c < two63 -> forallb op_wf ops = true -> spec_fits (spec_init c) ops ->
  snd (run fl_off (init c) ops) = snd (spec_run (spec_init c) ops).
Proof. exact refines_file. Qed.
Print Assumptions C10_refines_file.

(** After every history the state (DAG bytes, writeStart, curWrOff, pending buffer) denotes
    exactly the byte-array file: the buffer applied at writeStart over the DAG's bytes, at
    position curWrOff. *)
Theorem C10_denotes_file : forall c ops,
  len c < two63 -> forallb op_wf ops = true -> spec_fits (spec_init c) ops ->
  abs (fst (run fl_off (init c) ops)) = fst (spec_run (spec_init c) ops).
Proof. exact denotes_file. Qed.
Print Assumptions C10_denotes_file.

(** Flushing the buffer into the DAG at ANY point of ANY history changes nothing observable. *)
Theorem C10_sync_transparent : forall c ops,
  len c < two63 -> forallb op_wf ops = true -> spec_fits (spec_init c) ops ->
  let s := fst (run fl_off (init c) ops) in
  abs (sync fl_off s) = abs s /\ s_buf (sync fl_off s) = None.
Proof. exact sync_transparent. Qed.
Print Assumptions C10_sync_transparent.

(** A write is never lost, misplaced or duplicated: after any history [ops], a
    WriteAt(b, off) followed by any calls that do not modify the file, the DAG returned by
    GetNode holds exactly [b] at [off, off + len b), the old bytes elsewhere (zeros in a gap:
    [getZ old i = 0] beyond the old end), and has length max(old length, off + len b). *)
Theorem C10_no_lost_write : forall c ops b off q,
  len c < two63 -> 0 <= off ->
  forallb quiet q = true ->
  forallb op_wf (ops ++ OWriteAt b off :: q ++ [OGetNode]) = true ->
  spec_fits (spec_init c) (ops ++ OWriteAt b off :: q ++ [OGetNode]) ->
  let old := f_content (fst (spec_run (spec_init c) ops)) in
  exists content,
    last (snd (run fl_off (init c) (ops ++ OWriteAt b off :: q ++ [OGetNode]))) BPanic
      = BNode content (len content) /\
    len content = Z.max (len old) (off + len b) /\
    forall i, getZ content i =
              if (off <=? i) && (i <? off + len b) then getZ b (i - off) else getZ old i.
Proof. exact no_lost_write. Qed.
Print Assumptions C10_no_lost_write.

(** Each recorded defect, switched on alone, breaks the refinement (the witnesses are the
    histories of findings/C10.json; they are replayed on the real code on every run). *)
Theorem C10_writeat_overlap_refuted :
  exists c ops, forallb op_wf ops = true /\ spec_fits (spec_init c) ops /\
                snd (run (fl_only 1) (init c) ops) <> snd (spec_run (spec_init c) ops).
Proof. exact overlap_refuted. Qed.
Print Assumptions C10_writeat_overlap_refuted.

Theorem C10_writeat_curoff_refuted :
  exists c ops, forallb op_wf ops = true /\ spec_fits (spec_init c) ops /\
                snd (run (fl_only 2) (init c) ops) <> snd (spec_run (spec_init c) ops).
Proof. exact curoff_refuted. Qed.
Print Assumptions C10_writeat_curoff_refuted.

Theorem C10_seekend_sign_refuted :
  exists c ops, forallb op_wf ops = true /\ spec_fits (spec_init c) ops /\
                snd (run (fl_only 3) (init c) ops) <> snd (spec_run (spec_init c) ops).
Proof. exact seekend_refuted. Qed.
Print Assumptions C10_seekend_sign_refuted.

Theorem C10_stale_reader_refuted :
  exists c ops, forallb op_wf ops = true /\ spec_fits (spec_init c) ops /\
                snd (run (fl_only 4) (init c) ops) <> snd (spec_run (spec_init c) ops).
Proof. exact stale_refuted. Qed.
Print Assumptions C10_stale_reader_refuted.

Theorem C10_read_writestart_refuted :
  exists c ops, forallb op_wf ops = true /\ spec_fits (spec_init c) ops /\
                snd (run (fl_only 5) (init c) ops) <> snd (spec_run (spec_init c) ops).
Proof. exact readws_refuted. Qed.
Print Assumptions C10_read_writestart_refuted.

Theorem C10_seek_negative_refuted :
  exists c ops, forallb op_wf ops = true /\ spec_fits (spec_init c) ops /\
                snd (run (fl_only 6) (init c) ops) <> snd (spec_run (spec_init c) ops).
Proof. exact seekneg_refuted. Qed.
Print Assumptions C10_seek_negative_refuted.

(** Non-vacuity: a concrete history that meets the hypotheses (buffered write, overlapping
    WriteAt, seek from the end, read, sparse write, truncate), and what it observes. *)
Example C10_example :
  let c := [1; 2; 3; 4; 5; 6; 7; 8] in
  let ops := [OWrite [10; 11; 12]; OWriteAt [20] 1; OSeek (-2) 2; ORead 5;
              OWriteAt [30; 31] 11; OTruncate 12; OSeek 0 0; ORead 20; OGetNode] in
  len c < two63 /\ forallb op_wf ops = true /\ spec_fits (spec_init c) ops /\
  snd (run fl_off (init c) ops) =
  [BNum 3 ENone; BNum 1 ENone; BNum 6 ENone; BRead [7; 8] EEOF; BNum 2 ENone; BErr ENone;
   BNum 0 ENone; BRead [10; 20; 12; 4; 5; 6; 7; 8; 0; 0; 0; 30] EEOF;
   BNode [10; 20; 12; 4; 5; 6; 7; 8; 0; 0; 0; 30] 12].
Proof.
  split; [reflexivity|]. split; [reflexivity|]. split.
  - vm_compute. repeat split; intro; discriminate.
  - vm_compute. reflexivity.
Qed.
