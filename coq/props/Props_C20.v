(** C20 — MFS is deadlock-free (and loses no acknowledged write) under concurrency.
    ONLY the property theorems (proofs in proofs/P_C20.v).  Model: model/M_C20.v — a
    transition system of lock acquisitions with Go's writer-preferring RWMutex (a waiting
    writer blocks new readers; a Mutex is an RWMutex used for writing only), threads =
    programs of lock actions, and the lock programs of the MFS file operations transcribed
    from mfs/file.go, fd.go, dir.go (tied to the code through the verifhook points).
    [run S0 sched] = the threads of S0 scheduled in the order [sched]: ALL interleavings. *)
From Coq Require Import List ZArith Bool NArith Arith.
From V Require Import lib.Verdict model.M_C20 proofs.P_C20.
Import ListNotations.

(** Generic: if every thread acquires locks in strictly increasing rank (hence never one
    it already holds), releases only what it holds and ends holding nothing ([ok_thread]),
    then in EVERY reachable state some thread can move unless all have finished. *)
Theorem C20_deadlock_free : forall S0 sched S,
  Forall (fun th => ok_thread th = true) S0 -> run S0 sched = Some S ->
  all_done S = true \/ exists i S', step S i = Some S'.
Proof. exact deadlock_free. Qed.
Print Assumptions C20_deadlock_free.

(** The acquisition relation of MFS is acyclic: every file operation (with Mode/ModTime
    repaired), for every thread id the harness uses and both files of its universe,
    follows the rank order  desclock < descriptor mutex < directory locks top-down < nodeLock
    and never re-acquires a lock it holds. *)
Theorem C20_lock_order_acyclic :
  forallb (fun t => forallb (fun o => okb [] (map fst (p_op false t o))) all_ops) [0; 1; 2; 3] = true.
Proof. exact mfs_ops_ok. Qed.
Print Assumptions C20_lock_order_acyclic.

(** Hence: up to four threads, each running ANY sequence of these operations, under ANY
    schedule, are never deadlocked. *)
Theorem C20_mfs_deadlock_free : forall threads sched S,
  length threads <= 4 -> Forall (fun ops => Forall (fun o => In o all_ops) ops) threads ->
  run (mfs_state false threads) sched = Some S ->
  all_done S = true \/ exists i S', step S i = Some S'.
Proof. exact mfs_deadlock_free. Qed.
Print Assumptions C20_mfs_deadlock_free.

(** The defect of the current code (finding C20-1): File.Mode takes nodeLock.RLock and then
    calls GetNode, which takes it again.  With a writer (Chmod's setNodeData) announcing
    in between, both are stuck for ever: a reachable deadlock. *)
Definition w_sched : list nat := [0; 0; 0; 0; 0; 0; 0; 1; 1; 1; 1; 1; 1; 1].
Theorem C20_reentrant_rlock_refuted :
  exists sched S, run (mfs_state true [[OMode 0]; [OChmod 0]]) sched = Some S /\ deadlocked S = true.
Proof. exists w_sched. eexists. split; vm_compute; reflexivity. Qed.
Print Assumptions C20_reentrant_rlock_refuted.

(** Non-vacuity: the discipline is satisfiable by real programs (above), it is violated by
    the re-entrant Mode, and the repaired pair runs to completion under the same schedule. *)
Example C20_reentrant_not_ok : okb [] (map fst (p_op true 0 (OMode 0))) = false.
Proof. vm_compute. reflexivity. Qed.
Example C20_repaired_runs :
  match run (mfs_state false [[OMode 0]; [OChmod 0]]) (w_sched ++ [0; 1; 1; 1; 1; 1; 1; 1; 1]) with
  | Some st => all_done st = true
  | None => False
  end.
Proof. vm_compute. reflexivity. Qed.
