(** C13 — Provide-walker emits each reachable CID once in pre-order.
    ONLY the property theorems, each closed by [exact]/[apply] of lemmas proved in
    [proofs/P_C13.v] and [lib/Bloom.v], with [Print Assumptions] beneath.
    Model: [model/M_C13.v] ([loop] = dag/walker walkLoop, transcribed; tied to
    the code by the correspondence check of ./check C13).

    Vocabulary: [loop fuel g o stop n stack V] is walkLoop on graph [g] with
    options [o] (tracker key function, locality on/off, entity mode), tracker
    content [V]; the result is (emitted CIDs in order, tracker afterwards,
    error class).  [fuel_of g roots] is the fuel every walk is run with. *)
From Coq Require Import List Arith NArith Bool.
From V Require Import lib.Verdict lib.Bloom model.M_C13 proofs.P_C13.
Import ListNotations.

(** The classical equivalence.  For EVERY graph (finite association list, any
    shape: sharing, cycles, aliases, missing blocks), every option set with a
    tracker, every list of roots on the stack and every tracker content, the
    explicit-stack walk terminates within [fuel_of] and emits exactly what the
    recursive pre-order DFS with visited-marking at entry and children in link
    order emits, leaving the same tracker. *)
Theorem C13_stack_eq_recursive : forall g o roots V,
  o_dedup o = true ->
  exists e V',
    loop (fuel_of g roots) g o SNever 0 roots V = Some (e, V', RNil) /\
    dfs (fuel_of g roots) g o roots V = Some (e, V').
Proof. exact loop_total. Qed.
Print Assumptions C13_stack_eq_recursive.

(** The fuel is never what ends a walk, whatever the caller's emit callback and
    context do. *)
Theorem C13_fuel_enough : forall g o sp roots V,
  o_dedup o = true ->
  exists r, loop (fuel_of g roots) g o sp 0 roots V = Some r.
Proof. exact loop_fuel_enough. Qed.
Print Assumptions C13_fuel_enough.

(** Exactly once: the emitted CIDs have pairwise different tracker keys
    (multihashes for MapTracker/BloomTracker, CIDs for cid.Set), none of them was
    in the tracker before, all of them are in it afterwards, and the tracker
    only grows. *)
Theorem C13_once : forall g o roots V e V' r,
  o_dedup o = true ->
  loop (fuel_of g roots) g o SNever 0 roots V = Some (e, V', r) ->
  NoDup (map (o_key o) e) /\
  (forall x, In x e -> In (o_key o x) V' /\ ~ In (o_key o x) V) /\
  incl V V'.
Proof.
  intros g o roots V e V' r Hd H.
  destruct (loop_result _ _ _ _ _ _ _ Hd H) as [_ Hdfs].
  destruct (dfs_keys g o _ _ _ _ _ Hdfs) as (Hi & Hk & Hn). auto.
Qed.
Print Assumptions C13_once.

(** Never a CID that fails the locality check (answer "no" or an error), whose
    block cannot be fetched, or that is an identity CID; and only CIDs reachable
    from the roots. *)
Theorem C13_only_local : forall g o roots V e V' r,
  o_dedup o = true ->
  loop (fuel_of g roots) g o SNever 0 roots V = Some (e, V', r) ->
  forall x, In x e ->
    avail g (o_loc o) x = true /\ n_ident (lookup g x) = false /\ reach g o roots x.
Proof.
  intros g o roots V e V' r Hd H x Hx.
  destruct (loop_result _ _ _ _ _ _ _ Hd H) as [_ Hdfs].
  destruct (dfs_sound g o _ _ _ _ _ Hdfs x Hx) as (Hr & Ho & Hi).
  rewrite is_open_avail in Ho. auto.
Qed.
Print Assumptions C13_only_local.

(** WalkDAG with a fresh exact tracker: the emitted keys are exactly the keys of
    the non-identity CIDs reachable through available blocks.  [respects]: among
    the reachable CIDs, two CIDs with the same tracker key have the same
    availability, identity-ness and children keys (CIDv0/v1 aliases of a block;
    vacuous for cid.Set). *)
Theorem C13_emits_reachable : forall g o roots e V' r,
  o_dedup o = true -> o_entity o = false -> respects g o roots ->
  loop (fuel_of g roots) g o SNever 0 roots [] = Some (e, V', r) ->
  forall k, In k (map (o_key o) e) <->
    exists x, o_key o x = k /\ dreach g (o_loc o) roots x /\
              avail g (o_loc o) x = true /\ n_ident (lookup g x) = false.
Proof.
  intros g o roots e V' r Hd He Hresp H k.
  rewrite (emits_iff _ _ _ _ _ _ Hd Hresp H k).
  split; intros (x & Hk & Hr & Ho & Hi); exists x.
  - rewrite is_open_avail in Ho. apply (reach_dreach _ _ _ _ He) in Hr. auto.
  - rewrite is_open_avail. apply (reach_dreach _ _ _ _ He) in Hr. auto.
Qed.
Print Assumptions C13_emits_reachable.

(** Identity CIDs are never emitted, but they are traversed: an available
    non-identity child of a reachable, available identity node is emitted (by key). *)
Theorem C13_identity_not_emitted_but_traversed : forall g o roots e V' r,
  o_dedup o = true -> respects g o roots ->
  loop (fuel_of g roots) g o SNever 0 roots [] = Some (e, V', r) ->
  (forall x, In x e -> n_ident (lookup g x) = false) /\
  (forall p c, reach g o roots p -> n_ident (lookup g p) = true -> In c (kids g o p) ->
     is_open g o c = true -> n_ident (lookup g c) = false -> In (o_key o c) (map (o_key o) e)).
Proof.
  intros g o roots e V' r Hd Hresp H. split.
  - intros x Hx. destruct (loop_result _ _ _ _ _ _ _ Hd H) as [_ Hdfs].
    apply (dfs_sound g o _ _ _ _ _ Hdfs x Hx).
  - intros p c Hp _ Hc Ho Hi. apply (emits_iff _ _ _ _ _ _ Hd Hresp H). exists c.
    split; [reflexivity|]. split; [eapply reach_step; eassumption|]. auto.
Qed.
Print Assumptions C13_identity_not_emitted_but_traversed.

(** WalkEntityRoots: the emitted keys are exactly the keys of the non-identity
    CIDs reachable from the roots WITHOUT passing through an unavailable block, a
    file (UnixFS File/Raw, raw codec) or a symlink - the entity roots.  Chunks
    below a file are reached only if some directory/HAMT/non-UnixFS path leads to them. *)
Theorem C13_entity_roots : forall g o roots e V' r,
  o_dedup o = true -> o_entity o = true -> respects g o roots ->
  loop (fuel_of g roots) g o SNever 0 roots [] = Some (e, V', r) ->
  forall k, In k (map (o_key o) e) <->
    exists x, o_key o x = k /\ ereach g (o_loc o) roots x /\
              avail g (o_loc o) x = true /\ n_ident (lookup g x) = false.
Proof.
  intros g o roots e V' r Hd He Hresp H k.
  rewrite (emits_iff _ _ _ _ _ _ Hd Hresp H k).
  split; intros (x & Hk & Hr & Ho & Hi); exists x.
  - rewrite is_open_avail in Ho. apply (reach_ereach _ _ _ _ He) in Hr. auto.
  - rewrite is_open_avail. apply (reach_ereach _ _ _ _ He) in Hr. auto.
Qed.
Print Assumptions C13_entity_roots.

(** Walks sharing a tracker: running one walk per root, one after the other on
    the same tracker, emits - concatenated - exactly what the recursive DFS over
    the root list emits (hence pairwise distinct keys across the walks, by
    [C13_once]), and every walk returns nil. *)
Theorem C13_tracker_shared : forall fl g tk ent loc roots fuel V,
  dedups tk = true ->
  let o := mkOpts true (key_of fl tk) loc ent in
  exists outs V',
    run_walks fl g tk fuel (same_walks ent loc roots) V = Some (outs, V') /\
    Forall (fun x => snd x = RNil) outs /\
    dfs (fuel_of g roots) g o roots V = Some (concat (map fst outs), V') /\
    NoDup (map (key_of fl tk) (concat (map fst outs))).
Proof.
  intros fl g tk ent loc roots fuel V Hd o.
  destruct (run_walks_shared fl g tk ent loc roots fuel V Hd) as (outs & n & V' & Hw & Hall & Hrun).
  exists outs, V'. split; [exact Hw|]. split; [exact Hall|].
  destruct (run_eq_dfs g o roots V) as (e & V0 & Hr & Hdfs).
  assert (Heq : (e, V0) = (concat (map fst outs), V')).
  { pose proof (run_mono _ (max n (fuel_of g roots)) _ _ _ _ _ Hrun (Nat.le_max_l _ _)) as H1.
    pose proof (run_mono _ (max n (fuel_of g roots)) _ _ _ _ _ Hr (Nat.le_max_r _ _)) as H2.
    fold o in H1. rewrite H1 in H2. inversion H2. reflexivity. }
  inversion Heq; subst. split; [exact Hdfs|].
  apply (dfs_keys g o _ _ _ _ _ Hdfs).
Qed.
Print Assumptions C13_tracker_shared.

(** Ending a walk early yields a prefix of the full emission: emit returning
    false at its k-th call, or the context being cancelled during it. *)
Theorem C13_stop_prefix : forall g o roots V efull Vf k,
  o_dedup o = true ->
  loop (fuel_of g roots) g o SNever 0 roots V = Some (efull, Vf, RNil) ->
  (0 < k -> exists V', loop (fuel_of g roots) g o (SFalseAt k) 0 roots V = Some (firstn k efull, V', RNil)) /\
  (exists V' r, loop (fuel_of g roots) g o (SCancelAt k) 0 roots V = Some (firstn k efull, V', r)).
Proof.
  intros g o roots V efull Vf k Hd H.
  rewrite loop_never in H by exact Hd.
  destruct (run (fuel_of g roots) g o roots V) as [[e0 V0]|] eqn:Hr; [|discriminate].
  inversion H; subst e0 V0. split.
  - intros Hk. destruct (loop_false_prefix _ g o k 0 _ _ _ _ Hd Hk Hr) as [V' HV].
    rewrite Nat.sub_0_r in HV. exists V'. exact HV.
  - destruct (loop_cancel_prefix _ g o k 0 _ _ _ _ Hd Hr) as (V' & r & HV).
    rewrite Nat.sub_0_r in HV. exists V', r. exact HV.
Qed.
Print Assumptions C13_stop_prefix.

(** Bloom chain: for EVERY position oracle [pos] (one hash family per filter of
    the chain), every growth factor, every starting chain (any capacity, any
    number of growth steps behind it) and every sequence of visited keys - so
    across any number of growth steps - a key that has been visited is reported
    present and a later [Visit] of it returns false. *)
Theorem C13_bloom_no_false_negative :
  forall (key : Type) (pos : nat -> key -> list N) (gf : N) (s : chain) (ks : list key) (k : key),
  In k ks ->
  has key pos (visits key pos gf s ks) k = true /\
  fst (visit key pos gf (visits key pos gf s ks) k) = false.
Proof. exact no_false_negative. Qed.
Print Assumptions C13_bloom_no_false_negative.

(** The chain's counters (filters behind the current one, capacity, inserts into
    the current filter, total inserts, deduplicated) depend on the visit outcomes
    alone, as [bstep] (= what check_case replays) says; and a fresh insert into a
    full filter appends a filter. *)
Theorem C13_bloom_counters :
  forall (key : Type) (pos : nat -> key -> list N) (s : chain) (k : key),
  counters (snd (visit key pos growth_factor s k)) = bstep (fst (visit key pos growth_factor s k)) (counters s) /\
  (fst (visit key pos growth_factor s k) = true -> (last_cap s <= cur_ins s)%N ->
   length (older (snd (visit key pos growth_factor s k))) = S (length (older s))).
Proof.
  intros key pos s k. split; [apply counters_step | apply grow_when_full].
Qed.
Print Assumptions C13_bloom_counters.

(** Finding C13-1.  The tracker is keyed by multihash, so when one block is
    linked under two codecs (raw and dag-pb view of the same bytes) and the raw
    view is met first, the dag-pb view is skipped as "visited" together with its
    subtree: a CID reachable through available blocks is never emitted.
    Witness: root -> [raw(X); pb(X)], X = directory -> Y. *)
Definition c13_witness : graph :=
  [ ((2, 1)%N, mkNode CRaw None false LYes (Some []));                               (* Y *)
    ((1, 2)%N, mkNode CPb (Some UDirectory) false LYes (Some [(2, 1)%N]));           (* pb(X) -> Y *)
    ((2, 2)%N, mkNode CRaw None false LYes (Some []));                               (* raw(X) *)
    ((1, 3)%N, mkNode CPb (Some UDirectory) false LYes (Some [(2, 2)%N; (1, 2)%N])) ]. (* root *)

Theorem C13_alias_subtree_lost_refuted :
  exists g o roots e V' r x,
    o_dedup o = true /\ o_entity o = false /\ o_key o = kmh /\
    loop (fuel_of g roots) g o SNever 0 roots [] = Some (e, V', r) /\
    dreach g (o_loc o) roots x /\ avail g (o_loc o) x = true /\ n_ident (lookup g x) = false /\
    ~ In (o_key o x) (map (o_key o) e).
Proof.
  exists c13_witness, (mkOpts true kmh false false), [(1, 3)%N].
  exists [(1, 3)%N; (2, 2)%N], [(0, 2)%N; (0, 3)%N], RNil, (2, 1)%N.
  repeat split.
  - eapply dr_step with (p := (1, 2)%N); [|reflexivity|left; reflexivity].
    eapply dr_step with (p := (1, 3)%N); [apply dr_root; left; reflexivity|reflexivity|right; left; reflexivity].
  - cbn. intros [H|[H|[]]]; discriminate.
Qed.
Print Assumptions C13_alias_subtree_lost_refuted.

(** The repaired trackers key by codec AND multihash ([kcm]; /repo
    dag/walker/visited.go trackerKey).  For every graph in which reachable CIDs of one
    block under one codec look alike (CIDv0/v1 aliases - [respects] for [kcm]; the
    raw and the dag-pb view of the same bytes are free to differ), every reachable,
    available, non-identity CID has its MULTIHASH announced. *)
Theorem C13_repaired_complete : forall g o roots e V' r,
  o_dedup o = true -> o_key o = kcm -> respects g o roots ->
  loop (fuel_of g roots) g o SNever 0 roots [] = Some (e, V', r) ->
  forall x, reach g o roots x -> is_open g o x = true -> n_ident (lookup g x) = false ->
            In (kmh x) (map kmh e).
Proof. exact announces_all. Qed.
Print Assumptions C13_repaired_complete.

(** ---------- non-vacuity ---------- *)

(** a graph with a CIDv0/v1 alias pair, an identity directory and a missing block
    on which [respects] holds for the multihash-keyed tracker, and what the walk
    emits on it *)
Definition c13_example : graph :=
  [ ((2, 1)%N, mkNode CRaw None false LYes (Some []));                                   (* leaf *)
    ((2, 9)%N, mkNode CRaw None false LYes None);                                        (* missing *)
    ((0, 2)%N, mkNode CPb (Some UFile) false LYes (Some [(2, 1)%N; (2, 9)%N]));          (* file, v0 *)
    ((1, 2)%N, mkNode CPb (Some UFile) false LYes (Some [(2, 1)%N; (2, 9)%N]));          (* same block, v1 *)
    ((1, 4)%N, mkNode CPb (Some UDirectory) true LYes (Some [(1, 2)%N]));                (* identity dir *)
    ((0, 5)%N, mkNode CPb (Some UDirectory) false LYes (Some [(0, 2)%N; (1, 4)%N; (2, 1)%N])) ].

Example C13_respects_satisfiable :
  let o := mkOpts true kmh false false in
  respects c13_example o [(0, 5)%N] /\
  loop (fuel_of c13_example [(0, 5)%N]) c13_example o SNever 0 [(0, 5)%N] [] =
    Some ([(0, 5)%N; (0, 2)%N; (2, 1)%N], [(0, 4)%N; (0, 9)%N; (0, 1)%N; (0, 2)%N; (0, 5)%N], RNil).
Proof.
  split.
  - apply respects_b_sound with (L := [(0, 5)%N; (0, 2)%N; (1, 4)%N; (2, 1)%N; (2, 9)%N; (1, 2)%N]);
      vm_compute; reflexivity.
  - vm_compute. reflexivity.
Qed.

(** the entity walk on the same graph stops at the file *)
Example C13_entity_example :
  loop (fuel_of c13_example [(0, 5)%N]) c13_example (mkOpts true kmh false true) SNever 0 [(0, 5)%N] [] =
    Some ([(0, 5)%N; (0, 2)%N; (2, 1)%N], [(0, 1)%N; (0, 4)%N; (0, 2)%N; (0, 5)%N], RNil).
Proof. vm_compute. reflexivity. Qed.

(** the repaired key on the witness of finding C13-1: [respects] holds (the two
    views of X have different keys) and Y is emitted *)
Example C13_repaired_on_witness :
  let o := mkOpts true kcm false false in
  respects c13_witness o [(1, 3)%N] /\
  exists V', loop (fuel_of c13_witness [(1, 3)%N]) c13_witness o SNever 0 [(1, 3)%N] [] =
    Some ([(1, 3)%N; (2, 2)%N; (1, 2)%N; (2, 1)%N], V', RNil).
Proof.
  split.
  - apply respects_b_sound with (L := [(1, 3)%N; (2, 2)%N; (1, 2)%N; (2, 1)%N]); vm_compute; reflexivity.
  - eexists. vm_compute. reflexivity.
Qed.

(** [respects] for the repaired key on the graph with the CIDv0/v1 alias pair *)
Example C13_respects_kcm_satisfiable :
  respects c13_example (mkOpts true kcm false false) [(0, 5)%N].
Proof.
  apply respects_b_sound with (L := [(0, 5)%N; (0, 2)%N; (1, 4)%N; (2, 1)%N; (2, 9)%N; (1, 2)%N]);
    vm_compute; reflexivity.
Qed.

(** a Bloom chain of capacity 1 whose oracle maps every key to its own bit:
    eight keys = two growth steps (capacities 1, 4, 16); keys visited before a
    growth step are still known afterwards *)
Example C13_bloom_grows :
  let pos := fun (_ : nat) (k : N) => [k] in
  let s := visits N pos growth_factor (empty_chain 1) [1; 2; 3; 4; 5; 6; 7; 8; 1; 3]%N in
  counters s = (2, 16%N, 1%N, 8%N, 2%N) /\ has N pos s 1%N = true /\ has N pos s 9%N = false.
Proof. vm_compute. repeat split. Qed.
