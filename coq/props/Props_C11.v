(** C11 — dag-pb nodes encode canonically and never expose a stale CID.
    This file contains ONLY the property theorems, each closed by [exact] of a
    lemma of proofs/P_C11*.v, with [Print Assumptions] beneath it.

    Model: model/M_C11.v (ProtoNode with its encoded/cached-CID caches, transcribed
    from ipld/merkledag/node.go + coding.go) over the wire format lib/C11_DagPb.v
    (protowire varints, go-codec-dagpb encoder/decoder, go-cid CidFromBytes,
    stable sort by name); both are tied to /repo on every run by ./check C11.

    [H : builder -> bytes -> cid] is ANY hash; the theorems hold for all of them.
    [hist_ok] (P_C11.v) only states what Go's types guarantee about a history:
    link CIDs handed in are undefined or real CIDs, Tsize is a uint64, and a block
    that gets decoded is shorter than 2^64 bytes. *)
From Coq Require Import List ZArith Bool Sorted Permutation.
From V Require Import lib.Verdict lib.C11_DagPb model.M_C11
  proofs.P_C11_sort proofs.P_C11_codec proofs.P_C11 proofs.P_C11_multi.
Import ListNotations.
Open Scope Z_scope.

(** For EVERY history of AddRawLink/AddNodeLink, RemoveNodeLink, SetData,
    SetCidBuilder (nil or not), SetLinks, Copy, UpdateNodeLink, re-decoding, with
    Cid/RawData/Links/Data/Tree/DecodeProtobuf reads interleaved anywhere, the
    ProtoNode with its caches (defect switch off) answers every call exactly like
    the cache-free specification: Cid = H(current builder, encode(sorted current
    links, current data)), RawData = that encoding, Links = stable sort of the
    insertion-ordered links, DecodeProtobuf(RawData) = (data, sorted links). *)
Theorem C11_refines : forall (H : Z -> bytes -> Z) d0 ops,
  hist_ok (afresh d0) ops ->
  snd (run flags_off H (fresh d0) ops) = snd (arun H (afresh d0) ops).
Proof. exact refines. Qed.
Print Assumptions C11_refines.

(** No stale CID, no stale encoding: after every history the CID is the hash of
    the encoding of what the node holds NOW, under the builder it has NOW. *)
Theorem C11_cid_fresh : forall (H : Z -> bytes -> Z) d0 ops,
  hist_ok (afresh d0) ops ->
  let n := fst (run flags_off H (fresh d0) ops) in
  snd (step flags_off H n RCid) = BCid (H (n_builder n) (encode (sort_links (n_links n)) (n_data n))) /\
  snd (step flags_off H n RRaw) = BRaw (encode (sort_links (n_links n)) (n_data n)).
Proof. exact cid_fresh. Qed.
Print Assumptions C11_cid_fresh.

(** Decoding the encoding gives back the same data (nil stays nil, empty stays
    empty) and the same links: for every link list (any names, also empty and
    duplicate ones) with Tsize <= 2^63-1. *)
Theorem C11_roundtrip : forall ls d,
  (forall l, In l ls -> cid_valid (l_cid l) /\ 0 <= l_size l <= max_int64) ->
  len (encode (sort_links ls) d) < two64 ->
  decode (encode (sort_links ls) d) = Some (d, sort_links ls).
Proof. exact roundtrip. Qed.
Print Assumptions C11_roundtrip.

(** ... and so does DecodeProtobuf(RawData()) after every history. *)
Theorem C11_roundtrip_hist : forall (H : Z -> bytes -> Z) d0 ops,
  hist_ok (afresh d0) (ops ++ [RDecode]) ->
  let n := fst (run flags_off H (fresh d0) ops) in
  snd (step flags_off H n RDecode) = BDecode (Some (n_data n, sort_links (n_links n))).
Proof. exact roundtrip_hist. Qed.
Print Assumptions C11_roundtrip_hist.

(** The serialized order is THE stable sort by bytewise name: sorted, every group
    of equal names in insertion order, a permutation — and nothing else is. *)
Theorem C11_sorted_stable : forall ls,
  Sorted name_le (sort_links ls) /\
  (forall k, filter (name_is k) (sort_links ls) = filter (name_is k) ls) /\
  Permutation ls (sort_links ls) /\
  (forall s, Sorted name_le s -> (forall k, filter (name_is k) s = filter (name_is k) ls) -> s = sort_links ls).
Proof. exact sorted_stable. Qed.
Print Assumptions C11_sorted_stable.

(** Same data, same named links (distinct names), any insertion order: identical bytes. *)
Theorem C11_order_independent : forall l1 l2 d,
  Permutation l1 l2 -> NoDup (map l_name l1) ->
  encode (sort_links l1) d = encode (sort_links l2) d.
Proof. exact order_independent. Qed.
Print Assumptions C11_order_independent.

(** ... stated on the node: adding the links in the order [l1] and reading RawData
    and Cid gives the canonical bytes, which are those of any reordering [l2]. *)
Theorem C11_order_independent_hist : forall (H : Z -> bytes -> Z) d l1 l2,
  Permutation l1 l2 -> NoDup (map l_name l1) ->
  forallb link_ok l1 = true -> Forall link_in_ok l1 ->
  snd (run flags_off H (fresh d) (adds l1 ++ [RRaw; RCid])) =
  map (fun _ => BOk) l1 ++ [BRaw (encode (sort_links l1) d); BCid (H 0 (encode (sort_links l1) d))] /\
  encode (sort_links l1) d = encode (sort_links l2) d.
Proof. exact order_independent_hist. Qed.
Print Assumptions C11_order_independent_hist.

(** Families of nodes related by Copy() / UpdateNodeLink(): for EVERY history over a
    growing family (ops on any node, forks from any node, reads of any node anywhere),
    each ProtoNode with its caches answers like the specification [gmrun (astep H)], in
    which every node has its own state: no operation on one node changes what another
    node answers ([C11_family_independent]). *)
Theorem C11_family_refines : forall (H : Z -> bytes -> Z) d0 ms,
  mhist_ok [afresh d0] ms ->
  snd (gmrun (step flags_off H) [fresh d0] ms) = snd (gmrun (astep H) [afresh d0] ms).
Proof. exact multi_refines. Qed.
Print Assumptions C11_family_refines.

Theorem C11_family_independent : forall (H : Z -> bytes -> Z) sts m j,
  j <> fst (mtarget m) -> (j < length sts)%nat ->
  nth_error (fst (gmstep (astep H) sts m)) j = nth_error sts j.
Proof. exact family_independent. Qed.
Print Assumptions C11_family_independent.

(** The varint encoder's explicit fuel is never what stops it. *)
Theorem C11_varint_total : forall n r, 0 <= n < two64 -> uvarint (varint n ++ r) = Some (n, r).
Proof. exact uvarint_varint. Qed.
Print Assumptions C11_varint_total.

(** Finding C11-1: with SetCidBuilder(nil) keeping the cached CID (defect switch
    on = node.go before fixes/C11-1.patch) there is a history after which Cid()
    is NOT the hash of the current encoding under the current builder. *)
Theorem C11_builder_nil_refuted :
  exists (H : Z -> bytes -> Z) d0 ops n obs,
    hist_ok (afresh d0) ops /\
    run flags_on H (fresh d0) ops = (n, obs) /\
    snd (step flags_on H n RCid) <> BCid (H (n_builder n) (encode (sort_links (n_links n)) (n_data n))).
Proof. exact builder_nil_refuted. Qed.
Print Assumptions C11_builder_nil_refuted.

(** ---------- non-vacuity ---------- *)
Definition ex_cid_short : bytes := [1; 85; 0; 1; 120].           (* bafkqaala : CIDv1 raw identity "x" *)
Definition ex_cid_v0 : bytes := 18 :: 32 :: repeat 7 32.         (* a CIDv0 *)

Example C11_ex_cids_valid : cid_valid ex_cid_short /\ cid_valid ex_cid_v0.
Proof. split; vm_compute; reflexivity. Qed.

(** a history with duplicate and empty names, a Tsize of 2^63-1, builder changes
    incl. nil, a removal, a re-decode: it satisfies [hist_ok] ... *)
Definition ex_ops : list op :=
  [OAdd [98] 9223372036854775807 ex_cid_short; OAdd [] 0 ex_cid_v0; OAdd [98] 300 ex_cid_v0;
   OSetBuilder (Some 1); RCid; OSetBuilder None; RCid; ORemove []; RLinks; OAdd [97] 128 ex_cid_short;
   ORedecode; OSetData None; RDecode].

Example C11_ex_hist_ok : hist_ok (afresh (Some [1; 2])) ex_ops.
Proof. vm_compute. intuition discriminate. Qed.

(** ... and the bytes of the encoder are concrete dag-pb (the Go harness compares
    them with RawData() on every run): one link "a" -> bafkqaala, Tsize 300, data "hi" *)
Example C11_ex_bytes :
  encode (sort_links [mkLink [97] 300 ex_cid_short]) (Some [104; 105]) =
  [18; 13; 10; 5; 1; 85; 0; 1; 120; 18; 1; 97; 24; 172; 2; 10; 2; 104; 105].
Proof. vm_compute. reflexivity. Qed.

Example C11_ex_family :
  mhist_ok [afresh None]
    [MOp 0 (OAdd [97] 1 ex_cid_short); MOp 0 (OAdd [98] 2 ex_cid_short); MOp 0 RCid; MFork 0;
     MOp 1 (ORemove [97]); MOp 0 RLinks; MOp 0 RDecode; MForkUpdate 0 [97] 5 ex_cid_v0; MOp 2 RLinks; MOp 0 RDecode].
Proof. vm_compute. intuition discriminate. Qed.

Example C11_ex_stable :
  map l_size (sort_links [mkLink [98] 1 ex_cid_short; mkLink [97] 2 ex_cid_short; mkLink [98] 3 ex_cid_short;
                          mkLink [] 4 ex_cid_short; mkLink [97] 5 ex_cid_short]) = [4; 2; 5; 1; 3].
Proof. vm_compute. reflexivity. Qed.
