From Coq Require Import List ZArith Bool.
From V Require Import lib.Verdict lib.C11_DagPb model.M_C11 proofs.P_C11.
Import ListNotations.
Open Scope Z_scope.

Theorem C11_builder_nil_refuted :
  exists (H : Z -> bytes -> Z) d0 ops n obs,
    run flags_on H (fresh d0) ops = (n, obs) /\
    snd (step flags_on H n RCid) <> BCid (H (n_builder n) (encode (sort_links (n_links n)) (n_data n))).
Proof. exact builder_nil_refuted. Qed.
Print Assumptions C11_builder_nil_refuted.
