(** C44 — Reproviding announces every allowed key and terminates.
    ONLY property theorems here, each closed by [exact] of a lemma of proofs/P_C44.v.
    Model: model/M_C44.v (transcribed from provider/reprovider.go [Reprovide] and
    provider/provider.go [NewPrioritizedProvider]; tied to the code by ./check C44). *)
From Coq Require Import List ZArith Bool NArith.
From V Require Import lib.Verdict model.M_C44 proofs.P_C44.
Import ListNotations.
Open Scope Z_scope.

(** For EVERY configuration (any MaxBatchSize incl. 0, any throughput threshold incl. 0,
    ProvideMany or single-Provide router), every allowlist outcome and every key stream
    (any length, duplicates, rejected hashes anywhere), the repaired reprovide loop
    terminates within [length stream + 2] iterations and its batches satisfy the whole
    specification of the property: every allowed key announced at least once, nothing
    rejected or foreign announced, no empty batch and no batch above the configured maximum. *)
Theorem C44_terminates_and_meets_spec : forall c bad stream,
  exists bs, reprovide false c bad stream = Some bs /\ spec_reprovide c bad stream true bs = true.
Proof. exact reprovide_meets_spec. Qed.
Print Assumptions C44_terminates_and_meets_spec.

(** the same, clause by clause, for any batch size >= 1, any carried-over set of rejected
    CIDs and any accumulated prefix (the loop invariant) *)
Theorem C44_loop_invariant : forall fuel bad batch stream cids acc bs,
  1 <= batch -> (forall c, In c cids -> valid bad c = false) ->
  loop fuel bad batch stream cids acc = Some bs ->
  exists new, bs = acc ++ new /\
    (forall c, In c stream -> valid bad c = true -> In (mh_of c) (concat new)) /\
    (forall m, In m (concat new) -> exists c, In c stream /\ valid bad c = true /\ mh_of c = m) /\
    (forall b, In b new -> b <> [] /\ Z.of_nat (length b) <= batch).
Proof. exact loop_post. Qed.
Print Assumptions C44_loop_invariant.

Theorem C44_fuel_sufficient : forall fuel bad batch stream cids acc,
  1 <= batch -> (length stream < fuel)%nat ->
  exists bs, loop fuel bad batch stream cids acc = Some bs.
Proof. exact loop_terminates. Qed.
Print Assumptions C44_fuel_sufficient.

(** the code before the repair: with an effective batch size of 0 the loop makes no
    progress — no amount of fuel lets it finish (finding C44-1) *)
Theorem C44_batch_zero_refuted : forall c bad stream fuel,
  batch_size true c = 0 -> loop fuel bad (batch_size true c) stream [] [] = None.
Proof. exact reprovide_batch_zero_diverges. Qed.
Print Assumptions C44_batch_zero_refuted.

Example C44_batch_zero_witness :
  let c := {| max_batch := 0; provide_many := true; has_cb := false; min_provides := 0 |} in
  batch_size true c = 0 /\ batch_size false c = 1 /\
  reprovide true c [] [(1, 7)%N] = None /\ reprovide false c [] [(1, 7)%N] = Some [[7%N]].
Proof. vm_compute. repeat split; reflexivity. Qed.

(** prioritized key provider: every key of every stream is emitted, the output is a
    subsequence of the concatenated streams (nothing invented, order kept) *)
Theorem C44_prioritized : forall streams, spec_prioritized streams (prioritized streams) = true.
Proof. exact prioritized_meets_spec. Qed.
Print Assumptions C44_prioritized.

Theorem C44_prioritized_complete : forall streams c, In c (flat streams) -> In c (prioritized streams).
Proof. exact prioritized_complete. Qed.
Print Assumptions C44_prioritized_complete.

(** suppression, fully characterised: the streams before the last contribute every key
    exactly once; the last stream contributes, in order, exactly its keys not emitted by an
    earlier stream *)
Theorem C44_prioritized_suppression : forall pre last,
  let first := prioritized (pre ++ [None]) in
  NoDup first /\
  exists extra, prioritized (pre ++ [Some last]) = first ++ extra /\
                Sub extra last /\ (forall c, In c extra -> ~ In c first) /\
                (forall c, In c last -> In c (first ++ extra)).
Proof. exact prioritized_suppression. Qed.
Print Assumptions C44_prioritized_suppression.

Example C44_prioritized_example :
  prioritized [Some [(1,1); (1,2); (1,1)]; None; Some [(1,2); (1,3)]; Some [(1,3); (1,4); (1,4); (1,1)]]%N
  = [(1,1); (1,2); (1,3); (1,4); (1,4)]%N.
Proof. vm_compute. reflexivity. Qed.

(** Non-vacuity of the main theorem on a stream with duplicates, an alias CID and rejected hashes. *)
Example C44_example :
  reprovide false {| max_batch := 2; provide_many := true; has_cb := true; min_provides := 5 |}
            [9%N] [(1,1); (1,9); (0,1); (1,2); (1,1); (1,3)]%N
  = Some [[1]; [1; 2]; [1; 3]]%N.
Proof. vm_compute. reflexivity. Qed.
