(** C19 — MFS behaves as a hierarchical filesystem and persists what it shows.
    ONLY the property theorems, each closed by [exact] of a lemma of proofs/P_C19.v.
    Model: model/M_C19.v — specification layer = immutable trees ([t_step]);
    mechanism layer = MFS objects with entry caches, cacheSync and propagation to the
    root, transcribed from mfs/{ops,dir,file,fd,root}.go ([m_step]); [abs] = the tree
    a mechanism state shows.  [flags_off] = both defects of the current Mv repaired. *)
From Coq Require Import List ZArith Bool NArith.
From V Require Import lib.Verdict model.M_C19 proofs.P_C19 proofs.P_C19_more.
Import ListNotations.
Open Scope Z_scope.

(** For EVERY sequence of mkdir(-p, flush) / create / write / truncate / mv / rm / chmod /
    touch / flush / stat / list / read on a fresh root, the mechanism returns exactly what the
    tree specification returns, and shows exactly the specification's tree afterwards. *)
Theorem C19_refines_tree : forall ops,
  snd (m_run flags_off (load newdir) ops) = snd (t_run newdir ops) /\
  abs (fst (m_run flags_off (load newdir) ops)) = fst (t_run newdir ops).
Proof. exact refines_tree. Qed.
Print Assumptions C19_refines_tree.

(** The same from every mechanism state satisfying the invariant [wf] (unique names,
    cached names are linked names, at every level), which every operation preserves. *)
Theorem C19_refines_tree_from : forall o ops, wf o ->
  snd (m_run flags_off o ops) = snd (t_run (abs o) ops) /\
  abs (fst (m_run flags_off o ops)) = fst (t_run (abs o) ops) /\
  wf (fst (m_run flags_off o ops)).
Proof. exact refines_tree_from. Qed.
Print Assumptions C19_refines_tree_from.

(** One operation: results equal, shown tree follows the specification, invariant kept. *)
Theorem C19_step_refines : forall o a, wf o ->
  wf (fst (m_step flags_off o a)) /\
  abs (fst (m_step flags_off o a)) = fst (t_step (abs o) a) /\
  snd (m_step flags_off o a) = snd (t_step (abs o) a).
Proof. exact step_refines. Qed.
Print Assumptions C19_step_refines.

(** After FlushPath("/") the root's UnixFS DAG (a value: the whole DAG below it) IS the tree
    MFS showed before the flush; the flush returns it and does not change what is shown. *)
Theorem C19_flush_persists : forall o, wf o ->
  let r := m_step flags_off o (OFlush []) in
  snd r = RNode (abs o) /\ persnode (fst r) = abs o /\ abs (fst r) = abs o.
Proof. exact flush_persists. Qed.
Print Assumptions C19_flush_persists.

(** FlushPath(p) returns the DAG of exactly the subtree the specification has at [p]. *)
Theorem C19_flush_returns_subtree : forall o p n, wf o -> tget p (abs o) = Some n ->
  snd (m_step flags_off o (OFlush p)) = RNode n.
Proof. exact flush_returns_subtree. Qed.
Print Assumptions C19_flush_returns_subtree.

(** cacheSync (GetNode): afterwards the object's UnixFS node is what the object shows. *)
Theorem C19_sync : forall o, wf o ->
  abs (sync o) = abs o /\ persnode (sync o) = abs o /\ wf (sync o).
Proof. exact sync_spec. Qed.
Print Assumptions C19_sync.

(** Specification trees stay well-formed (unique names in every directory), for all histories. *)
Theorem C19_spec_wellformed : forall ops t, wfn t -> wfn (fst (t_run t ops)).
Proof. exact t_run_wfn. Qed.
Print Assumptions C19_spec_wellformed.

(** C19_failed_unchanged_partial.  FULL STATEMENT WANTED: for every operation [a],
      wf o -> is_ok (snd (m_step flags_off o a)) = false -> abs (fst (m_step flags_off o a)) = abs o.
    PROVED: the same for every operation except Mv.  MISSING: Mv — its failures before anything
    is modified are covered by the refinement to [t_mv], but that the two late failure points
    (AddChild at the destination after a destination FILE was unlinked; the final Unlink of the
    source) cannot occur is not proved; [check_case] evaluates "error => tree unchanged" along
    the specification run of every case instead ([t_failed_unchanged]). *)
Theorem C19_failed_unchanged_partial : forall o a, wf o -> is_mv a = false ->
  is_ok (snd (m_step flags_off o a)) = false -> abs (fst (m_step flags_off o a)) = abs o.
Proof. exact mech_failed_unchanged. Qed.
Print Assumptions C19_failed_unchanged_partial.

(** Lookups, listings, reads and flushes never change the tree. *)
Theorem C19_queries_unchanged : forall t p, wfn t ->
  fst (t_step t (OFlush p)) = t /\ fst (t_step t (OStat p)) = t /\
  fst (t_step t (OList p)) = t /\ fst (t_step t (ORead p)) = t.
Proof. exact queries_unchanged. Qed.
Print Assumptions C19_queries_unchanged.

(** non-vacuity of the hypotheses: a failing mkdir on a well-formed, non-empty state *)
Example C19_failed_example :
  let o := fst (m_run flags_off (load newdir) [OMkdir [0; 2] true false; OCreate [0; 4]]) in
  snd (m_step flags_off o (OMkdir [0; 4; 1] true false)) = RErr EOther /\
  abs (fst (m_step flags_off o (OMkdir [0; 4; 1] true false))) = abs o.
Proof. vm_compute. split; reflexivity. Qed.

(** The two defects of the current code: with the flag ON (what mfs.Mv does today) the
    mechanism deviates from the specification; the witnesses are replayed on the real
    code by the harness on every run (findings C19-1, C19-2). *)
Definition w_name : list op :=
  [OMkdir [0; 2] true false; OMkdir [1; 2] true false; OCreate [0; 2; 4];
   OMv [0; 2; 4] [1; 2; 4] false; OList [0; 2]].
Theorem C19_mv_name_refuted :
  exists ops, snd (m_run flags_name (load newdir) ops) <> snd (t_run newdir ops).
Proof. exists w_name. vm_compute. intro H. discriminate H. Qed.
Print Assumptions C19_mv_name_refuted.

Definition w_self : list op := [OMkdir [0] false false; OCreate [0; 4]; OMv [0] [0] false; OList []].
Theorem C19_mv_self_refuted :
  exists ops, snd (m_run flags_self (load newdir) ops) <> snd (t_run newdir ops).
Proof. exists w_self. vm_compute. intro H. discriminate H. Qed.
Print Assumptions C19_mv_self_refuted.

(** Third defect of the code as it is (finding C19-5): with the store failing, Mv onto an
    existing FILE returns an error but has already unlinked that file. *)
Definition w_mvx : list op := [OCreate [4]; OCreate [5]; OMvX [4] [5] false; OList []].
Theorem C19_mvx_unlink_refuted :
  exists ops, snd (m_run flags_mvx (load newdir) ops) <> snd (t_run newdir ops).
Proof. exists w_mvx. vm_compute. intro H. discriminate H. Qed.
Print Assumptions C19_mvx_unlink_refuted.

(** Non-vacuity: the invariant holds initially, and a history with unsynced writes,
    metadata, a move between same-named directories and sub-path flushes. *)
Example C19_wf_root : wf (load newdir).
Proof. exact wf_root. Qed.
Example C19_example :
  let ops := [OMkdir [0; 2] true false; OMkdir [1; 2] true true; OCreate [0; 2; 4];
              OWrite [0; 2; 4] [104; 105] false; OTouch [0; 2; 4] 1000; OChmod [0] 488;
              OMv [0; 2; 4] [1; 2; 4] false; OList [0; 2]; ORead [1; 2; 4]; OFlush [1]; OFlush []] in
  snd (t_run newdir ops) =
    [ROk; ROk; ROk; ROk; ROk; ROk; ROk; RList []; RData [104; 105];
     RNode (NDir [(2, NDir [(4, NFile [104; 105] 0 1000)] 0 0)] 0 0);
     RNode (NDir [(0, NDir [(2, NDir [] 0 0)] 488 0);
                  (1, NDir [(2, NDir [(4, NFile [104; 105] 0 1000)] 0 0)] 0 0)] 0 0)].
Proof. vm_compute. reflexivity. Qed.

(** descriptor sessions: a truncate after a flush reaches the file although nothing is written after it *)
Example C19_fd_example :
  snd (t_run newdir [OCreate [4]; OFd [4] false [AWrite [104; 101; 108; 108; 111; 32; 119]; AFlush; ATrunc 5]; ORead [4]]) =
  [ROk; RSess [[104; 101; 108; 108; 111; 32; 119]; [104; 101; 108; 108; 111]]; RData [104; 101; 108; 108; 111]].
Proof. vm_compute. reflexivity. Qed.
