(** C19 — MFS behaves as a hierarchical filesystem and persists what it shows. *)
From Coq Require Import List ZArith Bool NArith.
From V Require Import lib.Verdict model.M_C19.
Import ListNotations.
Open Scope Z_scope.

Definition w_name : list op :=
  [OMkdir [0; 2] true false; OMkdir [1; 2] true false; OCreate [0; 2; 4];
   OMv [0; 2; 4] [1; 2; 4] false; OList [0; 2]].
Theorem C19_mv_name_refuted :
  exists ops, snd (m_run flags_name (load newdir) ops) <> snd (t_run newdir ops).
Proof. exists w_name. vm_compute. intro H. discriminate H. Qed.
Print Assumptions C19_mv_name_refuted.

Definition w_self : list op := [OMkdir [0] false false; OCreate [0; 4]; OMv [0] [0] false; OList []].
Theorem C19_mv_self_refuted :
  exists ops, snd (m_run flags_self (load newdir) ops) <> snd (t_run newdir ops).
Proof. exists w_self. vm_compute. intro H. discriminate H. Qed.
Print Assumptions C19_mv_self_refuted.
