(** C27 — IPNS record selection is order-independent and picks the best record.
    ONLY the property theorems, each closed by [exact] of a lemma of
    [proofs/P_C27.v] (generic part: [lib/Lex.v]).  Model: [model/M_C27.v],
    transcribed from ipns/record.go [compare] and ipns/validation.go [selectRecord],
    tied to the code by the correspondence check of ./check C27. *)
From Coq Require Import List ZArith Bool Permutation.
From V Require Import lib.Verdict lib.Lex model.M_C27 proofs.P_C27.
Import ListNotations.
Open Scope Z_scope.

(** The order of the property — (has v2 signature, sequence number as uint64,
    expiry instant), ties broken by the record bytes under [bytes.Compare] — is a
    total order on keys: reflexive, antisymmetric (Eq only for identical keys, in
    particular identical bytes), three-way symmetric (hence total) and transitive. *)
Theorem C27_total_order :
  (forall a, kcmp a a = Eq) /\
  (forall a b, kcmp a b = Eq -> a = b) /\
  (forall a b, kcmp b a = CompOpp (kcmp a b)) /\
  (forall a b c, kcmp a b <> Gt -> kcmp b c <> Gt -> kcmp a c <> Gt).
Proof. exact total_order_facts. Qed.
Print Assumptions C27_total_order.

(** The code's pairwise step ([compare], then [bytes.Compare] on a tie) computes
    exactly that order, for all records whose sequence number and expiry are
    readable (any int64 CBOR value reinterpreted as uint64, any instant). *)
Theorem C27_compare_is_order : forall a b,
  wfb a = true -> wfb b = true ->
  cmp_tie a b = Some (kcmp (key_of a) (key_of b)).
Proof. exact cmp_tie_rcmp. Qed.
Print Assumptions C27_compare_is_order.

(** For every non-empty list of such records (any length, duplicates allowed)
    selection succeeds, returns an index inside the list, and the record at that
    index is maximal: no record of the list is strictly greater. *)
Theorem C27_select_max : forall l,
  l <> [] -> Forall (fun r => wfb r = true) l ->
  exists i, select l = Some i /\ (i < length l)%nat /\
            forall x, In x l -> kcmp (key_of x) (key_of (nth i l dummy)) <> Gt.
Proof. exact select_max. Qed.
Print Assumptions C27_select_max.

(** Order independence: for any two orderings of the same multiset, the selected
    records have the same key — in particular the same bytes. *)
Theorem C27_perm_invariant : forall l l' i i',
  Permutation l l' -> Forall (fun r => wfb r = true) l ->
  select l = Some i -> select l' = Some i' ->
  r_raw (nth i l dummy) = r_raw (nth i' l' dummy).
Proof. exact perm_invariant_raw. Qed.
Print Assumptions C27_perm_invariant.

Theorem C27_perm_invariant_key : forall l l' i i',
  Permutation l l' -> Forall (fun r => wfb r = true) l ->
  select l = Some i -> select l' = Some i' ->
  key_of (nth i l dummy) = key_of (nth i' l' dummy).
Proof. exact perm_invariant. Qed.
Print Assumptions C27_perm_invariant_key.

(** Records that pass [Validate] always carry a v2 signature and a parseable
    expiry, but [Validate] does not read the CBOR "Sequence" of a v2-only record.
    For lists of such records selection fails exactly when the list is empty, or
    has at least two records one of which has no readable sequence number — so
    whether selection fails does not depend on the order either. *)
Theorem C27_error_order_independent : forall l l',
  Permutation l l' ->
  Forall (fun r => r_v2 r = true /\ r_eol r <> None) l ->
  (select l = None <-> select l' = None).
Proof. exact select_error_perm. Qed.
Print Assumptions C27_error_order_independent.

Theorem C27_error_characterised : forall l,
  Forall (fun r => r_v2 r = true /\ r_eol r <> None) l ->
  (select l = None <->
   (l = [] \/ ((2 <= length l)%nat /\ exists x, In x l /\ r_seq x = None))).
Proof. exact select_error_validish. Qed.
Print Assumptions C27_error_characterised.

(** Non-vacuity: three records with colliding (v2, sequence, expiry) — the
    sequence number 2^63 is stored as the negative int64 -2^63 — and one v1-only
    record with a larger sequence number; the tie is broken by the bytes, and
    every rotation selects the same bytes. *)
Example C27_example :
  let a := mkRec true (Some (-9223372036854775808)) (Some 1900000000000000000) [8; 1] in
  let b := mkRec true (Some (-9223372036854775808)) (Some 1900000000000000000) [8; 2] in
  let c := mkRec true (Some 9223372036854775807) (Some 1900000000000000001) [9] in
  let d := mkRec false (Some (-1)) (Some 1900000000000000002) [7] in
  Forall (fun r => wfb r = true) [a; b; c; d] /\
  select [a; b; c; d] = Some 1%nat /\ select [b; c; d; a] = Some 0%nat /\
  select [d; c; b; a] = Some 2%nat /\ select [c; d; a; b] = Some 3%nat.
Proof. vm_compute. repeat constructor. Qed.

(** Non-vacuity of the error theorem: a valid-looking record without sequence. *)
Example C27_example_error :
  let a := mkRec true None (Some 5) [1] in
  let b := mkRec true (Some 3) (Some 5) [2] in
  select [a] = Some 0%nat /\ select [a; b] = None /\ select [b; a] = None.
Proof. vm_compute. repeat constructor. Qed.
