(** C21 — MFS republisher publishes the latest root and never regresses.
    ONLY the property theorems (proofs in proofs/P_C21.v).  Model: model/M_C21.v, the
    labelled transition system of mfs/repub.go (Update / WaitPub / timers / publish
    outcomes / Close as atomic steps; timers may fire at any moment).  [reachable c0 s]:
    some sequence of steps leads from the initial state (lastPublished = c0) to [s] —
    all interleavings of clients, timer firings and publish failures. *)
From Coq Require Import List ZArith Bool NArith Arith Sorted.
From V Require Import lib.Verdict model.M_C21 proofs.P_C21.
Import ListNotations.

(** The invariant behind everything below holds in every reachable state. *)
Theorem C21_invariant : forall c0 s e s', Inv c0 s -> step s e = Some s' -> Inv c0 s'.
Proof. exact step_inv. Qed.
Print Assumptions C21_invariant.

(** Never regresses: in every run the update indices of the successfully published values
    are strictly increasing (newest first in [publog]) ... *)
Theorem C21_no_regress : forall c0 s, reachable c0 s ->
  StronglySorted gt (publog s) /\ (forall j, In j (publog s) -> 1 <= j <= nupd s).
Proof. exact no_regress. Qed.
Print Assumptions C21_no_regress.

(** ... and every successful publish hands out the cid of the NEWEST update the loop has
    taken, which is newer than everything published before and differs from lastPublished. *)
Theorem C21_publish_step : forall c0 s s', reachable c0 s -> step s EPubOk = Some s' ->
  exists i c, topub s = Some (i, c) /\ c = cid_of c0 s i /\ i = recvd s /\ c <> lastpub s /\
              (forall j, In j (publog s) -> j < i) /\ publog s' = i :: publog s /\ lastpub s' = c.
Proof. exact publish_step. Qed.
Print Assumptions C21_publish_step.

(** WaitPub: in every run, once call [w] has been notified, lastPublished is the cid of an
    update (number [fresh s]) that is at least as new as each of the [k] updates handed to
    the republisher before [w] was called: each of them was published or superseded by a
    later value that is published (or equal to what was published last). *)
Theorem C21_waitpub : forall c0 s w, reachable c0 s -> In w (released s) ->
  exists k, lookup_kw w (kw s) = Some k /\ k <= fresh s /\ fresh s <= nupd s /\
            lastpub s = cid_of c0 s (fresh s).
Proof. exact waitpub_released. Qed.
Print Assumptions C21_waitpub.

(** Close = WaitPub, then stop: when Close's own wait (any id [w]) was notified, the above
    holds for every update made before Close, and once the loop has stopped no loop step —
    in particular no publish — is possible any more. *)
Theorem C21_close_flushes : forall c0 s w, reachable c0 s -> In w (released s) ->
  (exists k, lookup_kw w (kw s) = Some k /\ k <= fresh s /\ lastpub s = cid_of c0 s (fresh s)) /\
  (stopped s = true -> step s EPubOk = None /\ step s EPubFail = None /\ step s ERecv = None /\
                       step s EQuick = None /\ step s ELong = None).
Proof.
  intros c0 s w R Hw. split.
  - destruct (waitpub_released c0 s w R Hw) as (k & A & B & _ & D). exists k. auto.
  - intro Hs. repeat split;
      [exact (stopped_silent c0 s EPubOk R Hs) | exact (stopped_silent c0 s EPubFail R Hs)
      | exact (stopped_silent c0 s ERecv R Hs) | exact (stopped_silent c0 s EQuick R Hs)
      | exact (stopped_silent c0 s ELong R Hs)].
Qed.
Print Assumptions C21_close_flushes.

(** Liveness, by a ranking function.  Fairness assumed: the loop's enabled steps are
    eventually taken (timers fire, channel operations complete) and publishing succeeds;
    clients make no further calls.  Then from EVERY reachable, not stopped state every
    maximal sequence of loop steps has at most [rank s] steps ([C21_rank_decreases],
    [C21_progress]) and ends at rest with lastPublished = cid of the LATEST update. *)
Theorem C21_rank_decreases : forall c0 s e s',
  Inv c0 s -> internal e = true -> step s e = Some s' -> rank s' < rank s.
Proof. exact internal_decreases. Qed.
Print Assumptions C21_rank_decreases.
Theorem C21_progress : forall c0 s, Inv c0 s -> stopped s = false -> quiescent s = false ->
  exists e s', internal e = true /\ step s e = Some s'.
Proof. exact progress. Qed.
Print Assumptions C21_progress.
Theorem C21_eventual : forall c0 s, reachable c0 s -> stopped s = false ->
  exists es s', length es <= rank s /\ Forall (fun e => internal e = true) es /\
                run s es = Some s' /\ quiescent s' = true /\
                fresh s' = nupd s' /\ lastpub s' = cid_of c0 s' (nupd s').
Proof.
  intros c0 s R Hs. apply (eventual c0 (rank s) s); [apply reachable_inv; exact R|exact Hs|apply le_n].
Qed.
Print Assumptions C21_eventual.

(** Observation (DESIGN §4.3, not a violation of the property): after a failed publish, an
    Update with the value published last leaves immediate publishing disabled; a later
    WaitPub then stays blocked although nothing is owed — no loop step is enabled. *)
Definition stuck_run : list ev :=
  [EUpd 1; EWait 1; EImm 1; EPubFail; EUpd 5; ERecv; EWait 2].
Theorem C21_immediate_stuck_reachable :
  exists s, run (init 5) stuck_run = Some s /\ imm s = false /\ pending s = [2] /\
            released s = [1] /\ fresh s = nupd s /\
            forall e, internal e = true -> step s e = None.
Proof.
  eexists. split; [vm_compute; reflexivity|]. repeat split.
  intros e He. destruct e; try discriminate He; reflexivity.
Qed.
Print Assumptions C21_immediate_stuck_reachable.

(** Non-vacuity / the trace checker at work: a trace of the real shape is accepted, and
    traces that break a clause are rejected (duplicate publish, release before publish,
    publish after Close). *)
Example C21_accepts :
  accepts [init 0] [OUpd 1; OWait 1; OUpd 2; OPub 2 false; OUpd 3; OPub 3 true; ORet 1;
                    OWait 1000; ORet 1000; OCloseRet] = true /\
  accepts [init 0] [OUpd 1; OPub 1 true; OUpd 1; OPub 1 true] = false /\
  accepts [init 0] [OUpd 1; OWait 1; ORet 1; OPub 1 true] = false /\
  accepts [init 0] [OUpd 1; OWait 1000; OPub 1 true; ORet 1000; OCloseRet; OUpd 2; OPub 2 true] = false /\
  accepts [init 0] [OUpd 1; OUpd 2; OPub 1 true; OWait 1; ORet 1] = false.
Proof. vm_compute. repeat split. Qed.
