(** C30 — Gateway serves exactly the requested file bytes.
    This file contains ONLY the property theorems, each closed by [exact] of a lemma proved in
    [proofs/P_C30.v], with [Print Assumptions] beneath it.
    Model: [model/M_C30.v] — both Range parsers of the gateway over byte strings
    (parseRangeWithoutLength, parseRange(size), strconv.ParseInt, textproto.TrimString), seekToRangeStart,
    httpServeContent; tied to /repo by the correspondence check of ./check C30.
    [flags_off] = every defect switch off (what the property demands), [flags_code] = /repo as first read. *)
From Coq Require Import String.
From Coq Require Import List ZArith Bool.
From V Require Import lib.Verdict model.M_C30 proofs.P_C30.
Import ListNotations.
Open Scope Z_scope.

(** The two Go parsers agree on every valid byte-range header, for every string and every size: the
    length-less parser (which positions the reader) returns the requested specs as they are ([keeps]: with the
    zero-suffix defect off it skips a suffix of length 0, which selects nothing), the parser with
    the length (which writes the headers) returns exactly the satisfiable specs, clamped to the file, and
    "no overlap" iff there are specs and none is satisfiable.  A header the specification rejects is rejected
    by the length-less parser. *)
Theorem C30_parsers_agree : forall f s sps size, 0 <= size -> s <> [] -> parse_specs s = Some sps ->
  Forall wf_spec sps /\ prwl f s = Some (map brange_of (filter (keeps f) sps)) /\
  pr false s size = pr_of_specs size sps.
Proof. exact parsers_agree. Qed.
Print Assumptions C30_parsers_agree.

Theorem C30_parsers_agree_invalid : forall f s, s <> [] -> parse_specs s = None -> prwl f s = None.
Proof. exact parsers_agree_err. Qed.
Print Assumptions C30_parsers_agree_invalid.

(** No int64 wrap-around in parseRange: for EVERY header string (valid or not) and every size, each range it returns
    lies inside the file — 0 <= start, 1 <= length, start + length <= size — so `i - r.start + 1`, `size - i`,
    `start + length - 1` and the numbers printed into Content-Range / Content-Length stay within [0, size]; the
    model's unbounded integers therefore agree with Go's int64 there.  (ParseInt's int64 range check is explicit
    in the model: 2^63-1 parses, 2^63 is an error.)  A change that lets a length wrap (e.g. clamping after the
    subtraction instead of before) contradicts this theorem and shows up as a 206 whose observed Content-Range /
    Content-Length violate [consistent]. *)
Theorem C30_ranges_in_file : forall size s rs, 0 <= size -> pr false s size = PROk rs -> Forall (range_ok size) rs.
Proof. exact pr_range_ok. Qed.
Print Assumptions C30_ranges_in_file.

Example C30_example_int64 :
  pr false (s2l "bytes=0-9223372036854775807") 10 = PROk [(0, 10)] /\
  pr false (s2l "bytes=0-9223372036854775808") 10 = PRErr /\
  model flags_off (mkq GET 10 "bytes=0-9223372036854775807" IfrNone) = partial_resp GET 10 0 9 /\
  (* the response of the seeded overflow: rejected by the specification *)
  spec_ok (mkq GET 10 "bytes=0-9223372036854775807" IfrNone)
    {| o_status := 206; o_cr := CRRange 0 9223372036854775807 10; o_cl := Some (-9223372036854775808);
       o_blen := 0; o_match := [0; 10] |} = false.
Proof. vm_compute. repeat split. Qed.

(** Refinement: for every request whose Range header is absent or a valid byte-range set (any method, size,
    If-Range and If-None-Match outcome) the defect-free response model equals the abstract response [ideal],
    which is computed from the requested specs alone: 304; else the whole file when no range is in effect; else
    416 "bytes */size" when none is satisfiable (200 for an empty file); else 206 for the first satisfiable
    range, or the whole file when the satisfiable ranges together exceed the file. *)
Theorem C30_model_is_ideal : forall q sps,
  0 <= q_size q -> specs_of q = Some sps -> model flags_off q = ideal q sps.
Proof. exact model_is_ideal. Qed.
Print Assumptions C30_model_is_ideal.

(** Status, Content-Range, Content-Length and body are mutually consistent — for EVERY request (also malformed
    Range headers) and every file: 200 => no Content-Range, Content-Length = size, body = file (nothing for
    HEAD); 206 => Content-Range s-e/size with 0 <= s <= e < size, Content-Length = e-s+1 = length of the body,
    body = file[s..e]; no other status than 200, 206, 304, 400, 416. *)
Theorem C30_consistent : forall q file,
  q_size q = Z.of_nat (length file) -> resp_consistent q file (model flags_off q).
Proof. exact consistent_thm. Qed.
Print Assumptions C30_consistent.

(** The body is the REQUESTED slice: 206 is for the first satisfiable requested range; the whole file is
    served only when no range is in effect (no header, failed If-Range, no spec), when the file is empty, or
    when at least two satisfiable ranges together exceed the file. *)
Theorem C30_requested : forall q sps, 0 <= q_size q -> specs_of q = Some sps -> q_inm q = false ->
  let r := model flags_off q in
  match sats (q_size q) (eff_specs q sps) with
  | [] => if match eff_specs q sps with [] => true | _ => q_size q =? 0 end
          then r = whole_resp (q_meth q) (q_size q)
          else r = err_resp 416 (CRStar (q_size q))
  | (s, e) :: rest =>
      r = partial_resp (q_meth q) (q_size q) s e \/
      (rest <> [] /\ q_size q < total ((s, e) :: rest) /\ r = whole_resp (q_meth q) (q_size q))
  end.
Proof. exact requested_thm. Qed.
Print Assumptions C30_requested.

(** 416 exactly when ranges are requested, none of them overlaps the file, and the file is not empty. *)
Theorem C30_416_iff : forall q sps, 0 <= q_size q -> specs_of q = Some sps -> q_inm q = false ->
  (r_status (model flags_off q) = 416 <->
   (eff_specs q sps <> [] /\ sats (q_size q) (eff_specs q sps) = [] /\ 0 < q_size q)).
Proof. exact status_416_iff. Qed.
Print Assumptions C30_416_iff.

(** HEAD never carries a body (with or without the defects), and answers with the status, Content-Range and
    Content-Length of the corresponding GET. *)
Theorem C30_head_no_body : forall fl q, q_meth q = HEAD -> r_blen (model fl q) = 0.
Proof. exact head_no_body. Qed.
Print Assumptions C30_head_no_body.

Theorem C30_head_same_headers : forall q sps, 0 <= q_size q -> specs_of q = Some sps ->
  let rh := model flags_off (with_meth HEAD q) in
  let rg := model flags_off (with_meth GET q) in
  r_status rh = r_status rg /\ r_cr rh = r_cr rg /\ r_cl rh = r_cl rg.
Proof. exact head_same_headers. Qed.
Print Assumptions C30_head_same_headers.

(** The specification function that ./check evaluates on every observed response ([spec_ok], model/M_C30.v)
    holds of the defect-free model for every request: a [VKnown] verdict never hides anything else. *)
Theorem C30_spec_ok_off : forall q, 0 <= q_size q -> spec_ok q (obs_of_resp (model flags_off q)) = true.
Proof. exact spec_ok_off. Qed.
Print Assumptions C30_spec_ok_off.

(** The code as first read violates the property; one witness per defect (each replayed on /repo by the harness):
    the answer of the all-switches-on model is explained by switch k alone, violates the specification, and the
    defect-free answer meets it. *)
(* C30-1  GET bytes=100-,2-5 of 10 bytes: 206 bytes 2-5/10, Content-Length 4, the reader stands at EOF: no body *)
Theorem C30_two_parsers_refuted : refutes 1 /\ model flags_code (witness 1) =
  {| r_status := 206; r_cr := CRRange 2 5 10; r_cl := Some 4; r_bpos := 10; r_blen := 0 |}.
Proof. exact refuted_1. Qed.
Print Assumptions C30_two_parsers_refuted.

(* C30-2  GET bytes=5- with a failed If-Range: 200, Content-Length 10, body = bytes 5..9 *)
Theorem C30_if_range_refuted : refutes 2 /\ model flags_code (witness 2) =
  {| r_status := 200; r_cr := CRNone; r_cl := Some 10; r_bpos := 5; r_blen := 5 |}.
Proof. exact refuted_2. Qed.
Print Assumptions C30_if_range_refuted.

(* C30-3  GET bytes=5-9,0-9: ranges ignored (15 > 10): 200, Content-Length 10, body = bytes 5..9 *)
Theorem C30_sum_refuted : refutes 3 /\ model flags_code (witness 3) =
  {| r_status := 200; r_cr := CRNone; r_cl := Some 10; r_bpos := 5; r_blen := 5 |}.
Proof. exact refuted_3. Qed.
Print Assumptions C30_sum_refuted.

(* C30-4  GET bytes=-20 of 10 bytes: 500 *)
Theorem C30_long_suffix_refuted : refutes 4 /\ model flags_code (witness 4) = err_resp 500 CRNone.
Proof. exact refuted_4. Qed.
Print Assumptions C30_long_suffix_refuted.

(* C30-5  bytes=-0: 206 with Content-Range bytes 10-9/10 *)
Theorem C30_zero_suffix_refuted : refutes 5 /\ model flags_code (witness 5) =
  {| r_status := 206; r_cr := CRRange 10 9 10; r_cl := Some 0; r_bpos := 0; r_blen := 0 |}.
Proof. exact refuted_5. Qed.
Print Assumptions C30_zero_suffix_refuted.

(** Non-vacuity: the hypotheses are met by ordinary requests, and the statements say something there. *)
Example C30_example_specs :
  parse_specs (s2l "bytes= 2 - 5 , 7-,-3, 100-") = Some [SFromTo 2 5; SFrom 7; SSuffix 3; SFrom 100] /\
  sats 10 [SFromTo 2 5; SFrom 7; SSuffix 3; SFrom 100] = [(2, 5); (7, 9); (7, 9)] /\
  pr false (s2l "bytes= 2 - 5 , 7-,-3, 100-") 10 = PROk [(2, 4); (7, 3); (7, 3)] /\
  pr false (s2l "bytes=10-,11-12") 10 = PRNoOverlap /\
  parse_specs (s2l "bytes=5-2") = None /\ parse_specs (s2l "bytes=1-9223372036854775808") = None.
Proof. vm_compute. repeat split. Qed.

Example C30_example_responses :
  let q := mkq GET 10 "bytes=100-,2-5" IfrNone in
  specs_of q = Some [SFrom 100; SFromTo 2 5] /\
  model flags_off q = {| r_status := 206; r_cr := CRRange 2 5 10; r_cl := Some 4; r_bpos := 2; r_blen := 4 |} /\
  body [48; 49; 50; 51; 52; 53; 54; 55; 56; 57] (model flags_off q) = [50; 51; 52; 53] /\
  r_status (model flags_off (mkq GET 10 "bytes=10-" IfrNone)) = 416 /\
  model flags_off (mkq GET 10 "bytes=-20" IfrNone) = partial_resp GET 10 0 9 /\
  r_status (model flags_off (mkq GET 10 "bytes=0-6,3-9" IfrNone)) = 200 /\
  r_status (model flags_off (mkq HEAD 10 "bytes=100-abc" IfrNone)) = 416 /\
  r_status (model flags_off (mkq GET 10 "bytes=100-abc" IfrNone)) = 400.
Proof. vm_compute. repeat split. Qed.
