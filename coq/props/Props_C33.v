(** C33 — Path resolution follows UnixFS names, including sharded directories.
    This file contains ONLY the property theorems, each closed by [exact] of a
    lemma proved in [proofs/P_C33.v], with [Print Assumptions] beneath it.
    Model: [model/M_C33.v] (transcribed from path/resolver/resolver.go; the selector
    engine, the UnixFS reifier and the HAMT lookup are dependencies: a directory is
    a name -> entry list whatever its on-disk shape; tied to the code by the
    correspondence check of ./check C33 on random trees with basic and HAMT
    directories).  [reaches root segs t]: successive lookup of the names [segs]
    from [root] arrives at [t] (defined in P_C33.v). *)
From Coq Require Import List String Bool NArith Arith.
From V Require Import lib.Verdict model.M_C33 proofs.P_C33.
Import ListNotations.
Open Scope string_scope.

(** ResolveToLastNode — the selector over all but the last segment, the
    [remainder[len(nodes)-1]] arithmetic of the error case and the final lookup —
    computes exactly successive lookup, for EVERY tree (any depth, any mix of sharded
    and unsharded directories, leaves anywhere) and EVERY path. *)
Theorem C33_resolve_is_successive_lookup : forall root segs,
  resolve_to_last flags_off root segs = spec_resolve root segs.
Proof. exact resolve_to_last_spec. Qed.
Print Assumptions C33_resolve_is_successive_lookup.

(** An existing path resolves to the CID of the named entry with an empty remainder;
    ResolvePath returns the same CID; ResolvePathComponents one node per step. *)
Theorem C33_resolve_ok : forall root segs t,
  reaches root segs t ->
  resolve_to_last flags_off root segs = ROk (nid t) [] /\
  resolve_path root segs = Some (nid t) /\
  resolve_components root segs = S (List.length segs).
Proof. exact resolve_ok. Qed.
Print Assumptions C33_resolve_ok.

(** A path whose first missing segment is [s] (everything before it exists and leads
    to [d], which has no entry [s] — a directory without that name, or a leaf) fails
    with ErrNoLink naming [s] under [d], whatever follows [s]; ResolvePath fails. *)
Theorem C33_nolink_names_first_missing : forall root pre d s post,
  reaches root pre d -> lookup d s = None ->
  resolve_to_last flags_off root (pre ++ s :: post) = RNoLink s (nid d) /\
  resolve_path root (pre ++ s :: post) = None /\
  resolve_components root (pre ++ s :: post) = S (List.length pre).
Proof. exact nolink_first_missing. Qed.
Print Assumptions C33_nolink_names_first_missing.

(** The two cases are exhaustive: every path either exists or has a first missing segment. *)
Theorem C33_exhaustive : forall segs root,
  (exists t, reaches root segs t) \/
  (exists pre d s post, segs = (pre ++ s :: post)%list /\ reaches root pre d /\ lookup d s = None).
Proof. exact reaches_or_missing. Qed.
Print Assumptions C33_exhaustive.

(** Whether directories are HAMT-sharded or not makes no difference to any answer
    ([unshard] clears the flag everywhere in the tree). *)
Theorem C33_sharding_invisible : forall segs root,
  resolve_to_last flags_off (unshard root) segs = resolve_to_last flags_off root segs.
Proof. exact sharding_invisible. Qed.
Print Assumptions C33_sharding_invisible.

(** Finding C33-1 (defect switch on = resolver.go before fixes/C33-1.patch): a name
    looked up directly below a file as the LAST segment failed with the node's
    wrong-kind error, not ErrNoLink — although the same name followed by one more
    segment did give ErrNoLink. *)
Theorem C33_leaf_last_refuted :
  resolve_to_last flags_on tree_c33_1 ["f"; "x"] = RErr /\
  spec_resolve tree_c33_1 ["f"; "x"] = RNoLink "x" 1 /\
  resolve_to_last flags_on tree_c33_1 ["f"; "x"; "y"] = RNoLink "x" 1.
Proof. exact leaf_last_refuted. Qed.
Print Assumptions C33_leaf_last_refuted.

(** Non-vacuity: a depth-3 tree with a sharded directory in the middle. *)
Example C33_example :
  let t := Dir 9 false [("a", Dir 8 true [("n1", Leaf 1 true); ("sub", Dir 7 false [("f", Leaf 2 false)])]);
                        ("a", Leaf 3 true)] in
  reaches t ["a"; "sub"; "f"] (Leaf 2 false) /\
  resolve_to_last flags_off t ["a"; "sub"; "f"] = ROk 2 [] /\
  resolve_to_last flags_off t ["a"; "zz"; "f"] = RNoLink "zz" 8 /\
  resolve_to_last flags_off t ["a"; "sub"; "f"; "x"] = RNoLink "x" 2 /\
  resolve_path t ["a"; "n1"] = Some 1%N /\ resolve_components t ["a"; "zz"; "f"] = 2.
Proof.
  split; [repeat (econstructor; try reflexivity)|]. vm_compute. repeat split.
Qed.
