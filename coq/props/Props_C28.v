(** C28 — Names and content paths parse and print canonically.
    ONLY the property theorems, each closed by [exact] of a lemma of [proofs/P_C28.v],
    with [Print Assumptions] beneath it.  Model: [model/M_C28.v] (transcribed from
    path/path.go, path/uri.go, ipns/name.go; Go's path.Clean modelled for rooted strings;
    tied to the code — including the real path.Clean — by ./check C28).
    Strings are arbitrary byte lists; [dec] is ANY CID decoder. *)
From Coq Require Import List ZArith Bool NArith.
From V Require Import lib.Verdict model.M_C28 proofs.P_C28.
Import ListNotations.
Open Scope N_scope.

(** Cleaning the '/'-separated pieces of a rooted path is idempotent ... *)
Theorem C28_clean_idempotent : forall l, clean_segs (clean_segs l) = clean_segs l.
Proof. exact clean_idempotent. Qed.
Print Assumptions C28_clean_idempotent.

(** ... also as a function on strings (what gopath.Clean is on rooted strings) ... *)
Theorem C28_clean_idempotent_string : forall s, rooted s = true -> go_clean (go_clean s) = go_clean s.
Proof. exact go_clean_idempotent. Qed.
Print Assumptions C28_clean_idempotent_string.

(** ... and leaves no empty, "." or ".." piece. *)
Theorem C28_clean_no_dots : forall l x, In x (clean_segs l) -> x <> [] /\ x <> [DOT] /\ x <> [DOT; DOT].
Proof. exact clean_no_dots. Qed.
Print Assumptions C28_clean_no_dots.

(** Parsing is idempotent: the printed form of ANY accepted path parses to the same
    path — same string, same namespace, same root CID. *)
Theorem C28_parse_print : forall dec s p, new_path dec s = POk p -> new_path dec (pp_str p) = POk p.
Proof. exact parse_print. Qed.
Print Assumptions C28_parse_print.

(** Segments() of an accepted path: the cleaned pieces of the input (namespace, root,
    ...), none empty / "." / ".."; the printed form split at '/' shows exactly them. *)
Theorem C28_segments : forall dec s p,
  new_path dec s = POk p ->
  segments p = string_to_segments s /\ (2 <= length (segments p))%nat /\
  (forall x, In x (segments p) -> x <> [] /\ x <> [DOT] /\ x <> [DOT; DOT]) /\
  split (pp_str p) = [] :: segments p ++ (if ends_slash s then [[]] else []) /\
  no_dots (pp_str p) = true.
Proof. exact accepted_segments. Qed.
Print Assumptions C28_segments.

(** The URI forms (scheme in any ASCII case; "ns:" or "ns://") map to the same path as
    the canonical form. *)
Theorem C28_uri_same : forall dec sc ns r0,
  In ns [IPFS; IPNS; IPLD] -> map lower sc = ns ->
  new_path_uri dec (sc ++ COLON :: r0) = new_path dec (SL :: ns ++ SL :: trim2 r0).
Proof. exact uri_same. Qed.
Print Assumptions C28_uri_same.

Theorem C28_uri_same_slashes : forall dec sc ns rest,
  In ns [IPFS; IPNS; IPLD] -> map lower sc = ns ->
  new_path_uri dec (sc ++ COLON :: SL :: SL :: rest) = new_path dec (SL :: ns ++ SL :: rest).
Proof. exact uri_same_slashes. Qed.
Print Assumptions C28_uri_same_slashes.

Theorem C28_uri_rooted_unchanged : forall dec s, rooted s = true -> new_path_uri dec s = new_path dec s.
Proof. exact uri_rooted_unchanged. Qed.
Print Assumptions C28_uri_rooted_unchanged.

(** IPNS names round-trip through their string (base36 CID, with or without "/ipns/",
    and base58 peer-ID), CID, peer-ID and routing-key forms — for ANY text codecs that
    decode what they encode, where a base36 CID text does not look like a base58
    multihash and a base58 multihash text starts with "Qm" or "1" (the hypotheses are
    the premises of the theorem; [toy_codec_ok] shows they are satisfiable, and the
    correspondence run checks them on the real codecs for every generated key). *)
Theorem C28_name_roundtrips :
  forall (enc36 : cidv -> str) (dec_cid : str -> option cidv) (enc58 : str -> str) (dec58 : str -> option str)
         (mh_valid : str -> bool),
  (forall c, dec_cid (enc36 c) = Some c) -> (forall c, starts_b58 (enc36 c) = false) ->
  (forall c, rooted (enc36 c) = false) -> (forall m, dec58 (enc58 m) = Some m) ->
  (forall m, starts_b58 (enc58 m) = true) -> (forall m, rooted (enc58 m) = false) ->
  forall n,
    name_from_string dec_cid dec58 (name_string enc36 n) = Some n /\
    name_from_string dec_cid dec58 (NSPREFIX ++ name_string enc36 n) = Some n /\
    name_from_string dec_cid dec58 (enc58 n) = Some n /\
    name_from_string dec_cid dec58 (NSPREFIX ++ enc58 n) = Some n /\
    name_from_cid (name_cid n) = Some n /\
    name_from_peer (name_peer n) = n /\
    (mh_valid n = true -> name_from_routing_key mh_valid (routing_key n) = Some n).
Proof. exact name_roundtrips. Qed.
Print Assumptions C28_name_roundtrips.

Theorem C28_name_forms_injective :
  forall (enc36 : cidv -> str) (dec_cid : str -> option cidv),
  (forall c, dec_cid (enc36 c) = Some c) ->
  forall n1 n2,
    (name_string enc36 n1 = name_string enc36 n2 -> n1 = n2) /\
    (routing_key n1 = routing_key n2 -> n1 = n2) /\
    (name_cid n1 = name_cid n2 -> n1 = n2) /\
    (cid_bytes (name_cid n1) = cid_bytes (name_cid n2) -> n1 = n2).
Proof. exact name_forms_injective. Qed.
Print Assumptions C28_name_forms_injective.

(** ---- non-vacuity ---- *)
From Coq Require Import String.
Close Scope string_scope.
Example C28_example_path :
  let dec := fun x => if str_eqb x (b "bafkqaaa") then Some (b "bafkqaaa") else None in
  let s := b "//ipfs/./x/../bafkqaaa/a/./b/../c//" in
  exists p, new_path dec s = POk p /\ pp_str p = b "/ipfs/bafkqaaa/a/c/" /\ pp_ns p = IPFS /\
            segments p = [b "ipfs"; b "bafkqaaa"; b "a"; b "c"] /\
            new_path_uri dec (b "IpFs://bafkqaaa/a/c/") = POk p /\
            new_path dec (b "/ipfs/bafkqaaa/../..") = PErr EInsufficient.
Proof. vm_compute. eexists. repeat split. Qed.

Example C28_example_names :
  forall n, name_from_string toy_dec_cid toy_dec58 (name_string toy_enc36 n) = Some n.
Proof.
  intros n. destruct toy_codec_ok as (H1 & H2 & H3 & H4 & H5 & H6).
  exact (proj1 (C28_name_roundtrips toy_enc36 toy_dec_cid toy_enc58 toy_dec58 (fun _ => true) H1 H2 H3 H4 H5 H6 n)).
Qed.
