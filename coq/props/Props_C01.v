(** C01 — Blockstore is a faithful multihash-keyed block map.
    This file contains ONLY the property theorems, each closed by [exact] of a
    lemma proved in [proofs/P_C01.v], with [Print Assumptions] beneath it.
    Model: [model/M_C01.v] (transcribed from blockstore/blockstore.go,
    blockstore/idstore.go, datastore/dshelp/key.go and tied to the code by the
    correspondence check of ./check C01); base32: [lib/BaseN.v]. *)
From Coq Require Import List ZArith Bool NArith.
From V Require Import lib.Verdict lib.BaseN model.M_C01 proofs.P_C01.
Import ListNotations.

(** For EVERY history of Put / PutMany / Delete / Get / Get(Undef) / Has / GetSize /
    View / AllKeysChan over a fresh datastore, every configuration (WriteThrough
    on/off, NoPrefix on/off, identity wrapper on/off), whose multihashes are byte
    strings: if WriteThrough is on, or the history is honest (equal multihashes
    always come with equal bytes — what a collision-free hash gives), then
    - every answer of the blockstore mechanism is the answer of the map
      specification [a_run] ("present with the bytes last stored under its
      multihash until deleted, absent otherwise"; identity CIDs answered from the
      CID itself), and
    - the datastore content is exactly that map under the key mapping
      "/blocks"? ++ "/" ++ base32(multihash).
    (Without either hypothesis the existence check keeps the FIRST bytes stored
    under a multihash, and a batch may even keep the last of two conflicting
    blocks; the correspondence check covers those histories against the model.) *)
Theorem C01_refines_map : forall c ops, wf_ops ops ->
  f_wt c = true \/ honestb (all_puts ops) = true ->
  fst (run c [] ops) = mapk (dskey c) (fst (a_run (f_id c) [] ops)) /\
  map fst (snd (run c [] ops)) = snd (a_run (f_id c) [] ops).
Proof. exact refines_map. Qed.
Print Assumptions C01_refines_map.

(** Distinct multihashes never share a datastore key ... *)
Theorem C01_key_injective : forall c m1 m2, Forall is_byte m1 -> Forall is_byte m2 ->
  dskey c m1 = dskey c m2 -> m1 = m2.
Proof. exact dskey_inj. Qed.
Print Assumptions C01_key_injective.

(** ... and Go's lenient base32 reader used by AllKeysChan reads every key back. *)
Theorem C01_key_roundtrip : forall c m, Forall is_byte m -> key_to_mh c (dskey c m) = Some m.
Proof. exact key_to_mh_dskey. Qed.
Print Assumptions C01_key_roundtrip.

(** Two CIDs that share a multihash address the same entry: replacing, anywhere
    in ANY history and from ANY datastore content, CIDs by CIDs with the same
    multihash (and the same identity-ness, which for well-formed CIDs follows
    from the multihash: [C01_alias_wf]) changes no answer, no datastore write and
    not the resulting datastore. *)
Theorem C01_alias : forall c s ops1 ops2, Forall2 op_alias ops1 ops2 -> run c s ops1 = run c s ops2.
Proof. exact run_alias. Qed.
Print Assumptions C01_alias.

Theorem C01_alias_wf : forall k1 k2, wf_cid k1 -> wf_cid k2 -> c_mh k1 = c_mh k2 -> alias k1 k2.
Proof. exact alias_wf. Qed.
Print Assumptions C01_alias_wf.

(** Key enumeration after ANY history: no duplicates, and exactly the CIDv1-raw
    forms of the multihashes that [Has] reports present. *)
Theorem C01_allkeys : forall c ops, wf_ops ops ->
  let s' := fst (run c [] ops) in
  exists ks, snd (fst (step c s' OAllKeys)) = BKeys ROk ks /\ NoDup ks /\
    (forall x, In x ks -> exists m, x = v1raw m /\ Forall is_byte m /\ st_has (dskey c m) s' = true) /\
    (forall m, Forall is_byte m -> st_has (dskey c m) s' = true -> In (v1raw m) ks).
Proof. exact allkeys_spec. Qed.
Print Assumptions C01_allkeys.

(** Wrapped in the identity store, an identity-hash CID is always present and
    yields its inlined bytes, whatever the datastore holds; Put and Delete of it
    do nothing. *)
Theorem C01_identity_present : forall c s k d, f_id c = true -> extract k = Some d ->
  step c s (OHas k) = (s, BHas ROk true, []) /\
  step c s (OGet k) = (s, BData ROk d, []) /\
  step c s (OView k) = (s, BData ROk d, []) /\
  step c s (OGetSize k) = (s, BSize ROk (Z.of_nat (length d)), []) /\
  (forall x, step c s (OPut k x) = (s, BDone ROk, [])) /\
  step c s (ODelete k) = (s, BDone ROk, []).
Proof. exact identity_present. Qed.
Print Assumptions C01_identity_present.

(** ... and it is never written to the backing store: after ANY history (honest
    or not) of well-formed CIDs the datastore holds no key of an identity CID and
    no datastore write (Put, batch Put, Delete) was ever issued for such a key. *)
Theorem C01_identity_never_written : forall c ops, f_id c = true -> wf_cids ops ->
  forall k, wf_cid k -> is_id k = true ->
    st_has (dskey c (c_mh k)) (fst (run c [] ops)) = false /\
    Forall (fun bw => Forall (fun w => wkey w <> Some (dskey c (c_mh k))) (snd bw)) (snd (run c [] ops)).
Proof. exact identity_never_written. Qed.
Print Assumptions C01_identity_never_written.

(** Non-vacuity: a concrete history with a CIDv0 / CIDv1-raw / CIDv1-dag-pb alias
    of the EMPTY block (sha2-256 of "") and an identity CID meets every
    hypothesis above, and the model answers as expected; the datastore key is the
    well-known "/blocks/CIQOHMGEIKMPYHAUTL57JSEZN64SIJ5OIHSGJG4TJSSJLGI3PBJLQVI". *)
Open Scope N_scope.
Definition ex_mh_empty : bytes :=
  [18;32;227;176;196;66;152;252;28;20;154;251;244;200;153;111;185;36;39;174;65;228;100;155;147;76;164;149;153;27;120;82;184;85].
Definition ex_id : cid := Cid 1 85 [0;2;1;2].
Definition ex_ops : list op :=
  [ OPut (Cid 0 112 ex_mh_empty) []; OGet (Cid 1 85 ex_mh_empty); OHas ex_id; OPut ex_id [1;2]; OAllKeys;
    ODelete (Cid 1 112 ex_mh_empty); OGetSize (Cid 0 112 ex_mh_empty); OGet ex_id ].
Definition ex_cfg : cfg := Cfg false false true false.
Definition ex_key : bytes :=
  [47;98;108;111;99;107;115;47;67;73;81;79;72;77;71;69;73;75;77;80;89;72;65;85;84;76;53;55;74;83;69;90;78;
   54;52;83;73;74;53;79;73;72;83;71;74;71;52;84;74;83;83;74;76;71;73;51;80;66;74;76;81;86;73].

Example C01_example_hyps : wf_cids ex_ops /\ wf_ops ex_ops /\ honestb (all_puts ex_ops) = true /\
  wf_cid ex_id /\ is_id ex_id = true /\ extract ex_id = Some [1;2].
Proof.
  assert (Hb : forall l, forallb (fun b => b <? 256) l = true -> Forall is_byte l).
  { intros l H. rewrite forallb_forall in H. apply Forall_forall. intros x Hx. now apply N.ltb_lt, H. }
  assert (H1 : wf_cids ex_ops).
  { unfold wf_cids, ex_ops. repeat constructor; try (apply Hb; vm_compute; reflexivity);
      cbn; intros; try discriminate; eexists; reflexivity. }
  split; [exact H1|]. split; [now apply wf_cids_wf_ops|]. split; [vm_compute; reflexivity|].
  split; [|split; vm_compute; reflexivity].
  split; [apply Hb; vm_compute; reflexivity|cbn; discriminate].
Qed.

Example C01_example_run :
  map fst (snd (run ex_cfg [] ex_ops)) =
    [BDone ROk; BData ROk []; BHas ROk true; BDone ROk; BKeys ROk [v1raw ex_mh_empty];
     BDone ROk; BSize RNotFound (-1)%Z; BData ROk [1;2]] /\
  fst (run ex_cfg [] (firstn 5 ex_ops)) = [(ex_key, [])] /\
  fst (run ex_cfg [] ex_ops) = [] /\
  snd (a_run true [] ex_ops) = map fst (snd (run ex_cfg [] ex_ops)).
Proof. vm_compute. repeat split; reflexivity. Qed.

(** The honesty hypothesis of [C01_refines_map] cannot be dropped without
    WriteThrough: a dishonest second Put is ignored by the existence check. *)
Example C01_dishonest_keeps_first :
  let ops := [OPut (Cid 1 85 ex_mh_empty) [7]; OPut (Cid 0 112 ex_mh_empty) [8]; OGet (Cid 1 85 ex_mh_empty)] in
  honestb (all_puts ops) = false /\
  map fst (snd (run (Cfg false false false false) [] ops)) = [BDone ROk; BDone ROk; BData ROk [7]] /\
  map fst (snd (run (Cfg true false false false) [] ops)) = [BDone ROk; BDone ROk; BData ROk [8]] /\
  snd (a_run false [] ops) = [BDone ROk; BDone ROk; BData ROk [8]].
Proof. vm_compute. repeat split; reflexivity. Qed.
