(** C05 — Block service returns exactly the requested blocks and caches fetched ones.
    ONLY the property theorems, each closed by [exact] of a lemma of proofs/P_C05.v.
    Model: lib/BlockSvc.v (getBlock / getBlocks / AddBlock(s) / DeleteBlock of
    blockservice/blockservice.go; the exchange and store failures are oracles carried by each
    operation), specification: model/M_C05.v.  [run_all v cf ex fl Q s h] says that clause [Q]
    holds at every step of the model run of history [h] from store [s].

    All theorems quantify over EVERY validator [v], configuration, history [h] (any mix of
    AddBlock / AddBlocks / GetBlock / GetBlocks / DeleteBlock through any path, request lists with
    duplicates and invalid CIDs, partially local data), EVERY exchange behaviour (each operation
    carries the exchange's answer: any list of blocks in any order, with wrong, unrequested or
    corrupt blocks, or an error) and EVERY pattern of blockstore / exchange call failures. *)
From Coq Require Import List ZArith Bool NArith.
From V Require Import lib.Verdict lib.BlockSvc model.M_C04 model.M_C05 proofs.P_C05.
Import ListNotations.
Open Scope Z_scope.

(** GetBlock returns a block with exactly the requested CID, GetBlocks emits only blocks whose
    CIDs were requested, and the exchange is only ever asked for requested CIDs — provided
    exchange answers are compared with the request ([trust_cid = false]: the code with fix C05-1). *)
Theorem C05_only_requested : forall v cf ex fl h s,
  trust_cid fl = false ->
  run_all v cf ex fl (fun _ o _ evs r _ => req_ok o evs r) s h = true.
Proof. intros v cf ex fl h s H. exact (run_req_ok v cf ex fl h s H). Qed.
Print Assumptions C05_only_requested.

(** Every returned / emitted block's bytes hash to its CID, whether it comes from the local store
    or from the exchange — for a block service that re-hashes what the exchange delivers
    ([trust_hash = false], NOT the current code: finding C05-2), a store that was good to begin
    with, and callers that add well-formed blocks. *)
Theorem C05_hash_ok : forall v cf ex fl h s,
  trust_hash fl = false -> store_good s = true ->
  forallb (fun p => op_good (fst p)) h = true ->
  run_all v cf ex fl (fun _ _ _ _ r _ => hash_ok r) s h = true.
Proof. intros v cf ex fl h s H1 H2 H3. exact (run_hash_ok v cf ex fl h s H1 H2 H3). Qed.
Print Assumptions C05_hash_ok.

(** Every block handed to the caller — by GetBlock or emitted by GetBlocks, local or fetched — is
    in the blockstore at that moment.  Holds for every flag setting (also for the current code). *)
Theorem C05_cached_before_emit : forall v cf ex fl h s,
  run_all v cf ex fl (fun _ _ _ _ r post => cached_ok r post) s h = true.
Proof. intros v cf ex fl h s. exact (run_cached_ok v cf ex fl h s). Qed.
Print Assumptions C05_cached_before_emit.

(** A block already stored locally is never asked from the exchange (except when the blockstore
    itself fails to read it: getBlocks treats every Get error as a miss).  Every flag setting. *)
Theorem C05_local_never_fetched : forall v cf ex fl h s,
  run_all v cf ex fl (fun pre _ ft evs _ _ => miss_ok pre ft evs) s h = true.
Proof. intros v cf ex fl h s. exact (run_miss_ok v cf ex fl h s). Qed.
Print Assumptions C05_local_never_fetched.

(** The whole specification (all four clauses at every step) for the flag-off model: this is the
    very term [check_case] evaluates. *)
Theorem C05_spec : forall v cf ex h s,
  store_good s = true -> forallb (fun p => op_good (fst p)) h = true ->
  run_all v cf ex fl_spec (spec_step true) s h = true.
Proof. intros v cf ex h s H1 H2. exact (run_spec v cf ex fl_spec h s eq_refl eq_refl H1 H2). Qed.
Print Assumptions C05_spec.

(** The code BEFORE fix C05-1 ([fl_old]) violates the first clause: request {a}, the exchange
    answers b, b is returned (GetBlock) / emitted (GetBlocks). *)
Theorem C05_trust_refuted :
  exists v cf ex h, run_all v cf ex fl_old (fun _ o _ evs r _ => req_ok o evs r) [] h = false.
Proof. exact trust_cid_refuted. Qed.
Print Assumptions C05_trust_refuted.

(** The CURRENT code ([fl_code]) violates the hash clause: request {a}, the exchange answers with
    CID a over other bytes; they are returned and cached (finding C05-2). *)
Theorem C05_hash_refuted :
  exists v cf ex h,
    forallb (fun p => op_good (fst p)) h = true /\
    run_all v cf ex fl_code (fun _ _ _ _ r _ => hash_ok r) [] h = false.
Proof. exact trust_hash_refuted. Qed.
Print Assumptions C05_hash_refuted.

(** Non-vacuity of C05_spec / C05_hash_ok: a good store, good adds, a hostile batch answer
    (unrequested block, corrupt block, then the requested one, twice); flag-off model. *)
Example C05_example :
  let a := mkcid 1 0x55 0x12 32 1 in
  let b := mkcid 1 0x55 0x12 32 2 in
  let c := mkcid 0 0x70 0x12 32 3 in
  let h := [(OAdd (mkblk b 2), no_faults);
            (OGetMany PCtxSession [a; b; a; c] (Some [mkblk c 3; mkblk b 2; mkblk a 9; mkblk a 1; mkblk a 1]), no_faults)] in
  store_good [] = true /\ forallb (fun p => op_good (fst p)) h = true /\
  snd (run (fun _ _ => EOk) true XSess fl_spec [] h) =
  [([EvHas b; EvPut (mkblk b 2); EvNotify [mkblk b 2]], RAdd RNil);
   ([EvGet a; EvGet b; EvGet a; EvGet c; EvNewSession; EvFetchN true [a; a; c];
     EvPut (mkblk c 3); EvNotify [mkblk c 3]; EvPut (mkblk a 1); EvNotify [mkblk a 1];
     EvPut (mkblk a 1); EvNotify [mkblk a 1]],
    RGetMany [(mkblk b 2, true); (mkblk c 3, true); (mkblk a 1, true); (mkblk a 1, true)])].
Proof. vm_compute. repeat split; reflexivity. Qed.
