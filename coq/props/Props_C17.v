(** C17 — Block-size estimation equals the exact serialized directory size.
    ONLY the property theorems, each closed by [exact] of a lemma of
    [proofs/P_C17.v], with [Print Assumptions] beneath it.

    [varintLen], [linkSerializedSize] are [gen/Gen_C17.v] and the permission
    shuffle is [gen/Gen_C17f.v]: translated from ipld/unixfs/io/directory.go and
    files/util.go by go2coq on every run (a changed Go body is re-proved here or
    the build fails).  The directory mechanism (incremental tracking, reload) is
    [model/M_C17.v], tied to /repo by the correspondence check of ./check C17.
    Encoders: [lib/Varint.v], [lib/Pb.v], [lib/UnixFsPb.v], [lib/DagPb.v]. *)
From Coq Require Import List ZArith Bool Lia.
From V Require Import lib.Verdict lib.GoInt lib.Varint lib.Pb lib.UnixFsPb lib.DagPb
  gen.Gen_C17 gen.Gen_C17f model.M_C17 proofs.P_C17.
Import ListNotations.
Open Scope Z_scope.

(** varintLen(v) is the number of bytes of the protobuf varint of v, for every uint64 *)
Theorem C17_varint_len : forall v, 0 <= v < two64 -> varintLen v = blen (enc v).
Proof. exact varintLen_enc. Qed.
Print Assumptions C17_varint_len.

(** linkSerializedSize(name, cid, tsize) is the exact number of bytes the link
    adds to the serialised PBNode: for every name and CID byte string (shorter
    than 2^61 bytes) and every Tsize 0..2^63-1 *)
Theorem C17_link_size : forall e, wf_entry e -> e_tsize e < two63 ->
  link_size e = blen (emit [link_entry e]).
Proof. exact link_size_emit. Qed.
Print Assumptions C17_link_size.

(** dataFieldSerializedSize(mode, mtime) is the exact number of bytes of the Data
    field of the directory's PBNode: every mode, every int64 second (negative:
    ten-byte varint), every nanosecond 0..999999999 (fixed32 iff > 0), zero time
    = no mtime *)
Theorem C17_data_size : forall mode t, wf_gtime t ->
  data_field_size mode t = blen (emit [(1, WBytes (dir_data_bytes mode t))]).
Proof. exact data_field_emit. Qed.
Print Assumptions C17_data_size.

(** whenever the tracked integer is "data field + sum of link sizes" of the
    current entries, it is the length of the block — for any entries *)
Theorem C17_block_exact : forall M T d, wf_gtime T -> inv M T d ->
  est d = blen (node_bytes d) /\ 0 <= est d /\ total d = blen (links d).
Proof. exact inv_exact. Qed.
Print Assumptions C17_block_exact.

(** Full strength for the code as it is: a directory created with any mode and
    mtime, then ANY sequence of adds, replacements and removals (any names, CIDs,
    sizes; an add whose size exceeds MaxInt64 is refused after removing the old
    entry): the tracked estimate equals the exact length of
    GetNode().RawData(), never goes negative (the recomputation branch is dead),
    and the link count is right.  [fl] is irrelevant here: no reload. *)
Theorem C17_incremental : forall fl mode t ops,
  wf_gtime t -> Forall wf_op ops -> forallb is_edit ops = true ->
  exists d, run fl (new_dir fl mode t) ops = Some d /\
            est d = blen (node_bytes d) /\ 0 <= est d /\ total d = blen (links d).
Proof. exact edits_exact. Qed.
Print Assumptions C17_incremental.

(** Full strength including reloads, for the model with the repair
    ([fl = true]: computeEstimatedSizeAndTotalLinks sizes the Data field as it is
    stored in the node instead of from Mode()/ModTime()): creation, then ANY sequence of adds, replacements, removals and
    reloads of the serialised block (NewBasicDirectoryFromNode). *)
Theorem C17_history_fixed : forall mode t ops,
  wf_gtime t -> Forall wf_op ops ->
  exists d, run true (new_dir true mode t) ops = Some d /\
            est d = blen (node_bytes d) /\ 0 <= est d /\ total d = blen (links d).
Proof. exact history_exact_fixed. Qed.
Print Assumptions C17_history_fixed.

(** The value the Basic->HAMT decision is taken on (needsToSwitchByBlockSize:
    estimatedSize - size of the replaced entry, sized from the OLD link, + size
    of the new entry, sized from the NEW link) is the exact length of the block
    the directory serialises after the edit — fresh adds and replacements alike,
    whatever the Tsize classes of the old and the new target. *)
Theorem C17_decision_exact : forall fl M T e d, wf_gtime T -> good_entry e -> inv M T d ->
  decision_size e d = blen (node_bytes (fst (add_child fl e d))).
Proof. exact decision_exact. Qed.
Print Assumptions C17_decision_exact.

(** For every dynamic-directory history (adds, replacements, removals, any
    threshold set before each call): an AddChild converts the directory to a HAMT
    iff the exact block after the edit is longer than the threshold in force
    (strictly: a block exactly at the threshold stays basic); nothing else
    converts a basic directory. *)
Theorem C17_decision_sound : forall fl mode t ops,
  wf_gtime t -> Forall wf_dop ops -> dyn_sound fl (new_dir fl mode t) ops = true.
Proof. exact decision_sound. Qed.
Print Assumptions C17_decision_sound.

(** Finding C17-1 (model of today's NewBasicDirectoryFromNode, [fl = false]):
    reloading the serialised block of a directory whose stored mode has no
    permission bits yields an estimate that is NOT the block length, while the
    model with the repair ([fl = true]) is exact on the same history. *)
Theorem C17_reload_refuted : exists mode t ops d,
  wf_gtime t /\ Forall wf_op ops /\
  run false (new_dir false mode t) ops = Some d /\ est d <> blen (node_bytes d) /\
  exists d', run true (new_dir true mode t) ops = Some d' /\ est d' = blen (node_bytes d').
Proof. exact reload_refuted. Qed.
Print Assumptions C17_reload_refuted.

(** ---------- non-vacuity ---------- *)
Example C17_example :
  let e1 := {| e_name := [98]; e_cid := [18; 32] ++ repeat 7 32; e_tsize := 262158 |} in
  let e2 := {| e_name := [97]; e_cid := [1; 85; 0; 3; 1; 2; 3]; e_tsize := 9223372036854775807 |} in
  let ops := [OAdd e1; OAdd e2; OAdd {| e_name := [98]; e_cid := e_cid e2; e_tsize := 0 |}; ORemove [97]] in
  wf_gtime (-1, 999999999) /\ Forall wf_op ops /\ forallb is_edit ops = true /\
  match run false (new_dir false 2147484141 (-1, 999999999)) ops with
  | Some d => (est d =? blen (node_bytes d)) && (est d =? 41) && (total d =? 1)
  | None => false
  end = true.
Proof.
  cbv zeta. split; [unfold wf_gtime, two63; cbn [fst snd]; lia|]. split.
  - repeat constructor; cbn [e_cid e_name e_tsize]; unfold blen, max_len, two64;
      cbn [length app repeat]; try lia.
  - split; vm_compute; reflexivity.
Qed.

(** the decision theorems are not vacuous: a replacement one Tsize class up
    crosses a threshold placed at the old block size *)
Example C17_decision_example :
  let c := [18; 32] ++ repeat 7 32 in
  let ops := [(200, OAdd {| e_name := [97]; e_cid := c; e_tsize := 4 |});
              (200, OAdd {| e_name := [98]; e_cid := c; e_tsize := 4 |});
              (90, OAdd {| e_name := [97]; e_cid := c; e_tsize := 311 |})] in
  Forall wf_dop ops /\
  map (fun x => (fst (fst x), snd (fst x))) (dyn_trace false (new_dir false 0 zero_time) ops)
    = [(false, 47); (false, 90); (true, 91)].
Proof.
  cbv zeta. split.
  - repeat constructor; cbn [e_cid e_name e_tsize]; unfold blen, max_len, two64, tsize_ok, two63;
      cbn [length app repeat e_tsize]; try lia.
  - vm_compute. reflexivity.
Qed.
