(** C23 — Pin state survives crashes consistently.
    ONLY the property theorems (closed by [exact] of lemmas of [proofs/P_C23.v], over the
    invariants of [lib/PinFacts.v]) with [Print Assumptions] beneath.
    Model: [lib/PinModel.v] (every operation of pinning/pinner/dspinner/pin.go as its ordered
    list of whole-key datastore writes; rebuildIndexes on open) and [model/M_C23.v]
    ([crash n log s] = the datastore after only the first [n] writes, [recover] = what
    dspinner.New leaves).  Tied to the code by the correspondence check of ./check C23.
    [fl] ranges over both settings of the defect switch; [flags_now] is the current code. *)
From Coq Require Import List Bool NArith.
From V Require Import lib.Verdict lib.PinModel lib.PinFacts model.M_C23 proofs.P_C23.
Import ListNotations.
Open Scope N_scope.

(** For EVERY good pinner state, EVERY operation (Pin, PinWithMode, Unpin, Update,
    SetAutosync, Flush; any arguments), EVERY pin id the implementation may draw, and EVERY
    number [n] of writes that reach the datastore before the process stops: the datastore a
    reopened pinner leaves has records and indexes in agreement (every index entry has its
    record with that CID/mode/name, every record is indexed, ids unique), and the reopened
    pinner is again in a good state.  Holds for the current code as well. *)
Theorem C23_consistent_after_recovery : forall fl newid p o,
  Good p -> fresh newid (st p) ->
  let '(_, p', lg) := exec_log fl newid p o in
  Good p' /\ forall n, consistent (recover (crash n lg (st p))) = true /\ Good (open_pinner (crash n lg (st p))).
Proof. exact consistent_after_recovery. Qed.
Print Assumptions C23_consistent_after_recovery.

(** ... hence along whole histories with any number of crashes (also repeated ones): every
    state reachable from an empty datastore by operations and crash-and-reopen is good and
    consistent. *)
Theorem C23_reachable_consistent : forall fl p, reachable fl p -> Good p /\ consistent (st p) = true.
Proof. exact reachable_good. Qed.
Print Assumptions C23_reachable_consistent.

(** With the defect switch off (new pin added before the old pins of the CID are removed):
    every CID pinned before the interrupted operation that the operation would not unpin is
    pinned after recovery, at every crash point. *)
Theorem C23_preserves_others : forall newid p o c,
  Good p -> fresh newid (st p) -> pinned (st p) c = true -> would_unpin o c = false ->
  let '(_, _, lg) := exec_log flags_fixed newid p o in
  forall n, pinned (recover (crash n lg (st p))) c = true.
Proof. exact preserves_others. Qed.
Print Assumptions C23_preserves_others.

(** What the current code does guarantee: CIDs other than the one being (re-)pinned. *)
Theorem C23_preserves_untouched : forall fl newid p o c,
  Good p -> fresh newid (st p) -> pinned (st p) c = true -> would_unpin o c = false -> repins o c = false ->
  let '(_, _, lg) := exec_log fl newid p o in
  forall n, pinned (recover (crash n lg (st p))) c = true.
Proof. exact preserves_untouched. Qed.
Print Assumptions C23_preserves_untouched.

(** The current code violates the second clause (finding C23-1): re-pin of CID 5 under a new
    name, stopped after the 4th write, recovers to a datastore in which CID 5 is not pinned. *)
Theorem C23_repin_refuted :
  exists p newid o n c,
    reachable flags_now p /\ fresh newid (st p) /\ pinned (st p) c = true /\ would_unpin o c = false /\
    pinned (recover (crash n (snd (exec_log flags_now newid p o)) (st p))) c = false.
Proof. exact repin_refuted. Qed.
Print Assumptions C23_repin_refuted.

(** Non-vacuity: a good state with three pins (recursive+name, direct, updated) exists, an
    operation with eight writes runs from it, and recovery at its 5th write does real repair. *)
Example C23_example :
  let p0 := open_pinner empty_store in
  let p1 := snd (fst (exec_log flags_fixed 1 p0 (OPin 5 true 1 true))) in
  let p2 := snd (fst (exec_log flags_fixed 2 p1 (OPin 3 false 2 true))) in
  let '(r, p3, lg) := exec_log flags_fixed 3 p2 (OPin 5 true 2 true) in
  reachable flags_fixed p2 /\ fresh 3 (st p2) /\ r = ROk /\ length lg = 8%nat /\
  dflag (crash 5 lg (st p2)) = Some true /\ complete (crash 5 lg (st p2)) = false /\
  consistent (recover (crash 5 lg (st p2))) = true /\ pinned (recover (crash 5 lg (st p2))) 5 = true.
Proof.
  cbv zeta. split.
  { apply (r_op flags_fixed _ 2 (OPin 3 false 2 true)).
    - apply (r_op flags_fixed _ 1 (OPin 5 true 1 true)); [apply r_init|intros []].
    - vm_compute. intros [H|[]]. discriminate. }
  vm_compute. split; [intros [H|[H|[]]]; discriminate|]. repeat split; reflexivity.
Qed.
