(** C22 — Pinner state follows the pin model and failed calls change nothing.
    ONLY the property theorems (closed by [exact] of lemmas of [proofs/P_C22.v]) with
    [Print Assumptions] beneath.  Mechanism model: [lib/PinModel.v] (+ queries in
    [model/M_C22.v]); pin model: the list of pins with [a_exec] and the same queries on
    [view_pins]; invariants: [lib/PinFacts.v].  Tied to the code by ./check C22.
    [flags_fixed]: both defect switches off (the behaviour the property demands);
    [flags_now]: the current code. *)
From Coq Require Import List Bool NArith.
From V Require Import lib.Verdict lib.PinModel lib.PinFacts model.M_C22 proofs.P_C22.
Import ListNotations.
Open Scope N_scope.

(** One operation: from every good state, with every fresh pin id and every fetch outcome, the
    mechanism (indexes, records, write order, early returns) returns the result the pin model
    returns and leaves exactly the pins the pin model leaves; the state stays good. *)
Theorem C22_refines_step : forall newid p o r p',
  Good p -> fresh newid (st p) -> exec flags_fixed newid p o = (r, p') ->
  a_exec newid (recs (st p)) o = (r, recs (st p')) /\ Good p'.
Proof. exact refines_step. Qed.
Print Assumptions C22_refines_step.

(** All operation sequences (any length, any arguments, any fetch outcomes). *)
Theorem C22_refines_pinmodel : forall l p, Good p -> run_both p (recs (st p)) l.
Proof. exact refines_pinmodel. Qed.
Print Assumptions C22_refines_pinmodel.

(** The queries read the same pins from the indexes as the pin model holds: every decision
    of IsPinned/IsPinnedWithType/CheckIfPinned(WithType)/RecursiveKeys/DirectKeys — recursively
    pinned? directly pinned? below which recursive roots? with which name? — coincides. *)
Theorem C22_queries_agree : forall C p g c,
  Inv C p ->
  let vs := view_store (st p) in let vp := view_pins (recs (st p)) in
  has c (vR vs) = has c (vR vp) /\ has c (vD vs) = has c (vD vp) /\
  (forall r, In r (vias g vs c) <-> In r (vias g vp c)) /\
  (forall e, In e (vR vs) <-> In e (vR vp)) /\ (forall e, In e (vD vs) <-> In e (vD vp)).
Proof. exact queries_agree. Qed.
Print Assumptions C22_queries_agree.

(** An operation that returns an error leaves the whole pinner state (hence every query)
    unchanged — with the defect switch off, from ANY state. *)
Theorem C22_error_unchanged : forall newid p o r p',
  exec flags_fixed newid p o = (r, p') -> r <> ROk -> p' = p.
Proof. exact error_unchanged. Qed.
Print Assumptions C22_error_unchanged.

(** The pin model keeps at most one pin per (CID, mode); after a successful recursive pin the
    CID has exactly the new pin (recursive supersedes direct, re-pin replaces the name). *)
Theorem C22_one_pin_per_mode : forall newid rs o, one_per_mode rs -> one_per_mode (snd (a_exec newid rs o)).
Proof. exact a_exec_one_per_mode. Qed.
Print Assumptions C22_one_pin_per_mode.

Theorem C22_repin_replaces : forall newid c n rs,
  filter (fun q => r_cid q =? c) (snd (a_pin_recursive newid c n true rs)) = [mkrec newid c MRec n].
Proof. exact a_repin_replaces. Qed.
Print Assumptions C22_repin_replaces.

(** The explicit fuel of the reachability test is enough on graphs whose links point to smaller
    numbers (the DAGs the harness builds). *)
Theorem C22_descends_fuel : forall g, ordered g -> forall fuel from c,
  (N.to_nat from < fuel)%nat -> reach g fuel from c = descends g from c.
Proof. exact descends_fuel. Qed.
Print Assumptions C22_descends_fuel.

(** Defects of the current code.  C22-1: a recursive re-pin whose fetch fails returns an error
    although the old pin is already gone.  C22-2: IsPinnedWithType(c, Indirect) reports a
    recursive root that lies below another recursive root. *)
Theorem C22_repin_error_refuted :
  exists p newid o r p' c,
    Good p /\ fresh newid (st p) /\ exec flags_now newid p o = (r, p') /\ r <> ROk /\
    pinned (st p) c = true /\ pinned (st p') c = false.
Proof. exact repin_error_refuted. Qed.
Print Assumptions C22_repin_error_refuted.

Theorem C22_indirect_root_refuted :
  exists g p c,
    Good p /\ ordered g /\
    answer flags_now g (view_store (st p)) (QIsPinned c 2) = AIs true 3 [1] /\
    answer flags_fixed g (view_pins (recs (st p))) (QIsPinned c 2) = AIs false 0 [].
Proof. exact indirect_root_refuted. Qed.
Print Assumptions C22_indirect_root_refuted.

(** Non-vacuity: good states exist (the empty pinner; everything reachable from it), and a
    concrete history exercises replace-name, direct-under-recursive refusal, update onto a
    direct pin (two pins on one CID) and a failed fetch. *)
Example C22_good_exists : Good (open_pinner empty_store).
Proof. exact Inv_empty. Qed.

Example C22_history :
  let g := [[]; [0]; [0; 1]; [1; 2]] in
  let ops := [(OPin 3 true 1 true, 1); (OPin 3 true 2 true, 2); (OPin 3 false 1 true, 3); (OPin 1 false 3 true, 4);
              (OUpdate 3 1 true true, 5); (OPin 2 true 1 false, 6); (OUnpin 0 true, 7)] in
  let step := fun '(p, rs) '(o, i) => (snd (exec flags_fixed i p o), fst (exec flags_fixed i p o) :: rs) in
  let '(p, rs) := fold_left step ops (open_pinner empty_store, []) in
  rev rs = [ROk; ROk; RErr; ROk; ROk; RFetch; RNotPinned] /\
  answer flags_fixed g (view_store (st p)) (QCheck 5 true [0; 1; 2; 3]) =
    ACheck [(0, 2, 0, [1]); (1, 0, 2, []); (2, 4, 0, []); (3, 4, 0, [])] /\
  answer flags_fixed g (view_store (st p)) (QKeys false true) = AKeys [(1, 1, 3)].
Proof. vm_compute. repeat split; reflexivity. Qed.
