(** C43 — Routing iterator combinators obey list laws.
    This file contains ONLY the property theorems, each closed by [exact] of a
    lemma proved in [proofs/P_C43.v], with [Print Assumptions] beneath it.
    Model: [model/M_C43.v] (transcribed from routing/http/types/iter/*.go and
    tied to the code by the correspondence check of ./check C43). *)
From Coq Require Import List ZArith Bool NArith.
From V Require Import lib.Verdict model.M_C43 proofs.P_C43.
Import ListNotations.
Open Scope Z_scope.

(** Draining ANY composition of slice/JSON sources with Map, Filter, Limit (and
    the transparent counting wrapper) yields exactly the list denotation [sem]:
    map, filter, take-prefix (limit <= 0 = unlimited).  No bound on lengths,
    limits or nesting depth. *)
Theorem C43_compose : forall t, fst (read_all (init t)) = sem t.
Proof. exact compose_law. Qed.
Print Assumptions C43_compose.

Theorem C43_map : forall f i,
  fst (read_all (init (MapI f i))) =
  map (fun x => (apf f (fst x), false)) (fst (read_all (init i))).
Proof. exact map_law. Qed.
Print Assumptions C43_map.

Theorem C43_filter : forall p i,
  fst (read_all (init (FilterI p i))) =
  map (fun x => (fst x, false)) (filter (fun x => app p (fst x)) (fst (read_all (init i)))).
Proof. exact filter_law. Qed.
Print Assumptions C43_filter.

Theorem C43_limit : forall n i,
  fst (read_all (init (LimitI n i))) =
  if 0 <? n then firstn (Z.to_nat n) (fst (read_all (init i))) else fst (read_all (init i)).
Proof. exact limit_law. Qed.
Print Assumptions C43_limit.

(** The explicit fuel of FilterIter's loop is never exhausted. *)
Theorem C43_next_total : forall s, exists r, nextf (fuel_of s) s = Some r.
Proof. exact nextf_enough. Qed.
Print Assumptions C43_next_total.

(** After draining and closing ANY composition: every counting wrapper was
    closed exactly once, and every wrapper directly below a positive limit [n]
    saw at most [n] successful advances, and at most [n] advances at all when it
    had at least [n] elements (the limited iterator never looks ahead). *)
Theorem C43_limit_reads : forall t,
  let s := close (snd (read_all (init t))) in
  limit_ok t (counters s) = true /\ closes_ok (counters s) = true.
Proof. exact limit_never_reads_ahead. Qed.
Print Assumptions C43_limit_reads.

Theorem C43_limit_reads_slice : forall n xs,
  0 < n -> n <= Z.of_nat (length xs) ->
  match counters (snd (read_all (init (LimitI n (Cnt (Src xs)))))) with
  | [(nx, tr, _)] => Z.of_N nx <= n /\ Z.of_N tr <= n
  | _ => False
  end.
Proof. exact limit_reads. Qed.
Print Assumptions C43_limit_reads_slice.

(** For every composition and EVERY sequence of Next/Val/Close calls, each
    wrapped (underlying) iterator has been closed exactly as often as the
    composed one. *)
Theorem C43_close_propagates : forall t ops c,
  In c (closes_of (fst (run (init t) ops))) -> c = count_close ops.
Proof. exact close_propagates. Qed.
Print Assumptions C43_close_propagates.

(** Non-vacuity: a concrete depth-4 composition with a limit that bites. *)
Example C43_example :
  let t := LimitI 2 (Cnt (FilterI PEven (MapI (FAdd 1) (Cnt (Src [1; 2; 3; 5; 7; 8]))))) in
  fst (read_all (init t)) = [(2, false); (4, false)] /\
  counters (close (snd (read_all (init t)))) = [(2, 2, 1); (3, 3, 1)]%N.
Proof. vm_compute. split; reflexivity. Qed.
