(** C09 — UnixFS file reader behaves as a seekable byte reader.
    This file contains ONLY the property theorems, each closed by [exact] of a
    lemma proved in [proofs/P_C09.v], with [Print Assumptions] beneath it.
    Model: [model/M_C09.v], transcribed from ipld/unixfs/io/dagreader.go and tied to the
    code by the correspondence check of ./check C09: the real DagReader is driven over
    DAGs made by the real importers and by DagModifier; the harness walks the blocks
    itself to extract the tree (recorded sizes, leaf data) and Coq compares every returned
    byte, offset and error class with [run] (mechanism) and [spec_run] (byte reader).

    Conventions of the specification [spec_step] (an in-memory byte reader over the
    file's content = the leaves' data in depth-first order):
      - Read/CtxReadFull with a buffer of n bytes deliver as many bytes as there are from
        the position, up to n, and report EOF exactly when they deliver fewer than n
        (so (n', EOF) comes in one call, where bytes.Reader needs a second call; a Read
        into an empty buffer may report nil or EOF -- [ob_match] accepts both);
      - Seek follows io.Seeker for the three whence values; a negative target or an unknown
        whence fails and leaves the position alone (the number returned next to the error is
        not specified); a target past the end is accepted;
      - WriteTo delivers everything from the position to the end, returns the number of
        bytes delivered, and moves there. *)
From Coq Require Import List ZArith Bool NArith.
From V Require Import lib.Verdict model.M_C10 model.M_C09 proofs.P_C09.
Import ListNotations.
Open Scope Z_scope.

(** For EVERY file tree whose recorded sizes are consistent (what the importers build: C07)
    and EVERY sequence of Read/CtxReadFull (n >= 0), Seek (any offset, any whence) and
    WriteTo calls, the reader's answers match those of the byte reader over [flatten t]. *)
Theorem C09_refines_bytes : forall t ops,
  consistent t = true -> forallb op_wf ops = true ->
  obs_match ops (snd (run t (len (flatten t)) (rd_init t) ops))
                (snd (spec_run (flatten t) {| b_pos := 0 |} ops)) = true.
Proof. exact refines_bytes. Qed.
Print Assumptions C09_refines_bytes.

(** The key step of Seek: descending by the recorded child sizes ([childSize > left] -> go
    down, else [left -= childSize]) leaves the reader exactly at [left]: what it will
    deliver from there on is the content without its first [left] bytes. *)
Theorem C09_seek_descend : forall t left,
  consistent t = true -> 0 <= left ->
  let (c, rest) := seek_tree t left in flat c ++ concat rest = dropZ left (flatten t).
Proof. exact seek_descend. Qed.
Print Assumptions C09_seek_descend.

(** The iteration over the leaves delivers exactly the next [need] bytes, keeps the unread
    remainder, and signals the end of the DAG exactly when it could not deliver [need]. *)
Theorem C09_iterate : forall rest need, 0 <= need ->
  let '(o, c, r', e) := iter need rest in
  o = takeZ need (concat rest) /\
  flat c ++ concat r' = dropZ need (concat rest) /\
  (0 < need -> e = (len (concat rest) <? need)).
Proof. exact iter_spec. Qed.
Print Assumptions C09_iterate.

(** Seeking past the end is accepted; afterwards a read delivers nothing and reports EOF,
    WriteTo delivers nothing, and the position is where the seek put it. *)
Theorem C09_seek_past_end : forall t off n,
  consistent t = true -> len (flatten t) <= off -> 0 < n ->
  snd (run t (len (flatten t)) (rd_init t) [OSeek off 0; ORead n; OWriteTo; OSeek 0 1])
  = [BSeek off true; BRead [] EEOF; BWrite [] 0 ENone; BSeek off true].
Proof. exact seek_past_end. Qed.
Print Assumptions C09_seek_past_end.

(** Non-vacuity: a two-level tree with consistent sizes (an empty leaf included), a history
    with partial reads, seeks inside a partially consumed leaf, from the end, before the
    start and past the end, and WriteTo after a partial read. *)
Example C09_example :
  let t := Node (FCons 5 (Node (FCons 2 (Leaf [1; 2]) (FCons 3 (Leaf [3; 4; 5]) FNil)))
                (FCons 0 (Leaf []) (FCons 4 (Leaf [6; 7; 8; 9]) FNil))) in
  let ops := [ORead 3; OSeek (-1) 1; ORead 0; ORead 4; OSeek (-2) 2; OWriteTo; ORead 1;
              OSeek (-1) 0; OSeek 12 0; ORead 2; OSeek 4 0; OWriteTo] in
  consistent t = true /\ forallb op_wf ops = true /\
  snd (run t (len (flatten t)) (rd_init t) ops) =
  [BRead [1; 2; 3] ENone; BSeek 2 true; BRead [] ENone; BRead [3; 4; 5; 6] ENone;
   BSeek 7 true; BWrite [8; 9] 2 ENone; BRead [] EEOF; BSeek 9 false; BSeek 12 true;
   BRead [] EEOF; BSeek 4 true; BWrite [5; 6; 7; 8; 9] 5 ENone].
Proof. vm_compute. repeat split. Qed.
