(** C32 — Subdomain and DNSLink addressing preserve content identity.
    This file contains ONLY the property theorems, each closed by [exact] of a
    lemma proved in [proofs/P_C32.v], with [Print Assumptions] beneath it.
    Model: [model/M_C32.v] (transcribed from gateway/hostname.go and tied to the
    code by the correspondence check of ./check C32: the real NewHostnameHandler
    behind net/http/httptest, a fake DNSLink backend, redirects followed).
    Strings are [string] = lists of characters; what go-cid / peer / miekg-dns /
    net/url answer enters through the oracle table [orc] that every theorem
    quantifies over. *)
From Coq Require Import List String Ascii Bool NArith Arith.
From V Require Import lib.Verdict model.M_C32 proofs.P_C32.
Import ListNotations.
Open Scope string_scope.

(** ---------- the string functions: all strings, no bound ---------- *)

(** UninlineDNSLink undoes InlineDNSLink EXACTLY on the strings in which a '.' is
    never followed by '.' or '-' ([rt_ok], M_C32.v): an equivalence,
    so the condition is the weakest possible. *)
Theorem C32_uninline_inline : forall s, uninline (inline s) = s <-> rt_ok s = true.
Proof. exact uninline_inline_iff. Qed.
Print Assumptions C32_uninline_inline.

(** Every valid DNS name (labels separated by '.', each non-empty and neither
    starting nor ending with '-'; any other characters, any length) is such a string. *)
Theorem C32_uninline_inline_valid : forall s, valid_dns s = true -> uninline (inline s) = s.
Proof. exact uninline_inline_valid. Qed.
Print Assumptions C32_uninline_inline_valid.

(** distinct names never share an inlined label *)
Theorem C32_inline_injective : forall s1 s2,
  rt_ok s1 = true -> rt_ok s2 = true -> inline s1 = inline s2 -> s1 = s2.
Proof. exact inline_injective. Qed.
Print Assumptions C32_inline_injective.

(** the inlined form is a single label ... *)
Theorem C32_inline_single_label : forall s, contains dot (inline s) = false.
Proof. exact inline_no_dot. Qed.
Print Assumptions C32_inline_single_label.

(** ... of length |s| + number of '-' in s; InlineDNSLink returns it iff that is at
    most 63, and fails exactly otherwise; toDNSLabel never returns more than 63. *)
Theorem C32_label_fits :
  (forall s, String.length (inline s) = String.length s + count dash s) /\
  (forall s l, inline_checked s = Some l -> l = inline s /\ String.length l <= 63) /\
  (forall s, inline_checked s = None <-> 63 < String.length s + count dash s) /\
  (forall orc t c m l, to_dns_label orc t c m = LOk l -> String.length l <= 63).
Proof.
  exact (conj inline_length (conj inline_checked_some (conj inline_checked_none to_dns_label_fits))).
Qed.
Print Assumptions C32_label_fits.

(** ---------- path -> subdomain URL (toSubdomainURL) ---------- *)

(** CID / peer-id root, any table without duplicate keys, any host, any path that
    SplitN takes apart as /ns/root/rest: the label of the redirect is a CIDv1 text of
    the SAME multihash (libp2p-key codec in the peer namespaces) of at most 63
    characters; namespace, remainder, query and fragment are carried over. *)
Theorem C32_redirect_cid : forall orc, NoDup (map fst orc) ->
  forall H path https inl q f p0 ns root rest codec m h host p q' f',
  splitn4 path = Some (p0, ns, root, rest) ->
  root_cid orc ns root = Some (codec, m) ->
  to_subdomain_url flags_off orc H path https inl q f = SUUrl h host p q' f' ->
  exists label b,
    host = label ++ "." ++ ns ++ "." ++ H /\
    enc orc (if is_peer_ns ns then libp2p_key else codec) m b = Some label /\
    i_cid (info orc label) = Some (if is_peer_ns ns then libp2p_key else codec, m) /\
    String.length label <= 63 /\ i_hostok (info orc label) = true /\
    h = https /\ p = url_path rest /\ q' = q /\ f' = f.
Proof. exact redirect_cid. Qed.
Print Assumptions C32_redirect_cid.

(** DNSLink name with a dot: the label is the name, or its inlined form (<= 63). *)
Theorem C32_redirect_dnslink : forall orc H path https inl q f p0 n rest h host p q' f',
  splitn4 path = Some (p0, "ipns", n, rest) ->
  root_cid orc "ipns" n = None -> contains dot n = true ->
  to_subdomain_url flags_off orc H path https inl q f = SUUrl h host p q' f' ->
  exists label,
    host = label ++ ".ipns." ++ H /\
    (label = n \/
     (label = inline n /\ String.length label <= 63 /\ has_record orc n = true /\ (inl || https)%bool = true)) /\
    h = https /\ p = url_path rest /\ q' = q /\ f' = f.
Proof. exact redirect_dnslink. Qed.
Print Assumptions C32_redirect_dnslink.

(** ---------- subdomain host -> path ---------- *)

(** knownSubdomainDetails takes the host L.ns.G apart into exactly (G, ns, L) — L
    may have several labels — when G is configured and no proper suffix of G's own
    labels is configured as well. *)
Theorem C32_subdomain_parse : forall cfg L ns G g,
  is_sub_ns ns = true -> known cfg G = Some g ->
  (forall j, 1 <= j < List.length (split dot G) -> known cfg (join "." (skipn j (split dot G))) = None) ->
  known_subdomain_details cfg (L ++ "." ++ ns ++ "." ++ G) = Some (g, G, ns, L).
Proof. exact ksd_parse. Qed.
Print Assumptions C32_subdomain_parse.

(** the inlined label of a valid FQDN with a DNSLink record is served as /ipns/<FQDN> *)
Theorem C32_host_to_path_inlined : forall orc fl g gwhost n r,
  g_sub g = true -> has_prefix ("/ipns/" ++ inline n) (g_paths g) = true ->
  valid_dns n = true -> contains dot n = true ->
  i_cid (info orc (inline n)) = None -> has_record orc n = true ->
  handle_subdomain fl orc g gwhost "ipns" (inline n) r =
  ONext KSub gwhost (("/ipns/" ++ n) ++ r_path r) (r_query r).
Proof. exact host_to_path_inlined. Qed.
Print Assumptions C32_host_to_path_inlined.

(** ---------- C32_identity: path request -> redirect -> request for that URL -> path ---------- *)

(** CID and peer-id roots, every gateway configuration in which G is an unambiguous
    subdomain gateway for ns, every table: the path request is answered by a redirect
    to L.ns.G where L is a dot-free text of at most 63 characters of the same
    multihash, and the request a client then sends for that URL reaches the next
    handler as /ns/L/rest with the same query (fragment kept in the redirect) — or the
    request is refused because even the base36 text exceeds 63 characters. *)
Theorem C32_identity_cid : forall cfg orc G ns g,
  NoDup (map fst orc) -> is_sub_ns ns = true ->
  known cfg G = Some g -> g_sub g = true ->
  (forall x, has_prefix ("/" ++ ns ++ "/" ++ x) (g_paths g) = true) ->
  (forall j, 1 <= j < List.length (split dot G) -> known cfg (join "." (skipn j (split dot G))) = None) ->
  forall root rest https q f codec m,
  cid_texts_clean cfg orc G ns ->
  contains slash root = false ->
  root_cid orc ns root = Some (codec, m) ->
  let c' := if is_peer_ns ns then libp2p_key else codec in
  match handler flags_off cfg orc
          {| r_host := G; r_xhost := ""; r_https := https;
             r_path := "/" ++ ns ++ "/" ++ root ++ "/" ++ rest; r_query := q; r_frag := f |} with
  | ORedirect h host p q' f' =>
      exists L,
        host = L ++ "." ++ ns ++ "." ++ G /\ String.length L <= 63 /\ contains dot L = false /\
        i_cid (info orc L) = Some (c', m) /\
        h = https /\ p = url_path rest /\ q' = q /\ f' = f /\
        handler flags_off cfg orc
          {| r_host := host; r_xhost := ""; r_https := h; r_path := p; r_query := q'; r_frag := f' |} =
        ONext KSub G (("/" ++ ns ++ "/" ++ L) ++ url_path rest) q
  | OBadRequest => exists t36, enc orc c' m true = Some t36 /\ 63 < String.length t36
  | OOther => exists b, enc orc c' m b = None          (* the table lacks an encoding *)
  | _ => False
  end.
Proof. exact identity_cid. Qed.
Print Assumptions C32_identity_cid.

(** DNSLink names: a valid FQDN with a record goes to n.ipns.G or (https / inlining
    gateway) to its single inlined label of at most 63 characters, and the request
    for that URL reaches the next handler as /ipns/<the original FQDN>/rest — or the
    request is refused because the inlined form exceeds 63 characters. *)
Theorem C32_identity_dnslink : forall cfg orc G g,
  known cfg G = Some g -> g_sub g = true ->
  (forall x, has_prefix ("/ipns/" ++ x) (g_paths g) = true) ->
  (forall j, 1 <= j < List.length (split dot G) -> known cfg (join "." (skipn j (split dot G))) = None) ->
  forall n rest https q f,
  valid_dns n = true -> contains dot n = true -> contains slash n = false ->
  root_cid orc "ipns" n = None -> i_cid (info orc n) = None -> i_cid (info orc (inline n)) = None ->
  has_record orc n = true ->
  i_hostok (info orc n) = true -> i_hostok (info orc (inline n)) = true ->
  known cfg (n ++ ".ipns." ++ G) = None -> known cfg (inline n ++ ".ipns." ++ G) = None ->
  match handler flags_off cfg orc
          {| r_host := G; r_xhost := ""; r_https := https;
             r_path := "/ipns/" ++ n ++ "/" ++ rest; r_query := q; r_frag := f |} with
  | ORedirect h host p q' f' =>
      (host = n ++ ".ipns." ++ G \/
       (host = inline n ++ ".ipns." ++ G /\ String.length (inline n) <= 63 /\ contains dot (inline n) = false)) /\
      h = https /\ p = url_path rest /\ q' = q /\ f' = f /\
      handler flags_off cfg orc
        {| r_host := host; r_xhost := ""; r_https := h; r_path := p; r_query := q'; r_frag := f' |} =
      ONext KSub G (("/ipns/" ++ n) ++ url_path rest) q
  | OBadRequest => 63 < String.length n + count dash n
  | _ => False
  end.
Proof.
  intros cfg orc G g HG Hsub Hp Hsfx n rest https q f.
  exact (identity_dnslink cfg orc G "ipns" g eq_refl HG Hsub Hp Hsfx n rest https q f eq_refl).
Qed.
Print Assumptions C32_identity_dnslink.

(** ---------- the fragment (finding C32-1, repaired by fixes/C32-1.patch) ---------- *)
(** With the defect switch on — toSubdomainURL as it was: only RawFragment copied — the
    redirect for  dweb.link/ipfs/bafkqaaa/a?x=1#top  has no fragment and fails the
    specification; the repaired model (switch off, used in all theorems above) meets it. *)
Theorem C32_fragment_refuted :
  handler flags_on cfg_ex orc_frag req_frag = ORedirect false "bafkqaaa.ipfs.dweb.link" "/a" "x=1" "" /\
  spec_outcome orc_frag intent_frag (handler flags_on cfg_ex orc_frag req_frag) = false /\
  spec_outcome orc_frag intent_frag (handler flags_off cfg_ex orc_frag req_frag) = true.
Proof. exact fragment_refuted. Qed.
Print Assumptions C32_fragment_refuted.

(** ---------- non-vacuity ---------- *)
Example C32_ex_strings :
  valid_dns "en.wikipedia-on-ipfs.org" = true /\
  inline "en.wikipedia-on-ipfs.org" = "en-wikipedia--on--ipfs-org" /\
  uninline "en-wikipedia--on--ipfs-org" = "en.wikipedia-on-ipfs.org" /\
  rt_ok "a-.b" = true /\ valid_dns "a-.b" = false /\      (* [rt_ok] is weaker than validity *)
  uninline (inline "a.-b") = "a-.b".                       (* ... and necessary *)
Proof. vm_compute. repeat split. Qed.

(** the hypotheses of C32_identity_cid / C32_identity_dnslink hold for the gateway
    dweb.link (paths /ipfs, /ipns; subdomains; inlining) and a table with a CIDv0, its
    base32 form, a base36 libp2p-key form and a DNSLink name — and the conclusions are
    the expected redirects *)
Example C32_ex_identity_hyps :
  NoDup (map fst orc_ex) /\ known cfg_ex "dweb.link" = Some gw_ex /\ g_sub gw_ex = true /\
  (forall x, has_prefix ("/" ++ "ipfs" ++ "/" ++ x) (g_paths gw_ex) = true) /\
  (forall x, has_prefix ("/ipns/" ++ x) (g_paths gw_ex) = true) /\
  (forall j, 1 <= j < List.length (split dot "dweb.link") ->
             known cfg_ex (join "." (skipn j (split dot "dweb.link"))) = None) /\
  cid_texts_clean cfg_ex orc_ex "dweb.link" "ipfs" /\ cid_texts_clean cfg_ex orc_ex "dweb.link" "ipns" /\
  root_cid orc_ex "ipfs" "Qm1" = Some (112, 1)%N /\ root_cid orc_ex "ipns" "Qm1" = Some (114, 1)%N /\
  valid_dns "my.v-long.example.com" = true /\ root_cid orc_ex "ipns" "my.v-long.example.com" = None /\
  has_record orc_ex "my.v-long.example.com" = true /\
  known cfg_ex ("my.v-long.example.com" ++ ".ipns." ++ "dweb.link") = None /\
  known cfg_ex (inline "my.v-long.example.com" ++ ".ipns." ++ "dweb.link") = None.
Proof.
  split; [exact ex_nodup|]. split; [reflexivity|]. split; [reflexivity|].
  split; [intros x; apply (ex_paths "ipfs"); auto|].
  split; [intros x; apply (ex_paths "ipns" x); auto|].
  split; [exact ex_sfx|].
  split; [apply ex_clean; auto|]. split; [apply ex_clean; auto|].
  vm_compute. repeat split.
Qed.

Example C32_ex_identity_run :
  handler flags_off cfg_ex orc_ex
    {| r_host := "dweb.link"; r_xhost := ""; r_https := false; r_path := "/ipfs/Qm1/a b"; r_query := "x=1"; r_frag := "top" |}
  = ORedirect false "bafy1.ipfs.dweb.link" "/a b" "x=1" "top" /\
  handler flags_off cfg_ex orc_ex
    {| r_host := "bafy1.ipfs.dweb.link"; r_xhost := ""; r_https := false; r_path := "/a b"; r_query := "x=1"; r_frag := "top" |}
  = ONext KSub "dweb.link" "/ipfs/bafy1/a b" "x=1" /\
  handler flags_off cfg_ex orc_ex
    {| r_host := "dweb.link"; r_xhost := ""; r_https := true; r_path := "/ipns/my.v-long.example.com/p"; r_query := ""; r_frag := "" |}
  = ORedirect true "my-v--long-example-com.ipns.dweb.link" "/p" "" "" /\
  handler flags_off cfg_ex orc_ex
    {| r_host := "my-v--long-example-com.ipns.dweb.link"; r_xhost := ""; r_https := true; r_path := "/p"; r_query := ""; r_frag := "" |}
  = ONext KSub "dweb.link" "/ipns/my.v-long.example.com/p" "".
Proof. vm_compute. repeat split. Qed.
