(** C32 — Subdomain and DNSLink addressing preserve content identity. *)
From Coq Require Import List String Ascii Bool NArith Arith.
From V Require Import lib.Verdict model.M_C32 proofs.P_C32.
Import ListNotations.
Open Scope string_scope.

Theorem C32_uninline_inline : forall s, uninline (inline s) = s <-> rt_ok s = true.
Proof. exact uninline_inline_iff. Qed.
Print Assumptions C32_uninline_inline.
