(** C40 — Keystore is a confined name-to-key map.
    This file contains ONLY the property theorems, each closed by [exact] of a
    lemma proved in [proofs/P_C40.v], with [Print Assumptions] beneath it.
    Model: [model/M_C40.v] (transcribed from keystore/keystore.go and
    keystore/memkeystore.go, base32 from lib/BaseN.v, tied to the code by the
    correspondence check of ./check C40). *)
From Coq Require Import List NArith Bool String.
From V Require Import lib.Verdict lib.BaseN model.M_C40 proofs.P_C40.
Import ListNotations.
Open Scope N_scope.

(** For EVERY sequence of put/get/has/delete/list over non-empty byte-string names
    whose file name fits NAME_MAX, the filesystem keystore gives exactly the answers
    of the in-memory keystore (flag off: Delete of an absent key is ErrNoSuchKey in both) —
    a finite map that refuses to overwrite — and its directory holds exactly the
    encoded entries of that map. *)
Theorem C40_refines_map : forall ops, valid_ops ops = true ->
  snd (fs_run false [] ops) = snd (mem_run false [] ops) /\
  fst (fs_run false [] ops) = enc_mem (fst (mem_run false [] ops)).
Proof. exact fs_refines_mem. Qed.
Print Assumptions C40_refines_map.

Theorem C40_agrees_with_mem : forall ops, valid_ops ops = true ->
  snd (fs_run false [] ops) = snd (mem_run false [] ops).
Proof. intros ops H. exact (proj1 (fs_refines_mem ops H)). Qed.
Print Assumptions C40_agrees_with_mem.

(** The code as it is (flag on): Delete of an absent key is an error on the
    filesystem keystore and succeeds on the in-memory keystore (finding C40-1). *)
Theorem C40_delete_missing_refuted :
  valid_ops [Del [97]] = true /\
  snd (fs_run true [] [Del [97]]) = [ROther] /\ snd (mem_run true [] [Del [97]]) = [ROk].
Proof. exact delete_missing_refuted. Qed.
Print Assumptions C40_delete_missing_refuted.

(** Confinement.  For ANY name (no hypothesis at all: slashes, dot-dot, NUL, any
    length) the file name handed to the file system is a non-empty string over
    [a-z2-7_] — a single path component that is not "." or ".." — and for any
    operation sequence (either flag) every file in the keystore directory has such a name. *)
Theorem C40_confined : forall n, safe_component (file_of n) = true.
Proof. exact file_of_safe. Qed.
Print Assumptions C40_confined.

Theorem C40_confined_ops : forall o, Forall (fun f => safe_component f = true) (touched o).
Proof. exact touched_safe. Qed.
Print Assumptions C40_confined_ops.

Theorem C40_confined_dir : forall fl ops d, dir_safe d -> dir_safe (fst (fs_run fl d ops)).
Proof. exact fs_run_safe. Qed.
Print Assumptions C40_confined_dir.

(** Distinct names get distinct files, and List() decodes every file back to its name. *)
Theorem C40_names_injective : forall n1 n2, Forall is_byte n1 -> Forall is_byte n2 ->
  file_of n1 = file_of n2 -> n1 = n2.
Proof. exact file_of_inj. Qed.
Print Assumptions C40_names_injective.

Theorem C40_decode_encode : forall n, Forall is_byte n -> name_of (file_of n) = Some n.
Proof. exact name_of_file_of. Qed.
Print Assumptions C40_decode_encode.

(** Non-vacuity: a valid history with traversal names, case variants and NUL. *)
Example C40_example :
  let ops := [Put (sb "../secret"%string) 0; Put (sb "Foo"%string) 1; Put (sb "foo"%string) 2; Put [97; 0; 98] 3; Put (sb "foo"%string) 4;
              Get (sb "Foo"%string); Del (sb "../secret"%string); Has (sb "../secret"%string); Lst] in
  valid_ops ops = true /\
  snd (fs_run false [] ops) = [ROk; ROk; ROk; ROk; RExists; RKey 1; ROk; RBool false; RList [sb "Foo"%string; sb "foo"%string; [97; 0; 98]]] /\
  map fst (fst (fs_run false [] ops)) = [sb "key_izxw6"%string; sb "key_mzxw6"%string; sb "key_meage"%string].
Proof. vm_compute. repeat split; reflexivity. Qed.
