(** C46 — Peering keeps reconnecting only while it should.
    ONLY property theorems here, each closed by [exact] of a lemma of proofs/P_C46.v.
    Model: model/M_C46.v (one peerHandler of peering/peering.go as a transition system whose steps
    are the handler's lock sections and the environment; tied to the code by ./check C46, which
    drives a real handler through chosen step orders). *)
From Coq Require Import List ZArith Bool NArith.
From V Require Import lib.Verdict lib.GoInt gen.Gen_C46 model.M_C46 proofs.P_C46 proofs.P_C46_gen.
Import ListNotations.
Open Scope Z_scope.

(** The backoff function the theorems talk about IS the code's: [gen/Gen_C46.v] is re-translated
    from peering/peering.go (method nextBackoff of peerHandler, math/rand/v2.Int64N as oracle arguments,
    int64 arithmetic through the width-aware wrappers) on every run; for all arguments in range it
    equals the hand model [nb], never wraps around and never panics. *)
Theorem C46_backoff_is_the_code : forall d r1 r2,
  initial_delay <= d <= max_backoff -> 0 <= r1 < d -> 0 <= r2 < jitter_span ->
  peerHandler_nextBackoff d r1 r2 = (nb d r1 r2, nb d r1 r2) /\
  peerHandler_nextBackoff_ok d r1 r2 = true.
Proof. exact gen_nextBackoff_eq. Qed.
Print Assumptions C46_backoff_is_the_code.

Theorem C46_backoff_code_range : forall d r1 r2,
  initial_delay <= d <= max_backoff -> 0 <= r1 < d -> 0 <= r2 < jitter_span ->
  let '(v, d') := peerHandler_nextBackoff d r1 r2 in
  v = d' /\ 0 < d' <= max_backoff /\ initial_delay <= d'.
Proof. exact gen_nextBackoff_range. Qed.
Print Assumptions C46_backoff_code_range.

(** Backoff: for every current delay in [5 s, 10 min] and every pair of random draws in the ranges
    the code uses, the value nextBackoff returns is accepted by [next_ok], and every accepted value
    stays in [5 s, 10 min] and does not decrease except inside the jitter band below the cap. *)
Theorem C46_backoff_sound : forall d r1 r2,
  initial_delay <= d <= max_backoff -> 0 <= r1 < d -> 0 <= r2 < jitter_span ->
  next_ok d (nb d r1 r2) = true.
Proof. exact nb_next_ok. Qed.
Print Assumptions C46_backoff_sound.

Theorem C46_backoff_complete : forall d d',
  initial_delay <= d <= max_backoff -> next_ok d d' = true ->
  exists r1 r2, 0 <= r1 < d /\ 0 <= r2 < jitter_span /\ nb d r1 r2 = d'.
Proof. exact next_ok_nb. Qed.
Print Assumptions C46_backoff_complete.

Theorem C46_backoff_range : forall d d',
  initial_delay <= d <= max_backoff -> next_ok d d' = true ->
  initial_delay <= d' <= max_backoff /\ (d <= d' \/ max_backoff - jitter_span < d').
Proof. exact next_ok_range. Qed.
Print Assumptions C46_backoff_range.

(** ... hence for backoff sequences of ANY length (100 consecutive failures included) every delay
    is in (0, 10 minutes] *)
Theorem C46_backoff_sequences : forall draws d,
  initial_delay <= d <= max_backoff -> draws_ok d draws ->
  Forall (fun x => 0 < x <= max_backoff) (backoffs d draws).
Proof. exact backoff_sequence_range. Qed.
Print Assumptions C46_backoff_sequences.

(** MAIN: every interleaving.  For every initial connectedness and every sequence of events
    (connect/disconnect notifications, deferred start/stop goroutines run in any order, timer
    expiries, dial outcomes, the two tail sections of reconnect, stop/remove), the repaired handler
    satisfies at every step: running & disconnected & nothing in flight => a reconnect is scheduled
    with a delay in (0, 10 min]; after stop/remove the timer is never scheduled again, no Connect
    with a live context happens and at most the one reconnect already in flight still calls Connect. *)
Theorem C46_all_interleavings : forall conn es, spec_trace (run fixed_flags (init conn) es) = true.
Proof. exact handler_meets_spec. Qed.
Print Assumptions C46_all_interleavings.

Theorem C46_scheduled_while_running : forall s,
  reachable s -> registered s = true -> connected s = false -> pstart s = 0%nat -> recon s = None ->
  tm s = TArmed /\ 0 < delay s <= max_backoff.
Proof. exact scheduled_while_running. Qed.
Print Assumptions C46_scheduled_while_running.

Theorem C46_quiet_after_stop : forall s,
  reachable s -> cancelled s = true ->
  tm s = TNil /\
  forall e s', step fixed_flags s e = Some s' ->
    cancelled s' = true /\ dials_live s' = dials_live s /\ (dials_dead s' + budget s' <= dials_dead s + budget s)%nat.
Proof. exact quiet_after_stop. Qed.
Print Assumptions C46_quiet_after_stop.

(** the code before the repairs: a deferred startIfDisconnected that runs after stop re-arms the
    timer (finding C46-1); Connect succeeding followed by a drop before stopIfConnected leaves the
    timer object unscheduled for ever (finding C46-2) *)
Theorem C46_start_after_stop_refuted :
  exists es, spec_trace (run {| f_start_after_stop := true; f_dead_timer := false |} (init false) es) = false.
Proof. exact start_after_stop_refuted. Qed.
Print Assumptions C46_start_after_stop_refuted.

Theorem C46_dead_timer_refuted :
  exists es, spec_trace (run {| f_start_after_stop := false; f_dead_timer := true |} (init false) es) = false.
Proof. exact dead_timer_refuted. Qed.
Print Assumptions C46_dead_timer_refuted.

(** Non-vacuity: a run that arms, fires, fails twice with growing backoff, connects, drops, and is stopped. *)
Example C46_example :
  let es := [ERunStart 7500000000; EFire; EDialRet false; ETail1 12000000000; ETail2;
             EFire; EDialRet true; ETail1 5000000000; ETail2; ERunStop; EDisc; ERunStart 9000000000;
             EStop; EConn; EDisc; ERunStart 9000000000] in
  map (fun s => (tm s, delay s, dials_live s)) (run fixed_flags (init false) es) =
  [(TArmed, 7500000000, 0%nat); (TDead, 7500000000, 0%nat); (TDead, 7500000000, 1%nat);
   (TArmed, 12000000000, 1%nat); (TArmed, 12000000000, 1%nat);
   (TDead, 12000000000, 1%nat); (TDead, 12000000000, 2%nat); (TNil, 5000000000, 2%nat); (TNil, 5000000000, 2%nat);
   (TNil, 5000000000, 2%nat); (TNil, 5000000000, 2%nat); (TArmed, 9000000000, 2%nat);
   (TNil, 9000000000, 2%nat); (TNil, 9000000000, 2%nat); (TNil, 9000000000, 2%nat); (TNil, 9000000000, 2%nat)].
Proof. vm_compute. reflexivity. Qed.
