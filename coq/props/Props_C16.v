(** C16 — Directory root CID depends only on final entries and configuration.
    ONLY the property theorems, each closed by [exact] of a lemma proved in
    proofs/P_C16*.v, with [Print Assumptions] beneath it.
    Model: model/M_C16.v (the exact switching arithmetic of ipld/unixfs/io/directory.go
    on top of the HAMT / BasicDirectory model of model/M_C15.v), tied to the code by the
    correspondence check of ./check C16.  The root CID is a hash of the root node's
    encoding, which is a function of [repr_of]: equal [repr_of] => equal CID for any
    hash function. *)
From Coq Require Import List ZArith Bool NArith String Ascii.
From V Require Import lib.Verdict model.M_C15 model.M_C16 proofs.P_C15_trie proofs.P_C15 proofs.P_C16_canon proofs.P_C16.
Import ListNotations.
Open Scope Z_scope.

(** A well-formed shard tree is determined by the set of entries it stores — for EVERY
    hash function, any payload: sorted slots, entries below the slot their digest
    selects and "a sub-shard holds at least two entries" leave no freedom. *)
Theorem C16_shard_unique : forall (V : Type) (hidx : name -> list Z) (cs1 cs2 : children V),
  wf hidx 0 (Node cs1) -> wf hidx 0 (Node cs2) ->
  sameset (walk (Node cs1)) (walk (Node cs2)) -> cs1 = cs2.
Proof. exact @shard_unique. Qed.
Print Assumptions C16_shard_unique.

(** Pure HAMT: any two sequences of insertions, replacements and removals (failed calls
    change nothing) that leave the same entries leave the identical shard tree: the
    collapse in swapValue restores the canonical shape.  Hence identical Node() DAG. *)
Theorem C16_hamt_canonical : forall (V : Type) (hidx : name -> list Z) (es1 es2 : list (name * option V)),
  sameset (walk (Node (hrun hidx es1 []))) (walk (Node (hrun hidx es2 []))) ->
  hrun hidx es1 [] = hrun hidx es2 [].
Proof. exact @hamt_canonical. Qed.
Print Assumptions C16_hamt_canonical.

(** Every history on the switching (or pure HAMT) directory, flags off: after EVERY edit
    the directory is sharded exactly when the documented rule holds for the entries it
    then has (size above the threshold in the current estimation mode, or more links
    than maxLinks), the configured per-directory threshold is still in force, adds
    succeed, removals succeed exactly on present names.  Hypotheses: equally long,
    non-empty index lists; the empty directory is not itself above the threshold;
    CID/Tsize lengths non-negative; no two names with identical index lists. *)
Theorem C16_history_meets_spec : forall c hidx ops,
  (forall a b, List.length (hidx a) = List.length (hidx b)) -> (forall a, hidx a <> []) -> rule c [] = false ->
  ops_ok hidx [] ops (snd (run16 fl_spec c hidx (init16 c) ops)) ->
  spec_hist c [] ops (snd (run16 fl_spec c hidx (init16 c) ops)) = true.
Proof. exact history_meets_spec. Qed.
Print Assumptions C16_history_meets_spec.

Theorem C16_sharded_iff : forall c hidx ops,
  (forall a b, List.length (hidx a) = List.length (hidx b)) -> (forall a, hidx a <> []) -> rule c [] = false ->
  g_dynamic c = true ->
  ops_ok hidx [] ops (snd (run16 fl_spec c hidx (init16 c) ops)) ->
  is_hamt16 (fst (run16 fl_spec c hidx (init16 c) ops)) =
  rule c (final_map [] ops (snd (run16 fl_spec c hidx (init16 c) ops))).
Proof. exact sharded_iff. Qed.
Print Assumptions C16_sharded_iff.

(** Two histories that leave the same set of entries leave the same root (same UnixFS
    type, same sorted links / same shard DAG) — in particular any history and the
    canonical sorted build. *)
Theorem C16_dynamic_canonical : forall c hidx ops1 ops2,
  (forall a b, List.length (hidx a) = List.length (hidx b)) -> (forall a, hidx a <> []) -> rule c [] = false ->
  ops_ok hidx [] ops1 (snd (run16 fl_spec c hidx (init16 c) ops1)) ->
  ops_ok hidx [] ops2 (snd (run16 fl_spec c hidx (init16 c) ops2)) ->
  same (final_map [] ops1 (snd (run16 fl_spec c hidx (init16 c) ops1)))
       (final_map [] ops2 (snd (run16 fl_spec c hidx (init16 c) ops2))) ->
  repr_of c (fst (run16 fl_spec c hidx (init16 c) ops1)) = repr_of c (fst (run16 fl_spec c hidx (init16 c) ops2)).
Proof. exact dynamic_canonical. Qed.
Print Assumptions C16_dynamic_canonical.

(** Persisting the directory and re-opening it from its root node (AReload; the loaded shard tree
    is the stored one by Props_C15.C15_reload) at ANY point of ANY history leaves the root
    unchanged; C16_history_meets_spec, C16_sharded_iff and C16_dynamic_canonical above quantify
    over histories that contain such reloads anywhere. *)
Theorem C16_reload_canonical : forall c hidx ops,
  (forall a b, List.length (hidx a) = List.length (hidx b)) -> (forall a, hidx a <> []) -> rule c [] = false ->
  ops_ok hidx [] ops (snd (run16 fl_spec c hidx (init16 c) ops)) ->
  repr_of c (reload16 fl_spec c (fst (run16 fl_spec c hidx (init16 c) ops))) =
  repr_of c (fst (run16 fl_spec c hidx (init16 c) ops)).
Proof. exact reload_canonical. Qed.
Print Assumptions C16_reload_canonical.

(** The defects.  Each flag switched on (alone, or for the units together with the
    gate they live in) makes the model violate the specification on a concrete history
    which the flag-off model handles correctly. *)
Theorem C16_prefix_refuted :
  model_meets (mkflags16 true false false false false false) (cfgL 229) whidx w1_ops = false /\
  model_meets fl_spec (cfgL 229) whidx w1_ops = true.
Proof. exact prefix_refuted. Qed.
Print Assumptions C16_prefix_refuted.

Theorem C16_thresh_refuted :
  model_meets (mkflags16 false true false false false false) (cfgL 112) whidx w2_ops = false /\
  model_meets fl_spec (cfgL 112) whidx w2_ops = true.
Proof. exact thresh_refuted. Qed.
Print Assumptions C16_thresh_refuted.

Theorem C16_gate_refuted :
  model_meets (mkflags16 false false true false false false) (cfgL 100) whidx w3_ops = false /\
  model_meets fl_spec (cfgL 100) whidx w3_ops = true.
Proof. exact gate_refuted. Qed.
Print Assumptions C16_gate_refuted.

Theorem C16_units_refuted :
  model_meets (mkflags16 false false true true false false) (cfgB 196) whidx w4_ops = false /\
  model_meets (mkflags16 false false true false false false) (cfgB 196) whidx w4_ops = true /\
  model_meets fl_spec (cfgB 196) whidx w4_ops = true.
Proof. exact units_refuted. Qed.
Print Assumptions C16_units_refuted.

Theorem C16_addname_refuted :
  model_meets (mkflags16 false false false false true false) (cfgL 120) whidx w5_ops = false /\
  model_meets fl_spec (cfgL 120) whidx w5_ops = true.
Proof. exact addname_refuted. Qed.
Print Assumptions C16_addname_refuted.

(** Non-vacuity: the hypotheses hold for the witness histories (and for real digests:
    Props_C15.C15_hash_hypotheses_hold). *)
Theorem C16_hypotheses_hold :
  (forall a b, List.length (whidx a) = List.length (whidx b)) /\ (forall a, whidx a <> []) /\
  rule (cfgL 229) [] = false /\
  ops_ok whidx [] w1_ops (snd (run16 fl_spec (cfgL 229) whidx (init16 (cfgL 229)) w1_ops)) /\
  ops_ok whidx [] w4_ops (snd (run16 fl_spec (cfgB 196) whidx (init16 (cfgB 196)) w4_ops)).
Proof. exact (conj whidx_len (conj whidx_pos witness_hyps)). Qed.
Print Assumptions C16_hypotheses_hold.
