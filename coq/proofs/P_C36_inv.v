(** C36 — proofs about the decision-engine model [M_C36], part 2:
    the coupling invariant between the engine state (defects off) and the peers' own
    want-lists, from which send soundness and "ledger within the peer's list" follow. *)
From Coq Require Import List ZArith Bool NArith Arith Lia Permutation.
From V Require Import lib.Verdict model.M_C36 proofs.P_C36.
Import ListNotations.
Open Scope Z_scope.

(** a message is a map keyed by CID: no CID occurs twice *)
Definition wf_msg (ents : list want) : Prop := NoDup (map w_cid ents).
Definition wf_op (o : op) : Prop := match o with OMsg _ _ ents => wf_msg ents | _ => True end.

(** ---------- the peer's view after a message ---------- *)
Definition vstep (v : list (cid * bool)) (e : want) : list (cid * bool) :=
  if w_cancel e then adel v (w_cid e)
  else aset v (w_cid e) (match aget v (w_cid e) with Some b => b || w_sdh e | None => w_sdh e end).

Lemma view_msg_eq v full ents :
  view_msg v full ents = match ents with [] => v | _ => fold_left vstep ents (if full then [] else v) end.
Proof. reflexivity. Qed.

Definition findc (k : cid) (ents : list want) : option want := find (fun e => (w_cid e =? k)%nat) ents.

Lemma findc_none k ents : ~ In k (map w_cid ents) -> findc k ents = None.
Proof.
  unfold findc. induction ents as [|e r IH]; cbn [find map In]; [reflexivity|].
  intros H. destruct (w_cid e =? k)%nat eqn:E.
  - apply Nat.eqb_eq in E. exfalso. apply H. left; exact E.
  - apply IH. intros Hin. apply H. right; exact Hin.
Qed.

Lemma findc_unique ents w : wf_msg ents -> In w ents -> findc (w_cid w) ents = Some w.
Proof.
  unfold wf_msg, findc. induction ents as [|e r IH]; cbn [find map In]; [intros _ []|].
  intros Hnd [->|Hin].
  - rewrite Nat.eqb_refl. reflexivity.
  - inversion Hnd as [|x l Hnotin Hnd']; subst.
    destruct (w_cid e =? w_cid w)%nat eqn:E.
    + apply Nat.eqb_eq in E. exfalso. apply Hnotin. rewrite E. apply in_map, Hin.
    + apply IH; assumption.
Qed.

Lemma findc_some k ents e : findc k ents = Some e -> In e ents /\ w_cid e = k.
Proof.
  unfold findc. intros H. apply find_some in H. destruct H as [H1 H2].
  apply Nat.eqb_eq in H2. auto.
Qed.

Lemma vfold_aget ents : wf_msg ents -> forall v k,
  aget (fold_left vstep ents v) k =
  match findc k ents with
  | Some e => if w_cancel e then None
              else Some (match aget v k with Some b => b || w_sdh e | None => w_sdh e end)
  | None => aget v k
  end.
Proof.
  unfold wf_msg. induction ents as [|e r IH]; intros Hnd v k; cbn [fold_left]; [reflexivity|].
  cbn [map] in Hnd. inversion Hnd as [|x l Hnotin Hnd']; subst.
  rewrite (IH Hnd'). unfold findc; cbn [find]. fold (findc k r).
  destruct (w_cid e =? k)%nat eqn:E.
  - apply Nat.eqb_eq in E. subst k. rewrite (findc_none _ _ Hnotin).
    unfold vstep. destruct (w_cancel e).
    + rewrite aget_adel, Nat.eqb_refl. reflexivity.
    + rewrite aget_aset, Nat.eqb_refl. reflexivity.
  - assert (Hv : aget (vstep v e) k = aget v k).
    { unfold vstep. destruct (w_cancel e); [rewrite aget_adel|rewrite aget_aset]; rewrite E; reflexivity. }
    rewrite Hv. reflexivity.
Qed.

Lemma view_has_want v full ents w :
  wf_msg ents -> In w ents -> w_cancel w = false ->
  amem (view_msg v full ents) (w_cid w) = true /\
  (w_sdh w = true -> aget (view_msg v full ents) (w_cid w) = Some true).
Proof.
  intros Hwf Hin Hc. rewrite view_msg_eq. destruct ents as [|e0 r]; [destruct Hin|].
  unfold amem. rewrite (vfold_aget _ Hwf), (findc_unique _ _ Hwf Hin), Hc.
  split; [reflexivity|]. intros ->. destruct (aget _ _) as [b|]; [rewrite orb_true_r|]; reflexivity.
Qed.

Lemma view_keeps v ents k :
  wf_msg ents -> (forall e, In e ents -> w_cid e = k -> w_cancel e = false) ->
  (amem v k = true -> amem (view_msg v false ents) k = true) /\
  (aget v k = Some true -> aget (view_msg v false ents) k = Some true).
Proof.
  intros Hwf Hnc. rewrite view_msg_eq. destruct ents as [|e0 r]; [auto|].
  unfold amem. rewrite (vfold_aget _ Hwf).
  destruct (findc k (e0 :: r)) as [e|] eqn:F; [|auto].
  apply findc_some in F. destruct F as [Fin Fk]. rewrite (Hnc e Fin Fk).
  split; [reflexivity|]. intros ->. reflexivity.
Qed.

(** ---------- splitWantsCancelsDenials ---------- *)
Definition fw (g : cfg) (p : peer) (e : want) : bool :=
  servable g (w_cid e) && negb (w_cancel e) && negb (denied g p (w_cid e)).
Definition fc (g : cfg) (e : want) : bool := servable g (w_cid e) && w_cancel e.
Definition fd (g : cfg) (p : peer) (e : want) : bool :=
  servable g (w_cid e) && negb (w_cancel e) && denied g p (w_cid e).

Lemma split_fold g p ents : forall ws0 cs0 ds0,
  fold_left (fun acc e =>
    let '(ws, cs, ds) := acc in
    if negb (servable g (w_cid e)) then acc
    else if w_cancel e then (ws, cs ++ [e], ds)
    else if denied g p (w_cid e) then (ws, cs, ds ++ [e])
    else if (length ws <? c_limit g)%nat then (ws ++ [e], cs, ds) else acc) ents (ws0, cs0, ds0) =
  (ws0 ++ firstn (c_limit g - length ws0) (filter (fw g p) ents), cs0 ++ filter (fc g) ents, ds0 ++ filter (fd g p) ents).
Proof.
  induction ents as [|e r IH]; intros ws0 cs0 ds0; cbn [fold_left filter].
  - rewrite firstn_nil, !app_nil_r. reflexivity.
  - unfold fw, fc, fd.
    destruct (servable g (w_cid e)); cbn [negb andb]; [|apply IH].
    destruct (w_cancel e); cbn [negb andb].
    { rewrite IH, <- app_assoc. reflexivity. }
    destruct (denied g p (w_cid e)); cbn [negb andb].
    { rewrite IH, <- app_assoc. reflexivity. }
    destruct (length ws0 <? c_limit g)%nat eqn:L.
    + apply Nat.ltb_lt in L. rewrite IH, app_length. cbn [length].
      replace (c_limit g - length ws0)%nat with (S (c_limit g - (length ws0 + 1)))%nat by lia.
      cbn [firstn]. rewrite <- app_assoc. reflexivity.
    + apply Nat.ltb_ge in L. rewrite IH.
      replace (c_limit g - length ws0)%nat with 0%nat by lia. reflexivity.
Qed.

Lemma firstn_In {A} n (l : list A) x : In x (firstn n l) -> In x l.
Proof. revert l. induction n as [|n IH]; intros [|a l]; cbn [firstn In]; try tauto. intros [H|H]; auto. Qed.

Lemma split_spec g p ents :
  let '(ws, cs, ds) := split g p ents in
  (forall w, In w ws -> In w ents /\ w_cancel w = false /\ servable g (w_cid w) = true /\ denied g p (w_cid w) = false) /\
  (forall w, In w cs -> In w ents /\ w_cancel w = true) /\
  (forall w, In w ds -> In w ents /\ w_cancel w = false /\ servable g (w_cid w) = true /\ denied g p (w_cid w) = true) /\
  (forall e, In e ents -> w_cancel e = true -> servable g (w_cid e) = true -> In e cs).
Proof.
  unfold split. rewrite split_fold. cbn [app]. split; [|split; [|split]].
  - intros w H. apply firstn_In in H. apply filter_In in H. destruct H as [Hi Hf]. unfold fw in Hf.
    apply andb_true_iff in Hf. destruct Hf as [Hf Hd]. apply andb_true_iff in Hf. destruct Hf as [Hs Hc].
    apply negb_true_iff in Hd. apply negb_true_iff in Hc. auto.
  - intros w H. apply filter_In in H. destruct H as [Hi Hf]. unfold fc in Hf.
    apply andb_true_iff in Hf. destruct Hf as [Hs Hc]. auto.
  - intros w H. apply filter_In in H. destruct H as [Hi Hf]. unfold fd in Hf.
    apply andb_true_iff in Hf. destruct Hf as [Hf Hd]. apply andb_true_iff in Hf. destruct Hf as [Hs Hc].
    apply negb_true_iff in Hc. auto.
  - intros e Hi Hc Hs. apply filter_In. split; [exact Hi|]. unfold fc. rewrite Hs, Hc. reflexivity.
Qed.

(** ---------- how the ledger part of a message moves a peer's state ---------- *)
Lemma In_aset {A} (l : list (nat * A)) c v k t : In (k, t) (aset l c v) -> (k = c /\ t = v) \/ In (k, t) l.
Proof.
  induction l as [|[k0 v0] r IH]; cbn [aset In].
  - intros [H|[]]. injection H as <- <-. auto.
  - destruct (k0 =? c)%nat; cbn [In].
    + intros [H|H]; [injection H as <- <-; auto|auto].
    + intros [H|H]; [auto|]. destruct (IH H) as [X|X]; auto.
Qed.
Lemma In_adel {A} (l : list (nat * A)) c k t : In (k, t) (adel l c) -> In (k, t) l /\ k <> c.
Proof.
  induction l as [|[k0 v0] r IH]; cbn [adel In]; [intros []|].
  destruct (k0 =? c)%nat eqn:E; cbn [In].
  - intros H. destruct (IH H). auto.
  - intros [H|H].
    + injection H as <- <-. split; [auto|]. apply Nat.eqb_neq, E.
    + destruct (IH H). auto.
Qed.

Definition moves (ws : list want) (s s' : pst) : Prop :=
  (inv s = pl s -> inv s' = pl s') /\
  (forall k, amem (pl s') k = true -> amem (pl s) k = true \/ exists w, In w ws /\ w_cid w = k) /\
  (forall k t, In (k, t) (tasks s') -> In (k, t) (tasks s)).

Lemma moves_refl ws s : moves ws s s.
Proof. repeat split; auto. Qed.

Lemma moves_trans ws s1 s2 s3 : moves ws s1 s2 -> moves ws s2 s3 -> moves ws s1 s3.
Proof.
  intros (A1 & A2 & A3) (B1 & B2 & B3). repeat split; auto.
  intros k Hk. destruct (B2 k Hk) as [H|H]; [auto|right; exact H].
Qed.

Lemma moves_wants ws lim s w : In w ws -> moves ws s (fst (ledger_wants lim s (w_cid w) (w_prio w, w_block w))).
Proof.
  intros Hin. unfold ledger_wants.
  destruct ((length (pl s) =? lim)%nat && negb (amem (pl s) (w_cid w))); cbn [fst]; [apply moves_refl|].
  repeat split; cbn [pl inv tasks]; auto.
  - intros ->. reflexivity.
  - intros k. rewrite amem_aset. intros H. apply orb_true_iff in H. destruct H as [H|H]; [|left; exact H].
    apply Nat.eqb_eq in H. right. exists w. auto.
Qed.

Lemma moves_cancel ws s c : moves ws s (fst (cancel_want s c)).
Proof.
  unfold cancel_want; cbn [fst]. repeat split; cbn [pl inv tasks]; auto.
  - intros ->. reflexivity.
  - intros k. rewrite amem_adel. intros H. apply andb_true_iff in H. left; apply H.
Qed.

Lemma moves_deltask ws s c : moves ws s {| pl := pl s; inv := inv s; tasks := adel (tasks s) c |}.
Proof.
  repeat split; cbn [pl inv tasks]; auto.
  intros k t H. apply In_adel in H. apply H.
Qed.

Lemma moves_mono ws ws' s s' : (forall w, In w ws -> In w ws') -> moves ws s s' -> moves ws' s s'.
Proof.
  intros Hsub (A1 & A2 & A3). repeat split; auto.
  intros k Hk. destruct (A2 k Hk) as [H|(w & Hw & Hc)]; [auto|right; exists w; auto].
Qed.

Lemma filter_overflow_moves lim s ws :
  let '(s2, keep, ov) := filter_overflow lim s ws in
  moves ws s s2 /\ (forall w, In w keep -> In w ws) /\ (forall w, In w ov -> In w ws).
Proof.
  unfold filter_overflow.
  set (f := fun (acc : pst * list want * list want) (w : want) => _).
  assert (G : forall l acc, (forall w, In w l -> In w ws) ->
    let '(s0, k0, o0) := acc in
    moves ws s s0 -> (forall w, In w k0 -> In w ws) -> (forall w, In w o0 -> In w ws) ->
    let '(s2, keep, ov) := fold_left f l acc in
    moves ws s s2 /\ (forall w, In w keep -> In w ws) /\ (forall w, In w ov -> In w ws)).
  { induction l as [|w r IH]; intros [[s0 k0] o0] Hl; cbn [fold_left]; [auto|].
    intros M0 K0 O0.
    specialize (IH (f (s0, k0, o0) w) (fun x Hx => Hl x (or_intror Hx))).
    assert (Hw : In w ws) by (apply Hl; left; reflexivity).
    subst f. cbn beta iota in *.
    pose proof (moves_wants ws lim s0 w Hw) as Mw.
    destruct (ledger_wants lim s0 (w_cid w) (w_prio w, w_block w)) as [s' ok]. cbn [fst] in Mw.
    destruct ok; apply IH; auto.
    - eapply moves_trans; eauto.
    - intros x Hx. apply in_app_or in Hx. destruct Hx as [Hx|[<-|[]]]; auto.
    - intros x Hx. apply in_app_or in Hx. destruct Hx as [Hx|[<-|[]]]; auto. }
  specialize (G ws (s, [], []) (fun w H => H)). cbn beta iota in G.
  apply G; [apply moves_refl| |]; intros w [].
Qed.

(** the plan only admits newcomers from the overflow list *)
Lemma insert_In {A} (key : A -> Z) x l y : In y (insert key x l) <-> y = x \/ In y l.
Proof.
  induction l as [|a r IH]; cbn [insert In].
  - split; intros [H|H]; auto.
  - destruct (key x <=? key a); cbn [In].
    + split; intros [H|H]; auto.
    + rewrite IH. split; intros [H|[H|H]]; auto.
Qed.
Lemma isort_In {A} (key : A -> Z) l y : In y (isort key l) <-> In y l.
Proof.
  unfold isort. induction l as [|a r IH]; cbn [fold_right In]; [tauto|].
  rewrite insert_In, IH. split; intros [H|H]; auto.
Qed.

Lemma phase1_sub bl ex ov :
  let '(pr, kept, rest) := phase1 bl ex ov in
  (forall eo, In eo pr -> In (snd eo) ov) /\ (forall o, In o rest -> In o ov) /\
  (forall k, In k kept -> In k ex).
Proof.
  revert ov. induction ex as [|w ex' IH]; intros ov; destruct ov as [|o ov']; cbn [phase1].
  - repeat split; auto; intros ? [].
  - repeat split; auto; intros ? [].
  - repeat split; auto; intros ? [].
  - destruct (bl (fst w)).
    + specialize (IH ov'). destruct (phase1 bl ex' ov') as [[pr kept] rest].
      destruct IH as (I1 & I2 & I3). repeat split.
      * intros eo [<-|H]; cbn [snd]; [left; reflexivity|right; auto].
      * intros x H; right; auto.
      * intros k H; right; auto.
    + specialize (IH (o :: ov')). destruct (phase1 bl ex' (o :: ov')) as [[pr kept] rest].
      destruct IH as (I1 & I2 & I3). repeat split; auto.
      intros k [<-|H]; [left; reflexivity|right; auto].
Qed.

Lemma phase2_sub kept ov eo : In eo (phase2 kept ov) -> In (snd eo) ov.
Proof.
  revert ov. induction kept as [|k kept' IH]; intros ov; destruct ov as [|o ov']; cbn [phase2]; try (intros []).
  destruct (w_prio o <? eprio k); [intros []|].
  intros [<-|H]; cbn [snd]; [left; reflexivity|right; eapply IH; eauto].
Qed.

Lemma overflow_plan_sub fl g b ledger ov eo : In eo (overflow_plan fl g b ledger ov) -> In (snd eo) ov.
Proof.
  unfold overflow_plan.
  set (ovs := isort _ ov). set (ex := if f_sort_desc fl then _ else _).
  pose proof (phase1_sub (fun c => negb (sized fl g b c)) ex ovs) as P1.
  destruct (phase1 _ ex ovs) as [[pr1 kept] rest]. destruct P1 as (P1 & P2 & _).
  intros H. apply in_app_or in H. destruct H as [H|H].
  - apply (isort_In (fun w => - w_prio w)). apply P1, H.
  - apply (isort_In (fun w => - w_prio w)). apply P2. eapply phase2_sub; eauto.
Qed.

Lemma apply_plan_moves ws lim s plan :
  (forall eo, In eo plan -> In (snd eo) ws) -> moves ws s (apply_plan lim s plan).
Proof.
  unfold apply_plan. revert s. induction plan as [|[e o] r IH]; intros s H; cbn [fold_left]; [apply moves_refl|].
  eapply moves_trans; [|apply IH; intros eo Heo; apply H; right; exact Heo].
  cbn [fst snd]. cbn zeta.
  pose proof (moves_cancel ws s (fst e)) as M1.
  destruct (cancel_want s (fst e)) as [s1 had]. cbn [fst] in M1.
  eapply moves_trans; [exact M1|].
  eapply moves_trans; [|apply moves_wants; apply (H (e, o)); left; reflexivity].
  destruct had; [apply moves_deltask|apply moves_refl].
Qed.

(** cancels (defect 6 off): ledger entry and queued task are both removed *)
Definition cancel1 (s : pst) (c : cid) : pst :=
  {| pl := adel (pl s) c; inv := adel (inv s) c; tasks := adel (tasks s) c |}.

Lemma do_cancels_off_eq s cs : do_cancels flags_off s cs = fold_left (fun s e => cancel1 s (w_cid e)) cs s.
Proof.
  unfold do_cancels. revert s. induction cs as [|e r IH]; intros s; cbn [fold_left]; [reflexivity|].
  rewrite <- IH. f_equal. unfold cancel_want, cancel1. cbn [f_cancel_ledger flags_off negb pl inv tasks].
  rewrite orb_true_r. reflexivity.
Qed.

Lemma do_cancels_off s cs :
  let s' := do_cancels flags_off s cs in
  (inv s = pl s -> inv s' = pl s') /\
  (forall k, amem (pl s') k = amem (pl s) k && negb (nmem k (map w_cid cs))) /\
  (forall k t, In (k, t) (tasks s') -> In (k, t) (tasks s) /\ nmem k (map w_cid cs) = false).
Proof.
  cbn zeta. rewrite do_cancels_off_eq. revert s. induction cs as [|e r IH]; intros s; cbn [fold_left map].
  - repeat split; auto. intros k. rewrite andb_true_r. reflexivity.
  - destruct (IH (cancel1 s (w_cid e))) as (I1 & I2 & I3). split; [|split].
    + intros Hs. apply I1. unfold cancel1; cbn [pl inv]. rewrite Hs. reflexivity.
    + intros k. rewrite I2. unfold cancel1; cbn [pl]. rewrite amem_adel. unfold nmem; cbn [existsb].
      rewrite (Nat.eqb_sym k). destruct (w_cid e =? k)%nat; cbn [negb andb orb]; [rewrite andb_false_r|]; reflexivity.
    + intros k t H. destruct (I3 k t H) as [Hin Hn]. unfold cancel1 in Hin; cbn [tasks] in Hin.
      apply In_adel in Hin. destruct Hin as [Hin Hne]. split; [exact Hin|].
      unfold nmem; cbn [existsb]. fold (nmem k (map w_cid r)). rewrite Hn, orb_false_r.
      apply Nat.eqb_neq, Hne.
Qed.

(** ---------- the per-task predicate ---------- *)
Definition TP (g : cfg) (p : peer) (b ad rm : list cid) (v : list (cid * bool)) (c : cid) (t : task) : Prop :=
  amem v c = true /\ servable g c = true /\
  (t_have t = true -> denied g p c = false /\ (nmem c b = true \/ nmem c rm = true)) /\
  (t_have t = false -> nmem c b = false \/ nmem c ad = true \/ denied g p c = true) /\
  (t_have t = false \/ t_sdh t = true -> aget v c = Some true).

Lemma TP_merge g p b ad rm v c n ex :
  TP g p b ad rm v c n -> TP g p b ad rm v c ex -> TP g p b ad rm v c (merge n ex).
Proof.
  intros (N1 & N2 & N3 & N4 & N5) (E1 & E2 & E3 & E4 & E5).
  unfold TP, merge. destruct n as [np nh nb ns nz], ex as [ep eh eb es ez]; cbn [t_prio t_have t_isblock t_sdh t_bsize] in *.
  destruct eh, nh, eb, nb; cbn [negb andb orb t_prio t_have t_isblock t_sdh t_bsize] in *;
    (split; [exact E1|split; [exact E2|]]); intuition (try discriminate).
Qed.

Definition TQ g p b ad rm v (ts : list (cid * task)) : Prop :=
  forall c t, In (c, t) ts -> TP g p b ad rm v c t.

Lemma TQ_push1 g p b ad rm v ts c n :
  TQ g p b ad rm v ts -> TP g p b ad rm v c n -> TQ g p b ad rm v (push1 ts (c, n)).
Proof.
  intros Q N k t. unfold push1; cbn [fst snd].
  destruct (aget ts c) as [ex|] eqn:E; intros H; apply In_aset in H; destruct H as [[-> ->]|H]; auto.
  apply TP_merge; [exact N|apply Q, aget_In, E].
Qed.

Lemma TQ_push g p b ad rm v lim ts new :
  TQ g p b ad rm v ts -> (forall ct, In ct new -> TP g p b ad rm v (fst ct) (snd ct)) ->
  TQ g p b ad rm v (push flags_off lim ts new).
Proof.
  unfold push. cbn [f_truncate flags_off andb]. revert ts.
  induction new as [|[c n] r IH]; intros ts Q H; cbn [fold_left]; [exact Q|].
  apply IH; [|intros ct Hct; apply H; right; exact Hct].
  apply TQ_push1; [exact Q|]. apply (H (c, n)). left; reflexivity.
Qed.

(** ---------- the per-peer invariant ---------- *)
Definition PInv (g : cfg) (p : peer) (b ad rm : list cid) (s : pst) (v : list (cid * bool)) : Prop :=
  inv s = pl s /\
  (forall c, amem (pl s) c = true -> amem v c = true /\ servable g c = true /\ denied g p c = false) /\
  TQ g p b ad rm v (tasks s).

Lemma PInv0 g p b ad rm v : PInv g p b ad rm pst0 v.
Proof. split; [reflexivity|split]; cbn; [intros; discriminate|intros c t []]. Qed.

Lemma found_off g b w : found flags_off g b w = nmem (w_cid w) b.
Proof. unfold found, sized. cbn [f_zero_absent flags_off negb orb]. rewrite andb_true_r. destruct (have_path g w); reflexivity. Qed.

Lemma msg_peer_off_eq g b p full ents s :
  ents <> [] ->
  msg_peer flags_off g b p full ents s =
  let '(ws, cs, ds) := split g p ents in
  let s1 := if full then pst0 else s in
  let '(s2, keep, ov) := filter_overflow (c_limit g) s1 ws in
  let (s3, ws') := match ov with [] => (s2, keep) | _ => handle_overflow flags_off g b s2 ov keep end in
  let s4 := do_cancels flags_off s3 cs in
  {| pl := pl s4; inv := inv s4;
     tasks := push flags_off (c_limit g) (tasks s4) (flat_map (dh_task g) ds ++ flat_map (want_task flags_off g b) ws') |}.
Proof.
  intros Hne. unfold msg_peer. destruct ents as [|e0 r]; [congruence|].
  destruct (split g p (e0 :: r)) as [[ws cs] ds]. cbn [f_full_keeps flags_off clear_wantlist f_clear_keeps pl inv].
  change {| pl := []; inv := []; tasks := [] |} with pst0.
  destruct (filter_overflow (c_limit g) (if full then pst0 else s) ws) as [[s2 keep] ov].
  destruct (match ov with [] => (s2, keep) | _ :: _ => handle_overflow flags_off g b s2 ov keep end) as [s3 ws'].
  destruct (flat_map (dh_task g) ds ++ flat_map (want_task flags_off g b) ws') eqn:En; [|reflexivity].
  unfold push; cbn [fold_left f_truncate flags_off andb]. destruct (do_cancels flags_off s3 cs); reflexivity.
Qed.

Lemma PInv_msg g p b ad rm s v full ents :
  wf_msg ents -> PInv g p b ad rm s v ->
  PInv g p b ad rm (msg_peer flags_off g b p full ents s) (view_msg v full ents).
Proof.
  intros Hwf (P1 & P2 & P3).
  destruct ents as [|e0 er] eqn:Ee; [exact (conj P1 (conj P2 P3))|]. rewrite <- Ee in *.
  assert (Hne : ents <> []) by (rewrite Ee; discriminate).
  rewrite (msg_peer_off_eq _ _ _ _ _ _ Hne). cbn zeta.
  pose proof (split_spec g p ents) as Sp. destruct (split g p ents) as [[ws cs] ds].
  destruct Sp as (Sw & Sc & Sd & Scc).
  set (s1 := if full then pst0 else s).
  pose proof (filter_overflow_moves (c_limit g) s1 ws) as Fm.
  destruct (filter_overflow (c_limit g) s1 ws) as [[s2 keep] ov]. destruct Fm as (M12 & Hkeep & Hov).
  assert (M23 : let (s3, ws') := match ov with [] => (s2, keep) | _ :: _ => handle_overflow flags_off g b s2 ov keep end in
                moves ws s2 s3 /\ (forall w, In w ws' -> In w ws)).
  { destruct ov as [|o ovr]; [split; [apply moves_refl|exact Hkeep]|].
    unfold handle_overflow. split.
    - apply apply_plan_moves. intros eo Heo. apply Hov. eapply overflow_plan_sub; eauto.
    - intros w Hw. apply in_app_or in Hw. destruct Hw as [Hw|Hw]; [auto|].
      apply in_map_iff in Hw. destruct Hw as (eo & <- & Heo). apply Hov. eapply overflow_plan_sub; eauto. }
  destruct (match ov with [] => (s2, keep) | _ :: _ => handle_overflow flags_off g b s2 ov keep end) as [s3 ws'].
  destruct M23 as (M23 & Hws').
  pose proof (moves_trans _ _ _ _ M12 M23) as (M1 & M2 & M3).
  pose proof (do_cancels_off s3 cs) as Dc. cbn zeta in Dc. destruct Dc as (D1 & D2 & D3).
  set (s4 := do_cancels flags_off s3 cs) in *.
  (* facts about the start state *)
  assert (S1 : inv s1 = pl s1) by (subst s1; destruct full; [reflexivity|exact P1]).
  assert (S2 : forall c, amem (pl s1) c = true -> full = false /\ amem (pl s) c = true).
  { subst s1. destruct full; cbn; [discriminate|auto]. }
  assert (S3 : forall c t, In (c, t) (tasks s1) -> full = false /\ In (c, t) (tasks s)).
  { subst s1. destruct full; cbn; [intros ? ? []|auto]. }
  (* an entry that is not cancelled by this message stays in the peer's view *)
  assert (Keep : forall k, servable g k = true -> nmem k (map w_cid cs) = false ->
                 forall e, In e ents -> w_cid e = k -> w_cancel e = false).
  { intros k Hs Hn e He Hk. destruct (w_cancel e) eqn:Ce; [|reflexivity].
    exfalso. assert (In e cs) by (apply Scc; [exact He|exact Ce|rewrite Hk; exact Hs]).
    assert (nmem k (map w_cid cs) = true) by (apply nmem_In; rewrite <- Hk; apply in_map; assumption).
    congruence. }
  unfold PInv; cbn [pl inv tasks]. split; [auto|]. split.
  - intros c Hc. rewrite D2 in Hc. apply andb_true_iff in Hc. destruct Hc as [Hc Hnc].
    apply negb_true_iff in Hnc.
    destruct (M2 c Hc) as [H|(w & Hw & Hcw)].
    + destruct (S2 c H) as (-> & Hs). destruct (P2 c Hs) as (Q1 & Q2 & Q3).
      split; [|auto]. apply (view_keeps v ents c Hwf); [|exact Q1]. apply Keep; assumption.
    + destruct (Sw w Hw) as (Wi & Wc & Ws & Wd). subst c.
      split; [|auto]. apply (view_has_want v full ents w Hwf Wi Wc).
  - apply TQ_push.
    + intros c t Hc. destruct (D3 c t Hc) as [Hc3 Hnc]. clear Hc. pose proof (M3 c t Hc3) as Hc. destruct (S3 c t Hc) as (-> & Ht).
      destruct (P3 c t Ht) as (T1 & T2 & T3 & T4 & T5).
      pose proof (view_keeps v ents c Hwf (Keep c T2 Hnc)) as (K1 & K2).
      split; [auto|split; [exact T2|split; [exact T3|split; [exact T4|intros H; apply K2, T5, H]]]].
    + intros ct Hct. apply in_app_or in Hct. destruct Hct as [Hct|Hct]; apply in_flat_map in Hct;
        destruct Hct as (w & Hw & Hct).
      * destruct (Sd w Hw) as (Wi & Wc & Ws & Wd).
        unfold dh_task in Hct. destruct (c_senddh g && w_sdh w) eqn:Hs; [|destruct Hct].
        destruct Hct as [<-|[]]. cbn [fst snd]. apply andb_true_iff in Hs. destruct Hs as [_ Hs].
        destruct (view_has_want v full ents w Hwf Wi Wc) as (V1 & V2).
        unfold TP; cbn [t_have t_sdh]. repeat split; auto; try discriminate.
      * destruct (Sw w (Hws' w Hw)) as (Wi & Wc & Ws & Wd).
        destruct (view_has_want v full ents w Hwf Wi Wc) as (V1 & V2).
        unfold want_task in Hct. rewrite found_off in Hct.
        destruct (nmem (w_cid w) b) eqn:Hb.
        -- destruct Hct as [<-|[]]. cbn [fst snd]. unfold TP; cbn [t_have t_sdh].
           repeat split; auto; try discriminate. intros [H|H]; [discriminate|auto].
        -- unfold dh_task in Hct. destruct (c_senddh g && w_sdh w) eqn:Hs; [|destruct Hct].
           destruct Hct as [<-|[]]. cbn [fst snd]. apply andb_true_iff in Hs. destruct Hs as [_ Hs].
           unfold TP; cbn [t_have t_sdh]. repeat split; auto; try discriminate.
Qed.

(** block added (and notified) / removed *)
Lemma nmem_nadd k c b : nmem k (nadd c b) = (k =? c)%nat || nmem k b.
Proof.
  unfold nadd. destruct (nmem c b) eqn:E.
  - destruct (k =? c)%nat eqn:Ek; [|reflexivity]. apply Nat.eqb_eq in Ek. subst. rewrite E. reflexivity.
  - unfold nmem. rewrite existsb_app. cbn [existsb]. rewrite orb_false_r, orb_comm. reflexivity.
Qed.
Lemma nmem_nrem k c b : nmem k (nrem c b) = negb (k =? c)%nat && nmem k b.
Proof.
  unfold nrem, nmem. induction b as [|x r IH]; cbn [filter existsb]; [rewrite andb_false_r; reflexivity|].
  destruct (x =? c)%nat eqn:E; cbn [negb existsb].
  - rewrite IH. apply Nat.eqb_eq in E. subst x. destruct (k =? c)%nat; reflexivity.
  - rewrite IH. destruct (k =? x)%nat eqn:Ek; cbn [orb]; [|reflexivity].
    apply Nat.eqb_eq in Ek. subst x. rewrite E. reflexivity.
Qed.

Lemma TP_add g p b ad rm v c0 c t : TP g p b ad rm v c t -> TP g p (nadd c0 b) (c0 :: ad) rm v c t.
Proof.
  intros (T1 & T2 & T3 & T4 & T5). split; [exact T1|split; [exact T2|split; [|split; [|exact T5]]]].
  - intros H. destruct (T3 H) as (Hd & [Hb|Hr]); (split; [exact Hd|]); [left|right; exact Hr].
    rewrite nmem_nadd, Hb. apply orb_true_r.
  - intros H. rewrite nmem_nadd. unfold nmem at 2; cbn [existsb]. fold (nmem c ad).
    destruct (c =? c0)%nat; cbn [orb]; [right; left; reflexivity|].
    destruct (T4 H) as [X|[X|X]]; auto.
Qed.

Lemma TP_rem g p b ad rm v c0 c t : TP g p b ad rm v c t -> TP g p (nrem c0 b) ad (c0 :: rm) v c t.
Proof.
  intros (T1 & T2 & T3 & T4 & T5). split; [exact T1|split; [exact T2|split; [|split; [|exact T5]]]].
  - intros H. destruct (T3 H) as (Hd & Hbr). split; [exact Hd|].
    rewrite nmem_nrem. unfold nmem at 2; cbn [existsb]. fold (nmem c rm).
    destruct (c =? c0)%nat; cbn [negb andb orb]; [right; reflexivity|].
    destruct Hbr as [Hb|Hr]; [left; exact Hb|right; exact Hr].
  - intros H. rewrite nmem_nrem. destruct (T4 H) as [X|[X|X]]; auto. left. rewrite X. apply andb_false_r.
Qed.

Lemma PInv_add g p b ad rm s v c0 :
  PInv g p b ad rm s v -> PInv g p (nadd c0 b) (c0 :: ad) rm (notify_peer flags_off g c0 s) v.
Proof.
  intros (P1 & P2 & P3). unfold notify_peer.
  assert (Q : TQ g p (nadd c0 b) (c0 :: ad) rm v (tasks s)) by (intros c t H; apply TP_add, P3, H).
  destruct (aget (inv s) c0) as [[pr ty]|] eqn:E; [|exact (conj P1 (conj P2 Q))].
  split; [exact P1|split; [exact P2|]]. cbn [tasks].
  apply TQ_push; [exact Q|]. intros ct [<-|[]]. cbn [fst snd].
  rewrite P1 in E. assert (Hm : amem (pl s) c0 = true) by (unfold amem; rewrite E; reflexivity).
  destruct (P2 c0 Hm) as (Q1 & Q2 & Q3).
  unfold TP; cbn [t_have t_sdh]. split; [exact Q1|split; [exact Q2|split; [|split]]].
  - intros _. split; [exact Q3|]. left. rewrite nmem_nadd, Nat.eqb_refl. reflexivity.
  - discriminate.
  - intros [H|H]; discriminate.
Qed.

Lemma PInv_rem g p b ad rm s v c0 :
  PInv g p b ad rm s v -> PInv g p (nrem c0 b) ad (c0 :: rm) s v.
Proof. intros (P1 & P2 & P3). split; [exact P1|split; [exact P2|]]. intros c t H. apply TP_rem, P3, H. Qed.

(** ---------- drain ---------- *)
Definition emits (b : list cid) (c : cid) (t : task) : resp :=
  if t_have t then
    if t_isblock t then if nmem c b then ([c], [], []) else if t_sdh t then ([], [], [c]) else ([], [], [])
    else ([], [c], [])
  else ([], [], [c]).

Definition em1 b (ct : cid * task) := fst (fst (emits b (fst ct) (snd ct))).
Definition em2 b (ct : cid * task) := snd (fst (emits b (fst ct) (snd ct))).
Definition em3 b (ct : cid * task) := snd (emits b (fst ct) (snd ct)).

Lemma response_fold b ts : forall bl0 hv0 dh0,
  fold_left (fun acc ct =>
    let '(bl, hv, dh) := acc in
    let (c, t) := (ct : cid * task) in
    if t_have t then
      if t_isblock t then
        if nmem c b then (bl ++ [c], hv, dh)
        else if t_sdh t then (bl, hv, dh ++ [c]) else acc
      else (bl, hv ++ [c], dh)
    else (bl, hv, dh ++ [c])) ts (bl0, hv0, dh0) =
  (bl0 ++ flat_map (em1 b) ts, hv0 ++ flat_map (em2 b) ts, dh0 ++ flat_map (em3 b) ts).
Proof.
  induction ts as [|[c t] r IH]; intros bl0 hv0 dh0; cbn [fold_left flat_map].
  - rewrite !app_nil_r. reflexivity.
  - unfold em1 at 1, em2 at 1, em3 at 1, emits; cbn [fst snd].
    destruct (t_have t); [destruct (t_isblock t); [destruct (nmem c b); [|destruct (t_sdh t)]|]|];
      rewrite IH; cbn [fst snd app]; rewrite <- ?app_assoc; reflexivity.
Qed.

Lemma response_eq b ts : response b ts = (flat_map (em1 b) ts, flat_map (em2 b) ts, flat_map (em3 b) ts).
Proof. unfold response. rewrite response_fold. reflexivity. Qed.

Lemma em1_In b ct c : In c (em1 b ct) -> c = fst ct /\ t_have (snd ct) = true /\ t_isblock (snd ct) = true /\ nmem c b = true.
Proof.
  unfold em1, emits. destruct ct as [c0 t]; cbn [fst snd].
  destruct (t_have t), (t_isblock t); cbn [fst snd In]; try tauto.
  destruct (nmem c0 b) eqn:E; cbn [fst snd In].
  - intros [<-|[]]. auto.
  - destruct (t_sdh t); cbn [fst snd In]; tauto.
Qed.
Lemma em2_In b ct c : In c (em2 b ct) -> c = fst ct /\ t_have (snd ct) = true /\ t_isblock (snd ct) = false.
Proof.
  unfold em2, emits. destruct ct as [c0 t]; cbn [fst snd].
  destruct (t_have t), (t_isblock t); cbn [fst snd In]; try tauto.
  - destruct (nmem c0 b); cbn [fst snd In]; [tauto|]. destruct (t_sdh t); cbn [fst snd In]; tauto.
  - intros [<-|[]]. auto.
Qed.
Lemma em3_In b ct c : In c (em3 b ct) ->
  c = fst ct /\ (t_have (snd ct) = false \/ (t_sdh (snd ct) = true /\ nmem c b = false)).
Proof.
  unfold em3, emits. destruct ct as [c0 t]; cbn [fst snd].
  destruct (t_have t), (t_isblock t); cbn [fst snd In]; try tauto.
  - destruct (nmem c0 b) eqn:E; cbn [fst snd In]; [tauto|].
    destruct (t_sdh t); cbn [fst snd In]; [|tauto]. intros [<-|[]]. auto.
  - intros [<-|[]]. auto.
  - intros [<-|[]]. auto.
Qed.

(** MessageSent *)
Lemma cwt_inv s c bm : inv s = pl s -> inv (cancel_with_type s c bm) = pl (cancel_with_type s c bm).
Proof.
  intros H. unfold cancel_with_type. destruct (aget (pl s) c) as [[pr ty]|]; [|exact H].
  destruct (negb bm && ty); [exact H|]. cbn [pl inv]. rewrite H. reflexivity.
Qed.
Lemma cwt_sub s c bm k : amem (pl (cancel_with_type s c bm)) k = true -> amem (pl s) k = true.
Proof.
  unfold cancel_with_type. destruct (aget (pl s) c) as [[pr ty]|]; [|auto].
  destruct (negb bm && ty); [auto|]. cbn [pl]. rewrite amem_adel. intros H. apply andb_true_iff in H. apply H.
Qed.
Lemma cwt_block s c k : amem (pl (cancel_with_type s c true)) k = true -> k <> c.
Proof.
  unfold cancel_with_type. destruct (aget (pl s) c) as [[pr ty]|] eqn:E; cbn [negb andb].
  - cbn [pl]. rewrite amem_adel. intros H. apply andb_true_iff in H. destruct H as [H _].
    apply negb_true_iff, Nat.eqb_neq in H. auto.
  - intros H Hk. subst k. unfold amem in H. rewrite E in H. discriminate.
Qed.

Lemma message_sent_facts s bl hv dh :
  inv s = pl s ->
  let s' := message_sent s (bl, hv, dh) in
  inv s' = pl s' /\ (forall k, amem (pl s') k = true -> amem (pl s) k = true /\ ~ In k bl).
Proof.
  intros H. unfold message_sent.
  assert (A : forall l bm s0, inv s0 = pl s0 ->
     let s1 := fold_left (fun s c => cancel_with_type s c bm) l s0 in
     inv s1 = pl s1 /\ (forall k, amem (pl s1) k = true -> amem (pl s0) k = true /\ (bm = true -> ~ In k l))).
  { induction l as [|c r IH]; intros bm s0 H0; cbn [fold_left].
    - split; [exact H0|]. intros k Hk. split; [exact Hk|]. intros _ [].
    - destruct (IH bm (cancel_with_type s0 c bm) (cwt_inv s0 c bm H0)) as [I1 I2]. split; [exact I1|].
      intros k Hk. destruct (I2 k Hk) as [J1 J2]. split; [eapply cwt_sub; eauto|].
      intros -> [<-|Hin]; [eapply cwt_block; eauto|apply J2; auto]. }
  cbn zeta. destruct (A bl true s H) as [B1 B2].
  destruct (A hv false _ B1) as [C1 C2]. split; [exact C1|].
  intros k Hk. destruct (C2 k Hk) as [D1 _]. destruct (B2 k D1) as [E1 E2]. auto.
Qed.

Lemma fold_adel_aget {A} (l : list nat) (v : list (nat * A)) k :
  aget (fold_left (fun v c => adel v c) l v) k = if nmem k l then None else aget v k.
Proof.
  revert v. induction l as [|c r IH]; intros v; cbn [fold_left]; [reflexivity|].
  rewrite IH, aget_adel. unfold nmem; cbn [existsb]. rewrite (Nat.eqb_sym k c).
  destruct (c =? k)%nat; cbn [orb]; [destruct (existsb _ r)|]; reflexivity.
Qed.

Lemma drain_peer_facts g p b ad rm s v :
  PInv g p b ad rm s v ->
  let gs := {| gview := [v]; gbs := b; gadded := ad; gremoved := rm |} in
  let r := sort_resp (snd (drain_peer b s)) in
  PInv g p b [] [] (fst (drain_peer b s)) (fold_left (fun v c => adel v c) (fst (fst r)) v) /\
  (let '(bl, hv, dh) := r in
   forallb (fun c => nmem c b && amem v c && negb (denied g p c)) bl &&
   forallb (fun c => (nmem c b || nmem c rm) && amem v c && negb (denied g p c)) hv &&
   forallb (fun c => (negb (nmem c b) || nmem c ad || denied g p c) &&
                    match aget v c with Some true => true | _ => false end) dh) = true.
Proof.
  intros (P1 & P2 & P3). cbn zeta. unfold drain_peer; cbn [fst snd].
  rewrite response_eq. set (ts := tasks s) in *.
  pose proof (message_sent_facts s (flat_map (em1 b) ts) (flat_map (em2 b) ts) (flat_map (em3 b) ts) P1) as Ms.
  cbn zeta in Ms. destruct Ms as [M1 M2].
  unfold sort_resp; cbn [fst snd]. split.
  - split; [exact M1|split]; cbn [pl inv tasks]; [|intros c t []].
    intros c Hc. destruct (M2 c Hc) as [Hs Hn]. destruct (P2 c Hs) as (Q1 & Q2 & Q3).
    split; [|auto]. unfold amem. rewrite fold_adel_aget.
    destruct (nmem c (nsort (flat_map (em1 b) ts))) eqn:E.
    + exfalso. apply Hn. apply nmem_In in E. apply (proj1 (In_nsort _ _)) in E. exact E.
    + exact Q1.
  - apply andb_true_iff; split; [apply andb_true_iff; split|]; apply forallb_forall; intros c Hc;
      apply (proj1 (In_nsort _ _)) in Hc; apply in_flat_map in Hc; destruct Hc as ([c0 t] & Hin & Hem).
    + apply em1_In in Hem. cbn [fst snd] in Hem. destruct Hem as (-> & Hh & Hb & Hp).
      destruct (P3 c0 t Hin) as (T1 & T2 & T3 & T4 & T5). destruct (T3 Hh) as [Hd _].
      rewrite Hp, T1, Hd. reflexivity.
    + apply em2_In in Hem. cbn [fst snd] in Hem. destruct Hem as (-> & Hh & Hb).
      destruct (P3 c0 t Hin) as (T1 & T2 & T3 & T4 & T5). destruct (T3 Hh) as [Hd Hpr].
      rewrite T1, Hd. assert (nmem c0 b || nmem c0 rm = true) as -> by (destruct Hpr as [-> | ->]; [reflexivity|apply orb_true_r]).
      reflexivity.
    + apply em3_In in Hem. cbn [fst snd] in Hem. destruct Hem as (-> & Hcase).
      destruct (P3 c0 t Hin) as (T1 & T2 & T3 & T4 & T5).
      destruct Hcase as [Hh|[Hs Hp]].
      * rewrite (T5 (or_introl Hh)). rewrite andb_true_r.
        destruct (T4 Hh) as [X|[X|X]]; rewrite X; cbn [negb orb]; rewrite ?orb_true_r; reflexivity.
      * rewrite (T5 (or_intror Hs)), Hp. reflexivity.
Qed.

(** ---------- the global invariant ---------- *)
Definition Inv (g : cfg) (s : state) (gs : ghost) : Prop :=
  bs s = gbs gs /\ length (peers s) = length (gview gs) /\
  forall p, (p < length (peers s))%nat ->
    PInv g p (bs s) (gadded gs) (gremoved gs) (nth p (peers s) pst0) (nth p (gview gs) []).

Lemma upd_length {A} (l : list A) i x : length (upd l i x) = length l.
Proof. revert i. induction l as [|a r IH]; intros [|i]; cbn [upd length]; auto. Qed.
Lemma nth_upd {A} (l : list A) i j x d :
  nth i (upd l j x) d = if (i =? j)%nat && (j <? length l)%nat then x else nth i l d.
Proof.
  revert i j. induction l as [|a r IH]; intros i j; cbn [upd length].
  - rewrite andb_false_r. reflexivity.
  - destruct j as [|j]; destruct i as [|i]; cbn [nth Nat.eqb andb]; try reflexivity.
    rewrite IH. reflexivity.
Qed.

Lemma Inv_init g np b0 : Inv g (init np b0) (ghost0 np b0).
Proof.
  unfold Inv, init, ghost0; cbn [bs peers gbs gview gadded gremoved]. rewrite !repeat_length.
  split; [reflexivity|split; [reflexivity|]]. intros p Hp.
  assert (E1 : nth p (repeat pst0 np) pst0 = pst0).
  { destruct (nth_in_or_default p (repeat pst0 np) pst0) as [H|H]; [apply repeat_spec in H|]; exact H. }
  rewrite E1. apply PInv0.
Qed.

Lemma kl_eqb_refl l : kl_eqb l l = true.
Proof.
  unfold kl_eqb. induction l as [|[k [pr ty]] r IH]; cbn [list_eqb]; [reflexivity|].
  rewrite IH. cbn [fst snd]. unfold lent_eqb; cbn [fst snd]. rewrite Nat.eqb_refl, Z.eqb_refl, eqb_reflx. reflexivity.
Qed.

Lemma lva_intro ps : forall vs,
  (forall p, (p < length ps)%nat ->
     inv (nth p ps pst0) = pl (nth p ps pst0) /\
     forall c, amem (pl (nth p ps pst0)) c = true -> amem (nth p vs []) c = true) ->
  ledger_view_all vs (map obs_peer ps) = true.
Proof.
  induction ps as [|s r IH]; intros vs H; cbn [map ledger_view_all]; [reflexivity|].
  destruct (H 0%nat ltac:(cbn; lia)) as [H1 H2]. cbn [nth] in H1, H2.
  apply andb_true_iff; split; [apply andb_true_iff; split|].
  - apply forallb_forall. intros [c e] Hin. cbn [fst]. unfold obs_peer in Hin; cbn [o_pl] in Hin.
    apply (Permutation_in _ (ksort_perm (pl s))) in Hin. apply In_amem in Hin.
    specialize (H2 c Hin). destruct vs; exact H2.
  - unfold obs_peer; cbn [o_inv o_pl]. rewrite H1. apply kl_eqb_refl.
  - apply IH. intros p Hp. specialize (H (S p) ltac:(cbn; lia)). cbn [nth] in H.
    destruct vs as [|v vs']; cbn [tl]; [|exact H].
    destruct H as [A B]. split; [exact A|]. intros c Hc. specialize (B c Hc). destruct p; exact B.
Qed.

Lemma send_all_intro g gs : forall rs k,
  (forall i, (i < length rs)%nat -> send_ok g gs (k + i) (nth i rs ([], [], [])) = true) ->
  send_all g gs k rs = true.
Proof.
  induction rs as [|r rest IH]; intros k H; cbn [send_all]; [reflexivity|].
  apply andb_true_iff; split.
  - specialize (H 0%nat ltac:(cbn; lia)). rewrite Nat.add_0_r in H. exact H.
  - apply IH. intros i Hi. specialize (H (S i) ltac:(cbn; lia)). cbn [nth] in H.
    replace (S k + i)%nat with (k + S i)%nat by lia. exact H.
Qed.

Lemma drop_sent_nth : forall vs rs p,
  length rs = length vs ->
  nth p (drop_sent vs rs) [] = fold_left (fun v c => adel v c) (fst (fst (nth p rs ([], [], [])))) (nth p vs []).
Proof.
  induction vs as [|v vs' IH]; intros [|r rs'] p Hl; cbn [drop_sent length] in *; try discriminate.
  - destruct p; reflexivity.
  - destruct p; cbn [nth]; [reflexivity|]. apply IH. lia.
Qed.
Lemma drop_sent_length : forall vs rs, length (drop_sent vs rs) = length vs.
Proof. induction vs as [|v vs' IH]; intros [|r rs']; cbn [drop_sent length]; auto. Qed.

Lemma PInv_view_only g p b ad rm s v : PInv g p b ad rm s v ->
  inv s = pl s /\ forall c, amem (pl s) c = true -> amem v c = true.
Proof. intros (P1 & P2 & _). split; [exact P1|]. intros c Hc. apply P2, Hc. Qed.

Theorem Inv_step g s gs o :
  Inv g s gs -> wf_op o ->
  let s' := fst (step flags_off g s o) in
  let ob := obs_step s' (snd (step flags_off g s o)) in
  Inv g s' (ghost_step gs o ob) /\ send_clause g gs o ob = true /\ view_clause gs o ob = true.
Proof.
  intros (I1 & I2 & I3) Hwf. cbn zeta.
  assert (Hview : forall s' gs', Inv g s' gs' -> ledger_view_all (gview gs') (map obs_peer (peers s')) = true).
  { intros s' gs' (J1 & J2 & J3). apply lva_intro. intros p Hp. eapply PInv_view_only. apply J3, Hp. }
  destruct o as [p full ents|c|c|]; cbn [step wf_op] in *.
  - (* message *)
    destruct (p <? length (peers s))%nat eqn:Lp; cbn [fst snd].
    + assert (HI : Inv g (setp s p (msg_peer flags_off g (bs s) p full ents (getp s p)))
                     (ghost_step gs (OMsg p full ents) (obs_step (setp s p (msg_peer flags_off g (bs s) p full ents (getp s p))) []))).
      { unfold ghost_step, gview_of. pose proof Lp as Lp'. apply Nat.ltb_lt in Lp.
        unfold Inv, setp; cbn [bs peers gbs gview gadded gremoved].
        rewrite !upd_length. split; [exact I1|split; [exact I2|]]. intros q Hq.
        rewrite !nth_upd. rewrite <- I2. rewrite Lp', andb_true_r. destruct (q =? p)%nat eqn:Eq.
        - apply Nat.eqb_eq in Eq. subst q. apply PInv_msg; [exact Hwf|]. apply I3, Lp.
        - apply I3, Hq. }
      split; [exact HI|split; [reflexivity|]]. unfold view_clause, obs_step; cbn [so_peers]. apply (Hview _ _ HI).
    + assert (HI : Inv g s (ghost_step gs (OMsg p full ents) (obs_step s []))).
      { unfold ghost_step, gview_of. apply Nat.ltb_ge in Lp. unfold Inv; cbn [bs peers gbs gview gadded gremoved].
        rewrite upd_length. split; [exact I1|split; [exact I2|]]. intros q Hq.
        rewrite nth_upd. assert (Lp' : (p <? length (gview gs))%nat = false) by (apply Nat.ltb_ge; lia).
        rewrite Lp', andb_false_r. apply I3, Hq. }
      split; [exact HI|split; [reflexivity|]]. unfold view_clause, obs_step; cbn [so_peers]. apply (Hview _ _ HI).
  - (* add + notify *)
    cbn [fst snd].
    assert (HI : Inv g {| peers := map (notify_peer flags_off g c) (peers s); bs := nadd c (bs s) |}
                   (ghost_step gs (OAdd c) (obs_step {| peers := map (notify_peer flags_off g c) (peers s); bs := nadd c (bs s) |} []))).
    { unfold Inv, ghost_step; cbn [bs peers gbs gview gadded gremoved]. rewrite map_length.
      split; [rewrite I1; reflexivity|split; [exact I2|]]. intros q Hq.
      rewrite (nth_indep _ pst0 (notify_peer flags_off g c pst0)) by (rewrite map_length; exact Hq).
      rewrite map_nth. apply PInv_add, I3, Hq. }
    split; [exact HI|split; [reflexivity|]]. unfold view_clause, obs_step; cbn [so_peers]. apply (Hview _ _ HI).
  - (* remove *)
    cbn [fst snd].
    assert (HI : Inv g {| peers := peers s; bs := nrem c (bs s) |}
                   (ghost_step gs (ORemove c) (obs_step {| peers := peers s; bs := nrem c (bs s) |} []))).
    { unfold Inv, ghost_step; cbn [bs peers gbs gview gadded gremoved].
      split; [rewrite I1; reflexivity|split; [exact I2|]]. intros q Hq. apply PInv_rem, I3, Hq. }
    split; [exact HI|split; [reflexivity|]]. unfold view_clause, obs_step; cbn [so_peers]. apply (Hview _ _ HI).
  - (* drain *)
    cbn [fst snd]. set (rs := map (drain_peer (bs s)) (peers s)).
    assert (Hlen : length (map sort_resp (map snd rs)) = length (gview gs)).
    { subst rs. rewrite !map_length. exact I2. }
    assert (Hnth : forall q, (q < length (peers s))%nat ->
       nth q (map sort_resp (map snd rs)) ([], [], []) = sort_resp (snd (drain_peer (bs s) (nth q (peers s) pst0))) /\
       nth q (map fst rs) pst0 = fst (drain_peer (bs s) (nth q (peers s) pst0))).
    { intros q Hq. subst rs. rewrite !map_map. split.
      - rewrite (nth_indep _ _ (sort_resp (snd (drain_peer (bs s) pst0)))) by (rewrite map_length; exact Hq).
        apply (map_nth (fun x => sort_resp (snd (drain_peer (bs s) x)))).
      - rewrite (nth_indep _ _ (fst (drain_peer (bs s) pst0))) by (rewrite map_length; exact Hq).
        apply (map_nth (fun x => fst (drain_peer (bs s) x))). }
    assert (HI : Inv g {| peers := map fst rs; bs := bs s |}
                   (ghost_step gs ODrain (obs_step {| peers := map fst rs; bs := bs s |} (map snd rs)))).
    { unfold Inv, ghost_step, obs_step; cbn [bs peers gbs gview gadded gremoved so_drain].
      rewrite drop_sent_length. subst rs. rewrite !map_length.
      split; [exact I1|split; [exact I2|]]. intros q Hq.
      rewrite (drop_sent_nth _ _ _ Hlen). destruct (Hnth q Hq) as [N1 N2]. rewrite N1, N2.
      apply (drain_peer_facts g q (bs s) (gadded gs) (gremoved gs)). apply I3, Hq. }
    split; [exact HI|split].
    + unfold send_clause, obs_step; cbn [so_drain]. apply send_all_intro. intros i Hi.
      assert (Hi' : (i < length (peers s))%nat) by (rewrite I2, <- Hlen; exact Hi). clear Hi. rename Hi' into Hi.
      destruct (Hnth i Hi) as [N1 _]. subst rs. rewrite N1. cbn [Nat.add].
      pose proof (drain_peer_facts g i (bs s) (gadded gs) (gremoved gs) _ _ (I3 i Hi)) as [_ F].
      unfold send_ok, gview_of. rewrite <- I1. exact F.
    + unfold view_clause, obs_step; cbn [so_peers]. apply (Hview _ _ HI).
Qed.

(** along every run *)
Theorem trace_send_view g : forall ops s gs,
  Inv g s gs -> Forall wf_op ops ->
  trace_ok (send_clause g) gs ops (run flags_off g s ops) = true /\
  trace_ok view_clause gs ops (run flags_off g s ops) = true.
Proof.
  induction ops as [|o r IH]; intros s gs HI Hwf; cbn [run trace_ok]; [auto|].
  inversion Hwf as [|x l Ho Hr]; subst.
  pose proof (Inv_step g s gs o HI Ho) as St. cbn zeta in St.
  destruct (step flags_off g s o) as [s' rs]. cbn [fst snd] in St. destruct St as (HI' & Hs & Hv).
  cbn [trace_ok]. rewrite Hs, Hv. cbn [andb]. apply IH; assumption.
Qed.

Theorem send_sound g np b0 ops : Forall wf_op ops ->
  trace_ok (send_clause g) (ghost0 np b0) ops (run flags_off g (init np b0) ops) = true.
Proof. intros H. apply trace_send_view; [apply Inv_init|exact H]. Qed.

Theorem ledger_in_view g np b0 ops : Forall wf_op ops ->
  trace_ok view_clause (ghost0 np b0) ops (run flags_off g (init np b0) ops) = true.
Proof. intros H. apply trace_send_view; [apply Inv_init|exact H]. Qed.

(** a full want-list replaces the ledger: afterwards it holds only wants of that message *)
Theorem full_replaces g b p ents s c :
  amem (pl (msg_peer flags_off g b p true ents s)) c = true -> ents <> [] ->
  exists w, In w ents /\ w_cancel w = false /\ w_cid w = c.
Proof.
  intros Hc Hne. rewrite (msg_peer_off_eq _ _ _ _ _ _ Hne) in Hc. cbn zeta in Hc.
  pose proof (split_spec g p ents) as Sp. destruct (split g p ents) as [[ws cs] ds].
  destruct Sp as (Sw & _).
  pose proof (filter_overflow_moves (c_limit g) pst0 ws) as Fm.
  destruct (filter_overflow (c_limit g) pst0 ws) as [[s2 keep] ov]. destruct Fm as (M12 & Hkeep & Hov).
  assert (M23 : moves ws s2 (fst (match ov with [] => (s2, keep) | _ :: _ => handle_overflow flags_off g b s2 ov keep end))).
  { destruct ov as [|o ovr]; [apply moves_refl|]. unfold handle_overflow; cbn [fst].
    apply apply_plan_moves. intros eo Heo. apply Hov. eapply overflow_plan_sub; eauto. }
  destruct (match ov with [] => (s2, keep) | _ :: _ => handle_overflow flags_off g b s2 ov keep end) as [s3 ws'].
  cbn [fst] in M23. pose proof (moves_trans _ _ _ _ M12 M23) as (_ & M2 & _).
  cbn [pl] in Hc. destruct (do_cancels_off s3 cs) as (_ & D2 & _). rewrite D2 in Hc.
  apply andb_true_iff in Hc. destruct Hc as [Hc _].
  destruct (M2 c Hc) as [H|(w & Hw & Hcw)]; [cbn in H; discriminate|].
  exists w. destruct (Sw w Hw) as (Wi & Wc & _). auto.
Qed.

(** a decidable form of [wf_op], used to discharge the hypothesis on concrete histories *)
Fixpoint nodupb (l : list nat) : bool :=
  match l with [] => true | x :: r => negb (nmem x r) && nodupb r end.
Lemma nodupb_NoDup l : nodupb l = true -> NoDup l.
Proof.
  induction l as [|x r IH]; cbn [nodupb]; intros H; [constructor|].
  apply andb_true_iff in H. destruct H as [H1 H2]. constructor; [|apply IH, H2].
  intros Hin. apply nmem_In in Hin. rewrite Hin in H1. discriminate.
Qed.
Definition wf_opb (o : op) : bool := match o with OMsg _ _ ents => nodupb (map w_cid ents) | _ => true end.
Lemma wf_opsb_ok ops : forallb wf_opb ops = true -> Forall wf_op ops.
Proof.
  intros H. apply Forall_forall. intros o Ho. rewrite forallb_forall in H. specialize (H o Ho).
  destruct o; cbn in *; auto. apply nodupb_NoDup, H.
Qed.
