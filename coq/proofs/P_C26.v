(** C26 — proofs about record creation and the marshal/unmarshal/validate round trip
    ([model/M_C26.v] on top of [lib/Ipns.v], [lib/CborScalar.v], [lib/Pb.v]). *)
From Coq Require Import ZArith List Bool Lia Permutation Sorted.
From V Require Import lib.Verdict lib.Lex lib.Varint lib.Pb lib.CborScalar lib.Ipns model.M_C26.
Import ListNotations.
Open Scope Z_scope.

(** ---------- the key order ---------- *)
Definition key_pair (a : bytes) : Z * bytes := (blen a, a).
Definition pair_cmp : Z * bytes -> Z * bytes -> comparison :=
  lex_pair Z.compare (lex_list Z.compare).

Lemma key_cmp_on_key : forall a b, key_cmp a b = on_key key_pair pair_cmp a b.
Proof. intros a b. unfold key_cmp, on_key, pair_cmp, lex_pair, key_pair. cbn [fst snd]. reflexivity. Qed.

Lemma pair_cmp_tpo : tpo pair_cmp.
Proof.
  apply lex_pair_tpo; [apply Zcompare_tpo | apply lex_list_tpo; apply Zcompare_tpo].
Qed.

Lemma pair_cmp_strict : strict pair_cmp.
Proof.
  apply lex_pair_strict; [apply Zcompare_strict | apply lex_list_strict; apply Zcompare_strict].
Qed.

Lemma key_cmp_tpo : tpo key_cmp.
Proof.
  pose proof (on_key_tpo key_pair pair_cmp pair_cmp_tpo) as T.
  split; intros; rewrite ?key_cmp_on_key in *.
  - apply (tpo_refl _ T).
  - apply (tpo_sym _ T).
  - eapply (tpo_lt_trans _ T); eassumption.
  - apply (tpo_eq_l _ T); assumption.
Qed.

Lemma key_cmp_eq : forall a b, key_cmp a b = Eq -> a = b.
Proof.
  intros a b H. rewrite key_cmp_on_key in H.
  apply (on_key_eq key_pair pair_cmp pair_cmp_strict) in H.
  unfold key_pair in H. congruence.
Qed.

Definition key_le (a b : entry) : Prop := key_leb (fst a) (fst b) = true.

Lemma key_leb_total : forall a b, key_leb a b = false -> key_leb b a = true.
Proof.
  intros a b H. unfold key_leb in *. rewrite (tpo_sym _ key_cmp_tpo a b).
  destruct (key_cmp a b); cbn; congruence.
Qed.

Lemma key_leb_trans : forall a b c, key_leb a b = true -> key_leb b c = true -> key_leb a c = true.
Proof.
  intros a b c H1 H2. unfold key_leb in *.
  assert (L1 : Lex.le key_cmp a b) by (unfold Lex.le; destruct (key_cmp a b); congruence).
  assert (L2 : Lex.le key_cmp b c) by (unfold Lex.le; destruct (key_cmp b c); congruence).
  pose proof (le_trans key_cmp key_cmp_tpo a b c L1 L2) as L. unfold Lex.le in L.
  destruct (key_cmp a c); congruence.
Qed.

(** ---------- insertion sort ---------- *)
Lemma insert_perm : forall e l, Permutation (e :: l) (insert_entry e l).
Proof.
  intros e l. induction l as [|x l IH]; cbn [insert_entry].
  - apply Permutation_refl.
  - destruct (key_leb (fst e) (fst x)).
    + apply Permutation_refl.
    + eapply perm_trans; [apply perm_swap|]. apply perm_skip. exact IH.
Qed.

Lemma sort_perm : forall l, Permutation l (sort_entries l).
Proof.
  induction l as [|e l IH]; cbn [sort_entries fold_right].
  - apply perm_nil.
  - eapply perm_trans; [apply perm_skip; exact IH|]. apply insert_perm.
Qed.

Lemma insert_sorted : forall e l,
  StronglySorted key_le l -> StronglySorted key_le (insert_entry e l).
Proof.
  intros e l H. induction H as [|x l Hs IH Hall]; cbn [insert_entry].
  - constructor; constructor.
  - destruct (key_leb (fst e) (fst x)) eqn:E.
    + constructor; [constructor; assumption|].
      constructor; [exact E|].
      rewrite Forall_forall in *. intros y Hy. unfold key_le in *.
      eapply key_leb_trans; [exact E | apply Hall; exact Hy].
    + constructor; [exact IH|].
      rewrite Forall_forall in *. intros y Hy.
      apply (Permutation_in _ (Permutation_sym (insert_perm e l))) in Hy.
      destruct Hy as [Hy|Hy].
      * subst. unfold key_le. apply key_leb_total. exact E.
      * apply Hall. exact Hy.
Qed.

Lemma sort_sorted : forall l, StronglySorted key_le (sort_entries l).
Proof.
  induction l as [|e l IH]; cbn [sort_entries fold_right].
  - constructor.
  - apply insert_sorted. exact IH.
Qed.

(** with distinct keys the order is strict *)
Lemma sorted_strict : forall l,
  StronglySorted key_le l -> NoDup (map fst l) -> StronglySorted key_lt l.
Proof.
  intros l H. induction H as [|x l Hs IH Hall]; intros Hnd; [constructor|].
  cbn [map] in Hnd. inversion Hnd as [|k ks Hnotin Hnd']; subst.
  constructor; [apply IH; exact Hnd'|].
  rewrite Forall_forall in *. intros y Hy. specialize (Hall y Hy).
  unfold key_le, key_leb, key_lt in *.
  destruct (key_cmp (fst x) (fst y)) eqn:E; try congruence.
  apply key_cmp_eq in E. exfalso. apply Hnotin. rewrite E. apply in_map. exact Hy.
Qed.

Lemma perm_nodup_keys : forall (l l' : list entry),
  Permutation l l' -> NoDup (map fst l) -> NoDup (map fst l').
Proof.
  intros l l' HP H. eapply Permutation_NoDup; [|exact H]. apply Permutation_map. exact HP.
Qed.

Lemma perm_forall : forall (P : entry -> Prop) l l',
  Permutation l l' -> Forall P l -> Forall P l'.
Proof.
  intros P l l' HP H. rewrite Forall_forall in *. intros x Hx. apply H.
  eapply Permutation_in; [apply Permutation_sym; exact HP | exact Hx].
Qed.

(** ---------- sizes: everything inside a record is at most as long as the record ---------- *)
Lemma flat_map_elem_len : forall {A} (f : A -> list Z) x l,
  In x l -> blen (f x) <= blen (flat_map f l).
Proof.
  intros A f x l. induction l as [|y l IH]; intros Hin; [destruct Hin|].
  cbn [flat_map]. rewrite blen_app. pose proof (blen_nonneg (f y)).
  pose proof (blen_nonneg (flat_map f l)).
  destruct Hin as [->|Hin]; [lia | specialize (IH Hin); lia].
Qed.

Lemma head_len_pos : forall m n, 1 <= blen (head m n).
Proof.
  intros m n. unfold head.
  destruct (n <? 24); [cbn; lia|]. destruct (n <? 256); [cbn; lia|].
  destruct (n <? 65536); [rewrite blen_cons; pose proof (blen_nonneg (be 2 n)); lia|].
  destruct (n <? 4294967296); rewrite blen_cons;
    [pose proof (blen_nonneg (be 4 n)) | pose proof (blen_nonneg (be 8 n))]; lia.
Qed.

Definition val_payload (v : cval) : Z :=
  match v with CBytes b => blen b | CText s => blen s | _ => 0 end.

Lemma enc_val_payload : forall v, val_payload v <= blen (enc_val v).
Proof.
  intros [b|i|n|s|b|]; cbn [val_payload enc_val]; try apply blen_nonneg.
  - rewrite blen_app. pose proof (head_len_pos 2 (blen b)). lia.
  - rewrite blen_app. pose proof (head_len_pos 3 (blen s)). lia.
Qed.

Lemma enc_entry_bounds : forall e,
  blen (fst e) <= blen (enc_entry e) /\ val_payload (snd e) <= blen (enc_entry e).
Proof.
  intros [k v]. unfold enc_entry. cbn [fst snd]. rewrite !blen_app.
  pose proof (head_len_pos 3 (blen k)). pose proof (blen_nonneg k).
  pose proof (enc_val_payload v). pose proof (blen_nonneg (enc_val v)). lia.
Qed.

Lemma enc_map_bounds : forall (l : list entry) (e : entry), In e l ->
  blen (fst e) <= blen (enc_map l) /\ val_payload (snd e) <= blen (enc_map l).
Proof.
  intros l e Hin. unfold enc_map. rewrite blen_app.
  pose proof (head_len_pos 5 (blen l)).
  pose proof (flat_map_elem_len (A:=entry) enc_entry e l Hin) as H0.
  destruct (enc_entry_bounds e) as [H1 H2]. lia.
Qed.

Lemma enc_map_count : forall l, blen l <= blen (enc_map l).
Proof.
  intros l. unfold enc_map. rewrite blen_app.
  pose proof (head_len_pos 5 (blen l)). pose proof (flat_map_enc_len l).
  pose proof (blen_nonneg l). lia.
Qed.

Lemma enc_map_nonempty : forall l, 1 <= blen (enc_map l).
Proof.
  intros l. unfold enc_map. rewrite blen_app.
  pose proof (head_len_pos 5 (blen l)). pose proof (blen_nonneg (flat_map enc_entry l)). lia.
Qed.

Lemma emit_field_bytes_len : forall n b, blen b <= blen (emit_field (n, WBytes b)).
Proof.
  intros n b. unfold emit_field. cbn [fst snd emit_val]. rewrite !blen_app.
  pose proof (blen_nonneg (enc (tag n (wtype (WBytes b))))).
  pose proof (blen_nonneg (enc (blen b))). lia.
Qed.

Lemma emit_bytes_field_le : forall fs n b, In (n, WBytes b) fs -> blen b <= blen (emit fs).
Proof.
  intros fs n b Hin. unfold emit.
  pose proof (flat_map_elem_len emit_field (n, WBytes b) fs Hin).
  pose proof (emit_field_bytes_len n b). lia.
Qed.

Lemma olen_le_size : forall r n o,
  In (n, o) [(1, p_value r); (2, p_sigv1 r); (4, p_validity r); (7, p_pubkey r);
             (8, p_sigv2 r); (9, p_data r)] ->
  olen o <= pb_size r.
Proof.
  intros r n o Hin.
  assert (HB : forall n o, olen o <= blen (emit (fbytes n o))).
  { intros n0 [b|]; cbn [fbytes].
    - unfold emit. cbn [flat_map]. rewrite app_nil_r. apply emit_field_bytes_len.
    - unfold olen. cbn. lia. }
  unfold pb_size, marshal, to_fields. rewrite !emit_app, !blen_app.
  pose proof (HB 1 (p_value r)). pose proof (HB 2 (p_sigv1 r)). pose proof (HB 4 (p_validity r)).
  pose proof (HB 7 (p_pubkey r)). pose proof (HB 8 (p_sigv2 r)). pose proof (HB 9 (p_data r)).
  pose proof (blen_nonneg (emit (fvarint 3 (p_vtype r)))).
  pose proof (blen_nonneg (emit (fvarint 5 (p_seq r)))).
  pose proof (blen_nonneg (emit (fvarint 6 (p_ttl r)))).
  pose proof (blen_nonneg (emit (p_unknown r))).
  assert (Hnn : forall o, 0 <= olen o) by (intros o0; unfold olen; apply blen_nonneg).
  pose proof (Hnn (p_value r)). pose proof (Hnn (p_sigv1 r)). pose proof (Hnn (p_validity r)).
  pose proof (Hnn (p_pubkey r)). pose proof (Hnn (p_sigv2 r)). pose proof (Hnn (p_data r)).
  cbn [In] in Hin.
  destruct Hin as [Hin|[Hin|[Hin|[Hin|[Hin|[Hin|[]]]]]]]; injection Hin as <- <-; lia.
Qed.

(** ---------- the metadata loop ---------- *)
Lemma meta_entry_ok_inv : forall k v, meta_entry_ok (k, v) = true ->
  (blen k =? 0) = false /\ existsb (bytes_eqb k) reserved_keys = false /\
  exists n, any_to_node v = NOk n /\ node_of v = Some n.
Proof.
  intros k v H. unfold meta_entry_ok in H. cbn [fst snd] in H.
  apply andb_true_iff in H. destruct H as [H H3].
  apply andb_true_iff in H. destruct H as [H1 H2].
  apply negb_true_iff in H1. apply negb_true_iff in H2.
  split; [exact H1|]. split; [exact H2|].
  unfold node_of in *. destruct (any_to_node v) as [n|e]; [|discriminate].
  exists n. split; reflexivity.
Qed.

Lemma meta_nodes_ok : forall meta, meta_ok meta ->
  exists ms, meta_nodes meta = NOk ms /\ map fst ms = map fst meta /\
             (forall k v, In (k, v) meta -> exists n, node_of v = Some n /\ In (k, n) ms) /\
             (forall k n, In (k, n) ms -> exists v, In (k, v) meta /\ node_of v = Some n).
Proof.
  induction meta as [|[k v] meta IH]; intros H.
  - exists []. cbn. repeat split; intros; contradiction.
  - inversion H as [|e l He Hl]; subst.
    destruct (meta_entry_ok_inv k v He) as (H1 & H2 & n & Hn & Hn').
    destruct (IH Hl) as (ms & Hms & Hkeys & Hin & Hin').
    exists ((k, n) :: ms). cbn [meta_nodes]. rewrite H1, H2, Hn, Hms.
    split; [reflexivity|]. split; [cbn [map fst]; rewrite Hkeys; reflexivity|]. split.
    + intros k0 v0 [E|E].
      * injection E as <- <-. exists n. split; [exact Hn' | left; reflexivity].
      * destruct (Hin k0 v0 E) as (n0 & A & B). exists n0. split; [exact A | right; exact B].
    + intros k0 n0 [E|E].
      * injection E as <- <-. exists v. split; [left; reflexivity | exact Hn'].
      * destruct (Hin' k0 n0 E) as (v0 & A & B). exists v0. split; [right; exact A | exact B].
Qed.

Lemma meta_nodes_bad : forall meta,
  Exists (fun e => meta_entry_ok e = false) meta -> exists e, meta_nodes meta = NErr e.
Proof.
  induction meta as [|[k v] meta IH]; intros H; [inversion H|].
  cbn [meta_nodes].
  destruct (blen k =? 0) eqn:E1; [eexists; reflexivity|].
  destruct (existsb (bytes_eqb k) reserved_keys) eqn:E2; [eexists; reflexivity|].
  destruct (any_to_node v) as [n|e] eqn:E3; [|eexists; reflexivity].
  inversion H as [x l Hx|x l Hx]; subst.
  - unfold meta_entry_ok, node_of in Hx. cbn [fst snd] in Hx. rewrite E1, E2, E3 in Hx. discriminate.
  - destruct (IH Hx) as [e He]. rewrite He. eexists; reflexivity.
Qed.

(** ---------- the five reserved entries ---------- *)
Definition reserved_entries (value : bytes) (seq : Z) (validity : bytes) (ttl : Z) : list entry :=
  [(kValue, CBytes value); (kValidity, CBytes validity); (kValidityType, CInt 0);
   (kSequence, CInt (to_i64 seq)); (kTTL, CInt ttl)].

Lemma reserved_keys_nodup : NoDup reserved_keys.
Proof.
  unfold reserved_keys.
  repeat (constructor; [cbn; intros H; repeat (destruct H as [H|H]; [discriminate H|]); exact H|]).
  constructor.
Qed.

Lemma not_reserved : forall k, existsb (bytes_eqb k) reserved_keys = false -> ~ In k reserved_keys.
Proof.
  intros k H Hin. assert (existsb (bytes_eqb k) reserved_keys = true).
  { apply existsb_exists. exists k. split; [exact Hin | apply bytes_eqb_refl]. }
  congruence.
Qed.

Lemma nodup_app : forall {A} (a b : list A),
  NoDup a -> NoDup b -> (forall x, In x a -> In x b -> False) -> NoDup (a ++ b).
Proof.
  intros A a b Ha Hb Hd. induction Ha as [|x a Hx Ha IH]; cbn [app]; [exact Hb|].
  constructor.
  - intros Hin. apply in_app_or in Hin. destruct Hin as [Hin|Hin]; [contradiction|].
    apply (Hd x); [left; reflexivity | exact Hin].
  - apply IH. intros y Hy. apply Hd. right. exact Hy.
Qed.

Section RoundTrip.
  Variables sk pk : Type.
  Variable pub : sk -> pk.
  Variable sign : sk -> bytes -> bytes.
  Variable parse_pk : bytes -> option pk.
  Variable marshal_pk : pk -> bytes.
  Variable verify : pk -> bytes -> bytes -> bool.
  Variable sha256 : bytes -> bytes.
  Variable fmt_time : Z -> bytes.
  Variable parse_time : bytes -> option Z.

  (** the only facts assumed about the outside world *)
  Hypothesis sign_correct : forall s m, verify (pub s) m (sign s m) = true.
  Hypothesis sign_nonempty : forall s m, sign s m <> [].
  Hypothesis pk_roundtrip : forall k, parse_pk (marshal_pk k) = Some k.

  Notation new_record := (new_record sk pk pub sign marshal_pk fmt_time).

  Notation inputs_ok := (M_C26.inputs_ok fmt_time parse_time).

  Lemma created : forall s i, meta_ok (i_meta i) -> exists rec, new_record s i = NOk rec.
  Proof.
    intros s i H. unfold M_C26.new_record, create_node.
    destruct (meta_nodes_ok _ H) as (ms & Hms & _). rewrite Hms. eexists; reflexivity.
  Qed.

  Lemma rejected : forall s i,
    Exists (fun e => meta_entry_ok e = false) (i_meta i) -> exists e, new_record s i = NErr e.
  Proof.
    intros s i H. unfold M_C26.new_record, create_node.
    destruct (meta_nodes_bad _ H) as [e He]. rewrite He. eexists; reflexivity.
  Qed.

  (** structure of a created record *)
  Lemma new_record_shape : forall s i rec, new_record s i = NOk rec ->
    exists ms,
      meta_nodes (i_meta i) = NOk ms /\
      r_node rec = sort_entries (ms ++ reserved_entries (i_value i) (i_seq i) (fmt_time (i_eol i)) (Z.max 0 (i_ttl i))) /\
      p_data (r_pb rec) = Some (enc_map (r_node rec)) /\
      p_sigv2 (r_pb rec) = Some (sign s (sig_prefix ++ enc_map (r_node rec))) /\
      p_unknown (r_pb rec) = [] /\
      p_pubkey (r_pb rec) =
        (if match i_embed i with Some b => b | None => need_embed pk marshal_pk (pub s) end
         then Some (marshal_pk (pub s)) else None) /\
      (if i_v1 i then
         p_value (r_pb rec) = Some (i_value i) /\ p_vtype (r_pb rec) = Some 0 /\
         p_validity (r_pb rec) = Some (fmt_time (i_eol i)) /\ p_seq (r_pb rec) = Some (i_seq i) /\
         p_ttl (r_pb rec) = Some (Z.max 0 (i_ttl i)) /\
         p_sigv1 (r_pb rec) = Some (sign s (i_value i ++ fmt_time (i_eol i) ++ eol_name))
       else
         p_value (r_pb rec) = None /\ p_vtype (r_pb rec) = None /\ p_validity (r_pb rec) = None /\
         p_seq (r_pb rec) = None /\ p_ttl (r_pb rec) = None /\ p_sigv1 (r_pb rec) = None).
  Proof.
    intros s i rec H. unfold M_C26.new_record, create_node in H.
    destruct (meta_nodes (i_meta i)) as [ms|e] eqn:Hms; [|discriminate].
    injection H as <-. exists ms. cbn [r_node r_pb].
    split; [reflexivity|]. split; [reflexivity|].
    destruct (i_v1 i); cbn [p_data p_sigv2 p_unknown p_pubkey p_value p_vtype p_validity p_seq p_ttl p_sigv1];
      repeat split; reflexivity.
  Qed.

  (** facts about the node of a created record *)
  Lemma node_facts : forall i ms,
    inputs_ok i -> meta_nodes (i_meta i) = NOk ms ->
    let res := reserved_entries (i_value i) (i_seq i) (fmt_time (i_eol i)) (Z.max 0 (i_ttl i)) in
    let node := sort_entries (ms ++ res) in
    NoDup (map fst node) /\ Permutation (ms ++ res) node /\
    (forall e, In e res -> In e node) /\
    (forall k v, In (k, v) (i_meta i) -> exists n, node_of v = Some n /\ In (k, n) node) /\
    (forall e, In e node -> In e res \/ exists v, In (fst e, v) (i_meta i) /\ node_of v = Some (snd e)).
  Proof.
    intros i ms (Hseq & Httl & Htime & Hmeta & Hnd & Hints) Hms res node.
    destruct (meta_nodes_ok _ Hmeta) as (ms' & Hms' & Hkeys & Hin & Hin').
    rewrite Hms in Hms'. injection Hms' as <-.
    assert (HP : Permutation (ms ++ res) node) by apply sort_perm.
    assert (Hnd0 : NoDup (map fst (ms ++ res))).
    { rewrite map_app. apply nodup_app.
      - pose proof Hnd as Hnd2. rewrite <- Hkeys in Hnd2. exact Hnd2.
      - apply reserved_keys_nodup.
      - intros k Hk Hr.
        assert (Hk2 : In k (map fst (i_meta i))) by (rewrite <- Hkeys; exact Hk).
        clear Hk. rename Hk2 into Hk.
        apply in_map_iff in Hk. destruct Hk as ([k' v] & E & Hk). cbn in E. subst k'.
        unfold meta_ok in Hmeta. rewrite Forall_forall in Hmeta. specialize (Hmeta _ Hk).
        destruct (meta_entry_ok_inv k v Hmeta) as (_ & H2 & _).
        apply (not_reserved k H2). exact Hr. }
    split; [eapply perm_nodup_keys; eassumption|]. split; [exact HP|]. split.
    - intros e He. eapply Permutation_in; [exact HP|]. apply in_or_app. right. exact He.
    - split.
      + intros k v Hk. destruct (Hin k v Hk) as (n & A & B). exists n. split; [exact A|].
        eapply Permutation_in; [exact HP|]. apply in_or_app. left. exact B.
      + intros e He. apply (Permutation_in _ (Permutation_sym HP)) in He.
        apply in_app_or in He. destruct He as [He|He]; [right | left; exact He].
        destruct e as [k n]. destruct (Hin' k n He) as (v & A & B). exists v. split; assumption.
  Qed.

  Lemma max_lt_two64 : max_record_size < two64.
  Proof. unfold max_record_size, two64. lia. Qed.

  Lemma node_of_int : forall v n, node_of v = Some (CInt n) -> v = MInt n.
  Proof. intros [s0|b|i0|b| |] n H; cbn in H; try discriminate; congruence. Qed.

  Lemma node_of_not_big : forall v n, node_of v <> Some (CBig n).
  Proof. intros [s0|b|i0|b| |] n H; cbn in H; discriminate. Qed.

  Lemma node_of_not_other : forall v, node_of v <> Some COther.
  Proof. intros [s0|b|i0|b| |] H; cbn in H; discriminate. Qed.

  (** every entry of a created node can be encoded, if the node's encoding is small *)
  Lemma node_wf : forall i ms,
    inputs_ok i -> meta_nodes (i_meta i) = NOk ms ->
    let node := sort_entries (ms ++ reserved_entries (i_value i) (i_seq i) (fmt_time (i_eol i)) (Z.max 0 (i_ttl i))) in
    blen (enc_map node) < two64 ->
    Forall wf_entry node /\ blen node < two64.
  Proof.
    intros i ms Hok Hms node Hsize.
    destruct (node_facts i ms Hok Hms) as (Hnd & HP & Hres & Hmeta & Hsplit).
    fold node in Hnd, HP, Hres, Hmeta, Hsplit.
    destruct Hok as (Hseq & Httl & Htime & Hmok & Hndm & Hints).
    split; [|pose proof (enc_map_count node); lia].
    rewrite Forall_forall. intros e He.
    destruct (enc_map_bounds node e He) as [Hk Hv].
    split; [lia|].
    destruct (Hsplit e He) as [Hr|(v & Hv1 & Hv2)].
    - unfold reserved_entries in Hr. cbn [In] in Hr.
      destruct Hr as [<-|[<-|[<-|[<-|[<-|[]]]]]]; cbn [snd wf_val val_payload] in *; try lia;
        try apply to_i64_range; unfold two63 in *; lia.
    - destruct e as [k n]. cbn [fst snd] in *.
      destruct n as [b|n|n|s0|b|]; cbn [wf_val val_payload] in *; try lia; try exact I.
      + apply node_of_int in Hv2. subst v. eapply Hints. exact Hv1.
      + exfalso. eapply node_of_not_big. exact Hv2.
      + exfalso. eapply node_of_not_other. exact Hv2.
  Qed.

  (** C26_roundtrip, part 1: the marshalled record unmarshals to the very same record *)
  Theorem unmarshal_created : forall s i rec,
    inputs_ok i -> new_record s i = NOk rec ->
    pb_size (r_pb rec) <= max_record_size ->
    unmarshal_record (marshal (r_pb rec)) = Ok rec.
  Proof.
    intros s i rec Hok Hnew Hsize.
    destruct (new_record_shape s i rec Hnew) as (ms & Hms & Hnode & Hdata & Hs2 & Hunk & Hpk & Hv1).
    pose proof max_lt_two64 as Hmax.
    assert (Holen : forall n o, In (n, o) [(1, p_value (r_pb rec)); (2, p_sigv1 (r_pb rec)); (4, p_validity (r_pb rec));
                                         (7, p_pubkey (r_pb rec)); (8, p_sigv2 (r_pb rec)); (9, p_data (r_pb rec))] ->
                                 olen o < two64).
    { intros n o Hin. pose proof (olen_le_size _ n o Hin). lia. }
    assert (Hdlen : blen (enc_map (r_node rec)) < two64).
    { pose proof (Holen 9 (p_data (r_pb rec))) as H9. rewrite Hdata in H9.
      unfold olen, oget in H9. apply H9. cbn. auto 10. }
    rewrite Hnode in Hdlen.
    destruct (node_wf i ms Hok Hms Hdlen) as [Hwf Hcnt].
    destruct (node_facts i ms Hok Hms) as (Hnd & _).
    rewrite <- Hnode in Hwf, Hcnt, Hnd.
    unfold unmarshal_record.
    assert (Hsz : (max_record_size <? blen (marshal (r_pb rec))) = false).
    { apply Z.ltb_ge. exact Hsize. }
    rewrite Hsz.
    destruct Hok as (Hseq & Httl & _).
    rewrite unmarshal_marshal.
    - rewrite Hdata. unfold olen, oget.
      pose proof (enc_map_nonempty (r_node rec)).
      destruct (Z.eqb_spec (blen (enc_map (r_node rec))) 0); [lia|].
      rewrite dec_map_enc_map by assumption.
      destruct rec; reflexivity.
    - pose proof (Holen 1 (p_value (r_pb rec)) ltac:(cbn; auto 10)) as L1.
      pose proof (Holen 2 (p_sigv1 (r_pb rec)) ltac:(cbn; auto 10)) as L2.
      pose proof (Holen 4 (p_validity (r_pb rec)) ltac:(cbn; auto 10)) as L4.
      pose proof (Holen 7 (p_pubkey (r_pb rec)) ltac:(cbn; auto 10)) as L7.
      pose proof (Holen 8 (p_sigv2 (r_pb rec)) ltac:(cbn; auto 10)) as L8.
      pose proof (Holen 9 (p_data (r_pb rec)) ltac:(cbn; auto 10)) as L9.
      unfold wf_pb.
      do 6 (split; [assumption|]).
      destruct (i_v1 i); destruct Hv1 as (E1 & E2 & E3 & E4 & E5 & E6); rewrite E2, E4, E5.
      + split; [|split; [|split; [|exact Hunk]]]; intros x Hx; injection Hx as <-;
          unfold two31, two63, two64 in *; lia.
      + split; [|split; [|split; [|exact Hunk]]]; intros x Hx; discriminate.
  Qed.

  (** C26_roundtrip, part 2: the accessors return the inputs *)
  Theorem accessors_created : forall s i rec,
    inputs_ok i -> new_record s i = NOk rec ->
    acc_value rec = Some (i_value i) /\
    acc_sequence rec = Some (i_seq i) /\
    acc_validity parse_time rec = Ok (i_eol i) /\
    acc_ttl rec = Some (Z.max 0 (i_ttl i)) /\
    (forall k v, In (k, v) (i_meta i) -> acc_metadata k rec = node_of v) /\
    (forall k, In k reserved_keys -> acc_metadata k rec = None) /\
    (forall k, ~ In k (map fst (i_meta i)) -> acc_metadata k rec = None).
  Proof.
    intros s i rec Hok Hnew.
    destruct (new_record_shape s i rec Hnew) as (ms & Hms & Hnode & _).
    destruct (node_facts i ms Hok Hms) as (Hnd & HP & Hres & Hmeta & Hsplit).
    rewrite <- Hnode in Hnd, HP, Hres, Hmeta, Hsplit.
    destruct Hok as (Hseq & Httl & Htime & Hmok & Hndm & Hints).
    assert (L : forall k v, In (k, v) (reserved_entries (i_value i) (i_seq i) (fmt_time (i_eol i)) (Z.max 0 (i_ttl i))) ->
                        lookup k (r_node rec) = Some v).
    { intros k v Hin. apply lookup_in; [exact Hnd | apply Hres; exact Hin]. }
    unfold acc_value, acc_sequence, acc_validity, acc_validity_type, acc_ttl, get_bytes, get_int.
    rewrite (L kValue (CBytes (i_value i))) by (cbn; auto).
    rewrite (L kSequence (CInt (to_i64 (i_seq i)))) by (cbn; auto 10).
    rewrite (L kValidityType (CInt 0)) by (cbn; auto 10).
    rewrite (L kValidity (CBytes (fmt_time (i_eol i)))) by (cbn; auto 10).
    rewrite (L kTTL (CInt (Z.max 0 (i_ttl i)))) by (cbn; auto 10).
    cbn [option_map Z.eqb]. rewrite Htime. rewrite to_u64_to_i64 by exact Hseq.
    repeat split; try reflexivity.
    - intros k v Hin. unfold acc_metadata.
      unfold meta_ok in Hmok. rewrite Forall_forall in Hmok.
      destruct (meta_entry_ok_inv k v (Hmok _ Hin)) as (_ & H2 & _). rewrite H2.
      destruct (Hmeta k v Hin) as (n & Hn & Hinn). rewrite Hn.
      apply lookup_in; assumption.
    - intros k Hk. unfold acc_metadata.
      assert (E : existsb (bytes_eqb k) reserved_keys = true).
      { apply existsb_exists. exists k. split; [exact Hk | apply bytes_eqb_refl]. }
      rewrite E. reflexivity.
    - intros k Hk. unfold acc_metadata.
      destruct (existsb (bytes_eqb k) reserved_keys) eqn:E; [reflexivity|].
      apply lookup_none. intros Hin. apply in_map_iff in Hin.
      destruct Hin as (e & Ee & Hin). destruct (Hsplit e Hin) as [Hr|(v & Hv & _)].
      + apply (not_reserved k E). subst k. unfold reserved_entries in Hr. cbn [In] in Hr.
        destruct Hr as [<-|[<-|[<-|[<-|[<-|[]]]]]]; cbn; auto 10.
      + apply Hk. subst k. apply in_map_iff. exists (fst e, v). split; [reflexivity | exact Hv].
  Qed.

  Notation validate := (Ipns.validate pk verify parse_time).
  Notation extract_pk := (Ipns.extract_pk pk parse_pk marshal_pk sha256).
  Notation pid_of := (Ipns.pid_of pk marshal_pk sha256).
  Notation validate_with_name := (Ipns.validate_with_name pk parse_pk marshal_pk verify sha256 parse_time).
  Notation validator_validate := (Ipns.validator_validate pk parse_pk marshal_pk verify sha256 parse_time).

  Lemma created_lookups : forall s i rec, inputs_ok i -> new_record s i = NOk rec ->
    lookup kValue (r_node rec) = Some (CBytes (i_value i)) /\
    lookup kValidity (r_node rec) = Some (CBytes (fmt_time (i_eol i))) /\
    lookup kValidityType (r_node rec) = Some (CInt 0) /\
    lookup kSequence (r_node rec) = Some (CInt (to_i64 (i_seq i))) /\
    lookup kTTL (r_node rec) = Some (CInt (Z.max 0 (i_ttl i))).
  Proof.
    intros s i rec Hok Hnew.
    destruct (new_record_shape s i rec Hnew) as (ms & Hms & Hnode & _).
    destruct (node_facts i ms Hok Hms) as (Hnd & _ & Hres & _).
    rewrite <- Hnode in Hnd, Hres.
    repeat split; (apply lookup_in; [exact Hnd | apply Hres; cbn; auto 10]).
  Qed.

  Lemma name_eqb_refl : forall n, name_eqb n n = true.
  Proof. intros [d|h]; cbn; apply bytes_eqb_refl. Qed.

  Lemma olen_nonempty : forall b, b <> [] -> (olen (Some b) =? 0) = false.
  Proof.
    intros b H. unfold olen, oget. destruct b; [congruence|].
    rewrite blen_cons. pose proof (blen_nonneg b). apply Z.eqb_neq. lia.
  Qed.

  (** C26_validates, part 1: Validate(rec, pk) accepts a created record up to its expiry *)
  Theorem validate_created : forall s i rec now,
    inputs_ok i -> new_record s i = NOk rec ->
    pb_size (r_pb rec) <= max_record_size -> now <= i_eol i ->
    validate now rec (pub s) = Ok tt.
  Proof.
    intros s i rec now Hok Hnew Hsize Hnow.
    destruct (created_lookups s i rec Hok Hnew) as (Lv & Lvl & Lvt & Ls & Lt).
    destruct (new_record_shape s i rec Hnew) as (ms & Hms & Hnode & Hdata & Hs2 & Hunk & Hpk & Hv1).
    destruct Hok as (Hseq & Httl & Htime & _).
    unfold Ipns.validate.
    assert (Hsz : (max_record_size <? pb_size (r_pb rec)) = false) by (apply Z.ltb_ge; exact Hsize).
    rewrite Hsz, Hs2, Hdata.
    rewrite olen_nonempty by apply sign_nonempty.
    assert (Hd : (olen (Some (enc_map (r_node rec))) =? 0) = false).
    { unfold olen, oget. pose proof (enc_map_nonempty (r_node rec)). apply Z.eqb_neq. lia. }
    rewrite Hd. cbn [oget]. rewrite sign_correct. cbn [negb].
    assert (Hmax : 0 <= Z.max 0 (i_ttl i) < two64) by (unfold two63, two64 in *; lia).
    assert (Hmatch : ((negb (olen (p_sigv1 (r_pb rec)) =? 0) || negb (olen (p_value (r_pb rec)) =? 0)) &&
                      negb (match_pb rec)) = false).
    { destruct (i_v1 i); destruct Hv1 as (E1 & E2 & E3 & E4 & E5 & E6).
      - assert (M : match_pb rec = true).
        { unfold match_pb, get_bytes, get_int. rewrite Lv, Lvl, Lvt, Ls, Lt.
          rewrite E1, E2, E3, E4, E5. cbn [oget ozget].
          rewrite !bytes_eqb_refl. rewrite to_u64_to_i64 by exact Hseq.
          rewrite (to_u64_nonneg _ Hmax). rewrite !Z.eqb_refl. reflexivity. }
        rewrite M. apply andb_false_r.
      - rewrite E1, E6. reflexivity. }
    rewrite Hmatch.
    unfold acc_validity, acc_validity_type, acc_ttl, get_bytes, get_int.
    rewrite Lvt, Lvl, Lt. cbn [Z.eqb]. rewrite Htime.
    assert (Hn : (i_eol i <? now) = false) by (apply Z.ltb_ge; exact Hnow). rewrite Hn.
    assert (Ht : (Z.max 0 (i_ttl i) <? 0) = false) by (apply Z.ltb_ge; lia). rewrite Ht.
    reflexivity.
  Qed.

  Notation key_recoverable := (M_C26.key_recoverable sk pk pub marshal_pk).

  Lemma extract_created : forall s i rec,
    new_record s i = NOk rec ->
    extract_pk rec (pid_of (pub s)) =
      if key_recoverable s i then Ok (pub s) else Err ENoPk.
  Proof.
    intros s i rec Hnew.
    destruct (new_record_shape s i rec Hnew) as (ms & _ & _ & _ & _ & _ & Hpk & _).
    unfold Ipns.extract_pk, M_C26.key_recoverable. rewrite Hpk.
    set (emb := match i_embed i with Some b => b | None => need_embed pk marshal_pk (pub s) end).
    unfold Ipns.pid_of.
    destruct emb; cbn [orb].
    - destruct (olen (Some (marshal_pk (pub s))) =? 0) eqn:E0.
      + (* an empty marshalled key: treated as absent, but then it is inlined in the name *)
        unfold olen, oget in E0. apply Z.eqb_eq in E0.
        destruct (Z.leb_spec (blen (marshal_pk (pub s))) 42); [|lia].
        rewrite pk_roundtrip. reflexivity.
      + cbn [oget]. rewrite pk_roundtrip. rewrite name_eqb_refl. reflexivity.
    - change (olen None =? 0) with true. cbn iota.
      destruct (blen (marshal_pk (pub s)) <=? 42); [rewrite pk_roundtrip|]; reflexivity.
  Qed.

  (** C26_validates, part 2: against its name *)
  Theorem validate_with_name_created : forall s i rec now,
    inputs_ok i -> new_record s i = NOk rec ->
    pb_size (r_pb rec) <= max_record_size -> now <= i_eol i ->
    validate_with_name now rec (pid_of (pub s)) =
      if key_recoverable s i then Ok tt else Err ENoPk.
  Proof.
    intros s i rec now Hok Hnew Hsize Hnow. unfold Ipns.validate_with_name.
    rewrite (extract_created s i rec Hnew).
    destruct (key_recoverable s i); [|reflexivity].
    apply validate_created with (i := i); assumption.
  Qed.

  Theorem validator_validate_created : forall s i rec now,
    inputs_ok i -> new_record s i = NOk rec ->
    pb_size (r_pb rec) <= max_record_size -> now <= i_eol i ->
    validator_validate now (pid_of (pub s)) (marshal (r_pb rec)) =
      if key_recoverable s i then Ok tt else Err EPkNotFound.
  Proof.
    intros s i rec now Hok Hnew Hsize Hnow. unfold Ipns.validator_validate.
    rewrite (unmarshal_created s i rec Hok Hnew Hsize).
    rewrite (extract_created s i rec Hnew).
    destruct (key_recoverable s i); [|reflexivity].
    apply validate_created with (i := i); assumption.
  Qed.
End RoundTrip.

(** C26_cbor_canonical: the node of a created record is strictly sorted by
    (key length, key bytes) — the DAG-CBOR canonical map order — and the signed
    Data is exactly its encoding, which decodes back to it. *)
Theorem canonical_created :
  forall (sk pk : Type) (pub : sk -> pk) (sign : sk -> bytes -> bytes) (marshal_pk : pk -> bytes)
         (fmt_time : Z -> bytes) (parse_time : bytes -> option Z) s i rec,
  M_C26.inputs_ok fmt_time parse_time i ->
  new_record sk pk pub sign marshal_pk fmt_time s i = NOk rec ->
  StronglySorted key_lt (r_node rec) /\
  p_data (r_pb rec) = Some (enc_map (r_node rec)) /\
  (blen (enc_map (r_node rec)) < two64 -> dec_map (enc_map (r_node rec)) = Some (r_node rec)).
Proof.
  intros sk pk pub sign marshal_pk fmt_time parse_time s i rec Hok Hnew.
  destruct (new_record_shape sk pk pub sign marshal_pk fmt_time s i rec Hnew)
    as (ms & Hms & Hnode & Hdata & _).
  destruct (node_facts fmt_time parse_time i ms Hok Hms) as (Hnd & _).
  split.
  - rewrite Hnode. apply sorted_strict; [apply sort_sorted | exact Hnd].
  - split; [exact Hdata|]. intros Hlen. rewrite Hnode in *.
    destruct (node_wf fmt_time parse_time i ms Hok Hms Hlen) as [Hwf Hcnt].
    apply dec_map_enc_map; assumption.
Qed.


Lemma seq_reinterpretation : forall u, 0 <= u < two64 ->
  - two63 <= to_i64 u < two63 /\ to_u64 (to_i64 u) = u.
Proof. intros u H. split; [apply to_i64_range | apply to_u64_to_i64; exact H]. Qed.

(** above the limit nothing unmarshals (so nothing passes Validator.Validate) *)
Lemma oversize_rejected : forall bs, max_record_size < blen bs -> unmarshal_record bs = Err ERecordSize.
Proof.
  intros bs H. unfold unmarshal_record.
  destruct (Z.ltb_spec max_record_size (blen bs)); [reflexivity | lia].
Qed.
