(** C04 — proofs.  See props/Props_C04.v for the statements. *)
From Coq Require Import List ZArith Bool NArith Lia.
From V Require Import lib.Verdict lib.BlockSvc model.M_C04.
Import ListNotations.
Open Scope Z_scope.

(** ---------- the translated default allowlist equals the table ---------- *)
From V Require Import gen.Gen_C04.

Ltac eqb_cases :=
  repeat match goal with
         | |- context [Z.eqb ?a ?b] =>
             destruct (Z.eqb_spec a b) as [?E | ?E]; [subst; vm_compute; reflexivity |]
         end.

Lemma gen_is_allowed : forall code, defaultAllowlist_IsAllowed code = default_is_allowed code.
Proof.
  intros code. unfold defaultAllowlist_IsAllowed, default_is_allowed, zin, default_allowed_codes.
  cbv [existsb SHA2_256 SHA2_512 SHAKE_256 DBL_SHA2_256 BLAKE3 IDENTITY SHA3_224 SHA3_256 SHA3_384 SHA3_512
       KECCAK_224 KECCAK_256 KECCAK_384 KECCAK_512 SHA1 BLAKE2B_MIN BLAKE2B_MAX BLAKE2S_MIN BLAKE2S_MAX].
  eqb_cases. cbn [orb].
  replace (45569 + 19) with 45588 by reflexivity. replace (45633 + 19) with 45652 by reflexivity.
  reflexivity.
Qed.

Lemma gen_min : forall code, defaultAllowlist_MinDigestSize code = default_min code.
Proof. intros code. unfold defaultAllowlist_MinDigestSize, default_min, IDENTITY. reflexivity. Qed.

Lemma gen_max : forall code, defaultAllowlist_MaxDigestSize code = default_max code.
Proof.
  intros code. unfold defaultAllowlist_MaxDigestSize, default_max.
  destruct (Z.eqb code 0); reflexivity.
Qed.

Lemma is_allowed_sp : forall al code, is_allowed al code = sp_allowed al code.
Proof.
  fix IH 1. intros [| l mn mx | [o |] m] code; cbn [is_allowed sp_allowed].
  - apply gen_is_allowed.
  - reflexivity.
  - destruct (assoc code m); [reflexivity | apply IH].
  - reflexivity.
Qed.
Lemma min_digest_sp : forall al code, min_digest al code = sp_min al code.
Proof.
  fix IH 1. intros [| l mn mx | [o |] m] code; cbn [min_digest sp_min];
    [apply gen_min | reflexivity | apply IH | apply gen_min].
Qed.
Lemma max_digest_sp : forall al code, max_digest al code = sp_max al code.
Proof.
  fix IH 1. intros [| l mn mx | [o |] m] code; cbn [max_digest sp_max];
    [apply gen_max | reflexivity | apply IH | apply gen_max].
Qed.

(** ---------- the validator ---------- *)

Lemma validate_ok_iff : forall al code len,
  validate al code len = EOk <->
  sp_allowed al code = true /\ sp_min al code <= len <= sp_max al code.
Proof.
  intros al code len. unfold validate. rewrite is_allowed_sp, min_digest_sp, max_digest_sp.
  destruct (sp_allowed al code) eqn:Ha; cbn [negb].
  - destruct (len <? sp_min al code) eqn:Hmin.
    + apply Z.ltb_lt in Hmin. split; [discriminate | intros [_ H]; lia].
    + apply Z.ltb_ge in Hmin.
      destruct (sp_max al code <? len) eqn:Hmax.
      * apply Z.ltb_lt in Hmax. split; [discriminate | intros [_ H]; lia].
      * apply Z.ltb_ge in Hmax. split; [intros _; split; [reflexivity | lia] | reflexivity].
  - split; [discriminate | intros [H _]; discriminate].
Qed.

Lemma validate_vok_spec : forall al code len, vok (validate al code len) = valid_spec al code len.
Proof.
  intros al code len. unfold validate, valid_spec. rewrite is_allowed_sp, min_digest_sp, max_digest_sp.
  destruct (sp_allowed al code); cbn [negb andb vok]; [| reflexivity].
  destruct (len <? sp_min al code) eqn:Hmin; cbn [vok].
  - apply Z.ltb_lt in Hmin. assert (H : (sp_min al code <=? len) = false) by (apply Z.leb_gt; lia).
    rewrite H. reflexivity.
  - apply Z.ltb_ge in Hmin. assert (H : (sp_min al code <=? len) = true) by (apply Z.leb_le; lia).
    rewrite H. cbn [andb].
    destruct (sp_max al code <? len) eqn:Hmax; cbn [vok].
    + apply Z.ltb_lt in Hmax. symmetry. apply Z.leb_gt. lia.
    + apply Z.ltb_ge in Hmax. symmetry. apply Z.leb_le. lia.
Qed.

(** error classes: which rejection is reported *)
Lemma validate_classes : forall al code len,
  (validate al code len = EInsecure <-> sp_allowed al code = false) /\
  (validate al code len = ETooSmall <-> sp_allowed al code = true /\ len < sp_min al code) /\
  (validate al code len = ETooLarge <->
     sp_allowed al code = true /\ sp_min al code <= len /\ sp_max al code < len).
Proof.
  intros al code len. unfold validate. rewrite is_allowed_sp, min_digest_sp, max_digest_sp.
  destruct (sp_allowed al code); cbn [negb].
  - destruct (len <? sp_min al code) eqn:Hmin;
      [apply Z.ltb_lt in Hmin | apply Z.ltb_ge in Hmin].
    + split; [split; discriminate |]. split.
      * split; [intros _; split; [reflexivity | exact Hmin] | reflexivity].
      * split; [discriminate | intros [_ [H _]]; lia].
    + destruct (sp_max al code <? len) eqn:Hmax;
        [apply Z.ltb_lt in Hmax | apply Z.ltb_ge in Hmax].
      * split; [split; discriminate |]. split.
        -- split; [discriminate | intros [_ H]; lia].
        -- split; [intros _; repeat split; assumption | reflexivity].
      * split; [split; discriminate |]. split.
        -- split; [discriminate | intros [_ H]; lia].
        -- split; [discriminate | intros [_ [_ H]]; lia].
  - split; [split; reflexivity |]. split; (split; [discriminate | intros [H _]; discriminate]).
Qed.

(** the default allowlist as an explicit table: 15 listed codes and two BLAKE2 ranges
    (blake2b-160 .. blake2b-512 = 0xb214..0xb240, blake2s-160 .. blake2s-256 = 0xb254..0xb260) *)
Lemma zin_In : forall x l, zin x l = true <-> In x l.
Proof.
  intros x l. unfold zin. rewrite existsb_exists. split.
  - intros [y [Hy He]]. apply Z.eqb_eq in He. subst. exact Hy.
  - intros H. exists x. split; [exact H | apply Z.eqb_refl].
Qed.

Lemma default_table_hand : forall code,
  default_is_allowed code = true <->
  In code [0x12; 0x13; 0x19; 0x56; 0x1e; 0x00; 0x17; 0x16; 0x15; 0x14; 0x1a; 0x1b; 0x1c; 0x1d; 0x11]
  \/ 0xb214 <= code <= 0xb240 \/ 0xb254 <= code <= 0xb260.
Proof.
  intros code. unfold default_is_allowed.
  destruct (zin code default_allowed_codes) eqn:Hin.
  - apply zin_In in Hin. split; [intros _; left; exact Hin | reflexivity].
  - assert (Hn : ~ In code default_allowed_codes)
      by (intro H; apply zin_In in H; rewrite H in Hin; discriminate).
    unfold BLAKE2B_MIN, BLAKE2B_MAX, BLAKE2S_MIN, BLAKE2S_MAX.
    destruct ((45569 + 19 <=? code) && (code <=? 45632)) eqn:Hb.
    + apply andb_true_iff in Hb. destruct Hb as [H1 H2]. apply Z.leb_le in H1. apply Z.leb_le in H2.
      split; [intros _; right; left; lia | reflexivity].
    + destruct ((45633 + 19 <=? code) && (code <=? 45664)) eqn:Hs.
      * apply andb_true_iff in Hs. destruct Hs as [H1 H2]. apply Z.leb_le in H1. apply Z.leb_le in H2.
        split; [intros _; right; right; lia | reflexivity].
      * split; [discriminate |].
        apply andb_false_iff in Hb. apply andb_false_iff in Hs.
        intros [H | [H | H]].
        -- contradiction.
        -- destruct Hb as [Hb | Hb]; apply Z.leb_gt in Hb; lia.
        -- destruct Hs as [Hs | Hs]; apply Z.leb_gt in Hs; lia.
Qed.

(** ... stated about the function translated from Go *)
Lemma default_table : forall code,
  defaultAllowlist_IsAllowed code = true <->
  In code [0x12; 0x13; 0x19; 0x56; 0x1e; 0x00; 0x17; 0x16; 0x15; 0x14; 0x1a; 0x1b; 0x1c; 0x1d; 0x11]
  \/ 0xb214 <= code <= 0xb240 \/ 0xb254 <= code <= 0xb260.
Proof. intros code. rewrite gen_is_allowed. apply default_table_hand. Qed.

Lemma default_sizes_translated : forall code,
  defaultAllowlist_MinDigestSize code = (if code =? 0 then 0 else 20) /\
  defaultAllowlist_MaxDigestSize code = 128.
Proof. intros code. rewrite gen_min, gen_max. split; reflexivity. Qed.

(** identity: exempt from the minimum, capped at 128; every other default-allowed hash: 20..128 *)
Lemma identity_exempt_capped : forall len,
  validate ADefault 0 len = EOk <-> 0 <= len <= 128.
Proof.
  intros len. rewrite validate_ok_iff. cbn [sp_allowed sp_min sp_max].
  unfold default_min, default_max, IDENTITY. cbn [Z.eqb].
  split; [intros [_ H]; exact H | intros H; split; [reflexivity | exact H]].
Qed.

Lemma default_sizes : forall code len, code <> 0 ->
  (validate ADefault code len = EOk <-> defaultAllowlist_IsAllowed code = true /\ 20 <= len <= 128).
Proof.
  intros code len Hc. rewrite validate_ok_iff, gen_is_allowed. cbn [sp_allowed sp_min sp_max].
  unfold default_min, default_max, IDENTITY.
  destruct (code =? 0) eqn:E; [apply Z.eqb_eq in E; contradiction |]. tauto.
Qed.

(** overriding allowlists: the allowset decides where it has an entry, the override elsewhere;
    sizes always come from the override (or the default) *)
Lemma custom_lookup : forall ov m code,
  sp_allowed (ACustom ov m) code =
  match assoc code m with
  | Some g => g
  | None => match ov with Some o => sp_allowed o code | None => false end
  end.
Proof. reflexivity. Qed.

(** ---------- getBlocks' key filter ---------- *)
Section Filter.
Variable validate : Z -> Z -> verr.
Notation cvalid := (cvalid validate).

Lemma scan_spec : forall ks i,
  exists n, scan validate i ks = (i + n)%nat /\ (n <= length ks)%nat /\
            forallb cvalid (firstn n ks) = true /\
            (n = length ks -> ks = []).
Proof.
  induction ks as [| c r IH]; intros i.
  - exists 0%nat. cbn [scan length firstn forallb]. split; [lia |]. split; [lia |]. split; reflexivity.
  - cbn [scan]. destruct (cvalid c) eqn:Hc.
    + destruct r as [| c2 r2].
      * exists 0%nat. cbn [length firstn forallb]. split; [lia |]. split; [lia |].
        split; [reflexivity | intros H; discriminate H].
      * destruct (IH (S i)) as [n [Hn [Hle [Hall Hlen]]]].
        exists (S n). split; [rewrite Hn; lia |]. split; [cbn [length] in *; lia |].
        split; [cbn [firstn forallb]; rewrite Hc; exact Hall |].
        intros H. cbn [length] in H. injection H as H. specialize (Hlen H). discriminate Hlen.
    + exists 0%nat. cbn [length firstn forallb]. split; [lia |]. split; [lia |].
      split; [reflexivity | intros H; discriminate H].
Qed.

Lemma filter_all_true : forall (l : list cid), forallb cvalid l = true -> filter cvalid l = l.
Proof.
  induction l as [| a l IH]; cbn; [reflexivity |].
  intros H. apply andb_true_iff in H. destruct H as [Ha Hl]. rewrite Ha, (IH Hl). reflexivity.
Qed.

Lemma filter_keys_spec : forall ks, filter_keys validate ks = filter cvalid ks.
Proof.
  intros ks. unfold filter_keys.
  destruct (scan_spec ks 0) as [n [Hn [Hle [Hall Hlen]]]]. cbn [Nat.add] in Hn. rewrite Hn.
  destruct (Nat.eqb n (length ks)) eqn:E.
  - apply Nat.eqb_eq in E. rewrite (Hlen E). reflexivity.
  - rewrite <- (firstn_skipn n ks) at 3. rewrite filter_app, (filter_all_true _ Hall). reflexivity.
Qed.
End Filter.

(** ---------- the block service never stores / fetches / returns a rejected CID ---------- *)
Section Clean.
Variable al : alist.
Variable checkfirst : bool.
Variable ex : exkind.
Variable fl : flags.
Hypothesis Hfl : trust_cid fl = false.

Notation V := (validate al).
Notation okc := (cid_ok al).

Lemma cvalid_ok : forall c, cvalid V c = okc c.
Proof. intros c. unfold cvalid, cid_ok. apply validate_vok_spec. Qed.

Lemma cverr_ok : forall c, cverr V c = EOk -> okc c = true.
Proof. intros c H. rewrite <- cvalid_ok. unfold cvalid. unfold cverr in H. rewrite H. reflexivity. Qed.

Lemma mh_ok_of : forall c, mh_ok al (mh_of c) = okc c.
Proof. intros c. reflexivity. Qed.

Lemma clean_put : forall s b, store_clean al s = true -> okc (b_cid b) = true ->
  store_clean al (put s b) = true.
Proof.
  intros s b Hs Hb. unfold put. destruct (has s (bmh b)); [exact Hs |].
  cbn [store_clean forallb fst]. unfold bmh. rewrite mh_ok_of, Hb. exact Hs.
Qed.

Lemma clean_put_many : forall bs s, store_clean al s = true ->
  forallb (fun b => okc (b_cid b)) bs = true -> store_clean al (put_many s bs) = true.
Proof.
  unfold put_many. induction bs as [| b r IH]; intros s Hs Hb; cbn [fold_left]; [exact Hs |].
  cbn [forallb] in Hb. apply andb_true_iff in Hb. destruct Hb as [Hb Hr].
  apply IH; [apply clean_put; assumption | exact Hr].
Qed.

Lemma clean_del : forall s m, store_clean al s = true -> store_clean al (del s m) = true.
Proof.
  intros s m Hs. unfold del, store_clean in *. rewrite forallb_forall in *.
  intros e He. apply filter_In in He. destruct He as [He _]. exact (Hs e He).
Qed.

Lemma all_app : forall (l1 l2 : list ev), forallb (ev_clean al) (l1 ++ l2) =
  forallb (ev_clean al) l1 && forallb (ev_clean al) l2.
Proof. intros. apply forallb_app. Qed.

Lemma fetcher_clean : forall p, forallb (ev_clean al) (fst (fetcher ex p)) = true.
Proof. intros p. unfold fetcher. destruct ex; [reflexivity | reflexivity | destruct p; reflexivity]. Qed.

Definition triple_clean (o : op) (r : store * list ev * out) : Prop :=
  let '(s', evs, res) := r in step_clean al o evs res s' = true.

Lemma accept_in : forall wanted b, accept fl wanted b = true -> cid_in (b_cid b) wanted = true.
Proof.
  intros wanted b H. unfold accept in H. rewrite Hfl in H. cbn [orb] in H.
  apply andb_true_iff in H. tauto.
Qed.

Lemma cid_eqb_ok : forall a b, cid_eqb a b = true -> okc a = okc b.
Proof.
  intros a b H. unfold cid_eqb in H. repeat (apply andb_true_iff in H; destruct H as [H ?]).
  unfold mh_eqb, mh_of in *.
  repeat match goal with Hx : (_ && _) = true |- _ => apply andb_true_iff in Hx; destruct Hx end.
  unfold cid_ok.
  repeat match goal with Hx : (_ =? _) = true |- _ => apply Z.eqb_eq in Hx end.
  congruence.
Qed.

Lemma cid_in_ok : forall c l, cid_in c l = true -> forallb okc l = true -> okc c = true.
Proof.
  intros c l Hin Hall. unfold cid_in in Hin. apply existsb_exists in Hin.
  destruct Hin as [x [Hx He]]. rewrite forallb_forall in Hall. rewrite (cid_eqb_ok _ _ He). exact (Hall x Hx).
Qed.

(** AddBlock *)
Lemma add_block_clean : forall ft s b, store_clean al s = true ->
  triple_clean (OAdd b) (add_block V checkfirst ex ft s b).
Proof.
  intros ft s b Hs. unfold add_block.
  destruct (cverr V (b_cid b)) eqn:Hv;
    try (cbn; unfold step_clean; cbn; rewrite Hs; reflexivity).
  pose proof (cverr_ok _ Hv) as Hok.
  assert (Hpp : forall pre, forallb (ev_clean al) pre = true ->
     triple_clean (OAdd b)
       (if inl (bmh b) (f_put ft) then (s, pre ++ [EvPut b], RAdd ROther)
        else (put s b, pre ++ EvPut b :: match ex with XNone => [] | _ => [EvNotify [b]] end, RAdd RNil))).
  { intros pre Hpre. destruct (inl (bmh b) (f_put ft)); cbn [triple_clean]; unfold step_clean.
    - rewrite all_app, Hpre. cbn. rewrite Hok, Hs. reflexivity.
    - rewrite all_app, Hpre, (clean_put _ _ Hs Hok). cbn [out_clean]. rewrite Hok.
      destruct ex; cbn; rewrite Hok; reflexivity. }
  destruct checkfirst.
  - destruct (inl (bmh b) (f_has ft)); [cbn; unfold step_clean; cbn; rewrite Hs; reflexivity |].
    destruct (has s (bmh b)); [cbn; unfold step_clean; cbn; rewrite Hok, Hs; reflexivity |].
    apply Hpp. reflexivity.
  - apply (Hpp []). reflexivity.
Qed.

Lemma first_invalid_ok : forall bs, first_invalid V bs = EOk ->
  forallb (fun b => okc (b_cid b)) bs = true.
Proof.
  induction bs as [| b r IH]; cbn [first_invalid forallb]; [reflexivity |].
  destruct (cverr V (b_cid b)) eqn:Hv; try discriminate.
  intros H. rewrite (cverr_ok _ Hv), (IH H). reflexivity.
Qed.

Lemma has_scan_clean : forall ft s bs, forallb (fun b => okc (b_cid b)) bs = true ->
  forallb (ev_clean al) (fst (has_scan ft s bs)) = true /\
  (forall tp, snd (has_scan ft s bs) = Some tp -> forallb (fun b => okc (b_cid b)) tp = true).
Proof.
  intros ft s. induction bs as [| b r IH]; intros Hall; cbn [has_scan].
  - split; [reflexivity |]. intros tp H. inversion H. reflexivity.
  - cbn [forallb] in Hall. apply andb_true_iff in Hall. destruct Hall as [Hb Hr].
    destruct (inl (bmh b) (f_has ft)).
    + split; [reflexivity | intros tp H; discriminate].
    + destruct (IH Hr) as [He Ht]. destruct (has_scan ft s r) as [evs res]. cbn [fst snd] in *.
      split; [exact He |]. intros tp H. destruct res as [tp0 |]; [| discriminate].
      inversion H. destruct (has s (bmh b)); [apply Ht; reflexivity |].
      cbn [forallb]. rewrite Hb. apply Ht. reflexivity.
Qed.

Lemma add_blocks_clean : forall ft s bs, store_clean al s = true ->
  triple_clean (OAddMany bs) (add_blocks V checkfirst ex ft s bs).
Proof.
  intros ft s bs Hs. unfold add_blocks.
  destruct (first_invalid V bs) eqn:Hv;
    try (cbn; unfold step_clean; cbn; rewrite Hs; reflexivity).
  pose proof (first_invalid_ok _ Hv) as Hall.
  assert (Hsc : forall evs res, (evs, res) = (if checkfirst then has_scan ft s bs else ([], Some bs)) ->
            forallb (ev_clean al) evs = true /\
            (forall tp, res = Some tp -> forallb (fun b => okc (b_cid b)) tp = true)).
  { intros evs res E. destruct checkfirst.
    - destruct (has_scan_clean ft s bs Hall) as [H1 H2]. rewrite <- E in H1, H2. exact (conj H1 H2).
    - inversion E. split; [reflexivity |]. intros tp H. inversion H. subst. exact Hall. }
  destruct (if checkfirst then has_scan ft s bs else ([], Some bs)) as [evs res] eqn:E.
  destruct (Hsc evs res eq_refl) as [Hev Htp].
  destruct res as [tp |].
  - specialize (Htp tp eq_refl). destruct tp as [| b0 tp'].
    + cbn. unfold step_clean. rewrite Hev, Hs. cbn. rewrite Hall. reflexivity.
    + remember (b0 :: tp') as tp eqn:Etp.
      destruct (existsb (fun b => inl (bmh b) (f_put ft)) tp); cbn [triple_clean]; unfold step_clean.
      * rewrite all_app, Hev. cbn [forallb ev_clean andb out_clean]. rewrite Htp, Hs. reflexivity.
      * rewrite all_app, Hev, (clean_put_many _ _ Hs Htp). cbn [out_clean]. rewrite Hall.
        destruct ex; cbn [forallb ev_clean andb]; rewrite Htp; reflexivity.
  - cbn. unfold step_clean. rewrite Hev, Hs. reflexivity.
Qed.

(** getBlock *)
Lemma get_block_clean : forall ft s p c x, store_clean al s = true ->
  triple_clean (OGet p c x) (get_block V ex fl ft s p c x).
Proof.
  intros ft s p c x Hs. unfold get_block.
  destruct (cverr V c) eqn:Hv;
    try (cbn; unfold step_clean; cbn; rewrite Hs; reflexivity).
  pose proof (cverr_ok _ Hv) as Hok.
  destruct (inl (mh_of c) (f_get ft)); [cbn; unfold step_clean; cbn; rewrite Hs; reflexivity |].
  destruct (lookup s (mh_of c)) as [d |].
  - cbn. unfold step_clean. cbn. rewrite Hok, Hs. reflexivity.
  - pose proof (fetcher_clean p) as Hf. destruct (fetcher ex p) as [fevs f]. cbn [fst] in Hf.
    destruct f as [via |].
    + assert (Hpre : forallb (ev_clean al) ([EvGet c] ++ fevs ++ [EvFetch1 via c]) = true).
      { rewrite !all_app, Hf. cbn. rewrite Hok. reflexivity. }
      destruct x as [e | b].
      * cbn [triple_clean]. unfold step_clean. rewrite Hpre, Hs. cbn.
        reflexivity.
      * destruct (accept fl [c] b) eqn:Hacc.
        -- assert (Hb : okc (b_cid b) = true).
           { apply (cid_in_ok _ [c] (accept_in _ _ Hacc)). cbn. rewrite Hok. reflexivity. }
           destruct (inl (bmh b) (f_put ft)); [| destruct (inl (bmh b) (f_notify ft))];
             cbn [triple_clean]; unfold step_clean; rewrite all_app, Hpre; cbn; rewrite ?Hb; cbn;
             try rewrite Hs; try rewrite (clean_put _ _ Hs Hb); reflexivity.
        -- cbn [triple_clean]. unfold step_clean. rewrite Hpre, Hs. reflexivity.
    + cbn [triple_clean]. unfold step_clean. rewrite all_app, Hf, Hs. reflexivity.
Qed.

(** getBlocks *)
Lemma local_pass_clean : forall ft s ks, forallb okc ks = true ->
  let '(evs, outs, misses) := local_pass ft s ks in
  forallb (ev_clean al) evs = true /\
  forallb (fun p => okc (b_cid (fst p))) outs = true /\
  forallb okc misses = true.
Proof.
  intros ft s. induction ks as [| c r IH]; intros Hall; cbn [local_pass]; [repeat split |].
  cbn [forallb] in Hall. apply andb_true_iff in Hall. destruct Hall as [Hc Hr].
  specialize (IH Hr). destruct (local_pass ft s r) as [[evs outs] misses].
  destruct IH as [He [Ho Hm]].
  destruct (inl (mh_of c) (f_get ft)).
  - cbn. rewrite Hc. repeat split; assumption.
  - destruct (lookup s (mh_of c)); cbn; rewrite ?Hc; repeat split; assumption.
Qed.

Lemma recv_clean : forall ft wanted resp s, store_clean al s = true -> forallb okc wanted = true ->
  let '(s', evs, outs) := recv fl ft wanted s resp in
  store_clean al s' = true /\ forallb (ev_clean al) evs = true /\
  forallb (fun p => okc (b_cid (fst p))) outs = true.
Proof.
  intros ft wanted. induction resp as [| b r IH]; intros s Hs Hw; cbn [recv]; [repeat split; assumption |].
  destruct (accept fl wanted b) eqn:Hacc; [| apply IH; assumption].
  pose proof (cid_in_ok _ _ (accept_in _ _ Hacc) Hw) as Hb.
  destruct (inl (bmh b) (f_put ft)); [cbn; rewrite Hb; repeat split; assumption |].
  pose proof (clean_put _ _ Hs Hb) as Hs'.
  destruct (inl (bmh b) (f_notify ft)); [cbn; rewrite Hb; repeat split; assumption |].
  specialize (IH (put s b) Hs' Hw). destruct (recv fl ft wanted (put s b) r) as [[s'' evs] outs].
  destruct IH as [H1 [H2 H3]]. cbn. rewrite Hb. repeat split; assumption.
Qed.

Lemma filter_ok : forall ks, forallb okc (filter (cvalid V) ks) = true.
Proof.
  intros ks. rewrite forallb_forall. intros c Hc. apply filter_In in Hc. destruct Hc as [_ Hc].
  rewrite <- cvalid_ok. exact Hc.
Qed.

Lemma get_blocks_clean : forall ft s p ks x, store_clean al s = true ->
  triple_clean (OGetMany p ks x) (get_blocks V ex fl ft s p ks x).
Proof.
  intros ft s p ks x Hs. unfold get_blocks. rewrite filter_keys_spec.
  pose proof (local_pass_clean ft s _ (filter_ok ks)) as Hl.
  destruct (local_pass ft s (filter (cvalid V) ks)) as [[evs outs] misses].
  destruct Hl as [He [Ho Hm]].
  pose proof (fetcher_clean p) as Hf. destruct (fetcher ex p) as [fevs f]. cbn [fst] in Hf.
  assert (Hbase : step_clean al (OGetMany p ks x) (evs ++ fevs) (RGetMany outs) s = true).
  { unfold step_clean. rewrite all_app, He, Hf, Hs. cbn. rewrite Ho. reflexivity. }
  destruct f as [via |]; [| exact Hbase].
  destruct misses as [| m0 mr]; [exact Hbase |].
  remember (m0 :: mr) as misses eqn:Emiss.
  destruct x as [resp |].
  - pose proof (recv_clean ft misses resp s Hs Hm) as Hr.
    destruct (recv fl ft misses s resp) as [[s' revs] routs]. destruct Hr as [H1 [H2 H3]].
    cbn [triple_clean]. unfold step_clean. rewrite !all_app, He, Hf, H2, H1. cbn [out_clean].
    rewrite forallb_app, Ho, H3. cbn [forallb ev_clean andb]. rewrite Hm. reflexivity.
  - cbn [triple_clean]. unfold step_clean. rewrite !all_app, He, Hf, Hs. cbn [out_clean]. rewrite Ho.
    cbn [forallb ev_clean andb]. rewrite Hm. reflexivity.
Qed.

Lemma step_clean_all : forall ft s o, store_clean al s = true ->
  triple_clean o (step V checkfirst ex fl ft s o).
Proof.
  intros ft s o Hs. destruct o; cbn [step].
  - apply add_block_clean; exact Hs.
  - apply add_blocks_clean; exact Hs.
  - apply get_block_clean; exact Hs.
  - apply get_blocks_clean; exact Hs.
  - cbn. unfold step_clean. cbn. rewrite (clean_del _ _ Hs). reflexivity.
Qed.

(** all histories: every step is clean and so is the final store *)
Fixpoint all_steps_clean (h : list (op * faults)) (rs : list (list ev * out)) : bool :=
  match h, rs with
  | (o, _) :: h', (evs, res) :: rs' => forallb (ev_clean al) evs && out_clean al o res && all_steps_clean h' rs'
  | [], [] => true
  | _, _ => false
  end.

Lemma run_clean : forall h s, store_clean al s = true ->
  let '(s', rs) := run V checkfirst ex fl s h in
  store_clean al s' = true /\ all_steps_clean h rs = true.
Proof.
  induction h as [| [o ft] r IH]; intros s Hs; cbn [run]; [split; [exact Hs | reflexivity] |].
  pose proof (step_clean_all ft s o Hs) as H1.
  destruct (step V checkfirst ex fl ft s o) as [[s1 evs] res]. cbn [triple_clean] in H1.
  unfold step_clean in H1. apply andb_true_iff in H1. destruct H1 as [H1 Hs1].
  specialize (IH s1 Hs1). destruct (run V checkfirst ex fl s1 r) as [s2 rest].
  destruct IH as [Hs2 Hrest]. split; [exact Hs2 |]. cbn [all_steps_clean]. rewrite H1, Hrest. reflexivity.
Qed.
End Clean.

(** the hypothesis [trust_cid fl = false] of [run_clean] is necessary: the code before fix C05-1
    stores and returns a rejected CID that a hostile exchange pushes *)
Lemma trusting_not_clean :
  let a := mkcid 1 0x55 0x12 32 1 in
  let bad := mkcid 1 0x55 0xd5 16 2 in
  let fl := {| trust_cid := true; trust_hash := true |} in
  exists h, store_clean ADefault (fst (run (validate ADefault) true XPlain fl [] h)) = false.
Proof.
  exists [(OGetMany PPlain [mkcid 1 0x55 0x12 32 1] (Some [mkblk (mkcid 1 0x55 0xd5 16 2) 2]), no_faults)].
  vm_compute. reflexivity.
Qed.
