(** C16 — the HAMT is canonical: a well-formed shard tree is determined by the set of
    entries it stores (for every hash function), hence so is every tree reached by any
    sequence of swapValue calls. *)
From Coq Require Import List ZArith Bool NArith String Lia Sorted Permutation.
From V Require Import lib.Verdict model.M_C15 proofs.P_C15_trie.
Import ListNotations.
Open Scope Z_scope.

Section Canon.
  Context {V : Type}.
  Variable hidx : name -> list Z.
  Notation trie := (trie V).
  Notation children := (children V).
  Notation wf := (wf hidx).

  Definition sameset (a b : list (name * V)) : Prop := forall x, In x a <-> In x b.

  (** sorted association lists are determined by their lookups *)
  Lemma csorted_ext : forall (a b : children), csorted a -> csorted b ->
    (forall i, cget i a = cget i b) -> a = b.
  Proof.
    induction a as [|[i u] a IH]; intros b Ha Hb H.
    - destruct b as [|[j t] b]; [reflexivity|]. specialize (H j). cbn [cget] in H. rewrite Z.eqb_refl in H. discriminate.
    - destruct b as [|[j t] b].
      + specialize (H i). cbn [cget] in H. rewrite Z.eqb_refl in H. discriminate.
      + pose proof (csorted_cons_inv _ _ _ Ha) as [Ha' Hla]. pose proof (csorted_cons_inv _ _ _ Hb) as [Hb' Hlb].
        assert (Hij : i = j).
        { pose proof (H i) as Hi. pose proof (H j) as Hj. cbn [cget] in Hi, Hj. rewrite Z.eqb_refl in Hi, Hj.
          destruct (Z.lt_trichotomy i j) as [Hlt|[He|Hgt]]; [|exact He|].
          - exfalso. destruct (i =? j) eqn:E; [apply Z.eqb_eq in E; lia|].
            symmetry in Hi. apply cget_some_in in Hi. apply in_keys in Hi. specialize (Hlb i Hi). lia.
          - exfalso. destruct (j =? i) eqn:E; [apply Z.eqb_eq in E; lia|].
            apply cget_some_in in Hj. apply in_keys in Hj. specialize (Hla j Hj). lia. }
        subst j. pose proof (H i) as Hi. cbn [cget] in Hi. rewrite Z.eqb_refl in Hi. inversion Hi. subst t.
        f_equal. apply IH; [exact Ha'|exact Hb'|].
        intros k. specialize (H k). cbn [cget] in H. destruct (k =? i) eqn:E; [|exact H].
        apply Z.eqb_eq in E. subst k.
        destruct (cget i a) as [x|] eqn:E1.
        { apply cget_some_in in E1. apply in_keys in E1. specialize (Hla i E1). lia. }
        destruct (cget i b) as [x|] eqn:E2; [|reflexivity].
        apply cget_some_in in E2. apply in_keys in E2. specialize (Hlb i E2). lia.
  Qed.

  (** what sits below slot [i] of a well-formed shard: the entries whose [d]-th index is [i] *)
  Lemma slot_content : forall d (cs : children) i u (x : name * V), wf d (Node cs) -> cget i cs = Some u ->
    (In x (walk u) <-> In x (walk (Node cs)) /\ nth_error (hidx (fst x)) d = Some i).
  Proof.
    intros d cs i u [k v] Hwf Hg. pose proof (proj1 (wf_node hidx d cs) Hwf) as [Hs Hall].
    pose proof (Hall i u (cget_some_in _ _ _ Hg)) as [Hslot _]. cbn [fst]. split.
    - intros Hin. split; [apply (walk_split cs i u _ Hs Hg); left; exact Hin|exact (Hslot k v Hin)].
    - intros [Hin Hn]. apply (walk_split cs i u _ Hs Hg) in Hin. destruct Hin as [Hin|[j [t [Hne [H1 H2]]]]]; [exact Hin|].
      destruct (Hall j t H1) as [Hslot' _]. specialize (Hslot' k v H2). rewrite Hn in Hslot'. inversion Hslot'. congruence.
  Qed.

  Lemma slot_empty : forall d (cs : children) i (x : name * V), wf d (Node cs) -> cget i cs = None ->
    In x (walk (Node cs)) -> nth_error (hidx (fst x)) d <> Some i.
  Proof.
    intros d cs i [k v] Hwf Hg Hin Hn. cbn [fst] in Hn.
    destruct (key_under hidx d cs k v i Hwf Hn Hin) as [u [Hu _]]. congruence.
  Qed.

  Lemma walk_nonempty : forall d i (u : trie), child_ok hidx d i u -> exists x, In x (walk u).
  Proof.
    intros d i u H. pose proof (child_size_pos hidx d i u H) as Hp. unfold size in Hp.
    destruct (walk u) as [|x r]; [cbn in Hp; lia|]. exists x. left. reflexivity.
  Qed.

  Lemma sameset_length : forall (t1 t2 : trie) d1 d2, wf d1 t1 -> wf d2 t2 ->
    sameset (walk t1) (walk t2) -> size t1 = size t2.
  Proof.
    intros t1 t2 d1 d2 H1 H2 Hs. unfold size. apply Permutation_length. apply NoDup_Permutation.
    - eapply NoDup_map_inv. exact (wf_nodup hidx t1 d1 H1).
    - eapply NoDup_map_inv. exact (wf_nodup hidx t2 d2 H2).
    - exact Hs.
  Qed.

  Definition is_leaf (t : trie) : bool := match t with Leaf _ _ => true | Node _ => false end.

  (** THE uniqueness lemma *)
  Lemma wf_unique : forall (t1 : trie) d (t2 : trie), wf d t1 -> wf d t2 ->
    is_leaf t1 = is_leaf t2 -> sameset (walk t1) (walk t2) -> t1 = t2.
  Proof.
    induction t1 as [k v|cs1 IH] using trie_ind'; intros d t2 H1 H2 Hk Hs.
    - destruct t2 as [k2 v2|cs2]; [|discriminate]. cbn [walk] in Hs.
      assert (Hin : In (k, v) [(k2, v2)]) by (apply Hs; left; reflexivity).
      destruct Hin as [Hin|[]]. inversion Hin. reflexivity.
    - destruct t2 as [k2 v2|cs2]; [discriminate|]. f_equal.
      pose proof (proj1 (wf_node hidx d cs1) H1) as [Hs1 Hall1].
      pose proof (proj1 (wf_node hidx d cs2) H2) as [Hs2 Hall2].
      apply csorted_ext; [exact Hs1|exact Hs2|]. intros i.
      destruct (cget i cs1) as [u1|] eqn:E1; destruct (cget i cs2) as [u2|] eqn:E2; [| | |reflexivity].
      + f_equal.
        pose proof (Hall1 i u1 (cget_some_in _ _ _ E1)) as Hc1.
        pose proof (Hall2 i u2 (cget_some_in _ _ _ E2)) as Hc2.
        assert (Hsame : sameset (walk u1) (walk u2)).
        { intros x. rewrite (slot_content d cs1 i u1 x H1 E1), (slot_content d cs2 i u2 x H2 E2). rewrite (Hs x). reflexivity. }
        destruct Hc1 as [_ [Hb1 Hw1]]. destruct Hc2 as [_ [Hb2 Hw2]].
        pose proof (sameset_length u1 u2 (S d) (S d) Hw1 Hw2 Hsame) as Hlen.
        rewrite Forall_forall in IH. apply (IH (i, u1) (cget_some_in _ _ _ E1) (S d) u2 Hw1 Hw2); [|exact Hsame].
        destruct u1 as [a b|c1]; destruct u2 as [a2 b2|c2]; try reflexivity; cbn [big] in *.
        * rewrite size_leaf in Hlen. lia.
        * rewrite size_leaf in Hlen. lia.
      + exfalso. destruct (walk_nonempty d i u1 (Hall1 i u1 (cget_some_in _ _ _ E1))) as [x Hx].
        pose proof (proj1 (slot_content d cs1 i u1 x H1 E1) Hx) as [Hin Hn].
        apply Hs in Hin. exact (slot_empty d cs2 i x H2 E2 Hin Hn).
      + exfalso. destruct (walk_nonempty d i u2 (Hall2 i u2 (cget_some_in _ _ _ E2))) as [x Hx].
        pose proof (proj1 (slot_content d cs2 i u2 x H2 E2) Hx) as [Hin Hn].
        apply Hs in Hin. exact (slot_empty d cs1 i x H1 E1 Hin Hn).
  Qed.

  Lemma shard_unique : forall (cs1 cs2 : children), wf 0 (Node cs1) -> wf 0 (Node cs2) ->
    sameset (walk (Node cs1)) (walk (Node cs2)) -> cs1 = cs2.
  Proof.
    intros cs1 cs2 H1 H2 Hs. assert (E : Node cs1 = Node cs2) by (eapply wf_unique; eauto).
    inversion E. reflexivity.
  Qed.

  (** any sequence of swapValue calls (a failed call changes nothing) *)
  Fixpoint hrun (es : list (name * option V)) (cs : children) : children :=
    match es with
    | [] => cs
    | (k, nv) :: r =>
        match swap hidx (hidx k) 0 k nv cs with
        | SOk _ cs' => hrun r cs'
        | _ => hrun r cs
        end
    end.

  Lemma hrun_wf : forall es cs, wf 0 (Node cs) -> wf 0 (Node (hrun es cs)).
  Proof.
    induction es as [|[k nv] r IH]; intros cs Hwf; [exact Hwf|]. cbn [hrun].
    pose proof (swap_spec hidx (hidx k) 0 k nv cs Hwf eq_refl) as Hsp.
    destruct (swap hidx (hidx k) 0 k nv cs) as [old cs'| |]; [|apply IH; exact Hwf|apply IH; exact Hwf].
    cbn [swap_post] in Hsp. apply IH. exact (proj1 Hsp).
  Qed.

  Lemma hamt_canonical : forall es1 es2,
    sameset (walk (Node (hrun es1 []))) (walk (Node (hrun es2 []))) -> hrun es1 [] = hrun es2 [].
  Proof.
    intros es1 es2 Hs. apply shard_unique; [apply hrun_wf; apply wf_empty|apply hrun_wf; apply wf_empty|exact Hs].
  Qed.
End Canon.
