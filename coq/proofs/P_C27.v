(** C27 — proofs about the selection model [model/M_C27.v]. *)
From Coq Require Import List ZArith Bool Lia Permutation.
From V Require Import lib.Verdict lib.Lex model.M_C27.
Import ListNotations.
Open Scope Z_scope.

Definition wf (r : rec) : Prop := wfb r = true.

(** the order of the property, on records *)
Definition rcmp : rec -> rec -> comparison := on_key key_of kcmp.

Lemma kcmp_tpo : tpo kcmp.
Proof.
  unfold kcmp.
  apply lex_pair_tpo; [apply bool_cmp_tpo|].
  apply lex_pair_tpo; [apply Zcompare_tpo|].
  apply lex_pair_tpo; [apply Zcompare_tpo|].
  apply lex_list_tpo; apply Zcompare_tpo.
Qed.

Lemma kcmp_strict : strict kcmp.
Proof.
  unfold kcmp.
  apply lex_pair_strict; [apply bool_cmp_strict|].
  apply lex_pair_strict; [apply Zcompare_strict|].
  apply lex_pair_strict; [apply Zcompare_strict|].
  apply lex_list_strict; apply Zcompare_strict.
Qed.

Lemma rcmp_tpo : tpo rcmp.
Proof. apply on_key_tpo. apply kcmp_tpo. Qed.

Lemma rcmp_eq_key : forall a b, rcmp a b = Eq -> key_of a = key_of b.
Proof. apply on_key_eq. apply kcmp_strict. Qed.

Lemma key_raw : forall a b, key_of a = key_of b -> r_raw a = r_raw b.
Proof. intros a b H. unfold key_of in H. congruence. Qed.

(** spelled-out total-order facts *)
Lemma total_order_facts :
  (forall a, kcmp a a = Eq) /\
  (forall a b, kcmp a b = Eq -> a = b) /\
  (forall a b, kcmp b a = CompOpp (kcmp a b)) /\
  (forall a b c, kcmp a b <> Gt -> kcmp b c <> Gt -> kcmp a c <> Gt).
Proof.
  split; [apply (tpo_refl _ kcmp_tpo)|].
  split; [apply kcmp_strict|].
  split; [apply (tpo_sym _ kcmp_tpo)|].
  intros a b c. apply (le_trans kcmp kcmp_tpo).
Qed.

(** the code's compare-then-tie-break IS the lexicographic order, on records whose
    sequence number and expiry are defined *)
Lemma cmp_tie_rcmp : forall a b, wf a -> wf b -> cmp_tie a b = Some (rcmp a b).
Proof.
  intros a b Ha Hb. unfold wf, wfb in Ha, Hb.
  unfold cmp_tie, compare, rcmp, on_key, kcmp, key_of, lex_pair, bcmp.
  destruct (r_seq a) as [sa|] eqn:Esa; [|discriminate].
  destruct (r_eol a) as [ta|] eqn:Eta; [|discriminate].
  destruct (r_seq b) as [sb|] eqn:Esb; [|discriminate].
  destruct (r_eol b) as [tb|] eqn:Etb; [|discriminate].
  cbn [fst snd].
  destruct (r_v2 a), (r_v2 b); cbn [andb negb bool_cmp]; try reflexivity.
  - unfold Z.gtb, Z.ltb. destruct (u64 sa ?= u64 sb) eqn:Es; try reflexivity.
    rewrite (Z.compare_antisym ta tb). destruct (ta ?= tb); reflexivity.
  - unfold Z.gtb, Z.ltb. destruct (u64 sa ?= u64 sb) eqn:Es; try reflexivity.
    rewrite (Z.compare_antisym ta tb). destruct (ta ?= tb); reflexivity.
Qed.

(** on well-formed lists the code's loop is the generic linear scan *)
Lemma scan_best_idx : forall l cur i j,
  wf cur -> Forall wf l -> scan cur i j l = Some (best_idx rcmp cur i j l).
Proof.
  induction l as [|x l IH]; intros cur i j Hc Hl; cbn [scan best_idx].
  - reflexivity.
  - inversion Hl as [|x' l' Hx Hl']; subst.
    rewrite (cmp_tie_rcmp cur x Hc Hx).
    destruct (rcmp cur x); apply IH; assumption.
Qed.

Lemma select_scan : forall x l, Forall wf (x :: l) -> select (x :: l) = scan x 0 1 l.
Proof.
  intros x l H. destruct l as [|y l]; reflexivity.
Qed.

Lemma select_best : forall x l, Forall wf (x :: l) ->
  exists i, select (x :: l) = Some i /\ (i < length (x :: l))%nat /\
            nth i (x :: l) dummy = best rcmp x l.
Proof.
  intros x l H. rewrite (select_scan x l H).
  inversion H as [|x' l' Hx Hl]; subst.
  rewrite (scan_best_idx l x 0 1 Hx Hl).
  exists (best_idx rcmp x 0 1 l). split; [reflexivity|].
  destruct (best_idx_nth rcmp l [x] x 0%nat dummy eq_refl (Nat.lt_0_succ 0)) as [Hn Hlt].
  cbn [length app] in Hn, Hlt. split; [exact Hlt | exact Hn].
Qed.

Theorem select_max : forall l, l <> [] -> Forall wf l ->
  exists i, select l = Some i /\ (i < length l)%nat /\
            forall x, In x l -> kcmp (key_of x) (key_of (nth i l dummy)) <> Gt.
Proof.
  intros [|x l] Hne H; [congruence|].
  destruct (select_best x l H) as [i [Hs [Hlt Hn]]].
  exists i. split; [exact Hs|]. split; [exact Hlt|].
  intros y Hy. rewrite Hn.
  apply (best_max rcmp rcmp_tpo l x y).
  destruct Hy as [Hy|Hy]; [left; symmetry; exact Hy | right; exact Hy].
Qed.

Theorem perm_invariant : forall l l' i i',
  Permutation l l' -> Forall wf l ->
  select l = Some i -> select l' = Some i' ->
  key_of (nth i l dummy) = key_of (nth i' l' dummy).
Proof.
  intros l l' i i' HP Hwf Hs Hs'.
  assert (Hwf' : Forall wf l').
  { rewrite Forall_forall in *. intros x Hx. apply Hwf.
    eapply Permutation_in; [apply Permutation_sym; exact HP | exact Hx]. }
  destruct l as [|x l]; [cbn in Hs; discriminate|].
  destruct l' as [|x' l']; [cbn in Hs'; discriminate|].
  destruct (select_best x l Hwf) as [k [Hk [_ Hn]]].
  destruct (select_best x' l' Hwf') as [k' [Hk' [_ Hn']]].
  rewrite Hs in Hk. rewrite Hs' in Hk'. inversion Hk; inversion Hk'; subst k k'.
  rewrite Hn, Hn'. apply rcmp_eq_key.
  apply (best_perm rcmp rcmp_tpo). exact HP.
Qed.

Corollary perm_invariant_raw : forall l l' i i',
  Permutation l l' -> Forall wf l ->
  select l = Some i -> select l' = Some i' ->
  r_raw (nth i l dummy) = r_raw (nth i' l' dummy).
Proof.
  intros l l' i i' HP Hwf Hs Hs'. apply key_raw.
  eapply perm_invariant; eassumption.
Qed.

(** ---- records that pass [Validate]: v2 signature present, expiry parses; the
    sequence number may still be unreadable.  Then [select] fails exactly when
    there are at least two records and one has no readable sequence number — a
    condition that does not depend on the order. ---- *)
Definition validish (r : rec) : Prop := r_v2 r = true /\ r_eol r <> None.

Lemma cmp_tie_validish : forall a b, validish a -> validish b ->
  (cmp_tie a b = None <-> (r_seq a = None \/ r_seq b = None)).
Proof.
  intros a b [Va Ea] [Vb Eb]. unfold cmp_tie, compare. rewrite Va, Vb. cbn [andb negb].
  destruct (r_seq a) as [sa|]; [|split; [auto | reflexivity]].
  destruct (r_seq b) as [sb|]; [|split; [auto | reflexivity]].
  destruct (r_eol a) as [ta|]; [|congruence].
  destruct (r_eol b) as [tb|]; [|congruence].
  split.
  - destruct (u64 sa >? u64 sb); [discriminate|].
    destruct (u64 sa <? u64 sb); [discriminate|].
    destruct (ta >? tb); [discriminate|].
    destruct (tb >? ta); discriminate.
  - intros [H|H]; discriminate.
Qed.

Lemma scan_none_iff : forall l cur i j,
  validish cur -> Forall validish l ->
  (scan cur i j l = None <-> (l <> [] /\ exists x, In x (cur :: l) /\ r_seq x = None)).
Proof.
  induction l as [|x l IH]; intros cur i j Hc Hl; cbn [scan].
  - split; [discriminate | intros [H _]; congruence].
  - inversion Hl as [|x' l' Hx Hl']; subst.
    destruct (cmp_tie cur x) as [c|] eqn:Ec.
    + assert (Hsome : r_seq cur <> None /\ r_seq x <> None).
      { split; intros Hn;
          assert (Hnone : cmp_tie cur x = None)
            by (apply (cmp_tie_validish cur x Hc Hx); auto);
          congruence. }
      destruct Hsome as [Hsc Hsx].
      assert (Hiff : forall nc, (nc = cur \/ nc = x) ->
                (l <> [] /\ (exists y, In y (nc :: l) /\ r_seq y = None)) <->
                (x :: l <> [] /\ (exists y, In y (cur :: x :: l) /\ r_seq y = None))).
      { intros nc Hnc. split.
        - intros [Hne [y [Hy Hs]]]. split; [discriminate|].
          exists y. split; [|exact Hs].
          destruct Hy as [Hy|Hy]; [|right; right; exact Hy].
          destruct Hnc; subst; [left; reflexivity | right; left; reflexivity].
        - intros [_ [y [Hy Hs]]].
          destruct Hy as [Hy|[Hy|Hy]]; [subst; congruence | subst; congruence |].
          split; [intros Hnil; subst; destruct Hy|].
          exists y. split; [right; exact Hy | exact Hs]. }
      destruct c.
      * rewrite (IH cur i (S j) Hc Hl'). apply Hiff. left; reflexivity.
      * rewrite (IH x j (S j) Hx Hl'). apply Hiff. right; reflexivity.
      * rewrite (IH cur i (S j) Hc Hl'). apply Hiff. left; reflexivity.
    + split; [intros _ | reflexivity]. split; [discriminate|].
      apply (cmp_tie_validish cur x Hc Hx) in Ec.
      destruct Ec as [E|E]; [exists cur | exists x]; (split; [|exact E]); cbn; auto.
Qed.

Theorem select_error_validish : forall l, Forall validish l ->
  (select l = None <->
   (l = [] \/ ((2 <= length l)%nat /\ exists x, In x l /\ r_seq x = None))).
Proof.
  intros [|x [|y l]] H.
  - cbn. split; auto.
  - cbn. split; [discriminate|]. intros [E|[E _]]; [discriminate | cbn in E; lia].
  - change (select (x :: y :: l)) with (scan x 0 1 (y :: l)).
    inversion H as [|x' l' Hx Hl]; subst.
    rewrite (scan_none_iff (y :: l) x 0 1 Hx Hl). split.
    + intros [_ Hex]. right. split; [cbn; lia | exact Hex].
    + intros [E|[_ Hex]]; [discriminate|]. split; [discriminate | exact Hex].
Qed.

Theorem select_error_perm : forall l l',
  Permutation l l' -> Forall validish l -> (select l = None <-> select l' = None).
Proof.
  intros l l' HP Hv.
  assert (Hv' : Forall validish l').
  { rewrite Forall_forall in *. intros x Hx. apply Hv.
    eapply Permutation_in; [apply Permutation_sym; exact HP | exact Hx]. }
  rewrite (select_error_validish l Hv), (select_error_validish l' Hv').
  assert (Hlen := Permutation_length HP).
  split; intros [E|[Hl [x [Hx Hs]]]].
  - left. subst. apply Permutation_nil. exact HP.
  - right. split; [lia|]. exists x. split; [eapply Permutation_in; eassumption | exact Hs].
  - left. subst. apply Permutation_nil. apply Permutation_sym. exact HP.
  - right. split; [lia|]. exists x. split; [|exact Hs].
    eapply Permutation_in; [apply Permutation_sym; exact HP | exact Hx].
Qed.

(** soundness of the boolean used by [check_case] *)
Lemma maximal_in_spec : forall m l,
  maximal_in m l = true <-> forall x, In x l -> kcmp (key_of x) (key_of m) <> Gt.
Proof.
  intros m l. unfold maximal_in. rewrite forallb_forall. split; intros H x Hx.
  - specialize (H x Hx). destruct (kcmp (key_of x) (key_of m)); congruence.
  - specialize (H x Hx). destruct (kcmp (key_of x) (key_of m)); congruence.
Qed.
