(** C22 — proofs: the mechanism model with the defect switches off refines the pin model,
    and a failed call changes nothing. *)
From Coq Require Import List Bool Arith NArith Lia.
From V Require Import lib.Verdict lib.PinModel lib.PinFacts model.M_C22.
Import ListNotations.
Open Scope N_scope.

(** ---------- a failed call changes nothing (defect switch off) ---------- *)
Theorem error_unchanged newid p o r p' :
  exec flags_fixed newid p o = (r, p') -> r <> ROk -> p' = p.
Proof.
  intros Hrun Hne.
  assert (PR : forall c n ok, pin_recursive flags_fixed newid c n ok p = (r, p') -> p' = p).
  { intros c n ok H. unfold pin_recursive in H. cbn [flags_fixed f_remove_then_add] in H.
    destruct (negb ok); inversion H; subst; [reflexivity|contradiction]. }
  assert (PD : forall c n, pin_direct flags_fixed newid c n p = (r, p') -> p' = p).
  { intros c n H. unfold pin_direct in H. cbn [flags_fixed f_remove_then_add] in H.
    destruct (mm_hasany c (idxR (st p))); inversion H; subst; [reflexivity|contradiction]. }
  destruct o as [c rc n ok|c m n|c rc|from to unp ok|b|]; cbn [exec] in Hrun.
  - destruct rc; [eapply PR|eapply PD]; eassumption.
  - destruct (m =? 0); [eapply PR; eassumption|]. destruct (m =? 1); [eapply PD; eassumption|].
    inversion Hrun. reflexivity.
  - unfold unpin in Hrun.
    destruct (mm_hasany c (idxR (st p)) && negb rc); [inversion Hrun; reflexivity|].
    destruct (negb (mm_hasany c (idxR (st p))) && negb (mm_hasany c (idxD (st p)))); [inversion Hrun; reflexivity|].
    destruct (remove_pins_for_cid c SAny p) as [b p1]. destruct b; inversion Hrun; subst; contradiction.
  - unfold update in Hrun.
    destruct (mm_search from (idxR (st p))) as [|fid [|x l]]; try (inversion Hrun; reflexivity).
    destruct (from =? to); [inversion Hrun; subst; contradiction|].
    destruct (mm_hasany to (idxR (st p))); [inversion Hrun; reflexivity|].
    destruct (negb ok); [inversion Hrun; reflexivity|].
    destruct (find_rec fid (st p)); inversion Hrun; subst; [contradiction|reflexivity].
  - inversion Hrun. subst. contradiction.
  - inversion Hrun. subst. contradiction.
Qed.

(** ---------- the fuel of [descends] is enough on the graphs the harness builds ---------- *)
Lemma existsb_ext_in {A} (f g : A -> bool) l : (forall a, In a l -> f a = g a) -> existsb f l = existsb g l.
Proof.
  induction l as [|a l IH]; intros H; [reflexivity|]. cbn [existsb].
  rewrite (H a (or_introl eq_refl)), IH; [reflexivity|]. intros x Hx. apply H. right. exact Hx.
Qed.

Lemma reach_fuel g : ordered g -> forall f1 f2 from c,
  (N.to_nat from < f1)%nat -> (N.to_nat from < f2)%nat -> reach g f1 from c = reach g f2 from c.
Proof.
  intros Ho. induction f1 as [|f1 IH]; intros f2 from c H1 H2; [lia|].
  destruct f2 as [|f2]; [lia|]. cbn [reach]. apply existsb_ext_in. intros ch Hch.
  f_equal. pose proof (Ho from ch Hch) as Hlt. apply IH; lia.
Qed.

Theorem descends_fuel g : ordered g -> forall fuel from c,
  (N.to_nat from < fuel)%nat -> reach g fuel from c = descends g from c.
Proof. intros Ho fuel from c H. unfold descends. apply reach_fuel; [exact Ho|exact H|lia]. Qed.

(** ---------- indexes and records of a good state describe the same pins ---------- *)
Definition Good (p : pst) : Prop := Inv [] p.

Lemma sel_mode_spec sl m : sel_mode sl m = match sl with SAny => true | SRec => mode_eqb m MRec | SDir => mode_eqb m MDir end.
Proof. destruct sl, m; reflexivity. Qed.

Lemma in_sel_ids c sl s i :
  In i (sel_ids c sl s) <->
  match sl with
  | SRec => In (c, i) (idxR s)
  | SDir => In (c, i) (idxD s)
  | SAny => In (c, i) (idxR s) \/ In (c, i) (idxD s)
  end.
Proof. destruct sl; cbn [sel_ids]; rewrite ?in_app_iff, ?mm_search_In; reflexivity. Qed.

Lemma keep_spec C p c sl q :
  Inv C p -> In q (recs (st p)) ->
  keep sl (sel_ids c sl (st p)) q = negb ((r_cid q =? c) && sel_mode sl (r_mode q)).
Proof.
  intros (I1 & I2 & I3 & _) Hq. unfold keep. f_equal.
  destruct (sel_mode sl (r_mode q)) eqn:Es; [|rewrite !andb_false_r; reflexivity].
  rewrite !andb_true_r. apply eq_true_iff_eq. rewrite existsb_exists, N.eqb_eq. split.
  - intros [i [Hi Ei]]. apply N.eqb_eq in Ei. subst i.
    destruct (sel_ids_recs c sl _ I1 _ Hi) as [r [Hr Hc]].
    rewrite (find_rec_uid _ _ I2 Hq) in Hr. inversion Hr. subst r. exact Hc.
  - intros Hc. exists (r_id q). split; [|apply N.eqb_refl].
    destruct (I3 q Hq) as [Hidx _]. rewrite Hc in Hidx. apply in_sel_ids.
    destruct sl, (r_mode q); cbn [idx_of_mode get_idx] in Hidx; cbn [sel_mode] in Es; try discriminate; auto.
Qed.

Lemma hasR_agree C p c : Inv C p -> mm_hasany c (idxR (st p)) = a_hasR c (recs (st p)).
Proof.
  intros (I1 & I2 & I3 & _). apply eq_true_iff_eq. unfold a_hasR. rewrite mm_hasany_In, existsb_exists. split.
  - intros [i Hi]. destruct (I1 IR c i Hi) as [r [Hr [Hc Hm]]]. apply find_rec_some in Hr.
    exists r. split; [tauto|]. unfold is_mode. rewrite Hc, Hm, N.eqb_refl. reflexivity.
  - intros [r [Hr Hc]]. apply andb_true_iff in Hc. destruct Hc as [Hc Hm]. apply N.eqb_eq in Hc.
    unfold is_mode in Hm. destruct (r_mode r) eqn:Em; [|discriminate].
    destruct (I3 r Hr) as [Hidx _]. rewrite Em, Hc in Hidx. exists (r_id r). exact Hidx.
Qed.

Lemma hasD_agree C p c : Inv C p -> mm_hasany c (idxD (st p)) = a_hasD c (recs (st p)).
Proof.
  intros (I1 & I2 & I3 & _). apply eq_true_iff_eq. unfold a_hasD. rewrite mm_hasany_In, existsb_exists. split.
  - intros [i Hi]. destruct (I1 ID c i Hi) as [r [Hr [Hc Hm]]]. apply find_rec_some in Hr.
    exists r. split; [tauto|]. unfold is_mode. rewrite Hc, Hm, N.eqb_refl. reflexivity.
  - intros [r [Hr Hc]]. apply andb_true_iff in Hc. destruct Hc as [Hc Hm]. apply N.eqb_eq in Hc.
    unfold is_mode in Hm. destruct (r_mode r) eqn:Em; [discriminate|].
    destruct (I3 r Hr) as [Hidx _]. rewrite Em, Hc in Hidx. exists (r_id r). exact Hidx.
Qed.

Lemma keep_fresh sl old newid c m n : ~ In newid old -> keep sl old (mkrec newid c m n) = true.
Proof.
  intros H. unfold keep. cbn [r_id]. destruct (existsb (N.eqb newid) old) eqn:E; [|reflexivity].
  apply existsb_exists in E. destruct E as [x [Hx Ex]]. apply N.eqb_eq in Ex. subst x. contradiction.
Qed.

Lemma old_not_fresh c sl s newid : OF s -> fresh newid s -> ~ In newid (sel_ids c sl s).
Proof.
  intros HO Hf Hin. destruct (sel_ids_recs c sl s HO _ Hin) as [r [Hr _]]. apply find_rec_some in Hr.
  destruct Hr as [Hr1 Hr2]. apply Hf. rewrite <- Hr2. apply in_map. exact Hr1.
Qed.

(** recs after "add the new pin, then remove the old pins of [c] selected by [sl]" *)
Lemma add_then_remove_recs newid c m n sl p :
  Good p -> fresh newid (st p) ->
  recs (st (snd (remove_ids c sl (sel_ids c sl (st p)) (add_pin newid c m n p)))) =
  filter (fun q => negb ((r_cid q =? c) && sel_mode sl (r_mode q))) (recs (st p)) ++ [mkrec newid c m n].
Proof.
  intros HG Hf. destruct (add_then_remove_ok [] newid c m n sl p HG Hf) as (_ & _ & _ & R).
  cbv zeta in R. rewrite R, filter_app. cbn [filter]. pose proof HG as (I1 & _).
  rewrite keep_fresh by (apply old_not_fresh; assumption). f_equal.
  apply filter_ext_in. intros q Hq. apply (keep_spec [] p c sl q HG Hq).
Qed.

Lemma flush_recs force p : Good p -> recs (st (flush_pins force p)) = recs (st p).
Proof. intros HG. destruct (flush_pins_ok [] force p HG) as (_ & _ & [R _] & _). symmetry. exact R. Qed.

Lemma Good_after_add_remove newid c m n sl p :
  Good p -> fresh newid (st p) -> Good (snd (remove_ids c sl (sel_ids c sl (st p)) (add_pin newid c m n p))).
Proof. intros HG Hf. destruct (add_then_remove_ok [] newid c m n sl p HG Hf) as (J & _). exact J. Qed.

Lemma nodup_same_length {A} (l1 l2 : list A) :
  NoDup l1 -> NoDup l2 -> (forall x, In x l1 <-> In x l2) -> length l1 = length l2.
Proof.
  intros H1 H2 H. apply Nat.le_antisymm; apply NoDup_incl_length; try assumption; intros x Hx; apply H; exact Hx.
Qed.

Lemma uid_filter_nodup s f : uid s -> NoDup (map r_id (filter f (recs s))).
Proof.
  unfold uid. induction (recs s) as [|q rs IH]; intros H; [constructor|].
  cbn [map] in H. inversion H as [|x l Hn Hd E]. subst. cbn [filter]. destruct (f q); [|apply IH; exact Hd].
  cbn [map]. constructor; [|apply IH; exact Hd]. intros Hin. apply Hn. apply in_map_iff in Hin.
  destruct Hin as [r [Hr Hin]]. apply filter_In in Hin. apply in_map_iff. exists r. tauto.
Qed.

(** the recursive pins of [from]: index search and pin list agree *)
Lemma search_agree p from :
  Good p ->
  let ids := mm_search from (idxR (st p)) in
  let rs := filter (fun q => (r_cid q =? from) && is_mode MRec q) (recs (st p)) in
  length ids = length rs /\ forall i r, ids = [i] -> rs = [r] -> find_rec i (st p) = Some r.
Proof.
  intros HG ids rs. pose proof HG as (I1 & I2 & I3 & _).
  assert (Hiff : forall i, In i ids <-> In i (map r_id rs)).
  { intros i. unfold ids, rs. rewrite mm_search_In, in_map_iff. split.
    - intros Hi. destruct (I1 IR from i Hi) as [r [Hr [Hc Hm]]]. pose proof (find_rec_some _ _ _ Hr) as [Hr1 Hr2].
      exists r. split; [exact Hr2|]. apply filter_In. split; [exact Hr1|]. unfold is_mode. rewrite Hc, Hm, N.eqb_refl. reflexivity.
    - intros [r [Hr Hin]]. apply filter_In in Hin. destruct Hin as [Hin Hc]. apply andb_true_iff in Hc.
      destruct Hc as [Hc Hm]. apply N.eqb_eq in Hc. unfold is_mode in Hm. destruct (r_mode r) eqn:Em; [|discriminate].
      destruct (I3 r Hin) as [Hidx _]. rewrite Em, Hc, Hr in Hidx. exact Hidx. }
  split.
  - rewrite <- (map_length r_id rs). apply nodup_same_length; [apply mm_search_nodup|apply uid_filter_nodup; exact I2|exact Hiff].
  - intros i r Ei Er. assert (Hin : In i (map r_id rs)) by (apply Hiff; rewrite Ei; left; reflexivity).
    rewrite Er in Hin. cbn [map In] in Hin. destruct Hin as [Hin|[]]. subst i.
    apply find_rec_uid; [exact I2|]. assert (Hr : In r rs) by (rewrite Er; left; reflexivity).
    unfold rs in Hr. apply filter_In in Hr. tauto.
Qed.

(** ---------- refinement, one operation ---------- *)
Theorem refines_step newid p o r p' :
  Good p -> fresh newid (st p) -> exec flags_fixed newid p o = (r, p') ->
  a_exec newid (recs (st p)) o = (r, recs (st p')) /\ Good p'.
Proof.
  intros HG Hf Hrun.
  assert (HG' : Good p').
  { destruct (exec_ok [] flags_fixed newid p o r p' HG Hf) as [J _]; [intros c []|exact Hrun|exact J]. }
  split; [|exact HG'].
  assert (PR : forall c n ok, pin_recursive flags_fixed newid c n ok p = (r, p') ->
                 a_pin_recursive newid c n ok (recs (st p)) = (r, recs (st p'))).
  { intros c n ok H. unfold pin_recursive in H. cbn [flags_fixed f_remove_then_add] in H. unfold a_pin_recursive.
    destruct (negb ok); [inversion H; reflexivity|]. inversion H. subst r p'. f_equal.
    change (mm_search c (idxR (st p)) ++ mm_search c (idxD (st p))) with (sel_ids c SAny (st p)).
    rewrite flush_recs by (apply Good_after_add_remove; assumption).
    rewrite add_then_remove_recs by assumption. f_equal. apply filter_ext. intros q. unfold not_cid.
    cbn [sel_mode]. rewrite andb_true_r. reflexivity. }
  assert (PD : forall c n, pin_direct flags_fixed newid c n p = (r, p') ->
                 a_pin_direct newid c n (recs (st p)) = (r, recs (st p'))).
  { intros c n H. unfold pin_direct in H. cbn [flags_fixed f_remove_then_add] in H. unfold a_pin_direct.
    rewrite <- (hasR_agree [] p c HG). destruct (mm_hasany c (idxR (st p))); [inversion H; reflexivity|].
    inversion H. subst r p'. f_equal.
    change (mm_search c (idxD (st p))) with (sel_ids c SDir (st p)).
    rewrite flush_recs by (apply Good_after_add_remove; assumption).
    rewrite add_then_remove_recs by assumption. f_equal.
    all: try (apply filter_ext; intros q; unfold not_cm, is_mode; rewrite sel_mode_spec; reflexivity). }
  destruct o as [c rc n ok|c m n|c rc|from to unp ok|b|]; cbn [exec a_exec] in *.
  - destruct rc; [apply PR|apply PD]; exact Hrun.
  - destruct (m =? 0); [apply PR; exact Hrun|]. destruct (m =? 1); [apply PD; exact Hrun|].
    inversion Hrun. reflexivity.
  - unfold unpin in Hrun. unfold a_unpin.
    rewrite <- (hasR_agree [] p c HG), <- (hasD_agree [] p c HG).
    destruct (mm_hasany c (idxR (st p)) && negb rc); [inversion Hrun; reflexivity|].
    destruct (negb (mm_hasany c (idxR (st p))) && negb (mm_hasany c (idxD (st p)))); [inversion Hrun; reflexivity|].
    destruct (remove_pins_for_cid c SAny p) as [b p1] eqn:E.
    destruct (remove_pins_ok [] c SAny p b p1 HG (fun H => H) E) as (J1 & _ & _ & _ & _ & R).
    assert (Rq : recs (st p1) = filter (not_cid c) (recs (st p))).
    { rewrite R. apply filter_ext_in. intros q Hq. rewrite (keep_spec [] p c SAny q HG Hq). unfold not_cid.
      cbn [sel_mode]. rewrite andb_true_r. reflexivity. }
    destruct b; inversion Hrun; subst r p'; f_equal; [rewrite flush_recs by exact J1|]; symmetry; exact Rq.
  - unfold update in Hrun. unfold a_update.
    destruct (search_agree p from HG) as [Hlen Hone]. cbv zeta in Hlen, Hone.
    destruct (mm_search from (idxR (st p))) as [|fid [|x l]] eqn:Es;
      destruct (filter (fun q => (r_cid q =? from) && is_mode MRec q) (recs (st p))) as [|rf [|y l']] eqn:Ef;
      cbn [length] in Hlen; try discriminate Hlen; try (inversion Hrun; reflexivity).
    destruct (from =? to); [inversion Hrun; reflexivity|].
    rewrite <- (hasR_agree [] p to HG). destruct (mm_hasany to (idxR (st p))); [inversion Hrun; reflexivity|].
    destruct (negb ok); [inversion Hrun; reflexivity|].
    rewrite (Hone fid rf eq_refl eq_refl) in Hrun.
    destruct (add_pin_ok [] p newid to MRec (r_name rf) HG Hf) as (D1 & _ & C1 & _ & R1 & _).
    set (p1 := add_pin newid to MRec (r_name rf) p) in *.
    assert (J1 : Good p1) by (apply D_CP_Inv; assumption).
    destruct unp.
    + destruct (remove_pins_for_cid from SRec p1) as [b p2] eqn:E. cbn [snd] in Hrun.
      destruct (remove_pins_ok [] from SRec p1 b p2 J1 (fun H => H) E) as (J2 & _ & _ & _ & _ & R).
      inversion Hrun. subst r p'. f_equal. rewrite flush_recs by exact J2. rewrite R, R1.
      apply filter_ext_in. intros q Hq. rewrite <- R1 in Hq. rewrite (keep_spec [] p1 from SRec q J1 Hq).
      unfold not_cm, is_mode. rewrite sel_mode_spec. reflexivity.
    + inversion Hrun. subst r p'. f_equal. rewrite flush_recs by exact J1. symmetry. exact R1.
  - inversion Hrun. reflexivity.
  - inversion Hrun. subst r p'. f_equal. symmetry. apply flush_recs. exact HG.
Qed.

(** ---------- whole histories ---------- *)
(** mechanism model (defect switches off) and pin model run side by side *)
Fixpoint run_both (p : pst) (rs : list prec) (l : list (op * N)) : Prop :=
  match l with
  | [] => True
  | (o, newid) :: rest =>
      fresh newid (st p) ->
      let (r, p') := exec flags_fixed newid p o in
      let (r', rs') := a_exec newid rs o in
      r = r' /\ rs' = recs (st p') /\ run_both p' rs' rest
  end.

Theorem refines_pinmodel : forall l p, Good p -> run_both p (recs (st p)) l.
Proof.
  induction l as [|[o newid] rest IH]; intros p HG; cbn [run_both]; [exact I|].
  intros Hf. destruct (exec flags_fixed newid p o) as [r p'] eqn:E.
  destruct (refines_step newid p o r p' HG Hf E) as [Ha HG']. rewrite Ha.
  split; [reflexivity|]. split; [reflexivity|]. apply IH. exact HG'.
Qed.

(** ---------- the queries read the same pins from the indexes as from the pin list ---------- *)
Lemma name_of_uid s r : uid s -> In r (recs s) -> name_of (r_id r) s = r_name r.
Proof. intros HU Hr. unfold name_of. rewrite (find_rec_uid s r HU Hr). reflexivity. Qed.

Lemma view_agree_gen C p (m : mode) :
  Inv C p -> forall e,
  In e (map (fun x => (fst x, name_of (snd x) (st p))) (get_idx (idx_of_mode m) (st p))) <->
  In e (map (fun r => (r_cid r, r_name r)) (filter (is_mode m) (recs (st p)))).
Proof.
  intros (I1 & I2 & I3 & _) e. rewrite !in_map_iff. split.
  - intros [[c i] [He Hin]]. cbn [fst snd] in He. destruct (I1 _ c i Hin) as [r [Hr Hok]].
    pose proof (find_rec_some _ _ _ Hr) as [Hr1 Hr2]. exists r. split.
    + rewrite <- He. unfold name_of. rewrite Hr. destruct m; destruct Hok as [Hc _]; rewrite Hc; reflexivity.
    + apply filter_In. split; [exact Hr1|]. unfold is_mode. destruct m; destruct Hok as [_ Hm]; rewrite Hm; reflexivity.
  - intros [r [He Hin]]. apply filter_In in Hin. destruct Hin as [Hin Hm]. unfold is_mode in Hm.
    exists (r_cid r, r_id r). split.
    + cbn [fst snd]. rewrite (name_of_uid _ _ I2 Hin). exact He.
    + destruct (I3 r Hin) as [Hidx _]. destruct (r_mode r), m; try discriminate; exact Hidx.
Qed.

Theorem views_agree C p :
  Inv C p ->
  (forall e, In e (vR (view_store (st p))) <-> In e (vR (view_pins (recs (st p))))) /\
  (forall e, In e (vD (view_store (st p))) <-> In e (vD (view_pins (recs (st p))))).
Proof.
  intros HI. split; intros e.
  - apply (view_agree_gen C p MRec HI e).
  - apply (view_agree_gen C p MDir HI e).
Qed.

Lemma has_equiv c (l1 l2 : list (N * N)) : (forall e, In e l1 <-> In e l2) -> has c l1 = has c l2.
Proof.
  intros H. apply eq_true_iff_eq. unfold has. rewrite !existsb_exists.
  split; intros [e [He Hc]]; exists e; (split; [apply H; exact He|exact Hc]).
Qed.

Lemma vias_equiv g (v1 v2 : view) c :
  (forall e, In e (vR v1) <-> In e (vR v2)) -> forall r, In r (vias g v1 c) <-> In r (vias g v2 c).
Proof.
  intros H r. unfold vias. rewrite !filter_In, !in_map_iff.
  split; intros [[e [He Hin]] Hd]; (split; [exists e; split; [exact He|apply H; exact Hin]|exact Hd]).
Qed.

(** every decision a query takes — is [c] recursively / directly pinned, from which recursive
    roots does it descend — is the same on the code's view and on the pin model's view *)
Theorem queries_agree C p g c :
  Inv C p ->
  let vs := view_store (st p) in let vp := view_pins (recs (st p)) in
  has c (vR vs) = has c (vR vp) /\ has c (vD vs) = has c (vD vp) /\
  (forall r, In r (vias g vs c) <-> In r (vias g vp c)) /\
  (forall e, In e (vR vs) <-> In e (vR vp)) /\ (forall e, In e (vD vs) <-> In e (vD vp)).
Proof.
  intros HI vs vp. destruct (views_agree C p HI) as [HR HD].
  split; [apply has_equiv; exact HR|]. split; [apply has_equiv; exact HD|].
  split; [apply vias_equiv; exact HR|]. split; assumption.
Qed.

(** ---------- the pin model itself ---------- *)
(** at most one pin per (CID, mode) — NOT per CID: Update onto a directly pinned CID leaves a
    recursive and a direct pin; the queries report recursive first *)
Definition cm (r : prec) : N * bool := (r_cid r, match r_mode r with MRec => true | MDir => false end).
Definition one_per_mode (rs : list prec) : Prop := NoDup (map cm rs).

Lemma nodup_map_filter {A B} (f : A -> B) (g : A -> bool) l : NoDup (map f l) -> NoDup (map f (filter g l)).
Proof.
  induction l as [|a l IH]; intros H; [constructor|]. cbn [map] in H. inversion H as [|x y Hn Hd E]. subst.
  cbn [filter]. destruct (g a); [|apply IH; exact Hd]. cbn [map]. constructor; [|apply IH; exact Hd].
  intros Hin. apply Hn. apply in_map_iff in Hin. destruct Hin as [b [Hb Hin]]. apply filter_In in Hin.
  apply in_map_iff. exists b. tauto.
Qed.

Lemma one_per_mode_snoc rs r : one_per_mode rs -> (forall q, In q rs -> cm q <> cm r) -> one_per_mode (rs ++ [r]).
Proof.
  unfold one_per_mode. intros H Hne. rewrite map_app. cbn [map]. apply nodup_snoc; [exact H|].
  intros Hin. apply in_map_iff in Hin. destruct Hin as [q [Hq Hin]]. exact (Hne q Hin Hq).
Qed.

Theorem a_exec_one_per_mode newid rs o :
  one_per_mode rs -> one_per_mode (snd (a_exec newid rs o)).
Proof.
  intros H.
  assert (PR : forall c n ok, one_per_mode (snd (a_pin_recursive newid c n ok rs))).
  { intros c n ok. unfold a_pin_recursive. destruct (negb ok); [exact H|]. cbn [snd].
    apply one_per_mode_snoc; [apply nodup_map_filter; exact H|].
    intros q Hq E. apply filter_In in Hq. destruct Hq as [_ Hq]. unfold not_cid in Hq.
    unfold cm in E. cbn [r_cid] in E. inversion E as [[Ec Em]]. rewrite Ec, N.eqb_refl in Hq. discriminate. }
  assert (PD : forall c n, one_per_mode (snd (a_pin_direct newid c n rs))).
  { intros c n. unfold a_pin_direct. destruct (a_hasR c rs); [exact H|]. cbn [snd].
    apply one_per_mode_snoc; [apply nodup_map_filter; exact H|].
    intros q Hq E. apply filter_In in Hq. destruct Hq as [_ Hq]. unfold not_cm, is_mode in Hq.
    unfold cm in E. cbn [r_cid r_mode] in E. inversion E as [[Ec Em]]. rewrite Ec, N.eqb_refl in Hq.
    destruct (r_mode q); [discriminate Em|discriminate Hq]. }
  destruct o as [c rc n ok|c m n|c rc|from to unp ok|b|]; cbn [a_exec].
  - destruct rc; [apply PR|apply PD].
  - destruct (m =? 0); [apply PR|]. destruct (m =? 1); [apply PD|exact H].
  - unfold a_unpin. destruct (a_hasR c rs && negb rc); [exact H|].
    destruct (negb (a_hasR c rs) && negb (a_hasD c rs)); [exact H|]. cbn [snd]. apply nodup_map_filter. exact H.
  - unfold a_update. destruct (filter (fun q => (r_cid q =? from) && is_mode MRec q) rs) as [|r [|x l]]; try exact H.
    destruct (from =? to); [exact H|]. destruct (a_hasR to rs) eqn:Eh; [exact H|].
    destruct (negb ok); [exact H|]. cbn [snd].
    assert (Hs : one_per_mode (rs ++ [mkrec newid to MRec (r_name r)])).
    { apply one_per_mode_snoc; [exact H|]. intros q Hq E. unfold cm in E. cbn [r_cid r_mode] in E.
      inversion E as [[Ec Em]]. assert (X : a_hasR to rs = true); [|congruence].
      unfold a_hasR. apply existsb_exists. exists q. split; [exact Hq|]. unfold is_mode.
      rewrite Ec, N.eqb_refl. destruct (r_mode q); [reflexivity|discriminate Em]. }
    destruct unp; [apply nodup_map_filter; exact Hs|exact Hs].
  - exact H.
  - exact H.
Qed.

(** re-pinning replaces the name; recursive supersedes direct: after a successful recursive
    pin the CID has exactly the new pin *)
Theorem a_repin_replaces newid c n rs :
  filter (fun q => r_cid q =? c) (snd (a_pin_recursive newid c n true rs)) = [mkrec newid c MRec n].
Proof.
  unfold a_pin_recursive. cbn [negb snd]. rewrite filter_app. cbn [filter r_cid]. rewrite N.eqb_refl.
  replace (filter (fun q => r_cid q =? c) (filter (not_cid c) rs)) with (@nil prec); [reflexivity|].
  symmetry. induction rs as [|q rs IH]; [reflexivity|]. cbn [filter]. unfold not_cid at 1.
  destruct (r_cid q =? c) eqn:E; cbn [negb]; [exact IH|]. cbn [filter]. rewrite E. exact IH.
Qed.

(** ---------- the defects of the current code ---------- *)
(** C22-1: a recursive re-pin whose fetch fails returns an error and the CID is unpinned *)
Theorem repin_error_refuted :
  exists p newid o r p' c,
    Good p /\ fresh newid (st p) /\ exec flags_now newid p o = (r, p') /\ r <> ROk /\
    pinned (st p) c = true /\ pinned (st p') c = false.
Proof.
  set (p := snd (exec flags_now 1 (open_pinner empty_store) (OPin 7 true 1 true))).
  exists p, 2, (OPin 7 true 2 false), RFetch. eexists. exists 7.
  split.
  { destruct (exec_ok [] flags_now 1 (open_pinner empty_store) (OPin 7 true 1 true) (fst (exec flags_now 1 (open_pinner empty_store) (OPin 7 true 1 true))) p Inv_empty) as [J _].
    - intros [].
    - intros c [].
    - reflexivity.
    - exact J. }
  split; [vm_compute; intros [H|[]]; discriminate|].
  split; [vm_compute; reflexivity|]. split; [discriminate|]. split; vm_compute; reflexivity.
Qed.

(** C22-2: IsPinnedWithType(c, Indirect) reports a recursive root that lies below another
    recursive root as indirectly pinned; the pin model (and CheckIfPinnedWithType) do not *)
Theorem indirect_root_refuted :
  exists g p c,
    Good p /\ ordered g /\
    answer flags_now g (view_store (st p)) (QIsPinned c 2) = AIs true 3 [1] /\
    answer flags_fixed g (view_pins (recs (st p))) (QIsPinned c 2) = AIs false 0 [].
Proof.
  set (p1 := snd (exec flags_now 1 (open_pinner empty_store) (OPin 1 true 0 true))).
  set (p2 := snd (exec flags_now 2 p1 (OPin 0 true 0 true))).
  exists [[]; [0]], p2, 0.
  assert (G1 : Good p1).
  { destruct (exec_ok [] flags_now 1 (open_pinner empty_store) (OPin 1 true 0 true) (fst (exec flags_now 1 (open_pinner empty_store) (OPin 1 true 0 true))) p1 Inv_empty) as [J _];
      [intros []|intros c []|reflexivity|exact J]. }
  split.
  { destruct (exec_ok [] flags_now 2 p1 (OPin 0 true 0 true) (fst (exec flags_now 2 p1 (OPin 0 true 0 true))) p2 G1) as [J _];
      [vm_compute; intros [H|[]]; discriminate|intros c []|reflexivity|exact J]. }
  split.
  { intros i ch Hin. unfold children in Hin.
    destruct (N.to_nat i) as [|[|k]] eqn:E; cbn [nth] in Hin.
    - destruct Hin.
    - destruct Hin as [H|[]]. subst ch. lia.
    - destruct k; destruct Hin. }
  split; vm_compute; reflexivity.
Qed.
