(** C22 — proofs: the mechanism model with the defect switches off refines the pin model,
    and a failed call changes nothing. *)
From Coq Require Import List Bool Arith NArith Lia.
From V Require Import lib.Verdict lib.PinModel lib.PinFacts model.M_C22.
Import ListNotations.
Open Scope N_scope.

(** ---------- a failed call changes nothing (defect switch off) ---------- *)
Theorem error_unchanged newid p o r p' :
  exec flags_fixed newid p o = (r, p') -> r <> ROk -> p' = p.
Proof.
  intros Hrun Hne.
  assert (PR : forall c n ok, pin_recursive flags_fixed newid c n ok p = (r, p') -> p' = p).
  { intros c n ok H. unfold pin_recursive in H. cbn [flags_fixed f_remove_then_add] in H.
    destruct (negb ok); inversion H; subst; [reflexivity|contradiction]. }
  assert (PD : forall c n, pin_direct flags_fixed newid c n p = (r, p') -> p' = p).
  { intros c n H. unfold pin_direct in H. cbn [flags_fixed f_remove_then_add] in H.
    destruct (mm_hasany c (idxR (st p))); inversion H; subst; [reflexivity|contradiction]. }
  destruct o as [c rc n ok|c m n|c rc|from to unp ok|b|]; cbn [exec] in Hrun.
  - destruct rc; [eapply PR|eapply PD]; eassumption.
  - destruct (m =? 0); [eapply PR; eassumption|]. destruct (m =? 1); [eapply PD; eassumption|].
    inversion Hrun. reflexivity.
  - unfold unpin in Hrun.
    destruct (mm_hasany c (idxR (st p)) && negb rc); [inversion Hrun; reflexivity|].
    destruct (negb (mm_hasany c (idxR (st p))) && negb (mm_hasany c (idxD (st p)))); [inversion Hrun; reflexivity|].
    destruct (remove_pins_for_cid c SAny p) as [b p1]. destruct b; inversion Hrun; subst; contradiction.
  - unfold update in Hrun.
    destruct (mm_search from (idxR (st p))) as [|fid [|x l]]; try (inversion Hrun; reflexivity).
    destruct (from =? to); [inversion Hrun; subst; contradiction|].
    destruct (mm_hasany to (idxR (st p))); [inversion Hrun; reflexivity|].
    destruct (negb ok); [inversion Hrun; reflexivity|].
    destruct (find_rec fid (st p)); inversion Hrun; subst; [contradiction|reflexivity].
  - inversion Hrun. subst. contradiction.
  - inversion Hrun. subst. contradiction.
Qed.

(** ---------- the fuel of [descends] is enough on the graphs the harness builds ---------- *)
Lemma existsb_ext_in {A} (f g : A -> bool) l : (forall a, In a l -> f a = g a) -> existsb f l = existsb g l.
Proof.
  induction l as [|a l IH]; intros H; [reflexivity|]. cbn [existsb].
  rewrite (H a (or_introl eq_refl)), IH; [reflexivity|]. intros x Hx. apply H. right. exact Hx.
Qed.

Lemma reach_fuel g : ordered g -> forall f1 f2 from c,
  (N.to_nat from < f1)%nat -> (N.to_nat from < f2)%nat -> reach g f1 from c = reach g f2 from c.
Proof.
  intros Ho. induction f1 as [|f1 IH]; intros f2 from c H1 H2; [lia|].
  destruct f2 as [|f2]; [lia|]. cbn [reach]. apply existsb_ext_in. intros ch Hch.
  f_equal. pose proof (Ho from ch Hch) as Hlt. apply IH; lia.
Qed.

Theorem descends_fuel g : ordered g -> forall fuel from c,
  (N.to_nat from < fuel)%nat -> reach g fuel from c = descends g from c.
Proof. intros Ho fuel from c H. unfold descends. apply reach_fuel; [exact Ho|exact H|lia]. Qed.
