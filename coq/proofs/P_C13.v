(** C13 — proofs about the provide walker model (model/M_C13.v). *)
From Coq Require Import List Arith NArith Bool Lia.
From V Require Import lib.Verdict lib.Bloom model.M_C13.
Import ListNotations.

(** ---------- basics: CIDs, membership ---------- *)
Lemma cid_eqb_eq : forall a b, cid_eqb a b = true <-> a = b.
Proof.
  intros [a1 a2] [b1 b2]. unfold cid_eqb. cbn [fst snd].
  rewrite andb_true_iff, !N.eqb_eq. split.
  - intros [-> ->]. reflexivity.
  - intros H. inversion H. split; reflexivity.
Qed.

Lemma cid_eqb_refl : forall a, cid_eqb a a = true.
Proof. intros a. apply cid_eqb_eq. reflexivity. Qed.

Lemma cid_eq_dec : forall a b : cid, {a = b} + {a <> b}.
Proof.
  intros a b. destruct (cid_eqb a b) eqn:E.
  - left. apply cid_eqb_eq, E.
  - right. intros H. apply cid_eqb_eq in H. congruence.
Qed.

Lemma mem_In : forall c l, mem c l = true <-> In c l.
Proof.
  intros c l. unfold mem. rewrite existsb_exists. split.
  - intros [x [Hx He]]. apply cid_eqb_eq in He. subst. exact Hx.
  - intros H. exists c. split; [exact H | apply cid_eqb_refl].
Qed.

Lemma mem_false_In : forall c l, mem c l = false <-> ~ In c l.
Proof.
  intros c l. rewrite <- mem_In. destruct (mem c l); split; intros H; congruence.
Qed.

(** ---------- the stop-free core of [loop] ---------- *)
Definition pre (g : graph) (c : cid) : list cid :=
  if n_ident (lookup g c) then [] else [c].

Fixpoint run (fuel : nat) (g : graph) (o : wopts) (st V : list cid) : option (list cid * list cid) :=
  match fuel with
  | O => None
  | S fuel' =>
    match st with
    | [] => Some ([], V)
    | c :: st' =>
      if mem (o_key o c) V then run fuel' g o st' V else
      let V1 := o_key o c :: V in
      match expand g (o_loc o) (o_entity o) c with
      | None => run fuel' g o st' V1
      | Some ks =>
          match run fuel' g o (ks ++ st') V1 with
          | None => None
          | Some (e, V') => Some (pre g c ++ e, V')
          end
      end
    end
  end.

Definition lift3 (r : option (list cid * list cid)) : option (list cid * list cid * res) :=
  match r with None => None | Some (e, V) => Some (e, V, RNil) end.

Lemma loop_never : forall fuel g o n st V,
  o_dedup o = true ->
  loop fuel g o SNever n st V = lift3 (run fuel g o st V).
Proof.
  induction fuel as [|f IH]; intros g o n st V Hd; [reflexivity|].
  cbn [loop run]. destruct st as [|c st']; [reflexivity|].
  cbn [cancelled emit_goes_on]. rewrite Hd. cbn [andb].
  destruct (mem (o_key o c) V) eqn:Hm; [apply IH, Hd|].
  destruct (expand g (o_loc o) (o_entity o) c) as [ks|] eqn:He; [|apply IH, Hd].
  unfold pre. destruct (n_ident (lookup g c)) eqn:Hi.
  - rewrite IH by exact Hd. cbn [app]. destruct (run f g o (ks ++ st') (o_key o c :: V)) as [[e V']|]; reflexivity.
  - rewrite IH by exact Hd. destruct (run f g o (ks ++ st') (o_key o c :: V)) as [[e V']|]; reflexivity.
Qed.

(** ---------- fuel ---------- *)
Fixpoint wsum (key : cid -> cid) (g : graph) (V : list cid) : nat :=
  match g with
  | [] => O
  | (c, n) :: r => (if mem (key c) V then O else links_len n) + wsum key r V
  end.

Lemma wsum_le_weight : forall key g V, wsum key g V <= weight g.
Proof.
  induction g as [|[c n] r IH]; intros V; cbn [wsum weight]; [lia|].
  specialize (IH V). destruct (mem (key c) V); lia.
Qed.

Lemma mem_cons_mono : forall x k V, mem x V = true -> mem x (k :: V) = true.
Proof. intros x k V H. apply mem_In. right. apply mem_In, H. Qed.

Lemma wsum_mono : forall key g k V, wsum key g (k :: V) <= wsum key g V.
Proof.
  induction g as [|[c n] r IH]; intros k V; cbn [wsum]; [lia|].
  specialize (IH k V). destruct (mem (key c) V) eqn:E.
  - rewrite (mem_cons_mono _ k _ E). lia.
  - destruct (mem (key c) (k :: V)); lia.
Qed.

Lemma wsum_drop : forall key g c V,
  mem (key c) V = false ->
  links_len (lookup g c) + wsum key g (key c :: V) <= wsum key g V.
Proof.
  induction g as [|[c' n] r IH]; intros c V Hm; cbn [wsum lookup].
  - cbn. lia.
  - destruct (cid_eqb c c') eqn:E.
    + apply cid_eqb_eq in E. subst c'. rewrite Hm.
      assert (H1 : mem (key c) (key c :: V) = true) by (apply mem_In; left; reflexivity).
      rewrite H1. pose proof (wsum_mono key r (key c) V). lia.
    + specialize (IH c V Hm).
      destruct (mem (key c') V) eqn:E2.
      * rewrite (mem_cons_mono _ (key c) _ E2). lia.
      * destruct (mem (key c') (key c :: V)); lia.
Qed.

Lemma children_len : forall ent n ks, children ent n = Some ks -> length ks <= links_len n.
Proof.
  intros ent n ks H. unfold children, links_len in *.
  destruct (n_links n) as [ls|]; [|discriminate].
  destruct ent; [|inversion H; subst; lia].
  destruct (entity_of n); inversion H; subst; cbn [length]; lia.
Qed.

Lemma expand_len : forall g loc ent c ks,
  expand g loc ent c = Some ks -> length ks <= links_len (lookup g c).
Proof.
  intros g loc ent c ks H. unfold expand in H.
  destruct loc; [destruct (n_loc (lookup g c)); try discriminate|]; eapply children_len, H.
Qed.

Lemma run_total : forall fuel g o st V,
  length st + wsum (o_key o) g V < fuel -> exists r, run fuel g o st V = Some r.
Proof.
  induction fuel as [|f IH]; intros g o st V Hlt; [lia|].
  cbn [run]. destruct st as [|c st']; [eexists; reflexivity|].
  cbn [length] in Hlt.
  destruct (mem (o_key o c) V) eqn:Hm.
  - apply IH. lia.
  - destruct (expand g (o_loc o) (o_entity o) c) as [ks|] eqn:He.
    + pose proof (expand_len _ _ _ _ _ He) as Hl.
      pose proof (wsum_drop (o_key o) g c V Hm) as Hd.
      destruct (IH g o (ks ++ st') (o_key o c :: V)) as [[e V'] Hr].
      { rewrite app_length. lia. }
      rewrite Hr. eexists; reflexivity.
    + apply IH. pose proof (wsum_mono (o_key o) g (o_key o c) V). lia.
Qed.

Lemma run_fuel_of : forall g o st V, exists r, run (fuel_of g st) g o st V = Some r.
Proof.
  intros g o st V. apply run_total. unfold fuel_of.
  pose proof (wsum_le_weight (o_key o) g V). lia.
Qed.

Lemma run_mono : forall n m g o st V r,
  run n g o st V = Some r -> n <= m -> run m g o st V = Some r.
Proof.
  induction n as [|n IH]; intros m g o st V r H Hle; [discriminate|].
  destruct m as [|m]; [lia|]. cbn [run] in *.
  destruct st as [|c st']; [exact H|].
  destruct (mem (o_key o c) V); [apply IH; [exact H|lia]|].
  destruct (expand g (o_loc o) (o_entity o) c) as [ks|]; [|apply IH; [exact H|lia]].
  destruct (run n g o (ks ++ st') (o_key o c :: V)) as [[e V']|] eqn:Hr; [|discriminate].
  rewrite (IH m _ _ _ _ _ Hr) by lia. exact H.
Qed.

(** ---------- the recursive reference, with [pre] ---------- *)
Lemma dfs_unfold : forall f g o c cs V,
  dfs (S f) g o (c :: cs) V =
  if mem (o_key o c) V then dfs f g o cs V else
  match expand g (o_loc o) (o_entity o) c with
  | None => dfs f g o cs (o_key o c :: V)
  | Some ks =>
      match dfs f g o ks (o_key o c :: V) with
      | None => None
      | Some (e1, V2) =>
          match dfs f g o cs V2 with
          | None => None
          | Some (e2, V3) => Some (pre g c ++ e1 ++ e2, V3)
          end
      end
  end.
Proof. reflexivity. Qed.

(** the classical equivalence, generalised over the rest of the stack *)
Lemma run_split : forall n g o cs st V e V',
  run n g o (cs ++ st) V = Some (e, V') ->
  exists e1 V2 e2 n2,
    dfs n g o cs V = Some (e1, V2) /\ run n2 g o st V2 = Some (e2, V') /\
    e = e1 ++ e2 /\ n2 <= n.
Proof.
  induction n as [|n IH]; intros g o cs st V e V' H; [discriminate|].
  destruct cs as [|c cs'].
  - exists [], V, e, (S n). cbn [app] in H. repeat split; [exact H | lia].
  - rewrite dfs_unfold. cbn [app run] in H.
    destruct (mem (o_key o c) V) eqn:Hm.
    + destruct (IH _ _ _ _ _ _ _ H) as (e1 & V2 & e2 & n2 & Hd & Hr & He & Hn).
      exists e1, V2, e2, n2. repeat split; try assumption. lia.
    + destruct (expand g (o_loc o) (o_entity o) c) as [ks|] eqn:Hx.
      * destruct (run n g o (ks ++ cs' ++ st) (o_key o c :: V)) as [[e0 V0]|] eqn:Hr0; [|discriminate].
        inversion H; subst e V0; clear H.
        destruct (IH _ _ _ _ _ _ _ Hr0) as (ea & Va & eb & n2 & Hda & Hrb & Hea & Hn2).
        pose proof (run_mono _ n _ _ _ _ _ Hrb Hn2) as Hrb'.
        destruct (IH _ _ _ _ _ _ _ Hrb') as (ec & Vc & ed & n3 & Hdc & Hrd & Hec & Hn3).
        rewrite Hda, Hdc.
        exists (pre g c ++ ea ++ ec), Vc, ed, n3. repeat split; try assumption; [|lia].
        subst e0 eb. rewrite <- !app_assoc. reflexivity.
      * destruct (IH _ _ _ _ _ _ _ H) as (e1 & V2 & e2 & n2 & Hd & Hr & He & Hn).
        exists e1, V2, e2, n2. repeat split; try assumption. lia.
Qed.

Lemma run_eq_dfs : forall g o roots V,
  exists e V', run (fuel_of g roots) g o roots V = Some (e, V') /\
               dfs (fuel_of g roots) g o roots V = Some (e, V').
Proof.
  intros g o roots V. destruct (run_fuel_of g o roots V) as [[e V'] Hr].
  exists e, V'. split; [exact Hr|].
  pose proof Hr as Hr'. rewrite <- (app_nil_r roots) in Hr' at 2.
  destruct (run_split _ _ _ _ _ _ _ _ Hr') as (e1 & V2 & e2 & n2 & Hd & Hr2 & He & Hn).
  destruct n2 as [|n2]; [discriminate|]. cbn [run] in Hr2. inversion Hr2; subst.
  rewrite app_nil_r. exact Hd.
Qed.

(** ---------- properties of the reference ---------- *)
Section Props.
  Variable g : graph.
  Variable o : wopts.
  Let key := o_key o.
  Let opn (c : cid) : bool := is_open g o c.
  Let kd (c : cid) : list cid := kids g o c.
  Let idt (c : cid) : bool := n_ident (lookup g c).

  (** reachable from [roots] through nodes the walker can descend into *)
  Inductive reach (roots : list cid) : cid -> Prop :=
  | reach_root : forall c, In c roots -> reach roots c
  | reach_step : forall p c, reach roots p -> In c (kids g o p) -> reach roots c.

  Lemma reach_lift : forall A B x,
    (forall r, In r A -> reach B r) -> reach A x -> reach B x.
  Proof.
    intros A B x HA H. induction H as [c Hc | p c Hp IH Hc].
    - apply HA, Hc.
    - eapply reach_step; [exact IH | exact Hc].
  Qed.

  Lemma expand_kids : forall c ks, expand g (o_loc o) (o_entity o) c = Some ks ->
    kids g o c = ks /\ is_open g o c = true.
  Proof. intros c ks H. unfold kids, is_open. rewrite H. split; reflexivity. Qed.

  Lemma expand_none : forall c, expand g (o_loc o) (o_entity o) c = None ->
    kids g o c = [] /\ is_open g o c = false.
  Proof. intros c H. unfold kids, is_open. rewrite H. split; reflexivity. Qed.

  Lemma in_pre : forall c x, In x (pre g c) -> x = c /\ n_ident (lookup g c) = false.
  Proof.
    intros c x H. unfold pre in H. destruct (n_ident (lookup g c)); [destruct H|].
    destruct H as [H|[]]. split; [symmetry; exact H | reflexivity].
  Qed.

  (** soundness: only reachable, available, non-identity CIDs *)
  Lemma dfs_sound : forall f cs V e V',
    dfs f g o cs V = Some (e, V') ->
    forall x, In x e -> reach cs x /\ is_open g o x = true /\ n_ident (lookup g x) = false.
  Proof.
    induction f as [|f IH]; intros cs V e V' H x Hx; [discriminate|].
    destruct cs as [|c cs']; [cbn in H; inversion H; subst; destruct Hx|].
    rewrite dfs_unfold in H.
    assert (Htail : forall y, reach cs' y -> reach (c :: cs') y).
    { intros y. apply reach_lift. intros r Hr. apply reach_root. right. exact Hr. }
    destruct (mem (o_key o c) V) eqn:Hm.
    { destruct (IH _ _ _ _ H x Hx) as (Hr & Ho & Hi). auto. }
    destruct (expand g (o_loc o) (o_entity o) c) as [ks|] eqn:He.
    2:{ destruct (IH _ _ _ _ H x Hx) as (Hr & Ho & Hi). auto. }
    destruct (dfs f g o ks (o_key o c :: V)) as [[e1 V2]|] eqn:H1; [|discriminate].
    destruct (dfs f g o cs' V2) as [[e2 V3]|] eqn:H2; [|discriminate].
    inversion H; subst e V3; clear H.
    destruct (expand_kids _ _ He) as [Hk Hop].
    apply in_app_or in Hx. destruct Hx as [Hx|Hx].
    - apply in_pre in Hx. destruct Hx as [-> Hi]. repeat split; try assumption.
      apply reach_root. left. reflexivity.
    - apply in_app_or in Hx. destruct Hx as [Hx|Hx].
      + destruct (IH _ _ _ _ H1 x Hx) as (Hr & Ho & Hi). repeat split; try assumption.
        eapply reach_lift; [|exact Hr]. intros r Hr'.
        eapply reach_step; [apply reach_root; left; reflexivity|]. rewrite Hk. exact Hr'.
      + destruct (IH _ _ _ _ H2 x Hx) as (Hr & Ho & Hi). auto.
  Qed.

  (** the tracker only grows; emitted keys are new, end up in the tracker, and are pairwise distinct *)
  Lemma nodup_app_intro : forall (A : Type) (a b : list A),
    NoDup a -> NoDup b -> (forall x, In x a -> ~ In x b) -> NoDup (a ++ b).
  Proof.
    intros A a b Ha Hb Hd. induction Ha as [|x a Hx Ha IH]; [exact Hb|].
    cbn [app]. constructor.
    - intros Hin. apply in_app_or in Hin. destruct Hin as [Hin|Hin]; [exact (Hx Hin)|].
      apply (Hd x); [left; reflexivity | exact Hin].
    - apply IH. intros y Hy. apply Hd. right. exact Hy.
  Qed.

  Lemma dfs_keys : forall f cs V e V',
    dfs f g o cs V = Some (e, V') ->
    incl V V' /\
    (forall x, In x e -> In (o_key o x) V' /\ ~ In (o_key o x) V) /\
    NoDup (map (o_key o) e).
  Proof.
    induction f as [|f IH]; intros cs V e V' H; [discriminate|].
    destruct cs as [|c cs'].
    { cbn in H. inversion H; subst. split; [apply incl_refl|]. split; [intros x []|constructor]. }
    rewrite dfs_unfold in H.
    destruct (mem (o_key o c) V) eqn:Hm; [exact (IH _ _ _ _ H)|].
    apply mem_false_In in Hm.
    destruct (expand g (o_loc o) (o_entity o) c) as [ks|] eqn:He.
    2:{ destruct (IH _ _ _ _ H) as (Hi & Hk & Hn). split; [|split].
        - intros y Hy. apply Hi. right. exact Hy.
        - intros x Hx. split; [apply Hk, Hx|].
          intros Hin. apply (Hk x Hx). right. exact Hin.
        - exact Hn. }
    destruct (dfs f g o ks (o_key o c :: V)) as [[e1 V2]|] eqn:H1; [|discriminate].
    destruct (dfs f g o cs' V2) as [[e2 V3]|] eqn:H2; [|discriminate].
    inversion H; subst e V3; clear H.
    destruct (IH _ _ _ _ H1) as (Hi1 & Hk1 & Hn1).
    destruct (IH _ _ _ _ H2) as (Hi2 & Hk2 & Hn2).
    assert (HcV2 : In (o_key o c) V2) by (apply Hi1; left; reflexivity).
    split; [|split].
    - intros y Hy. apply Hi2, Hi1. right. exact Hy.
    - intros x Hx. split.
      + apply in_app_or in Hx. destruct Hx as [Hx|Hx].
        * apply in_pre in Hx. destruct Hx as [-> _]. apply Hi2, HcV2.
        * apply in_app_or in Hx. destruct Hx as [Hx|Hx].
          -- apply Hi2, (Hk1 x Hx).
          -- apply (Hk2 x Hx).
      + intros Hin. apply in_app_or in Hx. destruct Hx as [Hx|Hx].
        * apply in_pre in Hx. destruct Hx as [-> _]. exact (Hm Hin).
        * apply in_app_or in Hx. destruct Hx as [Hx|Hx].
          -- apply (Hk1 x Hx). right. exact Hin.
          -- apply (Hk2 x Hx). apply Hi1. right. exact Hin.
    - rewrite !map_app. apply nodup_app_intro.
      + unfold pre. destruct (n_ident (lookup g c)); cbn [map]; repeat constructor. intros [].
      + apply nodup_app_intro; [exact Hn1 | exact Hn2 |].
        intros k Hk1' Hk2'. apply in_map_iff in Hk1'. destruct Hk1' as (x1 & <- & Hx1).
        apply in_map_iff in Hk2'. destruct Hk2' as (x2 & Heq & Hx2).
        apply (Hk2 x2 Hx2). rewrite Heq. apply (Hk1 x1 Hx1).
      + intros k Hkp Hk12. apply in_map_iff in Hkp. destruct Hkp as (x0 & <- & Hx0).
        apply in_pre in Hx0. destruct Hx0 as [-> _].
        apply in_app_or in Hk12. destruct Hk12 as [Hk|Hk];
          apply in_map_iff in Hk; destruct Hk as (x1 & Heq & Hx1).
        * apply (Hk1 x1 Hx1). rewrite Heq. left. reflexivity.
        * apply (Hk2 x1 Hx1). rewrite Heq. exact HcV2.
  Qed.
End Props.

(** ---------- completeness ---------- *)
(** Among the CIDs in [P] (instantiated with: reachable from the roots), CIDs that
    share a tracker key look alike to the walker.  True for CIDv0/v1 aliases of
    one block under one codec; trivially true for cid.Set. *)
Definition respects_on (P : cid -> Prop) (g : graph) (o : wopts) : Prop :=
  forall a b, P a -> P b -> o_key o a = o_key o b ->
    is_open g o a = is_open g o b /\
    n_ident (lookup g a) = n_ident (lookup g b) /\
    map (o_key o) (kids g o a) = map (o_key o) (kids g o b).

Definition respects (g : graph) (o : wopts) (roots : list cid) : Prop :=
  respects_on (reach g o roots) g o.

Section Complete.
  Variable g : graph.
  Variable o : wopts.
  Variable P : cid -> Prop.
  Hypothesis P_closed : forall p c, P p -> In c (kids g o p) -> P c.
  Hypothesis Hresp : respects_on P g o.

  Lemma dfs_closed : forall f cs V e V',
    (forall c, In c cs -> P c) ->
    dfs f g o cs V = Some (e, V') ->
    (forall c, In c cs -> In (o_key o c) V') /\
    (forall x, P x -> In (o_key o x) V' -> ~ In (o_key o x) V ->
       (forall k, In k (kids g o x) -> In (o_key o k) V') /\
       (is_open g o x = true -> n_ident (lookup g x) = false -> In (o_key o x) (map (o_key o) e))).
  Proof.
    induction f as [|f IH]; intros cs V e V' HP H; [discriminate|].
    destruct cs as [|c cs'].
    { cbn in H. inversion H; subst. split; [intros c []|]. intros x _ Hin Hnin. contradiction. }
    pose proof (dfs_keys g o _ _ _ _ _ H) as (Hincl & _ & _).
    assert (HPc : P c) by (apply HP; left; reflexivity).
    assert (HPcs : forall c0, In c0 cs' -> P c0) by (intros c0 Hc0; apply HP; right; exact Hc0).
    rewrite dfs_unfold in H.
    destruct (mem (o_key o c) V) eqn:Hm.
    { apply mem_In in Hm. destruct (IH _ _ _ _ HPcs H) as (HA & HB). split; [|exact HB].
      intros c0 [<-|Hc0]; [apply Hincl, Hm | apply HA, Hc0]. }
    apply mem_false_In in Hm.
    destruct (expand g (o_loc o) (o_entity o) c) as [ks|] eqn:He.
    2:{ destruct (IH _ _ _ _ HPcs H) as (HA & HB).
        pose proof (dfs_keys g o _ _ _ _ _ H) as (Hincl1 & _ & _).
        destruct (expand_none g o _ He) as [Hk0 Ho0].
        split.
        - intros c0 [<-|Hc0]; [apply Hincl1; left; reflexivity | apply HA, Hc0].
        - intros x HPx Hin Hnin.
          destruct (cid_eq_dec (o_key o x) (o_key o c)) as [Heq|Hne].
          + destruct (Hresp x c HPx HPc Heq) as (Hop & Hid & Hkk). split.
            * intros k Hk. rewrite Hk0 in Hkk. cbn [map] in Hkk.
              apply (in_map (o_key o)) in Hk. rewrite Hkk in Hk. destruct Hk.
            * intros Hox. rewrite Hop, Ho0 in Hox. discriminate.
          + apply HB; [exact HPx | exact Hin|]. intros [Hc|Hc]; [apply Hne; symmetry; exact Hc | exact (Hnin Hc)]. }
    destruct (dfs f g o ks (o_key o c :: V)) as [[e1 V2]|] eqn:H1; [|discriminate].
    destruct (dfs f g o cs' V2) as [[e2 V3]|] eqn:H2; [|discriminate].
    inversion H; subst e V3; clear H.
    destruct (expand_kids g o _ _ He) as [Hkc Hoc].
    assert (HPks : forall c0, In c0 ks -> P c0).
    { intros c0 Hc0. apply (P_closed c); [exact HPc | rewrite Hkc; exact Hc0]. }
    destruct (IH _ _ _ _ HPks H1) as (HA1 & HB1).
    destruct (IH _ _ _ _ HPcs H2) as (HA2 & HB2).
    pose proof (dfs_keys g o _ _ _ _ _ H1) as (Hi1 & _ & _).
    pose proof (dfs_keys g o _ _ _ _ _ H2) as (Hi2 & _ & _).
    split.
    - intros c0 [<-|Hc0]; [apply Hi2, Hi1; left; reflexivity | apply HA2, Hc0].
    - intros x HPx Hin Hnin.
      destruct (cid_eq_dec (o_key o x) (o_key o c)) as [Heq|Hne].
      + destruct (Hresp x c HPx HPc Heq) as (Hop & Hid & Hkk). split.
        * intros k Hk. apply (in_map (o_key o)) in Hk. rewrite Hkk, Hkc in Hk.
          apply in_map_iff in Hk. destruct Hk as (k' & Hk' & Hin').
          rewrite <- Hk'. apply Hi2, HA1, Hin'.
        * intros _ Hix. rewrite Hid in Hix. rewrite Heq, !map_app.
          apply in_or_app. left. unfold pre. rewrite Hix. left. reflexivity.
      + destruct (in_dec cid_eq_dec (o_key o x) V2) as [Hx2|Hx2].
        * assert (Hn1 : ~ In (o_key o x) (o_key o c :: V)).
          { intros [Hc|Hc]; [apply Hne; symmetry; exact Hc | exact (Hnin Hc)]. }
          destruct (HB1 x HPx Hx2 Hn1) as (Hk & Hem). split.
          -- intros k Hkk. apply Hi2, Hk, Hkk.
          -- intros Ho Hi. rewrite !map_app. apply in_or_app. right. apply in_or_app. left. apply Hem; assumption.
        * destruct (HB2 x HPx Hin Hx2) as (Hk & Hem). split; [exact Hk|].
          intros Ho Hi. rewrite !map_app. apply in_or_app. right. apply in_or_app. right. apply Hem; assumption.
  Qed.
End Complete.

(** with a fresh tracker: every key of a reachable node ends up in the tracker,
    and every reachable, available, non-identity node has its key emitted *)
Lemma dfs_complete : forall g o f roots e V',
  respects g o roots ->
  dfs f g o roots [] = Some (e, V') ->
  forall x, reach g o roots x ->
    In (o_key o x) V' /\
    (is_open g o x = true -> n_ident (lookup g x) = false -> In (o_key o x) (map (o_key o) e)).
Proof.
  intros g o f roots e V' Hresp H.
  destruct (dfs_closed g o (reach g o roots) (fun p c Hp Hc => reach_step g o roots p c Hp Hc) Hresp
              _ _ _ _ _ (fun c Hc => reach_root g o roots c Hc) H) as (HA & HB).
  assert (Hin : forall x, reach g o roots x -> In (o_key o x) V').
  { intros x Hx. induction Hx as [c Hc | p c Hp IH Hc]; [apply HA, Hc|].
    destruct (HB p Hp IH (fun F => F)) as (Hk & _). apply Hk, Hc. }
  intros x Hx. split; [apply Hin, Hx|].
  destruct (HB x Hx (Hin x Hx) (fun F => F)) as (_ & Hem). exact Hem.
Qed.

(** ---------- walks sharing a tracker ---------- *)
Lemma run_seq : forall n1 n2 g o cs st V e1 V1 e2 V2,
  run n1 g o cs V = Some (e1, V1) -> run n2 g o st V1 = Some (e2, V2) ->
  run (n1 + n2) g o (cs ++ st) V = Some (e1 ++ e2, V2).
Proof.
  induction n1 as [|n1 IH]; intros n2 g o cs st V e1 V1 e2 V2 H1 H2; [discriminate|].
  destruct cs as [|c cs'].
  - cbn [run] in H1. inversion H1; subst. cbn [app]. eapply run_mono; [exact H2|lia].
  - cbn [run app plus] in *.
    destruct (mem (o_key o c) V); [eapply IH; eassumption|].
    destruct (expand g (o_loc o) (o_entity o) c) as [ks|]; [|eapply IH; eassumption].
    destruct (run n1 g o (ks ++ cs') (o_key o c :: V)) as [[e0 V0]|] eqn:Hr; [|discriminate].
    inversion H1; subst e1 V0; clear H1.
    rewrite app_assoc. rewrite (IH _ _ _ _ _ _ _ _ _ _ Hr H2). rewrite <- app_assoc. reflexivity.
Qed.

Definition same_walks (ent loc : bool) (roots : list cid) : list walk :=
  map (fun r => mkWalk r ent loc SNever) roots.

Lemma run_walks_shared : forall fl g tk ent loc roots fuel V,
  dedups tk = true ->
  let o := mkOpts true (key_of fl tk) loc ent in
  exists outs n V',
    run_walks fl g tk fuel (same_walks ent loc roots) V = Some (outs, V') /\
    Forall (fun x => snd x = RNil) outs /\
    run n g o roots V = Some (concat (map fst outs), V').
Proof.
  intros fl g tk ent loc roots fuel V Hd o. revert V.
  induction roots as [|r roots IH]; intros V.
  - exists [], 1, V. cbn. repeat split. constructor.
  - cbn [same_walks map run_walks w_root w_stop]. rewrite Hd.
    assert (Ho : opts_of fl tk (mkWalk r ent loc SNever) = o).
    { unfold opts_of, o. cbn [w_loc w_entity]. rewrite Hd. reflexivity. }
    rewrite Ho. rewrite loop_never by reflexivity.
    destruct (run_fuel_of g o [r] V) as [[e1 V1] Hr1]. rewrite Hr1. cbn [lift3].
    destruct (IH V1) as (outs & n & V' & Hw & Hall & Hrun).
    fold (same_walks ent loc roots). rewrite Hw.
    exists ((e1, RNil) :: outs), (fuel_of g [r] + n), V'. split; [reflexivity|]. split.
    + constructor; [reflexivity | exact Hall].
    + cbn [map fst concat]. change (r :: roots) with ([r] ++ roots). eapply run_seq; eassumption.
Qed.

(** ---------- early stops ---------- *)
Lemma loop_false_prefix : forall f g o k n st V efull Vf,
  o_dedup o = true -> n < k ->
  run f g o st V = Some (efull, Vf) ->
  exists V', loop f g o (SFalseAt k) n st V = Some (firstn (k - n) efull, V', RNil).
Proof.
  induction f as [|f IH]; intros g o k n st V efull Vf Hd Hn H; [discriminate|].
  cbn [run loop] in *. destruct st as [|c st'].
  - inversion H; subst. rewrite firstn_nil. eexists; reflexivity.
  - cbn [cancelled]. rewrite Hd. cbn [andb].
    destruct (mem (o_key o c) V); [eapply IH; eassumption|].
    destruct (expand g (o_loc o) (o_entity o) c) as [ks|]; [|eapply IH; eassumption].
    destruct (run f g o (ks ++ st') (o_key o c :: V)) as [[e0 V0]|] eqn:Hr; [|discriminate].
    inversion H; subst efull V0; clear H. unfold pre.
    destruct (n_ident (lookup g c)); [cbn [app]; eapply IH; eassumption|].
    cbn [emit_goes_on app].
    destruct (S n =? k) eqn:E.
    + apply Nat.eqb_eq in E. cbn [negb]. replace (k - n) with 1 by lia. cbn [firstn]. eexists; reflexivity.
    + apply Nat.eqb_neq in E. cbn [negb].
      destruct (IH g o k (S n) _ _ _ _ Hd ltac:(lia) Hr) as [V' HV]. rewrite HV.
      replace (k - n) with (S (k - S n)) by lia. cbn [firstn]. eexists; reflexivity.
Qed.

Lemma loop_cancel_prefix : forall f g o k n st V efull Vf,
  o_dedup o = true ->
  run f g o st V = Some (efull, Vf) ->
  exists V' r, loop f g o (SCancelAt k) n st V = Some (firstn (k - n) efull, V', r).
Proof.
  induction f as [|f IH]; intros g o k n st V efull Vf Hd H; [discriminate|].
  cbn [run loop] in *. destruct st as [|c st'].
  - inversion H; subst. rewrite firstn_nil. do 2 eexists; reflexivity.
  - cbn [cancelled]. destruct (k <=? n) eqn:Ek.
    + apply Nat.leb_le in Ek. replace (k - n) with 0 by lia. cbn [firstn]. do 2 eexists; reflexivity.
    + apply Nat.leb_gt in Ek. rewrite Hd. cbn [andb].
      destruct (mem (o_key o c) V); [eapply IH; eassumption|].
      destruct (expand g (o_loc o) (o_entity o) c) as [ks|]; [|eapply IH; eassumption].
      destruct (run f g o (ks ++ st') (o_key o c :: V)) as [[e0 V0]|] eqn:Hr; [|discriminate].
      inversion H; subst efull V0; clear H. unfold pre.
      destruct (n_ident (lookup g c)); [cbn [app]; eapply IH; eassumption|].
      cbn [emit_goes_on app].
      destruct (IH g o k (S n) _ _ _ _ Hd Hr) as (V' & r & HV). rewrite HV.
      replace (k - n) with (S (k - S n)) by lia. cbn [firstn]. do 2 eexists; reflexivity.
Qed.

(** ---------- entity-root walks, spelled out on the raw graph ---------- *)
Definition avail (g : graph) (loc : bool) (c : cid) : bool :=
  (if loc then match n_loc (lookup g c) with LYes => true | _ => false end else true) &&
  match n_links (lookup g c) with Some _ => true | None => false end.
Definition links_of (g : graph) (c : cid) : list cid :=
  match n_links (lookup g c) with Some l => l | None => [] end.
Definition descends (e : entity) : bool :=
  match e with EFile | ESymlink => false | _ => true end.

Lemma is_open_avail : forall g o c, is_open g o c = avail g (o_loc o) c.
Proof.
  intros g o c. unfold is_open, avail, expand, children.
  destruct (o_loc o); [destruct (n_loc (lookup g c)); cbn [andb]; try reflexivity|cbn [andb]];
    destruct (n_links (lookup g c)); try reflexivity;
    destruct (o_entity o); try reflexivity; destruct (entity_of (lookup g c)); reflexivity.
Qed.

Lemma kids_entity : forall g o c, o_entity o = true ->
  kids g o c = if avail g (o_loc o) c && descends (entity_of (lookup g c)) then links_of g c else [].
Proof.
  intros g o c He. unfold kids, avail, expand, children, links_of, descends. rewrite He.
  destruct (o_loc o); [destruct (n_loc (lookup g c)); cbn [andb]; try reflexivity|cbn [andb]];
    destruct (n_links (lookup g c)); try reflexivity; destruct (entity_of (lookup g c)); reflexivity.
Qed.

Lemma kids_dag : forall g o c, o_entity o = false ->
  kids g o c = if avail g (o_loc o) c then links_of g c else [].
Proof.
  intros g o c He. unfold kids, avail, expand, children, links_of. rewrite He.
  destruct (o_loc o); [destruct (n_loc (lookup g c)); cbn [andb]; try reflexivity|cbn [andb]];
    destruct (n_links (lookup g c)); reflexivity.
Qed.

(** reachable without passing through an unavailable block, a file or a symlink *)
Inductive ereach (g : graph) (loc : bool) (roots : list cid) : cid -> Prop :=
| er_root : forall c, In c roots -> ereach g loc roots c
| er_step : forall p c, ereach g loc roots p -> avail g loc p = true ->
    descends (entity_of (lookup g p)) = true -> In c (links_of g p) -> ereach g loc roots c.

(** reachable through available blocks (every codec, every UnixFS type) *)
Inductive dreach (g : graph) (loc : bool) (roots : list cid) : cid -> Prop :=
| dr_root : forall c, In c roots -> dreach g loc roots c
| dr_step : forall p c, dreach g loc roots p -> avail g loc p = true ->
    In c (links_of g p) -> dreach g loc roots c.

Lemma reach_ereach : forall g o roots x, o_entity o = true ->
  (reach g o roots x <-> ereach g (o_loc o) roots x).
Proof.
  intros g o roots x He. split; intros H.
  - induction H as [c Hc | p c Hp IH Hc]; [apply er_root, Hc|].
    rewrite (kids_entity _ _ _ He) in Hc.
    destruct (avail g (o_loc o) p && descends (entity_of (lookup g p))) eqn:E; [|destruct Hc].
    apply andb_true_iff in E. destruct E as [Ea Ed]. eapply er_step; eassumption.
  - induction H as [c Hc | p c Hp IH Ha Hd Hc]; [apply reach_root, Hc|].
    eapply reach_step; [exact IH|]. rewrite (kids_entity _ _ _ He), Ha, Hd. exact Hc.
Qed.

Lemma reach_dreach : forall g o roots x, o_entity o = false ->
  (reach g o roots x <-> dreach g (o_loc o) roots x).
Proof.
  intros g o roots x He. split; intros H.
  - induction H as [c Hc | p c Hp IH Hc]; [apply dr_root, Hc|].
    rewrite (kids_dag _ _ _ He) in Hc.
    destruct (avail g (o_loc o) p) eqn:E; [|destruct Hc]. eapply dr_step; eassumption.
  - induction H as [c Hc | p c Hp IH Ha Hc]; [apply reach_root, Hc|].
    eapply reach_step; [exact IH|]. rewrite (kids_dag _ _ _ He), Ha. exact Hc.
Qed.

(** ---------- assembling: statements about [loop] itself ---------- *)
Lemma loop_total : forall g o roots V,
  o_dedup o = true ->
  exists e V', loop (fuel_of g roots) g o SNever 0 roots V = Some (e, V', RNil) /\
               dfs (fuel_of g roots) g o roots V = Some (e, V').
Proof.
  intros g o roots V Hd. destruct (run_eq_dfs g o roots V) as (e & V' & Hr & Hdfs).
  exists e, V'. rewrite loop_never by exact Hd. rewrite Hr. split; [reflexivity | exact Hdfs].
Qed.

Lemma loop_result : forall g o roots V e V' r,
  o_dedup o = true ->
  loop (fuel_of g roots) g o SNever 0 roots V = Some (e, V', r) ->
  r = RNil /\ dfs (fuel_of g roots) g o roots V = Some (e, V').
Proof.
  intros g o roots V e V' r Hd H.
  destruct (loop_total g o roots V Hd) as (e0 & V0 & Hl & Hdfs).
  rewrite Hl in H. inversion H; subst. split; [reflexivity | exact Hdfs].
Qed.

(** fuel is never the reason a walk ends, whatever the stop behaviour of the caller *)
Lemma loop_fuel_enough : forall g o sp roots V,
  o_dedup o = true ->
  exists r, loop (fuel_of g roots) g o sp 0 roots V = Some r.
Proof.
  intros g o sp roots V Hd. destruct (run_fuel_of g o roots V) as [[e Vf] Hr].
  destruct sp as [|k|k].
  - rewrite loop_never, Hr by exact Hd. eexists; reflexivity.
  - destruct k as [|k].
    + (* emit never returns false at call 0: behaves like SNever *)
      assert (Hall : forall f n st V0, loop f g o (SFalseAt 0) n st V0 = loop f g o SNever n st V0).
      { induction f as [|f IH]; intros n st V0; [reflexivity|].
        cbn [loop]. destruct st as [|c st']; [reflexivity|]. cbn [cancelled emit_goes_on Nat.eqb negb].
        destruct (o_dedup o && mem (o_key o c) V0); [apply IH|].
        destruct (expand g (o_loc o) (o_entity o) c) as [ks|]; [|apply IH].
        destruct (n_ident (lookup g c)); [apply IH|]. rewrite IH. reflexivity. }
      rewrite Hall, loop_never, Hr by exact Hd. eexists; reflexivity.
    + destruct (loop_false_prefix _ g o (S k) 0 _ _ _ _ Hd ltac:(lia) Hr) as [V' HV].
      rewrite HV. eexists; reflexivity.
  - destruct (loop_cancel_prefix _ g o k 0 _ _ _ _ Hd Hr) as (V' & r & HV).
    rewrite HV. eexists; reflexivity.
Qed.

(** ---------- the emitted set ---------- *)
Lemma emits_iff : forall g o roots e V' r,
  o_dedup o = true -> respects g o roots ->
  loop (fuel_of g roots) g o SNever 0 roots [] = Some (e, V', r) ->
  forall k, In k (map (o_key o) e) <->
            exists x, o_key o x = k /\ reach g o roots x /\ is_open g o x = true /\ n_ident (lookup g x) = false.
Proof.
  intros g o roots e V' r Hd Hresp H k.
  destruct (loop_result _ _ _ _ _ _ _ Hd H) as [_ Hdfs]. split.
  - intros Hk. apply in_map_iff in Hk. destruct Hk as (x & Hkx & Hx). exists x. split; [exact Hkx|].
    exact (dfs_sound g o _ _ _ _ _ Hdfs x Hx).
  - intros (x & <- & Hre & Ho & Hi).
    destruct (dfs_complete g o _ _ _ _ Hresp Hdfs x Hre) as (_ & Hem). apply Hem; assumption.
Qed.

(** ---------- a decision procedure for [respects] on concrete graphs (used for the
    non-vacuity examples) ---------- *)
Definition closed_list (g : graph) (o : wopts) (roots L : list cid) : bool :=
  subset_b roots L && forallb (fun p => subset_b (kids g o p) L) L.

Definition respects_b (g : graph) (o : wopts) (L : list cid) : bool :=
  forallb (fun a => forallb (fun b =>
    if cid_eqb (o_key o a) (o_key o b) then
      Bool.eqb (is_open g o a) (is_open g o b) &&
      Bool.eqb (n_ident (lookup g a)) (n_ident (lookup g b)) &&
      list_eqb cid_eqb (map (o_key o) (kids g o a)) (map (o_key o) (kids g o b))
    else true) L) L.

Lemma subset_b_incl : forall a b, subset_b a b = true -> incl a b.
Proof.
  intros a b H x Hx. unfold subset_b in H. rewrite forallb_forall in H. apply mem_In, H, Hx.
Qed.

Lemma list_eqb_cid_eq : forall l1 l2, list_eqb cid_eqb l1 l2 = true -> l1 = l2.
Proof.
  induction l1 as [|a l1 IH]; intros [|b l2] H; cbn [list_eqb] in H; try discriminate; [reflexivity|].
  apply andb_true_iff in H. destruct H as [Hab Hr]. apply cid_eqb_eq in Hab. subst. f_equal. apply IH, Hr.
Qed.

Lemma reach_in_closed : forall g o roots L x,
  closed_list g o roots L = true -> reach g o roots x -> In x L.
Proof.
  intros g o roots L x Hc H. unfold closed_list in Hc. apply andb_true_iff in Hc. destruct Hc as [Hr Hk].
  rewrite forallb_forall in Hk.
  induction H as [c Hc | p c Hp IH Hc]; [apply (subset_b_incl _ _ Hr), Hc|].
  apply (subset_b_incl _ _ (Hk p IH)), Hc.
Qed.

Lemma respects_b_sound : forall g o roots L,
  closed_list g o roots L = true -> respects_b g o L = true -> respects g o roots.
Proof.
  intros g o roots L Hc Hb a b Ha Hbb Hk.
  pose proof (reach_in_closed _ _ _ _ _ Hc Ha) as HaL.
  pose proof (reach_in_closed _ _ _ _ _ Hc Hbb) as HbL.
  unfold respects_b in Hb. rewrite forallb_forall in Hb. specialize (Hb a HaL).
  rewrite forallb_forall in Hb. specialize (Hb b HbL).
  rewrite Hk, cid_eqb_refl in Hb.
  apply andb_true_iff in Hb. destruct Hb as [Hb H3]. apply andb_true_iff in Hb. destruct Hb as [H1 H2].
  apply eqb_prop in H1. apply eqb_prop in H2. apply list_eqb_cid_eq in H3. repeat split; assumption.
Qed.

(** ---------- the repaired tracker key ---------- *)
Lemma kcm_kmh : forall a b, kcm a = kcm b -> kmh a = kmh b.
Proof.
  intros [a1 a2] [b1 b2] H. unfold kcm, kmh in *. cbn [fst snd] in *. inversion H. reflexivity.
Qed.

(** keyed by codec and multihash: every reachable, available, non-identity CID has
    its MULTIHASH announced *)
Lemma announces_all : forall g o roots e V' r,
  o_dedup o = true -> o_key o = kcm -> respects g o roots ->
  loop (fuel_of g roots) g o SNever 0 roots [] = Some (e, V', r) ->
  forall x, reach g o roots x -> is_open g o x = true -> n_ident (lookup g x) = false ->
            In (kmh x) (map kmh e).
Proof.
  intros g o roots e V' r Hd Hk Hresp H x Hre Ho Hi.
  assert (Hin : In (o_key o x) (map (o_key o) e)).
  { apply (emits_iff _ _ _ _ _ _ Hd Hresp H). exists x. auto. }
  rewrite Hk in Hin. apply in_map_iff in Hin. destruct Hin as (y & Hy & Hye).
  apply in_map_iff. exists y. split; [apply kcm_kmh, Hy | exact Hye].
Qed.
