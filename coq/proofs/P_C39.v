(** C39 — proofs about the multipart model [model/M_C39.v]. *)
From Coq Require Import String List ZArith Bool Lia ZifyBool.
From V Require Import lib.Verdict model.M_C39.
Import ListNotations.
Open Scope Z_scope.

Ltac Zify.zify_post_hook ::= Z.div_mod_to_equations.

(** ---------- generic list / byte-string facts ---------- *)
Lemma bytes_eqb_refl : forall a, bytes_eqb a a = true.
Proof. induction a as [|x a IH]; cbn; [reflexivity|]. rewrite Z.eqb_refl, IH. reflexivity. Qed.

Lemma bytes_eqb_eq : forall a b, bytes_eqb a b = true <-> a = b.
Proof.
  induction a as [|x a IH]; intros [|y b]; cbn; split; intro H; try reflexivity; try discriminate.
  - apply andb_true_iff in H. destruct H as [H1 H2]. apply Z.eqb_eq in H1. apply IH in H2. congruence.
  - inversion H; subst. rewrite Z.eqb_refl. cbn. apply bytes_eqb_refl.
Qed.

Lemma bytes_eqb_neq : forall a b, a <> b -> bytes_eqb a b = false.
Proof. intros a b H. destruct (bytes_eqb a b) eqn:E; [apply bytes_eqb_eq in E; contradiction|reflexivity]. Qed.

Lemma memb_false_app : forall c a b, memb c (a ++ b) = memb c a || memb c b.
Proof. intros. unfold memb. apply existsb_app. Qed.

(** ---------- strconv ---------- *)
Definition dstep (b : Z) (a d : Z) : Z := a * b + d.

Lemma parse_digits_chars : forall b ds acc r,
  Forall (fun d => 0 <= d < b) ds ->
  parse_digits b acc (map (fun d => 48 + d) ds ++ r) = parse_digits b (fold_left (dstep b) ds acc) r.
Proof.
  intros b ds. induction ds as [|d ds IH]; intros acc r HF; cbn [map app fold_left parse_digits]; [reflexivity|].
  inversion HF as [|? ? Hd HF']; subst. cbn beta in Hd.
  replace ((48 <=? 48 + d) && (48 + d <? 48 + b)) with true by lia.
  rewrite IH by assumption. f_equal. f_equal. unfold dstep. lia.
Qed.

Lemma to_digits_range : forall f b n, 1 < b -> 0 <= n -> Forall (fun d => 0 <= d < b) (to_digits f b n).
Proof.
  induction f as [|f IH]; intros b n Hb Hn; cbn [to_digits]; [constructor|].
  destruct (n <? b) eqn:E.
  - constructor; [lia|constructor].
  - apply Forall_app. split.
    + apply IH; [assumption|]. apply Z.div_pos; lia.
    + constructor; [|constructor]. apply Z.mod_pos_bound. lia.
Qed.

Lemma to_digits_value : forall f b n, 1 < b -> 0 <= n < b ^ Z.of_nat f ->
  fold_left (dstep b) (to_digits f b n) 0 = n.
Proof.
  induction f as [|f IH]; intros b n Hb Hn.
  - cbn [to_digits fold_left]. change (Z.of_nat 0) with 0 in Hn. rewrite Z.pow_0_r in Hn. lia.
  - cbn [to_digits]. destruct (n <? b) eqn:E.
    + cbn [fold_left]. unfold dstep. lia.
    + rewrite fold_left_app. cbn [fold_left]. rewrite IH; [unfold dstep; lia|assumption|].
      split; [apply Z.div_pos; lia|].
      apply Z.div_lt_upper_bound; [lia|].
      replace (Z.of_nat (S f)) with (Z.of_nat f + 1) in Hn by lia.
      rewrite Z.pow_add_r in Hn by lia. lia.
Qed.

Lemma to_digits_nonempty : forall f b n, to_digits (S f) b n <> [].
Proof.
  intros f b n. cbn [to_digits]. destruct (n <? b); [discriminate|].
  intro H. apply app_eq_nil in H. destruct H; discriminate.
Qed.

Lemma pow_bound : forall b, 2 <= b -> 2 ^ 64 <= b ^ 64.
Proof. intros b Hb. apply Z.pow_le_mono_l. lia. Qed.

(** FormatUint followed by the digit loop of ParseUint gives the number back *)
Lemma digits_roundtrip : forall b n r, 2 <= b -> 0 <= n < 2 ^ 64 ->
  parse_digits b 0 (digit_chars b n ++ r) = parse_digits b n r.
Proof.
  intros b n r Hb Hn. unfold digit_chars.
  rewrite parse_digits_chars by (apply to_digits_range; lia).
  rewrite to_digits_value; [reflexivity|lia|].
  change (Z.of_nat 64) with 64. pose proof (pow_bound b Hb). lia.
Qed.

Lemma digit_chars_head : forall b n, 2 <= b -> b <= 10 -> 0 <= n ->
  exists c r, digit_chars b n = c :: r /\ 48 <= c <= 57.
Proof.
  intros b n Hb Hb' Hn. unfold digit_chars.
  pose proof (to_digits_range 64 b n ltac:(lia) Hn) as HF.
  destruct (to_digits 64 b n) as [|d ds] eqn:E; [exfalso; eapply to_digits_nonempty; exact E|].
  inversion HF; subst. cbn [map]. eexists; eexists; split; [reflexivity|lia].
Qed.

Lemma digit_chars_unreserved : forall b n, 2 <= b -> b <= 10 -> 0 <= n ->
  Forall (fun c => unreserved c = true) (digit_chars b n).
Proof.
  intros b n Hb Hb' Hn. unfold digit_chars. apply Forall_map.
  eapply Forall_impl; [|apply to_digits_range; lia].
  cbn beta. intros d Hd. unfold unreserved. lia.
Qed.

Lemma parse_oct_fmt : forall m, 0 <= m < 2 ^ 32 -> parse_uint 8 32 (fmt_oct0 m) = Some m.
Proof.
  intros m Hm. unfold parse_uint, fmt_oct0.
  cbn [parse_digits]. replace ((48 <=? 48) && (48 <? 48 + 8)) with true by lia.
  replace (0 * 8 + (48 - 48)) with 0 by lia.
  rewrite <- (app_nil_r (digit_chars 8 m)).
  rewrite digits_roundtrip by lia. cbn [parse_digits].
  replace (m <? 2 ^ 32) with true by lia. reflexivity.
Qed.

Lemma parse_int_fmt : forall z, - 2 ^ 63 <= z < 2 ^ 63 -> parse_int64 (fmt_int z) = POk z.
Proof.
  intros z Hz. unfold fmt_int. destruct (z <? 0) eqn:E.
  - destruct (digit_chars_head 10 (- z) ltac:(lia) ltac:(lia) ltac:(lia)) as (c & r & Hd & Hc).
    unfold parse_int64. rewrite Z.eqb_refl. cbn [orb].
    pose proof (digits_roundtrip 10 (- z) [] ltac:(lia) ltac:(lia)) as HR.
    rewrite app_nil_r in HR. rewrite Hd in *. rewrite HR. cbn [parse_digits].
    replace (- z <=? 2 ^ 63) with true by lia. f_equal. lia.
  - destruct (digit_chars_head 10 z ltac:(lia) ltac:(lia) ltac:(lia)) as (c & r & Hd & Hc).
    pose proof (digits_roundtrip 10 z [] ltac:(lia) ltac:(lia)) as HR.
    rewrite app_nil_r in HR. rewrite Hd in *. unfold parse_int64.
    replace (c =? 45) with false by lia. replace (c =? 43) with false by lia. cbn [orb].
    rewrite HR. cbn [parse_digits]. replace (z <? 2 ^ 63) with true by lia. reflexivity.
Qed.

Lemma fmt_oct_unreserved : forall m, 0 <= m -> Forall (fun c => unreserved c = true) (fmt_oct0 m).
Proof. intros. unfold fmt_oct0. constructor; [reflexivity|]. apply digit_chars_unreserved; lia. Qed.

Lemma fmt_int_unreserved : forall z, Forall (fun c => unreserved c = true) (fmt_int z).
Proof.
  intros. unfold fmt_int. destruct (z <? 0) eqn:E.
  - constructor; [reflexivity|]. apply digit_chars_unreserved; lia.
  - apply digit_chars_unreserved; lia.
Qed.

(** ---------- net/url escaping ---------- *)
Lemma unhex_hexd : forall d, 0 <= d < 16 -> unhex (hexd d) = Some d.
Proof.
  intros d Hd. unfold hexd, unhex. destruct (d <? 10) eqn:E.
  - replace ((48 <=? 48 + d) && (48 + d <=? 57)) with true by lia. f_equal. lia.
  - replace ((48 <=? 55 + d) && (55 + d <=? 57)) with false by lia.
    replace ((65 <=? 55 + d) && (55 + d <=? 70)) with true by lia. f_equal. lia.
Qed.

Lemma unreserved_not_special : forall c, unreserved c = true ->
  c <> 37 /\ c <> 43 /\ c <> 38 /\ c <> 59 /\ c <> 61 /\ c <> 47 /\ c <> 63.
Proof. intros c H. unfold unreserved in H. lia. Qed.

Lemma unescape_esc_byte : forall b r, 0 <= b < 256 ->
  unescape (esc_byte b ++ r) = match unescape r with Some u => Some (b :: u) | None => None end.
Proof.
  intros b r Hb. unfold esc_byte. destruct (unreserved b) eqn:U.
  - apply unreserved_not_special in U. cbn [app unescape].
    replace (b =? 37) with false by lia. replace (b =? 43) with false by lia. reflexivity.
  - destruct (b =? 32) eqn:E32.
    + cbn [app unescape]. cbn. destruct (unescape r); [|reflexivity]. f_equal. f_equal. lia.
    + cbn [app unescape]. rewrite Z.eqb_refl.
      rewrite !unhex_hexd by lia. destruct (unescape r); [|reflexivity]. f_equal. f_equal. lia.
Qed.

Lemma unescape_escape_app : forall s r, Forall (fun b => 0 <= b < 256) s ->
  unescape (escape s ++ r) = match unescape r with Some u => Some (s ++ u) | None => None end.
Proof.
  induction s as [|b s IH]; intros r HF.
  - cbn. destruct (unescape r); reflexivity.
  - inversion HF; subst. unfold escape. cbn [flat_map]. rewrite <- app_assoc.
    rewrite unescape_esc_byte by assumption. fold (escape s). rewrite IH by assumption.
    destruct (unescape r); reflexivity.
Qed.

(** url.QueryUnescape (url.QueryEscape s) = s for every byte string *)
Lemma unescape_escape : forall s, Forall (fun b => 0 <= b < 256) s -> unescape (escape s) = Some s.
Proof.
  intros s HF. rewrite <- (app_nil_r (escape s)). rewrite unescape_escape_app by assumption.
  cbn. rewrite app_nil_r. reflexivity.
Qed.

Lemma escape_unreserved : forall s, Forall (fun c => unreserved c = true) s -> escape s = s.
Proof.
  induction s as [|c s IH]; intro HF; [reflexivity|]. inversion HF; subst.
  unfold escape. cbn [flat_map]. fold (escape s). rewrite IH by assumption.
  unfold esc_byte. rewrite H1. reflexivity.
Qed.

Lemma unescape_unreserved : forall s, Forall (fun c => unreserved c = true) s -> unescape s = Some s.
Proof.
  induction s as [|c s IH]; intro HF; [reflexivity|]. inversion HF as [|? ? U HF']; subst.
  apply unreserved_not_special in U. cbn [unescape].
  replace (c =? 37) with false by lia. rewrite IH by assumption.
  replace (c =? 43) with false by lia. reflexivity.
Qed.

Lemma memb_unreserved : forall c s, Forall (fun x => unreserved x = true) s -> unreserved c = false -> memb c s = false.
Proof.
  intros c s HF Hc. induction HF as [|x s Hx HF IH]; [reflexivity|].
  unfold memb in *. cbn [existsb]. rewrite IH. destruct (c =? x) eqn:E; [|reflexivity].
  apply Z.eqb_eq in E. subst. congruence.
Qed.

(** ---------- split / cut / join ---------- *)
Lemma split_on_no_sep : forall sep a, memb sep a = false -> split_on sep a = [a].
Proof.
  intros sep a. induction a as [|c a IH]; intro H; [reflexivity|].
  cbn in H. apply orb_false_iff in H. destruct H as [H1 H2].
  cbn [split_on]. rewrite Z.eqb_sym, H1. rewrite IH by assumption. reflexivity.
Qed.

Lemma split_on_app : forall sep a s, memb sep a = false -> split_on sep (a ++ sep :: s) = a :: split_on sep s.
Proof.
  intros sep a s. induction a as [|c a IH]; intro H.
  - cbn. rewrite Z.eqb_refl. reflexivity.
  - cbn in H. apply orb_false_iff in H. destruct H as [H1 H2].
    cbn [app split_on]. rewrite Z.eqb_sym, H1. rewrite IH by assumption. reflexivity.
Qed.

Lemma split_on_join : forall sep l, l <> [] -> Forall (fun a => memb sep a = false) l ->
  split_on sep (join_with sep l) = l.
Proof.
  intros sep l. induction l as [|a l IH]; intros Hne HF; [contradiction|].
  inversion HF as [|? ? Ha HF']; subst. destruct l as [|a' l'].
  - cbn [join_with]. apply split_on_no_sep. assumption.
  - change (join_with sep (a :: a' :: l')) with (a ++ sep :: join_with sep (a' :: l')).
    rewrite split_on_app by assumption. rewrite IH; [reflexivity|discriminate|assumption].
Qed.

Lemma cut_app : forall sep a b, memb sep a = false -> cut sep (a ++ sep :: b) = Some (a, b).
Proof.
  intros sep a b. induction a as [|c a IH]; intro H.
  - cbn. rewrite Z.eqb_refl. reflexivity.
  - cbn in H. apply orb_false_iff in H. destruct H as [H1 H2].
    cbn [app cut]. rewrite Z.eqb_sym, H1. rewrite IH by assumption. reflexivity.
Qed.

Lemma cut_none : forall sep a, memb sep a = false -> cut sep a = None.
Proof.
  intros sep a. induction a as [|c a IH]; intro H; [reflexivity|].
  cbn in H. apply orb_false_iff in H. destruct H as [H1 H2].
  cbn [cut]. rewrite Z.eqb_sym, H1. rewrite IH by assumption. reflexivity.
Qed.

(** ---------- url.Values.Encode / url.ParseQuery on plain keys and values ---------- *)
Definition plain (s : bytes) : Prop := Forall (fun c => unreserved c = true) s.
Definition plain_kv (kv : bytes * bytes) : Prop := fst kv <> [] /\ plain (fst kv) /\ plain (snd kv).

Lemma seg_plain : forall kv, plain_kv kv ->
  let seg := escape (fst kv) ++ 61 :: escape (snd kv) in
  seg = fst kv ++ 61 :: snd kv /\ memb 38 seg = false /\ memb 59 seg = false /\ is_nil seg = false.
Proof.
  intros [k v] (Hne & Hk & Hv). cbn [fst snd] in *. cbn zeta.
  rewrite !escape_unreserved by assumption. split; [reflexivity|].
  rewrite !memb_false_app. cbn [memb existsb].
  rewrite !(memb_unreserved 38), !(memb_unreserved 59) by (assumption || reflexivity).
  fold (memb 38 v). fold (memb 59 v).
  rewrite !(memb_unreserved 38), !(memb_unreserved 59) by (assumption || reflexivity).
  split; [reflexivity|]. split; [reflexivity|]. destruct k; [contradiction|reflexivity].
Qed.

Lemma parse_segments_plain : forall kvs, Forall plain_kv kvs ->
  parse_segments (map (fun kv => escape (fst kv) ++ 61 :: escape (snd kv)) kvs) = Some kvs.
Proof.
  induction kvs as [|kv kvs IH]; intro HF; [reflexivity|].
  inversion HF as [|? ? Hkv HF']; subst.
  destruct (seg_plain kv Hkv) as (Hseg & _ & H59 & Hnil). cbn zeta in *.
  cbn [map parse_segments]. rewrite H59, Hnil. rewrite IH by assumption.
  rewrite Hseg. destruct kv as [k v]. destruct Hkv as (Hne & Hk & Hv). cbn [fst snd] in *.
  rewrite cut_app by (apply memb_unreserved; [assumption|reflexivity]).
  rewrite !unescape_unreserved by assumption. reflexivity.
Qed.

Lemma parse_query_encode : forall kvs, kvs <> [] -> Forall plain_kv kvs ->
  parse_query (encode_query kvs) = Some kvs.
Proof.
  intros kvs Hne HF. unfold parse_query, encode_query.
  set (segs := map (fun kv => escape (fst kv) ++ 61 :: escape (snd kv)) kvs).
  assert (Hsegs : Forall (fun a => memb 38 a = false) segs).
  { subst segs. apply Forall_map. eapply Forall_impl; [|exact HF].
    intros kv Hkv. destruct (seg_plain kv Hkv) as (_ & H38 & _). exact H38. }
  assert (Hnn : segs <> []) by (subst segs; destruct kvs; [contradiction|discriminate]).
  assert (Hq : join_with 38 segs <> []).
  { destruct kvs as [|kv kvs']; [contradiction|]. inversion HF as [|? ? Hkv _]; subst.
    destruct (seg_plain kv Hkv) as (_ & _ & _ & Hnil). cbn zeta in Hnil.
    subst segs. cbn [map]. set (s0 := escape (fst kv) ++ 61 :: escape (snd kv)) in *.
    destruct s0 as [|x s0']; [discriminate|].
    destruct (map _ kvs'); cbn [join_with]; discriminate. }
  destruct (join_with 38 segs) as [|x q] eqn:EQ; [contradiction|].
  rewrite <- EQ. rewrite split_on_join by assumption.
  subst segs. apply parse_segments_plain. assumption.
Qed.

(** ---------- names and paths ---------- *)
Definition vname (n : bytes) : Prop := valid_name n = true.

Lemma valid_name_spec : forall n, valid_name n = true ->
  n <> [] /\ Forall (fun b => 0 <= b < 256) n /\ memb 47 n = false /\ n <> [46] /\ n <> [46; 46].
Proof.
  intros n H. unfold valid_name in H.
  repeat (apply andb_true_iff in H; let H' := fresh "H" in destruct H as [H H']).
  apply negb_true_iff in H, H0, H1, H2.
  split; [destruct n; [discriminate|discriminate]|].
  split; [|split; [assumption|split]].
  - apply Forall_forall. intros b Hb. rewrite forallb_forall in H3. specialize (H3 b Hb). unfold byte_ok in H3. lia.
  - intro E. subst. discriminate.
  - intro E. subst. discriminate.
Qed.

Lemma clean_step_valid : forall stk n, vname n -> clean_step stk n = n :: stk.
Proof.
  intros stk n H. apply valid_name_spec in H. destruct H as (Hne & _ & _ & H1 & H2).
  unfold clean_step. destruct n as [|x n']; [contradiction|]. cbn [is_nil orb].
  rewrite (bytes_eqb_neq _ _ H1), (bytes_eqb_neq _ _ H2). reflexivity.
Qed.

Lemma fold_clean_valid : forall l stk, Forall vname l -> fold_left clean_step l stk = rev l ++ stk.
Proof.
  induction l as [|n l IH]; intros stk HF; [reflexivity|]. inversion HF; subst.
  cbn [fold_left rev]. rewrite clean_step_valid by assumption. rewrite IH by assumption.
  rewrite <- app_assoc. reflexivity.
Qed.

Lemma clean_abs_join : forall path, Forall vname path -> clean_abs (join_with 47 path) = path.
Proof.
  intros path HF. unfold clean_abs. destruct path as [|n path'] eqn:E; [reflexivity|]. rewrite <- E in *.
  rewrite split_on_join.
  - rewrite fold_clean_valid by assumption. rewrite app_nil_r. apply rev_involutive.
  - subst. discriminate.
  - eapply Forall_impl; [|exact HF]. intros a Ha. apply valid_name_spec in Ha. tauto.
Qed.

Lemma join_bytes_ok : forall path, Forall vname path -> Forall (fun b => 0 <= b < 256) (join_with 47 path).
Proof.
  induction path as [|n path IH]; intro HF; [constructor|]. inversion HF as [|? ? Hn HF']; subst.
  apply valid_name_spec in Hn. destruct Hn as (_ & Hb & _).
  destruct path as [|n' path']; [exact Hb|].
  change (join_with 47 (n :: n' :: path')) with (n ++ 47 :: join_with 47 (n' :: path')).
  apply Forall_app. split; [exact Hb|]. constructor; [lia|]. apply IH. assumption.
Qed.

Lemma fname_mk_part : forall form m path ct body, Forall vname path ->
  fname (mk_part form m path ct body) = Some path.
Proof.
  intros form m path ct body HF. unfold fname, mk_part. cbn [p_disp p_filename].
  rewrite unescape_escape by (apply join_bytes_ok; assumption).
  rewrite clean_abs_join by assumption. destruct form; reflexivity.
Qed.

Lemma prefix_eqb_refl_app : forall p s, prefix_eqb p (p ++ s) = true.
Proof. induction p as [|a p IH]; intro s; cbn; [reflexivity|]. rewrite bytes_eqb_refl, IH. reflexivity. Qed.

Lemma prefix_eqb_app_l : forall a b c, prefix_eqb (a ++ b) c = true -> prefix_eqb a c = true.
Proof.
  induction a as [|x a IH]; intros b c H; [reflexivity|].
  destruct c as [|y c]; cbn in *; [discriminate|].
  apply andb_true_iff in H. destruct H as [H1 H2]. rewrite H1. cbn. eapply IH. exact H2.
Qed.

Lemma is_child_snoc : forall P n, is_child (P ++ [n]) P = true.
Proof.
  intros P n. unfold is_child. destruct P as [|a P'] eqn:E; [reflexivity|]. rewrite <- E.
  rewrite prefix_eqb_refl_app. rewrite app_length. cbn [List.length]. lia.
Qed.

Lemma is_child_sibling : forall P n c, is_child (P ++ [n]) (P ++ [c]) = false.
Proof.
  intros P n c. unfold is_child. destruct (P ++ [c]) as [|a l] eqn:E.
  - apply app_eq_nil in E. destruct E; discriminate.
  - rewrite <- E. rewrite !app_length. cbn [List.length]. lia.
Qed.

Lemma is_child_up : forall nm P n, is_child nm (P ++ [n]) = true -> is_child nm P = true.
Proof.
  intros nm P n H. unfold is_child in *. destruct (P ++ [n]) as [|a l] eqn:E.
  - apply app_eq_nil in E. destruct E; discriminate.
  - rewrite <- E in H. destruct P as [|b P'] eqn:EP; [reflexivity|]. rewrite <- EP in *.
    apply andb_true_iff in H. destruct H as [H1 H2].
    rewrite (prefix_eqb_app_l _ _ _ H2). rewrite app_length in H1. cbn [List.length] in H1. lia.
Qed.

Lemma skipn_snoc : forall (P : list bytes) n, skipn (List.length P) (P ++ [n]) = [n].
Proof. induction P as [|a P IH]; intro n; cbn; [reflexivity|apply IH]. Qed.

(** ---------- fileInfo after addContentDisposition ---------- *)
Lemma plain_K_MODE : plain K_MODE. Proof. repeat constructor. Qed.
Lemma plain_K_MTIME : plain K_MTIME. Proof. repeat constructor. Qed.
Lemma plain_K_NSECS : plain K_NSECS. Proof. repeat constructor. Qed.

Ltac eval_key_eqb :=
  repeat match goal with
         | |- context [bytes_eqb ?a ?b] =>
             let v := eval vm_compute in (bytes_eqb a b) in change (bytes_eqb a b) with v
         end.

Lemma cut_file_query : forall q, cut 63 (S_FILE ++ 63 :: q) = Some (S_FILE, q).
Proof. intro q. apply cut_app. reflexivity. Qed.

Lemma unix_time_norm : forall s n, 0 <= n < 1000000000 -> unix_time s n = (s, n).
Proof. intros s n H. unfold unix_time. replace ((n <? 0) || (1000000000 <=? n)) with false by lia. reflexivity. Qed.

Lemma file_info_form : forall m path ct body, wf_meta m = true ->
  file_info false (mk_part true m path ct body) = m.
Proof.
  intros [mode sec nsec] path ct body Hwf. unfold wf_meta in Hwf. cbn [m_mode m_sec m_nsec] in Hwf.
  assert (Hmode : 0 <= mode < 2 ^ 32) by lia.
  assert (Hsec : - 2 ^ 63 <= sec < 2 ^ 63) by lia.
  assert (Hnsec : 0 <= nsec < 1000000000) by lia.
  assert (Hnsec2 : - 2 ^ 63 <= nsec < 2 ^ 63) by lia.
  pose proof plain_K_MODE as PK1. pose proof plain_K_MTIME as PK2. pose proof plain_K_NSECS as PK3.
  pose proof (fmt_oct_unreserved mode ltac:(lia)) as PV1.
  pose proof (fmt_int_unreserved sec) as PV2. pose proof (fmt_int_unreserved nsec) as PV3.
  unfold file_info, mk_part. cbn [p_disp p_formname]. unfold formname_of, meta_params, time_is_zero.
  cbn [m_mode m_sec m_nsec].
  destruct (mode =? 0) eqn:Em; destruct ((sec =? ZERO_SEC) && (nsec =? 0)) eqn:Ez;
    try destruct (0 <? nsec) eqn:En; cbn [app]; unfold ZERO_SEC in *;
    try change (cut 63 S_FILE) with (@None (bytes * bytes));
    try (rewrite cut_file_query;
         rewrite parse_query_encode by
           (try discriminate; repeat (apply Forall_cons; [split; [discriminate|split; assumption]|]); apply Forall_nil));
    unfold nsecs_of; cbn [lookup]; eval_key_eqb; cbn iota;
    rewrite ?parse_oct_fmt, ?parse_int_fmt by assumption; cbn iota;
    rewrite ?unix_time_norm by lia; unfold with_time, meta0, ZERO_SEC; cbn [fst snd]; f_equal; lia.
Qed.

Lemma file_info_attach : forall fl m path ct body, file_info fl (mk_part false m path ct body) = meta0.
Proof. reflexivity. Qed.

(** ---------- unfolding the nested fixpoints ---------- *)
Lemma ser_node_dir : forall form path m es,
  ser_node form path (NDir m es) = mk_part form m path CtDir [] :: ser_entries form path es.
Proof.
  intros. cbn [ser_node]. f_equal. induction es as [|e es IH]; [reflexivity|].
  cbn [ser_entries]. rewrite <- IH. reflexivity.
Qed.

Lemma expect_node_dir : forall form m es,
  expect_node form (NDir m es) = NDir (if form then m else meta0) (expect form es).
Proof.
  intros. cbn [expect_node]. f_equal. induction es as [|e es IH]; [reflexivity|].
  cbn [expect]. rewrite <- IH. reflexivity.
Qed.

Lemma valid_node_dir : forall m es, valid_node (NDir m es) = wf_meta m && valid_entries es.
Proof.
  intros. cbn [valid_node]. apply f_equal. induction es as [|e es IH]; [reflexivity|].
  cbn [valid_entries]. rewrite <- IH. reflexivity.
Qed.

Lemma ser_node_head : forall form path nd, exists m ct body tl,
  ser_node form path nd = mk_part form m path ct body :: tl.
Proof.
  intros form path [m c|m t|m es].
  - do 4 eexists. reflexivity.
  - do 4 eexists. reflexivity.
  - rewrite ser_node_dir. do 4 eexists. reflexivity.
Qed.

(** ---------- one step of the iterator on a part naming a direct child ---------- *)
Lemma pdir_step_child : forall fl f P cur p rest n,
  fname p = Some (P ++ [n]) ->
  pdir fl (S f) P cur (p :: rest) =
    let continue_with (c : bytes) (nd : node) (rest' : list part) : option pres :=
      match pdir fl f P c rest' with
      | None => None
      | Some (es2, rest2, err2) => Some ((c, nd) :: es2, rest2, err2)
      end in
    match p_ctype p with
    | CtBad => Some ([], rest, true)
    | CtDir | CtFormData =>
        match pdir fl f (P ++ [n]) [] rest with
        | None => None
        | Some (es, rest', err) =>
            if err then Some ([(n, NDir (file_info fl p) es)], rest', true)
            else continue_with n (NDir (file_info fl p) es) rest'
        end
    | CtLink => continue_with n (NLink (link_meta (file_info fl p)) (p_body p)) rest
    | _ => continue_with n (NFile (file_info fl p) (p_body p)) rest
    end.
Proof.
  intros fl f P cur p rest n Hn. cbn [pdir]. rewrite Hn.
  rewrite is_child_snoc. cbn [negb]. rewrite is_child_sibling. rewrite andb_false_r.
  rewrite skipn_snoc. reflexivity.
Qed.

Definition stops (P : list bytes) (rest : list part) : Prop :=
  match rest with
  | [] => True
  | p :: _ => match fname p with None => True | Some nm => is_child nm P = false end
  end.

Lemma pdir_stops : forall fl f P cur rest, stops P rest -> pdir fl (S f) P cur rest = Some ([], rest, false).
Proof.
  intros fl f P cur [|p rest] H; [reflexivity|]. cbn [pdir]. unfold stops in H.
  destruct (fname p) as [nm|]; [|reflexivity]. rewrite H. reflexivity.
Qed.

Lemma stops_down : forall P n rest, stops P rest -> stops (P ++ [n]) rest.
Proof.
  intros P n [|p rest] H; [exact I|]. unfold stops in *. destruct (fname p) as [nm|]; [|exact I].
  destruct (is_child nm (P ++ [n])) eqn:E; [|reflexivity]. apply is_child_up in E. congruence.
Qed.

Lemma stops_sibling : forall form P n es rest,
  Forall vname P -> valid_entries es = true -> stops P rest ->
  stops (P ++ [n]) (ser_entries form P es ++ rest).
Proof.
  intros form P n [|[n2 nd2] es'] rest HP Hv Hs.
  - cbn [ser_entries app]. apply stops_down. assumption.
  - cbn [ser_entries fst snd]. destruct (ser_node_head form (P ++ [n2]) nd2) as (m & ct & body & tl & E).
    rewrite E. cbn [app]. unfold stops.
    cbn [valid_entries fst snd] in Hv. apply andb_true_iff in Hv. destruct Hv as [Hv _].
    apply andb_true_iff in Hv. destruct Hv as [Hn2 _].
    rewrite fname_mk_part by (apply Forall_app; split; [assumption|constructor; [exact Hn2|constructor]]).
    apply is_child_sibling.
Qed.

(** ---------- the round trip ---------- *)
Lemma pdir_ser : forall form f es P cur rest,
  valid_entries es = true -> Forall vname P -> stops P rest ->
  (List.length (ser_entries form P es) < f)%nat ->
  pdir false f P cur (ser_entries form P es ++ rest) = Some (expect form es, rest, false).
Proof.
  intros form f. induction f as [|f IH]; intros es P cur rest Hv HP Hs Hlen; [lia|].
  destruct es as [|[n nd] es'].
  - cbn [ser_entries app expect]. apply pdir_stops. assumption.
  - cbn [valid_entries fst snd] in Hv.
    apply andb_true_iff in Hv. destruct Hv as [Hv Hves'].
    apply andb_true_iff in Hv. destruct Hv as [Hn Hnd].
    assert (HPn : Forall vname (P ++ [n])) by (apply Forall_app; split; [assumption|constructor; [exact Hn|constructor]]).
    cbn [ser_entries fst snd expect] in *. rewrite app_length in Hlen.
    destruct nd as [m c|m t|m es1].
    + (* file *)
      cbn [ser_node app] in *.
      rewrite (pdir_step_child false f P cur _ _ n) by (apply fname_mk_part; assumption).
      cbn zeta. cbn [mk_part p_ctype p_body].
      rewrite IH by (try assumption; cbn [List.length] in Hlen; lia).
      cbn [expect_node]. cbn [valid_node] in Hnd.
      destruct form; [rewrite file_info_form by assumption|rewrite file_info_attach]; reflexivity.
    + (* symlink *)
      cbn [ser_node app] in *.
      rewrite (pdir_step_child false f P cur _ _ n) by (apply fname_mk_part; assumption).
      cbn zeta. cbn [mk_part p_ctype p_body].
      rewrite IH by (try assumption; cbn [List.length] in Hlen; lia).
      cbn [expect_node]. cbn [valid_node] in Hnd. apply andb_true_iff in Hnd. destruct Hnd as [Hwf Hlm].
      destruct form; [rewrite file_info_form by assumption|rewrite file_info_attach]; [|reflexivity].
      destruct m as [mode sec nsec]. cbn [m_mode] in Hlm. unfold link_meta. cbn [m_sec m_nsec].
      replace mode with LINK_MODE by lia. reflexivity.
    + (* directory *)
      rewrite ser_node_dir in *. rewrite valid_node_dir in Hnd.
      apply andb_true_iff in Hnd. destruct Hnd as [Hwf Hves1].
      cbn [app List.length] in *.
      rewrite (pdir_step_child false f P cur _ _ n) by (apply fname_mk_part; assumption).
      cbn zeta. cbn [mk_part p_ctype p_body]. rewrite <- app_assoc.
      rewrite IH by (try assumption; try lia; apply stops_sibling; assumption).
      cbn iota. rewrite IH by (try assumption; lia).
      rewrite expect_node_dir.
      destruct form; [rewrite file_info_form by assumption|rewrite file_info_attach]; reflexivity.
Qed.

Lemma ser_length_weight : forall form es P, (List.length (ser_entries form P es) <= weight (ser_entries form P es))%nat.
Proof.
  intros form es P. generalize (ser_entries form P es). intro l.
  induction l as [|p l IH]; cbn [List.length weight]; lia.
Qed.

(** [parse (serialize t) = t] (flag off = the repaired fileInfo) *)
Theorem roundtrip : forall form es, valid_entries es = true ->
  parse false (serialize form es) = Some (expect form es, false).
Proof.
  intros form es Hv. unfold parse, serialize.
  pose proof (pdir_ser form (fuel_of (ser_entries form [] es)) es [] [] [] Hv (Forall_nil _) I) as H.
  rewrite app_nil_r in H. rewrite H; [reflexivity|].
  unfold fuel_of. pose proof (ser_length_weight form es []). lia.
Qed.

(** in form mode the tree itself comes back, unset modes and times included *)
Lemma expect_form_id_node : forall nd, expect_node true nd = nd.
Proof.
  fix IHn 1. intros [m c|m t|m es]; [reflexivity|reflexivity|].
  rewrite expect_node_dir. f_equal.
  induction es as [|[n nd] es IH]; [reflexivity|]. cbn [expect fst snd]. rewrite IHn, IH. reflexivity.
Qed.

Lemma expect_form_id : forall es, expect true es = es.
Proof.
  induction es as [|[n nd] es IH]; [reflexivity|]. cbn [expect fst snd].
  rewrite expect_form_id_node, IH. reflexivity.
Qed.

Theorem roundtrip_form : forall es, valid_entries es = true ->
  parse false (serialize true es) = Some (es, false).
Proof. intros es Hv. rewrite roundtrip by assumption. rewrite expect_form_id. reflexivity. Qed.

(** the defect: with the flag on, a file with a mode and no mtime comes back dated 1970 *)
Definition witness : entries := [(bs "f"%string, NFile {| m_mode := 420; m_sec := ZERO_SEC; m_nsec := 0 |} (bs "data"%string))].
Theorem mtime_epoch_refuted :
  valid_entries witness = true /\
  parse true (serialize true witness) =
    Some ([(bs "f"%string, NFile {| m_mode := 420; m_sec := 0; m_nsec := 0 |} (bs "data"%string))], false) /\
  parse true (serialize true witness) <> Some (witness, false).
Proof. split; [reflexivity|]. split; [vm_compute; reflexivity|]. vm_compute. discriminate. Qed.

(** ---------- the parser's fuel is never exhausted, for ANY list of parts ---------- *)
Lemma prefix_eqb_spec : forall p c, prefix_eqb p c = true -> c = p ++ skipn (List.length p) c.
Proof.
  induction p as [|a p IH]; intros c H; [reflexivity|]. destruct c as [|b c]; [discriminate|].
  cbn in H. apply andb_true_iff in H. destruct H as [H1 H2]. apply bytes_eqb_eq in H1. subst b.
  cbn [List.length skipn app]. f_equal. apply IH. exact H2.
Qed.

Lemma is_child_split : forall nm P, is_child nm P = true ->
  nm = P ++ skipn (List.length P) nm /\ (List.length P <= List.length nm)%nat.
Proof.
  intros nm P H. unfold is_child in H. destruct P as [|a P'] eqn:E; [split; [reflexivity|cbn; lia]|].
  rewrite <- E in *. apply andb_true_iff in H. destruct H as [H1 H2].
  split; [apply prefix_eqb_spec; exact H2|lia].
Qed.

Lemma is_child_fake : forall nm P c c2 r, is_child nm P = true ->
  skipn (List.length P) nm = c :: c2 :: r -> is_child nm (P ++ [c]) = true.
Proof.
  intros nm P c c2 r H S. apply is_child_split in H. destruct H as [H _]. rewrite S in H.
  unfold is_child. destruct (P ++ [c]) as [|x l] eqn:E; [reflexivity|]. rewrite <- E.
  replace nm with ((P ++ [c]) ++ c2 :: r) by (rewrite H, <- app_assoc; reflexivity).
  rewrite prefix_eqb_refl_app, !app_length. cbn [List.length]. lia.
Qed.

Lemma pdir_weight : forall fl f P cur ps es rest err,
  pdir fl f P cur ps = Some (es, rest, err) ->
  (weight rest <= weight ps)%nat /\
  (forall p ps0 nm, ps = p :: ps0 -> fname p = Some nm -> is_child nm P = true ->
                    (weight rest <= weight ps0)%nat).
Proof.
  intros fl f. induction f as [|f IH]; intros P cur ps es rest err H; [discriminate|].
  cbn [pdir] in H. destruct ps as [|p ps0].
  - inversion H; subst. split; [lia|]. intros; discriminate.
  - destruct (fname p) as [nm|] eqn:Fn.
    2:{ inversion H; subst. split; [lia|]. intros p' ps' nm' E F. inversion E; subst. congruence. }
    destruct (negb (is_child nm P)) eqn:Ch.
    { inversion H; subst. split; [lia|]. intros p' ps' nm' E F C. inversion E; subst.
      rewrite Fn in F. inversion F; subst. rewrite C in Ch. discriminate. }
    apply negb_false_iff in Ch.
    assert (Goal2 : (weight rest <= weight ps0)%nat ->
                    (weight rest <= weight (p :: ps0))%nat /\
                    (forall p' ps' nm', p :: ps0 = p' :: ps' -> fname p' = Some nm' -> is_child nm' P = true ->
                                        (weight rest <= weight ps')%nat)).
    { intro W. split; [cbn [weight]; lia|]. intros p' ps' nm' E _ _. inversion E; subst. exact W. }
    apply Goal2. clear Goal2.
    destruct (negb (is_nil cur) && is_child nm (P ++ [cur])).
    { apply IH in H. tauto. }
    cbv zeta in H.
    destruct (skipn (List.length P) nm) as [|c [|c2 r]] eqn:Sk.
    + (* name = P itself (root only) *)
      destruct (p_ctype p);
        try (destruct (pdir fl f P [] ps0) as [[[es2 rest2] err2]|] eqn:C; [|discriminate];
             inversion H; subst; apply IH in C; tauto).
      * destruct (pdir fl f nm [] ps0) as [[[es1 rest1] err1]|] eqn:Sub; [|discriminate].
        apply IH in Sub. destruct Sub as [W1 _]. destruct err1; [inversion H; subst; exact W1|].
        destruct (pdir fl f P [] rest1) as [[[es2 rest2] err2]|] eqn:C; [|discriminate].
        inversion H; subst. apply IH in C. lia.
      * destruct (pdir fl f nm [] ps0) as [[[es1 rest1] err1]|] eqn:Sub; [|discriminate].
        apply IH in Sub. destruct Sub as [W1 _]. destruct err1; [inversion H; subst; exact W1|].
        destruct (pdir fl f P [] rest1) as [[[es2 rest2] err2]|] eqn:C; [|discriminate].
        inversion H; subst. apply IH in C. lia.
      * inversion H; subst. lia.
    + (* direct child *)
      destruct (p_ctype p);
        try (destruct (pdir fl f P c ps0) as [[[es2 rest2] err2]|] eqn:C; [|discriminate];
             inversion H; subst; apply IH in C; tauto).
      * destruct (pdir fl f nm [] ps0) as [[[es1 rest1] err1]|] eqn:Sub; [|discriminate].
        apply IH in Sub. destruct Sub as [W1 _]. destruct err1; [inversion H; subst; exact W1|].
        destruct (pdir fl f P c rest1) as [[[es2 rest2] err2]|] eqn:C; [|discriminate].
        inversion H; subst. apply IH in C. lia.
      * destruct (pdir fl f nm [] ps0) as [[[es1 rest1] err1]|] eqn:Sub; [|discriminate].
        apply IH in Sub. destruct Sub as [W1 _]. destruct err1; [inversion H; subst; exact W1|].
        destruct (pdir fl f P c rest1) as [[[es2 rest2] err2]|] eqn:C; [|discriminate].
        inversion H; subst. apply IH in C. lia.
      * inversion H; subst. lia.
    + (* implicit directory *)
      destruct (pdir fl f (P ++ [c]) [] (p :: ps0)) as [[[es1 rest1] err1]|] eqn:Sub; [|discriminate].
      apply IH in Sub. destruct Sub as [_ W1].
      specialize (W1 p ps0 nm eq_refl Fn (is_child_fake _ _ _ _ _ Ch Sk)).
      destruct err1; [inversion H; subst; exact W1|].
      destruct (pdir fl f P c rest1) as [[[es2 rest2] err2]|] eqn:C; [|discriminate].
      inversion H; subst. apply IH in C. lia.
Qed.

Lemma pdir_total_gen : forall fl f P cur ps,
  (1 <= f)%nat -> (weight ps + 1 <= f + List.length P)%nat -> pdir fl f P cur ps <> None.
Proof.
  intros fl f. induction f as [|f IH]; intros P cur ps H1 H2; [lia|].
  cbn [pdir]. destruct ps as [|p ps0]; [discriminate|].
  destruct (fname p) as [nm|] eqn:Fn; [|discriminate].
  destruct (negb (is_child nm P)) eqn:Ch; [discriminate|]. apply negb_false_iff in Ch.
  pose proof (is_child_split _ _ Ch) as [Hsplit Hlen].
  assert (Hw : weight (p :: ps0) = (S (List.length nm) + weight ps0)%nat)
    by (cbn [weight]; unfold ncomp; rewrite Fn; reflexivity).
  rewrite Hw in H2.
  assert (F1 : (1 <= f)%nat) by lia.
  assert (K0 : forall cur' rest', (weight rest' <= weight ps0)%nat -> pdir fl f P cur' rest' <> None)
    by (intros; apply IH; lia).
  destruct (negb (is_nil cur) && is_child nm (P ++ [cur])); [apply K0; lia|].
  cbv zeta.
  assert (Kc : forall cur' nd rest', (weight rest' <= weight ps0)%nat ->
            match pdir fl f P cur' rest' with
            | Some (es2, rest2, err2) => Some ((cur', nd) :: es2, rest2, err2)
            | None => None
            end <> @None pres).
  { intros cur' nd rest' W. specialize (K0 cur' rest' W).
    destruct (pdir fl f P cur' rest') as [[[a b] c']|]; [discriminate|contradiction]. }
  assert (Kd : forall cur' m, 
            match pdir fl f nm [] ps0 with
            | Some (es, rest', err) =>
                if err then Some ([(cur', NDir m es)], rest', true)
                else match pdir fl f P cur' rest' with
                     | Some (es2, rest2, err2) => Some ((cur', NDir m es) :: es2, rest2, err2)
                     | None => None
                     end
            | None => None
            end <> @None pres).
  { intros cur' m. assert (S1 : pdir fl f nm [] ps0 <> None) by (apply IH; lia).
    destruct (pdir fl f nm [] ps0) as [[[es1 rest1] err1]|] eqn:Sub; [|contradiction].
    apply pdir_weight in Sub. destruct Sub as [W1 _]. destruct err1; [discriminate|].
    apply Kc. exact W1. }
  destruct (skipn (List.length P) nm) as [|c [|c2 r]] eqn:Sk.
  - destruct (p_ctype p); try (apply Kc; lia); try apply Kd. discriminate.
  - destruct (p_ctype p); try (apply Kc; lia); try apply Kd. discriminate.
  - assert (Hl2 : (List.length P + 2 <= List.length nm)%nat).
    { rewrite Hsplit, app_length. cbn [List.length]. lia. }
    assert (S1 : pdir fl f (P ++ [c]) [] (p :: ps0) <> None).
    { apply IH; [lia|]. rewrite Hw, app_length. cbn [List.length]. lia. }
    destruct (pdir fl f (P ++ [c]) [] (p :: ps0)) as [[[es1 rest1] err1]|] eqn:Sub; [|contradiction].
    apply pdir_weight in Sub. destruct Sub as [_ W1].
    specialize (W1 p ps0 nm eq_refl Fn (is_child_fake _ _ _ _ _ Ch Sk)).
    destruct err1; [discriminate|]. apply Kc. exact W1.
Qed.

(** [parse] never runs out of fuel: for every flag and EVERY list of parts *)
Theorem parse_total : forall fl ps, parse fl ps <> None.
Proof.
  intros fl ps. unfold parse.
  pose proof (pdir_total_gen fl (fuel_of ps) [] [] ps) as H. unfold fuel_of in *.
  destruct (pdir fl (S (weight ps)) [] [] ps) as [[[es rest] err]|]; [discriminate|].
  exfalso. apply H; [lia|cbn [List.length]; lia|reflexivity].
Qed.
