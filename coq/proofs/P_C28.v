(** C28 — proofs about the path / name model [model/M_C28.v]. *)
From Coq Require Import List ZArith Bool NArith Lia.
From V Require Import lib.Verdict model.M_C28.
Import ListNotations.
Open Scope N_scope.

(** * Pieces *)

Definition noslash (x : str) : Prop := ~ In SL x.
(** a piece that [path.Clean] keeps *)
Definition good (x : str) : bool := negb (is_empty x || is_dot x || is_dotdot x).

Lemma str_eqb_true : forall x y, str_eqb x y = true <-> x = y.
Proof. intros. unfold str_eqb. destruct (str_eq_dec x y); split; congruence. Qed.
Lemma str_eqb_refl : forall x, str_eqb x x = true.
Proof. intros. now apply str_eqb_true. Qed.

Lemma split_nonempty : forall s, split s <> [].
Proof. induction s as [|c r IH]; cbn [split]; [discriminate|]. destruct (c =? SL); [discriminate|]. destruct (split r); discriminate. Qed.

Lemma split_noslash : forall s, Forall noslash (split s).
Proof.
  induction s as [|c r IH]; cbn [split].
  - constructor; [intros []|constructor].
  - destruct (c =? SL) eqn:E.
    + constructor; [intros []|exact IH].
    + destruct (split r) as [|h t]; [constructor; [|constructor]|].
      * intros [H|[]]. subst. now rewrite N.eqb_refl in E.
      * inversion IH; subst. constructor; [|assumption].
        intros [H|H]; [subst; now rewrite N.eqb_refl in E | contradiction].
Qed.

(** strings.Split undoes strings.Join on slash-free pieces, and Join undoes Split *)
Lemma split_app_slash : forall x y, split (x ++ SL :: y) = split x ++ split y.
Proof.
  induction x as [|c r IH]; intros y.
  - cbn [app split]. now rewrite N.eqb_refl.
  - cbn [app split]. destruct (c =? SL); [now rewrite IH|].
    rewrite IH. destruct (split r) as [|h t] eqn:E; [now apply split_nonempty in E|]. reflexivity.
Qed.

Lemma split_single : forall x, noslash x -> split x = [x].
Proof.
  induction x as [|c r IH]; intros H; [reflexivity|]. cbn [split].
  destruct (c =? SL) eqn:E; [apply N.eqb_eq in E; subst; exfalso; apply H; now left|].
  rewrite IH; [reflexivity|]. intros Hin. apply H. now right.
Qed.

Lemma split_join : forall l, l <> [] -> Forall noslash l -> split (join l) = l.
Proof.
  induction l as [|x r IH]; intros Hne Hall; [congruence|].
  inversion Hall; subst. destruct r as [|y r'].
  - cbn [join]. now apply split_single.
  - change (join (x :: y :: r')) with (x ++ SL :: join (y :: r')).
    rewrite split_app_slash, split_single by assumption. rewrite IH; [reflexivity|congruence|assumption].
Qed.

Lemma join_split : forall s, join (split s) = s.
Proof.
  induction s as [|c r IH]; [reflexivity|]. cbn [split]. destruct (c =? SL) eqn:E.
  - apply N.eqb_eq in E. subst. destruct (split r) as [|h t] eqn:Es; [now apply split_nonempty in Es|].
    change (join ([] :: h :: t)) with ([] ++ SL :: join (h :: t)). now rewrite IH.
  - destruct (split r) as [|h t] eqn:Es; [now apply split_nonempty in Es|].
    destruct t as [|h2 t2].
    + cbn [join] in *. now rewrite IH.
    + change (join ((c :: h) :: h2 :: t2)) with ((c :: h) ++ SL :: join (h2 :: t2)).
      change (join (h :: h2 :: t2)) with (h ++ SL :: join (h2 :: t2)) in IH. cbn [app]. now rewrite IH.
Qed.

(** * Clean *)

Lemma clean_rev_app : forall l1 l2 acc, clean_rev acc (l1 ++ l2) = clean_rev (clean_rev acc l1) l2.
Proof.
  induction l1 as [|x r IH]; intros l2 acc; [reflexivity|]. cbn [app clean_rev].
  destruct (is_empty x || is_dot x); [apply IH|]. destruct (is_dotdot x); apply IH.
Qed.

Lemma clean_rev_forall : forall (P : str -> Prop) l acc,
  Forall P l -> Forall P acc -> Forall P (clean_rev acc l).
Proof.
  intros P. induction l as [|x r IH]; intros acc Hl Ha; [exact Ha|]. inversion Hl; subst. cbn [clean_rev].
  destruct (is_empty x || is_dot x); [now apply IH|]. destruct (is_dotdot x).
  - apply IH; [assumption|]. destruct acc; [constructor|]. now inversion Ha.
  - apply IH; [assumption|]. now constructor.
Qed.

Lemma clean_rev_good : forall l acc,
  Forall (fun x => good x = true) acc -> Forall (fun x => good x = true) (clean_rev acc l).
Proof.
  induction l as [|x r IH]; intros acc Ha; [exact Ha|]. cbn [clean_rev].
  destruct (is_empty x || is_dot x) eqn:E1; [now apply IH|]. destruct (is_dotdot x) eqn:E2.
  - apply IH. destruct acc; [constructor|]. now inversion Ha.
  - apply IH. constructor; [|assumption]. unfold good. apply orb_false_iff in E1. destruct E1 as [-> ->]. now rewrite E2.
Qed.

Lemma clean_rev_on_good : forall l acc,
  Forall (fun x => good x = true) l -> clean_rev acc l = rev l ++ acc.
Proof.
  induction l as [|x r IH]; intros acc H; [reflexivity|]. inversion H as [|? ? Hx Hr]; subst. cbn [clean_rev rev].
  unfold good in Hx. apply negb_true_iff in Hx. apply orb_false_iff in Hx. destruct Hx as [Hx ->]. rewrite Hx.
  rewrite IH by assumption. now rewrite <- app_assoc.
Qed.

Lemma clean_segs_good : forall l, Forall (fun x => good x = true) (clean_segs l).
Proof. intros. unfold clean_segs. apply Forall_rev. apply clean_rev_good. constructor. Qed.

Lemma clean_segs_on_good : forall l, Forall (fun x => good x = true) l -> clean_segs l = l.
Proof. intros l H. unfold clean_segs. rewrite clean_rev_on_good by assumption. rewrite app_nil_r. apply rev_involutive. Qed.

(** cleaning is idempotent, and its result has no empty, "." or ".." piece *)
Theorem clean_idempotent : forall l, clean_segs (clean_segs l) = clean_segs l.
Proof. intros. apply clean_segs_on_good, clean_segs_good. Qed.

Theorem clean_no_dots : forall l x, In x (clean_segs l) -> x <> [] /\ x <> [DOT] /\ x <> [DOT; DOT].
Proof.
  intros l x Hin. pose proof (clean_segs_good l) as H. rewrite Forall_forall in H. specialize (H x Hin).
  unfold good in H. apply negb_true_iff in H. apply orb_false_iff in H. destruct H as [H H3].
  apply orb_false_iff in H. destruct H as [H1 H2].
  repeat split; intros ->; cbn in *; discriminate.
Qed.

Lemma clean_segs_subset : forall (P : str -> Prop) l, Forall P l -> Forall P (clean_segs l).
Proof. intros P l H. unfold clean_segs. apply Forall_rev. apply clean_rev_forall; [assumption|constructor]. Qed.

(** the same at the level of strings: gopath.Clean on rooted strings *)
Lemma segs_of_clean_string : forall segs t,
  Forall (fun x => good x = true) segs -> Forall noslash segs -> segs <> [] ->
  string_to_segments (SL :: join segs ++ (if t : bool then [SL] else [])) = segs.
Proof.
  intros segs t Hg Hn Hne. unfold string_to_segments. cbn [split]. rewrite N.eqb_refl.
  assert (Hs : split (join segs ++ (if t then [SL] else [])) = segs ++ (if t then [[]] else [])).
  { destruct t.
    - rewrite split_app_slash, split_join by assumption. reflexivity.
    - rewrite !app_nil_r. now apply split_join. }
  rewrite Hs. unfold clean_segs. cbn [clean_rev is_empty orb]. rewrite clean_rev_app.
  rewrite (clean_rev_on_good segs []) by assumption. rewrite app_nil_r.
  destruct t; cbn [clean_rev is_empty orb]; apply rev_involutive.
Qed.

Theorem go_clean_idempotent : forall s, rooted s = true -> go_clean (go_clean s) = go_clean s.
Proof.
  intros s _. unfold go_clean. set (segs := clean_segs (split s)).
  assert (Hfix : clean_segs (split (SL :: join segs)) = segs).
  { assert (Hg : Forall (fun x => good x = true) segs) by apply clean_segs_good.
    assert (Hn : Forall noslash segs) by apply clean_segs_subset, split_noslash.
    clearbody segs. destruct segs as [|x r]; [reflexivity|].
    pose proof (segs_of_clean_string (x :: r) false Hg Hn ltac:(congruence)) as H.
    rewrite app_nil_r in H. exact H. }
  now rewrite Hfix.
Qed.

(** * NewPath: parse . print = id *)

Lemma ends_slash_snoc : forall x c, ends_slash (x ++ [c]) = (c =? SL).
Proof.
  induction x as [|a r IH]; intros c; [reflexivity|]. cbn [app]. 
  specialize (IH c). destruct (r ++ [c]) as [|d t] eqn:E; [destruct r; discriminate|].
  change (ends_slash (a :: d :: t)) with (ends_slash (d :: t)). exact IH.
Qed.

Lemma join_last : forall segs,
  segs <> [] -> Forall (fun x => good x = true) segs -> Forall noslash segs ->
  exists y c, join segs = y ++ [c] /\ c <> SL.
Proof.
  induction segs as [|x r IH]; intros Hne Hg Hn; [congruence|].
  inversion Hg; subst. inversion Hn; subst. destruct r as [|x2 r'].
  - cbn [join]. destruct (exists_last (l := x)) as (y & c & ->).
    + intros ->. cbn in *. discriminate.
    + exists y, c. split; [reflexivity|]. intros ->. apply H3. apply in_or_app. right. now left.
  - destruct IH as (y & c & Hj & Hc); try assumption; try congruence.
    change (join (x :: x2 :: r')) with (x ++ SL :: join (x2 :: r')). rewrite Hj.
    exists (x ++ SL :: y), c. split; [now rewrite <- app_assoc|exact Hc].
Qed.

Lemma join_nonempty : forall x r, x <> [] -> join (x :: r) <> [].
Proof. intros x r Hx. destruct r; cbn [join]; [exact Hx|]. destruct x; [congruence|discriminate]. Qed.

(** Shape of an accepted path. *)
Lemma new_path_ok : forall dec s p,
  new_path dec s = POk p ->
  exists ns root rest,
    let segs := ns :: root :: rest in
    string_to_segments s = segs /\
    pp_str p = SL :: join segs ++ (if ends_slash s then [SL] else []) /\
    pp_ns p = ns /\
    ((ns = IPFS \/ ns = IPLD) /\ dec root = pp_cid p /\ pp_cid p <> None \/ ns = IPNS /\ pp_cid p = None).
Proof.
  intros dec s p H. unfold new_path in H. destruct (negb (rooted s)); [discriminate|].
  destruct (string_to_segments s) as [|ns [|root rest]] eqn:E; try discriminate.
  exists ns, root, rest. cbv zeta. split; [reflexivity|].
  assert (Hstr : segments_to_string (ns :: root :: rest) = SL :: join (ns :: root :: rest)).
  { unfold segments_to_string. destruct (join (ns :: root :: rest)) eqn:Ej; [|reflexivity].
    exfalso. change (join (ns :: root :: rest)) with (ns ++ SL :: join (root :: rest)) in Ej.
    destruct ns; discriminate. }
  rewrite Hstr in H.
  destruct (str_eqb ns IPFS || str_eqb ns IPLD) eqn:Ens.
  - destruct (dec root) as [c|] eqn:Ed; [|discriminate]. inversion H; subst p. cbn [pp_str pp_ns pp_cid].
    repeat split; auto. left. apply orb_true_iff in Ens. rewrite !str_eqb_true in Ens.
    repeat split; auto. discriminate.
  - destruct (str_eqb ns IPNS) eqn:Ens2; [|discriminate]. inversion H; subst p. cbn [pp_str pp_ns pp_cid].
    repeat split; auto. right. apply str_eqb_true in Ens2. auto.
Qed.

(** Re-parsing the printed form of ANY accepted path gives the same path: same string,
    namespace, root CID — for ANY CID decoder. *)
Theorem parse_print : forall dec s p, new_path dec s = POk p -> new_path dec (pp_str p) = POk p.
Proof.
  intros dec s p H. destruct (new_path_ok dec s p H) as (ns & root & rest & Hsegs & Hstr & Hns & Hcase).
  cbv zeta in *. set (segs := ns :: root :: rest) in *.
  assert (Hg : Forall (fun x => good x = true) segs) by (rewrite <- Hsegs; apply clean_segs_good).
  assert (Hn : Forall noslash segs) by (rewrite <- Hsegs; apply clean_segs_subset, split_noslash).
  assert (Hne : segs <> []) by (subst segs; congruence).
  assert (Hsegs' : string_to_segments (pp_str p) = segs) by (rewrite Hstr; now apply segs_of_clean_string).
  assert (Hend : ends_slash (pp_str p) = ends_slash s).
  { rewrite Hstr. destruct (ends_slash s).
    - rewrite app_comm_cons, ends_slash_snoc. apply N.eqb_refl.
    - rewrite app_nil_r. destruct (join_last segs Hne Hg Hn) as (y & c & -> & Hc).
      rewrite app_comm_cons, ends_slash_snoc. now apply N.eqb_neq. }
  assert (Hr : rooted (pp_str p) = true) by (rewrite Hstr; cbn [rooted]; apply N.eqb_refl).
  unfold new_path. rewrite Hr, Hsegs'. cbn [negb]. subst segs.
  assert (Hs2 : segments_to_string (ns :: root :: rest) = SL :: join (ns :: root :: rest)).
  { unfold segments_to_string. destruct (join (ns :: root :: rest)) eqn:Ej; [|reflexivity].
    exfalso. change (join (ns :: root :: rest)) with (ns ++ SL :: join (root :: rest)) in Ej. destruct ns; discriminate. }
  rewrite Hs2, Hend, <- app_comm_cons, <- Hstr.
  destruct p as [ps pn pc]. cbn [pp_str pp_ns pp_cid] in *. subst pn.
  destruct Hcase as [([->| ->] & Hd & Hnn)|[-> ->]].
  - cbn [str_eqb]. rewrite str_eqb_refl. cbn [orb]. rewrite Hd. destruct pc; [reflexivity|congruence].
  - replace (str_eqb IPLD IPFS || str_eqb IPLD IPLD) with true by (rewrite str_eqb_refl; now rewrite orb_true_r).
    rewrite Hd. destruct pc; [reflexivity|congruence].
  - replace (str_eqb IPNS IPFS || str_eqb IPNS IPLD) with false by reflexivity. rewrite str_eqb_refl. reflexivity.
Qed.

(** Segments() of an accepted path are the cleaned pieces of the input, at least
    namespace and root; none of them is empty, "." or ".."; and the printed form,
    split at '/', shows exactly these pieces (after the leading and before an optional
    trailing empty piece). *)
Theorem accepted_segments : forall dec s p,
  new_path dec s = POk p ->
  segments p = string_to_segments s /\ (2 <= length (segments p))%nat /\
  (forall x, In x (segments p) -> x <> [] /\ x <> [DOT] /\ x <> [DOT; DOT]) /\
  split (pp_str p) = [] :: segments p ++ (if ends_slash s then [[]] else []) /\
  no_dots (pp_str p) = true.
Proof.
  intros dec s p H. destruct (new_path_ok dec s p H) as (ns & root & rest & Hsegs & Hstr & Hns & Hcase).
  cbv zeta in *. set (segs := ns :: root :: rest) in *.
  assert (Hg : Forall (fun x => good x = true) segs) by (rewrite <- Hsegs; apply clean_segs_good).
  assert (Hn : Forall noslash segs) by (rewrite <- Hsegs; apply clean_segs_subset, split_noslash).
  assert (Hne : segs <> []) by (subst segs; congruence).
  assert (Hsegs' : segments p = segs) by (unfold segments; rewrite Hstr; now apply segs_of_clean_string).
  assert (Hsplit : split (pp_str p) = [] :: segs ++ (if ends_slash s then [[]] else [])).
  { rewrite Hstr. cbn [split]. rewrite N.eqb_refl. f_equal. destruct (ends_slash s).
    - rewrite split_app_slash, split_join by assumption. reflexivity.
    - rewrite !app_nil_r. now apply split_join. }
  rewrite Hsegs'. split; [now rewrite Hsegs|]. split; [subst segs; cbn; lia|]. split.
  - intros x Hx. rewrite <- Hsegs in Hx. eapply clean_no_dots; eauto.
  - split; [exact Hsplit|]. unfold no_dots. rewrite Hsplit. cbn [forallb]. 
    replace (negb (is_dot []) && negb (is_dotdot [])) with true by reflexivity. cbn [andb].
    rewrite forallb_app. apply andb_true_iff. split.
    + apply forallb_forall. intros x Hx. rewrite Forall_forall in Hg. specialize (Hg x Hx).
      unfold good in Hg. apply negb_true_iff in Hg. apply orb_false_iff in Hg. destruct Hg as [Hg ->].
      apply orb_false_iff in Hg. destruct Hg as [_ ->]. reflexivity.
    + destruct (ends_slash s); reflexivity.
Qed.

(** * URIs *)

Lemma prefix_lower_app : forall sc t ns,
  length sc = length ns -> prefix_lower (sc ++ t) ns = true <-> map lower sc = ns.
Proof.
  induction sc as [|c r IH]; intros t ns Hl; destruct ns as [|n ns']; try discriminate.
  - cbn. destruct t; split; reflexivity.
  - cbn [app prefix_lower map]. cbn [length] in Hl. injection Hl as Hl. rewrite andb_true_iff, N.eqb_eq, (IH t ns' Hl).
    split; [intros [-> ->]; reflexivity | intros H; inversion H; auto].
Qed.

Lemma has_scheme_app : forall sc r0 ns,
  length sc = length ns -> has_uri_scheme (sc ++ COLON :: r0) ns = true <-> map lower sc = ns.
Proof.
  intros sc r0 ns Hl. unfold has_uri_scheme. rewrite <- Hl.
  assert (H1 : (N.of_nat (length sc) <? N.of_nat (length (sc ++ COLON :: r0))) = true).
  { rewrite app_length. cbn [length]. apply N.ltb_lt. lia. }
  assert (H2 : nth (length sc) (sc ++ COLON :: r0) 0 = COLON).
  { rewrite app_nth2 by lia. now rewrite Nat.sub_diag. }
  rewrite H1, H2, N.eqb_refl. cbn [andb]. now apply prefix_lower_app.
Qed.

Lemma skipn_scheme : forall sc r0 : str, skipn (S (length sc)) (sc ++ COLON :: r0) = r0.
Proof. induction sc as [|c r IH]; intros r0; [reflexivity|]. cbn [length app]. now rewrite skipn_cons. Qed.

(** The URI forms ns:REST and ns://REST (scheme in any ASCII case) are parsed exactly as
    the canonical form /ns/REST (one leading "//" of REST dropped). *)
Theorem uri_same : forall dec sc ns r0,
  In ns [IPFS; IPNS; IPLD] -> map lower sc = ns ->
  new_path_uri dec (sc ++ COLON :: r0) = new_path dec (SL :: ns ++ SL :: trim2 r0).
Proof.
  intros dec sc ns r0 Hin Hl. unfold new_path_uri. f_equal. unfold normalize_uri.
  assert (Hlen : forall ns', In ns' [IPFS; IPNS; IPLD] -> length sc = length ns').
  { intros ns' Hin'. rewrite <- (map_length lower sc), Hl.
    destruct Hin as [<-|[<-|[<-|[]]]]; destruct Hin' as [<-|[<-|[<-|[]]]]; reflexivity. }
  assert (Hsch : forall ns', In ns' [IPFS; IPNS; IPLD] ->
            has_uri_scheme (sc ++ COLON :: r0) ns' = true <-> ns = ns').
  { intros ns' Hin'. rewrite (has_scheme_app sc r0 ns' (Hlen ns' Hin')). rewrite Hl. tauto. }
  unfold rewrite_uri.
  destruct Hin as [<-|[<-|[<-|[]]]].
  - assert (H : has_uri_scheme (sc ++ COLON :: r0) IPFS = true) by (apply Hsch; [now left|reflexivity]).
    rewrite H. rewrite <- (Hlen IPFS) by (now left). now rewrite skipn_scheme.
  - destruct (has_uri_scheme (sc ++ COLON :: r0) IPFS) eqn:E1.
    { apply Hsch in E1; [discriminate|now left]. }
    assert (H : has_uri_scheme (sc ++ COLON :: r0) IPNS = true) by (apply Hsch; [right; now left|reflexivity]).
    rewrite H. rewrite <- (Hlen IPNS) by (right; now left). now rewrite skipn_scheme.
  - destruct (has_uri_scheme (sc ++ COLON :: r0) IPFS) eqn:E1.
    { apply Hsch in E1; [discriminate|now left]. }
    destruct (has_uri_scheme (sc ++ COLON :: r0) IPNS) eqn:E2.
    { apply Hsch in E2; [discriminate|right; now left]. }
    assert (H : has_uri_scheme (sc ++ COLON :: r0) IPLD = true) by (apply Hsch; [right; right; now left|reflexivity]).
    rewrite H. rewrite <- (Hlen IPLD) by (right; right; now left). now rewrite skipn_scheme.
Qed.

Corollary uri_same_slashes : forall dec sc ns rest,
  In ns [IPFS; IPNS; IPLD] -> map lower sc = ns ->
  new_path_uri dec (sc ++ COLON :: SL :: SL :: rest) = new_path dec (SL :: ns ++ SL :: rest).
Proof. intros. rewrite (uri_same dec sc ns); auto. Qed.

(** a string that already is a content path (starts with '/') is left alone *)
Theorem uri_rooted_unchanged : forall dec s, rooted s = true -> new_path_uri dec s = new_path dec s.
Proof.
  intros dec s H. unfold new_path_uri. f_equal. unfold normalize_uri.
  destruct s as [|c r]; [discriminate|]. cbn [rooted] in H. apply N.eqb_eq in H. subst c.
  assert (Hno : forall n ns', has_uri_scheme (SL :: r) (n :: ns') = true -> lower SL = n).
  { intros n ns' Hs. unfold has_uri_scheme in Hs. apply andb_true_iff in Hs. destruct Hs as [_ Hs].
    cbn [prefix_lower] in Hs. apply andb_true_iff in Hs. destruct Hs as [Hs _]. now apply N.eqb_eq in Hs. }
  destruct (has_uri_scheme (SL :: r) IPFS) eqn:E1; [apply Hno in E1; discriminate|].
  destruct (has_uri_scheme (SL :: r) IPNS) eqn:E2; [apply Hno in E2; discriminate|].
  destruct (has_uri_scheme (SL :: r) IPLD) eqn:E3; [apply Hno in E3; discriminate|]. reflexivity.
Qed.

(** * IPNS names *)

Lemma strip_prefix_app : forall p s, strip_prefix p (p ++ s) = Some s.
Proof. induction p as [|a r IH]; intros s; [reflexivity|]. cbn [app strip_prefix]. now rewrite N.eqb_refl. Qed.

Lemma strip_prefix_unrooted : forall s, rooted s = false -> strip_prefix NSPREFIX s = None.
Proof.
  intros s H. destruct s as [|c r]; [reflexivity|]. cbn [rooted] in H. unfold NSPREFIX. cbn [strip_prefix].
  change 47 with SL. rewrite N.eqb_sym, H. reflexivity.
Qed.

Section NameRoundTrips.
  (** The text codecs are abstract.  What is assumed of them (and checked on the real
      codecs for every generated key by the correspondence run):
      - decoding a CID text undoes encoding it in base36;
      - a base36 CID text does not look like a base58 multihash ("Qm…" / "1…") and does
        not start with '/';
      - decoding a base58 multihash text undoes encoding it; such a text starts with
        "Qm" or "1" (true for sha2-256 and identity multihashes, the ones peer IDs use)
        and does not start with '/'. *)
  Variable enc36 : cidv -> str.
  Variable dec_cid : str -> option cidv.
  Variable enc58 : str -> str.
  Variable dec58 : str -> option str.
  Variable mh_valid : str -> bool.
  Hypothesis dec_enc36 : forall c, dec_cid (enc36 c) = Some c.
  Hypothesis enc36_not_b58 : forall c, starts_b58 (enc36 c) = false.
  Hypothesis enc36_unrooted : forall c, rooted (enc36 c) = false.
  Hypothesis dec_enc58 : forall m, dec58 (enc58 m) = Some m.
  Hypothesis enc58_b58 : forall m, starts_b58 (enc58 m) = true.
  Hypothesis enc58_unrooted : forall m, rooted (enc58 m) = false.

  Let from_string := name_from_string dec_cid dec58.
  Let to_string := name_string enc36.

  Lemma trim_ns_unrooted : forall s, rooted s = false -> trim_ns s = s.
  Proof. intros s H. unfold trim_ns. now rewrite strip_prefix_unrooted. Qed.

  Theorem name_roundtrips : forall n,
    from_string (to_string n) = Some n /\
    from_string (NSPREFIX ++ to_string n) = Some n /\
    from_string (enc58 n) = Some n /\
    from_string (NSPREFIX ++ enc58 n) = Some n /\
    name_from_cid (name_cid n) = Some n /\
    name_from_peer (name_peer n) = n /\
    (mh_valid n = true -> name_from_routing_key mh_valid (routing_key n) = Some n).
  Proof.
    intros n. subst from_string to_string. unfold name_from_string, name_string.
    assert (H36 : forall s, s = enc36 (name_cid n) ->
              (if starts_b58 s then dec58 s
               else match dec_cid s with
                    | Some c => if c_codec c =? LIBP2P_KEY then Some (c_mh c) else None
                    | None => None
                    end) = Some n).
    { intros s ->. rewrite enc36_not_b58, dec_enc36. reflexivity. }
    assert (H58 : forall s, s = enc58 n ->
              (if starts_b58 s then dec58 s
               else match dec_cid s with
                    | Some c => if c_codec c =? LIBP2P_KEY then Some (c_mh c) else None
                    | None => None
                    end) = Some n).
    { intros s ->. now rewrite enc58_b58, dec_enc58. }
    repeat split.
    - rewrite trim_ns_unrooted by apply enc36_unrooted. now apply H36.
    - unfold trim_ns. rewrite strip_prefix_app. now apply H36.
    - rewrite trim_ns_unrooted by apply enc58_unrooted. now apply H58.
    - unfold trim_ns. rewrite strip_prefix_app. now apply H58.
    - intros Hv. unfold name_from_routing_key, routing_key. now rewrite strip_prefix_app, Hv.
  Qed.

  (** the forms determine the name *)
  Theorem name_forms_injective : forall n1 n2,
    (to_string n1 = to_string n2 -> n1 = n2) /\
    (routing_key n1 = routing_key n2 -> n1 = n2) /\
    (name_cid n1 = name_cid n2 -> n1 = n2) /\
    (cid_bytes (name_cid n1) = cid_bytes (name_cid n2) -> n1 = n2).
  Proof.
    intros n1 n2. subst to_string. unfold name_string. repeat split; intros H.
    - assert (H' : dec_cid (enc36 (name_cid n1)) = dec_cid (enc36 (name_cid n2))) by now rewrite H.
      rewrite !dec_enc36 in H'. now inversion H'.
    - unfold routing_key in H. now apply app_inv_head in H.
    - now inversion H.
    - now inversion H.
  Qed.
End NameRoundTrips.

(** the hypotheses of the section are satisfiable: a toy codec *)
Definition toy_enc36 (c : cidv) : str := 107 :: c_ver c :: c_codec c :: c_mh c.
Definition toy_dec_cid (s : str) : option cidv :=
  match s with 107 :: v :: co :: m => Some (mkCid v co m) | _ => None end.
Definition toy_enc58 (m : str) : str := 49 :: m.
Definition toy_dec58 (s : str) : option str := match s with 49 :: m => Some m | _ => None end.

Lemma toy_codec_ok :
  (forall c, toy_dec_cid (toy_enc36 c) = Some c) /\ (forall c, starts_b58 (toy_enc36 c) = false) /\
  (forall c, rooted (toy_enc36 c) = false) /\ (forall m, toy_dec58 (toy_enc58 m) = Some m) /\
  (forall m, starts_b58 (toy_enc58 m) = true) /\ (forall m, rooted (toy_enc58 m) = false).
Proof. repeat split; intros; try reflexivity. destruct c; reflexivity. Qed.
