(** C09 — proofs: the DAG reader refines an in-memory byte reader over the
    flattened tree, for every size-consistent tree and every call sequence. *)
From Coq Require Import List ZArith Bool NArith Lia ZifyBool.
From V Require Import lib.Verdict model.M_C10 proofs.P_C10 model.M_C09.
Import ListNotations.
Open Scope Z_scope.

(** ---------- more byte-string algebra ---------- *)
Lemma takeZ_app (n : Z) (a b : list Z) : takeZ n (a ++ b) = takeZ n a ++ takeZ (n - len a) b.
Proof. pose proof (len_nonneg a). pose proof (len_nonneg b). bytes_eq. Qed.

Lemma dropZ_app (n : Z) (a b : list Z) : dropZ n (a ++ b) = dropZ n a ++ dropZ (n - len a) b.
Proof. pose proof (len_nonneg a). pose proof (len_nonneg b). bytes_eq. Qed.

Lemma takeZ_all (n : Z) (l : list Z) : len l <= n -> takeZ n l = l.
Proof. intros H. pose proof (len_nonneg l). bytes_eq. Qed.

Lemma takeZ_none (n : Z) (l : list Z) : n <= 0 -> takeZ n l = [].
Proof. intros H. pose proof (len_nonneg l). bytes_eq. Qed.

Lemma dropZ_all (n : Z) (l : list Z) : len l <= n -> dropZ n l = [].
Proof. intros H. pose proof (len_nonneg l). bytes_eq. Qed.

Lemma dropZ_none (n : Z) (l : list Z) : n <= 0 -> dropZ n l = l.
Proof. intros H. pose proof (len_nonneg l). bytes_eq. Qed.

Lemma dropZ_dropZ (a b : Z) (l : list Z) : 0 <= a -> 0 <= b -> dropZ a (dropZ b l) = dropZ (a + b) l.
Proof. intros Ha Hb. pose proof (len_nonneg l). bytes_eq. Qed.

Lemma takeZ_none_nil (n : Z) : takeZ n (@nil Z) = [].
Proof. unfold takeZ. apply firstn_nil. Qed.

Lemma dropZ_nil (n : Z) : dropZ n (@nil Z) = [].
Proof. unfold dropZ. apply skipn_nil. Qed.

Lemma zlist_eqb_refl (l : list Z) : zlist_eqb l l = true.
Proof. induction l as [|x l IH]; [reflexivity|]. cbn [zlist_eqb]. rewrite Z.eqb_refl, IH. reflexivity. Qed.

Lemma len_zero_nil (l : list Z) : len l = 0 -> l = [].
Proof. intros H. destruct l; [reflexivity|]. unfold len in H. cbn [length] in H. lia. Qed.

Lemma flat_rest_of d k : 0 <= k <= len d -> flat (rest_of d k) = dropZ k d.
Proof.
  intros H. unfold rest_of. destruct (len d - k =? 0) eqn:E; [|reflexivity].
  cbn [flat]. symmetry. apply dropZ_all. lia.
Qed.

(** ---------- Walker.Iterate delivers the next [need] bytes ---------- *)
Lemma iter_spec : forall rest need, 0 <= need ->
  let '(o, c, r', e) := iter need rest in
  o = takeZ need (concat rest) /\
  flat c ++ concat r' = dropZ need (concat rest) /\
  (0 < need -> e = (len (concat rest) <? need)).
Proof.
  induction rest as [|d r IH]; intros need Hn.
  - cbn [iter concat flat app]. rewrite takeZ_none_nil, dropZ_nil. repeat split. intros H. rewrite len_nil. lia.
  - cbn [iter concat]. pose proof (len_nonneg d) as Ld. pose proof (len_nonneg (concat r)) as Lr.
    destruct (need - Z.min need (len d) =? 0) eqn:E.
    + assert (Hle : need <= len d) by lia.
      replace (Z.min need (len d)) with need by lia.
      rewrite flat_rest_of by lia. rewrite takeZ_app, dropZ_app.
      rewrite (takeZ_none (need - len d)) by lia. rewrite (dropZ_none (need - len d)) by lia.
      rewrite app_nil_r. repeat split. intros H. rewrite len_app. lia.
    + assert (Hgt : len d < need) by lia.
      replace (Z.min need (len d)) with (len d) by lia.
      specialize (IH (need - len d) ltac:(lia)).
      destruct (iter (need - len d) r) as [[[o c] r'] e]. destruct IH as (I1 & I2 & I3).
      rewrite takeZ_app, dropZ_app. rewrite (takeZ_all (len d) d) by lia.
      rewrite (takeZ_all need d) by lia. rewrite (dropZ_all need d) by lia.
      subst o. cbn [app]. repeat split; try assumption.
      intros H. rewrite I3 by lia. rewrite len_app. lia.
Qed.

(** ---------- Walker.Seek lands at the requested offset ---------- *)
Scheme tree_mut := Induction for tree Sort Prop
  with forest_mut := Induction for forest Sort Prop.

Lemma flatten_f_cons sz t r : flatten_f (FCons sz t r) = flatten t ++ flatten_f r.
Proof. unfold flatten_f, flatten. cbn [leaves_f]. apply concat_app. Qed.

Combined Scheme tree_forest_mutind from tree_mut, forest_mut.

Lemma seek_descend_both :
  (forall t, consistent t = true -> forall left, 0 <= left ->
     let (c, rest) := seek_tree t left in flat c ++ concat rest = dropZ left (flatten t)) /\
  (forall f, consistent_f f = true -> forall left, 0 <= left ->
     let (c, rest) := seek_f f left in flat c ++ concat rest = dropZ left (flatten_f f)).
Proof.
  apply tree_forest_mutind.
  - (* a leaf: seek inside its data *)
    intros d _ left Hl. cbn [seek_tree flat concat]. unfold flatten. cbn [leaves concat].
    rewrite !app_nil_r. reflexivity.
  - (* an internal node *)
    intros f IH Hc left Hl. cbn [seek_tree]. cbn [consistent] in Hc.
    exact (IH Hc left Hl).
  - (* no child left *)
    intros _ left Hl. cbn [seek_f flat concat app]. unfold flatten_f. cbn [leaves_f concat].
    symmetry. apply dropZ_nil.
  - (* the next child: go down or skip by its recorded size *)
    intros sz t IHt r IHr Hc left Hl. cbn [consistent_f] in Hc.
    apply andb_prop in Hc. destruct Hc as [Hc Hcr]. apply andb_prop in Hc. destruct Hc as [Hsz Hct].
    cbn [seek_f]. rewrite flatten_f_cons, dropZ_app.
    pose proof (len_nonneg (flatten t)) as Lt.
    destruct (left <? sz) eqn:E.
    + specialize (IHt Hct left Hl). destruct (seek_tree t left) as [c rest].
      rewrite concat_app, app_assoc, IHt. rewrite (dropZ_none (left - len (flatten t))) by lia.
      reflexivity.
    + specialize (IHr Hcr (left - sz) ltac:(lia)). destruct (seek_f r (left - sz)) as [c rest].
      rewrite IHr. rewrite (dropZ_all left (flatten t)) by lia.
      replace (left - len (flatten t)) with (left - sz) by lia. reflexivity.
Qed.

Lemma seek_descend t left : consistent t = true -> 0 <= left ->
  let (c, rest) := seek_tree t left in flat c ++ concat rest = dropZ left (flatten t).
Proof. intros Hc Hl. exact (proj1 seek_descend_both t Hc left Hl). Qed.

(** ---------- the simulation ---------- *)
Definition inv (c : list Z) (r : rd) : Prop :=
  0 <= r_off r /\ flat (r_cur r) ++ concat (r_rest r) = dropZ (r_off r) c.

Definition op_wf (o : op) : bool := match o with ORead n => 0 <=? n | _ => true end.

Lemma inv_init t : inv (flatten t) (rd_init t).
Proof.
  unfold inv, rd_init. cbn [r_off r_cur r_rest flat app]. split; [lia|].
  symmetry. apply dropZ_none. lia.
Qed.

Lemma read_sim c r n : inv c r -> 0 <= n ->
  let '(r', d, e) := read r n in
  inv c r' /\ d = takeZ n (dropZ (r_off r) c) /\ r_off r' = r_off r + len d /\
  (0 < n -> e = if len d <? n then EEOF else ENone) /\ (n = 0 -> e <> EOther).
Proof.
  intros [Hoff Hinv] Hn. unfold read.
  destruct (r_cur r) as [d0|] eqn:Ec; cbn [flat] in Hinv.
  - pose proof (len_nonneg d0) as L0. pose proof (len_nonneg (concat (r_rest r))) as Lr.
    destruct (Z.min n (len d0) =? n) eqn:E.
    + assert (Hle : n <= len d0) by lia. replace (Z.min n (len d0)) with n by lia.
      assert (Hd : takeZ n d0 = takeZ n (dropZ (r_off r) c)).
      { rewrite <- Hinv, takeZ_app. rewrite (takeZ_none (n - len d0)) by lia.
        rewrite app_nil_r. reflexivity. }
      assert (Hl : len (takeZ n d0) = n) by (rewrite len_takeZ; lia).
      split; [|split; [exact Hd|split; [cbn [r_off]; lia|split]]].
      * unfold inv. cbn [r_off r_cur r_rest]. split; [lia|].
        rewrite flat_rest_of by lia. rewrite (Z.add_comm (r_off r) n).
        rewrite <- (dropZ_dropZ n (r_off r) c) by lia.
        rewrite <- Hinv, dropZ_app. rewrite (dropZ_none (n - len d0)) by lia. reflexivity.
      * intros Hp. rewrite Hl. destruct (n <? n) eqn:E1; [lia|reflexivity].
      * intros _. discriminate.
    + assert (Hgt : len d0 < n) by lia. replace (Z.min n (len d0)) with (len d0) by lia.
      pose proof (iter_spec (r_rest r) (n - len d0) ltac:(lia)) as HI.
      destruct (iter (n - len d0) (r_rest r)) as [[[o cu] r'] e]. destruct HI as (I1 & I2 & I3).
      rewrite (takeZ_all (len d0) d0) by lia.
      assert (Hd : d0 ++ o = takeZ n (dropZ (r_off r) c)).
      { rewrite <- Hinv, takeZ_app. rewrite (takeZ_all n d0) by lia. rewrite I1. reflexivity. }
      split; [|split; [exact Hd|split; [cbn [r_off]; rewrite len_app; lia|split]]].
      * unfold inv. cbn [r_off r_cur r_rest]. pose proof (len_nonneg o). split; [lia|].
        rewrite I2. replace (r_off r + len d0 + len o) with ((len d0 + len o) + r_off r) by lia.
        rewrite <- (dropZ_dropZ (len d0 + len o) (r_off r) c) by lia.
        rewrite <- Hinv, dropZ_app. rewrite (dropZ_all (len d0 + len o) d0) by lia.
        cbn [app]. subst o. rewrite len_takeZ.
        (* dropping (n - len d0) or everything is the same once the data is shorter *)
        destruct (Z_le_gt_dec (n - len d0) (len (concat (r_rest r)))) as [Hc|Hc].
        -- f_equal. lia.
        -- rewrite !dropZ_all by lia. reflexivity.
      * intros Hp. rewrite I3 by lia. subst o. rewrite len_app, len_takeZ.
        destruct (len (concat (r_rest r)) <? n - len d0) eqn:E1;
          destruct (len d0 + Z.min (Z.max 0 (n - len d0)) (len (concat (r_rest r))) <? n) eqn:E2;
          try reflexivity; lia.
      * intros H0. lia.
  - cbn [app] in Hinv.
    pose proof (iter_spec (r_rest r) n Hn) as HI.
    destruct (iter n (r_rest r)) as [[[o cu] r'] e]. destruct HI as (I1 & I2 & I3).
    pose proof (len_nonneg (concat (r_rest r))) as Lr.
    assert (Hd : o = takeZ n (dropZ (r_off r) c)) by (rewrite <- Hinv; exact I1).
    split; [|split; [exact Hd|split; [reflexivity|split]]].
    + unfold inv. cbn [r_off r_cur r_rest]. pose proof (len_nonneg o). split; [lia|].
      rewrite I2. rewrite Z.add_comm. rewrite <- (dropZ_dropZ (len o) (r_off r) c) by lia.
      rewrite <- Hinv. subst o. rewrite len_takeZ.
      destruct (Z_le_gt_dec n (len (concat (r_rest r)))) as [Hc|Hc].
      * f_equal. lia.
      * rewrite !dropZ_all by lia. reflexivity.
    + intros Hp. rewrite I3 by lia. rewrite I1, len_takeZ.
      destruct (len (concat (r_rest r)) <? n) eqn:E1;
        destruct (Z.min (Z.max 0 n) (len (concat (r_rest r))) <? n) eqn:E2; try reflexivity; lia.
    + intros _. destruct e; discriminate.
Qed.

Lemma seek_start_sim t r off : consistent t = true -> inv (flatten t) r ->
  let '(r', p, ok) := seek_start t r off in
  inv (flatten t) r' /\
  (if off <? 0 then ok = false /\ r' = r else ok = true /\ p = off /\ r_off r' = off).
Proof.
  intros Hc Hinv. unfold seek_start.
  destruct (off <? 0) eqn:E0; [auto|].
  destruct (off =? r_off r) eqn:E1.
  { split; [exact Hinv|]. repeat split. lia. }
  destruct (off =? 0) eqn:E2.
  { split; [apply inv_init|]. repeat split; cbn [r_off rd_init]; lia. }
  pose proof (seek_descend t off Hc ltac:(lia)) as HS.
  destruct (seek_tree t off) as [c rest].
  split; [|auto]. unfold inv. cbn [r_off r_cur r_rest]. split; [lia|exact HS].
Qed.

(** one call: the reader and the byte reader stay in step and answer alike *)
Lemma step_sim t r s o : consistent t = true -> op_wf o = true ->
  inv (flatten t) r -> r_off r = b_pos s ->
  let '(r', b) := step t (len (flatten t)) r o in
  let '(s', b') := spec_step (flatten t) s o in
  inv (flatten t) r' /\ r_off r' = b_pos s' /\ ob_match o b b' = true.
Proof.
  intros Hc Hwf Hinv Hpos. destruct o as [n|off wh|]; cbn [step spec_step op_wf] in *.
  - pose proof (read_sim (flatten t) r n Hinv ltac:(lia)) as HR.
    destruct (read r n) as [[r' d] e]. destruct HR as (Hi & Hd & Ho & He & He0).
    cbn [b_pos]. rewrite <- Hpos, <- Hd. split; [exact Hi|split; [exact Ho|]].
    cbn [ob_match]. rewrite zlist_eqb_refl. cbn [andb].
    destruct (Z_lt_le_dec 0 n) as [Hp|Hz].
    + rewrite (He Hp). destruct (len d <? n); reflexivity.
    + assert (n = 0) by lia. subst n. specialize (He0 eq_refl).
      destruct (len d <? 0) eqn:E; [pose proof (len_nonneg d); lia|].
      destruct e; try reflexivity. congruence.
  - unfold seek. cbn [b_pos]. rewrite <- Hpos.
    assert (Hgo : forall tgt,
      let '(r', p, ok) := seek_start t r tgt in
      let '(s', b') := (if tgt <? 0 then (s, BSeek 0 false) else ({| b_pos := tgt |}, BSeek tgt true)) in
      inv (flatten t) r' /\ r_off r' = b_pos s' /\ ob_match (OSeek off wh) (BSeek p ok) b' = true).
    { intros tgt. pose proof (seek_start_sim t r tgt Hc Hinv) as HS.
      destruct (seek_start t r tgt) as [[r' p] ok]. destruct HS as [Hi Hk].
      destruct (tgt <? 0) eqn:E.
      - destruct Hk as [Hk1 Hk2]. subst ok r'. split; [exact Hinv|split; [exact Hpos|reflexivity]].
      - destruct Hk as (Hk1 & Hk2 & Hk3). subst ok p. split; [exact Hi|split; [exact Hk3|]].
        cbn [ob_match b_pos Bool.eqb negb orb andb]. lia. }
    destruct (wh =? 0) eqn:W0.
    { specialize (Hgo off). destruct (seek_start t r off) as [[r' p] ok].
      destruct (off <? 0); exact Hgo. }
    destruct (wh =? 1) eqn:W1.
    { destruct (off =? 0) eqn:O0.
      - assert (off = 0) by lia. subst off. destruct Hinv as [Hoff Hi].
        replace (r_off r + 0) with (r_off r) by lia.
        destruct (r_off r <? 0) eqn:E; [lia|]. cbn [b_pos].
        split; [split; assumption|split; [reflexivity|]].
        cbn [ob_match Bool.eqb negb orb andb]. lia.
      - specialize (Hgo (r_off r + off)).
        destruct (seek_start t r (r_off r + off)) as [[r' p] ok].
        destruct (r_off r + off <? 0); exact Hgo. }
    destruct (wh =? 2) eqn:W2.
    { specialize (Hgo (len (flatten t) + off)).
      destruct (seek_start t r (len (flatten t) + off)) as [[r' p] ok].
      destruct (len (flatten t) + off <? 0); exact Hgo. }
    split; [exact Hinv|split; [exact Hpos|reflexivity]].
  - destruct Hinv as [Hoff Hi]. unfold write_to. cbn [b_pos]. rewrite Hi, <- Hpos.
    pose proof (len_nonneg (dropZ (r_off r) (flatten t))) as Ld.
    split; [|split; [reflexivity|]].
    + unfold inv. cbn [r_off r_cur r_rest flat concat app]. split; [lia|].
      symmetry. apply dropZ_all. rewrite len_dropZ.
      pose proof (len_nonneg (flatten t)). lia.
    + cbn [ob_match]. rewrite zlist_eqb_refl. rewrite <- len_app, Hi, Z.eqb_refl. reflexivity.
Qed.

Lemma run_sim t : consistent t = true -> forall ops r s,
  forallb op_wf ops = true -> inv (flatten t) r -> r_off r = b_pos s ->
  obs_match ops (snd (run t (len (flatten t)) r ops)) (snd (spec_run (flatten t) s ops)) = true.
Proof.
  intros Hc. induction ops as [|o q IH]; intros r s Hwf Hinv Hpos; [reflexivity|].
  cbn [forallb] in Hwf. apply andb_prop in Hwf. destruct Hwf as [Hwo Hwq].
  pose proof (step_sim t r s o Hc Hwo Hinv Hpos) as HS.
  cbn [run spec_run].
  destruct (step t (len (flatten t)) r o) as [r' b]. destruct (spec_step (flatten t) s o) as [s' b'].
  destruct HS as (Hi & Hp & Hm).
  specialize (IH r' s' Hwq Hi Hp).
  destruct (run t (len (flatten t)) r' q) as [r'' bs]. destruct (spec_run (flatten t) s' q) as [s'' bs'].
  cbn [snd obs_match] in *. rewrite Hm, IH. reflexivity.
Qed.

(** the refinement theorem *)
Lemma refines_bytes t ops :
  consistent t = true -> forallb op_wf ops = true ->
  obs_match ops (snd (run t (len (flatten t)) (rd_init t) ops))
                (snd (spec_run (flatten t) {| b_pos := 0 |} ops)) = true.
Proof.
  intros Hc Hwf. apply run_sim; try assumption; [apply inv_init|reflexivity].
Qed.

(** seeking past the end is accepted; afterwards every read delivers nothing and reports EOF,
    WriteTo delivers nothing, and the position stays *)
Lemma seek_past_end t off n : consistent t = true -> len (flatten t) <= off -> 0 < n ->
  snd (run t (len (flatten t)) (rd_init t) [OSeek off 0; ORead n; OWriteTo; OSeek 0 1])
  = [BSeek off true; BRead [] EEOF; BWrite [] 0 ENone; BSeek off true].
Proof.
  intros Hc Hoff Hn. pose proof (len_nonneg (flatten t)) as L.
  pose proof (inv_init t) as Hinv0.
  cbn [run step]. unfold seek. cbn [Z.eqb].
  pose proof (seek_start_sim t (rd_init t) off Hc Hinv0) as HS.
  destruct (seek_start t (rd_init t) off) as [[r1 p1] ok1]. destruct HS as [Hi1 Hk].
  destruct (off <? 0) eqn:E; [lia|]. destruct Hk as (Hk1 & Hk2 & Hk3). subst ok1 p1.
  pose proof (read_sim (flatten t) r1 n Hi1 ltac:(lia)) as HR.
  destruct (read r1 n) as [[r2 d] e]. destruct HR as (Hi2 & Hd & Ho & He & _).
  rewrite Hk3 in Hd. rewrite (dropZ_all off) in Hd by lia. rewrite takeZ_none_nil in Hd. subst d.
  specialize (He Hn). rewrite len_nil in He, Ho. destruct (0 <? n) eqn:E1; [|lia]. subst e.
  unfold write_to. destruct Hi2 as [Ho2 Hi2]. rewrite <- len_app, Hi2.
  assert (Hr2 : r_off r2 = off) by lia. rewrite Hr2.
  rewrite (dropZ_all off) by lia. rewrite len_nil.
  cbn [Pos.eqb r_off snd]. replace (off + 0) with off by lia. reflexivity.
Qed.
