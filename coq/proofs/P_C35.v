(** C35 — proofs about the message-queue transition system [model/M_C35.v]. *)
From Coq Require Import List ZArith Bool NArith Lia.
From V Require Import lib.Verdict model.M_C34 model.M_C35.
Import ListNotations.
Open Scope Z_scope.

(** ---------- maps / sets ---------- *)
Section ZP.
  Context {V : Type}.
  Implicit Types (l : list (Z * V)).

  Lemma zget_zdel_same : forall l k, zget k (zdel k l) = None.
  Proof.
    induction l as [|[k0 v0] r IH]; intro k; cbn [zdel zget]; [reflexivity|].
    destruct (k =? k0) eqn:E; [apply IH|]. cbn [zget]. rewrite E. apply IH.
  Qed.
  Lemma zget_zdel_other : forall l k k', k <> k' -> zget k' (zdel k l) = zget k' l.
  Proof.
    induction l as [|[k0 v0] r IH]; intros k k' HN; cbn [zdel zget]; [reflexivity|].
    destruct (k =? k0) eqn:E.
    - apply Z.eqb_eq in E. subst k0. assert (E2 : k' =? k = false) by (apply Z.eqb_neq; congruence).
      rewrite E2. apply IH. exact HN.
    - cbn [zget]. destruct (k' =? k0); [reflexivity | apply IH; exact HN].
  Qed.
  Lemma zget_zset_same : forall l k v, zget k (zset k v l) = Some v.
  Proof. intros. unfold zset. cbn [zget]. rewrite Z.eqb_refl. reflexivity. Qed.
  Lemma zget_zset_other : forall l k k' v, k <> k' -> zget k' (zset k v l) = zget k' l.
  Proof.
    intros l k k' v HN. unfold zset. cbn [zget].
    assert (E : k' =? k = false) by (apply Z.eqb_neq; congruence). rewrite E.
    apply zget_zdel_other. exact HN.
  Qed.
End ZP.

Lemma smem_srem_same : forall s k, smem k (srem k s) = false.
Proof.
  induction s as [|x r IH]; intro k; cbn [srem filter smem existsb]; [reflexivity|].
  destruct (k =? x) eqn:E; cbn [negb]; [apply IH|]. cbn [existsb]. rewrite E. apply IH.
Qed.
Lemma smem_srem_other : forall s k k', k <> k' -> smem k' (srem k s) = smem k' s.
Proof.
  induction s as [|x r IH]; intros k k' HN; cbn [srem filter smem existsb]; [reflexivity|].
  destruct (k =? x) eqn:E; cbn [negb].
  - apply Z.eqb_eq in E. subst x. assert (E2 : k' =? k = false) by (apply Z.eqb_neq; congruence).
    rewrite E2. cbn [orb]. apply IH. exact HN.
  - cbn [existsb]. f_equal. apply IH. exact HN.
Qed.
Lemma smem_sadd_same : forall s k, smem k (sadd k s) = true.
Proof.
  intros s k. unfold sadd. destruct (smem k s) eqn:E; [exact E|]. cbn [smem existsb]. rewrite Z.eqb_refl. reflexivity.
Qed.
Lemma smem_sadd_other : forall s k k', k <> k' -> smem k' (sadd k s) = smem k' s.
Proof.
  intros s k k' HN. unfold sadd. destruct (smem k s); [reflexivity|]. cbn [smem existsb].
  assert (E : k' =? k = false) by (apply Z.eqb_neq; congruence). rewrite E. reflexivity.
Qed.

(** ---------- wantlist ---------- *)
Definition wtype (l : wl) (c : Z) : option Z := match zget c l with Some (_, t) => Some t | None => None end.

Lemma zhas_wtype : forall (l : wl) c, zhas c l = match wtype l c with Some _ => true | None => false end.
Proof. intros. unfold zhas, wtype. destruct (zget c l) as [[p t]|]; reflexivity. Qed.

Lemma wtype_add_same : forall l c p t,
  wtype (wl_add c p t l) c =
  match wtype l c with
  | Some t0 => if (t0 =? TBlock) || (t =? THave) then Some t0 else Some t
  | None => Some t
  end.
Proof.
  intros l c p t. unfold wtype, wl_add. destruct (zget c l) as [[p0 t0]|] eqn:E.
  - destruct ((t0 =? TBlock) || (t =? THave)); [rewrite E; reflexivity | rewrite zget_zset_same; reflexivity].
  - rewrite zget_zset_same. reflexivity.
Qed.
Lemma wtype_add_other : forall l c c' p t, c <> c' -> wtype (wl_add c p t l) c' = wtype l c'.
Proof.
  intros l c c' p t HN. unfold wtype, wl_add. destruct (zget c l) as [[p0 t0]|].
  - destruct ((t0 =? TBlock) || (t =? THave)); [reflexivity | rewrite zget_zset_other by exact HN; reflexivity].
  - rewrite zget_zset_other by exact HN. reflexivity.
Qed.
Lemma wtype_del_same : forall (l : wl) c, wtype (zdel c l) c = None.
Proof. intros. unfold wtype. rewrite zget_zdel_same. reflexivity. Qed.
Lemma wtype_del_other : forall (l : wl) c c', c <> c' -> wtype (zdel c l) c' = wtype l c'.
Proof. intros. unfold wtype. rewrite zget_zdel_other by assumption. reflexivity. Qed.

Lemma remtype_spec : forall l c t,
  match wtype l c with
  | None => wl_remtype c t l = (l, false)
  | Some t0 => if (t0 =? TBlock) && (t =? THave) then wl_remtype c t l = (l, false)
               else wl_remtype c t l = (zdel c l, true)
  end.
Proof.
  intros l c t. unfold wtype, wl_remtype. destruct (zget c l) as [[p0 t0]|]; [|reflexivity].
  destruct ((t0 =? TBlock) && (t =? THave)); reflexivity.
Qed.

(** ---------- the send step of the fixed model as a run of single-item steps ---------- *)
Section Micro.
  Variable sh : bool.

  Definition fc (c : Z) : mentry := (c, (0, TBlock, true, false)).
  Definition fp (e : Z * went) : mentry := (fst e, (fst (snd e), snd (snd e), false, true)).
  Definition fb (e : Z * went) : mentry := (fst e, (fst (snd e), bcst_type sh, false, false)).

  Definition mc (s : st) (c : Z) : st :=
    if smem c (cn s) then
      mkst (pp s) (ps s) (bp s) (bs s) (srem c (cn s)) (prio s) (zdel c (r_wl s)) (g_wp s) (g_wb s)
    else s.
  Definition mp (s : st) (e : Z * went) : st :=
    let '(c, (p, t)) := e in
    let (pend1, ok) := wl_remtype c t (pp s) in
    if ok then mkst pend1 (wl_add c p t (ps s)) (bp s) (bs s) (cn s) (prio s) (wl_add c p t (r_wl s)) (g_wp s) (g_wb s)
    else s.
  Definition mb (s : st) (e : Z * went) : st :=
    let '(c, (p, t)) := e in
    let (pend1, ok) := wl_remtype c t (bp s) in
    if ok then mkst (pp s) (ps s) pend1 (wl_add c p t (bs s)) (cn s) (prio s) (wl_add c p (bcst_type sh) (r_wl s)) (g_wp s) (g_wb s)
    else s.

  Lemma deliver_app : forall r a b, deliver r (a ++ b) = deliver (deliver r a) b.
  Proof. intros. unfold deliver. apply fold_left_app. Qed.

  Lemma remtype_fail_same : forall c t l l', wl_remtype c t l = (l', false) -> l' = l.
  Proof.
    intros c t l l'. unfold wl_remtype. destruct (zget c l) as [[p0 t0]|]; [|congruence].
    destruct ((t0 =? TBlock) && (t =? THave)); congruence.
  Qed.

  Lemma mc_fold : forall cs s,
    let '(cn1, okc, _) := mark_cancels cs (cn s) in
    fold_left mc cs s =
    mkst (pp s) (ps s) (bp s) (bs s) cn1 (prio s) (deliver (r_wl s) (map fc okc)) (g_wp s) (g_wb s).
  Proof.
    induction cs as [|c r IH]; intro s; cbn [mark_cancels fold_left].
    - cbn [map deliver fold_left]. destruct s; reflexivity.
    - unfold mc at 2. destruct (smem c (cn s)) eqn:E.
      + specialize (IH (mkst (pp s) (ps s) (bp s) (bs s) (srem c (cn s)) (prio s) (zdel c (r_wl s)) (g_wp s) (g_wb s))).
        cbn [pp ps bp bs cn prio r_wl g_wp g_wb] in IH.
        destruct (mark_cancels r (srem c (cn s))) as [[cn2 oks] bad]. rewrite IH. reflexivity.
      + specialize (IH s). destruct (mark_cancels r (cn s)) as [[cn2 oks] bad]. exact IH.
  Qed.

  Lemma mp_fold : forall es s,
    let '(pp1, ps1, okp, _) := mark es (pp s) (ps s) in
    fold_left mp es s =
    mkst pp1 ps1 (bp s) (bs s) (cn s) (prio s) (deliver (r_wl s) (map fp okp)) (g_wp s) (g_wb s).
  Proof.
    induction es as [|[c [p t]] r IH]; intro s; cbn [mark fold_left].
    - cbn [map deliver fold_left]. destruct s; reflexivity.
    - unfold mp at 2. destruct (wl_remtype c t (pp s)) as [pend1 ok] eqn:E. destruct ok.
      + specialize (IH (mkst pend1 (wl_add c p t (ps s)) (bp s) (bs s) (cn s) (prio s) (wl_add c p t (r_wl s)) (g_wp s) (g_wb s))).
        cbn [pp ps bp bs cn prio r_wl g_wp g_wb] in IH.
        destruct (mark r pend1 (wl_add c p t (ps s))) as [[[pp2 ps2] oks] bad]. rewrite IH. reflexivity.
      + apply remtype_fail_same in E. subst pend1. specialize (IH s).
        destruct (mark r (pp s) (ps s)) as [[[pp2 ps2] oks] bad]. exact IH.
  Qed.

  Lemma mb_fold : forall es s,
    let '(bp1, bs1, okb, _) := mark es (bp s) (bs s) in
    fold_left mb es s =
    mkst (pp s) (ps s) bp1 bs1 (cn s) (prio s) (deliver (r_wl s) (map fb okb)) (g_wp s) (g_wb s).
  Proof.
    induction es as [|[c [p t]] r IH]; intro s; cbn [mark fold_left].
    - cbn [map deliver fold_left]. destruct s; reflexivity.
    - unfold mb at 2. destruct (wl_remtype c t (bp s)) as [pend1 ok] eqn:E. destruct ok.
      + specialize (IH (mkst (pp s) (ps s) pend1 (wl_add c p t (bs s)) (cn s) (prio s) (wl_add c p (bcst_type sh) (r_wl s)) (g_wp s) (g_wb s))).
        cbn [pp ps bp bs cn prio r_wl g_wp g_wb] in IH.
        destruct (mark r pend1 (wl_add c p t (bs s))) as [[[bp2 bs2] oks] bad]. rewrite IH. reflexivity.
      + apply remtype_fail_same in E. subst pend1. specialize (IH s).
        destruct (mark r (bp s) (bs s)) as [[[bp2 bs2] oks] bad]. exact IH.
  Qed.

  Lemma send_fixed_micro : forall cs pes bes s,
    fst (send_result fixed_flags sh cs pes bes s) =
    fold_left mb bes (fold_left mp pes (fold_left mc cs s)).
  Proof.
    intros cs pes bes s. unfold send_result.
    pose proof (mc_fold cs s) as HC.
    destruct (mark_cancels cs (cn s)) as [[cn1 okc] badc]. rewrite HC. clear HC.
    set (s1 := mkst (pp s) (ps s) (bp s) (bs s) cn1 (prio s) (deliver (r_wl s) (map fc okc)) (g_wp s) (g_wb s)).
    pose proof (mp_fold pes s1) as HP. cbn [pp ps s1] in HP.
    destruct (mark pes (pp s) (ps s)) as [[[pp1 ps1] okp] badp]. rewrite HP. clear HP.
    cbn [bp bs cn prio r_wl g_wp g_wb s1].
    set (s2 := mkst pp1 ps1 (bp s) (bs s) cn1 (prio s) (deliver (deliver (r_wl s) (map fc okc)) (map fp okp)) (g_wp s) (g_wb s)).
    pose proof (mb_fold bes s2) as HB. cbn [bp bs s2] in HB.
    destruct (mark bes (bp s) (bs s)) as [[[bp1 bs1] okb] badb]. rewrite HB. clear HB.
    cbn [fst pp ps cn prio r_wl g_wp g_wb s2]. unfold build_msg. cbn [f_merge fixed_flags].
    rewrite !deliver_app. reflexivity.
  Qed.
End Micro.

(** ---------- the coupling invariant, CID by CID, over a finite abstraction ---------- *)
Inductive ty := TN | TB | TH.            (* absent / want-block / any other type *)
Definition abs (o : option Z) : ty :=
  match o with None => TN | Some t => if t =? TBlock then TB else TH end.
Definition nz (x : ty) : bool := match x with TN => false | _ => true end.
Definition isB (x : ty) : bool := match x with TB => true | _ => false end.

(** for one CID: [r] the peer's entry, [pp ps bp bs] the four client lists, [cn] cancel queued,
    [wp] wanted per-peer (ghost), [wb] wanted by broadcast (ghost) *)
Definition invb (sh : bool) (r pp ps bp bs : ty) (cn : bool) (wp : ty) (wb : bool) : bool :=
  implb (nz r) (nz wp || wb || cn) &&
  implb (sh && nz wp) (nz r || nz pp) &&
  implb wb (nz r || nz bp) &&
  implb (nz pp || nz ps) (nz wp) &&
  implb (nz bp || nz bs) wb &&
  implb cn (negb (nz wp) && negb wb) &&
  implb (isB wp) (isB r || isB pp).

Definition a_add (old : ty) (tb : bool) : ty :=
  match old with TB => TB | _ => if tb then TB else TH end.
Definition a_rem (old : ty) (th : bool) : ty * bool :=
  match old with TN => (TN, false) | TB => if th then (TB, false) else (TN, true) | TH => (TN, true) end.

Definition all3 (P : ty -> bool) : bool := P TN && P TB && P TH.
Definition all2 (P : bool -> bool) : bool := P true && P false.
Lemma all3_ok : forall P, all3 P = true -> forall x, P x = true.
Proof. intros P HH x. unfold all3 in HH. apply andb_true_iff in HH. destruct HH as [HH H3].
  apply andb_true_iff in HH. destruct HH as [H1 H2]. destruct x; assumption. Qed.
Lemma all2_ok : forall P, all2 P = true -> forall x, P x = true.
Proof. intros P HH x. unfold all2 in HH. apply andb_true_iff in HH. destruct HH as [H1 H2]. destruct x; assumption. Qed.

Definition chk (P : bool -> ty -> ty -> ty -> ty -> ty -> bool -> ty -> bool -> bool) : bool :=
  all2 (fun sh => all3 (fun r => all3 (fun pp => all3 (fun ps => all3 (fun bp => all3 (fun bs =>
  all2 (fun cn => all3 (fun wp => all2 (fun wb => P sh r pp ps bp bs cn wp wb))))))))).
Lemma chk_ok : forall P, chk P = true -> forall sh r pp ps bp bs cn wp wb, P sh r pp ps bp bs cn wp wb = true.
Proof.
  intros P HH sh r pp ps bp bs cn wp wb. unfold chk in HH.
  pose proof (all2_ok _ HH sh) as H1. cbv beta in H1.
  pose proof (all3_ok _ H1 r) as H2. cbv beta in H2.
  pose proof (all3_ok _ H2 pp) as H3. cbv beta in H3.
  pose proof (all3_ok _ H3 ps) as H4. cbv beta in H4.
  pose proof (all3_ok _ H4 bp) as H5. cbv beta in H5.
  pose proof (all3_ok _ H5 bs) as H6. cbv beta in H6.
  pose proof (all2_ok _ H6 cn) as H7. cbv beta in H7.
  pose proof (all3_ok _ H7 wp) as H8. cbv beta in H8.
  exact (all2_ok _ H8 wb).
Qed.

(** abstract transfer of every atomic step at the CID it touches *)
Lemma a_want : forall tb sh r pp ps bp bs cn wp wb, invb sh r pp ps bp bs cn wp wb = true ->
  invb sh r (a_add pp tb) ps bp bs false (match wp with TB => TB | _ => if tb then TB else TH end) wb = true.
Proof.
  intros tb sh r pp ps bp bs cn wp wb HI.
  assert (HH : implb (invb sh r pp ps bp bs cn wp wb)
    (invb sh r (a_add pp tb) ps bp bs false (match wp with TB => TB | _ => if tb then TB else TH end) wb) = true).
  { assert (C : chk (fun sh r pp ps bp bs cn wp wb => all2 (fun tb => implb (invb sh r pp ps bp bs cn wp wb)
      (invb sh r (a_add pp tb) ps bp bs false (match wp with TB => TB | _ => if tb then TB else TH end) wb))) = true)
      by (vm_compute; reflexivity).
    exact (all2_ok _ (chk_ok _ C sh r pp ps bp bs cn wp wb) tb). }
  rewrite HI in HH. exact HH.
Qed.

Lemma a_bcast : forall sh r pp ps bp bs cn wp wb, invb sh r pp ps bp bs cn wp wb = true ->
  invb sh r pp ps (a_add bp false) bs false wp true = true.
Proof.
  intros sh r pp ps bp bs cn wp wb HI.
  assert (HH : implb (invb sh r pp ps bp bs cn wp wb) (invb sh r pp ps (a_add bp false) bs false wp true) = true).
  { apply (chk_ok (fun sh r pp ps bp bs cn wp wb => implb (invb sh r pp ps bp bs cn wp wb)
      (invb sh r pp ps (a_add bp false) bs false wp true))). vm_compute. reflexivity. }
  rewrite HI in HH. exact HH.
Qed.

Lemma a_cancel : forall sh r pp ps bp bs cn wp wb, invb sh r pp ps bp bs cn wp wb = true ->
  invb sh r TN TN TN TN (if nz r then true else cn) TN false = true.
Proof.
  intros sh r pp ps bp bs cn wp wb HI.
  assert (HH : implb (invb sh r pp ps bp bs cn wp wb) (invb sh r TN TN TN TN (if nz r then true else cn) TN false) = true).
  { apply (chk_ok (fun sh r pp ps bp bs cn wp wb => implb (invb sh r pp ps bp bs cn wp wb)
      (invb sh r TN TN TN TN (if nz r then true else cn) TN false))). vm_compute. reflexivity. }
  rewrite HI in HH. exact HH.
Qed.

Lemma a_purge : forall r pp ps bp bs cn wp wb, invb false r pp ps bp bs cn wp wb = true ->
  invb false r (fst (a_rem pp true)) (fst (a_rem ps true)) bp bs cn wp wb = true.
Proof.
  intros r pp ps bp bs cn wp wb HI.
  assert (HH : implb (invb false r pp ps bp bs cn wp wb)
    (invb false r (fst (a_rem pp true)) (fst (a_rem ps true)) bp bs cn wp wb) = true).
  { assert (C : chk (fun sh r pp ps bp bs cn wp wb => implb (invb false r pp ps bp bs cn wp wb)
      (invb false r (fst (a_rem pp true)) (fst (a_rem ps true)) bp bs cn wp wb)) = true) by (vm_compute; reflexivity).
    exact (chk_ok _ C true r pp ps bp bs cn wp wb). }
  rewrite HI in HH. exact HH.
Qed.

Lemma a_mc : forall sh r pp ps bp bs wp wb, invb sh r pp ps bp bs true wp wb = true ->
  invb sh TN pp ps bp bs false wp wb = true.
Proof.
  intros sh r pp ps bp bs wp wb HI.
  assert (HH : implb (invb sh r pp ps bp bs true wp wb) (invb sh TN pp ps bp bs false wp wb) = true).
  { assert (C : chk (fun sh r pp ps bp bs cn wp wb => implb (invb sh r pp ps bp bs true wp wb)
      (invb sh TN pp ps bp bs false wp wb)) = true) by (vm_compute; reflexivity).
    exact (chk_ok _ C sh r pp ps bp bs true wp wb). }
  rewrite HI in HH. exact HH.
Qed.

(** a peer candidate of type Block ([tb]) or Have that passed markSent *)
Lemma a_mp : forall tb sh r pp ps bp bs cn wp wb, invb sh r pp ps bp bs cn wp wb = true ->
  snd (a_rem pp (negb tb)) = true ->
  invb sh (a_add r tb) TN (a_add ps tb) bp bs cn wp wb = true.
Proof.
  intros tb sh r pp ps bp bs cn wp wb HI HR.
  assert (HH : implb (invb sh r pp ps bp bs cn wp wb && snd (a_rem pp (negb tb)))
    (invb sh (a_add r tb) TN (a_add ps tb) bp bs cn wp wb) = true).
  { assert (C : chk (fun sh r pp ps bp bs cn wp wb => all2 (fun tb =>
      implb (invb sh r pp ps bp bs cn wp wb && snd (a_rem pp (negb tb)))
            (invb sh (a_add r tb) TN (a_add ps tb) bp bs cn wp wb))) = true) by (vm_compute; reflexivity).
    exact (all2_ok _ (chk_ok _ C sh r pp ps bp bs cn wp wb) tb). }
  rewrite HI, HR in HH. exact HH.
Qed.

Lemma a_mb : forall th sh r pp ps bp bs cn wp wb, invb sh r pp ps bp bs cn wp wb = true ->
  snd (a_rem bp th) = true ->
  forall tb, invb sh (a_add r (negb sh)) pp ps TN (a_add bs tb) cn wp wb = true.
Proof.
  intros th sh r pp ps bp bs cn wp wb HI HR tb.
  assert (HH : implb (invb sh r pp ps bp bs cn wp wb && snd (a_rem bp th))
    (invb sh (a_add r (negb sh)) pp ps TN (a_add bs tb) cn wp wb) = true).
  { assert (C : chk (fun sh r pp ps bp bs cn wp wb => all2 (fun th => all2 (fun tb =>
      implb (invb sh r pp ps bp bs cn wp wb && snd (a_rem bp th))
            (invb sh (a_add r (negb sh)) pp ps TN (a_add bs tb) cn wp wb)))) = true) by (vm_compute; reflexivity).
    exact (all2_ok _ (all2_ok _ (chk_ok _ C sh r pp ps bp bs cn wp wb) th) tb). }
  rewrite HI, HR in HH. exact HH.
Qed.

Lemma a_rp : forall sh r pp ps bp bs cn wp wb, invb sh r pp ps bp bs cn wp wb = true ->
  invb sh r (if nz ps then a_add pp (isB ps) else pp) TN bp bs cn wp wb = true.
Proof.
  intros sh r pp ps bp bs cn wp wb HI.
  assert (HH : implb (invb sh r pp ps bp bs cn wp wb)
    (invb sh r (if nz ps then a_add pp (isB ps) else pp) TN bp bs cn wp wb) = true).
  { assert (C : chk (fun sh r pp ps bp bs cn wp wb => implb (invb sh r pp ps bp bs cn wp wb)
      (invb sh r (if nz ps then a_add pp (isB ps) else pp) TN bp bs cn wp wb)) = true) by (vm_compute; reflexivity).
    exact (chk_ok _ C sh r pp ps bp bs cn wp wb). }
  rewrite HI in HH. exact HH.
Qed.
Lemma a_rb : forall sh r pp ps bp bs cn wp wb, invb sh r pp ps bp bs cn wp wb = true ->
  invb sh r pp ps (if nz bs then a_add bp (isB bs) else bp) TN cn wp wb = true.
Proof.
  intros sh r pp ps bp bs cn wp wb HI.
  assert (HH : implb (invb sh r pp ps bp bs cn wp wb)
    (invb sh r pp ps (if nz bs then a_add bp (isB bs) else bp) TN cn wp wb) = true).
  { assert (C : chk (fun sh r pp ps bp bs cn wp wb => implb (invb sh r pp ps bp bs cn wp wb)
      (invb sh r pp ps (if nz bs then a_add bp (isB bs) else bp) TN cn wp wb)) = true) by (vm_compute; reflexivity).
    exact (chk_ok _ C sh r pp ps bp bs cn wp wb). }
  rewrite HI in HH. exact HH.
Qed.

(** ---------- concrete views ---------- *)
Definition vw (l : wl) (c : Z) : ty := abs (wtype l c).
Definition vg (l : list (Z * Z)) (c : Z) : ty := abs (zget c l).

Definition Inv (sh : bool) (s : st) : Prop :=
  forall c, invb sh (vw (r_wl s) c) (vw (pp s) c) (vw (ps s) c) (vw (bp s) c) (vw (bs s) c)
                 (smem c (cn s)) (vg (g_wp s) c) (smem c (g_wb s)) = true.

Lemma vw_add_same : forall l c p t, vw (wl_add c p t l) c = a_add (vw l c) (t =? TBlock).
Proof.
  intros l c p t. unfold vw. rewrite wtype_add_same. destruct (wtype l c) as [t0|]; cbn [abs a_add].
  - destruct (t0 =? TBlock) eqn:E0; cbn [orb abs a_add]; [rewrite E0; reflexivity|].
    destruct (t =? THave) eqn:E1; cbn [abs].
    + rewrite E0. apply Z.eqb_eq in E1. subst t. reflexivity.
    + destruct (t =? TBlock) eqn:E2.
      * reflexivity.
      * (* t is neither: the entry becomes t, still "other" *) reflexivity.
  - destruct (t =? TBlock); reflexivity.
Qed.
Lemma vw_add_other : forall l c c' p t, c <> c' -> vw (wl_add c p t l) c' = vw l c'.
Proof. intros. unfold vw. rewrite wtype_add_other by assumption. reflexivity. Qed.
Lemma vw_del_same : forall l c, vw (zdel c l) c = TN.
Proof. intros. unfold vw. rewrite wtype_del_same. reflexivity. Qed.
Lemma vw_del_other : forall l c c', c <> c' -> vw (zdel c l) c' = vw l c'.
Proof. intros. unfold vw. rewrite wtype_del_other by assumption. reflexivity. Qed.

Lemma vw_rem : forall l c t,
  snd (wl_remtype c t l) = snd (a_rem (vw l c) (t =? THave)) /\
  vw (fst (wl_remtype c t l)) c = fst (a_rem (vw l c) (t =? THave)) /\
  (forall c', c <> c' -> vw (fst (wl_remtype c t l)) c' = vw l c').
Proof.
  intros l c t. pose proof (remtype_spec l c t) as HS. unfold vw at 1 3. unfold vw at 3.
  destruct (wtype l c) as [t0|] eqn:E.
  - cbn [abs]. destruct (t0 =? TBlock) eqn:E0; cbn [andb a_rem] in *.
    + destruct (t =? THave); rewrite HS; cbn [fst snd].
      * split; [reflexivity|]. split; [unfold vw; rewrite E; cbn [abs]; rewrite E0; reflexivity | reflexivity].
      * split; [reflexivity|]. split; [apply vw_del_same | intros; apply vw_del_other; assumption].
    + rewrite HS; cbn [fst snd]. split; [reflexivity|]. split; [apply vw_del_same | intros; apply vw_del_other; assumption].
  - rewrite HS; cbn [abs a_rem fst snd]. split; [reflexivity|]. split; [unfold vw; rewrite E; reflexivity | reflexivity].
Qed.

Lemma vg_set_same : forall l c v, vg (zset c v l) c = abs (Some v).
Proof. intros. unfold vg. rewrite zget_zset_same. reflexivity. Qed.
Lemma vg_set_other : forall l c c' v, c <> c' -> vg (zset c v l) c' = vg l c'.
Proof. intros. unfold vg. rewrite zget_zset_other by assumption. reflexivity. Qed.
Lemma vg_del_same : forall l c, vg (zdel c l) c = TN.
Proof. intros. unfold vg. rewrite zget_zdel_same. reflexivity. Qed.
Lemma vg_del_other : forall l c c', c <> c' -> vg (zdel c l) c' = vg l c'.
Proof. intros. unfold vg. rewrite zget_zdel_other by assumption. reflexivity. Qed.

Lemma zhas_nz : forall (l : wl) c, zhas c l = nz (vw l c).
Proof. intros. unfold zhas, vw, wtype. destruct (zget c l) as [[p t]|]; cbn [abs nz]; [destruct (t =? TBlock)|]; reflexivity. Qed.

(** ---------- every atomic step of the fixed model preserves the invariant ---------- *)
Ltac other_cid HN :=
  rewrite ?vw_add_other, ?vw_del_other, ?vg_set_other, ?vg_del_other, ?smem_srem_other, ?smem_sadd_other
    by exact HN.

Section Steps.
  Variable sh : bool.

  Lemma stronger_abs : forall o t,
    abs (Some (stronger o t)) = match abs o with TB => TB | _ => if t =? TBlock then TB else TH end.
  Proof.
    intros o t. destruct o as [t0|]; cbn [stronger abs]; [|reflexivity].
    destruct (t0 =? TBlock) eqn:E; cbn [abs]; [|reflexivity]. reflexivity.
  Qed.

  Lemma inv_want : forall c0 t s, Inv sh s -> Inv sh (do_want c0 t s).
  Proof.
    intros c0 t s HI c. unfold do_want; cbn [pp ps bp bs cn r_wl g_wp g_wb].
    destruct (Z.eq_dec c0 c) as [HE|HN].
    - subst c0. rewrite vw_add_same, smem_srem_same, vg_set_same, stronger_abs.
      apply a_want with (cn := smem c (cn s)). apply HI.
    - other_cid HN. apply HI.
  Qed.

  Lemma inv_bcast : forall c0 s, Inv sh s -> Inv sh (do_bcast c0 s).
  Proof.
    intros c0 s HI c. unfold do_bcast; cbn [pp ps bp bs cn r_wl g_wp g_wb].
    destruct (Z.eq_dec c0 c) as [HE|HN].
    - subst c0. rewrite vw_add_same, smem_srem_same, smem_sadd_same.
      change (THave =? TBlock) with false.
      apply a_bcast with (cn := smem c (cn s)) (wb := smem c (g_wb s)). apply HI.
    - other_cid HN. apply HI.
  Qed.

  Lemma inv_cancel : forall c0 s, Inv sh s -> Inv sh (do_cancel fixed_flags c0 s).
  Proof.
    intros c0 s HI c. unfold do_cancel; cbn [f_forget fixed_flags pp ps bp bs cn r_wl g_wp g_wb].
    destruct (Z.eq_dec c0 c) as [HE|HN].
    - subst c0. rewrite !vw_del_same, vg_del_same, smem_srem_same.
      replace (smem c (if zhas c (r_wl s) then sadd c (cn s) else cn s))
        with (if nz (vw (r_wl s) c) then true else smem c (cn s)).
      + eapply a_cancel. apply HI.
      + rewrite zhas_nz. destruct (nz (vw (r_wl s) c)); [rewrite smem_sadd_same|]; reflexivity.
    - other_cid HN.
      replace (smem c (if zhas c0 (r_wl s) then sadd c0 (cn s) else cn s)) with (smem c (cn s)).
      + apply HI.
      + destruct (zhas c0 (r_wl s)); [rewrite smem_sadd_other by exact HN|]; reflexivity.
  Qed.

  Lemma inv_purge : forall c0 s, Inv sh s -> Inv sh (do_purge sh c0 s).
  Proof.
    intros c0 s HI c. unfold do_purge. destruct sh eqn:Esh; [apply HI|].
    cbn [pp ps bp bs cn r_wl g_wp g_wb].
    destruct (vw_rem (pp s) c0 THave) as (_ & P2 & P3). destruct (vw_rem (ps s) c0 THave) as (_ & S2 & S3).
    change (THave =? THave) with true in *.
    destruct (Z.eq_dec c0 c) as [HE|HN].
    - subst c0. rewrite P2, S2. apply a_purge. apply HI.
    - rewrite P3, S3 by exact HN. apply HI.
  Qed.

  Lemma inv_mc : forall c0 s, Inv sh s -> Inv sh (mc s c0).
  Proof.
    intros c0 s HI c. unfold mc. destruct (smem c0 (cn s)) eqn:E; [|apply HI].
    cbn [pp ps bp bs cn r_wl g_wp g_wb].
    destruct (Z.eq_dec c0 c) as [HE|HN].
    - subst c0. rewrite vw_del_same, smem_srem_same. pose proof (HI c) as HC. rewrite E in HC. eapply a_mc. exact HC.
    - other_cid HN. apply HI.
  Qed.

  Definition ty01 (t : Z) : Prop := t = TBlock \/ t = THave.

  Lemma inv_mp : forall e s, ty01 (snd (snd e)) -> Inv sh s -> Inv sh (mp s e).
  Proof.
    intros [c0 [p t]] s Ht HI c. cbn [snd] in Ht. unfold mp.
    destruct (vw_rem (pp s) c0 t) as (P1 & P2 & P3).
    destruct (wl_remtype c0 t (pp s)) as [pend1 ok] eqn:ER. cbn [fst snd] in P1, P2, P3.
    destruct ok; [|apply HI]. cbn [pp ps bp bs cn r_wl g_wp g_wb].
    assert (Eth : (t =? THave) = negb (t =? TBlock)) by (destruct Ht; subst t; reflexivity).
    destruct (Z.eq_dec c0 c) as [HE|HN].
    - subst c0. rewrite !vw_add_same, P2.
      assert (Ef : fst (a_rem (vw (pp s) c) (t =? THave)) = TN).
      { destruct (vw (pp s) c), (t =? THave); cbn in P1 |- *; congruence. }
      rewrite Ef. apply a_mp with (pp := vw (pp s) c); [apply HI|]. rewrite <- Eth. symmetry. exact P1.
    - other_cid HN. rewrite P3 by exact HN. apply HI.
  Qed.

  Lemma inv_mb : forall e s, Inv sh s -> Inv sh (mb sh s e).
  Proof.
    intros [c0 [p t]] s HI c. unfold mb.
    destruct (vw_rem (bp s) c0 t) as (P1 & P2 & P3).
    destruct (wl_remtype c0 t (bp s)) as [pend1 ok] eqn:ER. cbn [fst snd] in P1, P2, P3.
    destruct ok; [|apply HI]. cbn [pp ps bp bs cn r_wl g_wp g_wb].
    destruct (Z.eq_dec c0 c) as [HE|HN].
    - subst c0. rewrite !vw_add_same, P2.
      assert (Ef : fst (a_rem (vw (bp s) c) (t =? THave)) = TN).
      { destruct (vw (bp s) c), (t =? THave); cbn in P1 |- *; congruence. }
      rewrite Ef.
      replace (bcst_type sh =? TBlock) with (negb sh) by (unfold bcst_type; destruct sh; reflexivity).
      apply a_mb with (th := t =? THave) (bp := vw (bp s) c); [apply HI | symmetry; exact P1].
    - other_cid HN. rewrite P3 by exact HN. apply HI.
  Qed.

  Lemma isB_abs : forall t, isB (abs (Some t)) = (t =? TBlock).
  Proof. intro t. cbn [abs]. destruct (t =? TBlock); reflexivity. Qed.

  Lemma inv_refresh_peer : forall pl s, Inv sh s ->
    Inv sh (mkst (fst (refresh pl (pp s) (ps s))) (snd (refresh pl (pp s) (ps s))) (bp s) (bs s)
                 (cn s) (prio s) (r_wl s) (g_wp s) (g_wb s)).
  Proof.
    induction pl as [|c0 r IH]; intros s HI; cbn [refresh fst snd].
    - destruct s; exact HI.
    - destruct (zget c0 (ps s)) as [[p t]|] eqn:E; [|apply IH; exact HI].
      specialize (IH (mkst (wl_add c0 p t (pp s)) (zdel c0 (ps s)) (bp s) (bs s) (cn s) (prio s) (r_wl s) (g_wp s) (g_wb s))).
      cbn [pp ps bp bs cn prio r_wl g_wp g_wb] in IH. apply IH.
      intro c. cbn [pp ps bp bs cn r_wl g_wp g_wb].
      destruct (Z.eq_dec c0 c) as [HE|HN].
      + subst c0. rewrite vw_add_same, vw_del_same.
        assert (Ev : vw (ps s) c = abs (Some t)) by (unfold vw, wtype; rewrite E; reflexivity).
        pose proof (a_rp _ _ _ _ _ _ _ _ _ (HI c)) as HR. rewrite Ev in HR.
        assert (Enz : nz (abs (Some t)) = true) by (cbn [abs]; destruct (t =? TBlock); reflexivity).
        rewrite Enz, isB_abs in HR. exact HR.
      + other_cid HN. apply HI.
  Qed.

  Lemma inv_refresh_bcst : forall bl s, Inv sh s ->
    Inv sh (mkst (pp s) (ps s) (fst (refresh bl (bp s) (bs s))) (snd (refresh bl (bp s) (bs s)))
                 (cn s) (prio s) (r_wl s) (g_wp s) (g_wb s)).
  Proof.
    induction bl as [|c0 r IH]; intros s HI; cbn [refresh fst snd].
    - destruct s; exact HI.
    - destruct (zget c0 (bs s)) as [[p t]|] eqn:E; [|apply IH; exact HI].
      specialize (IH (mkst (pp s) (ps s) (wl_add c0 p t (bp s)) (zdel c0 (bs s)) (cn s) (prio s) (r_wl s) (g_wp s) (g_wb s))).
      cbn [pp ps bp bs cn prio r_wl g_wp g_wb] in IH. apply IH.
      intro c. cbn [pp ps bp bs cn r_wl g_wp g_wb].
      destruct (Z.eq_dec c0 c) as [HE|HN].
      + subst c0. rewrite vw_add_same, vw_del_same.
        assert (Ev : vw (bs s) c = abs (Some t)) by (unfold vw, wtype; rewrite E; reflexivity).
        pose proof (a_rb _ _ _ _ _ _ _ _ _ (HI c)) as HR. rewrite Ev in HR.
        assert (Enz : nz (abs (Some t)) = true) by (cbn [abs]; destruct (t =? TBlock); reflexivity).
        rewrite Enz, isB_abs in HR. exact HR.
      + other_cid HN. apply HI.
  Qed.

  (** candidate types of a send are want-block / want-have (the only two the queue uses) *)
  Definition step_ok (x : step) : Prop :=
    match x with
    | SSend _ pes _ => Forall (fun e : Z * went => ty01 (snd (snd e))) pes
    | _ => True
    end.

  Lemma fold_inv : forall {A} (f : st -> A -> st) (P : A -> Prop) l s,
    (forall a s, P a -> Inv sh s -> Inv sh (f s a)) -> Forall P l -> Inv sh s -> Inv sh (fold_left f l s).
  Proof.
    intros A f P l. induction l as [|a r IH]; intros s Hf HP HI; cbn [fold_left]; [exact HI|].
    inversion HP; subst. apply IH; [exact Hf | assumption | apply Hf; assumption].
  Qed.

  Lemma Forall_True : forall {A} (l : list A), Forall (fun _ => True) l.
  Proof. intros A l. apply Forall_forall. intros; exact I. Qed.

  Theorem step_inv : forall s x, step_ok x -> Inv sh s -> Inv sh (do_step fixed_flags sh s x).
  Proof.
    intros s x Hok HI. destruct x as [c t|c|c|c|cs pes bes|pl bl]; cbn [do_step].
    - apply inv_want; exact HI.
    - apply inv_bcast; exact HI.
    - apply inv_cancel; exact HI.
    - apply inv_purge; exact HI.
    - rewrite send_fixed_micro.
      apply (fold_inv (mb sh) (fun _ => True)); [intros; apply inv_mb; assumption | apply Forall_True|].
      apply (fold_inv mp (fun e => ty01 (snd (snd e)))); [intros; apply inv_mp; assumption | exact Hok|].
      apply (fold_inv mc (fun _ => True)); [intros; apply inv_mc; assumption | apply Forall_True | exact HI].
    - pose proof (inv_refresh_peer pl s HI) as H1.
      destruct (refresh pl (pp s) (ps s)) as [pp1 ps1]. cbn [fst snd] in H1.
      pose proof (inv_refresh_bcst bl _ H1) as H2. cbn [pp ps bp bs cn prio r_wl g_wp g_wb] in H2.
      destruct (refresh bl (bp s) (bs s)) as [bp1 bs1]. exact H2.
  Qed.

  Lemma inv_init : Inv sh init.
  Proof. intro c. destruct sh; reflexivity. Qed.

  Theorem run_inv : forall xs s, Forall step_ok xs -> Inv sh s -> Inv sh (run fixed_flags sh s xs).
  Proof.
    induction xs as [|x r IH]; intros s Hok HI; cbn [run fold_left]; [exact HI|].
    inversion Hok; subst. apply IH; [assumption | apply step_inv; assumption].
  Qed.
End Steps.

(** ---------- idle = converged ---------- *)
Lemma a_idle : forall sh r ps bs wp wb, invb sh r TN ps TN bs false wp wb = true ->
  (implb (nz r) (nz wp || wb) &&
   implb ((if sh then nz wp else isB wp) || wb) (nz r) &&
   implb (isB wp) (isB r)) = true.
Proof.
  intros sh r ps bs wp wb HI.
  assert (HH : implb (invb sh r TN ps TN bs false wp wb)
    (implb (nz r) (nz wp || wb) && implb ((if sh then nz wp else isB wp) || wb) (nz r) && implb (isB wp) (isB r)) = true).
  { assert (C : chk (fun sh r pp ps bp bs cn wp wb => implb (invb sh r TN ps TN bs false wp wb)
      (implb (nz r) (nz wp || wb) && implb ((if sh then nz wp else isB wp) || wb) (nz r) && implb (isB wp) (isB r))) = true)
      by (vm_compute; reflexivity).
    exact (chk_ok _ C sh r TN ps TN bs false wp wb). }
  rewrite HI in HH. exact HH.
Qed.

Theorem idle_converged : forall sh s univ, Inv sh s -> idle s -> convergedb sh univ s = true.
Proof.
  intros sh s univ HI (Epp & Ebp & Ecn). unfold convergedb. apply forallb_forall. intros c _.
  pose proof (HI c) as HC. rewrite Epp, Ebp, Ecn in HC.
  change (vw [] c) with TN in HC. change (smem c []) with false in HC.
  apply a_idle in HC.
  assert (Ew : wanted s c = nz (vg (g_wp s) c) || smem c (g_wb s)).
  { unfold wanted, zhas, vg. destruct (zget c (g_wp s)) as [t|]; cbn [abs nz]; [destruct (t =? TBlock)|]; reflexivity. }
  assert (Ee : expected sh s c = (if sh then nz (vg (g_wp s) c) else isB (vg (g_wp s) c)) || smem c (g_wb s)).
  { unfold expected, zhas, vg. destruct (zget c (g_wp s)) as [t|]; cbn [abs nz isB]; destruct sh; try reflexivity;
      destruct (t =? TBlock); reflexivity. }
  rewrite Ew, Ee, zhas_nz.
  apply andb_true_iff in HC. destruct HC as [HC H3]. apply andb_true_iff in HC. destruct HC as [H1 H2].
  apply andb_true_iff. split; [apply andb_true_iff; split|].
  - destruct (nz (vw (r_wl s) c)); [exact H1 | reflexivity].
  - destruct ((if sh then nz (vg (g_wp s) c) else isB (vg (g_wp s) c)) || smem c (g_wb s)); [exact H2 | reflexivity].
  - unfold vg in H3. unfold peer_type. unfold vw, wtype in H3.
    destruct (zget c (g_wp s)) as [t|]; [|reflexivity]. cbn [abs] in H3.
    destruct (t =? TBlock); [|reflexivity]. cbn [isB implb] in H3.
    destruct (zget c (r_wl s)) as [[p' t']|]; cbn [abs isB] in H3; [|discriminate].
    destruct (t' =? TBlock); [reflexivity | discriminate].
Qed.

(** ---------- one unlimited send empties the queue ---------- *)
Definition keyout (D : list Z) (e : Z * went) : bool := negb (smem (fst e) D).

Lemma zget_filter_none : forall (l : wl) D c, smem c D = true -> zget c (filter (keyout D) l) = None.
Proof.
  induction l as [|[k v] r IH]; intros D c HD; cbn [filter]; [reflexivity|].
  match goal with |- context [if ?b then _ else _] => assert (Ek : b = negb (smem k D)) by reflexivity; rewrite Ek end.
  destruct (smem k D) eqn:E; cbn [negb]; [apply IH; exact HD|].
  cbn [zget]. destruct (c =? k) eqn:Eck; [apply Z.eqb_eq in Eck; subst; congruence | apply IH; exact HD].
Qed.

Lemma keyout_cons : forall D c e, keyout (c :: D) e = negb (fst e =? c) && keyout D e.
Proof. intros. unfold keyout. cbn [smem existsb]. rewrite negb_orb. reflexivity. Qed.

Lemma zdel_filter : forall (l : wl) D c, zdel c (filter (keyout D) l) = filter (keyout (c :: D)) l.
Proof.
  induction l as [|[k v] r IH]; intros D c; cbn [filter]; [reflexivity|].
  rewrite keyout_cons. cbn [fst].
  destruct (keyout D (k, v)) eqn:E.
  - rewrite andb_true_r. cbn [zdel]. rewrite (Z.eqb_sym c k).
    destruct (k =? c); cbn [negb]; [apply IH | f_equal; apply IH].
  - rewrite andb_false_r. apply IH.
Qed.

Lemma mark_all : forall es D sent,
  fst (fst (fst (mark es (filter (keyout D) es) sent))) = [].
Proof.
  induction es as [|[c [p t]] r IH]; intros D sent; [reflexivity|].
  cbn [filter]. match goal with |- context [if ?b then _ else _] => assert (Ek : b = negb (smem c D)) by reflexivity; rewrite Ek end.
  destruct (smem c D) eqn:E; cbn [negb].
  - cbn [mark]. unfold wl_remtype. rewrite zget_filter_none by exact E.
    specialize (IH D sent). destruct (mark r (filter (keyout D) r) sent) as [[[a b] c'] d]. exact IH.
  - cbn [mark]. unfold wl_remtype. cbn [zget]. rewrite Z.eqb_refl.
    assert (Et : (t =? TBlock) && (t =? THave) = false).
    { destruct (t =? TBlock) eqn:E1; [apply Z.eqb_eq in E1; subst t; reflexivity | reflexivity]. }
    rewrite Et. cbn [zdel]. rewrite Z.eqb_refl. rewrite zdel_filter.
    specialize (IH (c :: D) (wl_add c p t sent)).
    destruct (mark r (filter (keyout (c :: D)) r) (wl_add c p t sent)) as [[[a b] c'] d]. exact IH.
Qed.

Lemma filter_keyout_nil : forall (l : wl), filter (keyout []) l = l.
Proof. induction l as [|e r IH]; cbn [filter keyout smem existsb negb]; [reflexivity | rewrite IH; reflexivity]. Qed.

Definition sout (D : list Z) (x : Z) : bool := negb (smem x D).
Lemma sout_cons : forall D c x, sout (c :: D) x = negb (x =? c) && sout D x.
Proof. intros. unfold sout. cbn [smem existsb]. rewrite negb_orb. reflexivity. Qed.
Lemma srem_filter : forall l D c, srem c (filter (sout D) l) = filter (sout (c :: D)) l.
Proof.
  induction l as [|k r IH]; intros D c; cbn [filter]; [reflexivity|].
  rewrite sout_cons. destruct (sout D k) eqn:E.
  - rewrite andb_true_r. unfold srem at 1. cbn [filter]. fold (srem c (filter (sout D) r)).
    rewrite (Z.eqb_sym c k). destruct (k =? c); cbn [negb]; [apply IH | f_equal; apply IH].
  - rewrite andb_false_r. apply IH.
Qed.
Lemma smem_filter_false : forall l D c, smem c D = true -> smem c (filter (sout D) l) = false.
Proof.
  induction l as [|k r IH]; intros D c HD; cbn [filter]; [reflexivity|].
  assert (Ek : sout D k = negb (smem k D)) by reflexivity. rewrite Ek.
  destruct (smem k D) eqn:E; cbn [negb]; [apply IH; exact HD|].
  cbn [smem existsb]. destruct (c =? k) eqn:Eck; [apply Z.eqb_eq in Eck; subst; congruence | apply IH; exact HD].
Qed.
Lemma mark_cancels_all : forall cs D, fst (fst (mark_cancels cs (filter (sout D) cs))) = [].
Proof.
  induction cs as [|c r IH]; intro D; [reflexivity|].
  cbn [filter]. assert (Ek : sout D c = negb (smem c D)) by reflexivity. rewrite Ek.
  destruct (smem c D) eqn:E; cbn [negb].
  - cbn [mark_cancels]. rewrite smem_filter_false by exact E.
    specialize (IH D). destruct (mark_cancels r (filter (sout D) r)) as [[a b] d]. exact IH.
  - cbn [mark_cancels]. cbn [smem existsb]. rewrite Z.eqb_refl. cbn [orb].
    unfold srem at 1. cbn [filter]. rewrite Z.eqb_refl. cbn [negb].
    fold (srem c (filter (sout D) r)). rewrite srem_filter.
    specialize (IH (c :: D)). destruct (mark_cancels r (filter (sout (c :: D)) r)) as [[a b] d]. exact IH.
Qed.
Lemma filter_sout_nil : forall l, filter (sout []) l = l.
Proof. induction l as [|e r IH]; cbn [filter sout smem existsb negb]; [reflexivity | rewrite IH; reflexivity]. Qed.

Theorem flush_idle : forall fl sh s, idleb (flush fl sh s) = true.
Proof.
  intros fl sh s. unfold flush.
  set (s1 := run fl sh s _). cbn [do_step]. unfold send_result.
  pose proof (mark_all (pp s1) [] (ps s1)) as HP. rewrite filter_keyout_nil in HP.
  destruct (mark (pp s1) (pp s1) (ps s1)) as [[[pp1 ps1] okp] badp]. cbn [fst] in HP. subst pp1.
  pose proof (mark_all (bp s1) [] (bs s1)) as HB. rewrite filter_keyout_nil in HB.
  destruct (mark (bp s1) (bp s1) (bs s1)) as [[[bp1 bs1] okb] badb]. cbn [fst] in HB. subst bp1.
  pose proof (mark_cancels_all (cn s1) []) as HC. rewrite filter_sout_nil in HC.
  destruct (mark_cancels (cn s1) (cn s1)) as [[cn1 okc] badc]. cbn [fst] in HC. subst cn1.
  reflexivity.
Qed.

(** ---------- progress measure: a send never adds work ---------- *)

Definition work (s : st) : nat := length (pp s) + length (bp s) + length (cn s).

Lemma zdel_length {V} k (l : list (Z * V)) : (length (zdel k l) <= length l)%nat.
Proof. induction l as [|[k' v] r IH]; cbn [zdel length]; [lia|]. destruct (k =? k'); cbn [length]; lia. Qed.

Lemma zdel_length_has {V} k (l : list (Z * V)) v : zget k l = Some v -> (length (zdel k l) < length l)%nat.
Proof.
  induction l as [|[k' v'] r IH]; cbn [zget zdel length]; [discriminate|].
  destruct (k =? k'); intros H; [pose proof (zdel_length k r); lia|]. cbn [length]. apply IH in H. lia.
Qed.

Lemma srem_length k s : (length (srem k s) <= length s)%nat.
Proof. unfold srem. induction s as [|x r IH]; cbn [filter length]; [lia|]. destruct (negb (k =? x)); cbn [length]; lia. Qed.

Lemma srem_length_mem k s : smem k s = true -> (length (srem k s) < length s)%nat.
Proof.
  unfold srem, smem. induction s as [|x r IH]; cbn [existsb filter length]; [discriminate|].
  destruct (k =? x) eqn:E; cbn [negb orb]; intros H.
  - pose proof (srem_length k r) as L. unfold srem in L. lia.
  - cbn [length]. apply IH in H. lia.
Qed.

Lemma wl_remtype_length c t l : (length (fst (wl_remtype c t l)) <= length l)%nat.
Proof.
  unfold wl_remtype. destruct (zget c l) as [[p t0]|]; cbn [fst]; [|lia].
  destruct ((t0 =? TBlock) && (t =? THave)); cbn [fst]; [lia|apply zdel_length].
Qed.

Lemma wl_remtype_length_ok c t l : snd (wl_remtype c t l) = true -> (length (fst (wl_remtype c t l)) < length l)%nat.
Proof.
  unfold wl_remtype. destruct (zget c l) as [[p t0]|] eqn:G; cbn [fst snd]; [|discriminate].
  destruct ((t0 =? TBlock) && (t =? THave)); cbn [fst snd]; [discriminate|]. intros _. eapply zdel_length_has; eauto.
Qed.

(** markSent: pending shrinks by at least the number of accepted candidates *)
Lemma mark_length es : forall pend sent,
  let '(pend', _, oks, _) := mark es pend sent in (length pend' + length oks <= length pend)%nat.
Proof.
  induction es as [|[c [p t]] r IH]; intros pend sent; cbn [mark]; [cbn; lia|].
  pose proof (wl_remtype_length c t pend) as L1. pose proof (wl_remtype_length_ok c t pend) as L2.
  destruct (wl_remtype c t pend) as [pend1 ok]; cbn [fst snd] in *. destruct ok.
  - specialize (IH pend1 (wl_add c p t sent)). destruct (mark r pend1 (wl_add c p t sent)) as [[[a b] o] d].
    cbn [length]. specialize (L2 eq_refl). lia.
  - specialize (IH pend1 sent). destruct (mark r pend1 sent) as [[[a b] o] d]. lia.
Qed.

Lemma mark_cancels_length cs : forall cset,
  let '(cset', oks, _) := mark_cancels cs cset in (length cset' + length oks <= length cset)%nat.
Proof.
  induction cs as [|c r IH]; intros cset; cbn [mark_cancels]; [cbn; lia|].
  destruct (smem c cset) eqn:M.
  - specialize (IH (srem c cset)). destruct (mark_cancels r (srem c cset)) as [[a o] d]. cbn [length].
    apply srem_length_mem in M. lia.
  - specialize (IH cset). destruct (mark_cancels r cset) as [[a o] d]. lia.
Qed.

(** A send never adds work, and removes at least as much work as the message carries
    (before the f_merge filter): with [work] as the measure, every send that accepts at
    least one candidate makes strict progress towards idle. *)
Theorem send_work fl sh cs pes bes s :
  let '(pp1, ps1, okp, badp) := mark pes (pp s) (ps s) in
  let '(bp1, bs1, okb, badb) := mark bes (bp s) (bs s) in
  let '(cn1, okc, badc) := mark_cancels cs (cn s) in
  (work (fst (send_result fl sh cs pes bes s)) + (length okp + length okb + length okc) <= work s)%nat.
Proof.
  unfold send_result, work.
  pose proof (mark_length pes (pp s) (ps s)) as H1. pose proof (mark_length bes (bp s) (bs s)) as H2.
  pose proof (mark_cancels_length cs (cn s)) as H3.
  destruct (mark pes (pp s) (ps s)) as [[[pp1 ps1] okp] badp].
  destruct (mark bes (bp s) (bs s)) as [[[bp1 bs1] okb] badb].
  destruct (mark_cancels cs (cn s)) as [[cn1 okc] badc].
  cbn [fst pp bp cn]. lia.
Qed.

Corollary send_never_adds_work fl sh cs pes bes s :
  (work (do_step fl sh s (SSend cs pes bes)) <= work s)%nat.
Proof.
  cbn [do_step]. pose proof (send_work fl sh cs pes bes s) as H.
  destruct (mark pes (pp s) (ps s)) as [[[pp1 ps1] okp] badp].
  destruct (mark bes (bp s) (bs s)) as [[[bp1 bs1] okb] badb].
  destruct (mark_cancels cs (cn s)) as [[cn1 okc] badc]. lia.
Qed.

(** ---------- strict progress: a send whose first candidate is still queued ---------- *)

Lemma wl_remtype_same c p t (l : wl) : zget c l = Some ((p, t) : went) -> snd (wl_remtype c t l) = true.
Proof.
  intros G. unfold wl_remtype. destruct (zget c l) as [[p0 t0]|]; [|discriminate].
  injection G as -> ->. destruct (t =? TBlock) eqn:E; cbn [andb snd]; [|reflexivity].
  apply Z.eqb_eq in E. subst t. reflexivity.
Qed.

Lemma mark_head_ok c (pt : went) r (pend sent : wl) : zget c pend = Some pt ->
  let '(_, _, oks, _) := mark ((c, pt) :: r) pend sent in (1 <= length oks)%nat.
Proof.
  destruct pt as [p t]. intros G. cbn [mark]. pose proof (wl_remtype_same c p t pend G) as H.
  destruct (wl_remtype c t pend) as [pend1 ok]. cbn [snd] in H. subst ok.
  destruct (mark r pend1 (wl_add c p t sent)) as [[[a b] o] d]. cbn [length]. lia.
Qed.

Lemma mark_cancels_head_ok c r cset : smem c cset = true ->
  let '(_, oks, _) := mark_cancels (c :: r) cset in (1 <= length oks)%nat.
Proof.
  intros M. cbn [mark_cancels]. rewrite M. destruct (mark_cancels r (srem c cset)) as [[a o] d]. cbn [length]. lia.
Qed.

(** a send whose first candidate (cancel, peer entry or broadcast entry) is still queued
    strictly decreases the work measure *)
Theorem send_strict fl sh cs pes bes s :
  (match cs with c :: _ => smem c (cn s) | [] => false end = true \/
   match pes with (c, pt) :: _ => match zget c (pp s) with Some pt' => went_eqb pt pt' | None => false end | [] => false end = true \/
   match bes with (c, pt) :: _ => match zget c (bp s) with Some pt' => went_eqb pt pt' | None => false end | [] => false end = true) ->
  (work (do_step fl sh s (SSend cs pes bes)) < work s)%nat.
Proof.
  intros H. cbn [do_step]. pose proof (send_work fl sh cs pes bes s) as W.
  assert (E : forall (a b : went), went_eqb a b = true -> a = b).
  { intros [a1 a2] [b1 b2]. unfold went_eqb. cbn [fst snd]. intros X. apply andb_true_iff in X as [X1 X2].
    apply Z.eqb_eq in X1, X2. congruence. }
  destruct H as [H|[H|H]].
  - destruct cs as [|c r]; [discriminate|]. pose proof (mark_cancels_head_ok c r (cn s) H) as K.
    destruct (mark pes (pp s) (ps s)) as [[[pp1 ps1] okp] badp].
    destruct (mark bes (bp s) (bs s)) as [[[bp1 bs1] okb] badb].
    destruct (mark_cancels (c :: r) (cn s)) as [[cn1 okc] badc]. lia.
  - destruct pes as [|[c pt] r]; [discriminate|]. destruct (zget c (pp s)) as [pt'|] eqn:G; [|discriminate].
    apply E in H. subst pt'. pose proof (mark_head_ok c pt r (pp s) (ps s) G) as K.
    destruct (mark ((c, pt) :: r) (pp s) (ps s)) as [[[pp1 ps1] okp] badp].
    destruct (mark bes (bp s) (bs s)) as [[[bp1 bs1] okb] badb].
    destruct (mark_cancels cs (cn s)) as [[cn1 okc] badc]. lia.
  - destruct bes as [|[c pt] r]; [discriminate|]. destruct (zget c (bp s)) as [pt'|] eqn:G; [|discriminate].
    apply E in H. subst pt'. pose proof (mark_head_ok c pt r (bp s) (bs s) G) as K.
    destruct (mark pes (pp s) (ps s)) as [[[pp1 ps1] okp] badp].
    destruct (mark ((c, pt) :: r) (bp s) (bs s)) as [[[bp1 bs1] okb] badb].
    destruct (mark_cancels cs (cn s)) as [[cn1 okc] badc]. lia.
Qed.

Lemma work_idle s : work s = 0%nat <-> idle s.
Proof.
  unfold work, idle. split.
  - intros H. destruct (pp s), (bp s), (cn s); cbn [length] in H; try lia. auto.
  - intros (-> & -> & ->). reflexivity.
Qed.

(** ---------- progress under the tightest size limit ---------- *)

(** the tightest size limit: each send carries exactly one queued item (first a cancel,
    else the first pending peer entry, else the first pending broadcast entry) *)
Definition send_one (fl : flags) (sh : bool) (s : st) : st :=
  match cn s, pp s, bp s with
  | c :: _, _, _ => do_step fl sh s (SSend [c] [] [])
  | [], e :: _, _ => do_step fl sh s (SSend [] [e] [])
  | [], [], e :: _ => do_step fl sh s (SSend [] [] [e])
  | [], [], [] => s
  end.

Lemma went_eqb_refl (a : went) : went_eqb a a = true.
Proof. unfold went_eqb. rewrite !Z.eqb_refl. reflexivity. Qed.

Lemma send_one_strict fl sh s : (0 < work s)%nat -> (work (send_one fl sh s) < work s)%nat.
Proof.
  intros H. unfold send_one.
  destruct (cn s) as [|c rc] eqn:Ec.
  - destruct (pp s) as [|[c pt] rp] eqn:Ep.
    + destruct (bp s) as [|[c pt] rb] eqn:Eb.
      * unfold work in H. rewrite Ec, Ep, Eb in H. cbn in H. lia.
      * apply send_strict. right. right. rewrite Eb. cbn [zget]. rewrite Z.eqb_refl. apply went_eqb_refl.
    + apply send_strict. right. left. rewrite Ep. cbn [zget]. rewrite Z.eqb_refl. apply went_eqb_refl.
  - apply send_strict. left. rewrite Ec. cbn [smem existsb]. rewrite Z.eqb_refl. reflexivity.
Qed.

Fixpoint sends_one (fl : flags) (sh : bool) (n : nat) (s : st) : st :=
  match n with O => s | S k => send_one fl sh (sends_one fl sh k s) end.

Lemma send_one_iter fl sh n : forall s, (work (sends_one fl sh n s) <= work s - n)%nat.
Proof.
  induction n as [|n IH]; intros s; cbn [sends_one]; [lia|].
  specialize (IH s). remember (sends_one fl sh n s) as s' eqn:E.
  destruct (work s') as [|k] eqn:W.
  - assert (I : idle s') by (apply work_idle; exact W). destruct I as (I1 & I2 & I3).
    unfold send_one. rewrite I1, I2, I3. cbv beta iota. lia.
  - pose proof (send_one_strict fl sh s') as S. lia.
Qed.

(** with a size limit of ONE entry per message, [work s] sends reach idle from any state *)
Theorem send_one_reaches_idle fl sh s : idle (sends_one fl sh (work s) s).
Proof. apply work_idle. pose proof (send_one_iter fl sh (work s) s). lia. Qed.
