From Coq Require Import List ZArith Bool NArith Lia.
From V Require Import lib.Verdict model.M_C34 model.M_C35.
Import ListNotations.
Open Scope Z_scope.
