(** C14 — applying Diff(a, b) to a gives b (Diff with the Data comparison, i.e. defect
    switch off; and the current code whenever it never recurses into two nodes
    with different Data); Diff(a, a) = []; refutation for the current code. *)
From Coq Require Import List ZArith Bool Lia Sorted.
From V Require Import lib.Verdict lib.C11_DagPb model.M_C14 proofs.P_C11_sort proofs.P_C14_map.
Import ListNotations.
Open Scope Z_scope.

(** ---------- top-level names for the local fixpoints of the model ---------- *)
Fixpoint commons (fl : bool) (kb l : list (name * tree)) : list change :=
  match l with
  | [] => []
  | (n, ca) :: r =>
      match get n kb with
      | None => commons fl kb r
      | Some cb => (if tree_eqb ca cb then [] else map (prefix n) (diff fl ca cb)) ++ commons fl kb r
      end
  end.

Lemma diff_PB : forall fl da ka db kb,
  diff fl (PB da ka) (PB db kb) =
  if tree_eqb (PB da ka) (PB db kb) then [] else
  if (is_nil ka && is_nil kb) || (negb fl && negb (da =? db)) then [mod_change (PB da ka) (PB db kb)]
  else commons fl kb ka ++ removes ka kb ++ adds ka kb.
Proof.
  intros fl da ka db kb. cbn [diff].
  destruct (tree_eqb (PB da ka) (PB db kb)); [reflexivity|].
  destruct ((is_nil ka && is_nil kb) || (negb fl && negb (da =? db))); [reflexivity|].
  f_equal. induction ka as [|[n ca] r IH]; [reflexivity|].
  cbn [commons]. destruct (get n kb); rewrite IH; reflexivity.
Qed.

Fixpoint compat_all (kb l : list (name * tree)) : bool :=
  match l with
  | [] => true
  | (n, ca) :: r =>
      match get n kb with
      | None => compat_all kb r
      | Some cb => compat ca cb && compat_all kb r
      end
  end.

Lemma compat_PB : forall da ka db kb,
  compat (PB da ka) (PB db kb) =
  if tree_eqb (PB da ka) (PB db kb) then true else
  if is_nil ka && is_nil kb then true else (da =? db) && compat_all kb ka.
Proof.
  intros da ka db kb. cbn [compat].
  destruct (tree_eqb (PB da ka) (PB db kb)); [reflexivity|].
  destruct (is_nil ka && is_nil kb); [reflexivity|].
  f_equal. induction ka as [|[n ca] r IH]; [reflexivity|].
  cbn [compat_all]. destruct (get n kb); rewrite IH; reflexivity.
Qed.

(** ---------- well-formed dag-pb trees ---------- *)
Inductive wf : tree -> Prop :=
| wf_PB : forall d k, SS k -> (forall n c, In (n, c) k -> n <> [] /\ wf c) -> wf (PB d k).

Lemma wfb_wf : forall t, wfb t = true -> wf t.
Proof.
  induction t as [d | d k IH] using tree_ind2; intro W; [discriminate W|].
  cbn [wfb] in W. apply andb_true_iff in W as [W1 W2].
  constructor; [apply names_sorted_SS; exact W1|].
  clear W1. induction k as [|[m e] r IHr]; intros n c Hin; [destruct Hin|].
  inversion IH as [|? ? He Hr]; subst. cbn [snd] in He.
  apply andb_true_iff in W2 as [W2 W3]. apply andb_true_iff in W2 as [Wn We].
  destruct Hin as [Hin|Hin].
  - injection Hin as -> ->. split; [|apply He; exact We].
    intro E. subst. discriminate Wn.
  - apply (IHr Hr W3). exact Hin.
Qed.

Lemma wf_get : forall d k n c, wf (PB d k) -> get n k = Some c -> n <> [] /\ wf c.
Proof.
  intros d k n c W G. inversion W as [? ? S Hk]; subst. apply Hk. apply get_in. exact G.
Qed.

Lemma wf_is_pb : forall t, wf t -> exists d k, t = PB d k.
Proof. intros t W. destruct W. eauto. Qed.

(** ---------- the Editor on paths that go through a child ---------- *)
Definition deep (cs : list change) : Prop := Forall (fun c => c_path c <> []) cs.

Lemma insert_at_cons : forall d k n p x c, p <> [] -> get n k = Some c ->
  insert_at (PB d k) (n :: p) x =
  match insert_at c p x with Some c' => Some (PB d (set n c' k)) | None => None end.
Proof.
  intros d k n p x c Hp G. destruct p as [|m p']; [contradiction|].
  cbn [insert_at]. rewrite G. reflexivity.
Qed.

Lemma rm_at_cons : forall d k n p c, p <> [] -> get n k = Some c ->
  rm_at (PB d k) (n :: p) =
  match rm_at c p with Some c' => Some (PB d (set n c' k)) | None => None end.
Proof.
  intros d k n p c Hp G. destruct p as [|m p']; [contradiction|].
  cbn [rm_at]. rewrite G. reflexivity.
Qed.

Lemma apply_change_prefix : forall ch c c1 d k n,
  c_path ch <> [] -> SS k -> get n k = Some c ->
  apply_change c ch = Some c1 ->
  apply_change (PB d k) (prefix n ch) = Some (PB d (set n c1 k)).
Proof.
  intros ch c c1 d k n Hp S G A. unfold apply_change in *. unfold prefix. cbn [c_type c_path c_after].
  destruct (c_type ch).
  - destruct (c_after ch) as [[xd xk|]|]; try discriminate A.
    rewrite (insert_at_cons d k n _ _ c Hp G), A. reflexivity.
  - rewrite (rm_at_cons d k n _ c Hp G), A. reflexivity.
  - rewrite (rm_at_cons d k n _ c Hp G).
    destruct (rm_at c (c_path ch)) as [c0|]; [|discriminate A].
    destruct (c_after ch) as [[xd xk|]|]; try discriminate A.
    rewrite (insert_at_cons d (set n c0 k) n _ _ c0 Hp) by (rewrite get_set, bytes_eqb_refl; reflexivity).
    rewrite A. rewrite set_set by exact S. reflexivity.
Qed.

Lemma apply_list_prefix : forall cs c c' d k n,
  deep cs -> SS k -> get n k = Some c ->
  apply_list c cs = Some c' ->
  apply_list (PB d k) (map (prefix n) cs) = Some (PB d (set n c' k)).
Proof.
  induction cs as [|ch cs IH]; intros c c' d k n D S G A.
  - cbn [apply_list map] in *. injection A as <-. rewrite set_same by assumption. reflexivity.
  - inversion D as [|? ? Hp D']; subst. cbn [apply_list map] in *.
    destruct (apply_change c ch) as [c1|] eqn:A1; [|discriminate A].
    rewrite (apply_change_prefix ch c c1 d k n Hp S G A1).
    rewrite (IH c1 c' d (set n c1 k) n D' (SS_set _ _ _ S)).
    + rewrite set_set by exact S. reflexivity.
    + rewrite get_set, bytes_eqb_refl. reflexivity.
    + exact A.
Qed.

Lemma apply_list_app : forall l1 l2 t,
  apply_list t (l1 ++ l2) =
  match apply_list t l1 with Some t' => apply_list t' l2 | None => None end.
Proof.
  induction l1 as [|c l1 IH]; intros l2 t; [reflexivity|].
  cbn [app apply_list]. destruct (apply_change t c); [apply IH| reflexivity].
Qed.

(** ---------- shape of a non-empty diff ---------- *)
Lemma deep_commons : forall fl kb l, deep (commons fl kb l).
Proof.
  intros fl kb l. induction l as [|[n ca] r IH]; [constructor|].
  cbn [commons]. destruct (get n kb) as [cb|]; [|exact IH].
  apply Forall_app. split; [|exact IH].
  destruct (tree_eqb ca cb); [constructor|].
  apply Forall_forall. intros c Hc. apply in_map_iff in Hc as (c0 & <- & _). discriminate.
Qed.

Lemma deep_removes : forall ka kb, deep (removes ka kb).
Proof.
  intros. unfold removes. apply Forall_forall. intros c Hc.
  apply in_map_iff in Hc as (nc & <- & _). discriminate.
Qed.
Lemma deep_adds : forall ka kb, deep (adds ka kb).
Proof.
  intros. unfold adds. apply Forall_forall. intros c Hc.
  apply in_map_iff in Hc as (nc & <- & _). discriminate.
Qed.

Lemma diff_cases : forall fl a b, tree_eqb a b = false ->
  diff fl a b = [mod_change a b] \/
  (exists da ka db kb, a = PB da ka /\ b = PB db kb /\ (fl = false -> da = db) /\
     diff fl a b = commons fl kb ka ++ removes ka kb ++ adds ka kb /\ deep (diff fl a b)).
Proof.
  intros fl a b E. destruct a as [da ka|da]; destruct b as [db kb|db].
  - rewrite diff_PB, E.
    destruct ((is_nil ka && is_nil kb) || (negb fl && negb (da =? db))) eqn:C; [left; reflexivity|].
    right. exists da, ka, db, kb. repeat split; try reflexivity.
    + intros ->. apply orb_false_iff in C as [_ C]. cbn [negb andb] in C.
      apply negb_false_iff in C. apply Z.eqb_eq in C. exact C.
    + apply Forall_app. split; [apply deep_commons|].
      apply Forall_app. split; [apply deep_removes| apply deep_adds].
  - left. cbn [diff]. rewrite E. reflexivity.
  - left. cbn [diff]. rewrite E. reflexivity.
  - left. cbn [diff]. rewrite E. reflexivity.
Qed.

(** ---------- folds that describe what the three groups of changes do ---------- *)
Definition upd (kb l kc : list (name * tree)) : list (name * tree) :=
  fold_left (fun k nc => match get (fst nc) kb with Some cb => set (fst nc) cb k | None => k end) l kc.
Definition fold_del (l k : list (name * tree)) : list (name * tree) :=
  fold_left (fun k nc => del (fst nc) k) l k.
Definition fold_set (l k : list (name * tree)) : list (name * tree) :=
  fold_left (fun k nc => set (fst nc) (snd nc) k) l k.

Lemma get_upd : forall kb m l kc,
  get m (upd kb l kc) = if is_some (get m l) && is_some (get m kb) then get m kb else get m kc.
Proof.
  intros kb m l. induction l as [|[n ca] r IH]; intro kc; [reflexivity|].
  unfold upd in *. cbn [fold_left fst get]. rewrite IH.
  destruct (bytes_eqb n m) eqn:E.
  - apply bytes_eqb_eq in E. subst. cbn [is_some andb].
    destruct (get m kb) as [cb|] eqn:Gb.
    + cbn [is_some]. rewrite andb_true_r, get_set, bytes_eqb_refl.
      destruct (is_some (get m r)); reflexivity.
    + cbn [is_some]. rewrite andb_false_r. reflexivity.
  - destruct (get n kb) as [cb|]; [|reflexivity].
    rewrite get_set, E. reflexivity.
Qed.

Lemma get_fold_del : forall m l k,
  get m (fold_del l k) = if is_some (get m l) then None else get m k.
Proof.
  intros m l. induction l as [|[n c] r IH]; intro k; [reflexivity|].
  unfold fold_del in *. cbn [fold_left fst get]. rewrite IH, get_del.
  destruct (bytes_eqb n m); [|reflexivity]. cbn [is_some]. destruct (is_some (get m r)); reflexivity.
Qed.

Lemma get_fold_set : forall m l k, SS l ->
  get m (fold_set l k) = match get m l with Some c => Some c | None => get m k end.
Proof.
  intros m l. induction l as [|[n c] r IH]; intros k S; [reflexivity|].
  inversion S as [|? ? Sr F]; subst.
  unfold fold_set in *. cbn [fold_left fst snd get]. rewrite (IH _ Sr), get_set.
  destruct (bytes_eqb n m) eqn:E; [|reflexivity].
  apply bytes_eqb_eq in E. subst. rewrite (get_head_none m c r F). reflexivity.
Qed.

Lemma SS_upd : forall kb l kc, SS kc -> SS (upd kb l kc).
Proof.
  intros kb l. induction l as [|[n ca] r IH]; intros kc S; [exact S|].
  unfold upd in *. cbn [fold_left fst]. apply IH. destruct (get n kb); [apply SS_set|]; exact S.
Qed.
Lemma SS_fold_del : forall l k, SS k -> SS (fold_del l k).
Proof.
  induction l as [|[n c] r IH]; intros k S; [exact S|].
  unfold fold_del in *. cbn [fold_left fst]. apply IH. apply SS_del. exact S.
Qed.
Lemma SS_fold_set : forall l k, SS k -> SS (fold_set l k).
Proof.
  induction l as [|[n c] r IH]; intros k S; [exact S|].
  unfold fold_set in *. cbn [fold_left fst snd]. apply IH. apply SS_set. exact S.
Qed.

Lemma get_filter_names : forall (f : name -> bool) m k,
  get m (filter (fun nc => f (fst nc)) k) = if f m then get m k else None.
Proof.
  intros f m k. induction k as [|[n c] r IH]; [destruct (f m); reflexivity|].
  cbn [filter fst get]. destruct (bytes_eqb n m) eqn:E.
  - apply bytes_eqb_eq in E. subst. destruct (f m) eqn:Fm; cbn [get].
    + rewrite bytes_eqb_refl. reflexivity.
    + rewrite IH. rewrite ?Fm. reflexivity.
  - destruct (f n); cbn [get]; rewrite ?E; exact IH.
Qed.

Lemma SS_filter : forall (p : name * tree -> bool) k, SS k -> SS (filter p k).
Proof.
  intros p k S. induction S as [|x r Sr IH F]; cbn [filter]; [constructor|].
  destruct (p x); [|exact IH]. constructor; [exact IH|].
  rewrite Forall_forall in *. intros y Hy. apply filter_In in Hy as [Hy _]. apply F. exact Hy.
Qed.

(** ---------- what applying each group does ---------- *)
Lemma removes_apply : forall d l k, SS l ->
  (forall n c, In (n, c) l -> get n k <> None) ->
  apply_list (PB d k) (map (fun nc => mkChange CRemove [fst nc] (Some (snd nc)) None) l) =
  Some (PB d (fold_del l k)).
Proof.
  intros d l. induction l as [|[n c] r IH]; intros k S Hin; [reflexivity|].
  inversion S as [|? ? Sr F]; subst.
  cbn [map apply_list fst snd]. unfold apply_change. cbn [c_type c_path rm_at].
  destruct (get n k) as [x|] eqn:G; [|exfalso; apply (Hin n c); [left; reflexivity| exact G]].
  unfold fold_del. cbn [fold_left fst]. apply (IH (del n k) Sr).
  intros m e Hm. rewrite get_del.
  destruct (bytes_eqb n m) eqn:E.
  - apply bytes_eqb_eq in E. subst. rewrite Forall_forall in F. specialize (F _ Hm).
    unfold nlt in F. cbn [fst] in F. rewrite bytes_ltb_irrefl in F. discriminate.
  - apply (Hin m e). right. exact Hm.
Qed.

Lemma adds_apply : forall d l k,
  (forall n c, In (n, c) l -> n <> [] /\ wf c) ->
  apply_list (PB d k) (map (fun nc => mkChange CAdd [fst nc] None (Some (snd nc))) l) =
  Some (PB d (fold_set l k)).
Proof.
  intros d l. induction l as [|[n c] r IH]; intros k Hin; [reflexivity|].
  destruct (Hin n c (or_introl eq_refl)) as [Hn Wc].
  destruct (wf_is_pb c Wc) as (cd & ck & ->).
  cbn [map apply_list fst snd]. unfold apply_change. cbn [c_type c_path c_after insert_at].
  destruct n as [|n0 n']; [contradiction|].
  unfold fold_set. cbn [fold_left fst snd]. apply IH.
  intros m e Hm. apply Hin. right. exact Hm.
Qed.

Section Commons.
(** induction hypothesis of the main theorem, for the children in [l] *)
Variable fl : bool.
Variable kb : list (name * tree).
Variable d : Z.

Lemma commons_apply : forall l kc,
  SS l -> SS kc ->
  (forall n cb, get n kb = Some cb -> wf cb) ->
  (forall n ca, In (n, ca) l ->
     get n kc = Some ca /\ n <> [] /\
     (forall cb, get n kb = Some cb -> tree_eqb ca cb = false ->
        diff fl ca cb = [mod_change ca cb] \/
        (deep (diff fl ca cb) /\ apply_list ca (diff fl ca cb) = Some cb))) ->
  apply_list (PB d kc) (commons fl kb l) = Some (PB d (upd kb l kc)).
Proof.
  induction l as [|[n ca] r IH]; intros kc Sl Sk Wb Hl; [reflexivity|].
  inversion Sl as [|? ? Sr F]; subst.
  destruct (Hl n ca (or_introl eq_refl)) as (G & Hn & Hd).
  assert (Hr : forall kc', SS kc' -> (forall m, bytes_eqb n m = false -> get m kc' = get m kc) ->
               apply_list (PB d kc') (commons fl kb r) = Some (PB d (upd kb r kc'))).
  { intros kc' Sk' Hsame. apply IH; try assumption.
    intros m cm Hm. destruct (Hl m cm (or_intror Hm)) as (Gm & Hm1 & Hm2).
    split; [|split; assumption].
    rewrite Hsame; [exact Gm|].
    apply bytes_eqb_neq. intro E. subst. rewrite Forall_forall in F. specialize (F _ Hm).
    unfold nlt in F. cbn [fst] in F. rewrite bytes_ltb_irrefl in F. discriminate. }
  cbn [commons]. unfold upd. cbn [fold_left fst]. fold (upd kb r).
  destruct (get n kb) as [cb|] eqn:Gb.
  - rewrite apply_list_app.
    assert (A : apply_list (PB d kc) (if tree_eqb ca cb then [] else map (prefix n) (diff fl ca cb)) =
                Some (PB d (set n cb kc))).
    { destruct (tree_eqb ca cb) eqn:E.
      - apply tree_eqb_eq in E. subst. cbn [apply_list]. rewrite set_same by assumption. reflexivity.
      - destruct (Hd cb eq_refl E) as [Hm|[Hdeep Happ]].
        + rewrite Hm. cbn [map apply_list]. unfold apply_change, prefix, mod_change.
          cbn [c_type c_path c_after rm_at]. rewrite G.
          destruct (wf_is_pb cb (Wb n cb Gb)) as (cd & ck & ->).
          cbn [insert_at]. destruct n as [|n0 n']; [contradiction|].
          rewrite set_del. reflexivity.
        + apply (apply_list_prefix _ ca); assumption. }
    rewrite A. apply Hr; [apply SS_set; exact Sk|].
    intros m E. rewrite get_set, E. reflexivity.
  - apply Hr; [exact Sk| reflexivity].
Qed.
End Commons.

(** ---------- the main theorem ---------- *)
Lemma final_kids : forall ka kb, SS ka -> SS kb ->
  fold_set (filter (fun nc => negb (is_some (get (fst nc) ka))) kb)
    (fold_del (filter (fun nc => negb (is_some (get (fst nc) kb))) ka) (upd kb ka ka)) = kb.
Proof.
  intros ka kb Sa Sb. apply kids_ext; [|exact Sb|].
  - apply SS_fold_set, SS_fold_del, SS_upd. exact Sa.
  - intro m. rewrite get_fold_set by (apply SS_filter; exact Sb).
    rewrite (get_filter_names (fun n => negb (is_some (get n ka)))).
    rewrite get_fold_del.
    rewrite (get_filter_names (fun n => negb (is_some (get n kb)))).
    rewrite get_upd.
    destruct (get m ka) as [ca|]; destruct (get m kb) as [cb|]; reflexivity.
Qed.

Lemma PB_apply_diff : forall fl d ka kb,
  wf (PB d ka) -> wf (PB d kb) ->
  (forall n ca cb, get n ka = Some ca -> get n kb = Some cb -> tree_eqb ca cb = false ->
     diff fl ca cb = [mod_change ca cb] \/
     (deep (diff fl ca cb) /\ apply_list ca (diff fl ca cb) = Some cb)) ->
  apply_list (PB d ka) (commons fl kb ka ++ removes ka kb ++ adds ka kb) = Some (PB d kb).
Proof.
  intros fl d ka kb Wa Wb Hsub.
  inversion Wa as [? ? Sa Ha]; subst. inversion Wb as [? ? Sb Hb]; subst.
  rewrite apply_list_app.
  rewrite (commons_apply fl kb d ka ka Sa Sa).
  - rewrite apply_list_app. unfold removes.
    rewrite removes_apply.
    + unfold adds. rewrite adds_apply.
      * rewrite final_kids by assumption. reflexivity.
      * intros n c Hin. apply filter_In in Hin as [Hin _]. apply Hb. exact Hin.
    + apply SS_filter. exact Sa.
    + intros n c Hin. apply filter_In in Hin as [Hin Hf]. cbn [fst] in Hf.
      rewrite get_upd. rewrite (in_get n c ka Sa Hin). cbn [is_some andb].
      destruct (get n kb); [discriminate Hf| discriminate].
  - intros n cb G. apply (wf_get d kb n cb Wb G).
  - intros n ca Hin. split; [apply in_get; assumption|].
    split; [apply (Ha n ca Hin)|].
    intros cb Gb E. apply (Hsub n ca cb); try assumption. apply in_get; assumption.
Qed.

(** apply a (diff a b) = b, Diff comparing the Data of the two nodes (switch off) *)
Lemma apply_diff_off : forall a b, wf a -> wf b -> tdata a = tdata b ->
  apply_list a (diff false a b) = Some b.
Proof.
  induction a as [d | d ka IH] using tree_ind2; intros b Wa Wb Hd; [inversion Wa|].
  destruct (wf_is_pb b Wb) as (db & kb & ->). cbn [tdata] in Hd. subst db.
  destruct (tree_eqb (PB d ka) (PB d kb)) eqn:E.
  - rewrite diff_PB, E. apply tree_eqb_eq in E. rewrite E. reflexivity.
  - rewrite diff_PB, E, Z.eqb_refl. cbn [negb andb]. rewrite orb_false_r.
    destruct (is_nil ka && is_nil kb) eqn:N.
    + (* a Mod at the root is impossible: same Data, not both link-less *)
      exfalso. destruct ka; destruct kb; cbn [is_nil andb] in N; try discriminate N.
      rewrite tree_eqb_refl in E. discriminate E.
    + 
      apply PB_apply_diff; try assumption.
      intros n ca cb Ga Gb Ec.
      destruct (diff_cases false ca cb Ec) as [Hm|(da & ka' & db & kb' & Ea & Eb & Hdd & _ & Hdeep)];
        [left; exact Hm|].
      right. split; [exact Hdeep|].
      rewrite Forall_forall in IH. apply (IH (n, ca) (get_in _ _ _ Ga)).
      * apply (wf_get d ka n ca Wa Ga).
      * apply (wf_get d kb n cb Wb Gb).
      * subst. cbn [tdata]. apply Hdd. reflexivity.
Qed.

(** Diff(a, a) is empty *)
Lemma diff_refl : forall fl a, diff fl a a = [].
Proof.
  intros fl a. destruct a as [d k|d].
  - rewrite diff_PB, tree_eqb_refl. reflexivity.
  - cbn [diff]. rewrite tree_eqb_refl. reflexivity.
Qed.

(** a non-empty diff only for different trees, and conversely *)
Lemma diff_nil_off : forall a b, wf a -> wf b -> tdata a = tdata b -> diff false a b = [] -> a = b.
Proof.
  intros a b Wa Wb Hd E. pose proof (apply_diff_off a b Wa Wb Hd) as A.
  rewrite E in A. cbn [apply_list] in A. injection A as ->. reflexivity.
Qed.

(** the current code coincides with the repaired Diff on compatible pairs *)
Lemma diff_compat : forall a b, compat a b = true -> diff true a b = diff false a b.
Proof.
  induction a as [d | d ka IH] using tree_ind2; intros b C.
  - destruct b; reflexivity.
  - destruct b as [db kb|db]; [|reflexivity].
    rewrite compat_PB in C. rewrite !diff_PB.
    destruct (tree_eqb (PB d ka) (PB db kb)); [reflexivity|].
    destruct (is_nil ka && is_nil kb) eqn:N; [reflexivity|].
    apply andb_true_iff in C as [C1 C2]. rewrite C1. cbn [negb andb orb].
    f_equal. clear N C1.
    induction ka as [|[n ca] r IHr]; [reflexivity|].
    inversion IH as [|? ? Hc Hr]; subst. cbn [snd] in Hc.
    cbn [compat_all commons] in *. destruct (get n kb) as [cb|].
    + apply andb_true_iff in C2 as [C2 C3]. rewrite (Hc cb C2), (IHr Hr C3). reflexivity.
    + apply (IHr Hr C2).
Qed.

Lemma apply_diff_current : forall a b, wf a -> wf b -> tdata a = tdata b -> compat a b = true ->
  apply_list a (diff true a b) = Some b.
Proof. intros a b Wa Wb Hd C. rewrite (diff_compat a b C). apply apply_diff_off; assumption. Qed.

(** ---------- the defect of the current code ---------- *)
Definition wit_a : tree := PB 0 [([120], PB 0 [([121], PB 1 [])])].
Definition wit_b : tree := PB 0 [([120], PB 2 [])].

Lemma kind_change_refuted :
  wfb wit_a = true /\ wfb wit_b = true /\ tdata wit_a = tdata wit_b /\
  apply_list wit_a (diff true wit_a wit_b) = Some (PB 0 [([120], PB 0 [])]) /\
  apply_list wit_a (diff true wit_a wit_b) <> Some wit_b /\
  apply_list wit_a (diff false wit_a wit_b) = Some wit_b.
Proof. vm_compute. repeat split; try reflexivity. intro E; discriminate E. Qed.
