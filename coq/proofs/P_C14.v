From Coq Require Import List ZArith Bool Lia.
From V Require Import lib.Verdict lib.C11_DagPb model.M_C14.
Import ListNotations.
Open Scope Z_scope.

Definition wit_a : tree := PB 0 [([120], PB 0 [([121], PB 1 [])])].
Definition wit_b : tree := PB 0 [([120], PB 2 [])].

Lemma kind_change_refuted :
  wfb wit_a = true /\ wfb wit_b = true /\ tdata wit_a = tdata wit_b /\
  apply_list wit_a (diff true wit_a wit_b) = Some (PB 0 [([120], PB 0 [])]) /\
  apply_list wit_a (diff true wit_a wit_b) <> Some wit_b /\
  apply_list wit_a (diff false wit_a wit_b) = Some wit_b.
Proof. vm_compute. repeat split; try reflexivity. intro E; discriminate E. Qed.
